import RagcModel.Model.Segment
import Driver.Proto
namespace Driver.HSegment
open Driver
open Ragc.Segment

def segToString (s : Segment) : String :=
  let b (x : Bool) : String := if x then "1" else "0"
  s!"{toHex (s.data.map UInt8.toNat)}:{s.frontKmer.toNat}:{s.backKmer.toNat}:{b s.frontKmerIsDir}:{b s.backKmerIsDir}"

def segsReply : Option (List Segment) → String
  | none => "panic seg-split"
  | some segs => "ok " ++ " ".intercalate (segs.map segToString)

/-- `seg-split <ws|plain> <k> <min_segment_size> <hex contig> <[splitter values]>`:
    `ws` = `split_at_splitters_with_size`, `plain` = `split_at_splitters` (which has no
    `min_segment_size`; the field is ignored).  Reply: `ok` followed by one
    `hexdata:front:back:frontdir:backdir` per segment, in order. -/
def handleSegment : List String → Option String
  | ["seg-split", variant, k, minSeg, hex, spl] => do
    let k ← k.toNat?
    let minSeg ← minSeg.toNat?
    let bytes ← parseHex hex
    let spl ← parseNatList spl
    let contig := bytes.map UInt8.ofNat
    let set := spl.map UInt64.ofNat
    let isSpl : UInt64 → Bool := fun v => set.contains v
    match variant with
    | "ws" => some (segsReply (splitAtSplittersWithSize contig isSpl k minSeg))
    | "plain" => some (segsReply (splitAtSplitters contig isSpl k))
    | _ => none
  | _ => none

end Driver.HSegment

namespace Driver
export HSegment (handleSegment)
end Driver
