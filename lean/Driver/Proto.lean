/-
Line protocol helpers for the model driver. One request per line, fields separated by a single
space; byte strings are lower-case hex ("-" for the empty string); lists of naturals are
`[a,b,c]` (`[]` when empty). Replies are one line. No defaults: anything unparsable is `bad-op`.
-/
namespace Driver

def hexVal (c : Char) : Option Nat :=
  if '0' ≤ c ∧ c ≤ '9' then some (c.toNat - '0'.toNat)
  else if 'a' ≤ c ∧ c ≤ 'f' then some (c.toNat - 'a'.toNat + 10)
  else if 'A' ≤ c ∧ c ≤ 'F' then some (c.toNat - 'A'.toNat + 10)
  else none

def parseHexAux : List Char → Array Nat → Option (Array Nat)
  | [], acc => some acc
  | [_], _ => none
  | a :: b :: rest, acc =>
    match hexVal a, hexVal b with
    | some x, some y => parseHexAux rest (acc.push (x * 16 + y))
    | _, _ => none

/-- hex string → list of byte values (`-` is the empty string). -/
def parseHex (s : String) : Option (List Nat) :=
  if s = "-" then some [] else (parseHexAux s.toList #[]).map Array.toList

def hexDigit (n : Nat) : Char :=
  if n < 10 then Char.ofNat (n + '0'.toNat) else Char.ofNat (n - 10 + 'a'.toNat)

def toHex (bs : List Nat) : String :=
  if bs.isEmpty then "-" else
  String.ofList (bs.foldr (fun b acc => hexDigit (b / 16 % 16) :: hexDigit (b % 16) :: acc) [])

def parseNatList (s : String) : Option (List Nat) :=
  if s = "[]" then some [] else
  if s.length < 2 then none else
  let inner := (s.drop 1).dropEnd 1 |>.toString
  (inner.splitOn ",").mapM (fun t => t.toNat?)

def natListToString (l : List Nat) : String :=
  "[" ++ ",".intercalate (l.map toString) ++ "]"

def optNat (o : Option Nat) : String := match o with | some v => toString v | none => "none"

end Driver
