import RagcModel.Model.Queue
import Driver.Proto
/-!
`q-replay <cap> <nthreads> <trace>`: replay an under-lock event log of the real
`MemoryBoundedQueue` (hook H2) through `Ragc.Queue.step`.

`<trace>` = observed events joined by `,` (`-` when empty); one observed event =
`kind:tid:id:prio:size:len:cur:closed` where `kind` is

    pe pw pk pr pa   q.push.enter|wait|wake|refuse|admit
    tr tb ta         q.trypush.refuse|wouldblock|admit
    le lw lk ls lt   q.pull.enter|wait|wake|eos|take
    te tt            q.trypull.empty|take
    cl               q.close

`tid` is the thread index (0-based), `(id,prio,size)` the item the harness knows the call carries
(zeros when the call has none), `(len,cur,closed)` the snapshot logged with the event.

The log does not say which waiter a `notify_one` picked. The replay resolves it by looking ahead:
the waiter whose wake event comes first (if none wakes any more, the lowest waiting thread). A wake
of a thread that the model has not notified is replayed as a spurious wake-up and counted.

Reply: `ok <events> <spurious>` or `bad <index> <kind> <reason>`.
-/
namespace Driver.HQueue
open Driver
open Ragc.Queue

structure QObs where
  kind : String
  t : Nat
  it : Item
  len : Nat
  cur : Nat
  closed : Bool

def parseQObs (w : String) : Option QObs :=
  match w.splitOn ":" with
  | [k, t, id, pr, sz, len, cur, cl] => do
    let t ← t.toNat?
    let id ← id.toNat?
    let pr ← pr.toNat?
    let sz ← sz.toNat?
    let len ← len.toNat?
    let cur ← cur.toNat?
    let cl ← cl.toNat?
    if cl > 1 then none else
    some { kind := k, t := t, it := ⟨id, pr, sz⟩, len := len, cur := cur, closed := cl == 1 }
  | _ => none

def parseQTrace (s : String) : Option (List QObs) :=
  if s = "-" then some [] else (s.splitOn ",").mapM parseQObs

/-- index of the first thread satisfying `p` -/
def firstIdx (p : TStatus → Bool) (l : List TStatus) : Option Nat :=
  let i := l.findIdx p
  if i < l.length then some i else none

/-- the waiter of a `notify_one`: the one that wakes first in the rest of the log -/
def chooseWaiter (p : TStatus → Bool) (wakeKind : String) (thr : List TStatus) (rest : List QObs) :
    Option Nat :=
  if thr.any p then
    match rest.find? (fun o => o.kind == wakeKind && (match thr[o.t]? with | some st => p st | none => false)) with
    | some o => some o.t
    | none => firstIdx p thr
  else none

/-- Observed event → model event (`Except` reason). The Bool says "replayed as spurious". -/
def resolve (s : State) (o : QObs) (rest : List QObs) : Except String (Event × Bool) :=
  let st := s.thr[o.t]?
  let carried (k : Event) : Except String (Event × Bool) :=
    match st with
    | some x => if x.item? = some o.it then .ok (k, false) else .error "item-mismatch"
    | none => .error "no-such-thread"
  -- the thread that completes is idle afterwards, so it is never its own waiter
  let thrAfter := s.thr.set o.t .idle
  match o.kind with
  | "pe" => .ok (.pushEnter o.t o.it, false)
  | "pw" => carried (.pushWait o.t)
  | "pk" =>
    match st with
    | some (.waitNF it) => if it = o.it then .ok (.pushSpur o.t, true) else .error "item-mismatch"
    | _ => carried (.pushWake o.t)
  | "pr" => carried (.pushRefuse o.t)
  | "pa" => carried (.pushAdmit o.t (chooseWaiter TStatus.isWaitNE "lk" thrAfter rest))
  | "tr" => .ok (.tryPushRefuse o.t o.it, false)
  | "tb" => .ok (.tryPushWouldBlock o.t o.it, false)
  | "ta" => .ok (.tryPushAdmit o.t o.it (chooseWaiter TStatus.isWaitNE "lk" thrAfter rest), false)
  | "le" => .ok (.pullEnter o.t, false)
  | "lw" => .ok (.pullWait o.t, false)
  | "lk" =>
    match st with
    | some .waitNE => .ok (.pullSpur o.t, true)
    | _ => .ok (.pullWake o.t, false)
  | "ls" => .ok (.pullEos o.t, false)
  | "lt" => .ok (.pullTake o.t o.it (chooseWaiter TStatus.isWaitNF "pk" thrAfter rest), false)
  | "te" => .ok (.tryPullEmpty o.t, false)
  | "tt" => .ok (.tryPullTake o.t o.it (chooseWaiter TStatus.isWaitNF "pk" thrAfter rest), false)
  | "cl" => .ok (.close o.t, false)
  | _ => .error "unknown-kind"

/-- why a take is not enabled, for the reply -/
def takeReason (s : State) (it : Item) : String :=
  if !s.items.contains it then "take-not-queued"
  else if !s.items.all (fun y => decide (y.prio ≤ it.prio)) then "take-not-maximal"
  else "not-enabled"

def replayQ (cap : Nat) : State → Nat → Nat → List QObs → String
  | _, i, spur, [] => s!"ok {i} {spur}"
  | s, i, spur, o :: rest =>
    match resolve s o rest with
    | .error r => s!"bad {i} {o.kind} {r}"
    | .ok (e, sp) =>
      match step cap s e with
      | none =>
        let r := if o.kind == "lt" || o.kind == "tt" then takeReason s o.it else "not-enabled"
        s!"bad {i} {o.kind} {r}"
      | some s' =>
        if s'.items.length ≠ o.len then s!"bad {i} {o.kind} snapshot-len model={s'.items.length} log={o.len}"
        else if s'.cur ≠ o.cur then s!"bad {i} {o.kind} snapshot-cur model={s'.cur} log={o.cur}"
        else if s'.closed ≠ o.closed then s!"bad {i} {o.kind} snapshot-closed model={s'.closed} log={o.closed}"
        else replayQ cap s' (i + 1) (if sp then spur + 1 else spur) rest

def handleQueue : List String → Option String
  | ["q-replay", cap, n, trace] => do
    let cap ← cap.toNat?
    let n ← n.toNat?
    let tr ← parseQTrace trace
    some (replayQ cap (init n) 0 0 tr)
  | _ => none

end Driver.HQueue

namespace Driver
export HQueue (handleQueue)
end Driver
