import Driver.Proto
import Driver.HKmer
import Driver.HTuple
import Driver.HSegment
import Driver.HQueue
import Driver.HContainer
import Driver.HRange
import Driver.HColl
import Driver.HLz
import Driver.HSplitters
import Driver.HPipe
import Driver.HReader
import Driver.HAgc3
import Driver.HFasta
import Driver.HCli
import Driver.HFileIO
import Driver.HWriter
/-!
`ragc_model`: executes the Lean models behind a one-line-in / one-line-out protocol.
Every handler returns `none` for a request it does not understand; the reply is then `bad-op`.
-/
namespace Driver

def handlers : List (List String → Option String) :=
  [handleKmer, handleTuple, handleSegment, handleQueue, handleContainer, handleRange, handleColl, handleLz, handleSplitters, handlePipe, handleReader, handleAgc3, handleFasta, handleCli, handleFileIO, handleWriter]

def dispatch (line : String) : String :=
  let fields := line.trimAscii.toString.splitOn " "
  match handlers.findSome? (fun h => h fields) with
  | some r => r
  | none => "bad-op"

partial def loop (hin : IO.FS.Stream) (hout : IO.FS.Stream) : IO Unit := do
  let line ← hin.getLine
  if line.isEmpty then return ()
  hout.putStrLn (dispatch line)
  hout.flush
  loop hin hout

end Driver

def main : IO Unit := do
  Driver.loop (← IO.getStdin) (← IO.getStdout)
