import RagcModel.Model.Splitters
import Driver.Proto
namespace Driver.HSplitters
open Driver
open Ragc.Splitters

/-- `hex,hex,…` (each `-` for an empty contig); `[]` for no contigs at all. -/
def splParseContigs (s : String) : Option (List (List UInt64)) :=
  if s = "[]" then some [] else
  (s.splitOn ",").mapM (fun h => (parseHex h).map (fun l => l.map UInt64.ofNat))

def splU64List (l : List UInt64) : String := natListToString (l.map UInt64.toNat)

def splPickToString (p : Pick) : String := s!"{p.pos}:{p.kmer.toNat}:{if p.atEnd then 1 else 0}"

def handleSplitters : List String → Option String
  | ["splitters", k, seg, contigs] => do
    let k ← k.toNat?
    let seg ← seg.toNat?
    let cs ← splParseContigs contigs
    let (sp, si, du) := determineSplitters cs k seg
    some s!"ok {splU64List (asSet sp)} | {splU64List (asSet si)} | {splU64List (asSet du)}"
  | ["splitters-first", k, seg, recs] => do
    -- `hexheader:hexcontig,…` : the records of a (PanSN) file, first-sample variant
    let k ← k.toNat?
    let seg ← seg.toNat?
    let rs ← (recs.splitOn ",").mapM (fun r =>
      match r.splitOn ":" with
      | [h, c] => do
        let h ← parseHex h
        let c ← parseHex c
        some (h, c.map UInt64.ofNat)
      | _ => none)
    let (sp, si, du) := determineSplittersFirstSample rs k seg
    some s!"ok {splU64List (asSet sp)} | {splU64List (asSet si)} | {splU64List (asSet du)}"
  | ["splitters-picks", k, seg, cands, contig] => do
    -- the second pass on one contig against an explicit (sorted) candidate list, with positions
    let k ← k.toNat?
    let seg ← seg.toNat?
    let cands ← parseNatList cands
    let c ← parseHex contig
    let arr := (cands.map UInt64.ofNat).toArray
    let picks := findPicks (memSorted arr) k seg (c.map UInt64.ofNat)
    some ("ok [" ++ ",".intercalate (picks.map splPickToString) ++ "]")
  | ["rm-nonsingletons", l] => do
    let l ← parseNatList l
    let l := l.map UInt64.ofNat
    let (s2, d2) := removeNonSingletonsWithDuplicates l
    some s!"ok {splU64List (removeNonSingletons l)} | {splU64List (duplicatesOf l)} | {splU64List s2} | {splU64List d2}"
  | _ => none

end Driver.HSplitters

namespace Driver
export HSplitters (handleSplitters)
end Driver
