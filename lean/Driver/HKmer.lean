import RagcModel.Model.Kmer
import Driver.Proto
namespace Driver.HKmer
open Driver
open Ragc.Kmer

def symList (l : List Nat) : List UInt64 := l.map UInt64.ofNat

def handleKmer : List String → Option String
  | ["kmer-feed", k, hex] => do
    let k ← k.toNat?
    let syms ← parseHex hex
    let km := feed (new k) (symList syms)
    some s!"ok {km.dir.toNat} {km.rc.toNat} {km.cur} {(data km).toNat} {isDirOriented km}"
  | ["kmer-enum", k, hex] => do
    let k ← k.toNat?
    let syms ← parseHex hex
    some ("ok " ++ natListToString ((enumerateKmers (symList syms) k).map UInt64.toNat))
  | ["kmer-rc", k, v] => do
    let k ← k.toNat?
    let v ← v.toNat?
    some s!"ok {(reverseComplementKmer (UInt64.ofNat v) k).toNat}"
  | ["kmer-canon", k, v] => do
    let k ← k.toNat?
    let v ← v.toNat?
    some s!"ok {(canonicalKmer (UInt64.ofNat v) k).toNat}"
  | _ => none

end Driver.HKmer

namespace Driver
export HKmer (handleKmer)
end Driver
