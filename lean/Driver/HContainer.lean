import RagcModel.Model.Container
import Driver.Proto
/-!
Driver requests for the container model (C13, C14).

* `varint-enc <n>`                     → `ok <hex>`
* `varint-dec <chk|rel> <hex>`         → `ok <value> <rest-hex>` | `err` | `panic varint.rs:58`
* `arch-run <ops>`                     → `ok <file-hex> <results> <log> <pending-count>`
    ops: `;`-separated (`-` = none): `r,<name-hex>` | `a,<sid>,<data-hex>,<meta>` |
    `b,<sid>,<data-hex>,<meta>` | `f` | `s,<sid>,<raw>`;
    results: one token per op joined by `,`: register → id, add/flush → `k` | `e`, others `k`;
    log: streams joined by `|` (`-` if none), each `<name-hex>:<meta>/<data-hex>,…` (`-` if no parts).
* `arch-open <chk|rel|fix> <seekmax> <hex>` → `ok <dir> <parts>` | `err` | `panic <site>` | `alloc <n>`
    dir: streams joined by `|` (`-` if none), each `<name-hex>:<raw>:<off>/<size>,…` (`-` if none);
    parts: for every stream the `get_part_by_id` answers, same shape, each `<meta>/<data-hex>` or
    `E` | `P<site>` | `A<n>`.
* `arch-reads <chk|rel|fix> <seekmax> <hex> <reads>` → `ok <answers>` | open outcome as above
    reads: `;`-separated `i,<sid>,<pid>` (by id) | `n,<sid>` (next); answers joined by `,`:
    `<meta>/<data-hex>` | `none` | `E` | `P<site>` | `A<n>`.
* `arch-meta <chk|rel|fix> <seekmax> <hex>` → `ok <names> <ids> <nparts> <raws>`: stream names
    (hex, `,`-joined), `get_stream_id` of each name, `get_num_parts`, `get_raw_size`.
* `arch-prefix <chk|rel|fix> <seekmax> <hex> <offsets>` → `ok <tokens>`: the outcome class of
    opening `take n` for each `n` of the nat list: `o` | `e` | `p:<site>` | `a:<n>`, `,`-joined.
-/
namespace Driver.HContainer
open Driver
open Ragc.Varint Ragc.Container

def splitOrEmpty (s : String) (sep : String) : List String :=
  if s = "-" then [] else s.splitOn sep

def parseOp (s : String) : Option Op :=
  match s.splitOn "," with
  | ["r", name] => do some (.register (← parseHex name))
  | ["a", sid, d, m] => do some (.add (← sid.toNat?) (← parseHex d) (← m.toNat?))
  | ["b", sid, d, m] => do some (.addBuf (← sid.toNat?) (← parseHex d) (← m.toNat?))
  | ["f"] => some .flush
  | ["s", sid, v] => do some (.setRaw (← sid.toNat?) (← v.toNat?))
  | _ => none

def parseReadOp (s : String) : Option ReadOp :=
  match s.splitOn "," with
  | ["i", sid, pid] => do some (.byId (← sid.toNat?) (← pid.toNat?))
  | ["n", sid] => do some (.next (← sid.toNat?))
  | _ => none

def joinOr (sep : String) (xs : List String) : String :=
  if xs.isEmpty then "-" else sep.intercalate xs

def resultTok : OpResult → String
  | .id n => toString n
  | .done => "k"
  | .failed => "e"

def blobTok (b : Blob) : String := s!"{b.2}/{toHex b.1}"

def logStr (a : Spec.Log) : String :=
  joinOr "|" ((a.names.zip a.parts).map fun (n, ps) => toHex n ++ ":" ++ joinOr "," (ps.map blobTok))

def outcomeTok {α : Type} (f : α → String) : Outcome α → String
  | .ok a => f a
  | .err => "E"
  | .panic s => "P" ++ s
  | .alloc n => "A" ++ toString n

def outcomeHead {α : Type} (f : α → String) : Outcome α → String
  | .ok a => "ok " ++ f a
  | .err => "err"
  | .panic s => "panic " ++ s
  | .alloc n => "alloc " ++ toString n

/-- The three readers behind one interface: (open, byId, next). -/
structure ReaderImpl where
  openB : List Nat → Outcome Reader
  byId : Reader → Nat → Nat → Outcome Blob
  next : Reader → Nat → Reader × Outcome (Option Blob)

def readerImpl (variant : String) (seekMax : Nat) : Option ReaderImpl :=
  match variant with
  | "chk" => let e : Env := ⟨true, seekMax⟩; some ⟨openBytes e, getPartById e, getPart e⟩
  | "rel" => let e : Env := ⟨false, seekMax⟩; some ⟨openBytes e, getPartById e, getPart e⟩
  | "fix" => some ⟨openBytesFixed seekMax, getPartByIdFixed seekMax, getPartFixed seekMax⟩
  | _ => none

def dirStr (dir : List Stream) : String :=
  joinOr "|" (dir.map fun st =>
    s!"{toHex st.name}:{st.rawSize}:" ++ joinOr "," (st.parts.map fun p => s!"{p.off}/{p.size}"))

def partsStr (ri : ReaderImpl) (r : Reader) : String :=
  joinOr "|" ((List.range r.dir.length).map fun sid =>
    joinOr "," ((List.range (getNumParts r sid)).map fun pid => outcomeTok blobTok (ri.byId r sid pid)))

def runReadsImpl (ri : ReaderImpl) : Reader → List ReadOp → List String
  | _, [] => []
  | r, .byId sid pid :: ops => outcomeTok blobTok (ri.byId r sid pid) :: runReadsImpl ri r ops
  | r, .next sid :: ops =>
    let x := ri.next r sid
    outcomeTok (fun o => match o with | some b => blobTok b | none => "none") x.2 :: runReadsImpl ri x.1 ops

def classTok : Outcome Reader → String
  | .ok _ => "o"
  | .err => "e"
  | .panic s => "p:" ++ s
  | .alloc n => "a:" ++ toString n

def handleContainer : List String → Option String
  | ["varint-enc", n] => do
    let n ← n.toNat?
    some ("ok " ++ toHex (writeVarint n))
  | ["varint-dec", variant, hex] => do
    let bs ← parseHex hex
    let env : Env ← match variant with
      | "chk" => some ⟨true, 0⟩ | "rel" => some ⟨false, 0⟩ | _ => none
    some (outcomeHead (fun (x : Nat × List Nat) => s!"{x.1} {toHex x.2}") (readVarintO env bs))
  | ["arch-run", ops] => do
    let ops ← (splitOrEmpty ops ";").mapM parseOp
    let s := run ops
    let res := runResults State.init ops
    let a := Spec.spec ops
    some s!"ok {toHex (close s)} {joinOr "," (res.map resultTok)} {logStr a} {a.pending.length}"
  | ["arch-open", variant, seekMax, hex] => do
    let ri ← readerImpl variant (← seekMax.toNat?)
    let bs ← parseHex hex
    some (outcomeHead (fun r => dirStr r.dir ++ " " ++ partsStr ri r) (ri.openB bs))
  | ["arch-reads", variant, seekMax, hex, reads] => do
    let ri ← readerImpl variant (← seekMax.toNat?)
    let bs ← parseHex hex
    let rops ← (splitOrEmpty reads ";").mapM parseReadOp
    some (outcomeHead (fun r => joinOr "," (runReadsImpl ri r rops)) (ri.openB bs))
  | ["arch-meta", variant, seekMax, hex] => do
    let ri ← readerImpl variant (← seekMax.toNat?)
    let bs ← parseHex hex
    some (outcomeHead (fun r =>
      let names := getStreamNames r
      let sids := List.range r.dir.length
      joinOr "," (names.map toHex) ++ " " ++
      joinOr "," (names.map fun n => optNat (getStreamId r n)) ++ " " ++
      joinOr "," (sids.map fun i => toString (getNumParts r i)) ++ " " ++
      joinOr "," (sids.map fun i => toString (getRawSize r i))) (ri.openB bs))
  | ["arch-prefix", variant, seekMax, hex, offs] => do
    let ri ← readerImpl variant (← seekMax.toNat?)
    let bs ← parseHex hex
    let offs ← parseNatList offs
    some ("ok " ++ joinOr "," (offs.map fun n => classTok (ri.openB (bs.take n))))
  | _ => none

end Driver.HContainer

namespace Driver
export HContainer (handleContainer)
end Driver
