import RagcModel.Model.Agc3
import Driver.Proto
/-!
Requests of the `agc` family: the independent AGC v3 decoder (`Model/Agc3.lean`, C02/C01).

* `agc-frames <hex archive>`                     → `ok <hex>,<hex>,…` every ZSTD frame of the archive in
                                                   the decoder's order | `err <message>`
* `agc-decode <hex archive> <hex>,<hex>,…`       (second word: the decompression of every frame of
                                                   `agc-frames`, same order; `-` = empty)
      → `ok <k> <min_match> <segment_size> <samples> <violations> <stats>` | `err <message>`
  - samples: samples joined by `;` (`!` = none); a sample is `<hexname>=<contigs>`, contigs joined
    by `,` (nothing after `=` when there is none); a contig is `<hexname>/<descs>/<hexbases>`;
    descs are `group.ingroup.rev.rawlen` joined by `+` (`-` = none)
  - violations: joined by `;` (`-` = none), each `rule:detail` with blanks written as `_`
  - stats: `name=value` joined by `,`
  Messages never contain blanks.
-/
namespace Driver.HAgc3
open Driver
open Ragc.Agc3

def noBlanks (s : String) : String := s.map fun c => if c = ' ' then '_' else c

def frameKey (f : List Nat) : Nat × Nat :=
  f.foldl (fun (st : Nat × Nat) b => (st.1 + 1, (st.2 * 131 + b) % 1000000007)) (0, 0)

/-- ZSTD as a finite table frame ↦ content (keyed by length and a cheap checksum first). -/
def tableZd (tbl : Array ((Nat × Nat) × List Nat × List Nat)) (f : List Nat) : Option (List Nat) :=
  let key := frameKey f
  (tbl.find? fun e => e.1 == key && e.2.1 == f).map (·.2.2)

def descToString (d : Ragc.Details.Seg) : String :=
  s!"{d.group}.{d.inGroup}.{if d.rev then 1 else 0}.{d.rawLen}"

def contigToString (c : DContig) : String :=
  toHex c.name ++ "/" ++ (if c.descs.isEmpty then "-" else "+".intercalate (c.descs.map descToString))
    ++ "/" ++ toHex c.bases

def sampleToString (s : DSample) : String :=
  toHex s.name ++ "=" ++ ",".intercalate (s.contigs.map contigToString)

def decodedToString (d : Decoded) : String :=
  let samples := if d.samples.isEmpty then "!" else ";".intercalate (d.samples.map sampleToString)
  let viol := if d.violations.isEmpty then "-" else ";".intercalate (d.violations.map noBlanks)
  let stats := ",".intercalate (d.stats.map fun p => s!"{p.1}={p.2}")
  s!"ok {d.k} {d.mm} {d.segSize} {samples} {viol} {stats}"

def handleAgc3 : List String → Option String
  | ["agc-frames", hex] => do
    let bs ← parseHex hex
    match frames bs with
    | .ok fs => some ("ok " ++ ",".intercalate (fs.map toHex))
    | .error e => some ("err " ++ noBlanks e)
  | ["agc-decode", hex, plains] => do
    let bs ← parseHex hex
    let ps ← (plains.splitOn ",").mapM parseHex
    match frames bs with
    | .error e => some ("err " ++ noBlanks e)
    | .ok fs =>
      if fs.length ≠ ps.length then some s!"err frame-count-mismatch:{fs.length}:{ps.length}"
      else
        let tbl := (List.zip fs ps).toArray.map fun fp => (frameKey fp.1, fp.1, fp.2)
        match decodeArchive bs (tableZd tbl) with
        | .ok d => some (decodedToString d)
        | .error e => some ("err " ++ noBlanks e)
  | _ => none

end Driver.HAgc3

namespace Driver
export HAgc3 (handleAgc3)
end Driver
