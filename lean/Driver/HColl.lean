import RagcModel.Model.CollVarint
import RagcModel.Model.Zigzag
import RagcModel.Model.Names
import RagcModel.Model.Details
import Driver.Proto
/-!
Driver requests for the collection codecs (C03). Encodings inside one protocol word:

* name            hex bytes, `-` for the empty name
* name list       names joined by `,`; `.` for the empty list
* name table      samples joined by `;`, each a name list; `!` for zero samples
* segment         `g:i:r:l` (group id, in-group id, 0/1, raw length)
* contig segs     segments joined by `/`; `-` for a contig without segments
* segment table   samples joined by `;`, each = contigs joined by `,` (`.` = no contigs); `!` = zero samples
-/
namespace Driver.HColl
open Driver
open Ragc.CollVarint Ragc.Zigzag Ragc.Names Ragc.Details

def parseNameList (s : String) : Option (List Name) :=
  if s = "." then some [] else (s.splitOn ",").mapM parseHex

def parseNameTable (s : String) : Option (List (List Name)) :=
  if s = "!" then some [] else (s.splitOn ";").mapM parseNameList

def nameListToString (l : List Name) : String :=
  if l.isEmpty then "." else ",".intercalate (l.map toHex)

def nameTableToString (t : List (List Name)) : String :=
  if t.isEmpty then "!" else ";".intercalate (t.map nameListToString)

def parseSeg (s : String) : Option Seg :=
  match s.splitOn ":" with
  | [g, i, r, l] => do
    let g ← g.toNat?
    let i ← i.toNat?
    let r ← r.toNat?
    let l ← l.toNat?
    if g < U32 ∧ i < U32 ∧ l < U32 ∧ r < 2 then
      some { group := g, inGroup := i, rev := r == 1, rawLen := l }
    else none
  | _ => none

def parseContigSegs (s : String) : Option (List Seg) :=
  if s = "-" then some [] else (s.splitOn "/").mapM parseSeg

def parseSampleSegs (s : String) : Option (List (List Seg)) :=
  if s = "." then some [] else (s.splitOn ",").mapM parseContigSegs

def parseSegTable (s : String) : Option Batch :=
  if s = "!" then some [] else (s.splitOn ";").mapM parseSampleSegs

def segToString (s : Seg) : String :=
  s!"{s.group}:{s.inGroup}:{if s.rev then 1 else 0}:{s.rawLen}"

def contigSegsToString (l : List Seg) : String :=
  if l.isEmpty then "-" else "/".intercalate (l.map segToString)

def sampleSegsToString (l : List (List Seg)) : String :=
  if l.isEmpty then "." else ",".intercalate (l.map contigSegsToString)

def segTableToString (b : Batch) : String :=
  if b.isEmpty then "!" else ";".intercalate (b.map sampleSegsToString)

def resToString {α : Type} (f : α → String) : Res α → String
  | .ok a => "ok " ++ f a
  | .err => "err"
  | .panic => "panic"

def optToString {α : Type} (f : α → String) : Option α → String
  | some a => "ok " ++ f a
  | none => "err"

/-- Build the catalogue from sample names, a name table and a segment table of the same shape. -/
def buildSamples : List Name → List (List Name) → Batch → Option (List Sample)
  | [], [], [] => some []
  | n :: ns, cs :: css, ss :: sss =>
    if cs.length = ss.length then
      match buildSamples ns css sss with
      | some r => some ({ name := n, contigs := List.zipWith (fun c s => { name := c, segs := s }) cs ss } :: r)
      | none => none
    else none
  | _, _, _ => none

def collToString (ss : List Sample) : String :=
  nameListToString (ss.map Sample.name) ++ " " ++ nameTableToString (namesOf ss) ++ " " ++
    segTableToString (segsOf ss)

inductive Op where
  | reg (s c : Name)
  | place (s c : Name) (place : Nat) (seg : Seg)

def parseOp (s : String) : Option Op :=
  match s.splitOn ":" with
  | ["r", sn, cn] => do
    let sn ← parseHex sn
    let cn ← parseHex cn
    some (.reg sn cn)
  | ["p", sn, cn, pl, g, i, r, l] => do
    let sn ← parseHex sn
    let cn ← parseHex cn
    let pl ← pl.toNat?
    let seg ← parseSeg (":".intercalate [g, i, r, l])
    some (.place sn cn pl seg)
  | _ => none

/-- Run the operations; failed `add_segment_placed` calls (the `bail!`s) are counted and skipped.
    `none`: a registration the model does not cover (empty sample name with non-ASCII contig). -/
def runOps : List Sample → Nat → List Op → Option (List Sample × Nat)
  | ss, e, [] => some (ss, e)
  | ss, e, .reg s c :: r =>
    match register ss s c with
    | some ss' => runOps ss' e r
    | none => none
  | ss, e, .place s c pl seg :: r =>
    match storedName s c with
    | none => none
    | some sn =>
      match addSegmentPlaced ss sn c pl seg with
      | some ss' => runOps ss' e r
      | none => runOps ss (e + 1) r

def handleColl : List String → Option String
  | ["cv-enc", n] => do
    let n ← n.toNat?
    if n < U32 then some ("ok " ++ toHex (encode n)) else none
  | ["cv-dec", hex] => do
    let d ← parseHex hex
    some (optToString (fun (p : Nat × List Nat) => s!"{p.1} {d.length - p.2.length}") (decode d))
  | ["cv-str-dec", hex] => do
    let d ← parseHex hex
    some (optToString (fun (p : List Nat × List Nat) => s!"{toHex p.1} {d.length - p.2.length}") (decodeString d))
  | ["cv-utf8", hex] => do
    let d ← parseHex hex
    some s!"ok {utf8Valid d} {toHex (utf8Lossy d)}"
  | ["zz-enc", x, p] => do
    let x ← x.toNat?
    let p ← p.toNat?
    if x < U64 ∧ p < U64 then some s!"ok {zigzagEncode x p}" else none
  | ["zz-dec", v, p] => do
    let v ← v.toNat?
    let p ← p.toNat?
    if v < U64 ∧ p < U64 then some s!"ok {zigzagDecode v p}" else none
  | ["names-enc", t] => do
    let t ← parseNameTable t
    some ("ok " ++ toHex (encodeNames t))
  | ["names-dec", avail, hex] => do
    let avail ← avail.toNat?
    let d ← parseHex hex
    some (resToString nameTableToString (decodeNames avail d))
  | ["snames-enc", l] => do
    let l ← parseNameList l
    some ("ok " ++ toHex (encodeSampleNames l))
  | ["snames-dec", hex] => do
    let d ← parseHex hex
    some (optToString nameListToString (decodeSampleNames d))
  | ["details-enc", k, ss, t] => do
    let k ← k.toNat?
    let ss ← ss.toNat?
    let t ← parseSegTable t
    some ("ok " ++ " ".intercalate ((encodeDetails ss k t).map toHex))
  | ["details-dec", k, ss, have_, h0, h1, h2, h3, h4] => do
    let k ← k.toNat?
    let ss ← ss.toNat?
    let hv ← parseNatList have_
    let s0 ← parseHex h0
    let s1 ← parseHex h1
    let s2 ← parseHex h2
    let s3 ← parseHex h3
    let s4 ← parseHex h4
    some (resToString segTableToString (decodeDetails ss k hv s0 s1 s2 s3 s4))
  | ["coll-build", ops] => do
    let ops ← if ops = "." then some [] else (ops.splitOn ",").mapM parseOp
    match runOps [] 0 ops with
    | some (ss, e) => some s!"ok {e} {collToString ss}"
    | none => some "unmodelled"
  | ["coll-storeload", k, ss, card, sn, nt, st] => do
    let k ← k.toNat?
    let ss ← ss.toNat?
    let card ← card.toNat?
    let sn ← parseNameList sn
    let nt ← parseNameTable nt
    let st ← parseSegTable st
    let cat ← buildSamples sn nt st
    let nb := (storeBatches ss k card cat).length
    some (resToString (fun (c : Coll) => s!"{nb} {c.loaded} {collToString c.samples}") (storeLoad ss k card cat))
  | _ => none

end Driver.HColl

namespace Driver
export HColl (handleColl)
end Driver
