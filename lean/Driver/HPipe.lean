import RagcModel.Model.Pipeline
import Driver.Proto
/-!
Driver for the pipeline protocol model (C04/C05).

`pipe-program <multi|single> <N> <pack> <samples…>` (each sample a nat list of contig sizes)
  → `ok` followed by one word per producer operation: `p:<seq>:<prio>:<cost>:<tok>:<rd>` | `w` | `c`.

`pipe-replay <fx> <N> <cap> <events…>`: replays an observed run through `step?`. Events:
  `P:<tok>:<seq>:<prio>:<cost>:<size>` producer push completed (`q.push.admit`),
  `W` producer saw the queue empty (`drain` / `sync_and_flush` returned), `C` close,
  `u:<w>:<tok>:<seq>:<prio>` worker `w` pulled (`q.pull.take`), `b:<w>:<seq>` buffered,
  `a:<w>:<j>` arrived at barrier `j`, `l:<w>:<j>` left barrier `j`, `x:<w>` pull returned None.
The producer program is the sub-sequence of `P`/`W`/`C` events (rounds are assigned by counting
token runs of `N`). Mapping to model actions: `a:w:1` is a check (the token pull already put `w`
into `bar 1`), `a:w:j+1` is `advance w`; the first `l:_:j` performs `release j`; `l:w:4` is
`advance w` (to `idle`); other `l` are checks.
  → `ok <final|running> <batches>` (each batch sorted, `;`-separated, `-` if none) or `bad <index> <reason>`.
-/
namespace Driver.HPipe
open Driver
open Ragc.Pipeline

def parseInt (s : String) : Option Int :=
  if s.startsWith "-" then (s.drop 1).toString.toNat?.map (fun n => - (n : Int)) else s.toNat?.map (fun n => (n : Int))

def instrWord : Instr → String
  | .push x => s!"p:{x.seq}:{x.prio}:{x.cost}:{if x.isTok then 1 else 0}:{x.rd}"
  | .waitEmpty => "w"
  | .close => "c"

/-- Observed events. -/
inductive Obs where
  | push (tok : Bool) (seq : Nat) (prio : Int) (cost size : Nat)
  | wait | close
  | pull (w : Nat) (tok : Bool) (seq : Nat) (prio : Int)
  | buffered (w seq : Nat)
  | arrive (w j : Nat)
  | leave (w j : Nat)
  | exit (w : Nat)

def parseObs (s : String) : Option Obs :=
  match s.splitOn ":" with
  | ["P", t, q, p, c, z] => do
    let t ← t.toNat?; let q ← q.toNat?; let p ← parseInt p; let c ← c.toNat?; let z ← z.toNat?
    some (.push (t != 0) q p c z)
  | ["W"] => some .wait
  | ["C"] => some .close
  | ["u", w, t, q, p] => do
    let w ← w.toNat?; let t ← t.toNat?; let q ← q.toNat?; let p ← parseInt p
    some (.pull w (t != 0) q p)
  | ["b", w, q] => do some (.buffered (← w.toNat?) (← q.toNat?))
  | ["a", w, j] => do some (.arrive (← w.toNat?) (← j.toNat?))
  | ["l", w, j] => do some (.leave (← w.toNat?) (← j.toNat?))
  | ["x", w] => do some (.exit (← w.toNat?))
  | _ => none

/-- The producer program of an observed run, with round indices: a token gets `2r+1` and every
`N`-th token of a run closes round `r`; a contig gets `2r`. -/
def progOfObs (N : Nat) : List Obs → Nat → Nat → List Instr
  | [], _, _ => []
  | .push true q p _ _ :: rest, r, k =>
    .push (.token q p (2 * r + 1)) :: (if k + 1 = N then progOfObs N rest (r + 1) 0 else progOfObs N rest r (k + 1))
  | .push false q p c z :: rest, r, k => .push (.contig q p c z (2 * r)) :: progOfObs N rest r k
  | .wait :: rest, r, k => .waitEmpty :: progOfObs N rest r k
  | .close :: rest, r, k => .close :: progOfObs N rest r k
  | _ :: rest, r, k => progOfObs N rest r k

def tryStep (fx : Bool) (s : State) (e : Event) (why : String) : Except String State :=
  match step? fx s e with
  | some s' => .ok s'
  | none => .error why

def obsStep (fx : Bool) (s : State) : Obs → Except String State
  | .push tok q p c z =>
    match s.prog with
    | .push x :: _ =>
      if x.isTok = tok ∧ x.seq = q ∧ x.prio = p ∧ x.cost = c ∧ x.size = z then
        tryStep fx s .prod s!"push-not-enabled cur={s.cur} size={z} cap={s.cap} closed={s.closed}"
      else .error "push-mismatch"
    | _ => .error "push-not-next"
  | .wait =>
    match s.prog with
    | .waitEmpty :: _ => tryStep fx s .prod s!"wait-queue-not-empty len={s.queue.length}"
    | _ => .error "wait-not-next"
  | .close =>
    match s.prog with
    | .close :: _ => tryStep fx s .prod "close-not-enabled"
    | _ => .error "close-not-next"
  | .pull w tok q p =>
    match s.queue.find? (fun x => x.isTok == tok && x.seq == q && x.prio == p) with
    | none => .error s!"pull-item-not-queued len={s.queue.length}"
    | some x =>
      if s.workers[w]? ≠ some .idle then .error "pull-worker-not-idle"
      else tryStep fx s (.pull w x) "pull-not-maximal"
  | .buffered w q =>
    if s.workers[w]? = some (.working q) then tryStep fx s (.buffer w) "buffer-not-enabled"
    else .error "buffer-worker-not-working-on-it"
  | .arrive w j =>
    if j = 1 then
      if s.workers[w]? = some (.bar 1) then .ok s else .error "arrive1-without-token"
    else if s.workers[w]? = some (.ph (j - 1)) then tryStep fx s (.advance w) "advance-not-enabled"
    else .error s!"arrive-{j}-not-in-phase"
  | .leave w j =>
    let r : Except String State :=
      if s.workers[w]? = some (.bar j) then tryStep fx s (.release j) s!"release-{j}-not-all-arrived"
      else .ok s
    match r with
    | .error e => .error e
    | .ok s1 =>
      if s1.workers[w]? = some (.ph j) then
        if j = 4 then tryStep fx s1 (.advance w) "advance4-not-enabled" else .ok s1
      else .error s!"leave-{j}-not-released"
  | .exit w => tryStep fx s (.exit w) s!"exit-not-enabled closed={s.closed} len={s.queue.length}"

def obsReplay (fx : Bool) : State → List Obs → Nat → Except (Nat × String) State
  | s, [], _ => .ok s
  | s, o :: os, i =>
    match obsStep fx s o with
    | .ok s' => obsReplay fx s' os (i + 1)
    | .error e => .error (i, e)

def sortNat (l : List Nat) : List Nat := (l.toArray.qsort (· < ·)).toList

def batchesString (b : List (List Nat)) : String :=
  if b.isEmpty then "-" else ";".intercalate (b.map (fun l => natListToString (sortNat l)))

def handlePipe : List String → Option String
  | "pipe-program" :: mode :: n :: pack :: samples => do
    let n ← n.toNat?
    let pack ← pack.toNat?
    let ss ← samples.mapM parseNatList
    let single ← (if mode = "single" then some true else if mode = "multi" then some false else none)
    if single && pack = 0 then some "panic pack-size-zero"
    else if !single && ss.length < 2 then some "err multi-file-needs-two-inputs"
    else if single && ss.isEmpty then some "err no-input"
    else some ("ok " ++ " ".intercalate ((programOf single n pack ss).map instrWord))
  | "pipe-replay" :: fx :: n :: cap :: events => do
    let fx ← fx.toNat?
    let n ← n.toNat?
    let cap ← cap.toNat?
    let obs ← events.mapM parseObs
    let prog := progOfObs n obs 0 0
    match obsReplay (fx != 0) (init prog cap n) obs 0 with
    | .ok s =>
      let fin := if decide (Final s) then "final" else "running"
      some s!"ok {fin} {batchesString s.batches} buffered={natListToString (sortNat s.buffered)}"
    | .error (i, e) => some s!"bad {i} {e}"
  | _ => none

end Driver.HPipe

namespace Driver
export HPipe (handlePipe)
end Driver
