import RagcModel.Model.Cli
import Driver.Proto
/-!
Requests of the `cli` family (model of ragc-cli/src/main.rs, `Model/Cli.lean`).

Encodings: byte strings hex (`-` = empty); `~` = absent (no file / no prefix / no names / archive
cannot be opened); booleans `0`/`1`.
An archive is `sample|sample|…` (`@` = an archive without samples), a sample is
`<name>:<hdr>=<seq>;<hdr>=<seq>;…` (nothing after the colon = no contigs). Name lists are
comma-separated.

* `cli-render <archive>`                       → `ok <fasta>,<fasta>,…` (one per sample, archive order)
* `cli-getset <archive|~> <names|~> <prefix|~> <stdout|file> <outCreatable> <tempCreatable> <out0|~>`
                                               → `<exit code> <stdout> <out|~> <temp|~>`
* `cli-getset-old …` (same arguments)          → same reply, behaviour before commit 158f0d4
* `cli-listset <archive|~> <stdout|file> <outCreatable> <out0|~>` → `<exit code> <stdout> <out|~>`
* `cli-listctg <archive|~> <names|~> <stdout|file> <outCreatable> <out0|~>` → `<exit code> <stdout> <out|~>`
* `cli-capacity <string as hex>`               → `ok <n>` | `err`
* `cli-create <outputGiven> <nInputs> <verbosity> <adaptive> <concatenated> <batch> <cppAgc>
   <capacity string as hex> <threads|~> <cppFeature> <inputsOk> <outputCreatable> <finalizeOk>`
                                               → `<dispatch> <exit code>` with dispatch one of
   `usage`, `reject:<why>`, `cppffi`, `streaming:<single 0/1>:<capacity>`
-/
namespace Driver.HCli
open Driver
open Ragc.Cli

def parseBool (s : String) : Option Bool :=
  if s = "1" then some true else if s = "0" then some false else none

def parseOptHex (s : String) : Option (Option (List Nat)) :=
  if s = "~" then some none else (parseHex s).map some

def parseNames (s : String) : Option (List (List Nat)) :=
  if s = "~" then some [] else (s.splitOn ",").mapM parseHex

def parseContig (s : String) : Option (List Nat × List Nat) :=
  match s.splitOn "=" with
  | [h, q] => do
    let h ← parseHex h
    let q ← parseHex q
    some (h, q)
  | _ => none

def parseSample (s : String) : Option Sample :=
  match s.splitOn ":" with
  | [n, cs] => do
    let n ← parseHex n
    let cs ← (if cs = "" then some [] else (cs.splitOn ";").mapM parseContig)
    some ⟨n, cs⟩
  | _ => none

def parseArchive (s : String) : Option (Option Archive) :=
  if s = "~" then some none
  else if s = "@" then some (some ⟨[]⟩)
  else ((s.splitOn "|").mapM parseSample).map (fun ss => some ⟨ss⟩)

def parseDest (s : String) : Option Dest :=
  if s = "stdout" then some .stdout else if s = "file" then some .file else none

def fileStr (f : File) : String := match f with | some b => toHex b | none => "~"

def rejectStr : Reject → String
  | .zeroThreads => "zero-threads"
  | .badCapacity => "bad-capacity"
  | .cppAgcNotBuilt => "cpp-agc-not-built"
  | .adaptiveOrConcatenated => "adaptive-or-concatenated"
  | .batch => "batch"

def dispatchStr : Dispatch → String
  | .usage => "usage"
  | .reject w => "reject:" ++ rejectStr w
  | .cppFfi => "cppffi"
  | .streaming s n => s!"streaming:{if s then 1 else 0}:{n}"

def getsetReply (r : Exit × Fs) : String :=
  s!"{r.1.code} {toHex r.2.stdout} {fileStr r.2.out} {fileStr r.2.temp}"

def handleCli : List String → Option String
  | ["cli-render", a] => do
    let a ← parseArchive a
    let a ← a
    some ("ok " ++ ",".intercalate (a.samples.map (fun s => toHex (sampleFasta s))))
  | ["cli-getset", a, names, pfx, dest, oc, tc, out0] => do
    let a ← parseArchive a
    let names ← parseNames names
    let pfx ← parseOptHex pfx
    let dest ← parseDest dest
    let oc ← parseBool oc
    let tc ← parseBool tc
    let out0 ← parseOptHex out0
    some (getsetReply (getset ⟨a, oc, tc⟩ ⟨names, pfx⟩ dest ⟨none, out0, []⟩))
  | ["cli-getset-old", a, names, pfx, dest, oc, tc, out0] => do
    let a ← parseArchive a
    let names ← parseNames names
    let pfx ← parseOptHex pfx
    let dest ← parseDest dest
    let oc ← parseBool oc
    let tc ← parseBool tc
    let out0 ← parseOptHex out0
    some (getsetReply (getsetOld ⟨a, oc, tc⟩ ⟨names, pfx⟩ dest ⟨none, out0, []⟩))
  | ["cli-listset", a, dest, oc, out0] => do
    let a ← parseArchive a
    let dest ← parseDest dest
    let oc ← parseBool oc
    let out0 ← parseOptHex out0
    let (e, so, f) := listset a oc dest out0
    some s!"{e.code} {toHex so} {fileStr f}"
  | ["cli-listctg", a, names, dest, oc, out0] => do
    let a ← parseArchive a
    let names ← parseNames names
    let dest ← parseDest dest
    let oc ← parseBool oc
    let out0 ← parseOptHex out0
    let (e, so, f) := listctg a names oc dest out0
    some s!"{e.code} {toHex so} {fileStr f}"
  | ["cli-capacity", s] => do
    let s ← parseHex s
    match parseCapacity s with
    | some n => some s!"ok {n}"
    | none => some "err"
  | ["cli-create", og, ni, v, ad, cc, b, cpp, cap, th, feat, iok, ocr, fok] => do
    let og ← parseBool og
    let ni ← ni.toNat?
    let v ← v.toNat?
    let ad ← parseBool ad
    let cc ← parseBool cc
    let b ← parseBool b
    let cpp ← parseBool cpp
    let cap ← parseHex cap
    let th ← (if th = "~" then some none else th.toNat?.map some)
    let feat ← parseBool feat
    let iok ← parseBool iok
    let ocr ← parseBool ocr
    let fok ← parseBool fok
    let c : CreateArgs := ⟨og, ni, v, ad, cc, b, cpp, cap, th, feat⟩
    some s!"{dispatchStr (createDispatch c)} {(createExit c ⟨iok, ocr, fok, true⟩).code}"
  | _ => none

end Driver.HCli

namespace Driver
export HCli (handleCli)
end Driver
