import RagcModel.Model.Fasta
import Driver.Proto
/-!
Requests of the `fasta` family (model of genome_io.rs reader/writer, contig_iterator.rs sample
naming, decompressor.rs output letters). Byte strings are hex (`-` = empty); a record is
`<hex a>:<hex b>`.

* `fasta-parse <text>`        → `ok <n> <id:codes> …`   every record `read_contig_converted` returns
                                                         up to the end of the input | `err empty-name`
* `fasta-parse-ascii <text>`  → `ok <n> <id:letters> …`  the same for `read_contig` (no conversion)
* `fasta-parse-raw <text>`    → `ok <n> <id:raw> …`      the same for `read_contig_raw`
* `fasta-create-input <text>` → `ok <n> <id:codes> …`    `fasta-parse` minus records with empty codes
* `fasta-sample <header> <path>` → `ok <sample> <pansn sample> <pansn contig>` | `none` (path outside
                                   the model): MultiFileIterator's sample for a record with this
                                   header in this file, and `parse_sample_from_header`'s pair
* `fasta-write <name:codes> …` → `ok <text>`             write_sample_fasta / save_contig_directly
* `fasta-normalise <raw>`     → `ok <documented> <as-coded>`
* `fasta-render <final 0|1> <header:seq:width:crlf 0|1:lower bits as hex of 0/1 bytes> …` → `ok <text>`
-/
namespace Driver.HFasta
open Driver
open Ragc.Fasta

def parsePair (s : String) : Option (List Nat × List Nat) :=
  match s.splitOn ":" with
  | [a, b] => do
    let a ← parseHex a
    let b ← parseHex b
    some (a, b)
  | _ => none

def showPairs (l : List (List Nat × List Nat)) : String :=
  " ".intercalate (("ok " ++ toString l.length) :: l.map (fun p => toHex p.1 ++ ":" ++ toHex p.2))

/-- all `read_contig_raw` results up to the end of the input, `none` = `Err` (fuel = number of
lines + 1). -/
def readAllRaw : Nat → Reader → Option (List (List Nat × List Nat))
  | 0, _ => some []
  | fuel + 1, r =>
    match readContigRaw r with
    | (.eof, _) => some []
    | (.invalid, _) => none
    | (.record id raw, r') => (readAllRaw fuel r').map ((id, raw) :: ·)

def showPairsOpt (l : Option (List (List Nat × List Nat))) : String :=
  match l with
  | some l => showPairs l
  | none => "err empty-name"

def parseBool (s : String) : Option Bool :=
  if s = "0" then some false else if s = "1" then some true else none

def parseRenderRec (s : String) : Option (Rec × RecStyle) :=
  match s.splitOn ":" with
  | [h, q, w, c, l] => do
    let h ← parseHex h
    let q ← parseHex q
    let w ← w.toNat?
    let c ← parseBool c
    let l ← parseHex l
    some (⟨h, q⟩, ⟨w, c, l.map (· ≠ 0)⟩)
  | _ => none

def handleFasta : List String → Option String
  | ["fasta-parse", t] => do
    let t ← parseHex t
    some (showPairsOpt (parseFile t))
  | ["fasta-parse-ascii", t] => do
    let t ← parseHex t
    let ls := lines t
    some (showPairsOpt ((readAllRaw (ls.length + 1) ⟨ls, none⟩).map (·.map (fun p => (p.1, filterRaw p.2)))))
  | ["fasta-parse-raw", t] => do
    let t ← parseHex t
    let ls := lines t
    some (showPairsOpt (readAllRaw (ls.length + 1) ⟨ls, none⟩))
  | ["fasta-create-input", t] => do
    let t ← parseHex t
    some (showPairsOpt (createInput t))
  | ["fasta-sample", h, p] => do
    let h ← parseHex h
    let p ← parseHex p
    match sampleNameOfPath p with
    | none => some "none"
    | some fs =>
      let ps := parseSampleFromHeader h
      some ("ok " ++ toHex (sampleOf fs h) ++ " " ++ toHex ps.1 ++ " " ++ toHex ps.2)
  | "fasta-write" :: recs => do
    let recs ← recs.mapM parsePair
    some ("ok " ++ toHex (writeFasta recs))
  | ["fasta-normalise", r] => do
    let r ← parseHex r
    some ("ok " ++ toHex (normalise r) ++ " " ++ toHex (normaliseCode r))
  | "fasta-render" :: fin :: recs => do
    let fin ← parseBool fin
    let recs ← recs.mapM parseRenderRec
    some ("ok " ++ toHex (render fin recs))
  | _ => none

end Driver.HFasta

namespace Driver
export HFasta (handleFasta)
end Driver
