import RagcModel.Model.ReaderState
import Driver.Proto
/-!
Requests of the `rd` family: the reader handle as a state machine (Model/ReaderState.lean, C08).

Archive description = 7 words (8 for `rd-run-old`):

* `<k>`          k-mer length
* `<samples>`    sample names, hex, joined by `,` (`.` = none)
* `<batches>`    `[n0,n1,…]` number of samples in every metadata batch (must add up to the table)
* `<table>`      samples joined by `;` (`!` = none); a sample = contigs joined by `,` (`.` = none);
                 a contig = `<namehex>=<segs>`; segs = `g:i:r:l` joined by `/` (`-` = none)
* `<refs>`       `g=R` joined by `,` (`.` = none): outcome of loading the reference of LZ group g;
                 `R` = hex bases (`-` empty) | `E` (error) | `P` (panic); groups not listed: error
* (`rd-run-old` only) `<refsOld>` same format: what the pre-repair `get_reference_segment` decoded
* `<segdata>`    `g:i=R` joined by `,` (`.` = none): outcome of `get_segment` for (group, in-group id)
                 on a handle with nothing cached; pairs not listed: error
* `<streams>`    `<namehex>:raw:packed:parts` joined by `,` (`.` = none)

Operations (joined by `;` into one word per history):
`ls` `lp:<hex>` `lc:<s>` `len:<s>:<c>` `rng:<s>:<c>:<start>:<end>` `ctg:<s>:<c>` `dsc:<s>:<c>`
`seg:<g>:<i>:<r>:<l>` `ref:<g>` `smp:<s>` `sbp:<hex>` `fa:<s>` `gst` `all` `cst` `cln`.

* `rd-run <archive> <history> <history> …`      → `ok <r,r,…> <r,r,…> …`  (`step` from a fresh handle)
* `rd-run-old <archive+refsOld> <history> …`    → the same with `stepOld`
* `rd-answer <archive> <history> …`             → the same with the specification `answer` per operation
* `rd-sys <archive> <a;a;…>` with `a` = `<h>/<op>` (operation on handle h) or `c<h>` (clone handle h;
  the clone gets the next index), starting with the single handle 0 → `ok <r,r,…>` (`-` = no such handle)

A result is `err`, `panic` or `ok:<kind>:<n>:<digest>`: `n` = number of top-level elements (the
value itself for a length), `digest` = 64-bit FNV-style hash (16 hex digits) of the canonical word
serialisation below (maps from names are sorted by name).
-/
namespace Driver.HReader
open Driver
open Ragc.CollVarint (Res)
open Ragc.Names (Name)
open Ragc.Details (Seg Contig)
open Ragc.ReaderState

/-! ### canonical digests -/

def mix (h : UInt64) (w : Nat) : UInt64 := (h ^^^ UInt64.ofNat w) * 1099511628211

def digest (ws : List Nat) : UInt64 := ws.foldl mix 14695981039346656037

def hex64 (h : UInt64) : String :=
  let n := h.toNat
  String.ofList ((List.range 16).map (fun i => hexDigit ((n >>> (4 * (15 - i))) % 16)))

def wName (n : Name) : List Nat := n.length :: n
def wSeg (s : Seg) : List Nat := [s.group, s.inGroup, if s.rev then 1 else 0, s.rawLen]
def wSegs (l : List Seg) : List Nat := l.length :: l.flatMap wSeg
def wSample (l : List (Name × Bases)) : List Nat := l.length :: l.flatMap (fun x => wName x.1 ++ wName x.2)

/-- insert into a list sorted by name; an equal name is replaced (a later `HashMap::insert`). -/
def insertByName {α : Type} (x : Name × α) : List (Name × α) → List (Name × α)
  | [] => [x]
  | y :: ys => if x.1 = y.1 then x :: ys else if x.1 < y.1 then x :: y :: ys else y :: insertByName x ys

def sortByName {α : Type} (l : List (Name × α)) : List (Name × α) :=
  l.foldl (fun acc x => insertByName x acc) []

def valToString : Val → String
  | .names l => s!"ok:names:{l.length}:{hex64 (digest (l.length :: l.flatMap wName))}"
  | .bases b => s!"ok:bases:{b.length}:{hex64 (digest (wName b))}"
  | .nat n => s!"ok:nat:{n}:{hex64 (digest [n])}"
  | .segs l => s!"ok:segs:{l.length}:{hex64 (digest (wSegs l))}"
  | .sample l => s!"ok:sample:{l.length}:{hex64 (digest (wSample l))}"
  | .samples l =>
    let m := sortByName l
    s!"ok:samples:{m.length}:{hex64 (digest (m.length :: m.flatMap (fun x => wName x.1 ++ wSample x.2)))}"
  | .file b => s!"ok:file:{b.length}:{hex64 (digest (wName b))}"
  | .groupStats l =>
    s!"ok:gstats:{l.length}:{hex64 (digest (l.length :: l.flatMap (fun x => [x.1, x.2.1, x.2.2.1, x.2.2.2])))}"
  | .allSegs l =>
    s!"ok:allsegs:{l.length}:{hex64 (digest (l.length :: l.flatMap (fun x => wName x.1 ++ wName x.2.1 ++ wSegs x.2.2)))}"
  | .streams l =>
    s!"ok:streams:{l.length}:{hex64 (digest (l.length :: l.flatMap (fun x => wName x.1 ++ [x.2.1, x.2.2.1, x.2.2.2])))}"
  | .unit => "ok:unit:0:" ++ hex64 (digest [])

def resultToString : Result → String
  | .ok v => valToString v
  | .err => "err"
  | .panic => "panic"

/-! ### parsing the archive description -/

def parseNames (s : String) : Option (List Name) :=
  if s = "." then some [] else (s.splitOn ",").mapM parseHex

def parseSeg (s : String) : Option Seg :=
  match s.splitOn ":" with
  | [g, i, r, l] => do
    let g ← g.toNat?
    let i ← i.toNat?
    let r ← r.toNat?
    let l ← l.toNat?
    if r < 2 then some { group := g, inGroup := i, rev := r == 1, rawLen := l } else none
  | _ => none

def parseSegs (s : String) : Option (List Seg) :=
  if s = "-" then some [] else (s.splitOn "/").mapM parseSeg

def parseContig (s : String) : Option Contig :=
  match s.splitOn "=" with
  | [n, segs] => do
    let n ← parseHex n
    let segs ← parseSegs segs
    some { name := n, segs := segs }
  | _ => none

def parseSampleContigs (s : String) : Option (List Contig) :=
  if s = "." then some [] else (s.splitOn ",").mapM parseContig

def parseTable (s : String) : Option (List (List Contig)) :=
  if s = "!" then some [] else (s.splitOn ";").mapM parseSampleContigs

def cutBatches : List Nat → List (List Contig) → Option (List MBatch)
  | [], [] => some []
  | [], _ :: _ => none
  | n :: ns, t =>
    if n ≤ t.length then (cutBatches ns (t.drop n)).map (t.take n :: ·) else none

def parseOutcome (s : String) : Option (Res Bases) :=
  if s = "E" then some .err else if s = "P" then some .panic else (parseHex s).map .ok

def parseRefs (s : String) : Option (List (Nat × Res Bases)) :=
  if s = "." then some [] else
  (s.splitOn ",").mapM fun e =>
    match e.splitOn "=" with
    | [g, r] => do
      let g ← g.toNat?
      let r ← parseOutcome r
      some (g, r)
    | _ => none

def parseSegData (s : String) : Option (List ((Nat × Nat) × Res Bases)) :=
  if s = "." then some [] else
  (s.splitOn ",").mapM fun e =>
    match e.splitOn "=" with
    | [gi, r] =>
      match gi.splitOn ":" with
      | [g, i] => do
        let g ← g.toNat?
        let i ← i.toNat?
        let r ← parseOutcome r
        some ((g, i), r)
      | _ => none
    | _ => none

def parseStreams (s : String) : Option (List (Name × Nat × Nat × Nat)) :=
  if s = "." then some [] else
  (s.splitOn ",").mapM fun e =>
    match e.splitOn ":" with
    | [n, a, b, c] => do
      let n ← parseHex n
      let a ← a.toNat?
      let b ← b.toNat?
      let c ← c.toNat?
      some (n, a, b, c)
    | _ => none

def assoc {κ : Type} [DecidableEq κ] (l : List (κ × Res Bases)) (k : κ) : Res Bases :=
  match l.find? (fun x => x.1 = k) with
  | some x => x.2
  | none => .err

def mkArch (k samples batches table refs refsOld segdata streams : String) : Option Arch := do
  let k ← k.toNat?
  let samples ← parseNames samples
  let sizes ← parseNatList batches
  let table ← parseTable table
  let bs ← cutBatches sizes table
  let refs ← parseRefs refs
  let refsOld ← parseRefs refsOld
  let sd ← parseSegData segdata
  let streams ← parseStreams streams
  some { k := k, samples := samples, batches := bs,
         ref := assoc refs, refOld := assoc refsOld,
         delta := fun g i _ => assoc sd (g, i), raw := fun g i => assoc sd (g, i),
         streams := streams }

/-! ### parsing operations -/

def parseOp (s : String) : Option Op :=
  match s.splitOn ":" with
  | ["ls"] => some .listSamples
  | ["gst"] => some .groupStatistics
  | ["all"] => some .allSegments
  | ["cst"] => some .compressionStats
  | ["cln"] => some .cloneForThread
  | ["lp", p] => (parseHex p).map .listSamplesWithPrefix
  | ["sbp", p] => (parseHex p).map .getSamplesByPrefix
  | ["lc", s] => (parseHex s).map .listContigs
  | ["smp", s] => (parseHex s).map .getSample
  | ["fa", s] => (parseHex s).map .writeSampleFasta
  | ["len", s, c] => do some (.contigLength (← parseHex s) (← parseHex c))
  | ["ctg", s, c] => do some (.getContig (← parseHex s) (← parseHex c))
  | ["dsc", s, c] => do some (.segmentsDesc (← parseHex s) (← parseHex c))
  | ["rng", s, c, a, b] => do some (.contigRange (← parseHex s) (← parseHex c) (← a.toNat?) (← b.toNat?))
  | ["seg", g, i, r, l] => (parseSeg (":".intercalate [g, i, r, l])).map .segmentData
  | ["ref", g] => g.toNat?.map .referenceSegment
  | _ => none

def parseHistory (s : String) : Option (List Op) := (s.splitOn ";").mapM parseOp

def parseSysOp (s : String) : Option SysOp :=
  match s.splitOn "/" with
  | [h, op] => do some (.on (← h.toNat?) (← parseOp op))
  | [c] => if c.startsWith "c" then (c.drop 1).toString.toNat?.map .clone else none
  | _ => none

def joinResults (rs : List Result) : String := ",".intercalate (rs.map resultToString)

def handleReader : List String → Option String
  | "rd-run" :: k :: samples :: batches :: table :: refs :: segdata :: streams :: hists => do
    let A ← mkArch k samples batches table refs refs segdata streams
    let hs ← hists.mapM parseHistory
    some (" ".intercalate ("ok" :: hs.map (fun ops => joinResults (run A (fresh A) ops).2)))
  | "rd-run-old" :: k :: samples :: batches :: table :: refs :: refsOld :: segdata :: streams :: hists => do
    let A ← mkArch k samples batches table refs refsOld segdata streams
    let hs ← hists.mapM parseHistory
    some (" ".intercalate ("ok" :: hs.map (fun ops => joinResults (runOld A (fresh A) ops).2)))
  | "rd-answer" :: k :: samples :: batches :: table :: refs :: segdata :: streams :: hists => do
    let A ← mkArch k samples batches table refs refs segdata streams
    let hs ← hists.mapM parseHistory
    some (" ".intercalate ("ok" :: hs.map (fun ops => joinResults (ops.map (answer A)))))
  | ["rd-sys", k, samples, batches, table, refs, segdata, streams, acts] => do
    let A ← mkArch k samples batches table refs refs segdata streams
    let acts ← (acts.splitOn ";").mapM parseSysOp
    let rs := (sysRun A [fresh A] acts).2
    some ("ok " ++ ",".intercalate (rs.map (fun r => match r with | some r => resultToString r | none => "-")))
  | _ => none

end Driver.HReader

namespace Driver
export HReader (handleReader)
end Driver
