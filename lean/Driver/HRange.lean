import RagcModel.Model.Range
import Driver.Proto
/-!
Requests of the `range` family (model of decompressor.rs get_contig_range / get_contig_length /
reconstruct_contig / reverse_complement_segment). Segments are written `[rawLen:hex,rawLen:hex,…]`
(`[]` = no segment, `-` = empty data), the data being the decoded bytes after the orientation fix.

* `range <k> <start> <end> <segs>`            → `ok <hex>` | `panic sub-overflow`
* `range-batch <k> <segs> <[s0,e0,s1,e1,…]>`  → `ok <hex> <hex> …` (one answer per pair, same order;
                                                 an answer is `!` where the single request would panic)
* `range-length <k> <[rawLens]>`              → `ok <n>` | `underflow <wrapped n>`
* `range-reconstruct <k> <segs>`              → `ok <hex>` | `err`
* `range-rc <hex>`                            → `ok <hex>`
-/
namespace Driver.HRange
open Driver
open Ragc.Range

def parseSeg (s : String) : Option Seg :=
  match s.splitOn ":" with
  | [n, h] => do
    let n ← n.toNat?
    let d ← parseHex h
    some ⟨n, d⟩
  | _ => none

def parseSegs (s : String) : Option (List Seg) :=
  if s = "[]" then some [] else
  if s.length < 2 then none else
  let inner := (s.drop 1).dropEnd 1 |>.toString
  (inner.splitOn ",").mapM parseSeg

def pairs : List Nat → Option (List (Nat × Nat))
  | [] => some []
  | [_] => none
  | a :: b :: rest => (pairs rest).map ((a, b) :: ·)

def handleRange : List String → Option String
  | ["range", k, start, end_, segs] => do
    let k ← k.toNat?
    let start ← start.toNat?
    let end_ ← end_.toNat?
    let segs ← parseSegs segs
    match contigRange k segs start end_ with
    | some r => some ("ok " ++ toHex r)
    | none => some "panic sub-overflow"
  | ["range-batch", k, segs, qs] => do
    let k ← k.toNat?
    let segs ← parseSegs segs
    let qs ← parseNatList qs
    let qs ← pairs qs
    let answers := qs.map fun (s, e) =>
      match contigRange k segs s e with
      | some r => toHex r
      | none => "!"
    some (" ".intercalate ("ok" :: answers))
  | ["range-length", k, lens] => do
    let k ← k.toNat?
    let lens ← parseNatList lens
    match contigLength k lens with
    | .ok n => some s!"ok {n}"
    | .underflow => some s!"underflow {contigLengthWrapping k lens}"
  | ["range-reconstruct", k, segs] => do
    let k ← k.toNat?
    let segs ← parseSegs segs
    match reconstruct k segs with
    | some r => some ("ok " ++ toHex r)
    | none => some "err"
  | ["range-rc", hex] => do
    let s ← parseHex hex
    some ("ok " ++ toHex (reverseComplementSegment s))
  | _ => none

end Driver.HRange

namespace Driver
export HRange (handleRange)
end Driver
