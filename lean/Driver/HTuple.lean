import RagcModel.Model.Tuple
import RagcModel.Model.SegCompress
import Driver.Proto
/-!
Requests for `Model/Tuple.lean` and `Model/SegCompress.lean`:

* `tuple-enc <hex>`                      → `ok <hex>`                      (`bytes_to_tuples`)
* `tuple-dec <hex>`                      → `ok <hex>` | `panic`            (`tuples_to_bytes`, release arithmetic)
* `tuple-dec-checked <hex>`              → `ok <hex>` | `panic`            (same, overflow-checked arithmetic)
* `tuple-enc-many <hex>…`                → `ok <hex>…`                     (batched `tuple-enc`)
* `tuple-dec-many <checked 0|1> <hex>…`  → `ok <hex|!>…`                   (batched `tuple-dec`, `!` = panic)
* `seg-marker <hex>`                     → `ok <0|1>`   marker chosen by the IEEE-double repetitiveness test
* `seg-marker-nat <hex>`                 → `ok <0|1>`   same decision in integer arithmetic
* `seg-rep-counts <offset> <hex>`        → `ok <cnt> <cur_size>`
* `seg-enc-ref <hex>`                    → `ok <marker> <level> <hex>`     marker, ZSTD level and the bytes handed to ZSTD
* `seg-dec <checked 0|1> <marker> <compressed-hex> <zd: hex|err>` → `ok <hex>` | `err` | `panic`
     `decompress_segment_with_marker`, with the ZSTD result supplied by the caller
* `seg-frame <marker> <compressed-hex> <raw-hex>` → `ok <metadata> <hex>`   stored-part framing
-/
namespace Driver.HTuple
open Driver
open Ragc.Tuple Ragc.SegCompress

def optBytes (o : Option (List Nat)) : String :=
  match o with
  | some bs => "ok " ++ toHex bs
  | none => "panic"

def parseBit (s : String) : Option Bool :=
  if s = "0" then some false else if s = "1" then some true else none

def handleTuple : List String → Option String
  | ["tuple-enc", hex] => do
    let bs ← parseHex hex
    some ("ok " ++ toHex (bytesToTuples bs))
  | ["tuple-dec", hex] => do
    let ts ← parseHex hex
    some (optBytes (tuplesToBytesMode false ts))
  | ["tuple-dec-checked", hex] => do
    let ts ← parseHex hex
    some (optBytes (tuplesToBytesMode true ts))
  | "tuple-enc-many" :: hexes => do
    let ins ← hexes.mapM parseHex
    some ("ok " ++ " ".intercalate (ins.map fun bs => toHex (bytesToTuples bs)))
  | "tuple-dec-many" :: checked :: hexes => do
    let checked ← parseBit checked
    let ins ← hexes.mapM parseHex
    some ("ok " ++ " ".intercalate (ins.map fun ts =>
      match tuplesToBytesMode checked ts with
      | some bs => toHex bs
      | none => "!"))
  | ["seg-marker", hex] => do
    let bs ← parseHex hex
    some (if floatChooser bs then "ok 1" else "ok 0")
  | ["seg-marker-nat", hex] => do
    let bs ← parseHex hex
    some (if natChooser bs then "ok 1" else "ok 0")
  | ["seg-rep-counts", off, hex] => do
    let off ← off.toNat?
    let bs ← parseHex hex
    let cc := repCounts bs off
    some s!"ok {cc.1} {cc.2}"
  | ["seg-enc-ref", hex] => do
    let bs ← parseHex hex
    -- ZSTD stand-in that records its arguments: level byte first, then the payload
    let r := compressReferenceSegmentF (fun l x => l :: x) bs
    match r.1 with
    | l :: payload => some s!"ok {r.2} {l} {toHex payload}"
    | [] => none
  | ["seg-dec", checked, marker, chex, zdres] => do
    let checked ← parseBit checked
    let marker ← marker.toNat?
    let c ← parseHex chex
    let zdv : Option (List Nat) ← if zdres = "err" then some none else (parseHex zdres).map some
    -- ZSTD `Err` and a tuple panic are different outcomes: run the two stages separately
    if c.isEmpty then some "ok -"
    else match zdv with
      | none => some "err"
      | some _ => some (optBytes (decompressWithMarkerMode (tuplesToBytesMode checked) (fun _ => zdv) c marker))
  | ["seg-frame", marker, chex, rawhex] => do
    let marker ← marker.toNat?
    let c ← parseHex chex
    let raw ← parseHex rawhex
    let r := framePart c marker raw
    some s!"ok {r.2} {toHex r.1}"
  | _ => none

end Driver.HTuple

namespace Driver
export HTuple (handleTuple)
end Driver
