import RagcModel.Model.LzDiff
import Driver.Proto
namespace Driver.HLz
open Driver
open Ragc.Model.LzDiff

/-- Number of matches with a backward extension `> 0` that the model's encoder loop takes
    (evidence counter only: the bytes do not show popped literals). Walks the same decisions as
    `encLoop` with the same building blocks. -/
partial def backExtCount (S : UInt64 → List Nat) (mm : Nat) (refP t : Array Nat)
    (i npl : Nat) (xprev : Option UInt64) (acc : Nat) : Nat :=
  if i + keyLen mm < t.size then
    match nextCode xprev npl t i (keyLen mm) with
    | .oob => acc
    | .invalid =>
      if nrunLen t i ≥ Ragc.Gen.lzMinNRunLen then backExtCount S mm refP t (i + nrunLen t i) 0 none acc
      else backExtCount S mm refP t (i + 1) (npl + 1) none acc
    | .ok code =>
      match findBest mm refP t code i npl (S code) with
      | .panic => acc
      | .noMatch => backExtCount S mm refP t (i + 1) (npl + 1) (some code) acc
      | .found _ bck fwd =>
        backExtCount S mm refP t (i - bck + (bck + fwd)) 0 (some code) (if bck > 0 then acc + 1 else acc)
  else acc

/-- `lz-enc mm ref tgt`, `lz-dec mm ref enc` (raw `LZDiff::decode`), `lz-htsize n`
    (`(n as f64 / 0.7) as u64` and the table size derived from it). A model panic is `none`. -/
def handleLz : List String → Option String
  | ["lz-enc", mm, r, t] => do
    let mm ← mm.toNat?
    let r ← parseHex r
    let t ← parseHex t
    match encodeExact mm r t with
    | some bs => some ("ok " ++ toHex bs)
    | none => some "none"
  | ["lz-dec", mm, r, e] => do
    let mm ← mm.toNat?
    let r ← parseHex r
    let e ← parseHex e
    match decode mm r e with
    | some bs => some ("ok " ++ toHex bs)
    | none => some "none"
  | ["lz-stats", mm, r, t] => do
    let mm ← mm.toNat?
    let r ← parseHex r
    let t ← parseHex t
    if mm < Ragc.Gen.lzHashingStep then some "none" else
    let refP := padRef mm r
    let tbl := buildIndex refP (keyLen mm)
    some s!"ok {backExtCount (lookup tbl) mm refP t.toArray 0 0 none 0}"
  | ["lz-htsize", n] => do
    let n ← n.toNat?
    some s!"ok {f64Div07Floor n} {tableSize n}"
  | _ => none

end Driver.HLz

namespace Driver
export HLz (handleLz)
end Driver
