import RagcModel.Model.Writer
import Driver.Proto
import Driver.HAgc3
import Std.Data.HashMap
/-!
Requests of the `writer` family: the reference writer (`Model/Writer.lean`, C01/C02) run against a
REAL archive.

* `writer-check <hex archive> <plains> <level> <input> <extra>`
  - `<plains>`: the decompression of every frame of `agc-frames`, same order (as for `agc-decode`);
  - `<level>`: `compression_level` of the run (ZSTD level of delta packs);
  - `<input>`: what was given to `create`: samples joined by `;`, a sample is
    `<hexname>=<contigs>`, contigs joined by `,`, a contig is `<hexname>/<hex codes>`;
  - `<extra>`: `-` or entries joined by `,`:
      `z.<level>.<hex plain>.<hex frame>`  one more row of the ZSTD oracle (what ZSTD answers for
                                           the content of a part that was stored raw),
      `r.<group>.<marker>.<hex plain>.<hex frame>`  the same for a REFERENCE stored raw: `marker`
                                           = the tuple-packing decision `compress_reference_segment`
                                           took (1: `plain` is the tuple-packed content), the
                                           level is the one the writer uses for that marker.

  The handler (1) decodes the archive with the independent decoder, (2) derives the `Decisions`
  from the decoded archive and the container directory — per piece: length, group, orientation;
  per group: the pieces ordered by in-group id (catalogue order among equal ids), which is an
  arrival order that reproduces the ids; group creation order = order of the streams in the
  directory; tuple flag = marker byte of the stored reference — (3) builds the ZSTD oracle
  `zc level plain` as a finite table harvested from the archive itself (plus `<extra>`), (4) runs
  `Writer.writeArchive` on the INPUT with these decisions and compares with the real file.

  Replies:
    `ok bytes <n>`                  the reference writer's output is the real file, byte for byte;
    `ok parts <detail>`             same streams in the same order with the same (data, metadata)
                                    parts, but the files differ (cannot happen: the container is
                                    determined by them; kept as a distinct answer);
    `diff <detail>`                 first difference (stream, part);
    `notok <detail>`                the derived decisions are not `DecisionsOK` / the input is not
                                    `codesOK` (the archive is not an instance of the reference writer);
    `none <detail>`                 `writeArchive` returned `none`;
    `err <message>`                 the decoder rejected the archive.
-/
namespace Driver.HWriter
open Driver
open Ragc.Agc3 Ragc.Writer Ragc.Container

def noBlanks (s : String) : String := s.map fun c => if c = ' ' then '_' else c

def parseContig (s : String) : Option Contig :=
  match s.splitOn "/" with
  | [n, d] => do
    let n ← parseHex n
    let d ← parseHex d
    pure ⟨n, d⟩
  | _ => none

def parseSample (s : String) : Option Sample :=
  match s.splitOn "=" with
  | [n, cs] => do
    let n ← parseHex n
    let cs ← if cs.isEmpty then pure [] else (cs.splitOn ",").mapM parseContig
    pure ⟨n, cs⟩
  | _ => none

def parseInput (s : String) : Option (List Sample) :=
  if s = "!" then some [] else (s.splitOn ";").mapM parseSample

inductive Extra where
  | z (level : Nat) (plain frame : List Nat)
  | r (group : Nat) (tuples : Bool) (plain frame : List Nat)

def parseExtra (s : String) : Option (List Extra) :=
  if s = "-" then some []
  else (s.splitOn ",").mapM fun e =>
    match e.splitOn "." with
    | ["z", l, p, f] => do
      let l ← l.toNat?
      let p ← parseHex p
      let f ← parseHex f
      pure (Extra.z l p f)
    | ["r", g, m, p, f] => do
      let g ← g.toNat?
      let m ← m.toNat?
      let p ← parseHex p
      let f ← parseHex f
      pure (Extra.r g (m != 0) p f)
    | _ => none

/-- cheap key of a byte string: length and a polynomial checksum -/
def key (f : List Nat) : Nat × Nat :=
  f.foldl (fun (st : Nat × Nat) b => (st.1 + 1, (st.2 * 131 + b) % 1000000007)) (0, 0)

abbrev ZTable := Std.HashMap (Nat × Nat × Nat) (List (List Nat × List Nat))

def ZTable.add (t : ZTable) (level : Nat) (plain frame : List Nat) : ZTable :=
  let k := key plain
  let kk := (level, k.1, k.2)
  t.insert kk ((plain, frame) :: t.getD kk [])

/-- recognisable answer for a plain the oracle has no row for (the model then stores something the
real archive cannot contain and the comparison reports the place) -/
def missFrame : List Nat := List.replicate 24 238

def ZTable.zc (t : ZTable) (level : Nat) (plain : List Nat) : List Nat :=
  let k := key plain
  match (t.getD (level, k.1, k.2) []).find? (fun e => e.1 == plain) with
  | some e => e.2
  | none => missFrame

/-- One row per ZSTD frame of the archive, with the level the writer uses in that place. -/
def harvest (zd : List Nat → Option (List Nat)) (level : Nat) (c : CollectionRaw) (xs : List XStream) : ZTable :=
  let add (t : ZTable) (l : Nat) (frame : List Nat) : ZTable :=
    match zd frame with
    | some p => t.add l p frame
    | none => t
  let t : ZTable := {}
  let t := add t levelSamples c.samples.1
  let t := c.contigs.foldl (fun t b => add t levelContigNames b.1) t
  let t := c.details.foldl (fun t d => d.frames.foldl (fun t f => add t levelDetails f) t) t
  xs.foldl (fun t x =>
    x.parts.foldl (fun t b =>
      match partFrame b with
      | none => t
      | some f =>
        let l := match x.kind with
          | .delta => level
          | .ref => if b.1.getLast?.getD 0 = 0 then Ragc.SegCompress.refPlainLevel else Ragc.SegCompress.refTuplesLevel
        add t l f) t) t

structure PieceRec where
  g : Nat
  id : Nat
  s : Nat
  c : Nat
  i : Nat

def PieceRec.lt (a b : PieceRec) : Bool :=
  if a.g != b.g then a.g < b.g else
  if a.id != b.id then a.id < b.id else
  if a.s != b.s then a.s < b.s else
  if a.c != b.c then a.c < b.c else a.i < b.i

/-- Decisions from the decoded archive, the directory and the tuple hints. -/
def deriveDecisions (d : Decoded) (xs : List XStream) (hints : List Extra) : Decisions :=
  -- every piece
  let recs : Array PieceRec := Id.run do
    let mut out : Array PieceRec := #[]
    let mut s := 0
    for smp in d.samples do
      let mut c := 0
      for ctg in smp.contigs do
        let mut i := 0
        for ds in ctg.descs do
          out := out.push ⟨ds.group, ds.inGroup, s, c, i⟩
          i := i + 1
        c := c + 1
      s := s + 1
    pure out
  let sorted := recs.qsort PieceRec.lt
  -- members per group, slot per piece
  let (members, slots) := Id.run do
    let mut members : Std.HashMap Nat (Array PieceRef) := {}
    let mut slots : Std.HashMap (Nat × Nat × Nat) Nat := {}
    for r in sorted do
      let cur := members.getD r.g #[]
      slots := slots.insert (r.s, r.c, r.i) cur.size
      members := members.insert r.g (cur.push (r.s, r.c, r.i))
    pure (members, slots)
  -- groups in directory order
  let tupleOf (g : Nat) : Bool :=
    match xs.find? (fun x => x.group == g && x.kind == .ref) with
    | some x =>
      match x.parts with
      | b :: _ =>
        if b.2 ≠ 0 then b.1.getLast?.getD 0 ≠ 0
        else hints.any fun h => match h with
          | .r g' m _ _ => g' == g && m
          | _ => false
      | [] => false
    | none => false
  let order : List Nat := (xs.map (·.group)).eraseDups
  let groups : List GroupDec := order.map fun g => ⟨g, tupleOf g, (members.getD g #[]).toList⟩
  let pieces : List (List (List PieceDec)) :=
    (List.zipIdx d.samples).map fun (smp, s) =>
      (List.zipIdx smp.contigs).map fun (ctg, c) =>
        (List.zipIdx ctg.descs).map fun (ds, i) =>
          (⟨ds.rawLen, ds.group, slots.getD (s, c, i) 0, ds.rev⟩ : PieceDec)
  ⟨pieces, groups⟩

def firstDiffIdx (a b : List Nat) : Nat :=
  let rec go : List Nat → List Nat → Nat → Nat
    | x :: xs, y :: ys, n => if x = y then go xs ys (n + 1) else n
    | _, _, n => n
  go a b 0

/-- per stream: name and parts -/
def streamParts (bs : List Nat) : Except String (List (List Nat × List Blob)) := do
  let o ← openArchive bs
  o.dir.mapM fun st => do
    let ps ← readParts o.file st
    pure (st.name, ps)

def compareParts (real model : List (List Nat × List Blob)) : Option String :=
  let rn := real.map (·.1)
  let mn := model.map (·.1)
  if rn ≠ mn then
    let i := (List.zip rn mn).findIdx (fun p => p.1 ≠ p.2)
    some s!"stream-directory:real_has_{rn.length}_streams_model_{mn.length};first_difference_at_stream_{i}:real={showName (rn.getD i [])},model={showName (mn.getD i [])}"
  else
    (List.zip real model).findSome? fun (r, m) =>
      if r.2 == m.2 then none
      else if r.2.length ≠ m.2.length then
        some s!"stream_{showName r.1}:real_has_{r.2.length}_parts_model_{m.2.length}"
      else
        let j := (List.zip r.2 m.2).findIdx (fun p => p.1 != p.2)
        let rb := r.2.getD j ([], 0)
        let mb := m.2.getD j ([], 0)
        let miss := if mb.1.take 24 == missFrame then ";the_ZSTD_oracle_has_no_row_for_the_model's_content_(contents_differ)" else ""
        some s!"stream_{showName r.1}_part_{j}:real=({rb.1.length}_bytes,metadata_{rb.2}),model=({mb.1.length}_bytes,metadata_{mb.2}),first_differing_byte_{firstDiffIdx rb.1 mb.1}{miss}"

def handleWriter : List String → Option String
  | ["writer-check", hex, plains, level, input, extra] => do
    let bs ← parseHex hex
    let ps ← (plains.splitOn ",").mapM parseHex
    let level ← level.toNat?
    let inp ← parseInput input
    let ex ← parseExtra extra
    match frames bs with
    | .error e => some ("err " ++ noBlanks e)
    | .ok fs =>
      if fs.length ≠ ps.length then some s!"err frame-count-mismatch:{fs.length}:{ps.length}"
      else
        let tbl := (List.zip fs ps).toArray.map fun fp => (HAgc3.frameKey fp.1, fp.1, fp.2)
        let zd := HAgc3.tableZd tbl
        match decodeArchive bs zd with
        | .error e => some ("err " ++ noBlanks e)
        | .ok d =>
          let r : Except String String := do
            let o ← openArchive bs
            let c ← readCollection o
            let xs ← xStreams o
            let zt := harvest zd level c xs
            let zt := ex.foldl (fun t e => match e with
              | .z l p f => t.add l p f
              | .r _ m p f => t.add (if m then Ragc.SegCompress.refTuplesLevel else Ragc.SegCompress.refPlainLevel) p f) zt
            let dec := deriveDecisions d xs ex
            let cfg : Cfg := ⟨d.k, d.mm, d.segSize, level⟩
            if ¬ decisionsOK cfg inp dec then
              pure s!"notok decisions:{d.violations.length}_decoder_violations"
            else if ¬ decide (codesOK inp) then
              pure "notok codes"
            else
              match writeArchive cfg inp dec zt.zc with
              | none => pure "none writeArchive"
              | some out =>
                if out == bs then pure s!"ok bytes {bs.length}"
                else
                  let real ← streamParts bs
                  let model ← streamParts out
                  match compareParts real model with
                  | none => pure s!"ok parts first_differing_byte_{firstDiffIdx bs out}_of_{bs.length}_vs_{out.length}"
                  | some msg => pure ("diff " ++ noBlanks msg)
          match r with
          | .ok s => some s
          | .error e => some ("err " ++ noBlanks e)
  | _ => none

end Driver.HWriter

namespace Driver
export HWriter (handleWriter)
end Driver
