import RagcModel.Model.FileIO
import Driver.Proto
/-!
Requests of the `fileio` family (model of the write path of `create`, `Model/FileIO.lean`).
Byte strings are hex (`-` = empty); lists of byte strings are comma-separated (`~` = empty list).

* `fileio-bufwriter <cap> <limit> <ops>` — `ops` is a comma-separated list of `w<hex>` (`write_all`),
  `f` (`flush`) and `d` (drop; must be last if present). Reply: `ok <r> <buf hex> <file hex>` where
  `<r>` has one letter per `w`/`f` op (`o` = `Ok`, `e` = `Err`; `-` when there is none).
* `fileio-create <cap> <limit> <chunks> <footer> <footerD>` — one `create` run: `finalize` then the
  destructors. Reply: `<ok|err> <ok|ioerr|nowriter> <file hex>`.
-/
namespace Driver.HFileIO
open Driver
open Ragc.FileIO

def parseHexList (s : String) : Option (List (List Nat)) :=
  if s = "~" then some [] else (s.splitOn ",").mapM parseHex

inductive BwOp where
  | w (bs : List Nat)
  | f
  | d

def parseBwOp (s : String) : Option BwOp :=
  if s = "f" then some .f
  else if s = "d" then some .d
  else if s.startsWith "w" then (parseHex (s.drop 1).toString).map .w
  else none

def resLetter : Res → Char
  | .ok => 'o'
  | .err => 'e'

def runBw : BufWriter → List BwOp → List Char → Option (List Char × List Nat × List Nat)
  | w, [], acc => some (acc.reverse, w.buf, w.inner.contents)
  | w, [.d], acc => some (acc.reverse, [], w.drop.contents)
  | _, .d :: _ :: _, _ => none
  | w, .w bs :: rest, acc => let (r, w1) := w.writeAll bs; runBw w1 rest (resLetter r :: acc)
  | w, .f :: rest, acc => let (r, w1) := w.flush; runBw w1 rest (resLetter r :: acc)

def handleFileIO : List String → Option String
  | ["fileio-bufwriter", cap, limit, ops] => do
    let cap ← cap.toNat?
    let limit ← limit.toNat?
    let ops ← (if ops = "~" then some [] else (ops.splitOn ",").mapM parseBwOp)
    let (rs, buf, file) ← runBw ⟨cap, [], ⟨limit, []⟩⟩ ops []
    let r := if rs.isEmpty then "-" else String.ofList rs
    some s!"ok {r} {toHex buf} {toHex file}"
  | ["fileio-create", cap, limit, chunks, footer, footerD] => do
    let cap ← cap.toNat?
    let limit ← limit.toNat?
    let chunks ← parseHexList chunks
    let footer ← parseHex footer
    let footerD ← parseHex footerD
    let (r, d, file) := createRun cap limit chunks footer footerD
    let rs := match r with | .ok => "ok" | .err => "err"
    let ds := match d with | .ok => "ok" | .ioErr => "ioerr" | .noWriter => "nowriter"
    some s!"{rs} {ds} {toHex file}"
  | ["fileio-create-len", cap, limit, lens, flen] => do
    let cap ← cap.toNat?
    let limit ← limit.toNat?
    let lens ← parseNatList lens
    let flen ← flen.toNat?
    let footer := List.replicate flen 0
    let (r, d, file) := createRun cap limit (lens.map (fun n => List.replicate n 0)) footer footer
    let rs := match r with | .ok => "ok" | .err => "err"
    let ds := match d with | .ok => "ok" | .ioErr => "ioerr" | .noWriter => "nowriter"
    some s!"{rs} {ds} {file.length}"
  | _ => none

end Driver.HFileIO

namespace Driver
export HFileIO (handleFileIO)
end Driver
