import RagcModel.Gen.Tables
/-!
# Model of the FASTA reader / writer of `ragc-core/src/genome_io.rs` and of the sample naming of
`ragc-core/src/contig_iterator.rs` (`MultiFileIterator`)

Bytes are `Nat`s (`< 256`); a text, a line, a header and a path are `List Nat`.

Domain notes (where the byte model and the Rust `String` handling coincide):
* the header goes through `String::from_utf8_lossy(..).trim_start_matches('>').trim()`. On a header
  line that is valid UTF-8 and has no *non-ASCII* Unicode white space (U+0085, U+00A0, U+1680,
  U+2000.., U+3000 …) next to its ends, this is: drop leading `>`s, then drop the ASCII white space
  `\t \n \v \f \r ' '` (9–13, 32) at both ends — which is what `headerId` does on bytes. Invalid
  UTF-8 (replaced by U+FFFD in the Rust) is outside the model.
* paths: `sampleNameOfPath` is the rule of `Path::file_stem` for paths whose last component is a
  normal file name (not empty, not `.`/`..`, valid UTF-8); anything else is `none` (outside).
* gzip (`flate2::MultiGzDecoder`) is not modelled: the text is the decompressed byte stream.
-/
namespace Ragc.Fasta

abbrev Bytes := List Nat

/-! ## lines: what successive `BufRead::read_until(b'\n', ..)` calls return -/

/-- One `reader.read_until(b'\n', &mut buf)` (genome_io.rs:118, 132) on the remaining input:
`none` when `bytes_read == 0` (end of input), otherwise the line **including** its `\n` (the last
line of a text without final newline has none; `\r` is an ordinary byte) and the remaining input. -/
def readLine : Bytes → Option (Bytes × Bytes)
  | [] => none
  | b :: rest =>
    if b = 10 then some ([10], rest)
    else match readLine rest with
      | none => some ([b], [])
      | some (l, r) => some (b :: l, r)

/-- All lines of a text, in order: the sequence of buffers the successive `read_until` calls fill
(`Lemmas/Fasta.lean` `lines_eq_readLine`: `lines t = l :: lines r` when `readLine t = some (l, r)`). -/
def lines : Bytes → List Bytes
  | [] => []
  | b :: rest =>
    if b = 10 then [10] :: lines rest
    else match lines rest with
      | [] => [[b]]
      | l :: ls => (b :: l) :: ls

/-! ## header -/

/-- `char::is_whitespace` restricted to ASCII: `\t \n \v \f \r` and space. -/
def isWs (b : Nat) : Bool := (9 ≤ b && b ≤ 13) || b = 32

def trimStart (l : Bytes) : Bytes := l.dropWhile isWs
def trimEnd (l : Bytes) : Bytes := (l.reverse.dropWhile isWs).reverse
/-- `str::trim` (ASCII part). -/
def trim (l : Bytes) : Bytes := trimStart (trimEnd l)

/-- genome_io.rs:126-127: `id_line.trim_start_matches('>').trim()` on the raw header line (the
line still carries its `>`s and its line end). Note that the line is **not** required to start
with `>`: whatever line the reader takes as header line is treated this way. -/
def headerId (line : Bytes) : Bytes := trim (line.dropWhile (· = 62))

/-- genome_io.rs:140 `!self.buffer.is_empty() && self.buffer[0] == b'>'`. -/
def isHeaderLine (l : Bytes) : Bool := l.head? = some 62

/-! ## `read_contig_raw` (genome_io.rs, after the D9 repair) as a state machine -/

/-- Reader state: the lines not yet read from the `BufReader` and `next_header` (the header line
read ahead by the previous call). -/
structure Reader where
  lines : List Bytes
  nextHeader : Option Bytes
deriving Repr, DecidableEq

/-- The `loop` of genome_io.rs:130-148 on the unread lines: returns the raw contig (every line
up to the next header line, **with** line ends), the header line read ahead (if any) and the
unread lines. -/
def readSeqLines : List Bytes → Bytes → Bytes × Option Bytes × List Bytes
  | [], acc => (acc, none, [])
  | l :: ls, acc =>
    if isHeaderLine l then (acc, some l, ls)
    else readSeqLines ls (acc ++ l)

/-- `String::from_utf8_lossy(&self.buffer).trim().is_empty()`: a line of white space only. -/
def isBlankLine (l : Bytes) : Bool := trim l = []

/-- The header line of this call and the unread lines after it: the buffered `next_header` if
there is one, else the next line **that is not blank**, whatever it is; `none` = end of input
(`bytes_read == 0`). -/
def takeHeaderLine (r : Reader) : Option (Bytes × List Bytes) :=
  match r.nextHeader with
  | some h => some (h, r.lines)
  | none =>
    match r.lines.dropWhile isBlankLine with
    | [] => none
    | l :: ls => some (l, ls)

/-- What one `read_contig_raw` call returns. -/
inductive ReadOutcome where
  /-- `Ok(None)`: end of input -/
  | eof
  /-- `Err(InvalidData)`: a record whose name is empty -/
  | invalid
  /-- `Ok(Some((id, contig)))`; the contig may be empty (a header without any line after it) -/
  | record (id raw : Bytes)
deriving Repr, DecidableEq

/-- End of `read_contig_raw`: `if id.is_empty() { return Err(..) }`, else the record — also when
its contig is empty (callers skip empty contigs). -/
def recordResult (id contig : Bytes) : ReadOutcome :=
  if id = [] then .invalid else .record id contig

/-- `GenomeIO::read_contig_raw`: result and next state. -/
def readContigRaw (r : Reader) : ReadOutcome × Reader :=
  match takeHeaderLine r with
  | none => (.eof, r)
  | some (h, ls) =>
    let s := readSeqLines ls []
    (recordResult (headerId h) s.1, ⟨s.2.2, s.2.1⟩)

/-! ## `read_contig_impl(converted = true)` (genome_io.rs:158-180) -/

def cnv (c : Nat) : Nat := Ragc.Gen.cnvNum.getD c 0

/-- The filter/convert loop of genome_io.rs:168-177 with `converted = true`:
`if c > 64 && (c as usize) < CNV_NUM.len() { contig.push(CNV_NUM[c]) }`. -/
def convert (raw : Bytes) : Bytes :=
  (raw.filter (fun c => Ragc.Gen.keepAbove < c && c < Ragc.Gen.cnvNum.length)).map cnv

/-- The same loop with `converted = false` (`read_contig`): keeps the letters as they are. -/
def filterRaw (raw : Bytes) : Bytes :=
  raw.filter (fun c => Ragc.Gen.keepAbove < c && c < Ragc.Gen.cnvNum.length)

/-- `read_contig_converted` / `read_contig_impl(true)`: `(id, codes)`. -/
def readContigConverted (r : Reader) : ReadOutcome × Reader :=
  match readContigRaw r with
  | (.record id raw, r') => (.record id (convert raw), r')
  | other => other

/-- Number of `read_until` results still to come, counting the buffered header. -/
def Reader.size (r : Reader) : Nat := r.lines.length + (if r.nextHeader.isSome then 1 else 0)

theorem readSeqLines_size (ls : List Bytes) (acc : Bytes) :
    (readSeqLines ls acc).2.2.length + (if (readSeqLines ls acc).2.1.isSome then 1 else 0)
      ≤ ls.length := by
  induction ls generalizing acc with
  | nil => simp [readSeqLines]
  | cons l ls ih =>
    unfold readSeqLines
    by_cases h : isHeaderLine l
    · simp [h]
    · simp only [h, Bool.false_eq_true, if_false]
      have := ih (acc ++ l)
      simp only [List.length_cons]
      omega

theorem dropWhile_length_le {α : Type} (p : α → Bool) (l : List α) :
    (l.dropWhile p).length ≤ l.length := by
  induction l with
  | nil => simp
  | cons a l ih =>
    simp only [List.dropWhile_cons]
    split
    · simp only [List.length_cons]; omega
    · simp

theorem takeHeaderLine_size (r : Reader) (h : Bytes) (ls : List Bytes)
    (hh : takeHeaderLine r = some (h, ls)) : ls.length < r.size := by
  unfold takeHeaderLine at hh
  simp only [Reader.size]
  cases hn : r.nextHeader with
  | some x => simp [hn] at hh; simp [hh.2]
  | none =>
    simp only [hn] at hh
    have := dropWhile_length_le isBlankLine r.lines
    cases hl : r.lines.dropWhile isBlankLine with
    | nil => simp [hl] at hh
    | cons a b =>
      simp [hl] at hh
      rw [hl] at this
      simp only [List.length_cons] at this
      simp [← hh.2]
      omega

theorem readContigRaw_size (r : Reader) (id raw : Bytes) (r' : Reader)
    (h : readContigRaw r = (.record id raw, r')) : r'.size < r.size := by
  unfold readContigRaw at h
  cases hh : takeHeaderLine r with
  | none => simp [hh] at h
  | some p =>
    obtain ⟨hd, ls⟩ := p
    simp only [hh] at h
    have hs := readSeqLines_size ls []
    have := takeHeaderLine_size r hd ls hh
    have h2 := (Prod.mk.injEq _ _ _ _).mp h
    rw [← h2.2]
    simp only [Reader.size] at this ⊢
    omega

/-- Every caller's loop `while let Some(..) = reader.read_contig_converted()?` (MultiFileIterator
::next_contig → main.rs; splitters.rs): all records up to the end of the input; `none` = the `?`
exit (`Err`: a record with an empty name). -/
def readAll (r : Reader) : Option (List (Bytes × Bytes)) :=
  match h : readContigRaw r with
  | (.eof, _) => some []
  | (.invalid, _) => none
  | (.record id raw, r') => (readAll r').map ((id, convert raw) :: ·)
termination_by r.size
decreasing_by exact readContigRaw_size r id raw r' h

/-- What one input file yields: `(header, codes)` for every record (records whose codes are empty
are still listed here; main.rs skips them, see `createInput`); `none` = reading fails. -/
def parseFile (text : Bytes) : Option (List (Bytes × Bytes)) := readAll ⟨lines text, none⟩

/-- ragc-cli/src/main.rs create_archive: `if sequence.is_empty() { continue }` /
`if !sequence.is_empty() { push }`. -/
def createInput (text : Bytes) : Option (List (Bytes × Bytes)) :=
  (parseFile text).map (·.filter (fun p => p.2 ≠ []))

/-! ## sample naming -/

/-- `str::split(sep)`: always at least one (possibly empty) field. -/
def splitBy (sep : Nat) : Bytes → List Bytes
  | [] => [[]]
  | b :: rest =>
    if b = sep then [] :: splitBy sep rest
    else match splitBy sep rest with
      | [] => [[b]]
      | p :: ps => (b :: p) :: ps

def joinBy (sep : Nat) : List Bytes → Bytes
  | [] => []
  | [p] => p
  | p :: ps => p ++ sep :: joinBy sep ps

/-- "unknown" -/
def unknown : Bytes := [117, 110, 107, 110, 111, 119, 110]

/-- `parse_sample_from_header` (genome_io.rs:42-55): `(sample, contig)`; with at least three
`#`-separated fields the sample is `field0#field1` and the contig the rest joined by `#`, else
`("unknown", header)`. -/
def parseSampleFromHeader (h : Bytes) : Bytes × Bytes :=
  match splitBy 35 h with
  | a :: b :: c :: rest => (a ++ 35 :: b, joinBy 35 (c :: rest))
  | _ => (unknown, h)

/-- Last path component: what `Path::file_name` returns for a path that does not end in `/`,
`/.` or `/..`. -/
def fileName (p : Bytes) : Bytes := (p.reverse.takeWhile (· ≠ 47)).reverse

/-- `Path::file_stem` on a file name (std `rsplit_file_at_dot`): the part before the last `.`;
the whole name if there is no `.` or the only `.` is the first byte. -/
def fileStem (name : Bytes) : Bytes :=
  let r := name.reverse
  let after := r.takeWhile (· ≠ 46)
  if after.length = r.length then name
  else
    let before := (r.drop (after.length + 1)).reverse
    if before = [] then name else before

/-- Repeatedly strip the prefix `pre` (used on reversed strings for `trim_end_matches`). -/
def stripPrefixRep (pre : Bytes) (l : Bytes) : Bytes :=
  if h : pre ≠ [] ∧ pre.isPrefixOf l then stripPrefixRep pre (l.drop pre.length) else l
termination_by l.length
decreasing_by
  have h1 : 0 < pre.length := List.length_pos_iff.mpr h.1
  have h2 : pre.length ≤ l.length := (List.isPrefixOf_iff_prefix.mp h.2).length_le
  simp only [List.length_drop]
  omega

/-- `str::trim_end_matches(suffix)`: strips the suffix repeatedly. -/
def trimEndMatches (suf : Bytes) (l : Bytes) : Bytes :=
  (stripPrefixRep suf.reverse l.reverse).reverse

/-- ".fa" / ".fasta" -/
def dotFa : Bytes := [46, 102, 97]
def dotFasta : Bytes := [46, 102, 97, 115, 116, 97]
def dotGz : Bytes := [46, 103, 122]

/-- contig_iterator.rs:550-559 on the file name:
`file_stem.trim_end_matches(".fa").trim_end_matches(".fasta")`. -/
def sampleNameOfFile (name : Bytes) : Bytes :=
  trimEndMatches dotFasta (trimEndMatches dotFa (fileStem name))

/-- `MultiFileIterator::open_file` sample name of a path (contig_iterator.rs:550-559). `none`:
the last component is empty, `.` or `..` (outside the model). -/
def sampleNameOfPath (p : Bytes) : Option Bytes :=
  let name := fileName p
  if name = [] ∨ name = [46] ∨ name = [46, 46] then none else some (sampleNameOfFile name)

/-- `MultiFileIterator::next_contig` (contig_iterator.rs:589-599): the sample a record goes to:
the PanSN part of its header if the header has ≥ 3 `#`-fields, else the file's sample name. -/
def sampleOf (fileSample : Bytes) (header : Bytes) : Bytes :=
  let s := (parseSampleFromHeader header).1
  if s ≠ unknown then s else fileSample

/-- The `(sample, contig name, codes)` stream one input file contributes to `create`
(MultiFileIterator + main.rs skip of empty sequences); the contig name is the full header. -/
def fileStream (fileSample : Bytes) (text : Bytes) : Option (List (Bytes × Bytes × Bytes)) :=
  (createInput text).map (·.map (fun p => (sampleOf fileSample p.1, p.1, p.2)))

/-! ## output side -/

/-- decompressor.rs write_sample_fasta (1053-1061): `if base < 16 { CNV_NUM[base] } else { b'N' }`. -/
def outLetter (code : Nat) : Nat := if code < 16 then cnv code else 78

/-- `slice::chunks(w)` for `w ≥ 1` (`chunks(0)` panics in Rust; the model returns `[]` there —
the only width used is the constant 80). -/
def chunks (w : Nat) (l : Bytes) : List Bytes :=
  if h : w = 0 ∨ l = [] then [] else l.take w :: chunks w (l.drop w)
termination_by l.length
decreasing_by
  have : 0 < l.length := List.length_pos_iff.mpr (by simp_all)
  simp only [List.length_drop]
  omega

/-- genome_io.rs:233 `const LINE_WIDTH: usize = 80`. -/
def lineWidth : Nat := 80

/-- `GenomeWriter::save_contig_directly` (genome_io.rs:222-240): `>id\n`, then the sequence in
chunks of 80, each followed by `\n` (an empty contig is the header line alone). -/
def saveContig (id seq : Bytes) : Bytes :=
  62 :: id ++ 10 :: ((chunks lineWidth seq).map (· ++ [10])).flatten

/-- `write_sample_fasta` (decompressor.rs:1045-1070) on the `(name, codes)` list of a sample. -/
def writeFasta (contigs : List (Bytes × Bytes)) : Bytes :=
  (contigs.map (fun c => saveContig c.1 (c.2.map outLetter))).flatten

/-! ## the documented normalisation -/

def isUpper (b : Nat) : Bool := 65 ≤ b && b ≤ 90
def isLower (b : Nat) : Bool := 97 ≤ b && b ≤ 122
def isLetter (b : Nat) : Bool := isUpper b || isLower b
def toUpper (b : Nat) : Nat := if isLower b then b - 32 else b
def toLower (b : Nat) : Nat := if isUpper b then b + 32 else b

/-- `ACGTNRYSWKMBDHVU` -/
def iupac : Bytes := [65, 67, 71, 84, 78, 82, 89, 83, 87, 75, 77, 66, 68, 72, 86, 85]

/-- The documented normalisation of one letter: upper case; outside the IUPAC set → `N`. -/
def normLetter (b : Nat) : Nat := if iupac.contains (toUpper b) then toUpper b else 78

/-- The documented normalisation of sequence text: non-letters dropped, upper case, letters
outside the IUPAC set read back as `N`. -/
def normalise (raw : Bytes) : Bytes := (raw.filter isLetter).map normLetter

/-- The bytes `> 64` that are not letters: `[ \ ] ^ _` and the back quote, `{ | } ~`, DEL. The code does not
drop them (only bytes `≤ 64` and `≥ 128` are dropped). -/
def isHighPunct (b : Nat) : Bool := (91 ≤ b && b ≤ 96) || (123 ≤ b && b ≤ 127)

/-- What the code really does to sequence text: as `normalise`, but the 11 `isHighPunct` bytes
are kept and read back as `N`. -/
def normaliseCode (raw : Bytes) : Bytes :=
  (raw.filter (fun b => isLetter b || isHighPunct b)).map
    (fun b => if isLetter b then normLetter b else 78)

/-! ## presentations -/

/-- A record as the user means it: header text (without `>` and line end) and letters. -/
structure Rec where
  header : Bytes
  seq : Bytes
deriving Repr, DecidableEq

/-- How one record is laid out: line width (`≥ 1`), line end, and the case of each letter
(`lower.getD i false` = letter `i` in lower case, otherwise upper case). -/
structure RecStyle where
  width : Nat
  crlf : Bool
  lower : List Bool
deriving Repr, DecidableEq

def lineEnd (crlf : Bool) : Bytes := if crlf then [13, 10] else [10]

/-- Case pattern applied letter by letter. -/
def applyCase : List Bool → Bytes → Bytes
  | _, [] => []
  | [], b :: bs => toUpper b :: applyCase [] bs
  | c :: cs, b :: bs => (if c then toLower b else toUpper b) :: applyCase cs bs

/-- Lines joined by the line end `nl`; the very last line of the text has no line end when
`closeLast = false`. -/
def renderLines (nl : Bytes) (closeLast : Bool) : List Bytes → Bytes
  | [] => []
  | [c] => if closeLast then c ++ nl else c
  | c :: cs => c ++ nl ++ renderLines nl closeLast cs

/-- The lines of one record (without line ends): `>header`, then the letters in the record's case
pattern in chunks of `width`. -/
def recLines (r : Rec) (s : RecStyle) : List Bytes :=
  (62 :: r.header) :: chunks s.width (applyCase s.lower r.seq)

/-- One record as text. `closeLast = false` only for the last record of a text without final
newline. -/
def renderRec (r : Rec) (s : RecStyle) (closeLast : Bool) : Bytes :=
  renderLines (lineEnd s.crlf) closeLast (recLines r s)

/-- A presentation of a list of records: each with its own style, the text with or without
final newline. -/
def render (finalNewline : Bool) : List (Rec × RecStyle) → Bytes
  | [] => []
  | [(r, s)] => renderRec r s finalNewline
  | (r, s) :: rest => renderRec r s true ++ render finalNewline rest

/-- What every presentation must parse to: trimmed header, table code of the upper-cased letter. -/
def canonRec (r : Rec) : Bytes × Bytes := (headerId (62 :: r.header), r.seq.map (fun b => cnv (toUpper b)))

def canon (recs : List Rec) : List (Bytes × Bytes) := recs.map canonRec

end Ragc.Fasta
