/-
Model of ragc-common/src/collection.rs lines 101–222: `CollectionVarInt` (prefix varint for u32,
NUL-terminated strings) plus the two `std` UTF-8 conversions the collection code applies to
decoded bytes (`String::from_utf8`, `String::from_utf8_lossy`).
Import-free (core Lean only) so that the driver executable links.

Bytes are `Nat` (`< 256` on every path that comes from the harness / from `encode`).
Arithmetic is that of the *release* profile (the harness is built with `overflow-checks = false`):
the only place where that matters in this file is the 5-byte form of `decode`, where
`num += THR_4` wraps modulo 2^32 (the dev profile panics there).
-/
namespace Ragc.CollVarint

/-- Three-way outcome of the (de)serialisers: a value, an `anyhow` error, or a Rust panic
    (index out of bounds, `expect` on invalid UTF-8, …). -/
inductive Res (α : Type) where
  | ok (a : α)
  | err
  | panic
deriving Repr, DecidableEq

namespace Res
@[inline] def bind {α β : Type} : Res α → (α → Res β) → Res β
  | ok a, f => f a
  | err, _ => err
  | panic, _ => panic

instance : Monad Res where
  pure := ok
  bind := Res.bind

@[simp] theorem ok_bind {α β : Type} (a : α) (f : α → Res β) : (ok a >>= f) = f a := rfl
@[simp] theorem err_bind {α β : Type} (f : α → Res β) : ((err : Res α) >>= f) = err := rfl
@[simp] theorem panic_bind {α β : Type} (f : α → Res β) : ((panic : Res α) >>= f) = panic := rfl
@[simp] theorem pure_eq {α : Type} (a : α) : (pure a : Res α) = ok a := rfl

/-- `?` on a `Result`: `None` of the inner decoder is an `anyhow` error. -/
def ofOption {α : Type} : Option α → Res α
  | some a => ok a
  | none => err

@[simp] theorem ofOption_some {α : Type} (a : α) : ofOption (some a) = ok a := rfl
@[simp] theorem ofOption_none {α : Type} : ofOption (none : Option α) = err := rfl
end Res

/-- `THR_1 .. THR_4` (collection.rs 104–107); `encode`/`decode` below use the literals. -/
def THR1 : Nat := 128
def THR2 : Nat := 16512
def THR3 : Nat := 2113664
def THR4 : Nat := 270549120

/-- `CollectionVarInt::encode` (collection.rs 120–146). Domain: `n < 2^32` (the argument is a `u32`). -/
def encode (n : Nat) : List Nat :=
  if n < 128 then [n]
  else if n < 16512 then
    let m := n - 128
    [0x80 + m / 256, m % 256]
  else if n < 2113664 then
    let m := n - 16512
    [0xC0 + m / 65536, m / 256 % 256, m % 256]
  else if n < 270549120 then
    let m := n - 2113664
    [0xE0 + m / 16777216, m / 65536 % 256, m / 256 % 256, m % 256]
  else
    let m := n - 270549120
    [0xF0, m / 16777216 % 256, m / 65536 % 256, m / 256 % 256, m % 256]

/-- `CollectionVarInt::decode` (collection.rs 148–204): value and remaining bytes, `none` = the
    `bail!` on truncated input. The form is chosen by the prefix bits of the first byte only
    (`0xF0..0xFF` all select the 5-byte form; its low nibble is ignored). -/
def decode : List Nat → Option (Nat × List Nat)
  | [] => none
  | b0 :: r =>
    if b0 < 0x80 then some (b0, r)
    else if b0 < 0xC0 then
      match r with
      | b1 :: r => some (b0 * 256 + b1 + 128 - 0x8000, r)
      | _ => none
    else if b0 < 0xE0 then
      match r with
      | b1 :: b2 :: r => some (b0 * 65536 + b1 * 256 + b2 + 16512 - 0xC00000, r)
      | _ => none
    else if b0 < 0xF0 then
      match r with
      | b1 :: b2 :: b3 :: r => some (b0 * 16777216 + b1 * 65536 + b2 * 256 + b3 + 2113664 - 0xE0000000, r)
      | _ => none
    else
      match r with
      | b1 :: b2 :: b3 :: b4 :: r =>
        some ((b1 * 16777216 + b2 * 65536 + b3 * 256 + b4 + 270549120) % 4294967296, r)
      | _ => none

/-- `encode_string` (206–209). -/
def encodeString (s : List Nat) : List Nat := s ++ [0]

/-- `ptr.iter().position(|&b| b == 0)` and the two slices around it. -/
def splitNul : List Nat → Option (List Nat × List Nat)
  | [] => none
  | b :: r =>
    if b = 0 then some ([], r)
    else match splitNul r with
      | some (s, t) => some (b :: s, t)
      | none => none

def isCont (b : Nat) : Bool := 0x80 ≤ b && b ≤ 0xBF

/-- Allowed second byte of a 3-byte sequence (no overlong forms, no surrogates). -/
def second3 (b0 b1 : Nat) : Bool :=
  if b0 = 0xE0 then 0xA0 ≤ b1 && b1 ≤ 0xBF
  else if b0 = 0xED then 0x80 ≤ b1 && b1 ≤ 0x9F
  else 0x80 ≤ b1 && b1 ≤ 0xBF

/-- Allowed second byte of a 4-byte sequence (no overlong forms, at most U+10FFFF). -/
def second4 (b0 b1 : Nat) : Bool :=
  if b0 = 0xF0 then 0x90 ≤ b1 && b1 ≤ 0xBF
  else if b0 = 0xF4 then 0x80 ≤ b1 && b1 ≤ 0x8F
  else 0x80 ≤ b1 && b1 ≤ 0xBF

/-- `String::from_utf8(..).is_ok()` — well-formed UTF-8 (Unicode table 3-7). -/
def utf8Valid : List Nat → Bool
  | [] => true
  | b0 :: r =>
    if b0 < 0x80 then utf8Valid r
    else if 0xC2 ≤ b0 ∧ b0 ≤ 0xDF then
      match r with
      | b1 :: r1 => isCont b1 && utf8Valid r1
      | [] => false
    else if 0xE0 ≤ b0 ∧ b0 ≤ 0xEF then
      match r with
      | b1 :: b2 :: r2 => second3 b0 b1 && isCont b2 && utf8Valid r2
      | _ => false
    else if 0xF0 ≤ b0 ∧ b0 ≤ 0xF4 then
      match r with
      | b1 :: b2 :: b3 :: r3 => second4 b0 b1 && isCont b2 && isCont b3 && utf8Valid r3
      | _ => false
    else false
termination_by l => l.length
decreasing_by all_goals (simp only [List.length_cons]; omega)

/-- U+FFFD in UTF-8. -/
def replacement : List Nat := [0xEF, 0xBF, 0xBD]

/-- `String::from_utf8_lossy(..)` as bytes (core `Utf8Chunks`): every maximal invalid prefix of a
    sequence (lead byte plus the continuation bytes accepted so far) becomes one U+FFFD. -/
def utf8Lossy : List Nat → List Nat
  | [] => []
  | b0 :: r =>
    if b0 < 0x80 then b0 :: utf8Lossy r
    else if 0xC2 ≤ b0 ∧ b0 ≤ 0xDF then
      match r with
      | b1 :: r1 => if isCont b1 then b0 :: b1 :: utf8Lossy r1 else replacement ++ utf8Lossy (b1 :: r1)
      | [] => replacement
    else if 0xE0 ≤ b0 ∧ b0 ≤ 0xEF then
      match r with
      | b1 :: r1 =>
        if second3 b0 b1 then
          match r1 with
          | b2 :: r2 =>
            if isCont b2 then b0 :: b1 :: b2 :: utf8Lossy r2 else replacement ++ utf8Lossy (b2 :: r2)
          | [] => replacement
        else replacement ++ utf8Lossy (b1 :: r1)
      | [] => replacement
    else if 0xF0 ≤ b0 ∧ b0 ≤ 0xF4 then
      match r with
      | b1 :: r1 =>
        if second4 b0 b1 then
          match r1 with
          | b2 :: r2 =>
            if isCont b2 then
              match r2 with
              | b3 :: r3 =>
                if isCont b3 then b0 :: b1 :: b2 :: b3 :: utf8Lossy r3
                else replacement ++ utf8Lossy (b3 :: r3)
              | [] => replacement
            else replacement ++ utf8Lossy (b2 :: r2)
          | [] => replacement
        else replacement ++ utf8Lossy (b1 :: r1)
      | [] => replacement
    else replacement ++ utf8Lossy r
termination_by l => l.length
decreasing_by all_goals (simp only [List.length_cons]; omega)

/-- `decode_string` (211–221): bytes up to the first NUL, which must be valid UTF-8. -/
def decodeString (d : List Nat) : Option (List Nat × List Nat) :=
  match splitNul d with
  | some (s, t) => if utf8Valid s then some (s, t) else none
  | none => none

end Ragc.CollVarint
