/-!
Model of `ragc-core/src/tuple_packing.rs` (tuple packing of reference segments).

Bytes are `Nat` (callers give values `< 256`; the driver parses hex so this always holds there).
Every definition names the Rust lines it mirrors. Panics of the Rust code are `none`.
-/
namespace Ragc.Tuple

/-- `c = c * MAX + bytes[..]` (tuple_packing.rs 65–68 and 75–79): value of a run of symbols read
as base-`mx` digits, most significant first. `c` is a `u32` in Rust; with at most 4 bytes `< 256`
and `mx ≤ 16` it stays below `2^32`, so no wrap is modelled. -/
def tupleVal (mx : Nat) (bs : List Nat) : Nat :=
  bs.foldl (fun c b => c * mx + b) 0

/-- `pack_tuples` 60–80: one output byte per full group of `n` symbols, then ALWAYS one trailing
byte for the `len % n` left-over symbols (value 0 when there are none). `c as u8` is `% 256`.
`bs` is `bytes[i..]` and `rem = bytes.len() - i` (carried so that the loop test
`i + N <= bytes.len()` costs O(1) as in Rust; `packTuples` starts it with `rem = bs.length`). -/
def packLoop (n mx : Nat) (bs : List Nat) (rem : Nat) : List Nat :=
  if h : 0 < n ∧ n ≤ rem then
    (tupleVal mx (bs.take n) % 256) :: packLoop n mx (bs.drop n) (rem - n)
  else
    [tupleVal mx bs % 256]
termination_by rem
decreasing_by omega

/-- `pack_tuples` 83: `((N as u8) << 4) | ((bytes.len() % N) as u8)`. -/
def markerByte (n len : Nat) : Nat :=
  (((n % 256) <<< 4) % 256) ||| ((len % n) % 256)

/-- `pack_tuples::<N, MAX>` 59–87. -/
def packTuples (n mx : Nat) (bs : List Nat) : List Nat :=
  packLoop n mx bs bs.length ++ [markerByte n bs.length]

/-- `*bytes.iter().max().unwrap()` (line 11) for a non-empty slice. -/
def maxElem (bs : List Nat) : Nat := bs.foldl max 0

/-- `bytes_to_tuples` 6–25. -/
def bytesToTuples (bs : List Nat) : List Nat :=
  if bs.isEmpty then [0x10]
  else
    let m := maxElem bs
    if m < 4 then packTuples 4 4 bs
    else if m < 6 then packTuples 3 6 bs
    else if m < 16 then packTuples 2 16 bs
    else bs ++ [0x10]

/-- `for k in (0..n).rev() { output[j+k] = c % MAX; c /= MAX }` (104–107, 118–121): the `k` low
base-`mx` digits of `c`, most significant first (higher digits of `c` are dropped). -/
def digits (mx : Nat) : Nat → Nat → List Nat
  | 0, _ => []
  | k + 1, c => digits mx k (c / mx) ++ [c % mx]

/-- `unpack_tuples::<N, MAX>` 91–123 over the tuple bytes still unread, `rem = output_size - j`.
`tuples[i]` beyond the slice is an index panic (`none`). The trailing count is
`output_size % N` exactly as in line 114. -/
def unpackLoop (n mx outputSize : Nat) : List Nat → Nat → Option (List Nat)
  | [], rem =>
    if n ≤ rem then none
    else if 0 < outputSize % n then none
    else some []
  | c :: ts, rem =>
    if n ≤ rem then
      (unpackLoop n mx outputSize ts (rem - n)).map (fun out => digits mx n c ++ out)
    else if 0 < outputSize % n then some (digits mx (outputSize % n) c)
    else some []

/-- `isize::MAX` on the 64-bit targets ragc is built for: `vec![0u8; n]` panics with
"capacity overflow" above it. -/
def isizeMax : Nat := 2 ^ 63 - 1

/-- `(tuples.len() - 2) * (no_bytes as usize) + (trailing_bytes as usize)` (line 44) followed by
`vec![0u8; output_size]` (line 45), in `usize`.

* `len ≥ 2`: plain arithmetic. (A wrap of the product would need a slice longer than `2^59`
  bytes, which cannot be allocated; not modelled.)
* `len = 1` (a lone marker byte, `no_bytes ≠ 1`): `1 - 2` underflows. With overflow checks
  (`checked = true`: dev/test profile) this is a panic. Without (release profile) it wraps to
  `2^64 - 1`, the product and sum wrap again, and the allocation panics unless the wrapped size
  is at most `isize::MAX` (which happens exactly when `trailing ≥ no_bytes`). -/
def outputSizeOf (checked : Bool) (len noBytes trailing : Nat) : Option Nat :=
  if 2 ≤ len then some ((len - 2) * noBytes + trailing)
  else if checked then none
  else
    let v := ((2 ^ 64 + len - 2) % 2 ^ 64 * noBytes + trailing) % 2 ^ 64
    if v > isizeMax then none else some v

/-- `tuples_to_bytes` 29–55. `checked` selects the arithmetic profile (see `outputSizeOf`); the two
differ only on the one-byte inputs `[0x22]`, `[0x33]`, `[0x44]`. Empty input is `Ok(vec![])`. -/
def tuplesToBytesMode (checked : Bool) (ts : List Nat) : Option (List Nat) :=
  if ts.isEmpty then some []
  else
    let marker := ts.getLast?.getD 0
    let noBytes := marker >>> 4
    let trailing := marker &&& 0xf
    let body := ts.dropLast
    if noBytes == 1 then some body
    else
      match outputSizeOf checked ts.length noBytes trailing with
      | none => none
      | some outputSize =>
        match noBytes with
        | 2 => unpackLoop 2 16 outputSize body outputSize
        | 3 => unpackLoop 3 6 outputSize body outputSize
        | 4 => unpackLoop 4 4 outputSize body outputSize
        | _ => none

/-- `tuples_to_bytes` as compiled in the release profile (what the CLI ships and the harness
links by default). -/
def tuplesToBytes (ts : List Nat) : Option (List Nat) := tuplesToBytesMode false ts

end Ragc.Tuple
