/-!
# `MemoryBoundedQueue` as a transition system (ragc-core/src/memory_bounded_queue.rs)

Granularity: one transition per event that the code logs while it holds the queue mutex (hook H2).
Shared state `(items, cur, closed)` is `QueueInner` (lines 50–54); `cap` is `capacity_bytes`.
Line numbers refer to the file after commit c0ac607 (repair of D5): `push` waits while
`current_size + size > capacity && !items.is_empty() && !closed` (107–110), `try_push` says
`WouldBlock` iff `current_size + size > capacity && !items.is_empty()` (154) — an item is admitted
iff the queue is open and (it fits on top of what is queued or the queue is empty).
The two condition variables `not_full` / `not_empty` are the sets of threads whose status is
`waitNF` / `waitNE`.

What is assumed about `std::sync::{Mutex, Condvar}` (DESIGN §3):
* the events of one queue are totally ordered (mutual exclusion);
* `Condvar::wait` atomically releases the mutex and joins the wait set (`…Wait` transitions);
* `notify_one` removes **one arbitrary** waiter from the wait set if there is one and does nothing
  only if there is none (`notifyNE` / `notifyNF`: the event names the waiter, `none` is enabled only
  when no thread waits); `notify_all` removes all (`wakeAll`);
* a removed waiter resumes later (`…Wake`), and a waiter may also resume without having been
  notified (spurious wake-up, `…Spur`).

`enter` and `wake` only change the thread's own status to `pushing` / `pulling` = "about to evaluate
the loop condition"; the condition is evaluated by the next event of that thread (`wait`, `refuse`,
`admit`, `eos`, `take`). In the code both happen in the same critical section; the model is
therefore slightly finer (more interleavings), never coarser.

Naming: the code's "admit" is `HEv.accept` / `State.enq` here (the proof audit greps for the bare
tactic name, so it cannot be used as an identifier). Sizes are in ℕ; `Props.C06.no_usize_overflow`
shows that the `usize` sums of the code do not wrap when every item is at most `M` bytes and
`max cap M + M < 2^64`.

Priorities: the `Ord` of `T` is represented by a `Nat` key (`Item.prio`); two items with the same
key are `Ordering::Equal`. `BinaryHeap::pop` "returns a greatest element": a take event names the
item and is enabled iff that item is queued and no queued item has a strictly larger key.
-/
namespace Ragc.Queue

/-- A queued element: harness identity, priority key (the `Ord` of `T`), `size_bytes`. -/
structure Item where
  id : Nat
  prio : Nat
  size : Nat
deriving DecidableEq, Repr

/-- Where a thread is inside a queue call. -/
inductive TStatus where
  /-- not inside a blocking call -/
  | idle
  /-- inside `push` (97–138), about to evaluate the `while` condition of lines 107–110 -/
  | pushing (it : Item)
  /-- inside `not_full.wait` (113), in the wait set -/
  | waitNF (it : Item)
  /-- removed from the `not_full` wait set by a notify, not yet resumed -/
  | notifNF (it : Item)
  /-- inside `pull` (191–224), about to evaluate the `while` condition of line 199 -/
  | pulling
  /-- inside `not_empty.wait` (202), in the wait set -/
  | waitNE
  /-- removed from the `not_empty` wait set by a notify, not yet resumed -/
  | notifNE
deriving DecidableEq, Repr

namespace TStatus
def isIdle : TStatus → Bool | idle => true | _ => false
def isPushing : TStatus → Bool | pushing _ => true | _ => false
def isWaitNF : TStatus → Bool | waitNF _ => true | _ => false
def isNotifNF : TStatus → Bool | notifNF _ => true | _ => false
def isPulling : TStatus → Bool | pulling => true | _ => false
def isWaitNE : TStatus → Bool | waitNE => true | _ => false
def isNotifNE : TStatus → Bool | notifNE => true | _ => false
/-- the item a thread inside `push` is carrying -/
def item? : TStatus → Option Item
  | pushing it => some it | waitNF it => some it | notifNF it => some it | _ => none
/-- distance from returning once the queue is closed: waiting 3, notified 2, running 1, outside 0 -/
def rank : TStatus → Nat
  | idle => 0
  | pushing _ => 1
  | pulling => 1
  | notifNF _ => 2
  | notifNE => 2
  | waitNF _ => 3
  | waitNE => 3
end TStatus

/-- Linearisation events (what a call observably did), newest first in `State.hist`. -/
inductive HEv where
  | accept (t : Nat) (it : Item)
  | take (t : Nat) (it : Item)
  | refuse (t : Nat) (it : Item)
  | wouldBlock (t : Nat) (it : Item)
  | eos (t : Nat)
  | empty (t : Nat)
  | close (t : Nat)
deriving DecidableEq, Repr

def HEv.isClose : HEv → Bool | .close _ => true | _ => false

structure State where
  /-- `inner.items` as a multiset (list, order irrelevant) -/
  items : List Item
  /-- `inner.current_size` -/
  cur : Nat
  /-- `inner.closed` -/
  closed : Bool
  /-- status of thread `t` is `thr[t]` -/
  thr : List TStatus
  /-- linearisation history, newest first -/
  hist : List HEv
deriving DecidableEq, Repr

/-- `MemoryBoundedQueue::new` (68–79) with `n` threads that are all outside the queue. -/
def init (n : Nat) : State :=
  { items := [], cur := 0, closed := false, thr := List.replicate n .idle, hist := [] }

/-- One transition = one logged event. `w` is the waiter chosen by the `notify_one` of the event. -/
inductive Event where
  | pushEnter (t : Nat) (it : Item)
  | pushWait (t : Nat)
  | pushWake (t : Nat)
  | pushSpur (t : Nat)
  | pushRefuse (t : Nat)
  | pushAdmit (t : Nat) (w : Option Nat)
  | tryPushRefuse (t : Nat) (it : Item)
  | tryPushWouldBlock (t : Nat) (it : Item)
  | tryPushAdmit (t : Nat) (it : Item) (w : Option Nat)
  | pullEnter (t : Nat)
  | pullWait (t : Nat)
  | pullWake (t : Nat)
  | pullSpur (t : Nat)
  | pullEos (t : Nat)
  | pullTake (t : Nat) (it : Item) (w : Option Nat)
  | tryPullEmpty (t : Nat)
  | tryPullTake (t : Nat) (it : Item) (w : Option Nat)
  | close (t : Nat)
deriving DecidableEq, Repr

def Event.tid : Event → Nat
  | .pushEnter t _ | .pushWait t | .pushWake t | .pushSpur t | .pushRefuse t | .pushAdmit t _
  | .tryPushRefuse t _ | .tryPushWouldBlock t _ | .tryPushAdmit t _ _
  | .pullEnter t | .pullWait t | .pullWake t | .pullSpur t | .pullEos t | .pullTake t _ _
  | .tryPullEmpty t | .tryPullTake t _ _ | .close t => t

/-- Σ of the sizes (what `current_size` is meant to be). -/
def sizeSum : List Item → Nat
  | [] => 0
  | x :: xs => x.size + sizeSum xs

/-- `it` is queued and no queued item has a strictly larger key: a legal result of
`BinaryHeap::pop` (lines 215, 241). -/
def isMax (items : List Item) (it : Item) : Bool :=
  items.contains it && items.all (fun y => decide (y.prio ≤ it.prio))

def State.setT (s : State) (t : Nat) (st : TStatus) : State :=
  { s with thr := s.thr.set t st }

/-- `not_empty.notify_one()` (135, 170). -/
def notifyNE (s : State) : Option Nat → Option State
  | some u => if s.thr[u]? = some .waitNE then some (s.setT u .notifNE) else none
  | none => if s.thr.all (fun x => !x.isWaitNE) then some s else none

/-- `not_full.notify_one()` (221, 247). -/
def notifyNF (s : State) : Option Nat → Option State
  | some u =>
    match s.thr[u]? with
    | some (.waitNF it) => some (s.setT u (.notifNF it))
    | _ => none
  | none => if s.thr.all (fun x => !x.isWaitNF) then some s else none

/-- effect of `notify_all` on both condition variables (267–268) on one thread -/
def wakeAll : TStatus → TStatus
  | .waitNF it => .notifNF it
  | .waitNE => .notifNE
  | x => x

/-- lines 126–132 / 161–167: insert, account, linearise -/
def State.enq (s : State) (t : Nat) (it : Item) : State :=
  { s with items := it :: s.items, cur := s.cur + it.size, hist := .accept t it :: s.hist }

/-- lines 215–218 / 241–244: remove, account, linearise -/
def State.take (s : State) (t : Nat) (it : Item) : State :=
  { s with items := s.items.erase it, cur := s.cur - it.size, hist := .take t it :: s.hist }

def State.log (s : State) (e : HEv) : State := { s with hist := e :: s.hist }

/-- The transition function: `none` = the event is not enabled in `s`. -/
def step (cap : Nat) (s : State) : Event → Option State
  -- push, 100–102
  | .pushEnter t it =>
    if s.thr[t]? = some .idle then some (s.setT t (.pushing it)) else none
  -- push, 107–113: loop condition true (too full, not empty, open)
  | .pushWait t =>
    match s.thr[t]? with
    | some (.pushing it) =>
      if s.cur + it.size > cap ∧ s.items ≠ [] ∧ s.closed = false then some (s.setT t (.waitNF it))
      else none
    | _ => none
  -- push, 113–115: `wait` returns after a notify
  | .pushWake t =>
    match s.thr[t]? with
    | some (.notifNF it) => some (s.setT t (.pushing it))
    | _ => none
  -- push, 113–115: `wait` returns spuriously
  | .pushSpur t =>
    match s.thr[t]? with
    | some (.waitNF it) => some (s.setT t (.pushing it))
    | _ => none
  -- push, loop condition false, 119–123
  | .pushRefuse t =>
    match s.thr[t]? with
    | some (.pushing it) =>
      if s.closed = true then some ((s.setT t .idle).log (.refuse t it)) else none
    | _ => none
  -- push, loop condition false, 119 false, 126–137: fits, or the queue is empty
  | .pushAdmit t w =>
    match s.thr[t]? with
    | some (.pushing it) =>
      if (s.cur + it.size ≤ cap ∨ s.items = []) ∧ s.closed = false then
        notifyNE ((s.setT t .idle).enq t it) w
      else none
    | _ => none
  -- try_push 146–152
  | .tryPushRefuse t it =>
    if s.thr[t]? = some .idle ∧ s.closed = true then some (s.log (.refuse t it)) else none
  -- try_push 154–158
  | .tryPushWouldBlock t it =>
    if s.thr[t]? = some .idle ∧ s.closed = false ∧ s.cur + it.size > cap ∧ s.items ≠ [] then
      some (s.log (.wouldBlock t it))
    else none
  -- try_push 160–172
  | .tryPushAdmit t it w =>
    if s.thr[t]? = some .idle ∧ s.closed = false ∧ (s.cur + it.size ≤ cap ∨ s.items = []) then
      notifyNE (s.enq t it) w
    else none
  -- pull 194–196
  | .pullEnter t =>
    if s.thr[t]? = some .idle then some (s.setT t .pulling) else none
  -- pull 199–202
  | .pullWait t =>
    if s.thr[t]? = some .pulling ∧ s.items = [] ∧ s.closed = false then some (s.setT t .waitNE)
    else none
  -- pull 202–204 after a notify
  | .pullWake t =>
    if s.thr[t]? = some .notifNE then some (s.setT t .pulling) else none
  -- pull 202–204 spurious
  | .pullSpur t =>
    if s.thr[t]? = some .waitNE then some (s.setT t .pulling) else none
  -- pull 199 false, 208–212
  | .pullEos t =>
    if s.thr[t]? = some .pulling ∧ s.items = [] ∧ s.closed = true then
      some ((s.setT t .idle).log (.eos t))
    else none
  -- pull 199 false, 208 false, 215–223
  | .pullTake t it w =>
    if s.thr[t]? = some .pulling ∧ isMax s.items it = true then
      notifyNF ((s.setT t .idle).take t it) w
    else none
  -- try_pull 234–238
  | .tryPullEmpty t =>
    if s.thr[t]? = some .idle ∧ s.items = [] then some (s.log (.empty t)) else none
  -- try_pull 241–249
  | .tryPullTake t it w =>
    if s.thr[t]? = some .idle ∧ isMax s.items it = true then notifyNF (s.take t it) w else none
  -- close 261–268
  | .close t =>
    if s.thr[t]? = some .idle then
      some { s with closed := true, thr := s.thr.map wakeAll, hist := .close t :: s.hist }
    else none

/-- Execute a sequence of events; `none` if one of them is not enabled. -/
def run (cap : Nat) : State → List Event → Option State
  | s, [] => some s
  | s, e :: es =>
    match step cap s e with
    | some s' => run cap s' es
    | none => none

/-- The multiset of queued items according to the linearisation history alone. -/
def queuedOf : List HEv → List Item
  | [] => []
  | .accept _ it :: h => it :: queuedOf h
  | .take _ it :: h => (queuedOf h).erase it
  | _ :: h => queuedOf h

/-- items accepted by `push`/`try_push`, newest first -/
def accepted : List HEv → List Item
  | [] => []
  | .accept _ it :: h => it :: accepted h
  | _ :: h => accepted h

/-- items returned by `pull`/`try_pull`, newest first -/
def returned : List HEv → List Item
  | [] => []
  | .take _ it :: h => it :: returned h
  | _ :: h => returned h

/-- a `close` is in the history -/
def closedIn (h : List HEv) : Bool := h.any HEv.isClose

/-- number of threads whose status satisfies `p` -/
def State.cnt (s : State) (p : TStatus → Bool) : Nat := s.thr.countP p

end Ragc.Queue
