import RagcModel.Model.Fasta
import RagcModel.Model.Writer
import RagcModel.Model.Agc3
import RagcModel.Model.Cli
/-!
# `ragc create` and `ragc getset` over TEXT: the composition of the layer models (C16 / C01)

Nothing new is modelled here; the file only *composes* the existing executable models the way
`ragc-cli/src/main.rs` composes the code they mirror:

* `createModel cfg files dec zc` — `create_archive` (main.rs 483-846, streaming-queue path): every
  input file goes through `MultiFileIterator` (`Fasta.fileStream`: `GenomeIO::read_contig_converted`
  = `Fasta.parseFile`, sample = PanSN part of the header if it has ≥ 3 `#`-fields else the file
  stem = `Fasta.sampleNameOfPath`, contig name = the full header line, records whose converted
  sequence is empty skipped), every remaining record is `push`ed, which registers it
  (`register_sample_contig`: samples in first-seen order, contigs in push order), and the whole is
  written by the compressor = `Writer.writeArchive` with its heuristic / scheduling choices as data.
* `extractModel bs zd sample` — `getset` / `Decompressor::write_sample_fasta` on the archive bytes:
  the independent decoder `Agc3.decodeArchive`, look the sample up, codes through `Fasta.outLetter`,
  `GenomeWriter` layout (`Fasta.writeFasta`).
* `cliArchive d` — the decoded archive as `Model/Cli.lean` sees an opened archive (so that
  `Cli.getset` can be run on it).

Where `create` does not produce an archive this model describes, the result says why (`Stop`):
either the command exits with an error (`Stop.error`), or the input is OUTSIDE the composed model
(`Stop.outside`) — never a silent default. `createModel` is the `Option` view (`none` for both).
-/
namespace Ragc.EndToEnd
open Ragc.Fasta

/-- One input file: its path as given on the command line and its (decompressed) bytes. -/
abbrev InFile := Bytes × Bytes

/-- What `MultiFileIterator::next_contig` yields and `compressor.push` receives:
`(sample name, contig name = full header, numeric codes)`. -/
abbrev Record := Bytes × Bytes × Bytes

/-- `create` exits with an error (`Err` out of `main`, status 1; clap's status 2 for `noInputs`)
and there is no archive. When several reasons apply, which one is reported is not modelled (the
real loop is streaming and stops at the first it meets); only the class is. -/
inductive Failure where
  /-- clap `required = true` / main.rs 638 `No input files provided` -/
  | noInputs
  /-- `read_contig_raw`: a record whose name is empty (`Fasta.ReadOutcome.invalid`) -/
  | emptyName
  /-- main.rs 716-724: one input file and a sample name comes back after another sample was seen
  (`Single-file PanSN mode requires samples to be sorted by name`) -/
  | unsortedSingleFile
  /-- two pushed records with the same (sample, contig name): `register_sample_contig` returns
  `Ok(false)` for the second and `push` refuses it (`Duplicate contig name … in sample …`), so
  create fails. Before repair D13 (/repo 3f11240) `push` ignored the `Ok(false)`, queued the contig
  anyway, and its segments were placed over those of the first record under the one catalogue
  entry: create exited 0 with a chimeric or missing contig. -/
  | duplicateContig
deriving Repr, DecidableEq

/-- The input is outside what the composed model describes. -/
inductive Outside where
  /-- the path has no normal last component (`Fasta.sampleNameOfPath = none`) -/
  | badPath
  /-- a file called `.fa`, `.fa.gz`, … gives the sample name `""`; `register_sample_contig` then
  substitutes the first word of the contig name (`Details.storedName`) while the segments are
  registered under the original name -/
  | emptySampleName
  /-- `Writer.writeArchive = none`: `min_match_len < 4`, a part / stream size outside `u64`/`u32`,
  a file longer than `i64::MAX`, or decisions that do not name the pieces -/
  | writer
deriving Repr, DecidableEq

inductive Stop where
  | error (why : Failure)
  | outside (why : Outside)
deriving Repr, DecidableEq

/-- The records one input file contributes (`MultiFileIterator` on one path + the skip of empty
sequences in main.rs 710 / 775 / 813). -/
def fileRecords (f : InFile) : Except Stop (List Record) :=
  match sampleNameOfPath f.1 with
  | none => .error (.outside .badPath)
  | some fileSample =>
    match fileStream fileSample f.2 with
    | none => .error (.error .emptyName)
    | some rs => .ok rs

/-- All pushed records, in push order: file after file (single-file mode: the one file;
multi-file mode: the first file, then `inputs[1..]`). -/
def gather : List InFile → Except Stop (List Record)
  | [] => .ok []
  | f :: fs =>
    match fileRecords f with
    | .error e => .error e
    | .ok rs =>
      match gather fs with
      | .error e => .error e
      | .ok rest => .ok (rs ++ rest)

/-- The single-file loop's sortedness check (main.rs 700-740) on the sequence of sample names:
`cur` = `current_sample`, `seen` = `seen_samples`; `false` = `bail!`. -/
def sortedLoop : Option Bytes → List Bytes → List Bytes → Bool
  | _, _, [] => true
  | cur, seen, s :: rest =>
    if cur = some s then sortedLoop cur seen rest
    else if seen.contains s then false
    else sortedLoop (some s) (match cur with | some p => p :: seen | none => seen) rest

def toContig (r : Record) : Ragc.Writer.Contig := ⟨r.2.1, r.2.2⟩

/-- `register_sample_contig` (collection.rs 351-383) for a record whose (sample, contig name) pair
is new, together with the contig's data: an existing sample gets the contig appended, a new
sample is appended with this contig. -/
def addRecord (ss : List Ragc.Writer.Sample) (r : Record) : List Ragc.Writer.Sample :=
  if ss.any (fun s => s.name == r.1) then
    ss.map (fun s => if s.name = r.1 then { s with contigs := s.contigs ++ [toContig r] } else s)
  else ss ++ [⟨r.1, [toContig r]⟩]

/-- The catalogue with data after all pushes: samples in first-seen order, the contigs of each
in push order. -/
def groupRecords (rs : List Record) : List Ragc.Writer.Sample := rs.foldl addRecord []

/-- The `(sample, contig)` input of the compressor for a list of input files. -/
def createSamples (files : List InFile) : Except Stop (List Ragc.Writer.Sample) :=
  if files = [] then .error (.error .noInputs) else
  match gather files with
  | .error e => .error e
  | .ok rs =>
    if files.length = 1 ∧ sortedLoop none [] (rs.map (·.1)) = false then
      .error (.error .unsortedSingleFile)
    else if rs.any (fun r => r.1 = []) then .error (.outside .emptySampleName)
    else if ¬ (rs.map (fun r => (r.1, r.2.1))).Nodup then .error (.error .duplicateContig)
    else .ok (groupRecords rs)

/-- `ragc create -o OUT files…`: the archive bytes, or why there are none. -/
def createOutcome (cfg : Ragc.Writer.Cfg) (files : List InFile) (dec : Ragc.Writer.Decisions)
    (zc : Nat → List Nat → List Nat) : Except Stop (List Nat) :=
  match createSamples files with
  | .error e => .error e
  | .ok inp =>
    match Ragc.Writer.writeArchive cfg inp dec zc with
    | none => .error (.outside .writer)
    | some bs => .ok bs

/-- The `Option` view of `createOutcome`: `none` = no archive (error exit) or outside the model. -/
def createModel (cfg : Ragc.Writer.Cfg) (files : List InFile) (dec : Ragc.Writer.Decisions)
    (zc : Nat → List Nat → List Nat) : Option (List Nat) :=
  match createOutcome cfg files dec zc with
  | .ok bs => some bs
  | .error _ => none

/-- `ragc getset ARCHIVE sample` (`write_sample_fasta`, decompressor.rs 1045-1070): the text
printed for one sample; `none` = the archive does not decode or has no such sample (exit 1). -/
def extractModel (bs : List Nat) (zd : List Nat → Option (List Nat)) (sample : Bytes) : Option Bytes :=
  match Ragc.Agc3.decodeArchive bs zd with
  | .error _ => none
  | .ok d =>
    (d.samples.find? (fun s => s.name == sample)).map
      (fun s => writeFasta (s.contigs.map (fun c => (c.name, c.bases))))

/-- `ragc listset`: the sample names in archive order. -/
def listModel (bs : List Nat) (zd : List Nat → Option (List Nat)) : Option (List Bytes) :=
  match Ragc.Agc3.decodeArchive bs zd with
  | .error _ => none
  | .ok d => some (d.samples.map (·.name))

/-- The decoded archive as the CLI model sees an opened archive: bases already mapped to letters
(decompressor.rs 1053-1061). -/
def cliArchive (d : Ragc.Agc3.Decoded) : Ragc.Cli.Archive :=
  ⟨d.samples.map (fun s => ⟨s.name, s.contigs.map (fun c => (c.name, c.bases.map outLetter))⟩)⟩

end Ragc.EndToEnd
