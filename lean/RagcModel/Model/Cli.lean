/-!
# Model of the command-line layer `ragc-cli/src/main.rs` (C17)

Thin by design: the model says which bytes go where and which exit status results, for `getset`,
`listset`, `listctg` and for the flag dispatch of `create`; extraction itself (what the bases of a
sample are) is an input (`Archive`), decided by C01/C07/C16.

* `Exit` — process exit classes: `main` returns `anyhow::Result<()>`; `Ok` ↦ 0, `Err` ↦ 1
  (`Termination for Result`: the error is printed with `{:?}` on stderr), a panic ↦ 101, and clap
  rejects a malformed command line with status 2 before `main`'s `match` is reached.
* `File`/`Fs` — "a file is a byte string that `File::create` truncates": `create` yields the empty
  file whatever was there, writes append.
* `renderContig`/`sampleFasta` — `GenomeWriter::save_contig_directly` (genome_io.rs:222-240) and the
  loop of `Decompressor::write_sample_fasta` (decompressor.rs:1030-1055).
* `getset` — `getset_command` (main.rs:1113-1174) as it is now; `getsetOld` — the same function
  before commit 158f0d4 (each sample written with `write_sample_fasta` straight to the output path,
  or to the temp file that is printed at the end), kept as the witness of the repaired defect.
* `listset`, `listctg` — `listset_command` (main.rs:1176-1198), `listctg_command` (main.rs:1200-1231).
* `parseCapacity`, `createDispatch`, `createExit` — `parse_capacity` (main.rs:294-310) and the
  branch structure of `create_archive` (main.rs:483-846).

Names, headers and file contents are byte lists (`Nat` < 256). `String::starts_with` on UTF-8
strings is `List.isPrefixOf` on their bytes.
-/
namespace Ragc.Cli

abbrev Bytes := List Nat

/-! ## Exit status -/

/-- How the process ends. -/
inductive Exit where
  /-- `main` returned `Ok(())` -/
  | ok
  /-- `main` returned `Err(e)` -/
  | err
  /-- clap rejected the command line (missing required argument, unknown flag, unparsable number) -/
  | usage
  /-- a panic unwound out of `main` -/
  | panic
deriving Repr, DecidableEq

/-- The numeric exit status (`ExitCode::SUCCESS`, `ExitCode::FAILURE`, clap's usage error code,
the Rust runtime's panic status). -/
def Exit.code : Exit → Nat
  | .ok => 0
  | .err => 1
  | .usage => 2
  | .panic => 101

/-! ## Files -/

/-- A path's state: `none` = no such file. -/
abbrev File := Option Bytes

/-- `File::create` / `GenomeWriter::create` (genome_io.rs:245-248): the file exists and is empty
afterwards, whatever it held before. -/
def File.create (_ : File) : File := some []

/-- `write_all` on an open file handle: appends. -/
def File.append (f : File) (bs : Bytes) : File := some (f.getD [] ++ bs)

/-- The part of the world `getset` touches. -/
structure Fs where
  /-- `$TMPDIR/agc_extract_<pid>.fasta` -/
  temp : File
  /-- the `-o` path -/
  out : File
  /-- bytes written to standard output (`io::stdout()` is flushed when the process exits, also
  after an `Err` and after a panic) -/
  stdout : Bytes
deriving Repr, DecidableEq

/-- Where the output goes: `-o FILE` given or not. -/
inductive Dest where
  | stdout
  | file
deriving Repr, DecidableEq

/-! ## Archive contents as the CLI sees them -/

/-- One sample: its name and its contigs (header as stored, bases already mapped to letters with
`CNV_NUM[0..16]`, decompressor.rs:1037-1048). -/
structure Sample where
  name : Bytes
  contigs : List (Bytes × Bytes)
deriving Repr, DecidableEq

/-- An opened archive: the samples in archive order (`list_samples`, i.e. the order of
`sample_desc`, collection.rs:431-437). -/
structure Archive where
  samples : List Sample
deriving Repr, DecidableEq

/-- Lines of at most `w` bytes (`contig.chunks(LINE_WIDTH)`, genome_io.rs:233-237), each followed
by `\n`. `fuel` bounds the recursion (the sequence length suffices). -/
def wrapLines (w : Nat) : Nat → Bytes → Bytes
  | 0, _ => []
  | fuel + 1, s =>
    if s.isEmpty then [] else s.take w ++ [10] ++ wrapLines w fuel (s.drop w)

/-- `GenomeWriter::save_contig_directly` (genome_io.rs:222-240): `>` header `\n`, then the
sequence in lines of 80. -/
def renderContig (c : Bytes × Bytes) : Bytes :=
  [62] ++ c.1 ++ [10] ++ wrapLines 80 c.2.length c.2

/-- What `write_sample_fasta` (decompressor.rs:1030-1055) writes after creating its target. -/
def sampleFasta (s : Sample) : Bytes := (s.contigs.map renderContig).flatten

/-- Look a sample up by name (`sample_ids.get`, collection.rs:471-479). -/
def Archive.lookup (a : Archive) (name : Bytes) : Option Sample :=
  a.samples.find? (fun s => s.name == name)

/-- `Decompressor::list_samples_with_prefix` (decompressor.rs:947-952): archive order, filtered. -/
def listSamplesWithPrefix (a : Archive) (p : Bytes) : List Bytes :=
  (a.samples.map (·.name)).filter (fun n => p.isPrefixOf n)

/-! ## `getset` -/

/-- What the environment allows. -/
structure Env where
  /-- `Decompressor::open` result: `none` = `Err` (missing file, directory, garbage, truncated) -/
  archive : Option Archive
  /-- `File::create(output_path)` succeeds -/
  outCreatable : Bool
  /-- `GenomeWriter::create(temp_path)` succeeds (the temp directory is writable) -/
  tempCreatable : Bool
deriving Repr, DecidableEq

/-- The request part of the command line: positional sample names and `--prefix`. -/
structure Request where
  names : List Bytes
  pfx : Option Bytes
deriving Repr, DecidableEq

/-- Exit class of `get_sample` for a name that is not in the archive *after* an earlier sample of
the same run was extracted. `get_no_contigs` is `None`, so all contig batches are loaded again;
loading is idempotent (the D6 repair: `load_contig_batch` places a batch at its own start index),
the lookup then fails with `Err("Sample not found")` exactly as a first-lookup miss does. Kept as a
named constant because before that repair this was a panic (index out of bounds,
collection.rs:716, exit status 101). -/
def missAfterHit : Exit := .err

/-- `destination.write_all(&contents)`. -/
def Fs.emit (fs : Fs) (d : Dest) (bs : Bytes) : Fs :=
  match d with
  | .stdout => { fs with stdout := fs.stdout ++ bs }
  | .file => { fs with out := fs.out.append bs }

/-- The `for sample_name in &samples_to_extract` loop of `getset_command` (main.rs:1155-1168) and
the two statements after it. `loaded` = a sample has been extracted before in this run (the
contig batches are in memory). Per sample: `write_sample_fasta(sample, temp)` — `get_sample`
first (a miss leaves the temp file untouched), then `GenomeWriter::create(temp)` truncates, then
the contigs are written; on `Err` the temp file is removed and the error returned; otherwise the
temp file is read back and appended to the destination. -/
def extractLoop (a : Archive) (tempCreatable : Bool) (d : Dest) : List Bytes → Bool → Fs → Exit × Fs
  | [], _, fs => (.ok, { fs with temp := none })
  | n :: rest, loaded, fs =>
    match a.lookup n with
    | none =>
      (if loaded then missAfterHit else .err, { fs with temp := none })
    | some s =>
      if !tempCreatable then (.err, { fs with temp := none })
      else
        let fs1 := { fs with temp := (File.create fs.temp).append (sampleFasta s) }
        let contents := fs1.temp.getD []
        extractLoop a tempCreatable d rest true (fs1.emit d contents)

/-- The samples to extract (main.rs:1126-1146): `--prefix` wins over positional names; an empty
match and an empty request are errors. -/
def samplesToExtract (a : Archive) (r : Request) : Option (List Bytes) :=
  match r.pfx with
  | some p =>
    let m := listSamplesWithPrefix a p
    if m.isEmpty then none else some m
  | none => if r.names.isEmpty then none else some r.names

/-- `getset_command` (main.rs:1113-1174). -/
def getset (env : Env) (r : Request) (d : Dest) (fs : Fs) : Exit × Fs :=
  match env.archive with
  | none => (.err, fs)
  | some a =>
    match samplesToExtract a r with
    | none => (.err, fs)
    | some ns =>
      match d with
      | .stdout => extractLoop a env.tempCreatable d ns false fs
      | .file =>
        if !env.outCreatable then (.err, fs)
        else extractLoop a env.tempCreatable d ns false { fs with out := File.create fs.out }

/-! ### The behaviour before commit 158f0d4 -/

/-- Old `-o` branch: `decompressor.write_sample_fasta(sample_name, &output_path)?` per sample —
every call re-creates (truncates) the output file. -/
def oldFileLoop (a : Archive) : List Bytes → Bool → Fs → Exit × Fs
  | [], _, fs => (.ok, fs)
  | n :: rest, loaded, fs =>
    match a.lookup n with
    | none => (if loaded then missAfterHit else .err, fs)
    | some s => oldFileLoop a rest true { fs with out := (File.create fs.out).append (sampleFasta s) }

/-- Old stdout branch: every sample to the (re-created) temp file, the temp file printed once at
the end and removed. -/
def oldStdoutLoop (a : Archive) : List Bytes → Bool → Fs → Exit × Fs
  | [], _, fs => (.ok, { fs with stdout := fs.stdout ++ fs.temp.getD [], temp := none })
  | n :: rest, loaded, fs =>
    match a.lookup n with
    | none => (if loaded then missAfterHit else .err, fs)
    | some s => oldStdoutLoop a rest true { fs with temp := (File.create fs.temp).append (sampleFasta s) }

/-- `getset_command` as it was before the repair. -/
def getsetOld (env : Env) (r : Request) (d : Dest) (fs : Fs) : Exit × Fs :=
  match env.archive with
  | none => (.err, fs)
  | some a =>
    match samplesToExtract a r with
    | none => (.err, fs)
    | some ns =>
      match d with
      | .stdout => oldStdoutLoop a ns false fs
      | .file => oldFileLoop a ns false fs

/-! ## `listset`, `listctg` -/

/-- One `writeln!` / `println!` per entry. -/
def linesOf (ls : List Bytes) : Bytes := (ls.map (· ++ [10])).flatten

/-- `listset_command` (main.rs:1176-1198): (exit, stdout, `-o` file). -/
def listset (archive : Option Archive) (outCreatable : Bool) (d : Dest) (out : File) :
    Exit × Bytes × File :=
  match archive with
  | none => (.err, [], out)
  | some a =>
    let text := linesOf (a.samples.map (·.name))
    match d with
    | .stdout => (.ok, text, out)
    | .file => if outCreatable then (.ok, [], (File.create out).append text) else (.err, [], out)

/-- The loop of `listctg_command` (main.rs:1209-1214): lines are collected in memory; an unknown
sample ends the run (`list_contigs(..)?`) — with `Err`. -/
def listctgLoop (a : Archive) : List Bytes → Bool → List Bytes → Exit × List Bytes
  | [], _, acc => (.ok, acc)
  | n :: rest, loaded, acc =>
    match a.lookup n with
    | none => (if loaded then missAfterHit else .err, acc)
    | some s => listctgLoop a rest true (acc ++ s.contigs.map (fun c => n ++ [9] ++ c.1))

/-- `listctg_command` (main.rs:1200-1231): nothing is printed and no file is created unless every
sample was found. `names` is non-empty (clap: `required = true`, else `usage`). -/
def listctg (archive : Option Archive) (names : List Bytes) (outCreatable : Bool) (d : Dest)
    (out : File) : Exit × Bytes × File :=
  if names.isEmpty then (.usage, [], out) else
  match archive with
  | none => (.err, [], out)
  | some a =>
    match listctgLoop a names false [] with
    | (.ok, ls) =>
      match d with
      | .stdout => (.ok, linesOf ls, out)
      | .file => if outCreatable then (.ok, [], (File.create out).append (linesOf ls)) else (.err, [], out)
    | (e, _) => (e, [], out)

/-! ## `create`: capacity parsing and flag dispatch -/

/-- `char::is_whitespace` restricted to ASCII (what `str::trim` removes from an ASCII string). -/
def isSpace (c : Nat) : Bool := c == 32 || (9 ≤ c && c ≤ 13)

/-- `str::trim` on ASCII bytes. -/
def trim (s : Bytes) : Bytes := ((s.dropWhile isSpace).reverse.dropWhile isSpace).reverse

/-- `to_uppercase` on ASCII bytes. -/
def upper (c : Nat) : Nat := if 97 ≤ c ∧ c ≤ 122 then c - 32 else c

/-- Digits of a `usize::from_str` argument after the optional `+`: `none` = `InvalidDigit`. -/
def digitsVal : Bytes → Nat → Option Nat
  | [], acc => some acc
  | c :: rest, acc => if 48 ≤ c ∧ c ≤ 57 then digitsVal rest (acc * 10 + (c - 48)) else none

/-- `str::parse::<usize>` (64-bit): empty string, a lone sign, a non-digit or a value ≥ 2^64 is
an error; a leading `+` is accepted, a leading `-` is not. -/
def parseUsize (s : Bytes) : Option Nat :=
  let body := match s with
    | 43 :: rest => rest
    | _ => s
  if body.isEmpty then none else
  match digitsVal body 0 with
  | some v => if v < 2 ^ 64 then some v else none
  | none => none

/-- `usize::checked_mul` (64-bit): `none` = overflow. -/
def checkedMul (a b : Nat) : Option Nat := if a * b < 2 ^ 64 then some (a * b) else none

/-- `parse_capacity` (main.rs:294-310): trim, upper-case, an optional suffix `K`/`M`/`G`;
`none` = `Err` (not a number, or `checked_mul` by the multiplier overflows `usize`). -/
def parseCapacity (s : Bytes) : Option Nat :=
  let t := (trim s).map upper
  let (body, k) :=
    match t.getLast? with
    | some 75 => (t.dropLast, 1024)
    | some 77 => (t.dropLast, 1024 * 1024)
    | some 71 => (t.dropLast, 1024 * 1024 * 1024)
    | _ => (t, 1)
  match parseUsize body with
  | none => none
  | some n => checkedMul n k

/-- The flags of `ragc create` that select a code path. -/
structure CreateArgs where
  /-- `-o` present (clap: required) -/
  outputGiven : Bool
  /-- number of positional inputs (clap: `required = true`) -/
  nInputs : Nat
  verbosity : Nat
  adaptive : Bool
  concatenated : Bool
  batch : Bool
  cppAgc : Bool
  /-- the raw `--queue-capacity` string -/
  queueCapacity : Bytes
  /-- `-t N` (`none` = auto-detect, which is never 0) -/
  threads : Option Nat
  /-- the binary was built with `--features cpp_agc` -/
  cppFeature : Bool
deriving Repr, DecidableEq

/-- Why `create_archive` bails before doing any work. -/
inductive Reject where
  /-- main.rs:510-512 `Number of threads must be at least 1` (`-t 0`: no worker thread would ever
  take a contig off the queue) -/
  | zeroThreads
  /-- `parse_capacity(..)?` (main.rs:537 when verbose, main.rs:616 otherwise) -/
  | badCapacity
  /-- main.rs:598-601 `--cpp-agc requires building with …` -/
  | cppAgcNotBuilt
  /-- main.rs:606-610 `Streaming queue mode does not support --adaptive or --concatenated` -/
  | adaptiveOrConcatenated
  /-- main.rs:843-845 `--batch (legacy batch mode) is not supported` -/
  | batch
deriving Repr, DecidableEq

/-- Which code path a `create` command line reaches. -/
inductive Dispatch where
  /-- clap exits with status 2 before `main`'s body -/
  | usage
  /-- `anyhow::bail!` / `?` before any input is read or the output is created -/
  | reject (why : Reject)
  /-- the C++ FFI path (only in builds with the feature) -/
  | cppFfi
  /-- the streaming-queue mode: splitter discovery on the first input, `with_splitters` (creates
  the output), pushes, `finalize`; `singleFile` = one input file (PanSN sample detection) -/
  | streaming (singleFile : Bool) (capacity : Nat)
deriving Repr, DecidableEq

/-- `create_archive` (main.rs:483-846) up to the point where work starts, in source order. -/
def createDispatch (c : CreateArgs) : Dispatch :=
  if !c.outputGiven || c.nInputs == 0 then .usage
  else if c.threads == some 0 then .reject .zeroThreads
  else if c.verbosity > 0 && !c.batch && parseCapacity c.queueCapacity == none then
    .reject .badCapacity
  else if c.cppAgc && c.cppFeature then .cppFfi
  else if c.cppAgc then .reject .cppAgcNotBuilt
  else if !c.batch then
    if c.adaptive || c.concatenated then .reject .adaptiveOrConcatenated
    else
      match parseCapacity c.queueCapacity with
      | none => .reject .badCapacity
      | some n => .streaming (c.nInputs == 1) n
  else .reject .batch

/-- What happens after the dispatch, as far as the exit status is concerned. -/
structure CreateEnv where
  /-- splitter discovery and the FASTA iterators succeed on every input -/
  inputsOk : Bool
  /-- `StreamingQueueCompressor::with_splitters` could create the output file -/
  outputCreatable : Bool
  /-- no worker returned an error and `finalize`'s I/O (`flush_buffers`, `close`) returned `Ok`
  (`Model/FileIO.lean`) -/
  finalizeOk : Bool
  /-- result of the FFI call in `cpp_agc` builds -/
  ffiOk : Bool
deriving Repr, DecidableEq

/-- Exit class of a terminating `ragc create` run: every step of the streaming path is followed
by `?`, and `Ok(())` is returned only after `compressor.finalize()?` (main.rs:825-838).
(Termination itself — worker threads ≥ 1, every contig fits the queue — is C05's subject.) -/
def createExit (c : CreateArgs) (e : CreateEnv) : Exit :=
  match createDispatch c with
  | .usage => .usage
  | .reject _ => .err
  | .cppFfi => if e.ffiOk then .ok else .err
  | .streaming _ _ =>
    if !e.inputsOk then .err
    else if !e.outputCreatable then .err
    else if !e.finalizeOk then .err
    else .ok

end Ragc.Cli
