import RagcModel.Model.CollVarint
import RagcModel.Model.Names
import RagcModel.Model.Details
import RagcModel.Model.Range
import RagcModel.Gen.Tables
/-!
# The reader handle (`ragc-core/src/decompressor.rs` `Decompressor`) as a state machine

The handle is modelled over an **abstract archive content** `Arch` — what the container holds once
ZSTD, the name/descriptor codecs and the part framing are taken away (those are C03/C12/C13):

* `samples`  the sample names of `collection-samples`, in order (`load_batch_sample_names`, at `open`);
* `batches`  the metadata batches of `collection-contigs` / `collection-details`: per batch, per
             sample, the contigs (name + descriptor list). The writer makes batches of 50 samples;
             nothing here depends on that number;
* `ref g`    what the reference-loading block of `get_segment` (709–781) produces for group `g`
             (stream lookup, part 0, metadata-driven decompression, 2-bit heuristic);
* `delta g i r`  what the rest of `get_segment` (788–881) produces for in-group id `i ≥ 1` of the
             LZ group `g` when the cached reference is `r` (pack lookup, unpack, LZ decode);
* `raw g i`  `get_segment` for a raw group `g < 16` (883–926);
* `refOld g` what the *pre-repair* `get_reference_segment` (before commit b8c4c45) decoded from the
             same part by looking at its last byte — only used by `stepOld`;
* `streams`  the stream table reported by `get_compression_stats`;
* `k`        `kmer_length` from the params stream.

State of a handle = what the queries can change: the contig tables of `collection.sample_desc`
(per sample; `[]` = not loaded — indistinguishable, exactly as in the Rust, from a sample that has
no contigs), the cursor `collection.samples_loaded`, and `segment_cache`. The sample *names* of
`sample_desc` and the map `sample_ids` are written once by `open` and never again, so they are
read from `Arch.samples`.

`step` mirrors the current code; `stepOld` the code before the two repairs (a501c7c: the cursor
restarts at batch 0; b8c4c45: `get_reference_segment` goes through `get_segment`). Outcomes are
`Res`: `ok v`, `err` (an `anyhow` error), `panic`.

Arithmetic: `get_contig_length` in the release reading (wrapping, `Range.contigLengthWrapping`);
the first pass of `get_contig_range` in the checked reading (`Range.segmentRanges`, an underflow is
`panic`; the release build wraps instead — not reachable on archives whose later segments are at
least `k` long, which C07 observes on every generated archive).
-/
namespace Ragc.ReaderState
open Ragc.CollVarint (Res)
open Ragc.Names (Name)
open Ragc.Details (Seg Contig)

abbrev Bases := List Nat

/-- One metadata batch: per sample, its contigs. -/
abbrev MBatch := List (List Contig)

structure Arch where
  k : Nat
  samples : List Name
  batches : List MBatch
  ref : Nat → Res Bases
  refOld : Nat → Res Bases
  delta : Nat → Nat → Bases → Res Bases
  raw : Nat → Nat → Res Bases
  streams : List (Name × Nat × Nat × Nat)

/-- `segment_cache: HashMap<u32, Contig>`; keys are inserted only when absent. -/
abbrev Cache := List (Nat × Bases)

def cacheGet : Cache → Nat → Option Bases
  | [], _ => none
  | (k, v) :: r, g => if k = g then some v else cacheGet r g

structure State where
  /-- `sample_desc[i].contigs` -/
  contigs : List (List Contig)
  /-- `samples_loaded` -/
  cursor : Nat
  cache : Cache
deriving Repr, DecidableEq

/-- The handle returned by `open` (76–117): names loaded, no contig table, empty cache. -/
def fresh (A : Arch) : State :=
  { contigs := List.replicate A.samples.length [], cursor := 0, cache := [] }

/-- Which of the two repaired behaviours are in force. -/
structure Variant where
  /-- collection.rs 1094–1096: `if id_batch == 0 { self.samples_loaded = 0 }` -/
  resetCursor : Bool
  /-- decompressor.rs 479–490: `get_reference_segment` ends in `self.get_segment(&desc)` -/
  refViaSegment : Bool

def current : Variant := { resetCursor := true, refViaSegment := true }
def preRepair : Variant := { resetCursor := false, refViaSegment := false }

/-! ## Metadata loading (collection.rs `load_contig_batch`, decompressor.rs "load ALL batches") -/

/-- `load_contig_batch(archive, id_batch)` (collection.rs 1088–1162) on decoded content:
`deserialize_contig_names` then `deserialize_contig_details` write `sample_desc[i_sample + j]` for
every sample `j` of the batch (index panic past the table), then the cursor advances by the number
of samples of the batch. -/
def loadBatch (v : Variant) (st : State) (idBatch : Nat) (b : MBatch) : Res State :=
  let i := if v.resetCursor && idBatch == 0 then 0 else st.cursor
  if i + b.length ≤ st.contigs.length then
    .ok { st with contigs := st.contigs.take i ++ b ++ st.contigs.drop (i + b.length),
                  cursor := i + b.length }
  else .panic

/-- `for batch_id in 0..num_batches { load_contig_batch(batch_id)? }` from `batch_id = j`. -/
def loadFrom (v : Variant) : State → Nat → List MBatch → Res State
  | st, _, [] => .ok st
  | st, j, b :: bs =>
    match loadBatch v st j b with
    | .ok st' => loadFrom v st' (j + 1) bs
    | .err => .err
    | .panic => .panic

def loadAll (v : Variant) (A : Arch) (st : State) : Res State := loadFrom v st 0 A.batches

/-- `sample_ids.get(name)`: `deserialize_sample_names` (collection.rs 521–536) inserts the names
in order, a later equal name overwrites the earlier one: the **last** index with that name. -/
def lookup : List Name → Name → Option Nat
  | [], _ => none
  | x :: xs, s =>
    match lookup xs s with
    | some i => some (i + 1)
    | none => if x = s then some 0 else none

/-- `get_no_contigs(sample).is_none_or(|count| count == 0)` — the trigger of every lazy-loading
block (decompressor.rs 196–199, 244–247, 315–318, 408–411, 452–455, 496–499). A sample that
really has no contigs triggers again on every query. -/
def needsLoad (A : Arch) (st : State) (s : Name) : Bool :=
  match lookup A.samples s with
  | none => true
  | some i => (st.contigs.getD i []).isEmpty

def ensureLoaded (v : Variant) (A : Arch) (st : State) (s : Name) : Res State :=
  if needsLoad A st s then loadAll v A st else .ok st

/-- `sample_ids.get(name).map(|id| sample_desc[id].contigs)` — the common part of
`get_contig_list`, `get_sample_desc`, `get_contig_desc` (collection.rs 460–494). -/
def contigsOf (names : List Name) (contigs : List (List Contig)) (s : Name) : Option (List Contig) :=
  (lookup names s).map (fun i => contigs.getD i [])

/-- `.iter().find(|c| c.name == contig_name)` (collection.rs 488–492): the first match. -/
def findContig (cs : List Contig) (c : Name) : Option Contig := cs.find? (fun x => x.name == c)

/-- `get_contig_desc(sample, contig)`. -/
def contigDesc (names : List Name) (contigs : List (List Contig)) (s c : Name) : Option (List Seg) :=
  match contigsOf names contigs s with
  | none => none
  | some cs => (findContig cs c).map Contig.segs

/-! ## Segment loading (decompressor.rs `get_segment`, 693–927) -/

/-- `get_segment(desc)` with the cache made explicit: an LZ group first makes sure its reference
is cached (a failure leaves the cache alone), `in_group_id == 0` answers from the cache, any other
id decodes against the cached reference; a raw group never touches the cache. -/
def getSegment (A : Arch) (c : Cache) (d : Seg) : Cache × Res Bases :=
  if d.group ≥ 16 then
    match cacheGet c d.group with
    | some r => if d.inGroup = 0 then (c, .ok r) else (c, A.delta d.group d.inGroup r)
    | none =>
      match A.ref d.group with
      | .ok r =>
        let c' := (d.group, r) :: c
        if d.inGroup = 0 then (c', .ok r) else (c', A.delta d.group d.inGroup r)
      | .err => (c, .err)
      | .panic => (c, .panic)
  else (c, A.raw d.group d.inGroup)

/-- `get_segment` on a handle that has nothing cached: a function of the archive alone. -/
def segPure (A : Arch) (d : Seg) : Res Bases :=
  if d.group ≥ 16 then
    match A.ref d.group with
    | .ok r => if d.inGroup = 0 then .ok r else A.delta d.group d.inGroup r
    | .err => .err
    | .panic => .panic
  else A.raw d.group d.inGroup

/-- The loader used by the specification `answer`: no state. -/
def pureLoad (A : Arch) : Unit → Seg → Unit × Res Bases := fun _ d => ((), segPure A d)

/-- `get_reference_segment(group_id)` (474–491): cache hit first; then, in the current code, raw
groups are refused and the reference is loaded by `get_segment`; before the repair the part was
decoded by its own last-byte rule (`refOld`) and the outcome cached. -/
def getReference (v : Variant) (A : Arch) (c : Cache) (g : Nat) : Cache × Res Bases :=
  match cacheGet c g with
  | some r => (c, .ok r)
  | none =>
    if v.refViaSegment then
      if g < 16 then (c, .err)
      else getSegment A c { group := g, inGroup := 0, rev := false, rawLen := 0 }
    else
      match A.refOld g with
      | .ok r => ((g, r) :: c, .ok r)
      | .err => (c, .err)
      | .panic => (c, .panic)

/-! ## The loops over segments, generic in the loader (`σ` = what the loader threads through) -/

section Loops
variable {σ : Type} (load : σ → Seg → σ × Res Bases)

def orient (d : Seg) (data : Bases) : Bases :=
  if d.rev then Ragc.Range.reverseComplementSegment data else data

/-- `reconstruct_contig` (574–657): the first segment whole, every later one without its first `k`
bytes (`bail!` when shorter); `get_segment(desc)?` stops at the first failure. -/
def reconstructLoop (k : Nat) : σ → Bool → List Seg → Bases → σ × Res Bases
  | c, _, [], contig => (c, .ok contig)
  | c, first, d :: rest, contig =>
    match load c d with
    | (c1, .ok data) =>
      let data := orient d data
      if first then reconstructLoop k c1 false rest (contig ++ data)
      else if data.length < k then (c1, .err)
      else reconstructLoop k c1 false rest (contig ++ data.drop k)
    | (c1, .err) => (c1, .err)
    | (c1, .panic) => (c1, .panic)

def reconstruct (k : Nat) (c : σ) (segs : List Seg) : σ × Res Bases :=
  reconstructLoop load k c true segs []

/-- Second pass of `get_contig_range` (360–400) over `segment_ranges`: `continue`, `break`, load
the overlapping segment, copy the guarded slice. -/
def collectLoop (k : Nat) (segs : List Seg) (start e : Nat) :
    σ → List (Nat × Nat × Nat) → Bases → σ × Res Bases
  | c, [], result => (c, .ok result)
  | c, (segStart, segEnd, idx) :: rest, result =>
    if segEnd ≤ start then collectLoop k segs start e c rest result
    else if segStart ≥ e then (c, .ok result)
    else
      match segs[idx]? with
      | none => (c, .panic)
      | some d =>
        match load c d with
        | (c1, .ok data) =>
          let data := orient d data
          let contributionStart := if idx = 0 then 0 else k
          let rangeStart := start - segStart
          let rangeEnd := min (e - segStart) (segEnd - segStart)
          let dataStart := contributionStart + rangeStart
          let dataEnd := contributionStart + rangeEnd
          if dataStart < dataEnd ∧ dataEnd ≤ data.length then
            collectLoop k segs start e c1 rest (result ++ (data.drop dataStart).take (dataEnd - dataStart))
          else collectLoop k segs start e c1 rest result
        | (c1, .err) => (c1, .err)
        | (c1, .panic) => (c1, .panic)

/-- `get_contig_range` after the descriptor lookup (333–402). -/
def rangeOf (k : Nat) (c : σ) (segs : List Seg) (start end_ : Nat) : σ × Res Bases :=
  match Ragc.Range.segmentRanges k 0 0 (segs.map (fun d => { rawLen := d.rawLen, data := [] })) with
  | none => (c, .panic)
  | some (ranges, contigLen) =>
    let e := min end_ contigLen
    if start ≥ e then (c, .ok [])
    else collectLoop load k segs start e c ranges []

/-- The loop of `get_sample` (518–530): `reconstruct_contig(&segments)?` per contig. -/
def sampleLoop (k : Nat) : σ → List Contig → List (Name × Bases) → σ × Res (List (Name × Bases))
  | c, [], acc => (c, .ok acc)
  | c, x :: rest, acc =>
    match reconstruct load k c x.segs with
    | (c1, .ok data) => sampleLoop k c1 rest (acc ++ [(x.name, data)])
    | (c1, .err) => (c1, .err)
    | (c1, .panic) => (c1, .panic)

end Loops

/-! ## Values and operations -/

inductive Val where
  | names (l : List Name)
  | bases (b : Bases)
  | nat (n : Nat)
  | segs (l : List Seg)
  | sample (l : List (Name × Bases))
  | samples (l : List (Name × List (Name × Bases)))
  | file (bytes : List Nat)
  | groupStats (l : List (Nat × Nat × Nat × Nat))
  | allSegs (l : List (Name × Name × List Seg))
  | streams (l : List (Name × Nat × Nat × Nat))
  | unit
deriving Repr, DecidableEq

abbrev Result := Res Val

/-- The public methods of `Decompressor` that take `&self` / `&mut self`. -/
inductive Op where
  | listSamples
  | listSamplesWithPrefix (p : Name)
  | listContigs (s : Name)
  | contigLength (s c : Name)
  | contigRange (s c : Name) (start end_ : Nat)
  | getContig (s c : Name)
  | segmentsDesc (s c : Name)
  | segmentData (d : Seg)
  | referenceSegment (g : Nat)
  | getSample (s : Name)
  | getSamplesByPrefix (p : Name)
  | writeSampleFasta (s : Name)
  | groupStatistics
  | allSegments
  | compressionStats
  | cloneForThread
deriving Repr, DecidableEq

/-- `s.starts_with(prefix)`. -/
def startsWith (s p : Name) : Bool := p.isPrefixOf s

/-- `list_samples_with_prefix` (947–952). -/
def withPrefix (names : List Name) (p : Name) : List Name := names.filter (fun s => startsWith s p)

/-- `contig.chunks(80)` each followed by a newline (genome_io.rs 234–237). -/
def wrap80 (fuel : Nat) (l : List Nat) : List Nat :=
  match fuel with
  | 0 => []
  | fuel + 1 => if l.isEmpty then [] else l.take 80 ++ [10] ++ wrap80 fuel (l.drop 80)

/-- `if base < 16 { CNV_NUM[base] } else { b'N' }` (decompressor.rs 1043–1047). -/
def letter (b : Nat) : Nat := if b < 16 then Ragc.Gen.cnvNum.getD b 78 else 78

/-- The bytes `write_sample_fasta` (1030–1055) writes for the extracted contigs. -/
def fastaBytes : List (Name × Bases) → List Nat
  | [] => []
  | (n, data) :: rest => [62] ++ n ++ [10] ++ wrap80 data.length (data.map letter) ++ fastaBytes rest

/-- One `entry` update of `get_group_statistics` (1083–1091) on the table kept sorted by group id
(the code collects in a `HashMap` and sorts at the end). -/
def bump (g : Nat) (isRef : Bool) : List (Nat × Nat × Nat × Nat) → List (Nat × Nat × Nat × Nat)
  | [] => [(g, 1, if isRef then 1 else 0, if isRef then 0 else 1)]
  | (h, t, r, d) :: rest =>
    if g < h then (g, 1, if isRef then 1 else 0, if isRef then 0 else 1) :: (h, t, r, d) :: rest
    else if g = h then (h, t + 1, if isRef then r + 1 else r, if isRef then d else d + 1) :: rest
    else (h, t, r, d) :: bump g isRef rest

def statsOf (segs : List Seg) : List (Nat × Nat × Nat × Nat) :=
  segs.foldl (fun acc s => bump s.group (decide (s.group ≥ 16) && decide (s.inGroup = 0)) acc) []

/-- The double loop shared by `get_all_segments` (1119–1134) and `get_group_statistics`
(1074–1095): for every listed sample name its contig list (looked up **by name**), for every contig
name its descriptors (looked up by name: the first contig so called). `none` = the
`"Failed to get contig list"` error (unreachable: the names come from the table itself). -/
def allSegsOf (names : List Name) (contigs : List (List Contig)) : List Name → Option (List (Name × Name × List Seg))
  | [] => some []
  | s :: rest =>
    match contigsOf names contigs s with
    | none => none
    | some cs =>
      match allSegsOf names contigs rest with
      | none => none
      | some r =>
        some (cs.filterMap (fun c => (findContig cs c.name).map (fun x => (s, c.name, x.segs))) ++ r)

/-! ## One operation on one handle -/

/-- `get_sample` (494–533). -/
def stepGetSample (v : Variant) (A : Arch) (st : State) (s : Name) : State × Res (List (Name × Bases)) :=
  match ensureLoaded v A st s with
  | .err => (st, .err)
  | .panic => (st, .panic)
  | .ok st1 =>
    match contigsOf A.samples st1.contigs s with
    | none => (st1, .err)
    | some cs =>
      let (c, r) := sampleLoop (getSegment A) A.k st1.cache cs []
      ({ st1 with cache := c }, r)

/-- `get_samples_by_prefix` (976–989): `get_sample(&name)?` for every matching name, in order. The
`HashMap` result is represented by the list of its insertions. -/
def samplesLoop (v : Variant) (A : Arch) : State → List Name → List (Name × List (Name × Bases)) →
    State × Res (List (Name × List (Name × Bases)))
  | st, [], acc => (st, .ok acc)
  | st, s :: rest, acc =>
    match stepGetSample v A st s with
    | (st1, .ok x) => samplesLoop v A st1 rest (acc ++ [(s, x)])
    | (st1, .err) => (st1, .err)
    | (st1, .panic) => (st1, .panic)

def mapRes {α β : Type} (f : α → β) : Res α → Res β
  | .ok a => .ok (f a)
  | .err => .err
  | .panic => .panic

/-- Lazy loading for `sample`, then the descriptor lookup, then `f` on the handle's cache. -/
def withDesc (v : Variant) (A : Arch) (st : State) (s c : Name)
    (f : Cache → List Seg → Cache × Result) : State × Result :=
  match ensureLoaded v A st s with
  | .err => (st, .err)
  | .panic => (st, .panic)
  | .ok st1 =>
    match contigDesc A.samples st1.contigs s c with
    | none => (st1, .err)
    | some segs =>
      let (ca, r) := f st1.cache segs
      ({ st1 with cache := ca }, r)

def stepV (v : Variant) (A : Arch) (st : State) : Op → State × Result
  | .listSamples => (st, .ok (.names A.samples))
  | .listSamplesWithPrefix p => (st, .ok (.names (withPrefix A.samples p)))
  | .compressionStats => (st, .ok (.streams A.streams))
  | .cloneForThread => (st, .ok .unit)
  | .listContigs s =>
    match ensureLoaded v A st s with
    | .err => (st, .err)
    | .panic => (st, .panic)
    | .ok st1 =>
      match contigsOf A.samples st1.contigs s with
      | none => (st1, .err)
      | some cs => (st1, .ok (.names (cs.map Contig.name)))
  | .contigLength s c =>
    withDesc v A st s c (fun ca segs =>
      (ca, .ok (.nat (Ragc.Range.contigLengthWrapping A.k (segs.map Seg.rawLen)))))
  | .contigRange s c start end_ =>
    if start ≥ end_ then (st, .ok (.bases []))
    else withDesc v A st s c (fun ca segs =>
      let (ca1, r) := rangeOf (getSegment A) A.k ca segs start end_
      (ca1, mapRes Val.bases r))
  | .getContig s c =>
    withDesc v A st s c (fun ca segs =>
      let (ca1, r) := reconstruct (getSegment A) A.k ca segs
      (ca1, mapRes Val.bases r))
  | .segmentsDesc s c => withDesc v A st s c (fun ca segs => (ca, .ok (.segs segs)))
  | .segmentData d =>
    let (ca, r) := getSegment A st.cache d
    ({ st with cache := ca }, mapRes Val.bases r)
  | .referenceSegment g =>
    let (ca, r) := getReference v A st.cache g
    ({ st with cache := ca }, mapRes Val.bases r)
  | .getSample s =>
    let (st1, r) := stepGetSample v A st s
    (st1, mapRes Val.sample r)
  | .writeSampleFasta s =>
    let (st1, r) := stepGetSample v A st s
    (st1, mapRes (fun x => Val.file (fastaBytes x)) r)
  | .getSamplesByPrefix p =>
    let (st1, r) := samplesLoop v A st (withPrefix A.samples p) []
    (st1, mapRes Val.samples r)
  | .groupStatistics =>
    match loadAll v A st with
    | .err => (st, .err)
    | .panic => (st, .panic)
    | .ok st1 =>
      match allSegsOf A.samples st1.contigs A.samples with
      | none => (st1, .err)
      | some l => (st1, .ok (.groupStats (statsOf (l.flatMap (fun x => x.2.2)))))
  | .allSegments =>
    match loadAll v A st with
    | .err => (st, .err)
    | .panic => (st, .panic)
    | .ok st1 =>
      match allSegsOf A.samples st1.contigs A.samples with
      | none => (st1, .err)
      | some l => (st1, .ok (.allSegs l))

/-- The current code. -/
def step (A : Arch) (st : State) (op : Op) : State × Result := stepV current A st op

/-- The code before commits a501c7c and b8c4c45. -/
def stepOld (A : Arch) (st : State) (op : Op) : State × Result := stepV preRepair A st op

/-- A history: the state after the operations, and their results. -/
def runV (v : Variant) (A : Arch) : State → List Op → State × List Result
  | st, [] => (st, [])
  | st, op :: ops =>
    let (st1, r) := stepV v A st op
    let (st2, rs) := runV v A st1 ops
    (st2, r :: rs)

def run (A : Arch) (st : State) (ops : List Op) : State × List Result := runV current A st ops
def runOld (A : Arch) (st : State) (ops : List Op) : State × List Result := runV preRepair A st ops

/-! ## The specification: answers as a function of the archive content and the operation only -/

/-- The full contig table of the archive: all batches one after the other. -/
def table (A : Arch) : List (List Contig) := A.batches.flatten

/-- Every sample name has its table entry (the writer stores all samples, 50 per batch). -/
def WF (A : Arch) : Prop := (table A).length = A.samples.length

instance (A : Arch) : Decidable (WF A) := by unfold WF; infer_instance

def answerSample (A : Arch) (s : Name) : Res (List (Name × Bases)) :=
  match contigsOf A.samples (table A) s with
  | none => .err
  | some cs => (sampleLoop (pureLoad A) A.k () cs []).2

def answerSamples (A : Arch) : List Name → List (Name × List (Name × Bases)) →
    Res (List (Name × List (Name × Bases)))
  | [], acc => .ok acc
  | s :: rest, acc =>
    match answerSample A s with
    | .ok x => answerSamples A rest (acc ++ [(s, x)])
    | .err => .err
    | .panic => .panic

def answerDesc (A : Arch) (s c : Name) (f : List Seg → Result) : Result :=
  match contigDesc A.samples (table A) s c with
  | none => .err
  | some segs => f segs

/-- What every query must answer: a function of `A` and the operation. -/
def answer (A : Arch) : Op → Result
  | .listSamples => .ok (.names A.samples)
  | .listSamplesWithPrefix p => .ok (.names (withPrefix A.samples p))
  | .compressionStats => .ok (.streams A.streams)
  | .cloneForThread => .ok .unit
  | .listContigs s =>
    match contigsOf A.samples (table A) s with
    | none => .err
    | some cs => .ok (.names (cs.map Contig.name))
  | .contigLength s c =>
    answerDesc A s c (fun segs => .ok (.nat (Ragc.Range.contigLengthWrapping A.k (segs.map Seg.rawLen))))
  | .contigRange s c start end_ =>
    if start ≥ end_ then .ok (.bases [])
    else answerDesc A s c (fun segs => mapRes Val.bases (rangeOf (pureLoad A) A.k () segs start end_).2)
  | .getContig s c =>
    answerDesc A s c (fun segs => mapRes Val.bases (reconstruct (pureLoad A) A.k () segs).2)
  | .segmentsDesc s c => answerDesc A s c (fun segs => .ok (.segs segs))
  | .segmentData d => mapRes Val.bases (segPure A d)
  | .referenceSegment g =>
    if g < 16 then .err
    else mapRes Val.bases (segPure A { group := g, inGroup := 0, rev := false, rawLen := 0 })
  | .getSample s => mapRes Val.sample (answerSample A s)
  | .writeSampleFasta s => mapRes (fun x => Val.file (fastaBytes x)) (answerSample A s)
  | .getSamplesByPrefix p => mapRes Val.samples (answerSamples A (withPrefix A.samples p) [])
  | .groupStatistics =>
    match allSegsOf A.samples (table A) A.samples with
    | none => .err
    | some l => .ok (.groupStats (statsOf (l.flatMap (fun x => x.2.2))))
  | .allSegments =>
    match allSegsOf A.samples (table A) A.samples with
    | none => .err
    | some l => .ok (.allSegs l)

/-! ## Several handles: `clone_for_thread` (1023–1027) re-opens the archive -/

/-- An action of a program that owns several handles (one per thread): an operation on handle
`h`, or `clone_for_thread` on handle `h` (the new handle is appended). Any interleaving of the
threads' operations is a list of these. -/
inductive SysOp where
  | on (h : Nat) (op : Op)
  | clone (h : Nat)
deriving Repr, DecidableEq

/-- `none` = no such handle (not an action of the program). -/
def sysStep (A : Arch) (hs : List State) : SysOp → List State × Option Result
  | .on h op =>
    match hs[h]? with
    | none => (hs, none)
    | some st =>
      let (st1, r) := step A st op
      (hs.set h st1, some r)
  | .clone h =>
    match hs[h]? with
    | none => (hs, none)
    | some _ => (hs ++ [fresh A], some (.ok .unit))

def sysRun (A : Arch) : List State → List SysOp → List State × List (Option Result)
  | hs, [] => (hs, [])
  | hs, o :: os =>
    let (hs1, r) := sysStep A hs o
    let (hs2, rs) := sysRun A hs1 os
    (hs2, r :: rs)

end Ragc.ReaderState
