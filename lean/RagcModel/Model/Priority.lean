/-
Arithmetic of the task priorities in `StreamingQueueCompressor::push` (agc_compressor.rs): an `i32`
counter `next_priority` starts at `i32::MAX` and is decremented once per new sample and once per
sync round; sync tokens of single-file mode carry the priority of the round they close (cost 0);
the RAGC_SYNC_PER_SAMPLE debugging path uses `sample_priority + 1`; `sync_and_flush` and
`finalize` use the constant 1_000_000. Also `parse_capacity` of ragc-cli (checked multiplication).
-/
namespace Ragc.Priority

def i32Max : Int := 2147483647
def i32Min : Int := -2147483648
def inI32 (x : Int) : Prop := i32Min ≤ x ∧ x ≤ i32Max

instance (x : Int) : Decidable (inI32 x) := by unfold inI32; exact inferInstance

/-- value of `next_priority` after `n` decrements (`*next_p -= 1`). -/
def counterAfter (n : Nat) : Int := i32Max - n

/-- the priority handed to the `n`-th request (sample first seen, or sync round): the counter value
    before its decrement. -/
def issued (n : Nat) : Int := counterAfter n

/-- sync token of a pack boundary after the repair: the round's own (already issued) priority. -/
def tokenPriority (n : Nat) : Int := issued n

/-- sync token of a pack boundary BEFORE the repair: `new_priority + 1_000_000`. -/
def tokenPriorityOld (n : Nat) : Int := issued (n + 1) + 1000000

/-- RAGC_SYNC_PER_SAMPLE path after the repair: `sample_priority + 1` for a sample that is not the
    first (`n ≥ 1`). -/
def envTokenPriority (n : Nat) : Int := issued n + 1

def usizeMax : Nat := 2 ^ 64 - 1

/-- `parse_capacity`: `num.checked_mul(multiplier)`. -/
def parseCapacity (num mult : Nat) : Option Nat :=
  if num * mult ≤ usizeMax then some (num * mult) else none

/-- the pre-repair `num * 1024 * 1024 * 1024` in release arithmetic. -/
def parseCapacityOldWrapping (num mult : Nat) : Nat := (num * mult) % 2 ^ 64

end Ragc.Priority
