import RagcModel.Model.CollVarint
/-
Model of the name codecs of ragc-common/src/collection.rs:
`serialize_sample_names` / `deserialize_sample_names` (509–536), `split_string` (539–541),
`encode_split` (544–589), `decode_split_bytes` (595–631), `serialize_contig_names` (634–693),
`decode_bytes_string` (696–705), `deserialize_contig_names` (708–762).

A name is the list of its bytes (`Nat`s `< 256`). A Rust `String` is always valid UTF-8; the
serialisers are therefore only ever applied to valid UTF-8, the deserialisers to arbitrary bytes.
Release-profile arithmetic; every panic site of the Rust is a `Res.panic` here.
-/
namespace Ragc.Names
open Ragc.CollVarint

abbrev Name := List Nat

/-- `s.split(' ')` (also the byte-level `enc_bytes.split(|&b| b == b' ')`): always ≥ 1 field. -/
def splitSp : List Nat → List (List Nat)
  | [] => [[]]
  | b :: r =>
    if b = 32 then [] :: splitSp r
    else match splitSp r with
      | f :: fs => (b :: f) :: fs
      | [] => [[b]]

/-- Fields joined by one space (what "push field, push ' ' … pop the final ' '" builds). -/
def joinSp : List (List Nat) → List Nat
  | [] => []
  | [f] => f
  | f :: g :: fs => f ++ 32 :: joinSp (g :: fs)

/-- Inner loop of `encode_split` (554–577) for two fields of equal length: `cnt` is the number of
    pending equal characters (`i8`, never above 100); a marker is the byte `(-cnt) as u8 = 256-cnt`.
    (The third equation — `prev` shorter than `curr` — is unreachable: the loop is entered only
    for equal lengths; Rust would panic on the index.) -/
def rle : Nat → List Nat → List Nat → List Nat
  | cnt, p :: ps, c :: cs =>
    if p = c then
      if cnt = 100 then (256 - cnt) :: rle 1 ps cs else rle (cnt + 1) ps cs
    else
      (if cnt > 0 then [256 - cnt] else []) ++ c :: rle 0 ps cs
  | cnt, _, [] => if cnt > 0 then [256 - cnt] else []
  | cnt, [], _ :: _ => if cnt > 0 then [256 - cnt] else []

/-- One component of `encode_split` (548–578). -/
def encField (p c : List Nat) : List Nat :=
  if p = c then [0x81]
  else if p.length ≠ c.length then c
  else rle 0 p c

/-- `encode_split(prev_split, curr_split)` for `prev_split.len() = curr_split.len() ≥ 1`. -/
def encodeSplit (prev curr : List (List Nat)) : List Nat :=
  joinSp (List.zipWith encField prev curr)

/-- Inner loop of `decode_split_bytes` (608–620). The first argument is `p_bytes[p_idx..]`
    (empty once `p_idx ≥ len`). A byte `≥ 0x81` copies `256 - byte` bytes of the previous field —
    out of range ⇒ slice panic; the byte `0x80` (`-(-128i8)` wraps, `as usize` gives 2^64-128)
    always panics on the slice. -/
def decRun : List Nat → List Nat → Res (List Nat)
  | _, [] => .ok []
  | p, b :: e =>
    if b < 128 then
      match decRun (p.drop 1) e with
      | .ok t => .ok (b :: t)
      | .err => .err
      | .panic => .panic
    else if b = 128 then .panic
    else
      let n := 256 - b
      if n ≤ p.length then
        match decRun (p.drop n) e with
        | .ok t => .ok (p.take n ++ t)
        | .err => .err
        | .panic => .panic
      else .panic

/-- One component of `decode_split_bytes` (599–624). -/
def decField (p e : List Nat) : Res (List Nat) :=
  if e = [0x81] then .ok p else decRun p e

/-- All components, left to right (the first panic wins). Equal lengths by the caller. -/
def decFields : List (List Nat) → List (List Nat) → Res (List (List Nat))
  | p :: ps, e :: es =>
    match decField p e with
    | .ok f =>
      match decFields ps es with
      | .ok fs => .ok (f :: fs)
      | .err => .err
      | .panic => .panic
    | .err => .err
    | .panic => .panic
  | _, _ => .ok []

/-- `decode_split_bytes(prev_split, &mut curr_split)`: decoded name and the decoded components
    (which replace `curr_split`); `String::from_utf8(dec).expect(..)` panics on invalid UTF-8. -/
def decodeSplit (prev enc : List (List Nat)) : Res (Name × List (List Nat)) :=
  match decFields prev enc with
  | .ok fs => if utf8Valid (joinSp fs) then .ok (joinSp fs, fs) else .panic
  | .err => .err
  | .panic => .panic

/-- Loop over the contigs of one sample in `serialize_contig_names` (655–685). -/
def encContigs (prev : List (List Nat)) : List Name → List Nat
  | [] => []
  | nm :: rest =>
    let cs := splitSp nm
    (if cs.length ≠ prev.length then nm ++ [0] else encodeSplit prev cs ++ [0]) ++ encContigs cs rest

def encSamples : List (List Name) → List Nat
  | [] => []
  | s :: ss => encode s.length ++ encContigs [] s ++ encSamples ss

/-- `serialize_contig_names(id_from, id_to)` applied to the contig names of
    `sample_desc[id_from..id_to]` (counts are cast `as u32`: domain `< 2^32`). -/
def encodeNames (samples : List (List Name)) : List Nat :=
  encode samples.length ++ encSamples samples

/-- Loop over `no_contigs` names in `deserialize_contig_names` (722–756). -/
def decContigs (prev : List (List Nat)) : Nat → List Nat → Res (List Name × List Nat)
  | 0, d => .ok ([], d)
  | n + 1, d =>
    match splitNul d with
    | none => .err
    | some (enc, d1) =>
      let cs := splitSp enc
      let step : Res (Name × List (List Nat)) :=
        if prev.isEmpty || cs.length ≠ prev.length then .ok (utf8Lossy enc, cs)
        else decodeSplit prev cs
      match step with
      | .ok (name, cur) =>
        match decContigs cur n d1 with
        | .ok (rest, d2) => .ok (name :: rest, d2)
        | .err => .err
        | .panic => .panic
      | .err => .err
      | .panic => .panic

/-- Loop over the samples of the batch (713–757). `avail` = number of entries of `sample_desc`
    from `i_sample` on that have not been visited yet; `sample_desc[i_sample + i]` panics when it
    is exhausted (after the contig count of that sample has been decoded). -/
def decSamples : Nat → Nat → List Nat → Res (List (List Name))
  | 0, _, _ => .ok []
  | n + 1, avail, d =>
    match decode d with
    | none => .err
    | some (nc, d1) =>
      if avail = 0 then .panic
      else
        match decContigs [] nc d1 with
        | .ok (names, d2) =>
          match decSamples n (avail - 1) d2 with
          | .ok rest => .ok (names :: rest)
          | .err => .err
          | .panic => .panic
        | .err => .err
        | .panic => .panic

/-- `deserialize_contig_names(data, i_sample)` with `avail = sample_desc.len() - i_sample`
    (saturating): the contig names assigned to `sample_desc[i_sample ..]`, in order. Trailing
    bytes are ignored. `no_samples_in_last_batch` becomes the length of the result. -/
def decodeNames (avail : Nat) (data : List Nat) : Res (List (List Name)) :=
  match decode data with
  | none => .err
  | some (n, d) => decSamples n avail d

/-- `serialize_sample_names` (509–518). -/
def encStrings : List Name → List Nat
  | [] => []
  | s :: ss => encodeString s ++ encStrings ss

def encodeSampleNames (names : List Name) : List Nat :=
  encode names.length ++ encStrings names

/-- `deserialize_sample_names` (521–536). -/
def decStrings : Nat → List Nat → Option (List Name)
  | 0, _ => some []
  | n + 1, d =>
    match decodeString d with
    | none => none
    | some (s, d1) =>
      match decStrings n d1 with
      | some ss => some (s :: ss)
      | none => none

def decodeSampleNames (data : List Nat) : Option (List Name) :=
  match decode data with
  | none => none
  | some (n, d) => decStrings n d

end Ragc.Names
