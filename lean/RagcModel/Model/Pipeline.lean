/-!
Model of the streaming compression pipeline of `ragc-core/src/agc_compressor.rs` as a transition
system (properties C04 and C05): one producer thread (the CLI driving `push` / `drain` /
`sync_and_flush` / `finalize`), the bounded priority queue at the granularity of *completed calls*
(its condvar protocol is the separate C06 model), and `N` worker threads running `worker_thread`.

What is mirrored, and where:

* `Item`, `taskLt`            — `ContigTask` and `impl Ord for ContigTask` (agc_compressor.rs 157–220);
* `Instr`, `programOf`        — the sequence of queue operations that `ragc-cli/src/main.rs`
  `create_archive` (600–840) + `StreamingQueueCompressor::push` (1457–1737) + `drain` (1756) +
  `sync_and_flush` (1780) + `finalize` (1809–1862) perform for given inputs, including the priority
  arithmetic (`next_priority` starts at `i32::MAX`, one decrement per new sample and per
  pack-boundary synchronisation) — the `RAGC_SYNC_PER_SAMPLE` debugging path is off;
* `WState`, `step?`           — `worker_thread` (5014–5460): `loop { pull → None ⇒ exit | token ⇒
  barrier 1, phase 2 on worker 0, barrier 2, phase 3, barrier 3, barrier 4 | contig ⇒ segment it and
  append to the raw buffer }`, `std::sync::Barrier` with `N` parties, and the guards of
  `MemoryBoundedQueue::{push,pull,close}` (memory_bounded_queue.rs).

The only ghost datum is `Item.rd`, the *round index* of an item (contigs of round `r`: `2r`,
tokens of round `r`: `2r+1`). No guard and no ordering reads it; `programOf` fills it in and the
driver recomputes it from the push sequence when it replays a real trace.
This file imports nothing.
-/
namespace Ragc.Pipeline

/-! ### Items and their order -/

/-- `ContigTask`. `contig seq prio cost size rd`: a real contig (`sequence`, `sample_priority`,
`cost = data.len()`, queue size `task_size = data.len()`); `token seq prio rd`: a synchronisation
token (`is_sync_token`, `cost = 0`, pushed with size 0). Priorities are `i32` in Rust; no wrap is
modelled (`Int`). `rd` is ghost (see the file header). -/
inductive Item where
  | contig (seq : Nat) (prio : Int) (cost size rd : Nat)
  | token (seq : Nat) (prio : Int) (rd : Nat)
  deriving DecidableEq, Repr, Inhabited

namespace Item
def isTok : Item → Bool
  | contig .. => false
  | token .. => true
def seq : Item → Nat
  | contig s _ _ _ _ => s
  | token s _ _ => s
def prio : Item → Int
  | contig _ p _ _ _ => p
  | token _ p _ => p
def cost : Item → Nat
  | contig _ _ c _ _ => c
  | token .. => 0
def size : Item → Nat
  | contig _ _ _ z _ => z
  | token .. => 0
def rd : Item → Nat
  | contig _ _ _ _ r => r
  | token _ _ r => r
end Item

/-- `a < b` in `ContigTask::cmp` (202–218): `sample_priority`, then `cost` (larger cost is
greater), then `other.sequence.cmp(&self.sequence)` (smaller sequence is greater). The heap pops a
greatest element. -/
def taskLt (a b : Item) : Prop :=
  a.prio < b.prio ∨ (a.prio = b.prio ∧ (a.cost < b.cost ∨ (a.cost = b.cost ∧ b.seq < a.seq)))

instance (a b : Item) : Decidable (taskLt a b) := by unfold taskLt; exact inferInstance

/-! ### Producer programs -/

/-- One queue operation of the producer thread. `waitEmpty` is `drain` / the polling loop of
`sync_and_flush` (`while self.queue.len() > 0 { sleep }`). -/
inductive Instr where
  | push (x : Item)
  | waitEmpty
  | close
  deriving DecidableEq, Repr, Inhabited

/-- The items a program pushes, in order. -/
def items : List Instr → List Item
  | [] => []
  | .push x :: r => x :: items r
  | _ :: r => items r

/-- sequences of the contigs among `l`, in order -/
def contigSeqs (l : List Item) : List Nat := (l.filter (fun x => !x.isTok)).map Item.seq

/-- number of tokens among `l` -/
def tokCount (l : List Item) : Nat := l.countP Item.isTok

/-- Counters of `StreamingQueueCompressor` read and written by `push`: `next_priority`
(1227: starts at `i32::MAX`), `next_sequence` (1228), `global_contig_count` (1229); `rd` is the
ghost number of synchronisation rounds emitted so far. -/
structure Gen where
  nextPrio : Int
  seq : Nat
  count : Nat
  rd : Nat
  deriving Repr, DecidableEq

def Gen.init : Gen := { nextPrio := 2147483647, seq := 0, count := 0, rd := 0 }

/-- `N` copies of the same token (the `for _ in 0..num_threads` loops at 1628, 1786, 1827). -/
def tokens (N seq : Nat) (prio : Int) (rd : Nat) : List Instr :=
  List.replicate N (.push (.token seq prio rd))

/-- One call of `push` (1566–1735) for a non-empty contig of the sample whose priority entry in
`sample_priorities` is `cur`. Returns the queue operations, the counters, and the sample's priority
entry afterwards. With `single` (`concatenated_genomes`) and `(count + 1) % pack_size == 0` the call
first allocates a new priority from the counter, pushes `N` tokens carrying the *old* priority
(`current_priority`), cost 0 and this contig's sequence number, and gives the contig the new one. -/
def pushContig (single : Bool) (N pack : Nat) (g : Gen) (cur : Int) (size : Nat) :
    List Instr × Gen × Int :=
  if single && (g.count + 1) % pack == 0 then
    (tokens N g.seq cur (2 * g.rd + 1) ++ [.push (.contig g.seq g.nextPrio size size (2 * g.rd + 2))],
     { nextPrio := g.nextPrio - 1, seq := g.seq + 1, count := g.count + 1, rd := g.rd + 1 },
     g.nextPrio)
  else
    ([.push (.contig g.seq cur size size (2 * g.rd))],
     { g with seq := g.seq + 1, count := g.count + 1 }, cur)

/-- consecutive `push` calls for the contigs of one sample -/
def pushContigs (single : Bool) (N pack : Nat) : Gen → Int → List Nat → List Instr × Gen
  | g, _, [] => ([], g)
  | g, cur, sz :: rest =>
    let r1 := pushContig single N pack g cur sz
    let r2 := pushContigs single N pack r1.2.1 r1.2.2 rest
    (r1.1 ++ r2.1, r2.2)

/-- All `push` calls of one sample. Empty sequences never reach `push` (main.rs 703, 770, 810:
`if sequence.is_empty() { continue }`), so a sample without a non-empty contig is invisible.
The first call allocates the sample's priority (`or_insert_with`, 1579–1585). -/
def pushSample (single : Bool) (N pack : Nat) (g : Gen) (sizes : List Nat) : List Instr × Gen :=
  match sizes.filter (· ≠ 0) with
  | [] => ([], g)
  | l => pushContigs single N pack { g with nextPrio := g.nextPrio - 1 } g.nextPrio l

def pushSamples (single : Bool) (N pack : Nat) : Gen → List (List Nat) → List Instr × Gen
  | g, [] => ([], g)
  | g, s :: rest =>
    let r1 := pushSample single N pack g s
    let r2 := pushSamples single N pack r1.2 rest
    (r1.1 ++ r2.1, r2.2)

/-- `finalize` 1825–1849: `N` tokens with priority 1 000 000 and sequence 0, then `close`. -/
def finalOps (N : Nat) (g : Gen) : List Instr :=
  tokens N 0 1000000 (2 * g.rd + 1) ++ [.close]

/-- `sync_and_flush` 1780–1806: one sequence number, `N` tokens with priority 1 000 000, then the
polling wait for an empty queue. -/
def syncAndFlush (N : Nat) (g : Gen) : List Instr × Gen :=
  (tokens N g.seq 1000000 (2 * g.rd + 1) ++ [.waitEmpty], { g with seq := g.seq + 1, rd := g.rd + 1 })

/-- Multi-file mode (main.rs 760–830): every contig of the first file, `drain`, `sync_and_flush`,
the other files, `finalize`. One sample name per file is assumed (file stem, or the same PanSN
prefix on every header), so a file is a list of contig sizes. -/
def programMulti (N pack : Nat) (samples : List (List Nat)) : List Instr :=
  let r1 := pushSample false N pack Gen.init (samples.headD [])
  let r2 := syncAndFlush N r1.2
  let r3 := pushSamples false N pack r2.2 samples.tail
  r1.1 ++ [.waitEmpty] ++ r2.1 ++ r3.1 ++ finalOps N r3.2

/-- Single-file (PanSN) mode (main.rs 686–757): samples are maximal runs of equal sample names;
`drain` once, when the second sample starts (`!is_reference_done && current_sample.is_some()`),
pack-boundary tokens inside `push`, `finalize`. -/
def programSingle (N pack : Nat) (samples : List (List Nat)) : List Instr :=
  match (samples.map (fun s => s.filter (· ≠ 0))).filter (· ≠ []) with
  | [] => finalOps N Gen.init
  | s :: rest =>
    let r1 := pushSample true N pack Gen.init s
    let r3 := pushSamples true N pack r1.2 rest
    r1.1 ++ (if rest = [] then [] else [.waitEmpty]) ++ r3.1 ++ finalOps N r3.2

/-- The program of a whole `create` run. `single = true`: one input file with the given samples;
`single = false`: one file per sample. (`pack = 0` in single-file mode is a division by zero in
Rust, 1596; the driver answers `panic` there and the theorems assume `1 ≤ pack`.) -/
def programOf (single : Bool) (N pack : Nat) (samples : List (List Nat)) : List Instr :=
  if single then programSingle N pack samples else programMulti N pack samples

/-- The rule before the fix of defect D4 (commit 5761cef): pack-boundary tokens were queued with
priority `new_priority + 1_000_000`, i.e. above the contigs already queued. Kept only for the
negation witness of C04. -/
def pushContigOld (N pack : Nat) (g : Gen) (cur : Int) (size : Nat) : List Instr × Gen × Int :=
  if (g.count + 1) % pack == 0 then
    (tokens N g.seq (cur - 1 + 1000000) (2 * g.rd + 1) ++ [.push (.contig g.seq (cur - 1) size size (2 * g.rd + 2))],
     { g with seq := g.seq + 1, count := g.count + 1, rd := g.rd + 1 }, cur - 1)
  else
    ([.push (.contig g.seq cur size size (2 * g.rd))],
     { g with seq := g.seq + 1, count := g.count + 1 }, cur)

/-! ### States and transitions -/

/-- Where a worker is in `worker_thread`'s loop. `idle`: about to call / blocked in `queue.pull()`;
`working c`: holds contig `c`, has not yet appended its segments to the raw buffer;
`bar j`: has arrived at the `j`-th `barrier.wait()` of a round (for `j = 1`: holds a token);
`ph j`: released from barrier `j`, doing the work that follows it; `exited`: `pull` returned `None`. -/
inductive WState where
  | idle
  | working (c : Nat)
  | bar (j : Nat)
  | ph (j : Nat)
  | exited
  deriving DecidableEq, Repr, Inhabited

structure State where
  /-- remaining producer program -/
  prog : List Instr
  /-- `QueueInner.items` (a heap in Rust; only the multiset and the order `taskLt` matter) -/
  queue : List Item
  /-- `QueueInner.closed` -/
  closed : Bool
  /-- `capacity_bytes` -/
  cap : Nat
  workers : List WState
  /-- contigs appended to the raw segment buffers since the last round started -/
  buffered : List Nat
  /-- closed batches: what worker 0 classifies in phase 2 of each round -/
  batches : List (List Nat)
  deriving DecidableEq, Repr

/-- `QueueInner.current_size` (kept equal to the sum of the queued sizes by `push`/`pull`). -/
def State.cur (s : State) : Nat := (s.queue.map Item.size).sum

def init (prog : List Instr) (cap N : Nat) : State :=
  { prog := prog, queue := [], closed := false, cap := cap, workers := List.replicate N .idle,
    buffered := [], batches := [] }

/-- When a blocking `push` completes (memory_bounded_queue.rs 102–115). `fx = true` is the guard of
the code as it stands since commit c0ac607 (it waits `while current_size + size > capacity &&
!items.is_empty() && !closed`, i.e. an item is also admitted into an empty queue); `fx = false` is
the guard before that fix (defect D5: `while current_size + size > capacity && !closed`), kept for
the negation witness `oversize_blocks` and because every theorem is proved for both. A push to a
closed queue returns `Err(Closed)`; no program of the CLI does that and the model has no transition
for it. -/
def pushGuard (fx : Bool) (s : State) (x : Item) : Prop :=
  s.closed = false ∧ (s.cur + x.size ≤ s.cap ∨ (fx = true ∧ s.queue = []))

instance (fx : Bool) (s : State) (x : Item) : Decidable (pushGuard fx s x) := by
  unfold pushGuard; exact inferInstance

/-- Observable actions. -/
inductive Event where
  /-- the producer completes its next instruction -/
  | prod
  /-- worker `w`'s `queue.pull()` returns item `x` -/
  | pull (w : Nat) (x : Item)
  /-- worker `w`'s `queue.pull()` returns `None` -/
  | exit (w : Nat)
  /-- worker `w` appends the segments of its contig to the raw buffer -/
  | buffer (w : Nat)
  /-- the `j`-th barrier of the current round opens -/
  | release (j : Nat)
  /-- worker `w` finishes the work after the barrier it was released from -/
  | advance (w : Nat)
  deriving DecidableEq, Repr

/-- `x` is a greatest element of the queue: `BinaryHeap::pop`. Ties (`cmp = Equal`, e.g. the `N`
tokens of one round) are resolved arbitrarily. -/
def isMax (q : List Item) (x : Item) : Prop := x ∈ q ∧ ∀ y ∈ q, ¬ taskLt x y

instance (q : List Item) (x : Item) : Decidable (isMax q x) := by unfold isMax; exact inferInstance

/-- The transition function: `step? fx s e = some s'` iff action `e` is enabled in `s` and leads to
`s'`. -/
def step? (fx : Bool) (s : State) : Event → Option State
  | .prod =>
    match s.prog with
    | [] => none
    | .push x :: p => if pushGuard fx s x then some { s with prog := p, queue := s.queue ++ [x] } else none
    | .waitEmpty :: p => if s.queue = [] then some { s with prog := p } else none
    | .close :: p => some { s with prog := p, closed := true }
  | .pull w x =>
    if s.workers[w]? = some .idle ∧ isMax s.queue x then
      some { s with queue := s.queue.erase x,
                    workers := s.workers.set w (if x.isTok then .bar 1 else .working x.seq) }
    else none
  | .exit w =>
    if s.workers[w]? = some .idle ∧ s.closed = true ∧ s.queue = [] then
      some { s with workers := s.workers.set w .exited }
    else none
  | .buffer w =>
    match s.workers[w]? with
    | some (.working c) => some { s with workers := s.workers.set w .idle, buffered := s.buffered ++ [c] }
    | _ => none
  | .release j =>
    if 1 ≤ j ∧ j ≤ 4 ∧ s.workers ≠ [] ∧ ∀ v ∈ s.workers, v = .bar j then
      if j = 1 then
        some { s with workers := s.workers.map (fun _ => .ph j),
                      batches := s.batches ++ [s.buffered], buffered := [] }
      else some { s with workers := s.workers.map (fun _ => .ph j) }
    else none
  | .advance w =>
    match s.workers[w]? with
    | some (.ph j) =>
      if 1 ≤ j ∧ j < 4 then some { s with workers := s.workers.set w (.bar (j + 1)) }
      else if j = 4 then some { s with workers := s.workers.set w .idle }
      else none
    | _ => none

/-- The same transitions as guarded actions (one constructor per action); `Lemmas/Pipeline.lean`
proves `StepI fx s e s' ↔ step? fx s e = some s'`. -/
inductive StepI (fx : Bool) : State → Event → State → Prop where
  | push {s : State} {x : Item} {p : List Instr} : s.prog = .push x :: p → pushGuard fx s x →
      StepI fx s .prod { s with prog := p, queue := s.queue ++ [x] }
  | waitEmpty {s : State} {p : List Instr} : s.prog = .waitEmpty :: p → s.queue = [] →
      StepI fx s .prod { s with prog := p }
  | close {s : State} {p : List Instr} : s.prog = .close :: p →
      StepI fx s .prod { s with prog := p, closed := true }
  | pull {s : State} {w : Nat} {x : Item} : s.workers[w]? = some .idle → isMax s.queue x →
      StepI fx s (.pull w x) { s with queue := s.queue.erase x,
                                      workers := s.workers.set w (if x.isTok then .bar 1 else .working x.seq) }
  | exit {s : State} {w : Nat} : s.workers[w]? = some .idle → s.closed = true → s.queue = [] →
      StepI fx s (.exit w) { s with workers := s.workers.set w .exited }
  | buffer {s : State} {w c : Nat} : s.workers[w]? = some (.working c) →
      StepI fx s (.buffer w) { s with workers := s.workers.set w .idle, buffered := s.buffered ++ [c] }
  | release1 {s : State} : s.workers ≠ [] → (∀ v ∈ s.workers, v = .bar 1) →
      StepI fx s (.release 1) { s with workers := s.workers.map (fun _ => .ph 1),
                                       batches := s.batches ++ [s.buffered], buffered := [] }
  | release {s : State} {j : Nat} : 2 ≤ j → j ≤ 4 → s.workers ≠ [] → (∀ v ∈ s.workers, v = .bar j) →
      StepI fx s (.release j) { s with workers := s.workers.map (fun _ => .ph j) }
  | advance {s : State} {w j : Nat} : s.workers[w]? = some (.ph j) → 1 ≤ j → j < 4 →
      StepI fx s (.advance w) { s with workers := s.workers.set w (.bar (j + 1)) }
  | advance4 {s : State} {w : Nat} : s.workers[w]? = some (.ph 4) →
      StepI fx s (.advance w) { s with workers := s.workers.set w .idle }

/-- The transition relation. -/
def Step (fx : Bool) (s s' : State) : Prop := ∃ e, step? fx s e = some s'

/-- States reachable from the initial state of program `prog` with capacity `cap` and `N` workers. -/
inductive Reachable (fx : Bool) (prog : List Instr) (cap N : Nat) : State → Prop where
  | init : Reachable fx prog cap N (init prog cap N)
  | step {s s'} : Reachable fx prog cap N s → Step fx s s' → Reachable fx prog cap N s'

/-- `trace` is the list of successive states of an execution that starts in `s` (`s` excluded). -/
def IsExec (fx : Bool) : State → List State → Prop
  | _, [] => True
  | s, t :: rest => Step fx s t ∧ IsExec fx t rest

/-- Producer done, queue empty, every worker has left `worker_thread`: `finalize` has joined all
workers. -/
def Final (s : State) : Prop := s.prog = [] ∧ s.queue = [] ∧ ∀ v ∈ s.workers, v = .exited

instance (s : State) : Decidable (Final s) := by unfold Final; exact inferInstance

/-- Replay a list of actions; `Except.error i` is the index of the first action that is not enabled. -/
def replay (fx : Bool) : State → List Event → Nat → Except Nat State
  | s, [], _ => .ok s
  | s, e :: es, i =>
    match step? fx s e with
    | some s' => replay fx s' es (i + 1)
    | none => .error i

/-- number of token rounds of a program: `(max rd + 1) / 2` (the last push of a well-formed program
is a token of round `rounds - 1`, with `rd = 2 (rounds - 1) + 1`). -/
def maxRd (l : List Item) : Nat := l.foldr (fun x m => max x.rd m) 0
def rounds (prog : List Instr) : Nat := (maxRd (items prog) + 1) / 2

/-- sequences of the contigs of round `r` -/
def roundContigs (prog : List Instr) (r : Nat) : List Nat :=
  ((items prog).filter (fun x => !x.isTok && x.rd == 2 * r)).map Item.seq

end Ragc.Pipeline
