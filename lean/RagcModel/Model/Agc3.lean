import RagcModel.Model.Container
import RagcModel.Model.CollVarint
import RagcModel.Model.Names
import RagcModel.Model.Details
import RagcModel.Model.SegCompress
import RagcModel.Model.LzDiff
import RagcModel.Model.Range
/-!
# The independent AGC v3 decoder (C02)

A reader written from the *format rules*, not from ragc's reader: it never looks at
`decompressor.rs`. The normative constants are literals of this file (`packCard = 50`,
`noRawGroups = 16`, `separator = 0xFF`, `placeholder = 0x7f`, the 64 base-64 digits, file version
3.0, marker 0 = plain ZSTD / any other marker = tuple-packed); nothing is taken from `Ragc.Gen`
here. It composes the codec models that are proved elsewhere:

* container footer / directory: `Container.openBytesFixed` (C13/C14); parts are then fetched from
  an `Array` copy of the file by `readPartA`, the constant-time twin of `Container.readPartData`;
* `collection-samples`, `collection-contigs`, `collection-details`: `Names.decodeSampleNames`, `Names.decodeNames`,
  `Details.decNats`, `Details.decodeDetailsL` (C03);
* part framing: `SegCompress.unframePart` (marker byte, tuple packing — C12);
* LZ-diff V2 text: `LzDiff.decodeSeg` (C09); orientation and re-assembly:
  `Range.reverseComplementSegment`, `Range.reconstruct` (C07).

ZSTD is a parameter `zd : List Nat → Option (List Nat)`; Lean never sees ZSTD. `frames` lists, in
a deterministic order, every byte string the format says is a ZSTD frame, so that the caller can
supply their decompressions.

Besides the decoded content, `decodeArchive` evaluates the *addressing rules* a C++ AGC reader
relies on and reports every breach in `violations` (rule name, then a detail).
-/
namespace Ragc.Agc3
open Ragc.Container Ragc.Varint

/-! ## Normative constants (literals; compared with the regenerated ones in `Props.C02`) -/

/-- segments per delta pack / samples per collection batch -/
def packCard : Nat := 50
/-- groups `0 .. 15` hold raw (not LZ-encoded) segments -/
def noRawGroups : Nat := 16
/-- every pack entry is followed by this byte -/
def separator : Nat := 255
/-- entry 0 of pack 0 of a raw group -/
def placeholder : Nat := 127
def versionMajor : Nat := 3
def versionMinor : Nat := 0
/-- `0-9 A-Z a-z _ #` -/
def b64 : List Nat :=
  [48, 49, 50, 51, 52, 53, 54, 55, 56, 57,
   65, 66, 67, 68, 69, 70, 71, 72, 73, 74, 75, 76, 77, 78, 79, 80, 81, 82, 83, 84, 85, 86, 87, 88, 89, 90,
   97, 98, 99, 100, 101, 102, 103, 104, 105, 106, 107, 108, 109, 110, 111, 112, 113, 114, 115, 116,
   117, 118, 119, 120, 121, 122, 95, 35]

def str (s : String) : List Nat := s.toList.map Char.toNat

def showName (n : List Nat) : String :=
  String.ofList (n.map fun b => if 33 ≤ b ∧ b < 127 then Char.ofNat b else '?')

/-! ## Segment stream names: `x<base-64 id, little endian>r` / `…d` -/

inductive Kind where
  | ref
  | delta
deriving Repr, DecidableEq

def b64Digit (i : Nat) : Nat := b64.getD i 0

/-- little-endian base-64 digits of `n`, at least one -/
def b64Encode (n : Nat) : List Nat :=
  if h : n / 64 = 0 then [b64Digit (n % 64)] else b64Digit (n % 64) :: b64Encode (n / 64)
termination_by n
decreasing_by omega

def kindChar : Kind → Nat
  | .ref => 114
  | .delta => 100

/-- the canonical name of a group's stream -/
def xName (g : Nat) (kd : Kind) : List Nat := 120 :: (b64Encode g ++ [kindChar kd])

def b64Value : List Nat → Option Nat
  | [] => some 0
  | c :: r =>
    match b64.idxOf? c, b64Value r with
    | some d, some v => some (d + 64 * v)
    | _, _ => none

/-- `x<digits>r|d` ↦ (group id, kind); `none` for every other name. -/
def parseXName (name : List Nat) : Option (Nat × Kind) :=
  match name with
  | 120 :: rest =>
    let ds := rest.dropLast
    if ds.isEmpty then none
    else
      match rest.getLast?, b64Value ds with
      | some 114, some g => some (g, .ref)
      | some 100, some g => some (g, .delta)
      | _, _ => none
  | _ => none

/-! ## Container access -/

def seekMax : Nat := 2 ^ 63 - 1

structure Opened where
  file : Array Nat
  dir : List Stream

def openArchive (bs : List Nat) : Except String Opened :=
  match openBytesFixed seekMax bs with
  | .ok r => .ok ⟨bs.toArray, r.dir⟩
  | _ => .error "container: footer or stream directory malformed"

/-- One part: length-prefixed big-endian metadata, then `size` data bytes. An empty part reads as
`([], 0)`. (`Container.readPartData` on an array copy of the file: only the window
`[off, off + 1 + n + size)` is looked at, `n` being the length byte of the metadata.) -/
def readPartA (file : Array Nat) (p : Part) : Except String Blob :=
  if p.size = 0 then .ok ([], 0)
  else
    match file[p.off]? with
    | none => .error "container: part offset outside the file"
    | some n =>
      match readVarint (file.extract p.off (p.off + 1 + n + p.size)).toList with
      | none => .error "container: part metadata truncated"
      | some (md, rest) =>
        if rest.length < p.size then .error "container: part data truncated"
        else .ok (rest.take p.size, md)

def readParts (file : Array Nat) (st : Stream) : Except String (List Blob) :=
  st.parts.mapM (readPartA file)

def findFixed (o : Opened) (name : String) : Except String Stream :=
  match o.dir.find? (fun st => st.name == str name) with
  | some st => .ok st
  | none => .error s!"stream {name} missing"

/-! ## Collection (catalogue) parts -/

/-- One `collection-details` part: ten prefix varints (raw size, compressed size of each of the
five streams) and the five frames. -/
structure DetailsPart where
  rawSizes : List Nat
  frames : List (List Nat)
  metadata : Nat

def cutFrames : List Nat → List Nat → Option (List (List Nat))
  | [], _ => some []
  | n :: ns, d =>
    if d.length < n then none
    else (cutFrames ns (d.drop n)).map (d.take n :: ·)

def parseDetailsPart (b : Blob) : Except String DetailsPart :=
  match Ragc.Details.decNats 10 b.1 with
  | some ([r0, c0, r1, c1, r2, c2, r3, c3, r4, c4], rest) =>
    match cutFrames [c0, c1, c2, c3, c4] rest with
    | some fs => .ok ⟨[r0, r1, r2, r3, r4], fs, b.2⟩
    | none => .error "collection-details: frames shorter than announced"
  | _ => .error "collection-details: size table truncated"

structure CollectionRaw where
  samples : Blob
  contigs : List Blob
  details : List DetailsPart

def readCollection (o : Opened) : Except String CollectionRaw := do
  let ss ← findFixed o "collection-samples"
  let cs ← findFixed o "collection-contigs"
  let ds ← findFixed o "collection-details"
  let sp ← readParts o.file ss
  let cp ← readParts o.file cs
  let dp ← readParts o.file ds
  match sp with
  | [s] =>
    let dparts ← dp.mapM parseDetailsPart
    pure ⟨s, cp, dparts⟩
  | _ => throw "collection-samples: expected exactly one part"

/-! ## Segment streams -/

structure XStream where
  name : List Nat
  group : Nat
  kind : Kind
  parts : List Blob

def xStreams (o : Opened) : Except String (List XStream) :=
  o.dir.filterMapM fun st =>
    match parseXName st.name with
    | none => pure none
    | some (g, kd) => do
      let ps ← readParts o.file st
      pure (some ⟨st.name, g, kd, ps⟩)

/-- The ZSTD frame inside a stored part (`none`: stored raw, nothing to decompress). -/
def partFrame (b : Blob) : Option (List Nat) :=
  if b.2 = 0 ∨ b.1.isEmpty then none else some b.1.dropLast

/-- **Entry point 1**: every ZSTD frame of the archive, in the order: collection-samples part;
each collection-contigs part; the five sub-frames of each collection-details part; for every
`x…r` / `x…d` stream (directory order) each part with metadata ≠ 0, without its marker byte. -/
def frames (bs : List Nat) : Except String (List (List Nat)) := do
  let o ← openArchive bs
  let c ← readCollection o
  let xs ← xStreams o
  pure (c.samples.1 :: (c.contigs.map (·.1) ++ (c.details.flatMap (·.frames) ++
    xs.flatMap (fun x => x.parts.filterMap partFrame))))

/-! ## Packs -/

/-- Split a pack at the separators. Result: the entries (each was followed by `0xFF`) and what is
left after the last separator (empty in a well-formed pack). -/
def splitPackGo : List Nat → List Nat → Array (List Nat) → Array (List Nat) × List Nat
  | [], cur, acc => (acc, cur.reverse)
  | b :: r, cur, acc =>
    if b = 255 then splitPackGo r [] (acc.push cur.reverse) else splitPackGo r (b :: cur) acc

def splitPack (packed : List Nat) : Array (List Nat) × List Nat := splitPackGo packed [] #[]

/-- Entry `i` of a pack. -/
def unpackEntry (packed : List Nat) (i : Nat) : Option (List Nat) := (splitPack packed).1[i]?

/-! ## Decoded groups -/

/-- How a part was stored. -/
inductive Stored where
  | raw
  | plain
  | tuple
deriving Repr, DecidableEq

def storedOf (b : Blob) : Stored :=
  if b.2 = 0 then .raw else if b.1.getLast?.getD 0 = 0 then .plain else .tuple

structure Group where
  id : Nat
  refStreams : Nat
  deltaStreams : Nat
  refParts : List Blob
  deltaParts : List Blob

def Group.empty (g : Nat) : Group := ⟨g, 0, 0, [], []⟩

def addStream (gs : Array Group) (x : XStream) : Array Group :=
  let upd (g : Group) : Group :=
    match x.kind with
    | .ref => { g with refStreams := g.refStreams + 1, refParts := x.parts }
    | .delta => { g with deltaStreams := g.deltaStreams + 1, deltaParts := x.parts }
  match gs.findIdx? (fun g => g.id == x.group) with
  | some i => gs.modify i upd
  | none => gs.push (upd (Group.empty x.group))

structure GroupD where
  id : Nat
  /-- decoded reference segment (LZ groups with a readable reference part) -/
  ref : Option (List Nat)
  /-- every pack split into its entries -/
  packs : Array (Array (List Nat))
  nRefParts : Nat
  refStored : Option Stored
  packStored : List Stored

structure Acc where
  violations : Array String := #[]

def Acc.add (a : Acc) (rule detail : String) : Acc :=
  { a with violations := a.violations.push (rule ++ ":" ++ detail) }

/-- Undo the part framing and check the metadata convention: metadata 0 ⇒ the bytes are the
content; otherwise the last byte is the marker, the rest a ZSTD frame, and the metadata is the
size of the unpacked content. -/
def unframeChecked (zd : List Nat → Option (List Nat)) (a : Acc) (what : String) (b : Blob) :
    Acc × Option (List Nat) :=
  match Ragc.SegCompress.unframePart zd b.1 b.2 with
  | none => (a.add "part-undecodable" what, none)
  | some d =>
    if b.2 ≠ 0 ∧ d.length ≠ b.2 then
      (a.add "metadata-size" s!"{what} metadata {b.2} unpacked {d.length}", some d)
    else (a, some d)

def gname (g : Nat) : String := s!"group {g}"

/-- Decode one pack part and check its shape: ends with the separator, holds `packCard` entries
unless it is the last pack of its stream (then `1 ..= packCard`); the first pack of a raw group
starts with the placeholder entry. -/
def decodePack (zd : List Nat → Option (List Nat)) (g : Nat) (nPacks : Nat)
    (st : Acc × Array (Array (List Nat))) (ib : Nat × Blob) : Acc × Array (Array (List Nat)) :=
  let (a, packs) := st
  let (i, b) := ib
  let what := s!"{gname g} pack {i}"
  let (a, od) := unframeChecked zd a what b
  match od with
  | none => (a, packs.push #[])
  | some d =>
    let (es, tail) := splitPack d
    let a := if tail.isEmpty then a else a.add "pack-no-final-separator" what
    let a :=
      if i + 1 < nPacks then
        if es.size = packCard then a else a.add "pack-cardinality" s!"{what} has {es.size} entries"
      else if 1 ≤ es.size ∧ es.size ≤ packCard then a
      else a.add "pack-cardinality" s!"{what} (last) has {es.size} entries"
    let a :=
      if g < noRawGroups ∧ i = 0 ∧ es[0]? ≠ some [placeholder] then a.add "raw-placeholder" what
      else a
    (a, packs.push es)

def decodeGroup (zd : List Nat → Option (List Nat)) (st : Acc × Array GroupD) (g : Group) :
    Acc × Array GroupD :=
  let (a, out) := st
  let a := if g.refStreams ≤ 1 ∧ g.deltaStreams ≤ 1 then a else a.add "duplicate-stream" (gname g.id)
  -- reference: exactly one part per LZ group, none for a raw group
  let a :=
    if g.id ≥ noRawGroups then
      if g.refParts.length = 1 then a
      else a.add "one-reference-part" s!"{gname g.id} has {g.refParts.length} reference parts"
    else if g.refParts.isEmpty then a
    else a.add "raw-group-with-reference" (gname g.id)
  let (a, ref, rs) :=
    match g.refParts with
    | b :: _ =>
      if g.id ≥ noRawGroups then
        let (a, r) := unframeChecked zd a s!"{gname g.id} reference" b
        (a, r, some (storedOf b))
      else (a, none, none)
    | [] => (a, none, none)
  let n := g.deltaParts.length
  let (a, packs) := (List.zipIdx g.deltaParts).foldl
    (fun st (bi : Blob × Nat) => decodePack zd g.id n st (bi.2, bi.1)) (a, #[])
  (a, out.push ⟨g.id, ref, packs, g.refParts.length, rs, g.deltaParts.map storedOf⟩)

def findGroup (gs : Array GroupD) (g : Nat) : Option GroupD := gs.find? (fun x => x.id == g)

/-- The addressing rule: which pack entry holds in-group id `i`.
LZ group (`g ≥ 16`): id 0 is the reference, id `i ≥ 1` is entry `(i-1) % 50` of pack `(i-1) / 50`.
Raw group: id `i` is entry `i % 50` of pack `i / 50` (entry 0 of pack 0 is the placeholder). -/
def entryAddress (g i : Nat) : Nat × Nat :=
  if g ≥ noRawGroups then ((i - 1) / packCard, (i - 1) % packCard) else (i / packCard, i % packCard)

/-- Decode the segment a descriptor points to (before the orientation fix). -/
def getSegment (mm : Nat) (gs : Array GroupD) (d : Ragc.Details.Seg) : Except String (List Nat) :=
  match findGroup gs d.group with
  | none => .error s!"no-such-group:{gname d.group}"
  | some G =>
    let fetch : Except String (List Nat) :=
      let (p, e) := entryAddress d.group d.inGroup
      match G.packs[p]? with
      | none => .error s!"id-without-pack:{gname d.group} id {d.inGroup} needs pack {p} of {G.packs.size}"
      | some pack =>
        match pack[e]? with
        | none => .error s!"id-without-entry:{gname d.group} id {d.inGroup} needs entry {e} of pack {p} ({pack.size} entries)"
        | some bytes => .ok bytes
    if d.group ≥ noRawGroups then
      match G.ref with
      | none => .error s!"no-reference:{gname d.group}"
      | some ref =>
        if d.inGroup = 0 then .ok ref
        else
          match fetch with
          | .error e => .error e
          | .ok bytes =>
            match Ragc.Model.LzDiff.decodeSeg mm ref bytes with
            | some s => .ok s
            | none => .error s!"lz-text-undecodable:{gname d.group} id {d.inGroup}"
    else
      if d.inGroup = 0 then .error s!"raw-id-0:{gname d.group} (id 0 is the placeholder)"
      else fetch

/-! ## The decoded archive -/

structure DContig where
  name : List Nat
  descs : List Ragc.Details.Seg
  bases : List Nat

structure DSample where
  name : List Nat
  contigs : List DContig

structure Decoded where
  k : Nat
  mm : Nat
  segSize : Nat
  samples : List DSample
  violations : List String
  stats : List (String × Nat)

def le32 (bs : List Nat) : Nat := leVal (bs.take 4)

/-- one descriptor of a contig: fetch, check the lengths, undo the orientation flag -/
def contigStep (k mm : Nat) (gds : Array GroupD) (whatC : String)
    (st : Acc × Array Ragc.Range.Seg) (di : Ragc.Details.Seg × Nat) : Acc × Array Ragc.Range.Seg :=
  let (a, out) := st
  let (d, i) := di
  match getSegment mm gds d with
  | .error e => (a.add "addressing" s!"{e} ({whatC} segment {i})", out.push ⟨d.rawLen, []⟩)
  | .ok s =>
    let a := if s.length = d.rawLen then a
      else a.add "raw-length" s!"{whatC} segment {i}: descriptor {d.rawLen} decoded {s.length}"
    let a := if i > 0 ∧ s.length < k then
        a.add "segment-shorter-than-k" s!"{whatC} segment {i}: {s.length} < {k}" else a
    let s := if d.rev then Ragc.Range.reverseComplementSegment s else s
    (a, out.push ⟨d.rawLen, s⟩)

def decodeContig (k mm : Nat) (gds : Array GroupD) (sample : List Nat) (a : Acc)
    (nd : List Nat × List Ragc.Details.Seg) : Acc × DContig :=
  let (name, descs) := nd
  let whatC := s!"{showName sample} {showName name}"
  let (a, segs) := (List.zipIdx descs).foldl (contigStep k mm gds whatC) (a, #[])
  match Ragc.Range.reconstruct k segs.toList with
  | some bases => (a, ⟨name, descs, bases⟩)
  | none => (a, ⟨name, descs, []⟩)

/-- Read one batch of the catalogue: names of `≤ 50` samples' contigs and their descriptors. -/
def decodeBatch (zd : List Nat → Option (List Nat)) (k segSize : Nat) (a : Acc) (idx : Nat)
    (avail : Nat) (names : Blob) (dp : DetailsPart) :
    Except String (Acc × List (List (List Nat × List Ragc.Details.Seg))) := do
  let what := s!"batch {idx}"
  let rawNames ← match zd names.1 with
    | some d => pure d
    | none => throw s!"collection-contigs {what}: not a ZSTD frame"
  let a := if rawNames.length = names.2 then a
    else a.add "collection-metadata" s!"collection-contigs {what}: metadata {names.2} raw size {rawNames.length}"
  let nss ← match Ragc.Names.decodeNames avail rawNames with
    | .ok n => pure n
    | _ => throw s!"collection-contigs {what}: undecodable"
  let streams ← dp.frames.mapM fun f => match zd f with
    | some d => pure d
    | none => throw s!"collection-details {what}: not a ZSTD frame"
  let a := if streams.map List.length = dp.rawSizes then a
    else a.add "collection-metadata" s!"collection-details {what}: raw sizes differ from the size table"
  let a := if dp.metadata = 0 then a
    else a.add "collection-metadata" s!"collection-details {what}: metadata {dp.metadata} (expected 0)"
  let batch ← match Ragc.Details.decodeDetailsL segSize k (nss.map List.length) streams with
    | .ok b => pure b
    | _ => throw s!"collection-details {what}: undecodable"
  if batch.map List.length ≠ nss.map List.length then
    throw s!"collection {what}: names and descriptors have different shapes"
  pure (a, List.zipWith (fun ns ds => List.zip ns ds) nss batch)

def parseTypeInfo (d : List Nat) : List (List Nat × List Nat) :=
  let rec pairs : List (List Nat) → List (List Nat × List Nat)
    | a :: b :: r => (a, b) :: pairs r
    | _ => []
  let rec fields (fuel : Nat) (d : List Nat) : List (List Nat) :=
    match fuel with
    | 0 => []
    | fuel + 1 =>
      match Ragc.CollVarint.splitNul d with
      | some (s, t) => s :: fields fuel t
      | none => []
  pairs (fields d.length d)

def natOfDec (s : List Nat) : Option Nat :=
  if s.isEmpty then none
  else s.foldl (fun acc c => acc.bind fun v => if 48 ≤ c ∧ c ≤ 57 then some (v * 10 + (c - 48)) else none) (some 0)

def countP {α : Type} (l : List α) (p : α → Bool) : Nat := (l.filter p).length

/-! ### the stages of `decodeArchive` -/

def fixedNamesChecked : List String :=
  ["file_type_info", "params", "collection-samples", "collection-contigs", "collection-details"]

/-- fixed streams occur once -/
def checkFixedStreams (o : Opened) (a : Acc) : Acc :=
  fixedNamesChecked.foldl
    (fun (a : Acc) n => if countP o.dir (fun st => st.name == str n) = 1 then a else a.add "fixed-stream" n) a

/-- file_type_info: version 3.0, metadata = number of key/value pairs -/
def checkTypeInfo (o : Opened) (a : Acc) : Except String Acc := do
  match o.dir.find? (fun st => st.name == str "file_type_info") with
  | none => pure a
  | some st =>
    let ps ← readParts o.file st
    match ps with
    | [b] =>
      let kv := parseTypeInfo b.1
      let get (key : String) := (kv.find? (fun p => p.1 == str key)).bind (fun p => natOfDec p.2)
      let a := if get "file_version_major" = some versionMajor ∧ get "file_version_minor" = some versionMinor
        then a else a.add "file-version" "file_type_info does not say 3.0"
      pure (if b.2 = kv.length then a else a.add "file-type-info-metadata" s!"{b.2} for {kv.length} pairs")
    | _ => pure (a.add "file-version" "file_type_info has not exactly one part")

/-- params: one part, metadata 0, four little-endian u32: `(k, min_match, segment_size)` -/
def readParams (o : Opened) (a : Acc) : Except String (Acc × Nat × Nat × Nat) := do
  let pst ← findFixed o "params"
  let pps ← readParts o.file pst
  let pb ← match pps with
    | [b] => pure b
    | _ => throw "params: expected exactly one part"
  if pb.1.length < 16 then throw "params: shorter than 16 bytes"
  let k := le32 pb.1
  let mm := le32 (pb.1.drop 4)
  let card := le32 (pb.1.drop 8)
  let segSize := le32 (pb.1.drop 12)
  let a := if pb.2 = 0 then a else a.add "params-metadata" s!"{pb.2}"
  let a := if card = packCard then a else a.add "params-pack-cardinality" s!"{card}"
  pure (a, k, mm, segSize)

abbrev ContigTable := List (List Nat × List Ragc.Details.Seg)

/-- one step of the batch loop: `(acc, tables so far, samples loaded, batch index)` -/
def batchStep (zd : List Nat → Option (List Nat)) (k segSize nS nB : Nat)
    (st : Acc × Array ContigTable × Nat × Nat) (nd : Blob × DetailsPart) :
    Except String (Acc × Array ContigTable × Nat × Nat) := do
  let (a, out, loaded, idx) := st
  let (a, batch) ← decodeBatch zd k segSize a idx (nS - loaded) nd.1 nd.2
  let a := if batch.length = packCard ∨ (idx + 1 = nB ∧ loaded + batch.length = nS) then a
    else a.add "collection-batches" s!"batch {idx} has {batch.length} samples"
  pure (a, out ++ batch.toArray, loaded + batch.length, idx + 1)

/-- the catalogue: sample names, and per sample the table contig name ↦ descriptors;
also the number of batches -/
def decodeCatalogue (zd : List Nat → Option (List Nat)) (o : Opened) (k segSize : Nat) (a : Acc) :
    Except String (Acc × List (List Nat) × Array ContigTable × Nat) := do
  let c ← readCollection o
  let rawSamples ← match zd c.samples.1 with
    | some d => pure d
    | none => throw "collection-samples: not a ZSTD frame"
  let a := if rawSamples.length = c.samples.2 then a
    else a.add "collection-metadata" s!"collection-samples: metadata {c.samples.2} raw size {rawSamples.length}"
  let sampleNames ← match Ragc.Names.decodeSampleNames rawSamples with
    | some n => pure n
    | none => throw "collection-samples: undecodable"
  let nS := sampleNames.length
  let nB := (nS + packCard - 1) / packCard
  let a := if c.contigs.length = nB ∧ c.details.length = nB then a
    else a.add "collection-batches" s!"{nS} samples need {nB} batches, found {c.contigs.length} name parts and {c.details.length} descriptor parts"
  let (a, tables, _, _) ← (List.zip c.contigs c.details).foldlM (batchStep zd k segSize nS nB) (a, #[], 0, 0)
  if tables.size ≠ nS then
    throw s!"collection: {nS} sample names but contig tables for {tables.size} samples"
  pure (a, sampleNames, tables, c.contigs.length)

/-- segment streams: names canonical, one `r` and one `d` stream per group, every group decoded -/
def decodeGroups (zd : List Nat → Option (List Nat)) (o : Opened) (a : Acc) :
    Except String (Acc × Array GroupD) := do
  let xs ← xStreams o
  let a := xs.foldl (fun (a : Acc) x =>
    if x.name = xName x.group x.kind then a else a.add "stream-name" (showName x.name)) a
  let groups := xs.foldl addStream #[]
  pure (groups.foldl (decodeGroup zd) (a, #[]))

/-- every stream that holds data belongs to a group some descriptor uses -/
def checkUnused (gds : Array GroupD) (usedIds : List Nat) (a : Acc) : Acc :=
  gds.foldl (fun (a : Acc) G =>
    if (G.nRefParts = 0 ∧ G.packs.size = 0) ∨ usedIds.contains G.id then a
    else a.add "unused-group" (gname G.id)) a

def sampleStep (k mm : Nat) (gds : Array GroupD) (sample : List Nat) (st : Acc × Array DContig)
    (nd : List Nat × List Ragc.Details.Seg) : Acc × Array DContig :=
  let (a, c) := decodeContig k mm gds sample st.1 nd
  (a, st.2.push c)

def decodeSample (k mm : Nat) (gds : Array GroupD) (st : Acc × Array DSample)
    (nt : List Nat × ContigTable) : Acc × Array DSample :=
  let (a, out) := st
  let (a, cs) := nt.2.foldl (sampleStep k mm gds nt.1) (a, #[])
  (a, out.push ⟨nt.1, cs.toList⟩)

def decodeSamples (k mm : Nat) (gds : Array GroupD) (sampleNames : List (List Nat))
    (tables : Array ContigTable) (a : Acc) : Acc × Array DSample :=
  (List.zip sampleNames tables.toList).foldl (decodeSample k mm gds) (a, #[])

/-- branch statistics -/
def statsOf (o : Opened) (gds : Array GroupD) (tables : Array ContigTable) (allDescs : List Ragc.Details.Seg)
    (usedIds : List Nat) (nBatches nS : Nat) : List (String × Nat) :=
  let lz := gds.toList.filter (·.id ≥ noRawGroups)
  let raw := gds.toList.filter (fun G => G.id < noRawGroups ∧ G.packs.size > 0)
  let entries (G : GroupD) : Nat := G.packs.foldl (fun n p => n + p.size) 0
  let refKinds := lz.filterMap (·.refStored)
  let packKinds := gds.toList.flatMap (·.packStored)
  let id0 := countP allDescs (fun d => d.group ≥ noRawGroups ∧ d.inGroup = 0)
  let lzUsed := countP usedIds (· ≥ noRawGroups)
  let deltaDescs := countP allDescs (fun d => d.inGroup ≠ 0)
  let totalEntries := lz.foldl (fun n G => n + entries G) 0 + raw.foldl (fun n G => n + (entries G - 1)) 0
  [("lz_groups", lz.length), ("raw_groups", raw.length),
   ("groups_multi_pack", countP gds.toList (·.packs.size ≥ 2)),
   ("raw_group_ge50_ids", countP raw (fun G => entries G > packCard)),
   ("empty_deltas", id0 - lzUsed), ("id_reuse", deltaDescs - totalEntries),
   ("revcomp_segments", countP allDescs (·.rev)),
   ("refs_raw", countP refKinds (· == .raw)), ("refs_plain", countP refKinds (· == .plain)),
   ("refs_tuple", countP refKinds (· == .tuple)),
   ("packs_raw", countP packKinds (· == .raw)), ("packs_compressed", countP packKinds (· != .raw)),
   ("contigs_ge3_segments", countP (tables.toList.flatMap id) (fun c => c.2.length ≥ 3)),
   ("contigs", (tables.toList.flatMap id).length), ("segments", allDescs.length),
   ("batches", nBatches), ("samples", nS), ("streams", o.dir.length)]

/-- **Entry point 2**: decode the whole archive with the supplied ZSTD decompression. -/
def decodeArchive (bs : List Nat) (zd : List Nat → Option (List Nat)) : Except String Decoded := do
  let o ← openArchive bs
  let a := checkFixedStreams o {}
  let a ← checkTypeInfo o a
  let (a, k, mm, segSize) ← readParams o a
  let (a, sampleNames, tables, nBatches) ← decodeCatalogue zd o k segSize a
  let (a, gds) ← decodeGroups zd o a
  let allDescs := tables.toList.flatMap fun t => t.flatMap (·.2)
  let usedIds := (allDescs.map (·.group)).eraseDups
  let a := checkUnused gds usedIds a
  let (a, samples) := decodeSamples k mm gds sampleNames tables a
  pure ⟨k, mm, segSize, samples.toList, a.violations.toList,
    statsOf o gds tables allDescs usedIds nBatches sampleNames.length⟩

end Ragc.Agc3
