import RagcModel.Model.Kmer
/-!
Model of ragc-core/src/segment.rs: `split_at_splitters_with_size` (lines 82-365) and
`split_at_splitters` (lines 371-474).

The two Rust functions are the same loop except for two details, selected here by the flag
`withSize`:
* `split_at_splitters_with_size` calls `kmer.reset()` after every split (line 214) and reports the
  front orientation flag as `false` whenever `front_kmer == MISSING_KMER` (lines 156-163, 242-253);
* `split_at_splitters` keeps the k-mer window across a split and copies `front_kmer_is_dir`.
The `_min_segment_size` argument of the first is unused by the Rust (it is not even read).

The k-mer window is a parameter (`Tracker`): the loop only ever calls `reset`, `insert`, `is_full`,
`data`, `is_dir_oriented`.  `kmerTracker` is the instance the Rust uses (`Kmer` in canonical mode,
Model/Kmer.lean).  The splitter set is a predicate `UInt64 → Bool` (`splitters.contains`).

Slices `contig[a..b]` are `slice?`, which is `none` exactly where the Rust slice would panic
(`a > b` or `b > len`); `Lemmas/Segment.lean` proves that this never happens.
-/
namespace Ragc.Segment

/-- `MISSING_KMER = u64::MAX` (segment.rs line 10). -/
def MISSING_KMER : UInt64 := 0xFFFFFFFFFFFFFFFF

/-- `struct Segment` (segment.rs lines 13-25). -/
structure Segment where
  data : List UInt8
  frontKmer : UInt64
  backKmer : UInt64
  frontKmerIsDir : Bool
  backKmerIsDir : Bool
deriving Repr, DecidableEq

/-- The operations of `Kmer` that the segmenter uses. -/
structure Tracker (σ : Type) where
  reset : σ → σ
  insert : σ → UInt64 → σ
  isFull : σ → Bool
  data : σ → UInt64
  isDirOriented : σ → Bool

/-- `Kmer` in `KmerMode::Canonical` (Model/Kmer.lean). -/
def kmerTracker : Tracker Ragc.Kmer.Kmer where
  reset := Ragc.Kmer.reset
  insert := Ragc.Kmer.insert
  isFull := Ragc.Kmer.isFull
  data := Ragc.Kmer.data
  isDirOriented := Ragc.Kmer.isDirOriented

/-- The window state after the segmenter-style scan of a run of symbols without any split:
    `reset` at every code `> 3`, `insert(base as u64)` otherwise (lines 118-123). -/
def Tracker.feed (T : Tracker σ) (st : σ) : List UInt8 → σ
  | [] => st
  | b :: bs => if b > 3 then T.feed (T.reset st) bs else T.feed (T.insert st b.toUInt64) bs

/-- `contig[a..b].to_vec()`; `none` where the Rust slice indexing panics. -/
def slice? (c : List UInt8) (a b : Nat) : Option (List UInt8) :=
  if a ≤ b ∧ b ≤ c.length then some ((c.drop a).take (b - a)) else none

/-- The orientation flag stored for the front k-mer: the `if front_kmer == MISSING_KMER` arms of
    lines 156-163 and 242-253 (`with_size` only); plain `front_kmer_is_dir` in `split_at_splitters`. -/
def frontDirOut (withSize : Bool) (front : UInt64) (frontDir : Bool) : Bool :=
  if withSize && front == MISSING_KMER then false else frontDir

/-- Lines 237-297 (resp. 432-455): the final segment `contig[segment_start..]`, pushed when
    `segment_start < contig.len()` and the data is non-empty; back k-mer is always MISSING. -/
def finalSegments (withSize : Bool) (contig : List UInt8) (segStart : Nat) (front : UInt64)
    (frontDir : Bool) : List Segment :=
  if segStart < contig.length then
    let segData := contig.drop segStart
    if segData.isEmpty then []
    else [{ data := segData, frontKmer := front, backKmer := MISSING_KMER,
            frontKmerIsDir := frontDirOut withSize front frontDir, backKmerIsDir := false }]
  else []

/-- The `for (pos, &base) in contig.iter().enumerate()` loop (lines 118-218, resp. 390-429)
    followed by the final-segment block.  Arguments after `contig`: the symbols not yet visited,
    `pos`, the k-mer window, `segment_start`, `front_kmer`, `front_kmer_is_dir`.  The result is the
    list of segments pushed from here on, in push order. -/
def loop (T : Tracker σ) (isSplitter : UInt64 → Bool) (withSize : Bool) (k : Nat)
    (contig : List UInt8) : List UInt8 → Nat → σ → Nat → UInt64 → Bool → Option (List Segment)
  | [], _, _, segStart, front, frontDir =>
    some (finalSegments withSize contig segStart front frontDir)
  | b :: rest, pos, km, segStart, front, frontDir =>
    if b > 3 then
      loop T isSplitter withSize k contig rest (pos + 1) (T.reset km) segStart front frontDir
    else
      let km' := T.insert km b.toUInt64
      if T.isFull km' then
        let v := T.data km'
        let d := T.isDirOriented km'
        if isSplitter v then
          let segEnd := pos + 1
          match slice? contig segStart segEnd with
          | none => none
          | some segData =>
            let pushed : List Segment :=
              if segData.isEmpty then []
              else [{ data := segData, frontKmer := front, backKmer := v,
                      frontKmerIsDir := frontDirOut withSize front frontDir, backKmerIsDir := d }]
            -- `(pos + 1).saturating_sub(k)` is truncated subtraction on `Nat`
            match loop T isSplitter withSize k contig rest (pos + 1)
                    (if withSize then T.reset km' else km') (segEnd - k) v d with
            | none => none
            | some more => some (pushed ++ more)
        else loop T isSplitter withSize k contig rest (pos + 1) km' segStart front frontDir
      else loop T isSplitter withSize k contig rest (pos + 1) km' segStart front frontDir

/-- The single segment returned for a short contig and by the `segments.is_empty()` fallback. -/
def wholeSegment (contig : List UInt8) : Segment :=
  { data := contig, frontKmer := MISSING_KMER, backKmer := MISSING_KMER,
    frontKmerIsDir := false, backKmerIsDir := false }

/-- Both Rust functions over an arbitrary window tracker started in state `init`:
    early return for `contig.len() < k`, the loop, the `segments.is_empty()` fallback. -/
def splitGeneric (T : Tracker σ) (init : σ) (isSplitter : UInt64 → Bool) (withSize : Bool)
    (k : Nat) (contig : List UInt8) : Option (List Segment) :=
  if contig.length < k then some [wholeSegment contig]
  else
    match loop T isSplitter withSize k contig contig 0 init 0 MISSING_KMER false with
    | none => none
    | some segs => some (if segs.isEmpty then [wholeSegment contig] else segs)

/-- `Kmer::new(k as u32, Canonical)` computes `64 - 2*k` and `!0u64 << shift`: with overflow checks
    it panics for `k = 0` (shift by 64) and `k > 32` (subtraction); those `k` are outside the
    modelled domain (`none`).  Short contigs return before the k-mer is created. -/
def splitConcrete (withSize : Bool) (contig : List UInt8) (isSplitter : UInt64 → Bool) (k : Nat) :
    Option (List Segment) :=
  if contig.length < k then some [wholeSegment contig]
  else if k = 0 ∨ 32 < k then none
  else splitGeneric kmerTracker (Ragc.Kmer.new k) isSplitter withSize k contig

/-- `split_at_splitters_with_size(contig, splitters, k, _min_segment_size)`. -/
def splitAtSplittersWithSize (contig : List UInt8) (isSplitter : UInt64 → Bool) (k : Nat)
    (_minSegmentSize : Nat) : Option (List Segment) :=
  splitConcrete true contig isSplitter k

/-- `split_at_splitters(contig, splitters, k)`. -/
def splitAtSplitters (contig : List UInt8) (isSplitter : UInt64 → Bool) (k : Nat) :
    Option (List Segment) :=
  splitConcrete false contig isSplitter k

end Ragc.Segment
