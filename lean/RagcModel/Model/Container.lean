import RagcModel.Model.Varint
/-!
Model of `ragc-common/src/archive.rs` (the stream/part container).

* Writer: a state machine over `State` (`registerStream`, `addPart`, `addPartBuffered`,
  `flushBuffers`, `setRawSize`) and `close : State → List Nat`, the exact bytes of the file.
* Reader: `openBytes env bs : Outcome Reader` (`Archive::open` in input mode = `deserialize`),
  `getPartById`, `getPart` (sequential cursor), `getNumParts`, `getStreamNames`, `getStreamId`.
  Outcomes make unchecked arithmetic (`panic site`) and garbage-sized buffers (`alloc n`) explicit.
* `Spec`: the abstract commit log the container is supposed to implement.
* `openBytesFixed`: the reader with the range checks a repaired implementation performs.

Bytes are `Nat`; names are byte lists (the writer emits `String::as_bytes`, the reader rebuilds the
name with `byte as char`, i.e. Latin-1: for ASCII names — the property's domain — both are the
same string; the model compares byte lists). `usize = u64` (64-bit target).
Not modelled: `packed_size` / `packed_data_size` (never serialised), the 4 MiB `BufWriter`
(`written` is the byte sequence handed to it; I/O failures belong to C15).
-/
namespace Ragc.Container
open Ragc.Varint

/-- archive.rs 13–16 `Part`. -/
structure Part where
  off : Nat
  size : Nat
deriving Repr, DecidableEq

/-- archive.rs 26–33 `Stream` (`cur_id` lives in `Reader.cur`; packed sizes not modelled). -/
structure Stream where
  name : List Nat
  rawSize : Nat
  parts : List Part
deriving Repr, DecidableEq

/-- `(data, metadata)`. -/
abbrev Blob := List Nat × Nat

/-- Writer side of archive.rs 49–61 `Archive`. `buffer` is `write_buffer :
BTreeMap<usize, Vec<(Vec<u8>, u64)>>` in iteration order: sorted by stream id, entries of one id
in insertion order (kept flat; `insertStable` is `entry(id).or_default().push(..)`). The
`stream_map` is the inverse of `streams[i].name` (only new names are ever inserted) and is
modelled by `findStream`. -/
structure State where
  written : List Nat
  fOffset : Nat
  streams : List Stream
  buffer : List (Nat × Blob)

def State.init : State := ⟨[], 0, [], []⟩

def findStream (ss : List Stream) (name : List Nat) : Option Nat :=
  ss.findIdx? (fun st => st.name == name)

/-- archive.rs 126–136 `register_stream`. -/
def registerStream (s : State) (name : List Nat) : State × Nat :=
  match findStream s.streams name with
  | some id => (s, id)
  | none => ({ s with streams := s.streams ++ [⟨name, 0, []⟩] }, s.streams.length)

/-- archive.rs 149–183 `add_part`; `none` = `Err("Invalid stream ID")`, nothing written. -/
def addPart (s : State) (sid : Nat) (data : List Nat) (md : Nat) : Option State :=
  if sid < s.streams.length then
    some { s with
      written := s.written ++ (writeVarint md ++ data)
      fOffset := s.fOffset + (writeVarint md).length + data.length
      streams := s.streams.modify sid
        (fun st => { st with parts := st.parts ++ [⟨s.fOffset, data.length⟩] }) }
  else none

/-- Position of a new entry in BTreeMap iteration order: after every entry with key ≤ its key. -/
def insertStable (x : Nat × Blob) : List (Nat × Blob) → List (Nat × Blob)
  | [] => [x]
  | y :: l => if x.1 < y.1 then x :: y :: l else y :: insertStable x l

/-- archive.rs 188–193 `add_part_buffered` (no stream-id check). -/
def addPartBuffered (s : State) (sid : Nat) (data : List Nat) (md : Nat) : State :=
  { s with buffer := insertStable (sid, data, md) s.buffer }

/-- archive.rs 201–205: the two nested `for` loops over the taken buffer; stops at the first
`add_part` error (`?`), the rest of the taken buffer is dropped. -/
def flushLoop (s : State) : List (Nat × Blob) → State × Bool
  | [] => (s, true)
  | (sid, d, m) :: rest =>
    match addPart s sid d m with
    | none => (s, false)
    | some s' => flushLoop s' rest

/-- archive.rs 197–207 `flush_buffers` (`std::mem::take` empties the buffer first). -/
def flushBuffers (s : State) : State × Bool :=
  flushLoop { s with buffer := [] } s.buffer

/-- archive.rs 210–214 `set_raw_size`. -/
def setRawSize (s : State) (sid : Nat) (v : Nat) : State :=
  if sid < s.streams.length then
    { s with streams := s.streams.modify sid (fun st => { st with rawSize := v }) }
  else s

/-- archive.rs 336–351: one stream's directory entry. -/
def serializeStream (st : Stream) : List Nat :=
  st.name ++ 0 :: (writeVarint st.parts.length ++ (writeVarint st.rawSize ++
    st.parts.flatMap (fun p => writeVarint p.off ++ writeVarint p.size)))

/-- archive.rs 330–355: the footer (directory). -/
def serializeFooter (ss : List Stream) : List Nat :=
  writeVarint ss.length ++ ss.flatMap serializeStream

/-- archive.rs 111–123 `close` + 324–366 `serialize`: everything written so far, the footer, and
the footer length as 8 little-endian bytes. Buffered parts that were not flushed are *not*
written. -/
def close (s : State) : List Nat :=
  s.written ++ (serializeFooter s.streams ++ le64 (serializeFooter s.streams).length)

/-- The five writer operations. -/
inductive Op where
  | register (name : List Nat)
  | add (sid : Nat) (data : List Nat) (md : Nat)
  | addBuf (sid : Nat) (data : List Nat) (md : Nat)
  | flush
  | setRaw (sid : Nat) (v : Nat)
deriving Repr

/-- The domain of the operations: names without NUL byte (Rust `&str` names are stored
NUL-terminated), metadata and raw sizes are `u64`. Stream ids and data are unrestricted. -/
def OpOK : Op → Prop
  | .register name => ∀ b ∈ name, b ≠ 0
  | .add _ _ m => m < 2 ^ 64
  | .addBuf _ _ m => m < 2 ^ 64
  | .flush => True
  | .setRaw _ v => v < 2 ^ 64

/-- What the caller observes from one operation. -/
inductive OpResult where
  | id (n : Nat)
  | done
  | failed
deriving Repr, DecidableEq

def step (s : State) : Op → State × OpResult
  | .register name => let r := registerStream s name; (r.1, .id r.2)
  | .add sid d m =>
    match addPart s sid d m with
    | some s' => (s', .done)
    | none => (s, .failed)
  | .addBuf sid d m => (addPartBuffered s sid d m, .done)
  | .flush => let r := flushBuffers s; (r.1, if r.2 then .done else .failed)
  | .setRaw sid v => (setRawSize s sid v, .done)

def runFrom (s : State) (ops : List Op) : State := ops.foldl (fun s op => (step s op).1) s

def run (ops : List Op) : State := runFrom State.init ops

/-- The observable results of a history, in order. -/
def runResults : State → List Op → List OpResult
  | _, [] => []
  | s, op :: ops => (step s op).2 :: runResults (step s op).1 ops

/-! ## Abstract specification: the commit log -/
namespace Spec

/-- `names[i]` is the stream with id `i`; `parts[i]` its committed parts in commit order;
`pending` the buffered parts in insertion order. -/
structure Log where
  names : List (List Nat)
  parts : List (List Blob)
  pending : List (Nat × Blob)

def Log.init : Log := ⟨[], [], []⟩

/-- Commit order of a flush: by stream id, then insertion order (a stable sort by stream id;
characterised by `Props.C13.commit_order_sorted` / `commit_order_stable`). -/
def ordered (p : List (Nat × Blob)) : List (Nat × Blob) :=
  p.foldl (fun acc x => insertStable x acc) []

def commit (a : Log) (sid : Nat) (b : Blob) : Option Log :=
  if sid < a.names.length then some { a with parts := a.parts.modify sid (· ++ [b]) } else none

/-- Parts are committed in order; a part for a stream id that does not exist makes the flush
fail there and the remaining buffered parts are discarded (what the Rust does). -/
def commitLoop (a : Log) : List (Nat × Blob) → Log
  | [] => a
  | (sid, b) :: rest =>
    match commit a sid b with
    | none => a
    | some a' => commitLoop a' rest

def step (a : Log) : Op → Log
  | .register name =>
    if name ∈ a.names then a else { a with names := a.names ++ [name], parts := a.parts ++ [[]] }
  | .add sid d m => (commit a sid (d, m)).getD a
  | .addBuf sid d m => { a with pending := a.pending ++ [(sid, d, m)] }
  | .flush => commitLoop { a with pending := [] } (ordered a.pending)
  | .setRaw _ _ => a

def specFrom (a : Log) (ops : List Op) : Log := ops.foldl step a

def spec (ops : List Op) : Log := specFrom Log.init ops

/-- What a committed part reads back as: empty data loses its metadata (archive.rs 301–303). -/
def readBack (b : Blob) : Blob := if b.1.isEmpty then ([], 0) else b

end Spec

/-! ## Reader -/

/-- Result of running reader code on arbitrary bytes. `panic site`: an arithmetic overflow check
(dev/test profile) or an `expect` fired at `site`. `alloc n`: the code asked for a buffer of `n`
bytes with `n` larger than the whole file (for `n > isize::MAX` Rust's `Vec` panics with
"capacity overflow"; otherwise the allocator is called with `n` and aborts the process on
failure). Every allocation site of the reader is modelled, so `ok`/`err` outcomes imply that all
buffers were at most as large as the file. -/
inductive Outcome (α : Type) where
  | ok (a : α)
  | err
  | panic (site : String)
  | alloc (n : Nat)
deriving Repr, DecidableEq

def Outcome.bind {α β : Type} : Outcome α → (α → Outcome β) → Outcome β
  | .ok a, f => f a
  | .err, _ => .err
  | .panic s, _ => .panic s
  | .alloc n, _ => .alloc n

instance : Monad Outcome where
  pure := .ok
  bind := Outcome.bind

/-- Build profile and file system.
`checked = true`: overflow checks on (dev/test profile), `false`: release (wrapping).
`seekMax`: the largest offset `lseek` accepts (`≤ 2^63 - 1`; e.g. `2^44 - 4096` on ext4 with 4 KiB
blocks, `2^63 - 1` on tmpfs/xfs); a `u64` offset is cast to `i64`, so anything above fails with
`EINVAL`. -/
structure Env where
  checked : Bool
  seekMax : Nat
deriving Repr

def Env.dev : Env := ⟨true, 2 ^ 63 - 1⟩
def Env.release : Env := ⟨false, 2 ^ 63 - 1⟩

/-- `read_varint` as the code stands: EOF is an error; with overflow checks the byte count
`no_bytes + 1` (u8) panics for a length byte of 255. -/
def readVarintO (env : Env) (bs : List Nat) : Outcome (Nat × List Nat) :=
  match readVarint bs with
  | none => .err
  | some x => if env.checked && countOverflows bs then .panic "varint.rs:58" else .ok x

/-- `read_varint` with the count computed in `usize` (repaired): never panics. -/
def readVarintFixed (bs : List Nat) : Outcome (Nat × List Nat) :=
  match readVarint bs with
  | none => .err
  | some x => .ok x

/-- archive.rs 399–407: NUL-terminated name; `none` = EOF before the terminator. -/
def readCStr : List Nat → Option (List Nat × List Nat)
  | [] => none
  | b :: r =>
    if b = 0 then some ([], r)
    else match readCStr r with
      | none => none
      | some (s, r') => some (b :: s, r')

abbrev VarintReader := List Nat → Outcome (Nat × List Nat)

/-- archive.rs 420–424 `for _ in 0..num_parts` (each iteration consumes ≥ 2 bytes or fails). -/
def readParts (rv : VarintReader) : Nat → List Nat → Outcome (List Part × List Nat)
  | 0, bs => .ok ([], bs)
  | n + 1, bs =>
    (rv bs).bind fun x => (rv x.2).bind fun y =>
      (readParts rv n y.2).bind fun z => .ok (⟨x.1, y.1⟩ :: z.1, z.2)

/-- archive.rs 397–431 `for i in 0..num_streams` (each iteration consumes ≥ 3 bytes or fails;
nothing is pre-allocated from the counts). -/
def readStreams (rv : VarintReader) : Nat → List Nat → Outcome (List Stream × List Nat)
  | 0, bs => .ok ([], bs)
  | n + 1, bs =>
    match readCStr bs with
    | none => .err
    | some (name, r0) =>
      (rv r0).bind fun np => (rv np.2).bind fun raw =>
        (readParts rv np.1 raw.2).bind fun ps =>
          (readStreams rv n ps.2).bind fun ss => .ok (⟨name, raw.1, ps.1⟩ :: ss.1, ss.2)

/-- archive.rs 389–431: parse the footer buffer (trailing bytes are ignored). -/
def parseFooter (rv : VarintReader) (footer : List Nat) : Outcome (List Stream) :=
  (rv footer).bind fun n => (readStreams rv n.1 n.2).bind fun ss => .ok ss.1

/-- Reader side of `Archive`: the file, the directory, and `cur_id` per stream. -/
structure Reader where
  file : List Nat
  dir : List Stream
  cur : List Nat
deriving Repr, DecidableEq

/-- archive.rs 93–108 `open` (input mode) = 369–440 `deserialize`, on the file contents `bs`.
Line 376 `seek(End(-8))` fails for files shorter than 8 bytes. Line 382 computes
`file_size - 8 - footer_size` unchecked: panic with overflow checks, wrap-around without; the
wrapped offset then goes through `lseek` (error above `seekMax`), line 385 allocates
`footer_size` bytes and 386 `read_exact` fails at EOF. -/
def openBytes (env : Env) (bs : List Nat) : Outcome Reader :=
  let fileSize := bs.length
  if fileSize < 8 then .err else
  let footerSize := leVal (bs.drop (fileSize - 8))
  if env.checked && decide (fileSize - 8 < footerSize) then .panic "archive.rs:382" else
  let pos := (fileSize - 8 + 2 ^ 64 - footerSize) % 2 ^ 64
  if env.seekMax < pos then .err else
  if fileSize < footerSize then .alloc footerSize else
  if fileSize < pos + footerSize then .err else
  (parseFooter (readVarintO env) ((bs.drop pos).take footerSize)).bind fun dir =>
    .ok ⟨bs, dir, List.replicate dir.length 0⟩

/-- archive.rs 300–321 `read_part_data`. -/
def readPartData (rv : VarintReader) (seekMax : Nat) (file : List Nat) (p : Part) : Outcome Blob :=
  if p.size = 0 then .ok ([], 0) else
  if seekMax < p.off then .err else
  (rv (file.drop p.off)).bind fun x =>
    if file.length < p.size then .alloc p.size else
    if x.2.length < p.size then .err else .ok (x.2.take p.size, x.1)

/-- archive.rs 284–297 `get_part_by_id`. -/
def getPartByIdWith (rv : VarintReader) (seekMax : Nat) (r : Reader) (sid pid : Nat) : Outcome Blob :=
  match r.dir[sid]? with
  | none => .err
  | some st =>
    match st.parts[pid]? with
    | none => .err
    | some p => readPartData rv seekMax r.file p

def getPartById (env : Env) (r : Reader) (sid pid : Nat) : Outcome Blob :=
  getPartByIdWith (readVarintO env) env.seekMax r sid pid

/-- archive.rs 267–281 `get_part`: the cursor advances even if the read then fails. -/
def getPartWith (rv : VarintReader) (seekMax : Nat) (r : Reader) (sid : Nat) :
    Reader × Outcome (Option Blob) :=
  match r.dir[sid]? with
  | none => (r, .err)
  | some st =>
    let c := r.cur.getD sid 0
    match st.parts[c]? with
    | none => (r, .ok none)
    | some p =>
      ({ r with cur := r.cur.set sid (c + 1) },
        (readPartData rv seekMax r.file p).bind fun b => .ok (some b))

def getPart (env : Env) (r : Reader) (sid : Nat) : Reader × Outcome (Option Blob) :=
  getPartWith (readVarintO env) env.seekMax r sid

/-- archive.rs 258–264 `get_num_parts`. -/
def getNumParts (r : Reader) (sid : Nat) : Nat :=
  match r.dir[sid]? with
  | none => 0
  | some st => st.parts.length

/-- archive.rs 144–146 `get_stream_names`. -/
def getStreamNames (r : Reader) : List (List Nat) := r.dir.map (·.name)

/-- archive.rs 430 inside the loop of `deserialize`: `stream_map.insert(name, i)` for `i = 0, 1, …`;
a later stream with the same name overwrites the entry. -/
def lastIdx (name : List Nat) : List Stream → Nat → Option Nat → Option Nat
  | [], _, acc => acc
  | st :: ss, i, acc => lastIdx name ss (i + 1) (if st.name == name then some i else acc)

/-- archive.rs 139–141 `get_stream_id` on a reader. -/
def getStreamId (r : Reader) (name : List Nat) : Option Nat := lastIdx name r.dir 0 none

/-- archive.rs 217–223 `get_raw_size`. -/
def getRawSize (r : Reader) (sid : Nat) : Nat :=
  match r.dir[sid]? with
  | none => 0
  | some st => st.rawSize

/-- A read request and its answer (for "any order of reads"). -/
inductive ReadOp where
  | byId (sid pid : Nat)
  | next (sid : Nat)
deriving Repr

inductive ReadResult where
  | part (o : Outcome Blob)
  | nextPart (o : Outcome (Option Blob))
deriving Repr, DecidableEq

def runReads (env : Env) : Reader → List ReadOp → List ReadResult
  | _, [] => []
  | r, .byId sid pid :: ops => .part (getPartById env r sid pid) :: runReads env r ops
  | r, .next sid :: ops => .nextPart (getPart env r sid).2 :: runReads env (getPart env r sid).1 ops

/-! ## Abstract specification of the reads: answers computed from the commit log alone -/
namespace Spec

/-- `get_part_by_id` on the log. -/
def byId (log : List (List Blob)) (sid pid : Nat) : Outcome Blob :=
  match log[sid]? with
  | none => .err
  | some bl =>
    match bl[pid]? with
    | none => .err
    | some b => .ok (readBack b)

/-- `get_part` on the log with per-stream cursors. -/
def next (log : List (List Blob)) (cur : List Nat) (sid : Nat) : List Nat × Outcome (Option Blob) :=
  match log[sid]? with
  | none => (cur, .err)
  | some bl =>
    let c := cur.getD sid 0
    match bl[c]? with
    | none => (cur, .ok none)
    | some b => (cur.set sid (c + 1), .ok (some (readBack b)))

def reads (log : List (List Blob)) : List Nat → List ReadOp → List ReadResult
  | _, [] => []
  | cur, .byId sid pid :: ops => .part (byId log sid pid) :: reads log cur ops
  | cur, .next sid :: ops => .nextPart (next log cur sid).2 :: reads log (next log cur sid).1 ops

end Spec

/-! ## Repaired reader -/

/-- Check (2): `offset + size ≤ file_size` for every part (so also `offset + size` does not
overflow `u64` when `file_size` is a real file size). -/
def partsInFile (fileSize : Nat) (dir : List Stream) : Bool :=
  dir.all fun st => st.parts.all fun p => decide (p.off + p.size ≤ fileSize)

/-- `deserialize` with the range checks of a repaired implementation:
(1) `footer_size ≤ file_size - 8` before computing the footer offset (else `Err`);
(2) after parsing, every part satisfies `offset + size ≤ file_size` (else `Err`);
(3) `read_varint` computes its byte count in `usize`.
Counts (`num_streams`, `num_parts`) need no check: nothing is allocated from them and every loop
iteration consumes input or fails. -/
def openBytesFixed (seekMax : Nat) (bs : List Nat) : Outcome Reader :=
  let fileSize := bs.length
  if fileSize < 8 then .err else
  let footerSize := leVal (bs.drop (fileSize - 8))
  if fileSize - 8 < footerSize then .err else
  let pos := fileSize - 8 - footerSize
  if seekMax < pos then .err else
  (parseFooter readVarintFixed ((bs.drop pos).take footerSize)).bind fun dir =>
    if partsInFile fileSize dir then .ok ⟨bs, dir, List.replicate dir.length 0⟩ else .err

def getPartByIdFixed (seekMax : Nat) (r : Reader) (sid pid : Nat) : Outcome Blob :=
  getPartByIdWith readVarintFixed seekMax r sid pid

def getPartFixed (seekMax : Nat) (r : Reader) (sid : Nat) : Reader × Outcome (Option Blob) :=
  getPartWith readVarintFixed seekMax r sid

end Ragc.Container
