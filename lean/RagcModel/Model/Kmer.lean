/-
Model of ragc-core/src/kmer.rs (canonical mode) and kmer_extract.rs `enumerate_kmers`.
Import-free (core Lean only) so that the driver executable links.

Rust `u64` is `UInt64`; `+`, `<<<`, `>>>`, `&&&` are the wrapping / masking operations of the
release profile.  `Props/C20.lean` proves that on the domain `1 ≤ k ≤ 32`, symbols `< 4`, none
of the additions wraps and no shift amount reaches 64 (the conditions under which the dev
profile does not panic), see also C18.
-/
namespace Ragc.Kmer

/-- kmer.rs `reverse_complement` on a 2-bit base (anything else ↦ 4). -/
def rcBase (b : UInt64) : UInt64 :=
  if b = 0 then 3 else if b = 1 then 2 else if b = 2 then 1 else if b = 3 then 0 else 4

/-- The fields of `Kmer` that canonical mode uses. `k` is `max_size`. -/
structure Kmer where
  dir : UInt64
  rc  : UInt64
  cur : Nat
  k   : Nat
deriving Repr, DecidableEq

/-- `shift = 64 - 2*max_size`. -/
def shiftOf (k : Nat) : Nat := 64 - 2 * k

/-- `mask = (!0u64) << shift`. -/
def maskOf (k : Nat) : UInt64 := (0xFFFFFFFFFFFFFFFF : UInt64) <<< (UInt64.ofNat (shiftOf k))

def new (k : Nat) : Kmer := { dir := 0, rc := 0, cur := 0, k := k }

def reset (km : Kmer) : Kmer := { km with dir := 0, rc := 0, cur := 0 }

/-- `Kmer::insert_canonical`. -/
def insert (km : Kmer) (s : UInt64) : Kmer :=
  let rc1 := km.rc >>> 2
  let rc2 := rc1 + (rcBase s <<< 62)
  let rc3 := rc2 &&& maskOf km.k
  if km.cur = km.k then
    { km with rc := rc3, dir := (km.dir <<< 2) + (s <<< UInt64.ofNat (shiftOf km.k)) }
  else
    { km with rc := rc3, cur := km.cur + 1,
              dir := km.dir + (s <<< UInt64.ofNat (64 - 2 * (km.cur + 1))) }

def isFull (km : Kmer) : Bool := km.cur == km.k

/-- `data()` / `data_canonical()` in canonical mode. -/
def data (km : Kmer) : UInt64 := if km.dir ≤ km.rc then km.dir else km.rc

/-- `is_dir_oriented()` in canonical mode. -/
def isDirOriented (km : Kmer) : Bool := decide (km.dir ≤ km.rc)

/-- Insert a whole sequence of symbols, resetting at every symbol `> 3`
    (the loop body shared by `enumerate_kmers`, the segmenter and the splitter finder). -/
def feed (km : Kmer) : List UInt64 → Kmer
  | [] => km
  | b :: bs => if b > 3 then feed (reset km) bs else feed (insert km b) bs

/-- `enumerate_kmers` loop: the canonical value after every symbol that leaves the window full. -/
def enumLoop (km : Kmer) : List UInt64 → List UInt64
  | [] => []
  | b :: bs =>
    if b > 3 then enumLoop (reset km) bs
    else
      let km' := insert km b
      if isFull km' then data km' :: enumLoop km' bs else enumLoop km' bs

/-- `enumerate_kmers(contig, k)`. -/
def enumerateKmers (contig : List UInt64) (k : Nat) : List UInt64 :=
  if contig.length < k then [] else enumLoop (new k) contig

/-- `reverse_complement_kmer(kmer, k)`: the loop `for i in 0..k`, `result |= …`. -/
def rcKmerLoop (kmer : UInt64) (k : Nat) : Nat → UInt64 → UInt64
  | 0, acc => acc
  | n + 1, acc =>
    -- iteration index i = k - (n+1)
    let i := k - (n + 1)
    let sh := shiftOf k
    let base := (kmer >>> UInt64.ofNat (sh + 2 * i)) &&& 3
    rcKmerLoop kmer k n (acc ||| (rcBase base <<< UInt64.ofNat (sh + 2 * (k - 1 - i))))

def reverseComplementKmer (kmer : UInt64) (k : Nat) : UInt64 := rcKmerLoop kmer k k 0

/-- `canonical_kmer(kmer, k)`. -/
def canonicalKmer (kmer : UInt64) (k : Nat) : UInt64 :=
  let r := reverseComplementKmer kmer k
  if kmer ≤ r then kmer else r

end Ragc.Kmer
