import RagcModel.Model.Tuple
import RagcModel.Gen.Tables
/-!
Model of `ragc-core/src/segment_compression.rs` (marker framing of reference segments and delta
packs) and of the stored-part framing around it (`agc_compressor.rs` / `decompressor.rs`).

ZSTD is not modelled: it enters as parameters `zc : Nat → List Nat → List Nat`
(`zstd_pool::compress_segment_pooled(data, level)`, argument order `level data`) and
`zd : List Nat → Option (List Nat)` (`decompress_segment_pooled`, `none` = `Err`).
The repetitiveness test only selects the marker; the provable core takes the choice as a
parameter (`useTuples` / `chooser`), the executable wrapper instantiates it with the IEEE-double
computation of the Rust code (`Float`) — no theorem mentions `Float`.
-/
namespace Ragc.SegCompress
open Ragc.Tuple

/-- `REF_TUPLES_COMPRESSION_LEVEL` (segment_compression.rs 15), value read from the source by
`tools/gen_tables.py` on every run (13 at the time of writing). -/
def refTuplesLevel : Nat := Ragc.Gen.segRefTuplesLevel
/-- `REF_PLAIN_COMPRESSION_LEVEL` (19). -/
def refPlainLevel : Nat := Ragc.Gen.segRefPlainLevel
/-- `DELTA_COMPRESSION_LEVEL` (11). -/
def deltaLevel : Nat := Ragc.Gen.segDeltaLevel

/-! ### provable core -/

/-- `compress_reference_segment` 96–120 with the outcome of `repetitiveness < 0.5` given:
`(compressed, marker)`. -/
def compressRefWith (zc : Nat → List Nat → List Nat) (useTuples : Bool) (data : List Nat) :
    List Nat × Nat :=
  if useTuples then (zc refTuplesLevel (bytesToTuples data), 1)
  else (zc refPlainLevel data, 0)

/-- `compress_reference_segment` 82–121; `chooser data = true` iff `repetitiveness < 0.5`. -/
def compressReferenceSegment (zc : Nat → List Nat → List Nat) (chooser : List Nat → Bool)
    (data : List Nat) : List Nat × Nat :=
  compressRefWith zc (chooser data) data

/-- `compress_segment_configured` 70–72 = `compress_segment_plain` 124–126. -/
def compressSegmentConfigured (zc : Nat → List Nat → List Nat) (level : Nat) (data : List Nat) :
    List Nat :=
  zc level data

/-- `compress_segment` 65–67. -/
def compressSegment (zc : Nat → List Nat → List Nat) (data : List Nat) : List Nat :=
  compressSegmentConfigured zc deltaLevel data

/-- `decompress_segment_with_marker` 133–146. Empty input is `Ok(vec![])` whatever the marker;
a ZSTD error is `none`; a panic of `tuples_to_bytes` is `none`. `tb` is the tuple decoder as
compiled (`tuplesToBytesMode checked`). -/
def decompressWithMarkerMode (tb : List Nat → Option (List Nat)) (zd : List Nat → Option (List Nat))
    (compressed : List Nat) (marker : Nat) : Option (List Nat) :=
  if compressed.isEmpty then some []
  else if marker == 0 then zd compressed
  else (zd compressed).bind tb

def decompressWithMarker (zd : List Nat → Option (List Nat)) (compressed : List Nat) (marker : Nat) :
    Option (List Nat) :=
  decompressWithMarkerMode tuplesToBytes zd compressed marker

/-- Stored-part framing on the write side: `compressed.push(marker)`, then keep the compressed form
only if it is strictly shorter than the raw data, else store the raw bytes with metadata 0.
The same four lines occur in agc_compressor.rs in `flush_pack` (reference and `compress_pack`
closure), `flush_pack_compress_only` (both again), `write_reference_immediately`, and the final
partial packs of `finalize` (`use_compressed = compressed.len() < raw_size`).
Result: `(part data, part metadata)`. -/
def framePart (compressed : List Nat) (marker : Nat) (raw : List Nat) : List Nat × Nat :=
  let c := compressed ++ [marker]
  if c.length < raw.length then (c, raw.length) else (raw, 0)

/-- Stored-part framing on the read side, decompressor.rs `get_segment` (the three
"Decompress if needed" blocks: reference, delta pack, raw-group pack): metadata 0 ⇒ raw bytes;
else the last byte is the marker; an empty part with non-zero metadata is an `Err`. -/
def unframePart (zd : List Nat → Option (List Nat)) (data : List Nat) (metadata : Nat) :
    Option (List Nat) :=
  if metadata == 0 then some data
  else if data.isEmpty then none
  else decompressWithMarker zd data.dropLast (data.getLast?.getD 0)

/-- The other reader of reference parts, `Decompressor::get_reference_segment` (public; used by
the CLI's split inspection): it never looks at the metadata — an empty part is the empty segment,
otherwise the last byte is popped and used as marker even when the part was stored raw
(known defect D7 of DESIGN §7; see `Props.C12.public_ref_reader_not_lossless`). -/
def unframeRefIgnoringMetadata (zd : List Nat → Option (List Nat)) (data : List Nat) :
    Option (List Nat) :=
  if data.isEmpty then some []
  else decompressWithMarker zd data.dropLast (data.getLast?.getD 0)

/-- Reference segment as it reaches the archive. -/
def storeReference (zc : Nat → List Nat → List Nat) (chooser : List Nat → Bool) (data : List Nat) :
    List Nat × Nat :=
  let cm := compressReferenceSegment zc chooser data
  framePart cm.1 cm.2 data

/-- Delta / raw pack as it reaches the archive (marker always 0). -/
def storePack (zc : Nat → List Nat → List Nat) (level : Nat) (packed : List Nat) : List Nat × Nat :=
  framePart (compressSegmentConfigured zc level packed) 0 packed

/-! ### repetitiveness test -/

/-- Inner loop of `check_repetitiveness` 31–44 for one offset: `(cnt, cur_size)` over the
positions `j` with `j + offset < len`. -/
def repCounts (data : List Nat) (offset : Nat) : Nat × Nat :=
  let pairs := data.zip (data.drop offset)
  (pairs.countP (fun p => p.1 == p.2), pairs.countP (fun p => p.1 < 4))

/-- `check_repetitiveness` 27–62, offsets still to try and `best_frac` so far; IEEE doubles. -/
def repLoop (data : List Nat) : List Nat → Float → Float
  | [], best => best
  | off :: rest, best =>
    let cc := repCounts data off
    let frac : Float := if cc.2 > 0 then Float.ofNat cc.1 / Float.ofNat cc.2 else 0.0
    if frac > best then
      if frac >= 0.5 then frac else repLoop data rest frac
    else repLoop data rest best

/-- `check_repetitiveness` 27–62 (`for offset in 4..32`). -/
def checkRepetitiveness (data : List Nat) : Float :=
  repLoop data (List.range' 4 28) 0.0

/-- `repetitiveness < REPETITIVENESS_THRESHOLD` (line 96), as the Rust computes it. -/
def floatChooser (data : List Nat) : Bool := checkRepetitiveness data < 0.5

/-- The same decision in integers: `best_frac ≥ 0.5` iff for some offset `cur_size > 0` and
`2·cnt ≥ cur_size` (division of doubles is correctly rounded and monotone, `0.5` is a double, and
`(cur - 2cnt)/(2cur) > 2^-55` below `2^53` symbols). Cross-checked against `floatChooser` and the
Rust code by the harness; not used by any theorem. -/
def natChooser (data : List Nat) : Bool :=
  !((List.range' 4 28).any fun off =>
      let cc := repCounts data off
      decide (cc.2 > 0) && decide (2 * cc.1 ≥ cc.2))

/-- `compress_reference_segment` with the Rust decision procedure (executable wrapper). -/
def compressReferenceSegmentF (zc : Nat → List Nat → List Nat) (data : List Nat) : List Nat × Nat :=
  compressReferenceSegment zc floatChooser data

end Ragc.SegCompress
