import RagcModel.Gen.Tables
/-
Model of ragc-common/src/stream_naming.rs (archive version >= 3000: the `x<base64>r` / `x<base64>d`
names). Characters are byte values (`Nat`). Import-free apart from the generated tables.
-/
namespace Ragc.StreamNames

/-- `DIGITS[i]` of `int_to_base64` (the regenerated table). -/
def digitAt (i : Nat) : Nat := Ragc.Gen.b64Digits.getD i 0

/-- `int_to_base64(n)`: little-endian base-64 digits, at least one. -/
def intToBase64 (n : Nat) : List Nat :=
  if h : n / 64 = 0 then [digitAt (n % 64)]
  else digitAt (n % 64) :: intToBase64 (n / 64)
termination_by n
decreasing_by omega

def chX : Nat := 120  -- 'x'
def chR : Nat := 114  -- 'r'
def chD : Nat := 100  -- 'd'

/-- `stream_ref_name(3000, n)` = `x<base64 n>r`. -/
def refName (n : Nat) : List Nat := chX :: (intToBase64 n ++ [chR])

/-- `stream_delta_name(3000, n)` = `x<base64 n>d`. -/
def deltaName (n : Nat) : List Nat := chX :: (intToBase64 n ++ [chD])

/-- The fixed stream names the compressor registers. -/
def fixedNames : List (List Nat) :=
  ["file_type_info", "params", "splitters", "segment-splitters",
   "collection-samples", "collection-contigs", "collection-details"].map
    (fun s => s.toList.map Char.toNat)

end Ragc.StreamNames
