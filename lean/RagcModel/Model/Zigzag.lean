/-
Model of ragc-common/src/collection.rs lines 224–260: `zigzag_encode` / `zigzag_decode` with a
predictor, as `u64` arithmetic of the release profile (every `*`, `+`, `-` wraps modulo 2^64; the
dev profile panics where a wrap happens). Arguments are `Nat`s `< 2^64`.
Import-free.
-/
namespace Ragc.Zigzag

def U64 : Nat := 18446744073709551616
def U32 : Nat := 4294967296

/-- `a - b` on u64, wrapping. -/
def wsub (a b : Nat) : Nat := (a + U64 - b % U64) % U64
/-- `a + b` on u64, wrapping. -/
def wadd (a b : Nat) : Nat := (a + b) % U64
/-- `2 * a` on u64, wrapping. -/
def wdbl (a : Nat) : Nat := (2 * a) % U64

/-- `zigzag_encode(x_curr, x_prev)` (242–250). -/
def zigzagEncode (x p : Nat) : Nat :=
  if x < p then wsub (wdbl (wsub p x)) 1
  else if x < wdbl p then wdbl (wsub x p)
  else x

/-- `zigzag_decode(x_val, x_prev)` (252–260). -/
def zigzagDecode (v p : Nat) : Nat :=
  if v ≥ wdbl p then v
  else if v % 2 ≠ 0 then wsub (wdbl p) v / 2
  else wadd v (wdbl p) / 2

end Ragc.Zigzag
