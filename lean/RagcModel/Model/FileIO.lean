import RagcModel.Model.Varint
/-!
# Model of the file write path of `create` (C15)

What is modelled, bottom up:

* `Sink` — the output file as the operating system presents it to a process whose writes start to
  fail at byte offset `limit` (`RLIMIT_FSIZE` with `SIGXFSZ` ignored: `write(2)` transfers the bytes
  that still fit — a short count — and the next `write(2)` fails with `EFBIG`; a full disk behaves
  the same way with `ENOSPC`). The fault is *persistent*: once the file has `limit` bytes no later
  write of a non-empty buffer succeeds.
* `BufWriter` — `std::io::BufWriter<File>` (`write_all`, `flush_buf`, `flush`, `Drop`), with its
  capacity as a parameter (archive.rs:103 uses 4 MiB).
* `Arch` — the write-mode half of `ragc_common::Archive` that does I/O: the `writer:
  Option<BufWriter<File>>` field, `add_part`'s two `write_all`s (archive.rs:149-183, reached from
  `flush_buffers`, archive.rs:197-208), `close` (archive.rs:111-123), `serialize` (archive.rs:324-366)
  and `impl Drop for Archive` (archive.rs:458-462, `let _ = self.close()`).
* `finalize` — the tail of `StreamingQueueCompressor::finalize` (agc_compressor.rs:2072-2123):
  every part of the archive was buffered in memory by `add_part_buffered`; `flush_buffers()?`
  hands them to the `BufWriter` one `write_all` at a time, `close()?` flushes, appends the footer
  and its 8-byte length and flushes again. Each step is followed by `?`.
* `createRun` — `finalize` followed by the destructors that run when the compressor is dropped
  (`Archive::drop`, then `BufWriter::drop`), i.e. everything that can touch the file before the
  process exits.

The *content* of parts and footer is opaque here (`chunks`, `footer` are byte lists handed to
`write_all` in order); their structure is C13's subject. Bytes are `Nat`.
-/
namespace Ragc.FileIO
open Ragc.Varint

abbrev Bytes := List Nat

/-- `io::Result<()>` of a write-path step. -/
inductive Res where
  | ok
  | err
deriving Repr, DecidableEq

/-- The output file: its current contents and the offset at which writes start to fail. -/
structure Sink where
  limit : Nat
  contents : Bytes
deriving Repr, DecidableEq

/-- Number of bytes of `bs` the file still accepts. -/
def Sink.room (s : Sink) : Nat := s.limit - s.contents.length

/-- `write(2)` repeated until all of `bs` is transferred or an error is returned (what both
`File::write_all` and the loop of `BufWriter::flush_buf` do): the bytes that fit are appended;
`Res.err` iff some byte did not fit. Returns the number of bytes accepted. -/
def Sink.write (s : Sink) (bs : Bytes) : Res × Nat × Sink :=
  if bs.length ≤ s.room then (.ok, bs.length, { s with contents := s.contents ++ bs })
  else (.err, s.room, { s with contents := s.contents ++ bs.take s.room })

/-- `std::io::BufWriter<File>`: `buf` are the bytes accepted but not yet handed to the file. -/
structure BufWriter where
  cap : Nat
  buf : Bytes
  inner : Sink
deriving Repr, DecidableEq

/-- `BufWriter::flush_buf`: writes the buffer to the file; the bytes the file accepted are removed
from the buffer (the `BufGuard`), the rest stays buffered when an error is returned. -/
def BufWriter.flushBuf (w : BufWriter) : Res × BufWriter :=
  match w.inner.write w.buf with
  | (r, k, inner') => (r, { w with buf := w.buf.drop k, inner := inner' })

/-- `BufWriter::flush` = `flush_buf` then `File::flush` (a no-op). -/
def BufWriter.flush (w : BufWriter) : Res × BufWriter := w.flushBuf

/-- Second half of `BufWriter::write_all_cold` (std): data at least as large as the whole capacity
goes directly to the file (the buffer is empty at that point), smaller data is buffered. -/
def BufWriter.direct (w : BufWriter) (bs : Bytes) : Res × BufWriter :=
  if bs.length ≥ w.cap then
    match w.inner.write bs with
    | (r, _, inner') => (r, { w with inner := inner' })
  else (.ok, { w with buf := w.buf ++ bs })

/-- `BufWriter::write_all` (`write_all` / `write_all_cold` of std): data strictly smaller than
the spare capacity is only buffered; otherwise the buffer is flushed first when the data does not
fit (an error surfaces *here*, and the data is dropped), then `direct`. -/
def BufWriter.writeAll (w : BufWriter) (bs : Bytes) : Res × BufWriter :=
  if bs.length < w.cap - w.buf.length then (.ok, { w with buf := w.buf ++ bs })
  else if bs.length > w.cap - w.buf.length then
    match w.flushBuf with
    | (.err, w1) => (.err, w1)
    | (.ok, w1) => w1.direct bs
  else w.direct bs

/-- `impl Drop for BufWriter`: `let _r = self.flush_buf()`; the file handle is closed afterwards
(closing does not change the contents). Returns the file. -/
def BufWriter.drop (w : BufWriter) : Sink := w.flushBuf.2.inner

/-- The I/O part of a write-mode `Archive`: `writer: Option<BufWriter<File>>` plus, for the case
that the `BufWriter` has already been dropped (`writer = None` after a successful `close`), the
file it was writing to. -/
structure Arch where
  writer : Option BufWriter
  /-- the file after the writer is gone (`none` while `writer` is `some`) -/
  closed : Option Sink
deriving Repr, DecidableEq

/-- `Archive::new_writer` + `open` (archive.rs:79-108): `File::create` truncates, the buffer is
empty. -/
def Arch.create (cap limit : Nat) : Arch := ⟨some ⟨cap, [], ⟨limit, []⟩⟩, none⟩

/-- The file contents as the rest of the world sees them right now. -/
def Arch.file (a : Arch) : Bytes :=
  match a.writer, a.closed with
  | some w, _ => w.inner.contents
  | none, some s => s.contents
  | none, none => []

/-- A sequence of `writer.write_all(c)?` calls: stops at the first error. This is `flush_buffers`
(archive.rs:197-208) seen from the `BufWriter`: for every buffered part, `add_part` writes the
metadata varint and then the data (archive.rs:162-169). -/
def writeChunks (w : BufWriter) : List Bytes → Res × BufWriter
  | [] => (.ok, w)
  | c :: rest =>
    match w.writeAll c with
    | (.err, w1) => (.err, w1)
    | (.ok, w1) => writeChunks w1 rest

/-- `Archive::serialize` (archive.rs:324-366) on the writer: footer, 8-byte little-endian footer
length, flush; each with `?`. -/
def serialize (w : BufWriter) (footer : Bytes) : Res × BufWriter :=
  match w.writeAll footer with
  | (.err, w1) => (.err, w1)
  | (.ok, w1) =>
    match w1.writeAll (le64 footer.length) with
    | (.err, w2) => (.err, w2)
    | (.ok, w2) => w2.flush

/-- Outcome of one `Archive::close` call in write mode. -/
inductive CloseRes where
  /-- `Ok(())` -/
  | ok
  /-- an I/O error from `flush` / `write_all` -/
  | ioErr
  /-- `serialize` found `writer = None`: `Err("Archive not open for writing")`, no I/O at all -/
  | noWriter
deriving Repr, DecidableEq

/-- `Archive::close` (archive.rs:111-123): `writer.flush()?; self.serialize()?;` and only then
`self.writer = None` (dropping the `BufWriter`, whose buffer is empty by then). On an error the
writer stays in place. -/
def Arch.close (a : Arch) (footer : Bytes) : CloseRes × Arch :=
  match a.writer with
  | none => (.noWriter, a)
  | some w =>
    match w.flush with
    | (.err, w1) => (.ioErr, { a with writer := some w1 })
    | (.ok, w1) =>
      match serialize w1 footer with
      | (.err, w2) => (.ioErr, { a with writer := some w2 })
      | (.ok, w2) => (.ok, ⟨none, some w2.drop⟩)

/-- The end of `StreamingQueueCompressor::finalize` (agc_compressor.rs:2112-2122):
`archive.flush_buffers()?; archive.close()?; Ok(())`. `chunks` is the list of `write_all`
arguments `flush_buffers` produces, `footer` the serialized directory. -/
def finalize (a : Arch) (chunks : List Bytes) (footer : Bytes) : Res × Arch :=
  match a.writer with
  | none => (.err, a)
  | some w =>
    match writeChunks w chunks with
    | (.err, w1) => (.err, { a with writer := some w1 })
    | (.ok, w1) =>
      match ({ a with writer := some w1 } : Arch).close footer with
      | (.ok, a2) => (.ok, a2)
      | (_, a2) => (.err, a2)

/-- `impl Drop for Archive` (`let _ = self.close();`) followed by the drop of its fields (the
`BufWriter`, if `close` left one in place). `footerD` is whatever directory `serialize` would
produce at that moment (it can differ from the complete footer when `flush_buffers` stopped
early). Returns what `close` returned (the value that is thrown away) and the final file. -/
def Arch.dropArchive (a : Arch) (footerD : Bytes) : CloseRes × Bytes :=
  match a.close footerD with
  | (r, a1) =>
    match a1.writer with
    | some w => (r, w.drop.contents)
    | none => (r, a1.file)

/-- One `ragc create` run seen from the output file: the file is created, `finalize` runs, the
compressor (hence the archive) is dropped, the process exits with status 0 iff `finalize` returned
`Ok`. Result: (`finalize`'s result, what `Drop`'s `close` returned, final file contents). -/
def createRun (cap limit : Nat) (chunks : List Bytes) (footer footerD : Bytes) :
    Res × CloseRes × Bytes :=
  match finalize (Arch.create cap limit) chunks footer with
  | (r, a) =>
    match a.dropArchive footerD with
    | (d, file) => (r, d, file)

/-- The complete archive file: all chunks, the footer, its length. -/
def fullFile (chunks : List Bytes) (footer : Bytes) : Bytes :=
  chunks.flatten ++ footer ++ le64 footer.length

end Ragc.FileIO
