import RagcModel.Model.Agc3
import RagcModel.Model.Packs
import RagcModel.Model.StreamNames
/-!
# The reference writer (C01 / C02)

`writeArchive cfg inp dec zc` is a whole-archive model of the ACTIVE compressor path of
`ragc-core/src/agc_compressor.rs` (`StreamingQueueCompressor`: `with_splitters_internal`
1074-1180, `prepare_batch_parallel` 3901-4072, `flush_pack_compress_only` 2671-2855 /
`flush_pack` 2180-2666, `finalize` 1815-2130) and of `CollectionV3::store_batch_sample_names` /
`store_contig_batch` (ragc-common/src/collection.rs 1047-1215), composed ONLY from the layer
models that have their own theorems and their own correspondence runs:

* pieces of a contig: the `k`-overlapping tiling (C10 `split_tiles`, C01 `split_at_position_tiles`);
* orientation: `Range.reverseComplementSegment` (C01/C07);
* LZ deltas: `LzDiff.encode` with the exact linear-probing index (`encodeExact`, C09);
* in-group ids and pack boundaries: the `Packs` state machine (`assignAll`, `finish`; C02
  `packs_addressing`), pack layout `Packs.packEntries`;
* stored parts: `SegCompress.storeReference` / `storePack` (marker byte, raw fallback with
  metadata 0; C12);
* stream names: `StreamNames.refName` / `deltaName` (C02);
* catalogue: `Names.encodeSampleNames`, `Details.storeBatches` (= `Names.encodeNames` +
  `Details.encodeDetails`, batches of 50 samples; C03);
* container: `Container.run` / `close` (C13).

Everything the real compressor decides HEURISTICALLY or by SCHEDULING is data (`Decisions`):
how each contig is cut into pieces (segmentation at splitters and every later split of a segment
are all just "the lengths of the pieces"), the group of each piece, its orientation flag, the order
in which the pieces of a group reach `flush_pack_compress_only` (the first one is the group's
reference — in the Rust the first of the sorted buffer at the group's first flush), whether a
reference is tuple-packed (`check_repetitiveness`), and the order in which groups were created
(= order in which their two streams were registered). Given the decisions the writer is
deterministic.

Why the byte layout needs no further decision: every archive write of the compressor is
`add_part_buffered`, and `finalize` calls `flush_buffers` exactly once before `close`; a flush
commits the buffer sorted by stream id, stably (C13 `commit_order_sorted/_stable`). So the file is:
for every stream in registration order, its parts in the order they were buffered; then the footer.

Physical limits are explicit `none` results, never silent defaults (see `writeArchive`).

ZSTD is the parameter `zc : level → data → frame`.
-/
namespace Ragc.Writer
open Ragc.Container Ragc.Packs Ragc.StreamNames Ragc.Varint

/-- `StreamingQueueConfig`: `k`, `min_match_len`, `segment_size`, `compression_level` (ZSTD level
of delta packs, default 17). -/
structure Cfg where
  k : Nat
  minMatch : Nat
  segSize : Nat
  level : Nat
deriving Repr, DecidableEq

/-- One contig as the compressor receives it: its name (the FASTA header) and its numeric codes. -/
structure Contig where
  name : List Nat
  data : List Nat
deriving Repr, DecidableEq

/-- One sample of the catalogue (after `register_sample_contig`, see C03 `register_order`). -/
structure Sample where
  name : List Nat
  contigs : List Contig
deriving Repr, DecidableEq

/-- (sample index, contig index, piece index = `seg_part_no`). -/
abbrev PieceRef := Nat × Nat × Nat

/-- The decisions about one piece: its length (the pieces of a contig overlap by `k`), the group
it joins, its position in that group's arrival order, its `is_rev_comp` flag. -/
structure PieceDec where
  len : Nat
  group : Nat
  slot : Nat
  rev : Bool
deriving Repr, DecidableEq

/-- The decisions about one group: its id (`< 16`: raw group, `≥ 16`: LZ group), whether its
reference is tuple-packed, and its pieces in the order they are handed to the pack machine
(LZ groups: the first one is the reference). -/
structure GroupDec where
  id : Nat
  tuples : Bool
  members : List PieceRef
deriving Repr, DecidableEq

/-- `pieces[s][c]` = the pieces of contig `c` of sample `s`; `groups` in creation order. -/
structure Decisions where
  pieces : List (List (List PieceDec))
  groups : List GroupDec
deriving Repr, DecidableEq

/-! ## pieces -/

/-- The pieces of a contig for the given lengths: the first one starts at 0, every later one `k`
symbols before the end of the previous one. `rest` is the contig from the start of the next piece. -/
def cutPieces (k : Nat) : List Nat → List Nat → List (List Nat)
  | _, [] => []
  | rest, l :: ls => rest.take l :: cutPieces k (rest.drop (l - k)) ls

/-- Do the lengths describe a tiling of a contig of `n` symbols? (`e` = end of the previous piece.) -/
def tilesFromB (k n : Nat) : Nat → List Nat → Bool
  | e, [] => e == n
  | e, l :: ls => decide (k ≤ e) && decide (k ≤ l) && decide (e - k + l ≤ n) && tilesFromB k n (e - k + l) ls

def tilesB (k n : Nat) : List Nat → Bool
  | [] => false
  | l :: ls => decide (l ≤ n) && tilesFromB k n l ls

/-- `rc^flag`: what is buffered for a piece with `is_rev_comp = flag`. -/
def orient (rev : Bool) (d : List Nat) : List Nat :=
  if rev then Ragc.Range.reverseComplementSegment d else d

/-- The buffered data (`BufferedSegment::data`) of every piece of a contig. -/
def storedContig (k : Nat) (c : Contig) (ds : List PieceDec) : List (List Nat) :=
  List.zipWith (fun d p => orient d.rev p) ds (cutPieces k c.data (ds.map (·.len)))

def storedAll (k : Nat) (inp : List Sample) (dec : Decisions) : List (List (List (List Nat))) :=
  List.zipWith (fun s dcs => List.zipWith (storedContig k) s.contigs dcs) inp dec.pieces

def lookup3 {α : Type} (t : List (List (List α))) (r : PieceRef) : Option α :=
  ((t[r.1]?).bind (·[r.2.1]?)).bind (·[r.2.2]?)

/-! ## one group -/

/-- What one group contributes: the part of its `x…r` stream (LZ groups), the parts of its `x…d`
stream in order, and the in-group id of each member (by slot). -/
structure GroupOut where
  id : Nat
  refPart : Option Blob
  packs : List Blob
  ids : List Nat
deriving Repr, DecidableEq

/-- `lz_diff.prepare(reference)` once, then `lz_diff.encode(seg)` for every other member
(`= members.mapM (LzDiff.encodeExact mm ref)`, with the index built once). -/
def encodeAll (mm : Nat) (ref : List Nat) (tgts : List (List Nat)) : Option (List (List Nat)) :=
  let tbl := Ragc.Model.LzDiff.buildIndex (Ragc.Model.LzDiff.padRef mm ref) (Ragc.Model.LzDiff.keyLen mm)
  tgts.mapM (Ragc.Model.LzDiff.encode (Ragc.Model.LzDiff.lookup tbl) mm ref)

/-- What one group stores, before ZSTD and part framing: the reference (LZ groups), the entry
lists of the packs of its delta stream in order (`Packs.finish`: full packs as they are emitted,
then the partial pack of `finalize`; the placeholder entry included), and the in-group id of each
member (by slot). -/
structure GroupPlan where
  id : Nat
  ref : Option (List Nat)
  packs : List (List (List Nat))
  ids : List Nat
deriving Repr, DecidableEq

/-- All flushes of one group's buffer (`flush_pack_compress_only` over the life of the group, and
the final partial pack): `datas` = the buffered data of its members in arrival order.
LZ group (`id ≥ 16`): the first member is the reference (id 0), every other member is LZ-encoded
against it; raw group: every member is an entry as it is. `none`: an LZ group without members
(never created by the compressor), or `encode` does not answer (`min_match_len < 4`, where the
Rust `encode` misbehaves). -/
def planGroup (mm : Nat) (G : GroupDec) (datas : List (List Nat)) : Option GroupPlan :=
  if G.id ≥ 16 then
    match datas with
    | [] => none
    | ref :: rest =>
      match encodeAll mm ref rest with
      | none => none
      | some deltas =>
        let r := assignAll true PState.init deltas
        some ⟨G.id, some ref, finish true r.1, 0 :: r.2⟩
  else
    let r := assignAll false PState.init datas
    some ⟨G.id, none, finish false r.1, r.2⟩

/-- The parts of the group's two streams: the reference by `storeReference` (tuple packing as
decided), every pack laid out (`packEntries`) and stored by `storePack`. -/
def storeGroup (cfg : Cfg) (zc : Nat → List Nat → List Nat) (tuples : Bool) (P : GroupPlan) : GroupOut :=
  ⟨P.id, P.ref.map (Ragc.SegCompress.storeReference zc (fun _ => tuples)),
    P.packs.map (fun es => Ragc.SegCompress.storePack zc cfg.level (packEntries es)), P.ids⟩

def writeGroup (cfg : Cfg) (zc : Nat → List Nat → List Nat) (G : GroupDec) (datas : List (List Nat)) :
    Option GroupOut :=
  (planGroup cfg.minMatch G datas).map (storeGroup cfg zc G.tuples)

def writeGroups (cfg : Cfg) (zc : Nat → List Nat → List Nat) (stored : List (List (List (List Nat))))
    (gs : List GroupDec) : Option (List GroupOut) :=
  gs.mapM fun G => (G.members.mapM (lookup3 stored)).bind (writeGroup cfg zc G)

/-! ## catalogue -/

def idsOf (outs : List GroupOut) (g : Nat) : List Nat :=
  match outs.find? (fun o => o.id == g) with
  | some o => o.ids
  | none => []

/-- `add_segment_placed(sample, contig, seg_part_no, group_id, in_group_id, is_rev_comp,
data.len())`. -/
def descOf (outs : List GroupOut) (d : PieceDec) : Ragc.Details.Seg :=
  ⟨d.group, (idsOf outs d.group).getD d.slot 0, d.rev, d.len⟩

def catalogue (inp : List Sample) (dec : Decisions) (outs : List GroupOut) : List Ragc.Details.Sample :=
  List.zipWith (fun s dcs =>
      (⟨s.name, List.zipWith (fun c ds => (⟨c.name, ds.map (descOf outs)⟩ : Ragc.Details.Contig)) s.contigs dcs⟩ :
        Ragc.Details.Sample))
    inp dec.pieces

/-! ## fixed streams -/

def str (s : String) : List Nat := s.toList.map Char.toNat

/-- decimal digits of a version number -/
def dec10 (n : Nat) : List Nat := (Nat.toDigits 10 n).map Char.toNat

/-- `deferred_file_type_info` (1117-1149): seven NUL-terminated key/value pairs; metadata 7. -/
def fileTypeInfo : List Nat :=
  let kv : List (List Nat × List Nat) :=
    [(str "producer", str "ragc"),
     (str "producer_version_major", dec10 Ragc.Gen.agcFileMajor),
     (str "producer_version_minor", dec10 Ragc.Gen.agcFileMinor),
     (str "producer_version_build", str "0"),
     (str "file_version_major", dec10 Ragc.Gen.agcFileMajor),
     (str "file_version_minor", dec10 Ragc.Gen.agcFileMinor),
     (str "comment", str "RAGC v." ++ dec10 Ragc.Gen.agcFileMajor ++ str "." ++ dec10 Ragc.Gen.agcFileMinor)]
  kv.flatMap fun p => p.1 ++ 0 :: (p.2 ++ [0])

/-- `deferred_params` (1152-1161): `k`, `min_match_len`, 50, `segment_size` as little-endian `u32`
(`as u32` keeps the low four bytes). -/
def paramsData (cfg : Cfg) : List Nat :=
  leBytes 4 cfg.k ++ (leBytes 4 cfg.minMatch ++ (leBytes 4 50 ++ leBytes 4 cfg.segSize))

/-- ZSTD levels of the collection streams (collection.rs 1050, 1175, 1188). -/
def levelSamples : Nat := 19
def levelContigNames : Nat := 18
def levelDetails : Nat := 19

/-- `store_batch_sample_names` (1047-1059). -/
def samplesPart (zc : Nat → List Nat → List Nat) (inp : List Sample) : Blob :=
  let raw := Ragc.Names.encodeSampleNames (inp.map (·.name))
  (zc levelSamples raw, raw.length)

/-- `store_contig_batch` (1166-1206), the `collection-contigs` part. -/
def contigsPart (zc : Nat → List Nat → List Nat) (b : Ragc.Details.StoredBatch) : Blob :=
  (zc levelContigNames b.names, b.names.length)

/-- the `(raw size, compressed size)` table of the five descriptor streams -/
def sizeTable (raws frames : List (List Nat)) : List Nat :=
  (List.zip raws frames).flatMap fun rf => [rf.1.length, rf.2.length]

/-- `store_contig_batch`, the `collection-details` part: ten prefix varints, then the five frames;
metadata 0. -/
def detailsPart (zc : Nat → List Nat → List Nat) (b : Ragc.Details.StoredBatch) : Blob :=
  let frames := b.details.map (zc levelDetails)
  (Ragc.Details.encNats (sizeTable b.details frames) ++ frames.flatten, 0)

/-- The seven streams registered by `with_splitters_internal`, in that order
(`prepare_for_compression` first: collection.rs 325-329). -/
def fixedStreamNames : List (List Nat) :=
  [str "collection-samples", str "collection-contigs", str "collection-details",
   str "file_type_info", str "params", str "splitters", str "segment-splitters"]

/-- Every `register_stream` call in order: the fixed streams, then for each new group its delta
stream and its reference stream (`prepare_batch_parallel` 4001-4008). -/
def regNames (dec : Decisions) : List (List Nat) :=
  fixedStreamNames ++ dec.groups.flatMap fun G => [deltaName G.id, refName G.id]

/-- The id `register_stream(name)` returned: the position of the name's first registration
(C13 `register_returns_first_id`). -/
def streamId (names : List (List Nat)) (name : List Nat) : Nat := names.idxOf name

/-- Every `add_part_buffered` in order, by stream name: the parts of the groups (reference, then
packs), then `finalize` 2082-2110: `params`, `splitters`, `segment-splitters`, the sample names,
per 50-sample batch the contig names and the descriptors, and `file_type_info` last. -/
def partList (cfg : Cfg) (zc : Nat → List Nat → List Nat) (inp : List Sample) (outs : List GroupOut)
    (batches : List Ragc.Details.StoredBatch) : List (List Nat × Blob) :=
  outs.flatMap (fun o =>
      (match o.refPart with
        | some b => [(refName o.id, b)]
        | none => []) ++ o.packs.map fun b => (deltaName o.id, b)) ++
  [(str "params", (paramsData cfg, 0)), (str "splitters", ([], 0)), (str "segment-splitters", ([], 0)),
   (str "collection-samples", samplesPart zc inp)] ++
  batches.flatMap (fun b => [(str "collection-contigs", contigsPart zc b), (str "collection-details", detailsPart zc b)]) ++
  [(str "file_type_info", (fileTypeInfo, 7))]

/-- The container history of one `create`: registrations, buffered parts, ONE flush. -/
def archiveOps (names : List (List Nat)) (parts : List (List Nat × Blob)) : List Op :=
  names.map Op.register ++ parts.map (fun nb => Op.addBuf (streamId names nb.1) nb.2.1 nb.2.2) ++ [Op.flush]

/-- the sizes `store_contig_batch` casts `as u32` -/
def sizesFit (zc : Nat → List Nat → List Nat) (b : Ragc.Details.StoredBatch) : Bool :=
  b.details.all fun r => decide (r.length < 2 ^ 32) && decide ((zc levelDetails r).length < 2 ^ 32)

/-- **The reference writer.** `none` where the Rust does not produce an archive the model
describes:
* a member reference that does not name a piece, an LZ group without members, `encode` not
  answering (`min_match_len < 4`) — `writeGroups`;
* a part whose metadata (a `usize` length) would not fit `u64`, a file longer than `i64::MAX`
  (`seekMax`; no file system stores it) — physical;
* a descriptor stream of a batch, raw or compressed, of 4 GiB or more: `store_contig_batch` casts
  both sizes `as u32` and would write a size table that does not describe the part (DEVIATION:
  the Rust truncates silently there; the model stops instead, such archives are outside the
  theorems). -/
def writeArchive (cfg : Cfg) (inp : List Sample) (dec : Decisions) (zc : Nat → List Nat → List Nat) :
    Option (List Nat) :=
  match writeGroups cfg zc (storedAll cfg.k inp dec) dec.groups with
  | none => none
  | some outs =>
    let batches := Ragc.Details.storeBatches cfg.segSize cfg.k 50 (catalogue inp dec outs)
    let parts := partList cfg zc inp outs batches
    if batches.all (sizesFit zc) && parts.all (fun nb => decide (nb.2.2 < 2 ^ 64)) then
      let bytes := close (run (archiveOps (regNames dec) parts))
      if bytes.length ≤ Ragc.Agc3.seekMax then some bytes else none
    else none

/-! ## well-formed decisions -/

def nameOK (n : List Nat) : Bool := n.all fun b => decide (1 ≤ b) && decide (b ≤ 127)

def allRefs (dec : Decisions) : List (PieceRef × PieceDec) :=
  (List.zipIdx dec.pieces).flatMap fun (cs, s) =>
    (List.zipIdx cs).flatMap fun (ps, c) =>
      (List.zipIdx ps).map fun (d, i) => ((s, c, i), d)

def findGroup (dec : Decisions) (g : Nat) : Option GroupDec := dec.groups.find? (fun G => G.id == g)

/-- The decisions are well formed for this input and configuration:
* configuration: `1 ≤ k`, the three parameters are `u32`, `segment_size + k ≤ 2^31` (C03);
* catalogue: `u32` counts, names over the bytes 1..127 (C03), contigs non-empty and shorter than
  4 GiB (`raw_length` is a `u32`);
* `pieces` has the shape of the input and the piece lengths of every contig tile it with
  `k`-overlaps;
* group ids are distinct `u32`s, every group has a member;
* pieces and groups agree: piece `p` with `(group, slot)` is member number `slot` of that group,
  and every member of a group is a piece that says so (hence: all members of a raw group are raw,
  every LZ group has exactly one reference — its member 0);
* fewer than `2^31 - 1` pieces, and fewer than `2^31 - 1` members in every group (so every
  in-group id — at most the number of members — is below `i32::MAX`, C03). -/
def decisionsOK (cfg : Cfg) (inp : List Sample) (dec : Decisions) : Bool :=
  decide (1 ≤ cfg.k) && decide (cfg.k < 2 ^ 32) && decide (cfg.minMatch < 2 ^ 32) &&
  decide (cfg.segSize < 2 ^ 32) && decide (cfg.segSize + cfg.k ≤ 2 ^ 31) &&
  decide (inp.length < 2 ^ 32) && decide (dec.pieces.length = inp.length) &&
  (List.zip inp dec.pieces).all (fun (s, dcs) =>
    nameOK s.name && decide (s.contigs.length < 2 ^ 32) && decide (dcs.length = s.contigs.length) &&
    (List.zip s.contigs dcs).all (fun (c, ds) =>
      nameOK c.name && decide (c.data ≠ []) && decide (c.data.length < 2 ^ 32) &&
      decide (ds.length < 2 ^ 32) && tilesB cfg.k c.data.length (ds.map (·.len)))) &&
  decide ((dec.groups.map (·.id)).Nodup) &&
  dec.groups.all (fun G => decide (G.id < 2 ^ 32) && decide (G.members ≠ []) &&
    decide (G.members.length + 1 < 2 ^ 31) &&
    (List.zipIdx G.members).all (fun (r, j) =>
      match lookup3 dec.pieces r with
      | some d => decide (d.group = G.id) && decide (d.slot = j)
      | none => false)) &&
  (allRefs dec).all (fun (r, d) =>
    match findGroup dec d.group with
    | some G => decide (G.members[d.slot]? = some r)
    | none => false) &&
  decide ((allRefs dec).length + 1 < 2 ^ 31)

def DecisionsOK (cfg : Cfg) (inp : List Sample) (dec : Decisions) : Prop := decisionsOK cfg inp dec = true

instance (cfg : Cfg) (inp : List Sample) (dec : Decisions) : Decidable (DecisionsOK cfg inp dec) := by
  unfold DecisionsOK; exact inferInstance

/-- every symbol of every contig is a code the LZ text can carry as a literal (C09): ragc's codes
0..15, 30, 32 all are. -/
def codesOK (inp : List Sample) : Prop :=
  ∀ s ∈ inp, ∀ c ∈ s.contigs, ∀ b ∈ c.data, b ≤ Ragc.Gen.lzLiteralSpan

instance (inp : List Sample) : Decidable (codesOK inp) := by unfold codesOK; exact inferInstance

/-! ## what the decoder must return -/

/-- sample names with their contig names, in order -/
def catalogueOf (inp : List Sample) : List (List Nat × List (List Nat)) :=
  inp.map fun s => (s.name, s.contigs.map (·.name))

/-- the symbols of every contig -/
def basesOf (inp : List Sample) : List (List (List Nat)) :=
  inp.map fun s => s.contigs.map (·.data)

end Ragc.Writer

namespace Ragc.Agc3

def Decoded.catalogue (d : Decoded) : List (List Nat × List (List Nat)) :=
  d.samples.map fun s => (s.name, s.contigs.map (·.name))

def Decoded.bases (d : Decoded) : List (List (List Nat)) :=
  d.samples.map fun s => s.contigs.map (·.bases)

end Ragc.Agc3
