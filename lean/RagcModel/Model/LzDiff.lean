import RagcModel.Gen.Tables
/-!
Model of `ragc-core/src/lz_diff.rs` (`LZDiff::new/prepare/encode/decode`) and of
`ragc-common/src/hash.rs` `MurMur64Hash`.

Conventions
* symbols and bytes are `Nat`; sequences that the Rust indexes randomly (`reference`, `target`, the
  hash table) are `Array Nat`, everything else is a `List`;
* integers are unbounded: the `u32`/`i64`/`usize` ranges of positions and lengths are *not* modelled
  (sequences shorter than 2^31; C18 is the property about wrap-around). The only wrapping arithmetic
  that is modelled exactly is the `u64` k-mer code / MurMur64 hash (`UInt64`);
* a Rust panic is `none` (`Found.panic`, `CodeR.oob`);
* the encoder produces **tokens** (`Tok`, newest first) which `serialize` turns into exactly the
  bytes the Rust pushes; `encode` is parametrised by the *candidate supplier* `S : UInt64 → List Nat`
  (k-mer code ↦ reference positions to try, in probe order). `exactSupplier` is the linear-probing
  table of `build_index_lp`/`find_best_match_lp`, and `encodeExact` is the byte-exact model of
  `LZDiff::encode`;
* the valid range of `min_match_len` is `lzHashingStep ≤ mm` (`key_len = mm - HASHING_STEP + 1 ≥ 1`):
  `mm < 3` underflows in `new`, `mm = 3` gives `key_len = 0` for which `get_code_skip1` computes
  `0usize - 1`. Outside that range `encode` is `none`.
-/
set_option linter.unusedVariables false
set_option linter.unusedSimpArgs false

namespace Ragc.Model.LzDiff
open Ragc.Gen

/-! ## Tokens and their byte form -/

/-- What the encoder emits. `mtch d len`: `d = match_pos - pred_pos`, `len = none` is the
    match-to-end form. -/
inductive Tok where
  | lit (c : Nat)
  | bang
  | nrun (n : Nat)
  | mtch (d : Int) (len : Option Nat)
deriving Repr, DecidableEq

/-- Decimal digits (ASCII), most significant first; `0 ↦ "0"` (`append_int`, lines 223-243, which
    writes the digits in reverse and then reverses them). -/
def natDigits (n : Nat) : List Nat :=
  if n < 10 then [48 + n] else natDigits (n / 10) ++ [48 + n % 10]
termination_by n
decreasing_by omega

/-- `append_int` (lines 223-243). -/
def appendInt (x : Int) : List Nat :=
  if x < 0 then 45 :: natDigits x.natAbs else natDigits x.toNat

/-- `encode_literal` (193-195), the `b'!'` store of the bang rewrite (526), `encode_nrun` (198-202),
    `encode_match` (208-220). -/
def serTok (mm : Nat) : Tok → List Nat
  | .lit c => [65 + c]
  | .bang => [33]
  | .nrun n => lzNRunStarter :: (natDigits (n - lzMinNRunLen) ++ [lzNCode])
  | .mtch d none => appendInt d ++ [46]
  | .mtch d (some l) => appendInt d ++ (44 :: (natDigits (l - mm) ++ [46]))

def serialize (mm : Nat) : List Tok → List Nat
  | [] => []
  | t :: ts => serTok mm t ++ serialize mm ts

/-! ## Geometry -/

/-- `LZDiff::new`: `key_len = min_match_len - HASHING_STEP + 1` (line 50). -/
def keyLen (mm : Nat) : Nat := mm + 1 - lzHashingStep

/-- The padding symbol of `prepare` (line 76). -/
def padSym : Nat := 31

/-- `prepare` (69-76): the reference followed by `key_len` padding symbols. -/
def padRef (mm : Nat) (ref : List Nat) : Array Nat :=
  (ref ++ List.replicate (keyLen mm) padSym).toArray

/-! ## Decoder, byte level (lines 658-851) -/

def isDigit (b : Nat) : Bool := 48 ≤ b && b ≤ 57

/-- the digit loop of `read_int` (841-844). -/
def readDigits : List Nat → Nat → Nat × List Nat
  | [], acc => (acc, [])
  | b :: bs, acc => if isDigit b then readDigits bs (acc * 10 + (b - 48)) else (acc, b :: bs)

/-- `read_int` (831-851): value and the unread rest; `data[0]` on an empty slice panics. -/
def readInt : List Nat → Option (Int × List Nat)
  | [] => none
  | b :: bs =>
    if b = 45 then
      let r := readDigits bs 0
      some (-(r.1 : Int), r.2)
    else
      let r := readDigits (b :: bs) 0
      some ((r.1 : Int), r.2)

theorem readDigits_length (bs : List Nat) (acc : Nat) : (readDigits bs acc).2.length ≤ bs.length := by
  induction bs generalizing acc with
  | nil => simp [readDigits]
  | cons b bs ih =>
    simp only [readDigits]
    split
    · exact Nat.le_trans (ih _) (by simp)
    · simp

theorem readInt_length {bs : List Nat} {v : Int} {r : List Nat} (h : readInt bs = some (v, r)) :
    r.length ≤ bs.length := by
  cases bs with
  | nil => simp [readInt] at h
  | cons b bs =>
    simp only [readInt] at h
    split at h
    · simp only [Option.some.injEq, Prod.mk.injEq] at h
      rw [← h.2]; exact Nat.le_trans (readDigits_length _ _) (by simp)
    · simp only [Option.some.injEq, Prod.mk.injEq] at h
      rw [← h.2]; exact readDigits_length _ _

/-- `is_literal` (742-744). -/
def isLiteral (b : Nat) : Bool := (65 ≤ b && b ≤ 65 + lzLiteralSpan) || b = 33

/-- Lexing of one operation at `encoded[i..]`: the three-way test of the `decode` loop (666, 681,
    695) with `decode_literal` (747-753), `decode_nrun` (756-762) and `decode_match` (766-828).
    Returns the operation and the unread rest; `none` is a panic (`data[0]` on an empty slice,
    "missing separator", "missing length", "expected comma or period") or a number outside the
    modelled range (negative run length / match length). A letter whose code equals `b'!'` would
    be taken for `'!'` by `if c == b'!'` (668); that is kept. -/
def lexTok (mm : Nat) : List Nat → Option (Tok × List Nat)
  | [] => none
  | b :: rest =>
    if isLiteral b then
      let c := if b = 33 then 33 else b - 65
      some (if c = 33 then Tok.bang else Tok.lit c, rest)
    else if b = lzNRunStarter then
      match readInt rest with
      | none => none
      | some (v, r) => if v < 0 then none else some (Tok.nrun (v.toNat + lzMinNRunLen), r.drop 1)
    else
      match readInt (b :: rest) with
      | none => none
      | some (_, []) => none
      | some (d, s :: r2) =>
        if s = 46 then some (Tok.mtch d none, r2)
        else if s = 44 then
          match readInt r2 with
          | none => none
          | some (v, r3) => if v < 0 then none else some (Tok.mtch d (some (v.toNat + mm)), r3.drop 1)
        else none

theorem lexTok_length {mm : Nat} {bs : List Nat} {tok : Tok} {r : List Nat}
    (h : lexTok mm bs = some (tok, r)) : r.length < bs.length := by
  cases bs with
  | nil => simp [lexTok] at h
  | cons b rest =>
    simp only [lexTok] at h
    split at h
    · simp only [Option.some.injEq, Prod.mk.injEq] at h
      rw [← h.2]; simp
    · split at h
      · split at h
        · cases h
        · next v r' hr =>
          have := readInt_length hr
          split at h
          · cases h
          · simp only [Option.some.injEq, Prod.mk.injEq] at h
            rw [← h.2]; simp only [List.length_drop, List.length_cons]; omega
      · split at h
        · cases h
        · cases h
        · next d s r2 hr =>
          have h1 := readInt_length hr
          simp only [List.length_cons] at h1
          split at h
          · simp only [Option.some.injEq, Prod.mk.injEq] at h
            rw [← h.2]; simp only [List.length_cons]; omega
          · split at h
            · split at h
              · cases h
              · next v r3 hr3 =>
                have h3 := readInt_length hr3
                split at h
                · cases h
                · simp only [Option.some.injEq, Prod.mk.injEq] at h
                  rw [← h.2]; simp only [List.length_drop, List.length_cons]; omega
            · cases h

/-- Execution of one operation (668-679, 683, 698-709): `out` = `decoded`, `pred` = `pred_pos`.
    Slices are taken from the *padded* reference and panic (`none`) when they do not fit;
    a negative `ref_pos` wraps to a huge `usize` and panics in the slice as well. -/
def execTok (refP : Array Nat) (refLen : Nat) (out : Array Nat) (pred : Nat) : Tok → Option (Array Nat × Nat)
  | .lit c => some (out.push c, pred + 1)
  | .bang =>
    match refP[pred]? with
    | none => none
    | some a => some (out.push a, pred + 1)
  | .nrun n => some (out ++ Array.replicate n lzNCode, pred)
  | .mtch d len =>
    let q := (pred : Int) + d
    if q < 0 then none
    else
      match len with
      | none =>
        if refLen < q.toNat then none
        else if q.toNat + (refLen - q.toNat) ≤ refP.size then
          some (out ++ refP.extract q.toNat (q.toNat + (refLen - q.toNat)), q.toNat + (refLen - q.toNat))
        else none
      | some l =>
        if q.toNat + l ≤ refP.size then some (out ++ refP.extract q.toNat (q.toNat + l), q.toNat + l)
        else none

/-- The loop of `decode` (665-713); `bytes` is `encoded[i..]`. -/
def decodeGo (refP : Array Nat) (refLen mm : Nat) (bytes : List Nat) (out : Array Nat) (pred : Nat) :
    Option (Array Nat) :=
  if bytes = [] then some out
  else
    match h : lexTok mm bytes with
    | none => none
    | some (tok, rest) =>
      match execTok refP refLen out pred tok with
      | none => none
      | some (out', pred') => decodeGo refP refLen mm rest out' pred'
termination_by bytes.length
decreasing_by exact lexTok_length h

/-- `LZDiff::new(mm)`, `prepare(ref)`, `decode(bytes)`. -/
def decode (mm : Nat) (ref bytes : List Nat) : Option (List Nat) :=
  (decodeGo (padRef mm ref) ref.length mm bytes #[] 0).map Array.toList

/-- How the reader uses `decode` (decompressor.rs 862-871): an empty delta stands for the
    reference itself. -/
def decodeSeg (mm : Nat) (ref bytes : List Nat) : Option (List Nat) :=
  if bytes = [] then some ref else decode mm ref bytes

/-! ## Decoder, token level (specification side) -/

/-- One decoder step on a token: state = (output so far, `pred_pos`). -/
def stepTok (refP : Array Nat) (refLen : Nat) (st : List Nat × Nat) : Tok → Option (List Nat × Nat)
  | .lit c => some (st.1 ++ [c], st.2 + 1)
  | .bang =>
    match refP[st.2]? with
    | none => none
    | some a => some (st.1 ++ [a], st.2 + 1)
  | .nrun n => some (st.1 ++ List.replicate n lzNCode, st.2)
  | .mtch d len =>
    let q := (st.2 : Int) + d
    if q < 0 then none
    else
      match len with
      | none =>
        if refLen < q.toNat then none
        else if q.toNat + (refLen - q.toNat) ≤ refP.size then
          some (st.1 ++ (refP.extract q.toNat (q.toNat + (refLen - q.toNat))).toList, q.toNat + (refLen - q.toNat))
        else none
      | some l =>
        if q.toNat + l ≤ refP.size then
          some (st.1 ++ (refP.extract q.toNat (q.toNat + l)).toList, q.toNat + l)
        else none

def decToks (refP : Array Nat) (refLen : Nat) : List Tok → List Nat × Nat → Option (List Nat × Nat)
  | [], st => some st
  | t :: ts, st =>
    match stepTok refP refLen st t with
    | none => none
    | some st' => decToks refP refLen ts st'

/-! ## K-mer codes and hashing -/

/-- Result of reading a k-mer: `oob` is the slice-index panic, `invalid` is `None`. -/
inductive CodeR where
  | oob
  | invalid
  | ok (c : UInt64)
deriving Repr, DecidableEq

/-- loop of `get_code` (158-167) on `a[off..]`, `n` symbols still to read. -/
def getCodeGo (a : Array Nat) : Nat → Nat → UInt64 → CodeR
  | _, 0, code => .ok code
  | off, n + 1, code =>
    match a[off]? with
    | none => .oob
    | some s => if s > 3 then .invalid else getCodeGo a (off + 1) n ((code <<< 2) ||| UInt64.ofNat s)

/-- `get_code(&a[off..])` with `key_len = k`. -/
def getCode (a : Array Nat) (off k : Nat) : CodeR := getCodeGo a off k 0

/-- `key_mask` (51-55). -/
def keyMask (k : Nat) : UInt64 :=
  if k ≥ 32 then 0xFFFFFFFFFFFFFFFF else ((1 : UInt64) <<< UInt64.ofNat (2 * k)) - 1

/-- `get_code_skip1(prev, &a[off..])` (170-177); `k ≥ 1`. -/
def getCodeSkip1 (prev : UInt64) (a : Array Nat) (off k : Nat) : CodeR :=
  match a[off + (k - 1)]? with
  | none => .oob
  | some s => if s > 3 then .invalid else .ok (((prev <<< 2) &&& keyMask k) ||| UInt64.ofNat s)

/-- the k-mer code selection at the top of the encoder loop (439-447). -/
def nextCode (xprev : Option UInt64) (npl : Nat) (t : Array Nat) (i k : Nat) : CodeR :=
  match xprev with
  | some p => if npl > 0 then getCodeSkip1 p t i k else getCode t i k
  | none => getCode t i k

/-- hash.rs `MurMur64Hash::hash` (lines 11-18). -/
def murmur64 (h : UInt64) : UInt64 :=
  let h := h ^^^ (h >>> 33)
  let h := h * 0xff51afd7ed558ccd
  let h := h ^^^ (h >>> 33)
  let h := h * 0xc4ceb9fe1a85ec53
  h ^^^ (h >>> 33)

/-! ## Verified selection (`find_best_match_lp`, lines 246-378, minus the table probing) -/

/-- `matching_length` (381-388) on `t[ti..]`, `r[ri..]`; `n` = the bound `max`. -/
def matchLen (t r : Array Nat) : Nat → Nat → Nat → Nat
  | _, _, 0 => 0
  | ti, ri, n + 1 =>
    match t[ti]?, r[ri]? with
    | some a, some b => if a = b then matchLen t r (ti + 1) (ri + 1) n + 1 else 0
    | _, _ => 0

/-- the backward loop (338-345): compares `t[ti-1-b]` with `r[ri-1-b]` for `b < n = max_back`. -/
def backLen (t r : Array Nat) : Nat → Nat → Nat → Nat
  | _, _, 0 => 0
  | ti, ri, n + 1 =>
    match t[ti - 1]?, r[ri - 1]? with
    | some a, some b => if a = b then backLen t r (ti - 1) (ri - 1) n + 1 else 0
    | _, _ => 0

/-- best-so-far of the probe loop: `best_ref_pos`, `best_len_bck`, `best_len_fwd`, `min_to_update`. -/
structure Best where
  pos : Nat
  bck : Nat
  fwd : Nat
  mtu : Nat
deriving Repr, DecidableEq

inductive Found where
  | panic
  | noMatch
  | found (pos bck fwd : Nat)
deriving Repr, DecidableEq

/-- The body of the probe loop (278-360) for one candidate position `h` (= `h_pos`), and the final
    test (373-377). `ti` = `text_pos`, `maxLen` = `max_len`, `npl` = `no_prev_literals`. -/
def selectBest (mm k : Nat) (refP t : Array Nat) (code : UInt64) (ti maxLen npl : Nat) :
    List Nat → Best → Found
  | [], b => if b.bck + b.fwd ≥ mm then .found b.pos b.bck b.fwd else .noMatch
  | h :: hs, b =>
    if h ≥ refP.size then selectBest mm k refP t code ti maxLen npl hs b
    else
      match getCode refP h k with
      | .oob => .panic
      | .invalid => selectBest mm k refP t code ti maxLen npl hs b
      | .ok c =>
        if c ≠ code then selectBest mm k refP t code ti maxLen npl hs b
        else
          let f := matchLen t refP ti h (min maxLen (min (t.size - ti) (refP.size - h)))
          if f ≥ k then
            let bl := backLen t refP ti h (min npl (min h ti))
            if bl + f > b.mtu then
              selectBest mm k refP t code ti maxLen npl hs ⟨h, bl, f, bl + f⟩
            else selectBest mm k refP t code ti maxLen npl hs b
          else selectBest mm k refP t code ti maxLen npl hs b

/-- `find_best_match_lp` for the candidates `cands` (in probe order). -/
def findBest (mm : Nat) (refP t : Array Nat) (code : UInt64) (ti npl : Nat) (cands : List Nat) : Found :=
  selectBest mm (keyLen mm) refP t code ti (t.size - ti) npl cands ⟨0, 0, 0, mm⟩

/-- What the termination proof of the encoder needs: a reported match has `fwd ≥ key_len`
    (the general soundness statement is in `Lemmas/LzDiffFind.lean`). -/
theorem selectBest_fwd {mm k : Nat} {refP t : Array Nat} {code : UInt64} {ti maxLen npl : Nat}
    (hmm : 0 < mm) :
    ∀ (cands : List Nat) (b : Best) {p bk f : Nat},
      (b.bck + b.fwd = 0 ∨ k ≤ b.fwd) →
      selectBest mm k refP t code ti maxLen npl cands b = .found p bk f → k ≤ f := by
  intro cands
  induction cands with
  | nil =>
    intro b p bk f hb h
    simp only [selectBest] at h
    split at h
    · simp only [Found.found.injEq] at h
      rcases hb with hb | hb
      · omega
      · omega
    · cases h
  | cons hd tl ih =>
    intro b p bk f hb h
    simp only [selectBest] at h
    split at h
    · exact ih b hb h
    · split at h
      · cases h
      · exact ih b hb h
      · split at h
        · exact ih b hb h
        · split at h
          · split at h
            · exact ih _ (Or.inr (by assumption)) h
            · exact ih b hb h
          · exact ih b hb h

theorem findBest_fwd {mm : Nat} {refP t : Array Nat} {code : UInt64} {ti npl : Nat} {cands : List Nat}
    {p bk f : Nat} (hmm : lzHashingStep ≤ mm)
    (h : findBest mm refP t code ti npl cands = .found p bk f) : 1 ≤ f := by
  have hk : 1 ≤ keyLen mm := by unfold keyLen; omega
  have h4 : 0 < mm := by
    have : 0 < lzHashingStep := by decide
    omega
  exact Nat.le_trans hk (selectBest_fwd h4 cands _ (Or.inl rfl) h)

/-! ## N runs, bang rewriting, tail -/

/-- the `while` of `get_nrun_len` (186-188): number of further N symbols from `t[j]`, at most `n`. -/
def countN (t : Array Nat) : Nat → Nat → Nat
  | _, 0 => 0
  | j, n + 1 => if t[j]? = some lzNCode then countN t (j + 1) n + 1 else 0

/-- `get_nrun_len(&t[i..], t.len() - i)` (180-190). -/
def nrunLen (t : Array Nat) (i : Nat) : Nat :=
  if t.size - i < 3 then 0
  else if t[i]? = some lzNCode ∧ t[i + 1]? = some lzNCode ∧ t[i + 2]? = some lzNCode then
    3 + countN t (i + 3) (t.size - i - 3)
  else 0

/-- The bang scan (515-529) on the token list (newest first). `k` is `scan_i`; the scanned byte is
    the single byte of the `k`-th newest token as long as all newer tokens are literals, and the
    last byte of every other token (`'!'`, `N_CODE`, `'.'`) is outside `'A'..='Z'`, which ends the
    scan. `bound` is `max_scan = min(e_size, adjusted_match_pos)`. `ref_idx = amp - k < amp ≤ h_pos
    < |reference|`, so the index is in range. -/
def bangScan (refP : Array Nat) (amp bound : Nat) : Nat → List Tok → List Tok
  | k, .lit c :: rest =>
    if k < bound ∧ c ≤ 25 then
      (if refP[amp - k]? = some c then Tok.bang else Tok.lit c) :: bangScan refP amp bound (k + 1) rest
    else .lit c :: rest
  | _, toks => toks

/-- lines 511-531. -/
def rewriteBang (refP : Array Nat) (amp pred esz : Nat) (toks : List Tok) : List Tok :=
  if amp = pred then bangScan refP amp (min esz amp) 1 toks else toks

/-- `len_to_encode` (496-502). -/
def matchLenField (refLen tsize i total mpos fwd : Nat) : Option Nat :=
  if i + total = tsize ∧ mpos + fwd = refLen then none else some total

/-- the final literal loop (559-566), pushed onto the newest-first token list. -/
def tailLits (t : Array Nat) (i : Nat) (toks : List Tok) : List Tok :=
  ((t.extract i t.size).toList.map Tok.lit).reverse ++ toks

/-! ## The encoder loop (lines 431-556) -/

/-- `encoded.len()` for the tokens emitted so far (newest first). -/
def encLen (mm : Nat) : List Tok → Nat
  | [] => 0
  | x :: xs => (serTok mm x).length + encLen mm xs

/-- State: `i`, `pred_pos`, `no_prev_literals`, the tokens emitted so far (newest first), `x_prev`.
    `S` supplies the candidate positions for a k-mer code. `e_size = encoded.len()` (512) is
    recomputed from the tokens. The subtractions `i -= len_bck`, `pred_pos -= len_bck`,
    `match_pos - len_bck` never truncate (`len_bck ≤ no_prev_literals ≤ i, pred_pos` and
    `len_bck ≤ h_pos`, see `MatchOK`). -/
def encLoop (S : UInt64 → List Nat) (mm : Nat) (hmm : lzHashingStep ≤ mm) (refP : Array Nat)
    (refLen : Nat) (t : Array Nat) (i pred npl : Nat) (toks : List Tok)
    (xprev : Option UInt64) : Option (List Tok) :=
  if hlt : i + keyLen mm < t.size then
    match nextCode xprev npl t i (keyLen mm) with
    | .oob => none
    | .invalid =>
      if hn : nrunLen t i ≥ lzMinNRunLen then
        encLoop S mm hmm refP refLen t (i + nrunLen t i) pred 0 (.nrun (nrunLen t i) :: toks) none
      else
        match t[i]? with
        | none => none
        | some c => encLoop S mm hmm refP refLen t (i + 1) (pred + 1) (npl + 1) (.lit c :: toks) none
    | .ok code =>
      match hf : findBest mm refP t code i npl (S code) with
      | .panic => none
      | .noMatch =>
        match t[i]? with
        | none => none
        | some c =>
          encLoop S mm hmm refP refLen t (i + 1) (pred + 1) (npl + 1) (.lit c :: toks) (some code)
      | .found mpos bck fwd =>
        -- 482-488: pop the literals covered by the backward extension
        let i' := i - bck
        let pred' := pred - bck
        let toks' := toks.drop bck
        let total := bck + fwd
        let amp := mpos - bck
        let tok := Tok.mtch ((amp : Int) - (pred' : Int)) (matchLenField refLen t.size i' total mpos fwd)
        let toks'' := rewriteBang refP amp pred' (encLen mm toks') toks'
        encLoop S mm hmm refP refLen t (i' + total) (amp + total) 0 (tok :: toks'') (some code)
  else some (tailLits t i toks)
termination_by t.size - i
decreasing_by
  · have : 0 < lzMinNRunLen := by decide
    omega
  · omega
  · omega
  · have := findBest_fwd hmm hf
    omega

/-- `encode` (391-655) for a prepared `LZDiff::new(mm)`: the tokens, oldest first. -/
def encodeToks (S : UInt64 → List Nat) (mm : Nat) (ref tgt : List Nat) : Option (List Tok) :=
  if hmm : lzHashingStep ≤ mm then
    -- 405-418: `target.len() == reference_len && zip(target, reference).all(eq)`
    if tgt.length = ref.length ∧ (tgt.zip (padRef mm ref).toList).all (fun p => p.1 == p.2) then some []
    else (encLoop S mm hmm (padRef mm ref) ref.length tgt.toArray 0 0 0 [] none).map List.reverse
  else none

def encode (S : UInt64 → List Nat) (mm : Nat) (ref tgt : List Nat) : Option (List Nat) :=
  (encodeToks S mm ref tgt).map (serialize mm)

/-! ## The exact candidate supplier: the linear-probing index (lines 100-154, 265-281) -/

/-- `u32::MAX`, the empty slot. -/
def emptySlot : Nat := 0xFFFFFFFF

/-- the counting loop 102-119 over the padded reference: state (no_prev_valid, cnt_mod, ht_size). -/
def countValid (refP : Array Nat) (k : Nat) : Nat :=
  (refP.toList.foldl (fun (st : Nat × Nat × Nat) c =>
      let npv := if c < 4 then st.1 + 1 else 0
      let cm := if st.2.1 + 1 = lzHashingStep then 0 else st.2.1 + 1
      let hs := if cm = k % lzHashingStep ∧ npv ≥ k then st.2.2 + 1 else st.2.2
      (npv, cm, hs)) (0, 0, 0)).2.2

/-- `(n as f64 / 0.7) as u64`, exactly: `0.7f64 = 0x16666666666666 / 2^53`, IEEE division rounds the
    exact quotient to 53 significant bits (nearest, ties to even), the cast truncates.
    (`n < 2^53`, so `n as f64` is exact.) -/
def f64Div07Floor (n : Nat) : Nat :=
  if n = 0 then 0 else
  let num := n * 2 ^ 53
  let den := 0x16666666666666
  let e := Nat.log2 (num / den)
  if e ≤ 52 then
    let s := 52 - e
    let m := (num * 2 ^ s) / den
    let r := (num * 2 ^ s) % den
    let m' := if 2 * r > den ∨ (2 * r = den ∧ m % 2 = 1) then m + 1 else m
    m' / 2 ^ s
  else
    let s := e - 52
    let m := num / (den * 2 ^ s)
    let r := num % (den * 2 ^ s)
    let m' := if 2 * r > den * 2 ^ s ∨ (2 * r = den * 2 ^ s ∧ m % 2 = 1) then m + 1 else m
    m' * 2 ^ s

/-- lines 121-132: load factor, round down to a power of two, double, at least 8. -/
def tableSize (cnt : Nat) : Nat :=
  let s := f64Div07Floor cnt
  let s := if s = 0 then 1 else s
  let s := 2 ^ Nat.log2 s
  let s := s * 2
  if s < 8 then 8 else s

/-- lines 144-150: first empty slot among `tries` probes from `base + j`. -/
def probeInsert (tbl : Array Nat) (base v : Nat) : Nat → Nat → Array Nat
  | 0, _ => tbl
  | tries + 1, j =>
    let idx := (base + j) % tbl.size
    if tbl.getD idx emptySlot = emptySlot then tbl.set! idx v
    else probeInsert tbl base v tries (j + 1)

/-- lines 139-153. -/
def insertLoop (refP : Array Nat) (k : Nat) (tbl : Array Nat) (i : Nat) : Array Nat :=
  if h : i + k < refP.size then
    match getCode refP i k with
    | .ok code =>
      insertLoop refP k
        (probeInsert tbl ((murmur64 code).toNat % tbl.size) (i / lzHashingStep) lzMaxNoTries 0)
        (i + lzHashingStep)
    | _ => insertLoop refP k tbl (i + lzHashingStep)
  else tbl
termination_by refP.size - i
decreasing_by
  all_goals
    have : 0 < lzHashingStep := by decide
    omega

/-- `build_index_lp` (100-154). -/
def buildIndex (refP : Array Nat) (k : Nat) : Array Nat :=
  insertLoop refP k (Array.replicate (tableSize (countValid refP k)) emptySlot) 0

/-- the probe sequence of `find_best_match_lp` (269-278): `h_pos` of every occupied slot up to the
    first empty one, at most `MAX_NO_TRIES`. -/
def probeLookup (tbl : Array Nat) (base : Nat) : Nat → Nat → List Nat
  | 0, _ => []
  | tries + 1, j =>
    let slot := tbl.getD ((base + j) % tbl.size) emptySlot
    if slot = emptySlot then [] else (slot * lzHashingStep) :: probeLookup tbl base tries (j + 1)

def lookup (tbl : Array Nat) (code : UInt64) : List Nat :=
  probeLookup tbl ((murmur64 code).toNat % tbl.size) lzMaxNoTries 0

/-- The supplier that `prepare` builds for the padded reference `refP`. -/
def exactSupplier (mm : Nat) (refP : Array Nat) : UInt64 → List Nat :=
  lookup (buildIndex refP (keyLen mm))

/-- Byte-exact model of `LZDiff::new(mm)`, `prepare(ref)`, `encode(tgt)`.
    (`= encode (exactSupplier mm (padRef mm ref)) mm ref tgt`, see `encodeExact_eq`; written with an
    explicit `let` so that the compiled code builds the table once.) -/
def encodeExact (mm : Nat) (ref tgt : List Nat) : Option (List Nat) :=
  let tbl := buildIndex (padRef mm ref) (keyLen mm)
  encode (lookup tbl) mm ref tgt

theorem encodeExact_eq (mm : Nat) (ref tgt : List Nat) :
    encodeExact mm ref tgt = encode (exactSupplier mm (padRef mm ref)) mm ref tgt := rfl

end Ragc.Model.LzDiff
