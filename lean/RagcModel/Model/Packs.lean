import RagcModel.Model.Range
/-!
Writer-side models of `ragc-core/src/agc_compressor.rs` used by C01/C02:

* the pack layout of `flush_pack_compress_only` / `flush_pack` / the final partial packs of
  `finalize` (`compress_pack` closure, lines 2741-2777, and 1941-1953): every delta followed by
  `CONTIG_SEPARATOR`, the first pack of a raw group preceded by the placeholder entry `0x7f`;
* the id / flush bookkeeping of `flush_pack_compress_only` (lines 2781-2836) as a state machine
  over `pending_deltas`, `pending_delta_ids`, `segments_written`, `raw_placeholder_written` and the
  packs emitted so far, with the final partial-pack flush of `finalize`;
* `reverse_complement_sequence` (2962-2969) and `split_segment_at_position` (7092-7113), and the
  orientation / part-number bookkeeping of the split branch (4481-4553).

Entries and segments are lists of `Nat` byte values. `lz = true` stands for
`use_lz_encoding = group_id >= NO_RAW_GROUPS`.
-/
namespace Ragc.Packs

/-- `CONTIG_SEPARATOR`, pushed after every entry. -/
def sep : Nat := 255
/-- the placeholder entry of a raw group (`packed_data.push(0x7f)`). -/
def placeholderEntry : List Nat := [127]

/-- `for delta in deltas { packed_data.extend(delta); packed_data.push(CONTIG_SEPARATOR) }`. -/
def packEntries (es : List (List Nat)) : List Nat := es.flatMap (· ++ [sep])

/-- `compress_pack(deltas, needs_raw_placeholder = true, ..)`: `0x7f, 0xFF` first. -/
def packEntriesRaw (es : List (List Nat)) : List Nat := packEntries (placeholderEntry :: es)

/-! ## id and flush bookkeeping -/

/-- The part of `SegmentGroupBuffer` that decides ids and pack boundaries. `packs` collects the
entry lists handed to `compress_pack` (the placeholder entry included), oldest first. -/
structure PState where
  pending : List (List Nat)
  pendingIds : List Nat
  written : Nat
  phWritten : Bool
  packs : List (List (List Nat))
deriving Repr, DecidableEq

def PState.init : PState := ⟨[], [], 0, false, []⟩

/-- `needs_placeholder = !use_lz_encoding && !buffer.raw_placeholder_written`: the entries that
precede `pending_deltas` in the next pack. -/
def pre (lz : Bool) (st : PState) : List (List Nat) :=
  if !lz && !st.phWritten then [placeholderEntry] else []

/-- `flush_threshold` (2813-2817): 49 for pack 0 of a raw group, else 50. -/
def threshold (lz : Bool) (st : PState) : Nat := if !lz && !st.phWritten then 49 else 50

/-- Lines 2803-2835 for a delta that is neither empty (LZ) nor already pending: new id
`max(segments_written, 1)`, push, flush when the threshold is reached. Result: new state and id. -/
def addNew (lz : Bool) (st : PState) (d : List Nat) : PState × Nat :=
  let id := max st.written 1
  let pending := st.pending ++ [d]
  if pending.length = threshold lz st then
    (⟨[], [], id + 1, true, st.packs ++ [pre lz st ++ pending]⟩, id)
  else (⟨pending, st.pendingIds ++ [id], id + 1, st.phWritten, st.packs⟩, id)

/-- The loop body 2781-2836 for one segment's `contig_data`: empty LZ delta ⇒ id 0; a delta equal
to a pending one reuses its id; otherwise `addNew`. -/
def assign (lz : Bool) (st : PState) (d : List Nat) : PState × Nat :=
  if lz && d.isEmpty then (st, 0)
  else
    match st.pending.idxOf? d with
    | some j => (st, st.pendingIds.getD j 0)
    | none => addNew lz st d

/-- A whole sequence of `contig_data`s (over any number of `flush_pack_compress_only` calls: the
state persists in the buffer): final state and the ids handed out, in order. -/
def assignAll (lz : Bool) : PState → List (List Nat) → PState × List Nat
  | st, [] => (st, [])
  | st, d :: ds =>
    let r := assign lz st d
    let rest := assignAll lz r.1 ds
    (rest.1, r.2 :: rest.2)

/-- The same for new deltas only. -/
def addAll (lz : Bool) : PState → List (List Nat) → PState × List Nat
  | st, [] => (st, [])
  | st, d :: ds =>
    let r := addNew lz st d
    let rest := addAll lz r.1 ds
    (rest.1, r.2 :: rest.2)

/-- `finalize` 1936-1953: the pending deltas, if any, become the last pack (with the placeholder
if none was written yet). All packs of the stream, in part order. -/
def finish (lz : Bool) (st : PState) : List (List (List Nat)) :=
  if st.pending.isEmpty then st.packs else st.packs ++ [pre lz st ++ st.pending]

/-- Entry `e` of pack `p`. -/
def entryAt (packs : List (List (List Nat))) (p e : Nat) : Option (List Nat) :=
  match packs[p]? with
  | none => none
  | some pack => pack[e]?

/-! ## orientation and splitting -/

/-- `reverse_complement_sequence` (2962-2969): `seq.iter().rev().map(|b| if b < 4 {3-b} else {b})`. -/
def reverseComplementSequence (seq : List Nat) : List Nat :=
  seq.reverse.map (fun b => if b < 4 then 3 - b else b)

/-- `split_segment_at_position(segment_data, split_pos, k)` (7092-7113):
`seg2_start = split_pos.saturating_sub((k+1)/2)`, right = `data[seg2_start..]`,
left = `data[..seg2_start + k]`. `none` where a slice index is out of range (Rust panics). -/
def splitSegmentAtPosition (data : List Nat) (splitPos k : Nat) : Option (List Nat × List Nat) :=
  let s := splitPos - (k + 1) / 2
  if s + k ≤ data.length then some (data.take (s + k), data.drop s) else none

/-- One buffered half: `seg_part_no` offset (0 or 1), stored bytes, `is_rev_comp`. -/
structure Half where
  part : Nat
  data : List Nat
  rev : Bool
deriving Repr, DecidableEq

/-- The `SplitAt` branch (4481-4553) for a segment already brought into its stored orientation
(`segmentData` = `data_rc` if `should_reverse` else `data`): split, re-orient each half whose flag
differs from `should_reverse`, swap the part numbers when `should_reverse`. The two flags
(`left_should_reverse`, `right_should_reverse`) are arguments: the Rust derives them from k-mer
comparisons, the round trip holds for all four combinations. -/
def splitStored (segmentData : List Nat) (splitPos k : Nat) (shouldReverse leftFlag rightFlag : Bool) :
    Option (Half × Half) :=
  match splitSegmentAtPosition segmentData splitPos k with
  | none => none
  | some (l, r) =>
    let lf := if leftFlag != shouldReverse then reverseComplementSequence l else l
    let rf := if rightFlag != shouldReverse then reverseComplementSequence r else r
    some (⟨if shouldReverse then 1 else 0, lf, leftFlag⟩, ⟨if shouldReverse then 0 else 1, rf, rightFlag⟩)

/-- What the reader makes of a stored segment (decompressor.rs 592-597). -/
def readOriented (h : Half) : List Nat :=
  if h.rev then Ragc.Range.reverseComplementSegment h.data else h.data

/-- The two halves in part-number order, as the reader sees them. -/
def readHalves (hs : Half × Half) : List (List Nat) :=
  if hs.1.part ≤ hs.2.part then [readOriented hs.1, readOriented hs.2]
  else [readOriented hs.2, readOriented hs.1]

end Ragc.Packs
