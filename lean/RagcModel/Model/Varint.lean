/-!
Model of `ragc-common/src/varint.rs`.

Bytes are `Nat` (< 256 for real bytes), values are `Nat` (< 2^64 for real `u64`s).

Format written by `write_varint`: one length byte `n` = number of significant bytes of the value
(0 for the value 0), then the `n` significant bytes, most significant first.
-/
namespace Ragc.Varint

/-- Base-256 digits of `v`, least significant first, no leading zero digit (`[]` for 0).
Digit `i` is `(value >> (i*8)) & 0xff` of varint.rs:29. -/
def digits (v : Nat) : List Nat :=
  if h : v = 0 then [] else v % 256 :: digits (v / 256)
decreasing_by omega

/-- varint.rs 11–16: `while tmp > 0 { no_bytes += 1; tmp >>= 8 }`. -/
def byteLen (v : Nat) : Nat := (digits v).length

/-- varint.rs 9–34 `write_varint`: `[no_bytes]` then bytes `i = no_bytes-1 … 0` (big endian).
For `v = 0` this is `[0]` (the special case of lines 19–22 writes the same byte). -/
def writeVarint (v : Nat) : List Nat := byteLen v :: (digits v).reverse

/-- varint.rs 51–56: `for _ in 0..no_bytes { value <<= 8; value += byte }` on a `u64`
(`<<=` drops the high bits silently in every profile; the `+=` cannot overflow because the low
byte is zero after the shift). `none` = `read_exact` hit the end of the input. -/
def readBE (acc : Nat) : Nat → List Nat → Option (Nat × List Nat)
  | 0, r => some (acc, r)
  | _ + 1, [] => none
  | k + 1, b :: r => readBE (acc * 256 % 2 ^ 64 + b) k r

/-- varint.rs 38–59 `read_varint` (value and remaining input; the returned byte count of the Rust
function is modelled separately, see `countOverflows`). `none` = I/O error (unexpected EOF). -/
def readVarint : List Nat → Option (Nat × List Nat)
  | [] => none
  | n :: r => readBE 0 n r

/-- varint.rs:58 `(no_bytes + 1) as usize` is `u8` arithmetic: with overflow checks it panics when
the length byte is 255 (after the 255 payload bytes were read successfully); in release it wraps
to 0, and no caller in archive.rs uses the count. -/
def countOverflows (bs : List Nat) : Bool := bs.head? == some 255

/-- `k` little-endian bytes of `v` (`u64::to_le_bytes` for `k = 8`). -/
def leBytes : Nat → Nat → List Nat
  | 0, _ => []
  | k + 1, v => v % 256 :: leBytes k (v / 256)

/-- `u64::from_le_bytes`. -/
def leVal (bs : List Nat) : Nat := bs.foldr (fun b a => b + 256 * a) 0

/-- varint.rs 62–66 `write_fixed_u64` / archive.rs:362 `footer_size.to_le_bytes()`. -/
def le64 (v : Nat) : List Nat := leBytes 8 v

/-- varint.rs 69–73 `read_fixed_u64`. -/
def readFixedU64 (bs : List Nat) : Option (Nat × List Nat) :=
  if bs.length < 8 then none else some (leVal (bs.take 8), bs.drop 8)

/-- `k` big-endian bytes of `v` (`u64::to_be_bytes` for `k = 8`). -/
def beBytes (k v : Nat) : List Nat := (leBytes k v).reverse

/-- `u64::from_be_bytes`. -/
def beVal (bs : List Nat) : Nat := leVal bs.reverse

end Ragc.Varint
