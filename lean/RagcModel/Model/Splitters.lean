import RagcModel.Model.Kmer
/-!
Model of ragc-core/src/splitters.rs (`determine_splitters`, `determine_splitters_streaming`,
`determine_splitters_streaming_first_sample`, `find_actual_splitters_in_contig[_named]`) and of
kmer_extract.rs `remove_non_singletons`, `remove_non_singletons_with_duplicates`.
Core Lean only (the driver links it).

Not modelled, trusted (DESIGN §3): `rdst` radix sort returns the sorted permutation (here: core
`List.mergeSort`), `AHashSet::contains` is set membership (here: binary search in the sorted
singleton array), `rayon par_iter().map().collect()` preserves order. The results are *sets*
(`AHashSet<u64>`): the driver prints them sorted.

The three Rust entry points differ only in where the contigs come from:
* `determine_splitters(contigs, k, seg)`: the slice it is given;
* `determine_splitters_streaming(path, k, seg)`: every record of the FASTA file (records whose
  sequence is empty are skipped — they contribute nothing to either pass anyway);
* `determine_splitters_streaming_first_sample(path, k, seg)`: the records of the *leading run* of
  records whose parsed sample name (`parse_sample_from_header`: `a#b#c…` ↦ `a#b`, anything else ↦
  `unknown`) equals that of the first record; reading stops (`break`) at the first record with a
  different sample name, in both passes.
All three then run exactly `determineSplitters` below on that contig list.
-/
namespace Ragc.Splitters
open Ragc.Kmer

/-! ### kmer_extract.rs 63–131: run scanning over a sorted vector -/

/-- What the outer loop does at the end of a run `vec[i..j)` of value `x` and length `c = j - i`:
    `keep c` decides whether `x` is emitted (`i + 1 == j` for singletons, `count > 1` for
    duplicates). -/
def emitRun (keep : Nat → Bool) (x : UInt64) (c : Nat) : List UInt64 :=
  if keep c then [x] else []

/-- The two nested `while` loops (kmer_extract.rs 67–81, splitters.rs 66–83) as one pass:
    `x = vec[i]` is the value of the current run, `c = j - i` the number of its elements seen so
    far; the inner loop advances while the next element equals `x`, otherwise the run is closed
    (`emitRun`) and the outer loop restarts at `i = j`. -/
def scanRuns (keep : Nat → Bool) (x : UInt64) (c : Nat) : List UInt64 → List UInt64
  | [] => emitRun keep x c
  | y :: ys =>
    if y = x then scanRuns keep x (c + 1) ys
    else emitRun keep x c ++ scanRuns keep y 1 ys

/-- `remove_non_singletons(vec, 0)`: keep the runs of length exactly one (`i + 1 == j`). -/
def removeNonSingletons : List UInt64 → List UInt64
  | [] => []
  | x :: xs => scanRuns (fun c => c == 1) x 1 xs

/-- splitters.rs 64–83 (and 180–197, 298–315): the values whose run has `count > 1`. -/
def duplicatesOf : List UInt64 → List UInt64
  | [] => []
  | x :: xs => scanRuns (fun c => decide (c > 1)) x 1 xs

/-- `remove_non_singletons_with_duplicates(vec, duplicated, 0)`, one pass producing both outputs
    `(vec', duplicated)`. -/
def scanRuns2 (x : UInt64) (c : Nat) : List UInt64 → List UInt64 × List UInt64
  | [] => if c = 1 then ([x], []) else ([], [x])
  | y :: ys =>
    if y = x then scanRuns2 x (c + 1) ys
    else
      let r := scanRuns2 y 1 ys
      if c = 1 then (x :: r.1, r.2) else (r.1, x :: r.2)

def removeNonSingletonsWithDuplicates : List UInt64 → List UInt64 × List UInt64
  | [] => ([], [])
  | x :: xs => scanRuns2 x 1 xs

/-! ### sorting and membership (trusted library behaviour, executable stand-ins) -/

/-- `all_kmers.radix_sort_unstable()`. -/
def sortKmers (l : List UInt64) : List UInt64 := l.mergeSort (fun a b => decide (a ≤ b))

/-- Binary search for `x` in `a[lo..hi)`. -/
def bsearch (a : Array UInt64) (x : UInt64) (lo hi : Nat) : Bool :=
  if h : lo < hi then
    let mid := lo + (hi - lo) / 2
    if hm : mid < a.size then
      if a[mid] = x then true
      else if a[mid] < x then bsearch a x (mid + 1) hi
      else bsearch a x lo mid
    else false
  else false
termination_by hi - lo
decreasing_by all_goals omega

/-- `candidates.contains(&v)` for the candidate set held as a sorted array. -/
def memSorted (a : Array UInt64) (x : UInt64) : Bool := bsearch a x 0 a.size

/-! ### splitters.rs 370–511: the second pass over one contig -/

/-- One selected splitter. `pos` is the Rust `pos` (index of the base that completed the k-mer),
    kept by the Rust only for logging; `atEnd` marks the "rightmost candidate" rule after the
    loop. Only `kmer` is part of the result. -/
structure Pick where
  pos : Nat
  kmer : UInt64
  atEnd : Bool
deriving Repr, DecidableEq

/-- `for &kmer_value in recent_kmers.iter().rev() { if candidates.contains(..) {push; break} }`.
    `recent` is kept newest-first, so the right-most candidate is the first hit. -/
def endPick (isCand : UInt64 → Bool) : List (Nat × UInt64) → List Pick
  | [] => []
  | (p, v) :: rest => if isCand v then [⟨p, v, true⟩] else endPick isCand rest

/-- The `for &base in contig` loop of `find_actual_splitters_in_contig`.
    State: `km` (the `Kmer`), `curLen` (`current_len`), `recent` (`recent_kmers`, newest first,
    with the position of each entry as ghost data), `pos`. -/
def findLoop (isCand : UInt64 → Bool) (segSize : Nat)
    (km : Kmer) (curLen : Nat) (recent : List (Nat × UInt64)) (pos : Nat) :
    List UInt64 → List Pick
  | [] => endPick isCand recent
  | b :: bs =>
    if b > 3 then
      -- kmer.reset(); recent_kmers.clear(); current_len += 1
      findLoop isCand segSize (reset km) (curLen + 1) [] (pos + 1) bs
    else
      let km' := insert km b
      if isFull km' then
        let v := data km'
        if curLen ≥ segSize && isCand v then
          -- push; current_len = 0; kmer.reset(); recent_kmers.clear(); then current_len += 1
          ⟨pos, v, false⟩ :: findLoop isCand segSize (reset km') 1 [] (pos + 1) bs
        else
          findLoop isCand segSize km' (curLen + 1) ((pos, v) :: recent) (pos + 1) bs
      else
        findLoop isCand segSize km' (curLen + 1) recent (pos + 1) bs

/-- All picks of one contig, with ghost positions: `current_len` starts at `segment_size`. -/
def findPicks (isCand : UInt64 → Bool) (k segSize : Nat) (contig : List UInt64) : List Pick :=
  findLoop isCand segSize (new k) segSize [] 0 contig

/-- `find_actual_splitters_in_contig(contig, candidates, k, segment_size)`. -/
def findSplittersInContig (isCand : UInt64 → Bool) (k segSize : Nat) (contig : List UInt64) :
    List UInt64 :=
  (findPicks isCand k segSize contig).map Pick.kmer

/-! ### splitters.rs 33–112 / 128–240 / 255–367 -/

/-- Pass 1a: `contigs.map(enumerate_kmers).flatten()`. -/
def allKmers (contigs : List (List UInt64)) (k : Nat) : List UInt64 :=
  contigs.flatMap (fun c => enumerateKmers c k)

/-- `(splitters, candidates, duplicates)` of a reference. -/
def determineSplitters (contigs : List (List UInt64)) (k segSize : Nat) :
    List UInt64 × List UInt64 × List UInt64 :=
  let sorted := sortKmers (allKmers contigs k)
  let dups := duplicatesOf sorted
  let singles := removeNonSingletons sorted
  let cand := singles.toArray
  let splitters := contigs.flatMap (findSplittersInContig (memSorted cand) k segSize)
  (splitters, singles, dups)

/-! ### Which records the first-sample variant reads (splitters.rs 265–286, 331–358) -/

/-- `header.split('#')` on the bytes of the header (always at least one part). -/
def splitHash : List Nat → List (List Nat)
  | [] => [[]]
  | c :: cs =>
    if c = 35 then [] :: splitHash cs
    else match splitHash cs with
      | p :: ps => (c :: p) :: ps
      | [] => [[c]]

/-- genome_io.rs `parse_sample_from_header(header).0`: `a#b#c…` ↦ `a#b`, anything else ↦
    `unknown`. -/
def sampleOfHeader (h : List Nat) : List Nat :=
  match splitHash h with
  | a :: b :: _ :: _ => a ++ 35 :: b
  | _ => [117, 110, 107, 110, 111, 119, 110]

/-- The records read by `determine_splitters_streaming_first_sample` (both passes): the first
    record fixes the sample name; reading stops (`break`) at the first record whose sample name
    differs, even if the first sample's name shows up again later. Records with an empty sequence
    are skipped by the Rust; they are kept here because they contribute nothing to either pass. -/
def firstSampleRun : List (List Nat × List UInt64) → List (List UInt64)
  | [] => []
  | (h, c) :: rest =>
    c :: (rest.takeWhile (fun r => sampleOfHeader r.1 == sampleOfHeader h)).map Prod.snd

/-- `determine_splitters_streaming_first_sample` on the parsed records of the file. -/
def determineSplittersFirstSample (recs : List (List Nat × List UInt64)) (k segSize : Nat) :
    List UInt64 × List UInt64 × List UInt64 :=
  determineSplitters (firstSampleRun recs) k segSize

/-- Canonical presentation of a set of k-mers: sorted, without repetitions. -/
def dedupSorted : List UInt64 → List UInt64
  | [] => []
  | [x] => [x]
  | x :: y :: rest => if x = y then dedupSorted (y :: rest) else x :: dedupSorted (y :: rest)

def asSet (l : List UInt64) : List UInt64 := dedupSorted (sortKmers l)

end Ragc.Splitters
