import RagcModel.Model.CollVarint
import RagcModel.Model.Zigzag
import RagcModel.Model.Names
/-
Model of the descriptor codec and the catalogue state of ragc-common/src/collection.rs:
`get_in_group_id / set_in_group_id / clear_in_group_ids` (765–781), `serialize_contig_details`
(784–917), `deserialize_contig_details` (920–1044), `register_sample_contig` (351–383),
`add_segment_placed` (387–428), `store_contig_batch` / `load_contig_batch` with the
`samples_loaded` cursor (1088–1209) and the batching loop of agc_compressor.rs (2066–2075) /
decompressor.rs (203–207).

Release-profile arithmetic (u32 / i32 / u64 wrap; `as` casts truncate or sign-extend exactly as in
Rust). ZSTD and the archive container are the identity here (assumption of C03, proved/exercised by
C12/C13); the harness exercises the real path.
-/
namespace Ragc.Details
open Ragc.CollVarint Ragc.Zigzag Ragc.Names

/-- `SegmentDesc` (34–39). All numeric fields are `u32`. -/
structure Seg where
  group : Nat
  inGroup : Nat
  rev : Bool
  rawLen : Nat
deriving Repr, DecidableEq

/-- `SegmentDesc::empty()` (51–58). -/
def Seg.empty : Seg := { group := U32 - 1, inGroup := U32 - 1, rev := false, rawLen := 0 }

/-- The `in_group_ids: Vec<i32>` predictor table as a finite map with default `-1`
    (`get` returns `-1` beyond the end, `set` grows the vector with `-1`s; the growth factor 1.2
    only affects memory). Most recent binding first. -/
abbrev Table := List (Nat × Int)

def Table.get (t : Table) (g : Nat) : Int :=
  match t with
  | [] => -1
  | (k, v) :: r => if k = g then v else Table.get r g

def Table.set (t : Table) (g : Nat) (v : Int) : Table := (g, v) :: t

/-- `x as i32` for a `u32` value. -/
def toI32 (x : Nat) : Int := if x < 2147483648 then (x : Int) else (x : Int) - 4294967296

/-- `prev_in_group_id + 1` on `i32` (wraps at `i32::MAX`). -/
def succI32 (p : Int) : Int := if p + 1 ≥ 2147483648 then p + 1 - 4294967296 else p + 1

/-- `v as u64` for an `i32` value (sign extension). -/
def i32ToU64 (v : Int) : Nat := if v ≥ 0 then v.toNat else (v + 18446744073709551616).toNat

/-- `v as u32` for an `i32` value. -/
def i32ToU32 (v : Int) : Nat := if v ≥ 0 then v.toNat else (v + 4294967296).toNat

/-- `e_in_group_id` (811–820). -/
def encInGroup (prev : Int) (id : Nat) : Nat :=
  if prev = -1 then id
  else if id = 0 then 0
  else if toI32 id = succI32 prev then 1
  else (zigzagEncode id (i32ToU64 (succI32 prev)) % U32 + 1) % U32

/-- `c_in_group_id` (991–1000). -/
def decInGroup (prev : Int) (e : Nat) : Nat :=
  if prev = -1 then e
  else if e = 0 then 0
  else if e = 1 then i32ToU32 (succI32 prev)
  else zigzagDecode (e - 1) (i32ToU64 (succI32 prev)) % U32

/-- The update rule shared by both directions (838–840, 1021–1023):
    `id as i32 > prev && id > 0`. -/
def update (t : Table) (g : Nat) (prev : Int) (id : Nat) : Table :=
  if toI32 id > prev ∧ id > 0 then t.set g (toI32 id) else t

/-- `pred_raw_length = self.segment_size + self.kmer_length` (u32, wrapping). -/
def predLen (segSize k : Nat) : Nat := (segSize + k) % U32

/-- An encoded descriptor: `(e_group_id, e_in_group_id, e_raw_length, is_rev_comp as u32)`. -/
structure Enc where
  g : Nat
  i : Nat
  l : Nat
  r : Nat
deriving Repr, DecidableEq

/-- First pass of `serialize_contig_details` over the segments in sample/contig/segment order,
    threading the predictor table. -/
def encSegs (pred : Nat) : Table → List Seg → List Enc
  | _, [] => []
  | t, s :: ss =>
    let prev := t.get s.group
    { g := s.group, i := encInGroup prev s.inGroup,
      l := zigzagEncode s.rawLen pred % U32, r := if s.rev then 1 else 0 }
      :: encSegs pred (update t s.group prev s.inGroup) ss

/-- Reconstruction pass of `deserialize_contig_details` (980–1032). -/
def decSegs (pred : Nat) : Table → List Enc → List Seg
  | _, [] => []
  | t, e :: es =>
    let prev := t.get e.g
    let id := decInGroup prev e.i
    { group := e.g, inGroup := id, rev := e.r != 0, rawLen := zigzagDecode e.l pred % U32 }
      :: decSegs pred (update t e.g prev id) es

/-- The predictor table after the encoder has seen the segments (for the synchronisation
    theorem; `serialize_contig_details` leaves it in `self.in_group_ids`). -/
def encFinalTable : Table → List Seg → Table
  | t, [] => t
  | t, s :: ss => encFinalTable (update t s.group (t.get s.group) s.inGroup) ss

/-- The predictor table after the decoder has seen the encoded descriptors. -/
def decFinalTable : Table → List Enc → Table
  | t, [] => t
  | t, e :: es =>
    let prev := t.get e.g
    decFinalTable (update t e.g prev (decInGroup prev e.i)) es

/-- `CollectionVarInt::encode` of every element, concatenated. -/
def encNats : List Nat → List Nat
  | [] => []
  | n :: ns => encode n ++ encNats ns

/-- `no_items` consecutive `CollectionVarInt::decode`s (965–967); trailing bytes are ignored. -/
def decNats : Nat → List Nat → Option (List Nat × List Nat)
  | 0, d => some ([], d)
  | n + 1, d =>
    match decode d with
    | none => none
    | some (x, d1) =>
      match decNats n d1 with
      | some (xs, d2) => some (x :: xs, d2)
      | none => none

/-- Stream 0 after the sample count: per sample the contig count, then the segment count of every
    contig (857–875). -/
def encShape : List (List Nat) → List Nat
  | [] => []
  | s :: ss => encode s.length ++ encNats s ++ encShape ss

/-- First pass of `deserialize_contig_details` (931–949). -/
def decShape : Nat → List Nat → Option (List (List Nat))
  | 0, _ => some []
  | n + 1, d =>
    match decode d with
    | none => none
    | some (nc, d1) =>
      match decNats nc d1 with
      | none => none
      | some (counts, d2) =>
        match decShape n d2 with
        | some rest => some (counts :: rest)
        | none => none

/-- A batch of descriptors: samples → contigs → segments. -/
abbrev Batch := List (List (List Seg))

def shapeOf (b : Batch) : List (List Nat) := b.map (fun s => s.map List.length)

def flatten (b : Batch) : List Seg := (b.map List.flatten).flatten

/-- Cut a flat list into pieces of the given lengths (short input ⇒ short pieces; not reached
    when the list has `sum` elements). -/
def cut {α : Type} : List Nat → List α → List (List α) × List α
  | [], l => ([], l)
  | n :: ns, l =>
    let (rest, l2) := cut ns (l.drop n)
    (l.take n :: rest, l2)

def regroup {α : Type} : List (List Nat) → List α → List (List (List α))
  | [], _ => []
  | s :: ss, l =>
    let (cs, l2) := cut s l
    cs :: regroup ss l2

def sumShape (sh : List (List Nat)) : Nat := (sh.map List.sum).sum

/-- The five raw streams of `serialize_contig_details(id_from, id_to)` for the descriptors of
    `sample_desc[id_from..id_to]`. -/
def encodeDetails (segSize k : Nat) (b : Batch) : List (List Nat) :=
  let encs := encSegs (predLen segSize k) [] (flatten b)
  [ encode b.length ++ encShape (shapeOf b),
    encNats (encs.map Enc.g), encNats (encs.map Enc.i), encNats (encs.map Enc.l), encNats (encs.map Enc.r) ]

def zip4 : List Nat → List Nat → List Nat → List Nat → List Enc
  | g :: gs, i :: is, l :: ls, r :: rs => { g := g, i := i, l := l, r := r } :: zip4 gs is ls rs
  | _, _, _, _ => []

/-- `deserialize_contig_details` up to (not including) the assignment pass: the decoded batch. -/
def decodeDetailsRaw (segSize k : Nat) (s0 s1 s2 s3 s4 : List Nat) : Option Batch :=
  match decode s0 with
  | none => none
  | some (n, d) =>
    match decShape n d with
    | none => none
    | some shape =>
      let items := sumShape shape
      match decNats items s1, decNats items s2, decNats items s3, decNats items s4 with
      | some (gs, _), some (is, _), some (ls, _), some (rs, _) =>
        some (regroup shape (decSegs (predLen segSize k) [] (zip4 gs is ls rs)))
      | _, _, _, _ => none

/-- Does the assignment pass (1035–1041) stay in bounds?  `have` = contig counts of
    `sample_desc[i_sample ..]`. -/
def fits : List Nat → Batch → Bool
  | _, [] => true
  | [], _ :: _ => false
  | h :: hs, s :: ss => decide (s.length ≤ h) && fits hs ss

/-- `deserialize_contig_details(v_data, i_sample)`: errors of the decoding passes first, then the
    index panics of the assignment pass. -/
def decodeDetails (segSize k : Nat) (have_ : List Nat) (s0 s1 s2 s3 s4 : List Nat) : Res Batch :=
  match decodeDetailsRaw segSize k s0 s1 s2 s3 s4 with
  | none => .err
  | some b => if fits have_ b then .ok b else .panic

/-- The same on the list of five streams (`[Vec<u8>; 5]`). -/
def decodeDetailsL (segSize k : Nat) (have_ : List Nat) : List (List Nat) → Res Batch
  | [s0, s1, s2, s3, s4] => decodeDetails segSize k have_ s0 s1 s2 s3 s4
  | _ => .err

/-! ### Catalogue state -/

structure Contig where
  name : Name
  segs : List Seg
deriving Repr, DecidableEq

structure Sample where
  name : Name
  contigs : List Contig
deriving Repr, DecidableEq

/-- The part of `CollectionV3` the property talks about. `sample_ids` is determined by `samples`
    (it maps a name to the index at which it was pushed; names are pushed only when absent). -/
structure Coll where
  samples : List Sample
  loaded : Nat          -- `samples_loaded`
  lastBatch : Nat       -- `no_samples_in_last_batch`
deriving Repr, DecidableEq

def Coll.new : Coll := { samples := [], loaded := 0, lastBatch := 0 }

def isAsciiWs (b : Nat) : Bool := b = 32 || (9 ≤ b && b ≤ 13)

/-- `extract_contig_name` (502–504) for ASCII input: first whitespace-separated word, or the whole
    string if there is none. -/
def extractContigName (s : Name) : Name :=
  let t := s.dropWhile isAsciiWs
  if t.isEmpty then s else t.takeWhile (fun b => !isAsciiWs b)

/-- The sample name under which a pair is stored (352–356). `none`: empty sample name with a
    non-ASCII contig name (Unicode white space is not modelled). -/
def storedName (sample contig : Name) : Option Name :=
  if sample.isEmpty then
    if contig.all (· < 128) then some (extractContigName contig) else none
  else some sample

def addContig (cs : List Contig) (c : Name) : List Contig :=
  if cs.any (fun x => x.name == c) then cs else cs ++ [{ name := c, segs := [] }]

/-- Add the contig to the first sample called `s` (there is at most one). -/
def addToSample : List Sample → Name → Name → List Sample
  | [], _, _ => []
  | x :: xs, s, c =>
    if x.name = s then { x with contigs := addContig x.contigs c } :: xs
    else x :: addToSample xs s c

/-- `register_sample_contig` (351–383) on the sample list. -/
def registerStored (ss : List Sample) (s c : Name) : List Sample :=
  if ss.any (fun x => x.name == s) then addToSample ss s c
  else ss ++ [{ name := s, contigs := [{ name := c, segs := [] }] }]

def register (ss : List Sample) (sample contig : Name) : Option (List Sample) :=
  match storedName sample contig with
  | some s => some (registerStored ss s contig)
  | none => none

def registerAll : List Sample → List (Name × Name) → Option (List Sample)
  | ss, [] => some ss
  | ss, (s, c) :: r =>
    match register ss s c with
    | some ss' => registerAll ss' r
    | none => none

/-- `get_samples_list(false)` (431–437). -/
def samplesList (ss : List Sample) : List Name := ss.map Sample.name

/-- `get_contig_list(sample_name)` (460–468): `sample_ids` maps a name to the (only) entry of
    `sample_desc` with that name. -/
def contigList (ss : List Sample) (s : Name) : Option (List Name) :=
  (ss.find? (fun x => x.name == s)).map (fun x => x.contigs.map Contig.name)

/-- `contig.segments[place] = seg` after `resize(place + 1, SegmentDesc::empty())` (418–422). -/
def placeSeg (segs : List Seg) (place : Nat) (seg : Seg) : List Seg :=
  let padded := if place ≥ segs.length then segs ++ List.replicate (place + 1 - segs.length) Seg.empty else segs
  padded.set place seg

def placeInContigs : List Contig → Name → Nat → Seg → Option (List Contig)
  | [], _, _, _ => none
  | x :: xs, c, place, seg =>
    if x.name = c then some ({ x with segs := placeSeg x.segs place seg } :: xs)
    else match placeInContigs xs c place seg with
      | some r => some (x :: r)
      | none => none

/-- `add_segment_placed` (387–428) for a non-empty sample name; `none` = the `bail!`s. -/
def addSegmentPlaced : List Sample → Name → Name → Nat → Seg → Option (List Sample)
  | [], _, _, _, _ => none
  | x :: xs, s, c, place, seg =>
    if x.name = s then
      match placeInContigs x.contigs c place seg with
      | some cs => some ({ x with contigs := cs } :: xs)
      | none => none
    else match addSegmentPlaced xs s c place seg with
      | some r => some (x :: r)
      | none => none

/-! ### Batches -/

/-- One stored metadata batch: the raw contig-name stream and the five raw descriptor streams. -/
structure StoredBatch where
  names : List Nat
  details : List (List Nat)
deriving Repr, DecidableEq

def namesOf (ss : List Sample) : List (List Name) := ss.map (fun s => s.contigs.map Contig.name)
def segsOf (ss : List Sample) : Batch := ss.map (fun s => s.contigs.map Contig.segs)

/-- `store_contig_batch(archive, id_from, id_to)` (1160–1209) on the samples of the range. -/
def storeBatch (segSize k : Nat) (ss : List Sample) : StoredBatch :=
  { names := encodeNames (namesOf ss), details := encodeDetails segSize k (segsOf ss) }

/-- The loop of agc_compressor.rs 2066–2075: consecutive ranges of `card` (= 50) samples,
    the last one shorter. -/
def storeBatches (segSize k card : Nat) (ss : List Sample) : List StoredBatch :=
  if _h : ss = [] ∨ card = 0 then []
  else storeBatch segSize k (ss.take card) :: storeBatches segSize k card (ss.drop card)
termination_by ss.length
decreasing_by
  have : ss.length ≠ 0 := by
    intro h0; exact _h (Or.inl (List.eq_nil_of_length_eq_zero h0))
  simp only [List.length_drop]; omega

/-- Replace the contig lists of `samples[at ..]` by the decoded names (segments empty). -/
def assignNames : List Sample → Nat → List (List Name) → List Sample
  | ss, _, [] => ss
  | [], _, _ :: _ => []
  | x :: xs, 0, ns :: nss =>
    { x with contigs := ns.map (fun n => { name := n, segs := [] }) } :: assignNames xs 0 nss
  | x :: xs, i + 1, nss => x :: assignNames xs i nss

def assignSegsContigs : List Contig → List (List Seg) → List Contig
  | cs, [] => cs
  | [], _ :: _ => []
  | c :: cs, s :: ss => { c with segs := s } :: assignSegsContigs cs ss

/-- `curr_sample.contigs[j].segments = contig_segs` for the decoded batch (1035–1041). -/
def assignSegs : List Sample → Nat → Batch → List Sample
  | ss, _, [] => ss
  | [], _, _ :: _ => []
  | x :: xs, 0, b :: bs => { x with contigs := assignSegsContigs x.contigs b } :: assignSegs xs 0 bs
  | x :: xs, i + 1, bs => x :: assignSegs xs i bs

/-- `load_contig_batch(archive, id_batch)` (1088–1156): everything is placed at the cumulative
    cursor `samples_loaded`, which then advances by the number of samples of the batch. -/
def loadBatch (segSize k : Nat) (c : Coll) (b : StoredBatch) : Res Coll :=
  let i := c.loaded
  match decodeNames (c.samples.length - i) b.names with
  | .err => .err
  | .panic => .panic
  | .ok nss =>
    let ss1 := assignNames c.samples i nss
    match decodeDetailsL segSize k ((ss1.drop i).map (fun s => s.contigs.length)) b.details with
    | .err => .err
    | .panic => .panic
    | .ok segs =>
      .ok { samples := assignSegs ss1 i segs, loaded := i + nss.length, lastBatch := nss.length }

def loadBatches (segSize k : Nat) : Coll → List StoredBatch → Res Coll
  | c, [] => .ok c
  | c, b :: bs =>
    match loadBatch segSize k c b with
    | .ok c' => loadBatches segSize k c' bs
    | .err => .err
    | .panic => .panic

/-- A fresh reader-side collection after `load_batch_sample_names`. -/
def freshColl (sampleNames : List Name) : Coll :=
  { samples := sampleNames.map (fun n => { name := n, contigs := [] }), loaded := 0, lastBatch := 0 }

/-- Writer side then reader side: sample names, batches of `card`, load batches `0..n-1` in order. -/
def storeLoad (segSize k card : Nat) (ss : List Sample) : Res Coll :=
  match decodeSampleNames (encodeSampleNames (ss.map Sample.name)) with
  | none => .err
  | some names => loadBatches segSize k (freshColl names) (storeBatches segSize k card ss)

end Ragc.Details
