/-!
# Model of the contig reconstruction / range / length queries of `ragc-core/src/decompressor.rs`

Symbols (numeric base codes) are `Nat`s. A segment as the reader sees it is a pair
(`raw_length` of its descriptor, decoded bytes *after* the orientation fix, i.e. after
`reverse_complement_segment` has been applied when `is_rev_comp` is set): the model reads
`rawLen` exactly where the Rust reads `segment.raw_length` and `data` exactly where the Rust reads
`segment_data`.

`usize` subtraction is modelled explicitly: the *checked* reading (dev profile,
`overflow-checks = true`) stops with `underflow`/`none` at the first `a - b` with `a < b`; the
*wrapping* reading (release profile) computes modulo `2^64`.
-/
namespace Ragc.Range

/-- `SegmentDesc.raw_length` together with the decoded, already re-oriented segment bytes. -/
structure Seg where
  rawLen : Nat
  data : List Nat
deriving Repr, DecidableEq

/-- The per-base map inside `reverse_complement_segment` (decompressor.rs:572-584):
`if base < 4 { 3 - base } else { base }`. -/
def complementBase (b : Nat) : Nat := if b < 4 then 3 - b else b

/-- `Decompressor::reverse_complement_segment` (decompressor.rs:572-584):
`segment.iter().rev().map(complement).collect()`. -/
def reverseComplementSegment (s : List Nat) : List Nat :=
  s.reverse.map complementBase

/-! ## `reconstruct_contig` (decompressor.rs:589-672) -/

/-- Loop body of `reconstruct_contig` for the segments after the first one: a segment shorter
than `k` is the `bail!("Corrupted archive: segment too short …")` exit, otherwise
`contig.extend_from_slice(&segment_data[overlap..])`. -/
def reconstructTail (k : Nat) : List Seg → List Nat → Option (List Nat)
  | [], contig => some contig
  | s :: rest, contig =>
    if s.data.length < k then none
    else reconstructTail k rest (contig ++ s.data.drop k)

/-- `Decompressor::reconstruct_contig` (decompressor.rs:589-672): first segment whole, every later
one without its first `k` bytes. `none` = the `Err` exit. -/
def reconstruct (k : Nat) : List Seg → Option (List Nat)
  | [] => some []
  | s :: rest => reconstructTail k rest s.data

/-! ## `get_contig_length` (decompressor.rs:242-276) -/

/-- Outcome of the length computation in the checked (dev-profile) reading. -/
inductive LenOutcome where
  | ok (n : Nat)
  /-- `segment.raw_length as usize - kmer_len` with `raw_length < kmer_len`:
  "attempt to subtract with overflow". -/
  | underflow
deriving Repr, DecidableEq

/-- The `for (i, segment) in segments.iter().enumerate()` loop of `get_contig_length`
(decompressor.rs:266-273), checked reading. State: index `i`, `total_length`. -/
def contigLengthLoop (k : Nat) : Nat → Nat → List Nat → LenOutcome
  | _, total, [] => .ok total
  | i, total, raw :: rest =>
    if i = 0 then contigLengthLoop k (i + 1) (total + raw) rest
    else if raw < k then .underflow
    else contigLengthLoop k (i + 1) (total + (raw - k)) rest

/-- `get_contig_length` (decompressor.rs:242-276) on the list of `raw_length`s of the contig's
descriptors, checked reading (dev profile: underflow panics). -/
def contigLength (k : Nat) (rawLens : List Nat) : LenOutcome :=
  contigLengthLoop k 0 0 rawLens

/-- `a.wrapping_sub(b)` on `usize` (64 bit), for `a, b < 2^64`. -/
def wrappingSub (a b : Nat) : Nat := (a + 2 ^ 64 - b) % 2 ^ 64

/-- `a.wrapping_add(b)` on `usize` (64 bit). -/
def wrappingAdd (a b : Nat) : Nat := (a + b) % 2 ^ 64

/-- The same loop in the wrapping (release-profile) reading. -/
def contigLengthWrapLoop (k : Nat) : Nat → Nat → List Nat → Nat
  | _, total, [] => total
  | i, total, raw :: rest =>
    if i = 0 then contigLengthWrapLoop k (i + 1) (wrappingAdd total raw) rest
    else contigLengthWrapLoop k (i + 1) (wrappingAdd total (wrappingSub raw k)) rest

/-- `get_contig_length`, wrapping reading (release profile: underflow wraps modulo `2^64`). -/
def contigLengthWrapping (k : Nat) (rawLens : List Nat) : Nat :=
  contigLengthWrapLoop k 0 0 rawLens

/-! ## `get_contig_range` (decompressor.rs:303-403) -/

/-- Checked `usize` subtraction: `none` = "attempt to subtract with overflow". -/
def checkedSub (a b : Nat) : Option Nat := if b ≤ a then some (a - b) else none

/-- First pass of `get_contig_range` (decompressor.rs:336-349): the vector `segment_ranges` of
`(seg_start, seg_end, seg_idx)` and the final `contig_pos` (= `contig_len`). State: index `i`,
`contig_pos`. Checked reading: `seg_len - kmer_len` underflowing gives `none`. -/
def segmentRanges (k : Nat) : Nat → Nat → List Seg → Option (List (Nat × Nat × Nat) × Nat)
  | _, pos, [] => some ([], pos)
  | i, pos, s :: rest =>
    match (if i = 0 then some s.rawLen else checkedSub s.rawLen k) with
    | none => none
    | some contribution =>
      let segEnd := pos + contribution
      match segmentRanges k (i + 1) segEnd rest with
      | none => none
      | some (rs, len) => some ((pos, segEnd, i) :: rs, len)

/-- Second pass of `get_contig_range` (decompressor.rs:358-400): the loop over `segment_ranges`
with its `continue` (segment entirely before the range), `break` (segment starts at/after the
clamped end) and the guarded `extend_from_slice`. `segs[idx]?` is `&segments[seg_idx]`
(`none` = index panic, unreachable for the ranges produced by the first pass). -/
def collectRange (k : Nat) (segs : List Seg) (start e : Nat) :
    List (Nat × Nat × Nat) → List Nat → Option (List Nat)
  | [], result => some result
  | (segStart, segEnd, idx) :: rest, result =>
    if segEnd ≤ start then collectRange k segs start e rest result
    else if segStart ≥ e then some result
    else
      match segs[idx]? with
      | none => none
      | some seg =>
        let contributionStart := if idx = 0 then 0 else k
        -- `start.saturating_sub(seg_start)`
        let rangeStart := start - segStart
        -- `(end - seg_start).min(seg_end - seg_start)`; both subtractions are safe here
        let rangeEnd := min (e - segStart) (segEnd - segStart)
        let dataStart := contributionStart + rangeStart
        let dataEnd := contributionStart + rangeEnd
        if dataStart < dataEnd ∧ dataEnd ≤ seg.data.length then
          collectRange k segs start e rest (result ++ (seg.data.drop dataStart).take (dataEnd - dataStart))
        else
          collectRange k segs start e rest result

/-- `get_contig_range` (decompressor.rs:303-403), checked reading (`none` = arithmetic panic of the
dev profile in the first pass). -/
def contigRange (k : Nat) (segs : List Seg) (start end_ : Nat) : Option (List Nat) :=
  if start ≥ end_ then some []
  else
    match segmentRanges k 0 0 segs with
    | none => none
    | some (ranges, contigLen) =>
      let e := min end_ contigLen
      if start ≥ e then some []
      else collectRange k segs start e ranges []

end Ragc.Range
