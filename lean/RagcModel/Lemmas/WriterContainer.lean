import RagcModel.Model.Writer
import RagcModel.Lemmas.Container
import RagcModel.Lemmas.Agc3Names
import RagcModel.Props.C13
/-!
Helper lemmas for `read_write` (C01/C02), part 3: the container. The history of one `create`
(`Writer.archiveOps`: registrations, buffered parts, one flush) closed and opened by the decoder:
the directory lists the registered names in order, and every stream reads back exactly the parts
that were buffered under its name, in order (C13 `rel_run`, `flush_commits_per_stream`).
-/
namespace Ragc.WriterLemmas
open Ragc.Agc3 Ragc.Writer Ragc.Container Ragc.Varint

/-- the parts buffered under one stream name, as they read back -/
def partsOf (parts : List (List Nat × Blob)) (name : List Nat) : List Blob :=
  (parts.filter (fun nb => nb.1 == name)).map (fun nb => Spec.readBack nb.2)

/-! ## the abstract log of the history -/

theorem spec_registers : ∀ (more ns : List (List Nat)), (ns ++ more).Nodup →
    Spec.specFrom ⟨ns, List.replicate ns.length [], []⟩ (more.map Op.register)
      = ⟨ns ++ more, List.replicate (ns ++ more).length [], []⟩ := by
  intro more
  induction more with
  | nil => intro ns _; simp [Spec.specFrom]
  | cons n more ih =>
    intro ns hnd
    have hn : n ∉ ns := by
      intro hc
      have := List.nodup_append.mp hnd
      exact this.2.2 n hc n (by simp) rfl
    simp only [List.map_cons, Spec.specFrom, List.foldl_cons, Spec.step, hn, if_false]
    have hnd' : (ns ++ [n] ++ more).Nodup := by simpa using hnd
    have := ih (ns ++ [n]) hnd'
    simp only [Spec.specFrom, List.length_append, List.length_cons, List.length_nil] at this
    have e : List.replicate ns.length ([] : List Blob) ++ [[]] = List.replicate (ns.length + 0 + 1) [] := by
      simp [List.replicate_succ']
    rw [e, this]
    simp
    omega

theorem spec_addBufs (names : List (List Nat)) :
    ∀ (parts : List (List Nat × Blob)) (a : Spec.Log),
      Spec.specFrom a (parts.map fun nb => Op.addBuf (streamId names nb.1) nb.2.1 nb.2.2)
        = { a with pending := a.pending ++ parts.map fun nb => (streamId names nb.1, nb.2) } := by
  intro parts
  induction parts with
  | nil => intro a; simp [Spec.specFrom]
  | cons nb parts ih =>
    intro a
    simp only [List.map_cons, Spec.specFrom, List.foldl_cons, Spec.step]
    have := ih { a with pending := a.pending ++ [(streamId names nb.1, nb.2.1, nb.2.2)] }
    simp only [Spec.specFrom] at this
    rw [this]
    simp

theorem spec_archiveOps (names : List (List Nat)) (parts : List (List Nat × Blob)) (hnd : names.Nodup) :
    Spec.spec (archiveOps names parts) =
      Spec.step ⟨names, List.replicate names.length [], parts.map fun nb => (streamId names nb.1, nb.2)⟩ .flush := by
  unfold Spec.spec archiveOps
  have h1 := spec_registers names [] (by simpa using hnd)
  simp only [List.nil_append, List.length_nil, List.replicate_zero] at h1
  unfold Spec.specFrom at h1 ⊢
  rw [List.foldl_append, List.foldl_append]
  have h1' : List.foldl Spec.step Spec.Log.init (names.map Op.register)
      = ⟨names, List.replicate names.length [], []⟩ := h1
  rw [h1']
  have h2 := spec_addBufs names parts ⟨names, List.replicate names.length [], []⟩
  unfold Spec.specFrom at h2
  rw [h2]
  simp

theorem idxOf_eq_iff {α : Type} [BEq α] [LawfulBEq α] (l : List α) (hnd : l.Nodup) (x : α) (hx : x ∈ l)
    (i : Nat) (hi : i < l.length) : l.idxOf x = i ↔ x = l[i] := by
  constructor
  · intro h
    have := List.getElem_idxOf (List.idxOf_lt_length_of_mem hx)
    simp only [h] at this
    exact this.symm
  · intro h
    subst h
    exact List.Nodup.idxOf_getElem hnd i hi

/-- the committed parts of stream `i` after the flush -/
theorem spec_parts (names : List (List Nat)) (parts : List (List Nat × Blob)) (hnd : names.Nodup)
    (hin : ∀ nb ∈ parts, nb.1 ∈ names) (i : Nat) (hi : i < names.length) :
    (Spec.spec (archiveOps names parts)).names = names ∧
    (Spec.spec (archiveOps names parts)).parts.getD i [] =
      (parts.filter (fun nb => nb.1 == names[i])).map (·.2) := by
  rw [spec_archiveOps names parts hnd]
  have := Ragc.Props.C13.flush_commits_per_stream
    ⟨names, List.replicate names.length [], parts.map fun nb => (streamId names nb.1, nb.2)⟩ i
    (by simp) (by
      intro x hx
      simp only [List.mem_map] at hx
      obtain ⟨nb, hnb, rfl⟩ := hx
      exact List.idxOf_lt_length_of_mem (hin nb hnb))
  refine ⟨this.2.1, ?_⟩
  rw [this.2.2]
  simp only [List.getD_eq_getElem?_getD, List.getElem?_replicate, hi, if_true, Option.getD_some,
    List.nil_append, List.filter_map, List.map_map]
  congr 1
  apply List.filter_congr
  intro nb hnb
  simp only [Function.comp, streamId]
  have := idxOf_eq_iff names hnd nb.1 (hin nb hnb) i hi
  by_cases h : nb.1 = names[i]
  · have h2 := this.mpr h
    rw [h2, beq_self_eq_true, h, beq_self_eq_true]
  · have h' : ¬ names.idxOf nb.1 = i := fun hc => h (this.mp hc)
    rw [beq_eq_false_iff_ne.mpr h', beq_eq_false_iff_ne.mpr h]

/-! ## reading the parts of a stream -/

theorem partsMatch_cons {w : List Nat} {p : Part} {ps : List Part} {b : Blob} {bl : List Blob}
    (h : PartsMatch w (p :: ps) (b :: bl)) : Framed w p b ∧ PartsMatch w ps bl := by
  refine ⟨h.2 0 p b rfl rfl, ?_, ?_⟩
  · have := h.1; simpa using this
  · intro i q c hq hc
    exact h.2 (i + 1) q c (by simpa using hq) (by simpa using hc)

theorem readParts_match (w tail : List Nat) (hs : (w ++ tail).length ≤ seekMax) :
    ∀ (ps : List Part) (bl : List Blob), PartsMatch w ps bl → (∀ b ∈ bl, b.2 < 2 ^ 64) →
      ps.mapM (readPartA (w ++ tail).toArray) = .ok (bl.map Spec.readBack) := by
  intro ps
  induction ps with
  | nil =>
    intro bl h _
    have : bl = [] := List.eq_nil_of_length_eq_zero (by have := h.1; simpa using this.symm)
    subst this
    rfl
  | cons p ps ih =>
    intro bl h hm
    cases bl with
    | nil => have := h.1; simp at this
    | cons b bl =>
      obtain ⟨hf, hrest⟩ := partsMatch_cons h
      have hrd := readPartData_framed goodRV_readVarintFixed hf tail seekMax hs (hm b (by simp))
      have hend := hf.end_le
      have hoff := hf.off_lt
      have hA := (readPartA_eq (w ++ tail) p (by simp; omega) (by simp at hs; omega) (Spec.readBack b)).mpr hrd
      have hih := ih bl hrest (fun c hc => hm c (by simp [hc]))
      simp only [List.mapM_cons, hA, hih, List.map_cons]
      rfl

/-- **The container gives every part back** (decoder's view). -/
theorem archive_opens (names : List (List Nat)) (parts : List (List Nat × Blob))
    (hnd : names.Nodup) (h0 : 0 < names.length) (hnul : ∀ n ∈ names, ∀ b ∈ n, b ≠ 0)
    (hin : ∀ nb ∈ parts, nb.1 ∈ names) (hmd : ∀ nb ∈ parts, nb.2.2 < 2 ^ 64)
    (hlen : (close (run (archiveOps names parts))).length ≤ seekMax) :
    ∃ o, openArchive (close (run (archiveOps names parts))) = .ok o ∧
      o.dir.map (·.name) = names ∧
      ∀ st ∈ o.dir, readParts o.file st = .ok (partsOf parts st.name) := by
  have hops : ∀ op ∈ archiveOps names parts, OpOK op := by
    intro op hop
    unfold archiveOps at hop
    simp only [List.mem_append, List.mem_map, List.mem_singleton] at hop
    rcases hop with (⟨n, hn, rfl⟩ | ⟨nb, hnb, rfl⟩) | rfl
    · exact hnul n hn
    · exact hmd nb hnb
    · trivial
  have h := rel_run (archiveOps names parts) hops
  have hopen := openBytesFixed_close h seekMax (by decide) hlen
  refine ⟨⟨(close (run (archiveOps names parts))).toArray, (run (archiveOps names parts)).streams⟩, ?_, ?_, ?_⟩
  · unfold openArchive; rw [hopen]
  · have hn := h.names
    rw [← hn]
    exact (spec_parts names parts hnd hin 0 h0).1
  · intro st hst
    obtain ⟨i, hi, rfl⟩ := List.getElem_of_mem hst
    have hnames : (Spec.spec (archiveOps names parts)).names = names :=
      (spec_parts names parts hnd hin 0 h0).1
    have hi' : i < names.length := by rw [← hnames, h.namesLen]; exact hi
    have hsp := (spec_parts names parts hnd hin i hi').2
    have hname : (run (archiveOps names parts)).streams[i].name = names[i] := by
      have := h.names
      rw [hnames] at this
      have := congrArg (fun l => l[i]?) this
      simp only [List.getElem?_map, List.getElem?_eq_getElem hi', List.getElem?_eq_getElem hi,
        Option.map_some, Option.some.injEq] at this
      exact this.symm
    have hlt' : i < (Spec.spec (archiveOps names parts)).parts.length := by rw [h.len]; exact hi
    have hb0 := List.getElem?_eq_getElem hlt'
    have hm := h.parts i _ _ (List.getElem?_eq_getElem hi) hb0
    have hmeta : ∀ b ∈ (Spec.spec (archiveOps names parts)).parts[i], b.2 < 2 ^ 64 :=
      fun b hb => h.metaOK _ (List.getElem_mem hlt') b hb
    have hrd := readParts_match (run (archiveOps names parts)).written
      (serializeFooter (run (archiveOps names parts)).streams ++
        le64 (serializeFooter (run (archiveOps names parts)).streams).length)
      (by simpa [close] using hlen) _ _ hm hmeta
    unfold Agc3.readParts partsOf
    simp only [close] at hrd ⊢
    rw [hrd, hname]
    have : (Spec.spec (archiveOps names parts)).parts[i] =
        (parts.filter (fun nb => nb.1 == names[i])).map (·.2) := by
      rw [← hsp, List.getD_eq_getElem?_getD, hb0]; rfl
    rw [this, List.map_map]
    rfl

end Ragc.WriterLemmas
