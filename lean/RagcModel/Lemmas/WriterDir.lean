import RagcModel.Lemmas.WriterContainer
import RagcModel.Lemmas.WriterGroups
import RagcModel.Lemmas.StreamNames
/-!
Helper lemmas for `read_write` (C01/C02), part 6: the stream directory of the reference writer
(`regNames`: distinct, NUL-free) and the parts buffered under each name (`partsOf (partList …)`).
-/
namespace Ragc.WriterLemmas
open Ragc.Agc3 Ragc.Writer Ragc.Container Ragc.StreamNames

/-! ## names -/

/-- segment stream names start with `x`, the fixed ones do not -/
def isX (n : List Nat) : Bool := n.head? == some 120

theorem isX_delta (g : Nat) : isX (deltaName g) = true := rfl
theorem isX_ref (g : Nat) : isX (refName g) = true := rfl
theorem fixed_not_x : ∀ n ∈ fixedStreamNames, isX n = false := by decide

theorem digitAt_ne_zero (i : Nat) (hi : i < 64) : digitAt i ≠ 0 := by
  unfold digitAt
  have hl : Ragc.Gen.b64Digits.length = 64 := digits_length
  have hall : ∀ d ∈ Ragc.Gen.b64Digits, d ≠ 0 := by decide
  rw [List.getD_eq_getElem?_getD, List.getElem?_eq_getElem (by omega)]
  exact hall _ (List.getElem_mem _)

theorem intToBase64_nz (n : Nat) : ∀ b ∈ intToBase64 n, b ≠ 0 := by
  induction n using Nat.strongRecOn with
  | _ n ih =>
    intro b hb
    unfold intToBase64 at hb
    split at hb
    · simp only [List.mem_singleton] at hb
      subst hb
      exact digitAt_ne_zero _ (Nat.mod_lt _ (by omega))
    · simp only [List.mem_cons] at hb
      rcases hb with hb | hb
      · subst hb
        exact digitAt_ne_zero _ (Nat.mod_lt _ (by omega))
      · exact ih (n / 64) (by omega) b hb

theorem xname_nz (g : Nat) : (∀ b ∈ deltaName g, b ≠ 0) ∧ (∀ b ∈ refName g, b ≠ 0) := by
  constructor <;>
  · intro b hb
    simp only [deltaName, refName, List.mem_cons, List.mem_append, List.mem_singleton, chX, chD, chR] at hb
    rcases hb with hb | hb | hb | hb
    · subst hb; decide
    · exact intToBase64_nz g b hb
    · subst hb; decide
    · cases hb

theorem deltaName_inj (g g' : Nat) (h : deltaName g = deltaName g') : g = g' := by
  unfold deltaName at h
  simp only [List.cons.injEq, true_and] at h
  exact intToBase64_inj g g' (List.append_cancel_right h)

theorem refName_inj (g g' : Nat) (h : refName g = refName g') : g = g' := by
  unfold refName at h
  simp only [List.cons.injEq, true_and] at h
  exact intToBase64_inj g g' (List.append_cancel_right h)

theorem ref_ne_delta (g g' : Nat) : refName g ≠ deltaName g' := by
  intro h
  unfold refName deltaName at h
  simp only [List.cons.injEq, true_and] at h
  have := (List.append_inj' h rfl).2
  simp [chR, chD] at this

/-- the names of the group streams -/
def groupNames (ids : List Nat) : List (List Nat) := ids.flatMap fun g => [deltaName g, refName g]

theorem regNames_eq (dec : Decisions) : regNames dec = fixedStreamNames ++ groupNames (dec.groups.map (·.id)) := by
  unfold regNames groupNames
  rw [List.flatMap_map]

theorem mem_groupNames (ids : List Nat) (n : List Nat) :
    n ∈ groupNames ids ↔ ∃ g ∈ ids, n = deltaName g ∨ n = refName g := by
  unfold groupNames
  simp only [List.mem_flatMap, List.mem_cons, List.not_mem_nil, or_false]

theorem groupNames_nodup : ∀ (ids : List Nat), ids.Nodup → (groupNames ids).Nodup := by
  intro ids
  induction ids with
  | nil => intro _; simp [groupNames]
  | cons g ids ih =>
    intro h
    simp only [List.nodup_cons] at h
    have hrest := ih h.2
    have hnot : ∀ n, n ∈ groupNames ids → n ≠ deltaName g ∧ n ≠ refName g := by
      intro n hn
      obtain ⟨g', hg', hn'⟩ := (mem_groupNames ids n).mp hn
      have hne : g' ≠ g := fun hc => h.1 (hc ▸ hg')
      rcases hn' with rfl | rfl
      · exact ⟨fun hc => hne (deltaName_inj _ _ hc), fun hc => ref_ne_delta _ _ hc.symm⟩
      · exact ⟨fun hc => ref_ne_delta _ _ hc, fun hc => hne (refName_inj _ _ hc)⟩
    show (deltaName g :: refName g :: groupNames ids).Nodup
    simp only [List.nodup_cons, List.mem_cons, not_or]
    refine ⟨⟨fun hc => ref_ne_delta _ _ hc.symm, fun hc => (hnot _ hc).1 rfl⟩, fun hc => (hnot _ hc).2 rfl, hrest⟩

theorem groupNames_isX (ids : List Nat) : ∀ n ∈ groupNames ids, isX n = true := by
  intro n hn
  obtain ⟨g, _, h⟩ := (mem_groupNames ids n).mp hn
  rcases h with rfl | rfl
  · rfl
  · rfl

theorem regNames_nodup (dec : Decisions) (h : (dec.groups.map (·.id)).Nodup) : (regNames dec).Nodup := by
  rw [regNames_eq]
  apply List.nodup_append.mpr
  refine ⟨by decide, groupNames_nodup _ h, ?_⟩
  intro a ha b hb hab
  have h1 := fixed_not_x a ha
  have h2 := groupNames_isX _ b hb
  rw [hab] at h1
  rw [h1] at h2
  cases h2

theorem regNames_nz (dec : Decisions) : ∀ n ∈ regNames dec, ∀ b ∈ n, b ≠ 0 := by
  intro n hn
  rw [regNames_eq] at hn
  rcases List.mem_append.mp hn with h | h
  · have : ∀ n ∈ fixedStreamNames, ∀ b ∈ n, b ≠ 0 := by decide
    exact this n h
  · obtain ⟨g, _, h⟩ := (mem_groupNames _ n).mp h
    rcases h with rfl | rfl
    · exact (xname_nz g).1
    · exact (xname_nz g).2

/-! ## the parts under each name -/

/-- the parts of the groups, by stream name -/
def groupParts (outs : List GroupOut) : List (List Nat × Blob) :=
  outs.flatMap fun o =>
    (match o.refPart with
      | some b => [(refName o.id, b)]
      | none => []) ++ o.packs.map fun b => (deltaName o.id, b)

def fixedParts (cfg : Cfg) (zc : Nat → List Nat → List Nat) (inp : List Writer.Sample) : List (List Nat × Blob) :=
  [(Writer.str "params", (paramsData cfg, 0)), (Writer.str "splitters", ([], 0)), (Writer.str "segment-splitters", ([], 0)),
   (Writer.str "collection-samples", samplesPart zc inp)]

def batchParts (zc : Nat → List Nat → List Nat) (batches : List Ragc.Details.StoredBatch) : List (List Nat × Blob) :=
  batches.flatMap fun b => [(Writer.str "collection-contigs", contigsPart zc b), (Writer.str "collection-details", detailsPart zc b)]

theorem partList_eq (cfg : Cfg) (zc : Nat → List Nat → List Nat) (inp : List Writer.Sample) (outs : List GroupOut)
    (batches : List Ragc.Details.StoredBatch) :
    partList cfg zc inp outs batches =
      groupParts outs ++ fixedParts cfg zc inp ++ batchParts zc batches ++ [(Writer.str "file_type_info", (fileTypeInfo, 7))] := rfl

theorem partsOf_append (p q : List (List Nat × Blob)) (n : List Nat) :
    partsOf (p ++ q) n = partsOf p n ++ partsOf q n := by
  simp [partsOf, List.filter_append]

theorem partsOf_nil_of_names (p : List (List Nat × Blob)) (n : List Nat) (h : ∀ nb ∈ p, nb.1 ≠ n) :
    partsOf p n = [] := by
  unfold partsOf
  rw [List.filter_eq_nil_iff.mpr (fun nb hnb => by simpa using h nb hnb)]
  rfl

theorem groupParts_isX (outs : List GroupOut) : ∀ nb ∈ groupParts outs, isX nb.1 = true := by
  intro nb hnb
  unfold groupParts at hnb
  simp only [List.mem_flatMap, List.mem_append, List.mem_map] at hnb
  obtain ⟨o, _, h | ⟨b, _, rfl⟩⟩ := hnb
  · cases hr : o.refPart with
    | none => rw [hr] at h; simp at h
    | some b => rw [hr] at h; simp only [List.mem_singleton] at h; subst h; rfl
  · rfl

theorem batchParts_names (zc : Nat → List Nat → List Nat) (batches : List Ragc.Details.StoredBatch) :
    ∀ nb ∈ batchParts zc batches, nb.1 = Writer.str "collection-contigs" ∨ nb.1 = Writer.str "collection-details" := by
  intro nb hnb
  unfold batchParts at hnb
  simp only [List.mem_flatMap, List.mem_cons, List.not_mem_nil, or_false] at hnb
  obtain ⟨b, _, h | h⟩ := hnb
  · left; rw [h]
  · right; rw [h]

theorem partsOf_batch_contigs (zc : Nat → List Nat → List Nat) : ∀ (batches : List Ragc.Details.StoredBatch),
    partsOf (batchParts zc batches) (Writer.str "collection-contigs") = batches.map (fun b => Spec.readBack (contigsPart zc b)) := by
  intro batches
  induction batches with
  | nil => rfl
  | cons b bs ih =>
    have : batchParts zc (b :: bs) = [(Writer.str "collection-contigs", contigsPart zc b), (Writer.str "collection-details", detailsPart zc b)] ++ batchParts zc bs := rfl
    rw [this, partsOf_append, ih]
    have h2 : (Writer.str "collection-details" == Writer.str "collection-contigs") = false := by decide
    simp [partsOf, List.filter_cons, h2]

theorem partsOf_batch_details (zc : Nat → List Nat → List Nat) : ∀ (batches : List Ragc.Details.StoredBatch),
    partsOf (batchParts zc batches) (Writer.str "collection-details") = batches.map (fun b => Spec.readBack (detailsPart zc b)) := by
  intro batches
  induction batches with
  | nil => rfl
  | cons b bs ih =>
    have : batchParts zc (b :: bs) = [(Writer.str "collection-contigs", contigsPart zc b), (Writer.str "collection-details", detailsPart zc b)] ++ batchParts zc bs := rfl
    rw [this, partsOf_append, ih]
    have h2 : (Writer.str "collection-contigs" == Writer.str "collection-details") = false := by decide
    simp [partsOf, List.filter_cons, h2]

/-- The parts of a fixed (non-`x`) stream do not come from the groups. -/
theorem partsOf_groupParts_fixed (outs : List GroupOut) (n : List Nat) (hn : isX n = false) :
    partsOf (groupParts outs) n = [] :=
  partsOf_nil_of_names _ _ (fun nb hnb hc => by
    have := groupParts_isX outs nb hnb
    rw [hc, hn] at this
    cases this)

/-- what is buffered under the five fixed names the decoder reads -/
theorem partsOf_fixed (cfg : Cfg) (zc : Nat → List Nat → List Nat) (inp : List Writer.Sample) (outs : List GroupOut)
    (batches : List Ragc.Details.StoredBatch) :
    partsOf (partList cfg zc inp outs batches) (Writer.str "params") = [Spec.readBack (paramsData cfg, 0)] ∧
    partsOf (partList cfg zc inp outs batches) (Writer.str "file_type_info") = [Spec.readBack (fileTypeInfo, 7)] ∧
    partsOf (partList cfg zc inp outs batches) (Writer.str "collection-samples") = [Spec.readBack (samplesPart zc inp)] ∧
    partsOf (partList cfg zc inp outs batches) (Writer.str "collection-contigs")
      = batches.map (fun b => Spec.readBack (contigsPart zc b)) ∧
    partsOf (partList cfg zc inp outs batches) (Writer.str "collection-details")
      = batches.map (fun b => Spec.readBack (detailsPart zc b)) := by
  rw [partList_eq]
  simp only [partsOf_append]
  have hb1 : ∀ n, n ≠ Writer.str "collection-contigs" → n ≠ Writer.str "collection-details" →
      partsOf (batchParts zc batches) n = [] := by
    intro n h1 h2
    apply partsOf_nil_of_names
    intro nb hnb hc
    rcases batchParts_names zc batches nb hnb with h | h
    · exact h1 (hc ▸ h)
    · exact h2 (hc ▸ h)
  refine ⟨?_, ?_, ?_, ?_, ?_⟩
  · rw [partsOf_groupParts_fixed outs _ (by decide), hb1 _ (by decide) (by decide)]
    rfl
  · rw [partsOf_groupParts_fixed outs _ (by decide), hb1 _ (by decide) (by decide)]
    rfl
  · rw [partsOf_groupParts_fixed outs _ (by decide), hb1 _ (by decide) (by decide)]
    rfl
  · rw [partsOf_groupParts_fixed outs _ (by decide), partsOf_batch_contigs]
    have e1 : partsOf (fixedParts cfg zc inp) (Writer.str "collection-contigs") = [] := rfl
    have e2 : partsOf [(Writer.str "file_type_info", (fileTypeInfo, 7))] (Writer.str "collection-contigs") = [] := rfl
    rw [e1, e2]; simp
  · rw [partsOf_groupParts_fixed outs _ (by decide), partsOf_batch_details]
    have e1 : partsOf (fixedParts cfg zc inp) (Writer.str "collection-details") = [] := rfl
    have e2 : partsOf [(Writer.str "file_type_info", (fileTypeInfo, 7))] (Writer.str "collection-details") = [] := rfl
    rw [e1, e2]; simp

/-! ## group streams -/

theorem partsOf_map_same (n : List Nat) (bs : List Blob) :
    partsOf (bs.map fun b => (n, b)) n = bs.map Spec.readBack := by
  unfold partsOf
  rw [List.filter_eq_self.mpr (by intro nb hnb; obtain ⟨b, _, rfl⟩ := List.mem_map.mp hnb; simp)]
  simp [List.map_map, Function.comp_def]

theorem partsOf_one (o : GroupOut) (g : Nat) :
    partsOf ((match o.refPart with
        | some b => [(refName o.id, b)]
        | none => []) ++ o.packs.map fun b => (deltaName o.id, b)) (deltaName g)
      = (if o.id = g then o.packs.map Spec.readBack else []) ∧
    partsOf ((match o.refPart with
        | some b => [(refName o.id, b)]
        | none => []) ++ o.packs.map fun b => (deltaName o.id, b)) (refName g)
      = (if o.id = g then o.refPart.toList.map Spec.readBack else []) := by
  rw [partsOf_append, partsOf_append]
  have hr1 : partsOf (match o.refPart with
        | some b => [(refName o.id, b)]
        | none => []) (deltaName g) = [] := by
    apply partsOf_nil_of_names
    intro nb hnb
    cases hr : o.refPart with
    | none => rw [hr] at hnb; simp at hnb
    | some b =>
      rw [hr] at hnb
      simp only [List.mem_singleton] at hnb
      subst hnb
      exact ref_ne_delta _ _
  have hd2 : partsOf (o.packs.map fun b => (deltaName o.id, b)) (refName g) = [] := by
    apply partsOf_nil_of_names
    intro nb hnb
    obtain ⟨b, _, rfl⟩ := List.mem_map.mp hnb
    exact fun hc => ref_ne_delta _ _ hc.symm
  rw [hr1, hd2]
  by_cases h : o.id = g
  · subst h
    simp only [if_true, List.nil_append, List.append_nil]
    refine ⟨partsOf_map_same _ _, ?_⟩
    cases hr : o.refPart with
    | none => rfl
    | some b => simp [partsOf]
  · simp only [h, if_false, List.nil_append, List.append_nil]
    constructor
    · apply partsOf_nil_of_names
      intro nb hnb
      obtain ⟨b, _, rfl⟩ := List.mem_map.mp hnb
      exact fun hc => h (deltaName_inj _ _ hc)
    · apply partsOf_nil_of_names
      intro nb hnb
      cases hr : o.refPart with
      | none => rw [hr] at hnb; simp at hnb
      | some b =>
        rw [hr] at hnb
        simp only [List.mem_singleton] at hnb
        subst hnb
        exact fun hc => h (refName_inj _ _ hc)

theorem partsOf_groupParts (g : Nat) : ∀ (outs : List GroupOut),
    partsOf (groupParts outs) (deltaName g) = ((outs.filter (fun o => o.id == g)).flatMap (·.packs)).map Spec.readBack ∧
    partsOf (groupParts outs) (refName g) = ((outs.filter (fun o => o.id == g)).flatMap (·.refPart.toList)).map Spec.readBack := by
  intro outs
  induction outs with
  | nil => exact ⟨rfl, rfl⟩
  | cons o os ih =>
    have hcons : groupParts (o :: os) = ((match o.refPart with
        | some b => [(refName o.id, b)]
        | none => []) ++ o.packs.map fun b => (deltaName o.id, b)) ++ groupParts os := rfl
    refine ⟨?_, ?_⟩
    · rw [hcons, partsOf_append _ (groupParts os), ih.1, (partsOf_one o g).1]
      by_cases h : o.id = g
      · simp [h, List.filter_cons]
      · simp [h, List.filter_cons]
    · rw [hcons, partsOf_append _ (groupParts os), ih.2, (partsOf_one o g).2]
      by_cases h : o.id = g
      · simp [h, List.filter_cons]
      · simp [h, List.filter_cons]

theorem filter_by_id (outs : List GroupOut) :
    ∀ (gi : Nat) (h : gi < outs.length), (outs.map (·.id)).Nodup →
      outs.filter (fun o => o.id == outs[gi].id) = [outs[gi]] := by
  induction outs with
  | nil => intro gi h; simp at h
  | cons o os ih =>
    intro gi h hnd
    simp only [List.map_cons, List.nodup_cons] at hnd
    cases gi with
    | zero =>
      simp only [List.getElem_cons_zero, List.filter_cons, beq_self_eq_true, if_true, List.cons.injEq, true_and]
      apply List.filter_eq_nil_iff.mpr
      intro a ha hc
      apply hnd.1
      have : a.id = o.id := by simpa using hc
      rw [← this]
      exact List.mem_map.mpr ⟨a, ha, rfl⟩
    | succ gi =>
      simp only [List.length_cons] at h
      have hne : o.id ≠ os[gi].id := by
        intro hc
        apply hnd.1
        rw [hc]
        exact List.mem_map.mpr ⟨os[gi], List.getElem_mem _, rfl⟩
      simp only [List.getElem_cons_succ, List.filter_cons, beq_eq_false_iff_ne.mpr hne]
      exact ih gi (by omega) hnd.2

theorem fixedRest_not_x (cfg : Cfg) (zc : Nat → List Nat → List Nat) (inp : List Writer.Sample)
    (batches : List Ragc.Details.StoredBatch) (n : List Nat) (hn : isX n = true) :
    partsOf (fixedParts cfg zc inp) n = [] ∧ partsOf (batchParts zc batches) n = [] ∧
      partsOf [(Writer.str "file_type_info", (fileTypeInfo, 7))] n = [] := by
  refine ⟨?_, ?_, ?_⟩
  · apply partsOf_nil_of_names
    intro nb hnb hc
    simp only [fixedParts, List.mem_cons, List.not_mem_nil, or_false] at hnb
    rcases hnb with h | h | h | h <;> (rw [h] at hc; subst hc; cases hn)
  · apply partsOf_nil_of_names
    intro nb hnb hc
    rcases batchParts_names zc batches nb hnb with h | h <;> (rw [h] at hc; subst hc; cases hn)
  · apply partsOf_nil_of_names
    intro nb hnb hc
    simp only [List.mem_singleton] at hnb
    rw [hnb] at hc; subst hc; cases hn

/-- what is buffered under the two stream names of the group at position `gi` -/
theorem partsOf_group (cfg : Cfg) (zc : Nat → List Nat → List Nat) (inp : List Writer.Sample) (outs : List GroupOut)
    (batches : List Ragc.Details.StoredBatch) (hnd : (outs.map (·.id)).Nodup) (gi : Nat) (h : gi < outs.length) :
    partsOf (partList cfg zc inp outs batches) (deltaName outs[gi].id) = outs[gi].packs.map Spec.readBack ∧
    partsOf (partList cfg zc inp outs batches) (refName outs[gi].id) = outs[gi].refPart.toList.map Spec.readBack := by
  rw [partList_eq]
  simp only [partsOf_append]
  obtain ⟨d1, d2, d3⟩ := fixedRest_not_x cfg zc inp batches (deltaName outs[gi].id) rfl
  obtain ⟨r1, r2, r3⟩ := fixedRest_not_x cfg zc inp batches (refName outs[gi].id) rfl
  rw [d1, d2, d3, r1, r2, r3, (partsOf_groupParts _ outs).1, (partsOf_groupParts _ outs).2,
    filter_by_id outs gi h hnd]
  simp

/-- every part is buffered under a registered name -/
theorem partList_names (cfg : Cfg) (zc : Nat → List Nat → List Nat) (inp : List Writer.Sample) (dec : Decisions)
    (outs : List GroupOut) (batches : List Ragc.Details.StoredBatch)
    (hids : outs.map (·.id) = dec.groups.map (·.id)) :
    ∀ nb ∈ partList cfg zc inp outs batches, nb.1 ∈ regNames dec := by
  intro nb hnb
  rw [regNames_eq]
  rw [partList_eq] at hnb
  simp only [List.mem_append] at hnb
  have hfix : ∀ n ∈ fixedStreamNames, n ∈ fixedStreamNames ++ groupNames (dec.groups.map (·.id)) :=
    fun n hn => List.mem_append_left _ hn
  rcases hnb with ((h | h) | h) | h
  · apply List.mem_append_right
    unfold groupParts at h
    simp only [List.mem_flatMap, List.mem_append, List.mem_map] at h
    obtain ⟨o, ho, h⟩ := h
    have hoid : o.id ∈ dec.groups.map (·.id) := by rw [← hids]; exact List.mem_map.mpr ⟨o, ho, rfl⟩
    apply (mem_groupNames _ _).mpr
    refine ⟨o.id, hoid, ?_⟩
    rcases h with h | ⟨b, _, rfl⟩
    · cases hr : o.refPart with
      | none => rw [hr] at h; simp at h
      | some b => rw [hr] at h; simp only [List.mem_singleton] at h; subst h; exact Or.inr rfl
    · exact Or.inl rfl
  · apply hfix
    simp only [fixedParts, List.mem_cons, List.not_mem_nil, or_false] at h
    rcases h with h | h | h | h
    · rw [h]; exact (by decide : Writer.str "params" ∈ fixedStreamNames)
    · rw [h]; exact (by decide : Writer.str "splitters" ∈ fixedStreamNames)
    · rw [h]; exact (by decide : Writer.str "segment-splitters" ∈ fixedStreamNames)
    · rw [h]; exact (by decide : Writer.str "collection-samples" ∈ fixedStreamNames)
  · apply hfix
    rcases batchParts_names zc batches nb h with h | h <;> (rw [h]; decide)
  · apply hfix
    simp only [List.mem_singleton] at h
    rw [h]; exact (by decide : Writer.str "file_type_info" ∈ fixedStreamNames)

end Ragc.WriterLemmas
