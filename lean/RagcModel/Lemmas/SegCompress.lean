import RagcModel.Model.SegCompress
import RagcModel.Lemmas.Tuple
/-!
Helper lemmas for C12 about `Model/Tuple.lean` (top-level functions) and `Model/SegCompress.lean`.
-/
namespace Ragc.Tuple

/-- `bytes_to_tuples` never returns an empty vector (there is always a marker byte). -/
theorem bytesToTuples_ne_nil (bs : List Nat) : bytesToTuples bs ≠ [] := by
  unfold bytesToTuples packTuples
  split
  · simp
  · simp only []
    split
    · simp
    · split
      · simp
      · split <;> simp

/-- Round trip for either arithmetic profile of the decoder, any list of naturals. -/
theorem tuplesToBytesMode_bytesToTuples (c : Bool) (bs : List Nat) :
    tuplesToBytesMode c (bytesToTuples bs) = some bs := by
  unfold bytesToTuples
  by_cases he : bs.isEmpty
  · have : bs = [] := List.isEmpty_iff.mp he
    subst this
    cases c <;> decide
  · rw [if_neg he]
    have hle := le_maxElem bs
    simp only []
    by_cases h4 : maxElem bs < 4
    · rw [if_pos h4]
      exact tuplesToBytesMode_packTuples c 4 4 (Or.inl ⟨rfl, rfl⟩) bs
        (fun b hb => Nat.lt_of_le_of_lt (hle b hb) h4)
    · rw [if_neg h4]
      by_cases h6 : maxElem bs < 6
      · rw [if_pos h6]
        exact tuplesToBytesMode_packTuples c 3 6 (Or.inr (Or.inl ⟨rfl, rfl⟩)) bs
          (fun b hb => Nat.lt_of_le_of_lt (hle b hb) h6)
      · rw [if_neg h6]
        by_cases h16 : maxElem bs < 16
        · rw [if_pos h16]
          exact tuplesToBytesMode_packTuples c 2 16 (Or.inr (Or.inr ⟨rfl, rfl⟩)) bs
            (fun b hb => Nat.lt_of_le_of_lt (hle b hb) h16)
        · rw [if_neg h16]
          unfold tuplesToBytesMode
          have hne : (bs ++ [0x10]).isEmpty = false := by simp
          rw [hne]
          simp only [Bool.false_eq_true, if_false, List.getLast?_concat, Option.getD_some,
            List.dropLast_concat]
          rfl

/-- Every byte of the packed form is a byte (given bytes in). -/
theorem bytesToTuples_lt (bs : List Nat) (h : ∀ b ∈ bs, b < 256) :
    ∀ t ∈ bytesToTuples bs, t < 256 := by
  intro t ht
  unfold bytesToTuples at ht
  have hpack : ∀ n mx, t ∈ packTuples n mx bs → t < 256 := by
    intro n mx hm
    unfold packTuples at hm
    rcases List.mem_append.mp hm with hm | hm
    · exact packLoop_lt n mx _ _ t hm
    · rw [List.mem_singleton] at hm
      subst hm; exact markerByte_lt _ _
  split at ht
  · simp only [List.mem_singleton] at ht; omega
  · simp only [] at ht
    split at ht
    · exact hpack _ _ ht
    · split at ht
      · exact hpack _ _ ht
      · split at ht
        · exact hpack _ _ ht
        · rcases List.mem_append.mp ht with hm | hm
          · exact h t hm
          · rw [List.mem_singleton] at hm; omega

/-- The two arithmetic profiles of `tuples_to_bytes` can differ only on a lone marker byte. -/
theorem tuplesToBytesMode_eq_of_length_ne_one (ts : List Nat) (h : ts.length ≠ 1) :
    tuplesToBytesMode true ts = tuplesToBytesMode false ts := by
  unfold tuplesToBytesMode
  by_cases he : ts.isEmpty
  · rw [if_pos he, if_pos he]
  · rw [if_neg he, if_neg he]
    have hlen : 2 ≤ ts.length := by
      have : ts ≠ [] := fun h0 => he (by rw [h0]; rfl)
      have : ts.length ≠ 0 := fun h0 => this (List.eq_nil_of_length_eq_zero h0)
      omega
    simp only [outputSizeOf, if_pos hlen]

end Ragc.Tuple

namespace Ragc.SegCompress
open Ragc.Tuple

/-- Core of the reference round trip, for a fixed marker choice and either decoder profile. -/
theorem decompress_compressRefWith (tbMode : Bool)
    (zc : Nat → List Nat → List Nat) (zd : List Nat → Option (List Nat))
    (hz : ∀ l x, zd (zc l x) = some x) (hne : ∀ l x, zc l x = [] → x = [])
    (useTuples : Bool) (x : List Nat) :
    decompressWithMarkerMode (tuplesToBytesMode tbMode) zd
      (compressRefWith zc useTuples x).1 (compressRefWith zc useTuples x).2 = some x := by
  unfold compressRefWith decompressWithMarkerMode
  cases useTuples
  · simp only [Bool.false_eq_true, if_false]
    by_cases he : (zc refPlainLevel x).isEmpty
    · rw [if_pos he]
      have := hne _ _ (List.isEmpty_iff.mp he)
      rw [this]
    · rw [if_neg he]
      simp [hz]
  · simp only [if_true]
    have he : (zc refTuplesLevel (bytesToTuples x)).isEmpty = false := by
      cases hc : (zc refTuplesLevel (bytesToTuples x)).isEmpty
      · rfl
      · exact absurd (hne _ _ (List.isEmpty_iff.mp hc)) (bytesToTuples_ne_nil x)
    rw [he]
    simp [hz, tuplesToBytesMode_bytesToTuples]

/-- Core of the pack round trip. -/
theorem decompress_compressConfigured (tb : List Nat → Option (List Nat))
    (zc : Nat → List Nat → List Nat) (zd : List Nat → Option (List Nat))
    (hz : ∀ l x, zd (zc l x) = some x) (hne : ∀ l x, zc l x = [] → x = [])
    (level : Nat) (x : List Nat) :
    decompressWithMarkerMode tb zd (compressSegmentConfigured zc level x) 0 = some x := by
  unfold compressSegmentConfigured decompressWithMarkerMode
  by_cases he : (zc level x).isEmpty
  · rw [if_pos he]
    have := hne _ _ (List.isEmpty_iff.mp he)
    rw [this]
  · rw [if_neg he]
    simp [hz]

/-- Reading back a framed part: raw parts come back verbatim, compressed parts go through
`decompressWithMarker` with the pushed marker. -/
theorem unframe_frame (zd : List Nat → Option (List Nat)) (compressed : List Nat) (marker : Nat)
    (raw : List Nat) (h : decompressWithMarker zd compressed marker = some raw) :
    unframePart zd (framePart compressed marker raw).1 (framePart compressed marker raw).2
      = some raw := by
  unfold framePart unframePart
  simp only []
  by_cases hl : (compressed ++ [marker]).length < raw.length
  · rw [if_pos hl]
    have hpos : raw.length ≠ 0 := by omega
    have hne : (compressed ++ [marker]).isEmpty = false := by simp
    simp only [beq_iff_eq, hpos, if_false, hne, Bool.false_eq_true, List.dropLast_concat,
      List.getLast?_concat, Option.getD_some]
    exact h
  · rw [if_neg hl]
    simp

end Ragc.SegCompress
