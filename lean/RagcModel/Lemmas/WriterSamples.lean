import RagcModel.Lemmas.WriterBases
/-!
Helper lemmas for `read_write` (C01/C02), part 5: `contig_bases` folded over the contigs of a
sample and over the samples (`Agc3.decodeSamples`).
-/
namespace Ragc.WriterLemmas
open Ragc.Agc3 Ragc.Writer

/-- the table `contig name ↦ descriptors` the writer's catalogue holds for one sample -/
def tableOf (outs : List GroupOut) (cs : List Writer.Contig) (dcs : List (List PieceDec)) : ContigTable :=
  List.zipWith (fun c ds => (c.name, ds.map (descOf outs))) cs dcs

/-- what the decoder must return for one sample -/
def contigsOf (outs : List GroupOut) (cs : List Writer.Contig) (dcs : List (List PieceDec)) : List DContig :=
  List.zipWith (fun c ds => (⟨c.name, ds.map (descOf outs), c.data⟩ : DContig)) cs dcs

theorem sampleFold_ok (k mm : Nat) (gds : Array GroupD) (outs : List GroupOut) (sn : List Nat) :
    ∀ (cs : List Writer.Contig) (dcs : List (List PieceDec)) (a : Acc) (acc : Array DContig),
      (∀ x ∈ List.zip cs dcs, ∀ (a : Acc), decodeContig k mm gds sn a (x.1.name, x.2.map (descOf outs))
        = (a, ⟨x.1.name, x.2.map (descOf outs), x.1.data⟩)) →
      (tableOf outs cs dcs).foldl (sampleStep k mm gds sn) (a, acc)
        = (a, acc ++ (contigsOf outs cs dcs).toArray) := by
  intro cs
  induction cs with
  | nil => intro dcs a acc _; simp [tableOf, contigsOf]
  | cons c cs ih =>
    intro dcs a acc h
    cases dcs with
    | nil => simp [tableOf, contigsOf]
    | cons ds dcs =>
      have h0 := h (c, ds) (by simp) a
      simp only [tableOf, contigsOf, List.zipWith_cons_cons, List.foldl_cons] at h0 ⊢
      have hstep : sampleStep k mm gds sn (a, acc) (c.name, ds.map (descOf outs))
          = (a, acc.push ⟨c.name, ds.map (descOf outs), c.data⟩) := by
        unfold sampleStep
        simp only [h0]
      rw [hstep]
      have := ih dcs a (acc.push ⟨c.name, ds.map (descOf outs), c.data⟩)
        (fun x hx => h x (by simp only [List.zip_cons_cons, List.mem_cons]; exact Or.inr hx))
      simp only [tableOf, contigsOf] at this
      rw [this]
      simp

/-- **All samples come back** from the decoder's group table and the catalogue tables. -/
theorem decodeSamples_ok (cfg : Cfg) (inp : List Writer.Sample) (dec : Decisions) (zc : Nat → List Nat → List Nat)
    (outs : List GroupOut) (hok : DecOK cfg inp dec) (hcodes : codesOK inp)
    (hw : writeGroups cfg zc (storedAll cfg.k inp dec) dec.groups = some outs)
    (gds : Array GroupD)
    (hgds : ∀ G ∈ dec.groups, ∀ datas P, G.members.mapM (lookup3 (storedAll cfg.k inp dec)) = some datas →
      planGroup cfg.minMatch G datas = some P → ∃ GD, Agc3.findGroup gds G.id = some GD ∧ GDMatches GD P)
    (a : Acc) :
    decodeSamples cfg.k cfg.minMatch gds (inp.map (·.name))
        (List.zipWith (fun s dcs => tableOf outs s.contigs dcs) inp dec.pieces).toArray a
      = (a, (List.zipWith (fun s dcs => (⟨s.name, contigsOf outs s.contigs dcs⟩ : DSample)) inp dec.pieces).toArray) := by
  unfold decodeSamples
  simp only [List.toList_toArray]
  -- generalise over the suffix of samples still to do
  have key : ∀ (n : Nat) (ss : List Writer.Sample) (pp : List (List (List PieceDec))) (acc : Array DSample),
      ss = inp.drop n → pp = dec.pieces.drop n →
      (List.zip (ss.map (·.name)) (List.zipWith (fun s dcs => tableOf outs s.contigs dcs) ss pp)).foldl
          (decodeSample cfg.k cfg.minMatch gds) (a, acc)
        = (a, acc ++ (List.zipWith (fun s dcs => (⟨s.name, contigsOf outs s.contigs dcs⟩ : DSample)) ss pp).toArray) := by
    intro n ss
    induction ss generalizing n with
    | nil => intro pp acc _ _; simp
    | cons s ss ih =>
      intro pp acc hs hp
      cases pp with
      | nil => simp
      | cons dcs pp =>
        have hs0 : inp[n]? = some s := by
          have := congrArg (fun l => l[0]?) hs
          simpa using this.symm
        have hp0 : dec.pieces[n]? = some dcs := by
          have := congrArg (fun l => l[0]?) hp
          simpa using this.symm
        have hss : ss = inp.drop (n + 1) := by
          have := congrArg List.tail hs
          simpa [List.tail_drop] using this
        have hpp : pp = dec.pieces.drop (n + 1) := by
          have := congrArg List.tail hp
          simpa [List.tail_drop] using this
        simp only [List.map_cons, List.zipWith_cons_cons, List.zip_cons_cons, List.foldl_cons]
        have hstep : decodeSample cfg.k cfg.minMatch gds (a, acc) (s.name, tableOf outs s.contigs dcs)
            = (a, acc.push ⟨s.name, contigsOf outs s.contigs dcs⟩) := by
          unfold decodeSample
          simp only []
          rw [sampleFold_ok cfg.k cfg.minMatch gds outs s.name s.contigs dcs a #[] (by
            intro x hx a'
            obtain ⟨c, hc⟩ := List.mem_iff_getElem?.mp hx
            obtain ⟨h2, h4⟩ := List.getElem?_zip_eq_some.mp hc
            exact contig_bases cfg inp dec zc outs hok hcodes hw gds hgds n c s x.1 dcs x.2 hs0 h2 hp0 h4
              s.name x.1.name a')]
          simp
        rw [hstep, ih (n + 1) pp _ hss hpp]
        simp
  have := key 0 inp dec.pieces #[] (by simp) (by simp)
  simpa using this

theorem zipWith_fst {α β γ : Type} (f : α → γ) : ∀ (l : List α) (l' : List β), l'.length = l.length →
    List.zipWith (fun a _ => f a) l l' = l.map f := by
  intro l
  induction l with
  | nil => intro l' _; simp
  | cons a l ih =>
    intro l' h
    cases l' with
    | nil => simp at h
    | cons b l' => simp [ih l' (by simpa using h)]

theorem zipWith_congr_mem {α β γ : Type} (f g : α → β → γ) : ∀ (l : List α) (l' : List β),
    (∀ x ∈ List.zip l l', f x.1 x.2 = g x.1 x.2) → List.zipWith f l l' = List.zipWith g l l' := by
  intro l
  induction l with
  | nil => intro l' _; simp
  | cons a l ih =>
    intro l' h
    cases l' with
    | nil => simp
    | cons b l' =>
      simp only [List.zipWith_cons_cons]
      rw [h (a, b) (by simp), ih l' (fun x hx => h x (by simp only [List.zip_cons_cons, List.mem_cons]; exact Or.inr hx))]

/-- the decoded samples carry the input's catalogue and bases -/
theorem expected_samples (cfg : Cfg) (inp : List Writer.Sample) (dec : Decisions) (outs : List GroupOut)
    (hok : DecOK cfg inp dec) :
    (List.zipWith (fun s dcs => (⟨s.name, contigsOf outs s.contigs dcs⟩ : DSample)) inp dec.pieces).map
        (fun s => (s.name, s.contigs.map (·.name))) = catalogueOf inp ∧
    (List.zipWith (fun s dcs => (⟨s.name, contigsOf outs s.contigs dcs⟩ : DSample)) inp dec.pieces).map
        (fun s => s.contigs.map (·.bases)) = basesOf inp := by
  constructor
  · rw [List.map_zipWith]
    rw [zipWith_congr_mem _ (fun s _ => (s.name, s.contigs.map (·.name))) inp dec.pieces (by
      intro x hx
      have hS := hok.samples x hx
      simp only [contigsOf, List.map_zipWith]
      rw [zipWith_fst (fun c : Writer.Contig => c.name) _ _ hS.shape])]
    rw [zipWith_fst _ _ _ hok.shape]
    rfl
  · rw [List.map_zipWith]
    rw [zipWith_congr_mem _ (fun s _ => s.contigs.map (·.data)) inp dec.pieces (by
      intro x hx
      have hS := hok.samples x hx
      simp only [contigsOf, List.map_zipWith]
      rw [zipWith_fst (fun c : Writer.Contig => c.data) _ _ hS.shape])]
    rw [zipWith_fst _ _ _ hok.shape]
    rfl

end Ragc.WriterLemmas
