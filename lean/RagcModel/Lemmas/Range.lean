import RagcModel.Model.Range
/-!
Specification-side definitions (`full`, `WF`) and helper lemmas for C07
(range and length queries agree with full extraction).
-/
namespace Ragc.Range

/-- The fully extracted contig: first segment whole, every later one without its first `k` bytes. -/
def full (k : Nat) : List Seg → List Nat
  | [] => []
  | s :: rest => s.data ++ (rest.map (fun t => t.data.drop k)).flatten

/-- Well-formed reader view of a contig: every descriptor's `raw_length` is the decoded length,
and every segment after the first has at least `k` bytes. -/
def WF (k : Nat) (segs : List Seg) : Prop :=
  (∀ s ∈ segs, s.rawLen = s.data.length) ∧ (∀ s ∈ segs.tail, k ≤ s.data.length)

instance (k : Nat) (segs : List Seg) : Decidable (WF k segs) := by
  unfold WF; infer_instance

/-- The three-segment, `k = 2` contig used in the non-vacuity examples:
`full = [0,1,2,3,0] ++ [1,1,2,2] ++ [3,3]` (junctions at 5 and 9). -/
def exSegs : List Seg :=
  [⟨5, [0, 1, 2, 3, 0]⟩, ⟨6, [3, 0, 1, 1, 2, 2]⟩, ⟨4, [2, 2, 3, 3]⟩]

/-- A three-segment, `k = 3` contig with an IUPAC code (4) and an empty contribution in the
middle (`raw_length = k`): `full = [0,1,2,3] ++ [] ++ [4,0]`. -/
def exSegs3 : List Seg :=
  [⟨4, [0, 1, 2, 3]⟩, ⟨3, [1, 2, 3]⟩, ⟨5, [1, 2, 3, 4, 0]⟩]

/-- Concatenated contributions of the segments `rest` whose first element has index `i`. -/
def contribs (k : Nat) : Nat → List Seg → List Nat
  | _, [] => []
  | i, s :: rest => (if i = 0 then s.data else s.data.drop k) ++ contribs k (i + 1) rest

theorem contribs_succ (k i : Nat) (rest : List Seg) :
    contribs k (i + 1) rest = (rest.map (fun t => t.data.drop k)).flatten := by
  induction rest generalizing i with
  | nil => rfl
  | cons s rest ih => simp [contribs, ih]

theorem contribs_zero (k : Nat) (segs : List Seg) : contribs k 0 segs = full k segs := by
  cases segs with
  | nil => rfl
  | cons s rest => simp [contribs, full, contribs_succ]

/-- `full` in the literal form of the design document. -/
theorem full_eq (k : Nat) (segs : List Seg) :
    full k segs = (segs.head?.map Seg.data).getD [] ++ (segs.tail.map (fun t => t.data.drop k)).flatten := by
  cases segs <;> simp [full]

/-! ### reverse complement -/

theorem complementBase_involutive (b : Nat) : complementBase (complementBase b) = b := by
  unfold complementBase
  by_cases h : b < 4
  · have h' : 3 - b < 4 := by omega
    simp only [h, h', if_true]; omega
  · simp only [h, if_false]

/-! ### reconstruct -/

theorem reconstructTail_eq (k : Nat) (rest : List Seg) (acc : List Nat)
    (h : ∀ s ∈ rest, k ≤ s.data.length) :
    reconstructTail k rest acc = some (acc ++ (rest.map (fun t => t.data.drop k)).flatten) := by
  induction rest generalizing acc with
  | nil => simp [reconstructTail]
  | cons s rest ih =>
    have hs : ¬ s.data.length < k := by
      have := h s (by simp); omega
    simp only [reconstructTail, hs, if_false]
    rw [ih _ (fun t ht => h t (by simp [ht]))]
    simp

theorem reconstructTail_none (k : Nat) (rest : List Seg) (acc : List Nat)
    (h : ∃ s ∈ rest, s.data.length < k) : reconstructTail k rest acc = none := by
  induction rest generalizing acc with
  | nil => simp at h
  | cons s rest ih =>
    by_cases hs : s.data.length < k
    · simp [reconstructTail, hs]
    · simp only [reconstructTail, hs, if_false]
      apply ih
      obtain ⟨t, ht, hlt⟩ := h
      simp only [List.mem_cons] at ht
      rcases ht with rfl | ht
      · exact absurd hlt hs
      · exact ⟨t, ht, hlt⟩

/-! ### length -/

theorem contigLengthLoop_succ (k i total : Nat) (lens : List Nat) (h : ∀ x ∈ lens, k ≤ x) :
    contigLengthLoop k (i + 1) total lens = .ok (total + (lens.map (· - k)).sum) := by
  induction lens generalizing i total with
  | nil => simp [contigLengthLoop]
  | cons x rest ih =>
    have hx : ¬ x < k := by have := h x (by simp); omega
    simp only [contigLengthLoop, Nat.succ_ne_zero, if_false, hx]
    rw [ih _ _ (fun y hy => h y (by simp [hy]))]
    simp [Nat.add_assoc]

theorem contigLengthLoop_succ_underflow (k i total : Nat) (lens : List Nat) (h : ∃ x ∈ lens, x < k) :
    contigLengthLoop k (i + 1) total lens = .underflow := by
  induction lens generalizing i total with
  | nil => simp at h
  | cons x rest ih =>
    by_cases hx : x < k
    · simp [contigLengthLoop, hx]
    · simp only [contigLengthLoop, Nat.succ_ne_zero, if_false, hx]
      apply ih
      obtain ⟨y, hy, hlt⟩ := h
      simp only [List.mem_cons] at hy
      rcases hy with rfl | hy
      · exact absurd hlt hx
      · exact ⟨y, hy, hlt⟩

theorem contigLengthWrapLoop_succ (k i total : Nat) (lens : List Nat)
    (h : ∀ x ∈ lens, k ≤ x ∧ x < 2 ^ 64) (hsum : total + (lens.map (· - k)).sum < 2 ^ 64) :
    contigLengthWrapLoop k (i + 1) total lens = total + (lens.map (· - k)).sum := by
  induction lens generalizing i total with
  | nil => simp [contigLengthWrapLoop]
  | cons x rest ih =>
    have hx := h x (by simp)
    simp only [List.map_cons, List.sum_cons] at hsum
    have hw : wrappingSub x k = x - k := by
      unfold wrappingSub
      have : x + 2 ^ 64 - k = (x - k) + 2 ^ 64 := by omega
      rw [this, Nat.add_mod_right, Nat.mod_eq_of_lt (by omega)]
    have ha : wrappingAdd total (x - k) = total + (x - k) := by
      unfold wrappingAdd; exact Nat.mod_eq_of_lt (by omega)
    simp only [contigLengthWrapLoop, Nat.succ_ne_zero, if_false, hw, ha]
    rw [ih _ _ (fun y hy => h y (by simp [hy])) (by omega)]
    simp [Nat.add_assoc]

theorem full_length (k : Nat) (s : Seg) (rest : List Seg) (h : ∀ t ∈ s :: rest, t.rawLen = t.data.length) :
    (full k (s :: rest)).length = s.rawLen + ((rest.map Seg.rawLen).map (· - k)).sum := by
  have h1 : ∀ rest : List Seg, (∀ t ∈ rest, t.rawLen = t.data.length) →
      ((rest.map (fun t => t.data.drop k)).flatten).length = ((rest.map Seg.rawLen).map (· - k)).sum := by
    intro rest
    induction rest with
    | nil => intro _; rfl
    | cons t rest ih =>
      intro h
      simp only [List.map_cons, List.flatten_cons, List.length_append, List.length_drop, List.sum_cons]
      rw [ih (fun u hu => h u (by simp [hu])), h t (by simp)]
  simp only [full, List.length_append]
  rw [h1 rest (fun t ht => h t (by simp [ht])), h s (by simp)]

/-! ### range: pure list facts -/

/-- One step of the second pass, overlap case: the slice taken from the current contribution `c`
followed by what the rest of the loop returns on `C'` is the slice of `c ++ C'`. -/
theorem slice_step (c C' : List Nat) (pos start e : Nat)
    (h1 : start ≤ pos + c.length) (h2 : pos < e) :
    ((c.drop (start - pos)).take (min (e - pos) c.length - (start - pos)))
      ++ ((C'.drop (start - (pos + c.length))).take (e - max start (pos + c.length)))
    = ((c ++ C').drop (start - pos)).take (e - max start pos) := by
  have hd : start - (pos + c.length) = 0 := by omega
  have hm : max start (pos + c.length) = pos + c.length := by omega
  rw [hd, hm, List.drop_zero]
  have hle : start - pos ≤ c.length := by omega
  rw [List.drop_append_of_le_length hle, List.take_append]
  simp only [List.length_drop]
  congr 1
  · by_cases hc : e - pos ≤ c.length
    · rw [Nat.min_eq_left hc]
      congr 1
      omega
    · rw [Nat.min_eq_right (by omega)]
      rw [List.take_of_length_le (by simp), List.take_of_length_le (by simp; omega)]
  · congr 1
    omega

theorem take_drop_concat (F : List Nat) (a b c : Nat) (hab : a ≤ b) (hbc : b ≤ c) :
    (F.drop a).take (min b F.length - a) ++ (F.drop b).take (min c F.length - b)
      = (F.drop a).take (min c F.length - a) := by
  by_cases hb : b < F.length
  · have h1 : min b F.length = b := by omega
    have h2 : F.drop b = (F.drop a).drop (b - a) := by
      rw [List.drop_drop]; congr 1; omega
    have h3 : min c F.length - a = (b - a) + (min c F.length - b) := by omega
    rw [h1, h2, h3, List.take_add]
  · have h1 : min b F.length = F.length := by omega
    have h2 : min c F.length = F.length := by omega
    rw [h1, h2, List.drop_of_length_le (by omega : F.length ≤ b)]
    simp

/-! ### range: the two passes -/

/-- The contribution of the segment with index `i`. -/
def contribution (k i : Nat) (s : Seg) : List Nat := if i = 0 then s.data else s.data.drop k

theorem contribs_cons (k i : Nat) (s : Seg) (rest : List Seg) :
    contribs k i (s :: rest) = contribution k i s ++ contribs k (i + 1) rest := rfl

/-- Invariant of the two passes of `get_contig_range`, generalised over the loop state: `pre` are
the segments already passed (`i = pre.length`), `pos` the running `contig_pos`, `rest` the remaining
segments. The first pass succeeds, reports the right total, and the second pass over the ranges it
produced appends to `result` exactly the part of the remaining contributions inside
`[max start pos, e)`. -/
theorem passes_spec (k : Nat) (rest : List Seg) :
    ∀ (pre : List Seg) (i pos start e : Nat), pre.length = i →
      (∀ s ∈ rest, s.rawLen = s.data.length) →
      (∀ s ∈ (if i = 0 then rest.tail else rest), k ≤ s.data.length) →
      ∃ rs, segmentRanges k i pos rest = some (rs, pos + (contribs k i rest).length) ∧
        ∀ result, collectRange k (pre ++ rest) start e rs result
          = some (result ++ ((contribs k i rest).drop (start - pos)).take (e - max start pos)) := by
  induction rest with
  | nil =>
    intro pre i pos start e _ _ _
    exact ⟨[], by simp [segmentRanges, contribs], by intro r; simp [collectRange, contribs]⟩
  | cons s rest ih =>
    intro pre i pos start e hi h1 h2
    -- the contribution length as the first pass computes it
    have hc : (if i = 0 then some s.rawLen else checkedSub s.rawLen k)
        = some (contribution k i s).length := by
      unfold contribution
      by_cases h0 : i = 0
      · simp [h0, h1 s (by simp)]
      · have hk : k ≤ s.data.length := by
          have := h2; simp only [h0, if_false] at this; exact this s (by simp)
        simp [h0, checkedSub, h1 s (by simp), hk]
    have hdata : (if i = 0 then 0 else k) + (contribution k i s).length = s.data.length
        ∧ s.data.drop (if i = 0 then 0 else k) = contribution k i s := by
      unfold contribution
      by_cases h0 : i = 0
      · simp [h0]
      · have hk : k ≤ s.data.length := by
          have := h2; simp only [h0, if_false] at this; exact this s (by simp)
        simp [h0]; omega
    obtain ⟨rs, hrs, hcol⟩ := ih (pre ++ [s]) (i + 1) (pos + (contribution k i s).length) start e
      (by simp [hi]) (fun t ht => h1 t (by simp [ht]))
      (by
        intro t ht
        simp only [Nat.succ_ne_zero, if_false] at ht
        by_cases h0 : i = 0
        · simp only [h0, if_true, List.tail_cons] at h2; exact h2 t ht
        · simp only [h0, if_false] at h2; exact h2 t (by simp [ht]))
    refine ⟨(pos, pos + (contribution k i s).length, i) :: rs, ?_, ?_⟩
    · simp only [segmentRanges, hc, hrs, contribs_cons, List.length_append, Nat.add_assoc]
    · intro result
      have happ : pre ++ s :: rest = (pre ++ [s]) ++ rest := by simp
      rw [contribs_cons]
      generalize hcdef : contribution k i s = c at *
      generalize hCdef : contribs k (i + 1) rest = C' at *
      by_cases hA : pos + c.length ≤ start
      · -- segment entirely before the range: `continue`
        simp only [collectRange, hA, if_true]
        rw [happ, hcol]
        have e1 : start - pos = c.length + (start - (pos + c.length)) := by omega
        have e2 : max start (pos + c.length) = max start pos := by omega
        have hd1 : c.drop (c.length + (start - (pos + c.length))) = [] :=
          List.drop_of_length_le (by omega)
        rw [e2, e1, List.drop_append, hd1, List.nil_append, Nat.add_sub_cancel_left]
      · by_cases hB : pos ≥ e
        · -- segment starts at or after the clamped end: `break`
          simp only [collectRange, hA, if_false, hB, if_true]
          have : e - max start pos = 0 := by omega
          simp [this]
        · -- overlap
          have hget : (pre ++ s :: rest)[i]? = some s := by
            rw [List.getElem?_append_right (by omega)]
            simp [hi]
          simp only [collectRange, hA, if_false, hB, hget]
          have hre : min (e - pos) (pos + c.length - pos) = min (e - pos) c.length := by
            congr 1; omega
          rw [hre]
          -- both branches of the guarded `extend_from_slice` append the same slice of `c`
          have hslice : ∀ r : List Nat,
              (if (if i = 0 then 0 else k) + (start - pos) < (if i = 0 then 0 else k) + min (e - pos) c.length
                    ∧ (if i = 0 then 0 else k) + min (e - pos) c.length ≤ s.data.length then
                  collectRange k (pre ++ s :: rest) start e rs
                    (r ++ (s.data.drop ((if i = 0 then 0 else k) + (start - pos))).take
                      ((if i = 0 then 0 else k) + min (e - pos) c.length
                        - ((if i = 0 then 0 else k) + (start - pos))))
                else collectRange k (pre ++ s :: rest) start e rs r)
              = collectRange k (pre ++ s :: rest) start e rs
                  (r ++ (c.drop (start - pos)).take (min (e - pos) c.length - (start - pos))) := by
            intro r
            generalize (if i = 0 then 0 else k) = cs at *
            by_cases hlt : start - pos < min (e - pos) c.length
            · have hcond : cs + (start - pos) < cs + min (e - pos) c.length
                  ∧ cs + min (e - pos) c.length ≤ s.data.length := by omega
              rw [if_pos hcond]
              have : cs + min (e - pos) c.length - (cs + (start - pos))
                  = min (e - pos) c.length - (start - pos) := by omega
              rw [this, ← hdata.2, List.drop_drop]
            · have hcond : ¬ (cs + (start - pos) < cs + min (e - pos) c.length
                  ∧ cs + min (e - pos) c.length ≤ s.data.length) := by omega
              rw [if_neg hcond]
              have : min (e - pos) c.length - (start - pos) = 0 := by omega
              simp [this]
          rw [hslice, happ, hcol, List.append_assoc]
          congr 2
          exact slice_step c C' pos start e (by omega) (by omega)

end Ragc.Range
