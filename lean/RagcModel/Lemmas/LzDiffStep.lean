import RagcModel.Model.LzDiff
/-!
C09: one-step unfolding lemmas for the well-founded loops of `Model/LzDiff.lean` (the encoder loop,
the decoder loop, the index insertion loop). They state each branch of the Rust loop body as an
equation and are what concrete evaluations (`example`s, the code-30 witness) are computed with.
-/
namespace Ragc.Model.LzDiff
open Ragc.Gen

section enc
variable (S : UInt64 → List Nat) (mm : Nat) (hmm : lzHashingStep ≤ mm) (refP : Array Nat)
    (refLen : Nat) (t : Array Nat) (i pred npl : Nat) (toks : List Tok) (xprev : Option UInt64)

/-- loop exit (437, 559-566): the remaining symbols become literals. -/
theorem encLoop_done (h : ¬ i + keyLen mm < t.size) :
    encLoop S mm hmm refP refLen t i pred npl toks xprev = some (tailLits t i toks) := by
  rw [encLoop, dif_neg h]

/-- N-run step (453-462). -/
theorem encLoop_nrun (hlt : i + keyLen mm < t.size)
    (hx : nextCode xprev npl t i (keyLen mm) = .invalid) (hn : nrunLen t i ≥ lzMinNRunLen) :
    encLoop S mm hmm refP refLen t i pred npl toks xprev =
      encLoop S mm hmm refP refLen t (i + nrunLen t i) pred 0 (.nrun (nrunLen t i) :: toks) none := by
  rw [encLoop, dif_pos hlt]
  simp only [hx, dif_pos hn]

/-- literal step when the k-mer contains a non-ACGT symbol and there is no N run (463-469). -/
theorem encLoop_lit_invalid {c : Nat} (hlt : i + keyLen mm < t.size)
    (hx : nextCode xprev npl t i (keyLen mm) = .invalid) (hn : ¬ nrunLen t i ≥ lzMinNRunLen)
    (hc : t[i]? = some c) :
    encLoop S mm hmm refP refLen t i pred npl toks xprev =
      encLoop S mm hmm refP refLen t (i + 1) (pred + 1) (npl + 1) (.lit c :: toks) none := by
  rw [encLoop, dif_pos hlt]
  simp only [hx, dif_neg hn, hc]

/-- literal step when no match is found (545-555). -/
theorem encLoop_lit_nomatch {code : UInt64} {c : Nat} (hlt : i + keyLen mm < t.size)
    (hx : nextCode xprev npl t i (keyLen mm) = .ok code)
    (hf : findBest mm refP t code i npl (S code) = .noMatch) (hc : t[i]? = some c) :
    encLoop S mm hmm refP refLen t i pred npl toks xprev =
      encLoop S mm hmm refP refLen t (i + 1) (pred + 1) (npl + 1) (.lit c :: toks) (some code) := by
  rw [encLoop, dif_pos hlt]
  simp only [hx]
  split
  · next h => rw [hf] at h; cases h
  · simp only [hc]
  · next h => rw [hf] at h; cases h

/-- match step (478-544): pop the back-extended literals, rewrite bangs, emit the match. -/
theorem encLoop_found {code : UInt64} {mpos bck fwd : Nat} (hlt : i + keyLen mm < t.size)
    (hx : nextCode xprev npl t i (keyLen mm) = .ok code)
    (hf : findBest mm refP t code i npl (S code) = .found mpos bck fwd) :
    encLoop S mm hmm refP refLen t i pred npl toks xprev =
      encLoop S mm hmm refP refLen t (i - bck + (bck + fwd)) (mpos - bck + (bck + fwd)) 0
        (Tok.mtch (((mpos - bck : Nat) : Int) - ((pred - bck : Nat) : Int))
            (matchLenField refLen t.size (i - bck) (bck + fwd) mpos fwd)
          :: rewriteBang refP (mpos - bck) (pred - bck) (encLen mm (toks.drop bck)) (toks.drop bck))
        (some code) := by
  rw [encLoop, dif_pos hlt]
  simp only [hx]
  split
  · next h => rw [hf] at h; cases h
  · next h => rw [hf] at h; cases h
  · next a b c h =>
    rw [hf] at h
    simp only [Found.found.injEq] at h
    obtain ⟨rfl, rfl, rfl⟩ := h
    rfl

end enc

/-- `encode` past the `target == reference` test (405-418). -/
theorem encodeToks_loop (S : UInt64 → List Nat) (mm : Nat) (ref tgt : List Nat) (hmm : lzHashingStep ≤ mm)
    (hne : ¬ (tgt.length = ref.length ∧ (tgt.zip (padRef mm ref).toList).all (fun p => p.1 == p.2) = true)) :
    encodeToks S mm ref tgt =
      (encLoop S mm hmm (padRef mm ref) ref.length tgt.toArray 0 0 0 [] none).map List.reverse := by
  unfold encodeToks
  rw [dif_pos hmm, if_neg hne]

section dec
variable (refP : Array Nat) (refLen mm : Nat)

theorem decodeGo_nil (out : Array Nat) (pred : Nat) : decodeGo refP refLen mm [] out pred = some out := by
  rw [decodeGo]; simp

theorem decodeGo_lex_none {bytes : List Nat} (out : Array Nat) (pred : Nat) (hne : bytes ≠ [])
    (hl : lexTok mm bytes = none) : decodeGo refP refLen mm bytes out pred = none := by
  rw [decodeGo, if_neg hne]
  split
  · rfl
  · next h => rw [hl] at h; cases h

theorem decodeGo_step {bytes rest : List Nat} {tok : Tok} (out : Array Nat) (pred : Nat)
    (hl : lexTok mm bytes = some (tok, rest)) :
    decodeGo refP refLen mm bytes out pred =
      match execTok refP refLen out pred tok with
      | none => none
      | some (out', pred') => decodeGo refP refLen mm rest out' pred' := by
  have hne : bytes ≠ [] := by
    intro h; subst h; simp [lexTok] at hl
  rw [decodeGo, if_neg hne]
  split
  · next h => rw [hl] at h; cases h
  · next tok' rest' h =>
    rw [hl] at h
    simp only [Option.some.injEq, Prod.mk.injEq] at h
    obtain ⟨rfl, rfl⟩ := h
    rfl
end dec

section index
variable (refP : Array Nat) (k : Nat)

theorem insertLoop_done (tbl : Array Nat) (i : Nat) (h : ¬ i + k < refP.size) :
    insertLoop refP k tbl i = tbl := by
  rw [insertLoop, dif_neg h]

theorem insertLoop_ok (tbl : Array Nat) (i : Nat) {code : UInt64} (h : i + k < refP.size)
    (hc : getCode refP i k = .ok code) :
    insertLoop refP k tbl i =
      insertLoop refP k
        (probeInsert tbl ((murmur64 code).toNat % tbl.size) (i / lzHashingStep) lzMaxNoTries 0)
        (i + lzHashingStep) := by
  rw [insertLoop, dif_pos h]
  simp only [hc]

theorem insertLoop_skip (tbl : Array Nat) (i : Nat) (h : i + k < refP.size)
    (hc : ∀ code, getCode refP i k ≠ .ok code) :
    insertLoop refP k tbl i = insertLoop refP k tbl (i + lzHashingStep) := by
  rw [insertLoop, dif_pos h]
  split
  · next code hcode => exact absurd hcode (hc code)
  · rfl
end index

end Ragc.Model.LzDiff
