import RagcModel.Model.Packs
import RagcModel.Model.SegCompress
import RagcModel.Model.LzDiff
import RagcModel.Model.Agc3
import RagcModel.Lemmas.Segment
import RagcModel.Lemmas.Range
import RagcModel.Lemmas.Packs
/-!
Helper lemmas for C01 (`Props/C01.lean`): tilings under splitting and under `map`, the
orientation bookkeeping of split halves, membership facts.
-/
namespace Ragc.Roundtrip
open Ragc.Segment Ragc.Range Ragc.Packs

/-! ## tilings -/

theorem tilesFrom_split {α : Type} (k : Nat) (c : List α) (s : Nat) (p : List α) (post : List (List α))
    (hs : s + k ≤ p.length) :
    ∀ (pre : List (List α)) (e : Nat), TilesFrom k c e (pre ++ p :: post) →
      TilesFrom k c e (pre ++ p.take (s + k) :: p.drop s :: post) := by
  intro pre
  induction pre with
  | nil =>
    intro e h
    simp only [List.nil_append, TilesFrom] at h ⊢
    obtain ⟨hke, hkp, hle, hp, hrest⟩ := h
    have hlt : (List.take (s + k) p).length = s + k := by simp; omega
    have hld : (List.drop s p).length = p.length - s := by simp
    refine ⟨hke, by omega, by omega, ?_, by omega, by omega, by omega, ?_, ?_⟩
    · rw [hlt]
      conv => lhs; rw [hp]
      rw [List.take_take]
      congr 1
      omega
    · rw [hlt, hld]
      conv => lhs; rw [hp]
      rw [List.drop_take, List.drop_drop]
      congr 2
      omega
    · rw [hlt, hld]
      have : e - k + (s + k) - k + (p.length - s) = e - k + p.length := by omega
      rw [this]
      exact hrest
  | cons q pre ih =>
    intro e h
    simp only [List.cons_append, TilesFrom] at h ⊢
    obtain ⟨h1, h2, h3, h4, hrest⟩ := h
    exact ⟨h1, h2, h3, h4, ih _ hrest⟩

/-- Replacing a piece of a tiling by its two `k`-overlapping halves (`p[..s+k]`, `p[s..]`) gives
a tiling again, wherever the piece sits. -/
theorem tiles_split {α : Type} (k : Nat) (c : List α) (s : Nat) (p : List α)
    (pre post : List (List α)) (hs : s + k ≤ p.length) (h : Tiles k c (pre ++ p :: post)) :
    Tiles k c (pre ++ p.take (s + k) :: p.drop s :: post) := by
  cases pre with
  | nil =>
    simp only [List.nil_append, Tiles] at h ⊢
    obtain ⟨hle, hp, hrest⟩ := h
    have hlt : (List.take (s + k) p).length = s + k := by simp; omega
    have hld : (List.drop s p).length = p.length - s := by simp
    refine ⟨by omega, ?_, ?_⟩
    · rw [hlt]
      conv => lhs; rw [hp]
      rw [List.take_take]
      congr 1
      omega
    · rw [hlt]
      simp only [TilesFrom]
      refine ⟨by omega, by omega, by omega, ?_, ?_⟩
      · rw [hld]
        conv => lhs; rw [hp]
        rw [List.drop_take]
        congr 2
        omega
      · rw [hld]
        have : s + k - k + (p.length - s) = p.length := by omega
        rw [this]
        exact hrest
  | cons q pre =>
    simp only [List.cons_append, Tiles] at h ⊢
    obtain ⟨h1, h2, hrest⟩ := h
    exact ⟨h1, h2, tilesFrom_split k c s p post hs pre _ hrest⟩

theorem tilesFrom_map {α β : Type} (f : α → β) (k : Nat) (c : List α) :
    ∀ (ps : List (List α)) (e : Nat), TilesFrom k c e ps →
      TilesFrom k (c.map f) e (ps.map (List.map f)) := by
  intro ps
  induction ps with
  | nil => intro e h; simpa [TilesFrom] using h
  | cons p ps ih =>
    intro e h
    simp only [List.map_cons, TilesFrom, List.length_map] at h ⊢
    obtain ⟨h1, h2, h3, h4, hrest⟩ := h
    refine ⟨h1, h2, h3, ?_, ih _ hrest⟩
    conv => lhs; rw [h4]
    rw [List.map_take, List.map_drop]

theorem tiles_map {α β : Type} (f : α → β) (k : Nat) (c : List α) (ps : List (List α))
    (h : Tiles k c ps) : Tiles k (c.map f) (ps.map (List.map f)) := by
  cases ps with
  | nil => exact h
  | cons p ps =>
    simp only [List.map_cons, Tiles, List.length_map] at h ⊢
    obtain ⟨h1, h2, hrest⟩ := h
    refine ⟨h1, ?_, tilesFrom_map f k c ps _ hrest⟩
    conv => lhs; rw [h2]
    rw [List.map_take]

theorem tilesFrom_mem {α : Type} (k : Nat) (c : List α) :
    ∀ (ps : List (List α)) (e : Nat), TilesFrom k c e ps → ∀ p ∈ ps, ∀ x ∈ p, x ∈ c := by
  intro ps
  induction ps with
  | nil => intro e _ p hp; cases hp
  | cons q ps ih =>
    intro e h p hp x hx
    obtain ⟨_, _, _, h4, hrest⟩ := h
    simp only [List.mem_cons] at hp
    rcases hp with hp | hp
    · subst hp
      rw [h4] at hx
      exact List.mem_of_mem_drop (List.mem_of_mem_take hx)
    · exact ih _ hrest p hp x hx

/-- Every symbol of every piece of a tiling is a symbol of the tiled sequence. -/
theorem tiles_mem {α : Type} (k : Nat) (c : List α) (ps : List (List α)) (h : Tiles k c ps) :
    ∀ p ∈ ps, ∀ x ∈ p, x ∈ c := by
  cases ps with
  | nil => intro p hp; cases hp
  | cons q ps =>
    obtain ⟨_, h2, hrest⟩ := h
    intro p hp x hx
    simp only [List.mem_cons] at hp
    rcases hp with hp | hp
    · subst hp
      rw [h2] at hx
      exact List.mem_of_mem_take hx
    · exact tilesFrom_mem k c ps _ hrest p hp x hx

/-! ## orientation -/

/-- `rc^f`: the stored form of a piece with orientation flag `f`, and also what the reader does
with a stored segment whose flag is `f`. -/
def orient (f : Bool) (d : List Nat) : List Nat := if f then reverseComplementSegment d else d

theorem rc_involutive (s : List Nat) : reverseComplementSegment (reverseComplementSegment s) = s := by
  unfold reverseComplementSegment
  rw [← List.map_reverse, List.reverse_reverse, List.map_map]
  have : complementBase ∘ complementBase = id := by
    funext b; exact complementBase_involutive b
  rw [this, List.map_id]

theorem orient_involutive (f : Bool) (d : List Nat) : orient f (orient f d) = d := by
  cases f
  · rfl
  · exact rc_involutive d

theorem writer_rc_eq (s : List Nat) : reverseComplementSequence s = reverseComplementSegment s := rfl

theorem orient_length (f : Bool) (d : List Nat) : (orient f d).length = d.length := by
  cases f <;> simp [orient, reverseComplementSegment]

theorem orient_mem_le (f : Bool) (d : List Nat) (n : Nat) (hn : 3 ≤ n) (h : ∀ x ∈ d, x ≤ n) :
    ∀ x ∈ orient f d, x ≤ n := by
  cases f
  · exact h
  · intro x hx
    simp only [orient, if_true, reverseComplementSegment, List.mem_map, List.mem_reverse] at hx
    obtain ⟨y, hy, rfl⟩ := hx
    have := h y hy
    unfold complementBase
    split <;> omega

theorem rc_drop (d : List Nat) (n : Nat) :
    reverseComplementSegment ((reverseComplementSegment d).drop n) = d.take (d.length - n) := by
  unfold reverseComplementSegment
  rw [← List.map_drop, List.drop_reverse, ← List.map_reverse, List.reverse_reverse, List.map_map]
  have : complementBase ∘ complementBase = id := by
    funext b; exact complementBase_involutive b
  rw [this, List.map_id]

theorem rc_take (d : List Nat) (n : Nat) :
    reverseComplementSegment ((reverseComplementSegment d).take n) = d.drop (d.length - n) := by
  unfold reverseComplementSegment
  rw [← List.map_take, List.take_reverse, ← List.map_reverse, List.reverse_reverse, List.map_map]
  have : complementBase ∘ complementBase = id := by
    funext b; exact complementBase_involutive b
  rw [this, List.map_id]

/-- The split branch, as data: the two buffered halves are the two `k`-overlapping logical halves
of the piece, each stored in the orientation its flag says, with part numbers in contig order —
for either value of `should_reverse` and all four flag combinations. `p` is the piece in contig
orientation; the writer holds `orient sr p`. -/
theorem splitStored_spec (p : List Nat) (pos k : Nat) (sr lf rf : Bool) (h1 h2 : Half)
    (h : splitStored (orient sr p) pos k sr lf rf = some (h1, h2)) :
    ∃ s, s + k ≤ p.length ∧
      (if sr then h2 else h1).part = 0 ∧ (if sr then h1 else h2).part = 1 ∧
      (if sr then h2 else h1).data = orient (if sr then h2 else h1).rev (p.take (s + k)) ∧
      (if sr then h1 else h2).data = orient (if sr then h1 else h2).rev (p.drop s) := by
  unfold splitStored splitSegmentAtPosition at h
  simp only [] at h
  split at h
  · cases h
  · rename_i l r hsp
    split at hsp
    · rename_i hle
      simp only [Option.some.injEq, Prod.mk.injEq] at hsp h
      obtain ⟨hl, hr⟩ := hsp
      obtain ⟨e1, e2⟩ := h
      subst e1 e2
      rw [orient_length] at hle
      cases sr with
      | false =>
        refine ⟨pos - (k + 1) / 2, hle, by simp, by simp, ?_, ?_⟩
        · simp only [Bool.false_eq_true, if_false]
          rw [← hl]
          cases lf <;> simp [orient, writer_rc_eq]
        · simp only [Bool.false_eq_true, if_false]
          rw [← hr]
          cases rf <;> simp [orient, writer_rc_eq]
      | true =>
        refine ⟨p.length - (pos - (k + 1) / 2 + k), by omega, by simp, by simp, ?_, ?_⟩
        · simp only [if_true]
          rw [← hr]
          have hx : p.length - (pos - (k + 1) / 2 + k) + k = p.length - (pos - (k + 1) / 2) := by omega
          rw [hx, ← rc_drop p (pos - (k + 1) / 2)]
          cases rf <;> simp [orient, writer_rc_eq, rc_involutive]
        · simp only [if_true]
          rw [← hl, ← rc_take p (pos - (k + 1) / 2 + k)]
          cases lf <;> simp [orient, writer_rc_eq, rc_involutive]
    · cases hsp

/-! ## reconstruct -/

theorem full_eq_reassemble (k : Nat) (ps : List (List Nat)) :
    full k (ps.map fun d => (⟨d.length, d⟩ : Seg)) = reassemble k ps := by
  cases ps with
  | nil => rfl
  | cons p ps => simp [full, reassemble, List.map_map, Function.comp_def]

theorem mapM_some_of_forall {α β : Type} (f : α → Option β) (g : α → β) :
    ∀ (l : List α), (∀ x ∈ l, f x = some (g x)) → l.mapM f = some (l.map g) := by
  intro l
  induction l with
  | nil => intro _; rfl
  | cons a l ih =>
    intro h
    have ha := h a (by simp)
    have hl := ih (fun x hx => h x (by simp [hx]))
    simp [List.mapM_cons, ha, hl]

/-! ## split decisions on the logical pieces -/

/-- One split decision `(i, s)`: piece `i` is replaced by its halves `p[..s+k]`, `p[s..]` when
`s + k ≤ |p|` (the range in which `split_segment_at_position` does not panic); any other decision
leaves the pieces unchanged. -/
def applySplit (k : Nat) (ps : List (List Nat)) (d : Nat × Nat) : List (List Nat) :=
  match ps[d.1]? with
  | some p =>
    if d.2 + k ≤ p.length then ps.take d.1 ++ p.take (d.2 + k) :: p.drop d.2 :: ps.drop (d.1 + 1)
    else ps
  | none => ps

def applySplits (k : Nat) (ps : List (List Nat)) (ds : List (Nat × Nat)) : List (List Nat) :=
  ds.foldl (applySplit k) ps

theorem applySplit_tiles (k : Nat) (c : List Nat) (ps : List (List Nat)) (d : Nat × Nat)
    (h : Tiles k c ps) : Tiles k c (applySplit k ps d) := by
  unfold applySplit
  cases hp : ps[d.1]? with
  | none => exact h
  | some p =>
    simp only []
    split
    · rename_i hs
      obtain ⟨hlt, hpi⟩ := List.getElem?_eq_some_iff.mp hp
      have hdec : ps = ps.take d.1 ++ p :: ps.drop (d.1 + 1) := by
        rw [← hpi, ← List.drop_eq_getElem_cons hlt, List.take_append_drop]
      rw [hdec] at h
      exact tiles_split k c d.2 p _ _ hs h
    · exact h

theorem applySplits_tiles (k : Nat) (c : List Nat) (ds : List (Nat × Nat)) :
    ∀ (ps : List (List Nat)), Tiles k c ps → Tiles k c (applySplits k ps ds) := by
  induction ds with
  | nil => intro ps h; exact h
  | cons d ds ih => intro ps h; exact ih _ (applySplit_tiles k c ps d h)

/-! ## storage forms -/

/-- How the writer stores one (already oriented) piece. `before` / `after` are the other entries
of the pack the piece's entry shares; `ph`: the pack is the first of a raw group (placeholder
entry first). The choices (which group, hence which reference; tuple packing or not; which
neighbours) are the writer's heuristics — all universally quantified. -/
inductive Form where
  /-- entry of a raw-group pack -/
  | raw (ph : Bool) (before after : List (List Nat))
  /-- the reference part of an LZ group -/
  | ref (useTuples : Bool)
  /-- LZ-diff entry of a delta pack, against the group's reference `r`, candidate supplier `S` -/
  | lz (S : UInt64 → List Nat) (r : List Nat) (before after : List (List Nat))

def NoSep (es : List (List Nat)) : Prop := ∀ e ∈ es, 255 ∉ e

/-- What is assumed of a choice: the neighbouring entries are splittable, and (LZ) the encoder
answers — it always does for the real index, `Props.C09.encode_total`. -/
def Form.OK (mm : Nat) : Form → List Nat → Prop
  | .raw _ b a, _ => NoSep b ∧ NoSep a
  | .ref _, _ => True
  | .lz S r b a, x => NoSep b ∧ NoSep a ∧ (Ragc.Model.LzDiff.encode S mm r x).isSome

/-- A pack part as written: layout, ZSTD, marker 0, raw fallback. -/
def writePack (zc : Nat → List Nat → List Nat) (level : Nat) (ph : Bool) (es : List (List Nat)) :
    List Nat × Nat :=
  Ragc.SegCompress.storePack zc level (if ph then packEntriesRaw es else packEntries es)

/-- Write the piece in the chosen form, then read it back the way the format says (unframe the
part by its metadata, split the pack, take the addressed entry, LZ-decode against the reference). -/
def storeRead (zc : Nat → List Nat → List Nat) (zd : List Nat → Option (List Nat)) (mm level : Nat) :
    Form → List Nat → Option (List Nat)
  | .raw ph b a, x =>
    let part := writePack zc level ph (b ++ x :: a)
    (Ragc.SegCompress.unframePart zd part.1 part.2).bind fun packed =>
      Ragc.Agc3.unpackEntry packed (b.length + if ph then 1 else 0)
  | .ref t, x =>
    let cm := Ragc.SegCompress.compressRefWith zc t x
    let part := Ragc.SegCompress.framePart cm.1 cm.2 x
    Ragc.SegCompress.unframePart zd part.1 part.2
  | .lz S r b a, x =>
    match Ragc.Model.LzDiff.encode S mm r x with
    | none => none
    | some enc =>
      let part := writePack zc level false (b ++ enc :: a)
      (Ragc.SegCompress.unframePart zd part.1 part.2).bind fun packed =>
        (Ragc.Agc3.unpackEntry packed b.length).bind (Ragc.Model.LzDiff.decodeSeg mm r)

/-- Store a logical piece with orientation flag `f` in form `fm`, read it back, undo the flag. -/
def readBack (zc : Nat → List Nat → List Nat) (zd : List Nat → Option (List Nat)) (mm level : Nat)
    (x : (Bool × Form) × List Nat) : Option (List Nat) :=
  (storeRead zc zd mm level x.1.2 (orient x.1.1 x.2)).map (orient x.1.1)

end Ragc.Roundtrip
