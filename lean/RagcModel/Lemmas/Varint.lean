import RagcModel.Model.Varint
/-! Helper lemmas about `Model/Varint.lean`. -/
namespace Ragc.Varint

theorem digits_zero : digits 0 = [] := by
  rw [digits]; simp

theorem digits_pos {v : Nat} (h : v ≠ 0) : digits v = v % 256 :: digits (v / 256) := by
  rw [digits]; simp [h]

theorem byteLen_zero : byteLen 0 = 0 := by simp [byteLen, digits_zero]

theorem byteLen_pos {v : Nat} (h : v ≠ 0) : byteLen v = byteLen (v / 256) + 1 := by
  simp [byteLen, digits_pos h]

/-- The digits are the base-256 representation of the value. -/
theorem leVal_digits (v : Nat) : leVal (digits v) = v := by
  induction v using Nat.strongRecOn with
  | _ v ih =>
    by_cases h : v = 0
    · subst h; simp [digits_zero, leVal]
    · rw [digits_pos h]
      have := ih (v / 256) (by omega)
      simp only [leVal, List.foldr_cons] at this ⊢
      rw [this]; omega

theorem digits_lt (v : Nat) : ∀ b ∈ digits v, b < 256 := by
  induction v using Nat.strongRecOn with
  | _ v ih =>
    by_cases h : v = 0
    · subst h; simp [digits_zero]
    · rw [digits_pos h]
      intro b hb
      rcases List.mem_cons.mp hb with rfl | hb
      · omega
      · exact ih (v / 256) (by omega) b hb

/-- `byteLen v` is the number of significant bytes: the least `k` with `v < 256^k`. -/
theorem byteLen_le_iff (v k : Nat) : byteLen v ≤ k ↔ v < 256 ^ k := by
  induction k generalizing v with
  | zero =>
    by_cases h : v = 0
    · subst h; simp [byteLen_zero]
    · rw [byteLen_pos h]; simp; omega
  | succ k ih =>
    by_cases h : v = 0
    · subst h; simp [byteLen_zero]; exact Nat.pow_pos (by omega)
    · rw [byteLen_pos h, Nat.add_le_add_iff_right, ih, Nat.pow_succ, Nat.div_lt_iff_lt_mul (by omega)]

theorem byteLen_le_eight {v : Nat} (h : v < 2 ^ 64) : byteLen v ≤ 8 :=
  (byteLen_le_iff v 8).mpr (by omega)

theorem writeVarint_length (v : Nat) : (writeVarint v).length = 1 + byteLen v := by
  simp [writeVarint, byteLen]; omega

theorem writeVarint_ne_nil (v : Nat) : writeVarint v ≠ [] := by simp [writeVarint]

/-- Big-endian accumulation only grows. -/
theorem le_foldl_be (l : List Nat) (acc : Nat) :
    acc ≤ l.foldl (fun a b => a * 256 + b) acc := by
  induction l generalizing acc with
  | nil => simp
  | cons b l ih => simp only [List.foldl_cons]; exact Nat.le_trans (by omega) (ih _)

theorem readBE_append (l r : List Nat) (acc : Nat)
    (h : l.foldl (fun a b => a * 256 + b) acc < 2 ^ 64) :
    readBE acc l.length (l ++ r) = some (l.foldl (fun a b => a * 256 + b) acc, r) := by
  induction l generalizing acc with
  | nil => simp [readBE]
  | cons b l ih =>
    simp only [List.foldl_cons] at h
    have h1 := le_foldl_be l (acc * 256 + b)
    have h2 : acc * 256 % 2 ^ 64 = acc * 256 := Nat.mod_eq_of_lt (by omega)
    simp only [List.length_cons, List.cons_append, readBE, List.foldl_cons, h2]
    exact ih _ h

theorem foldl_be_reverse_digits (v : Nat) :
    (digits v).reverse.foldl (fun a b => a * 256 + b) 0 = v := by
  rw [List.foldl_reverse]
  have h := leVal_digits v
  simp only [leVal] at h
  have e : (fun (x y : Nat) => y * 256 + x) = (fun b a => b + 256 * a) := by
    funext b a; omega
  rw [e]; exact h

theorem readVarint_writeVarint (v : Nat) (r : List Nat) (h : v < 2 ^ 64) :
    readVarint (writeVarint v ++ r) = some (v, r) := by
  have h1 := readBE_append (digits v).reverse r 0 (by rw [foldl_be_reverse_digits]; exact h)
  rw [foldl_be_reverse_digits, List.length_reverse] at h1
  simpa [writeVarint, readVarint, byteLen] using h1

theorem countOverflows_writeVarint (v : Nat) (r : List Nat) (h : v < 2 ^ 64) :
    countOverflows (writeVarint v ++ r) = false := by
  have := byteLen_le_eight h
  simp [countOverflows, writeVarint]; omega

/-- Reading consumes at least the length byte. -/
theorem readBE_length {acc k : Nat} {bs : List Nat} {v : Nat} {r : List Nat}
    (h : readBE acc k bs = some (v, r)) : r.length + k = bs.length := by
  induction k generalizing acc bs with
  | zero => simp [readBE] at h; rw [h.2]; simp
  | succ k ih =>
    cases bs with
    | nil => simp [readBE] at h
    | cons b bs => simp only [readBE] at h; have := ih h; simp; omega

theorem readVarint_length {bs : List Nat} {v : Nat} {r : List Nat}
    (h : readVarint bs = some (v, r)) : r.length < bs.length := by
  cases bs with
  | nil => simp [readVarint] at h
  | cons n bs => simp only [readVarint] at h; have := readBE_length h; simp; omega

theorem leBytes_length (k v : Nat) : (leBytes k v).length = k := by
  induction k generalizing v with
  | zero => simp [leBytes]
  | succ k ih => simp [leBytes, ih]

theorem leVal_leBytes (k v : Nat) : leVal (leBytes k v) = v % 256 ^ k := by
  induction k generalizing v with
  | zero => simp [leBytes, leVal]; omega
  | succ k ih =>
    have := ih (v / 256)
    simp only [leVal, leBytes, List.foldr_cons] at this ⊢
    rw [this, Nat.pow_succ, Nat.mul_comm (256 ^ k) 256, Nat.mod_mul]

theorem le64_length (v : Nat) : (le64 v).length = 8 := leBytes_length 8 v

theorem leVal_le64 {v : Nat} (h : v < 2 ^ 64) : leVal (le64 v) = v := by
  rw [le64, leVal_leBytes]; exact Nat.mod_eq_of_lt (by omega)

theorem readFixedU64_le64 {v : Nat} (h : v < 2 ^ 64) (r : List Nat) :
    readFixedU64 (le64 v ++ r) = some (v, r) := by
  have hl := le64_length v
  simp [readFixedU64, hl]
  exact leVal_le64 h

end Ragc.Varint
