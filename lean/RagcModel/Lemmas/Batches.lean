import RagcModel.Model.Details
import RagcModel.Lemmas.Names
import RagcModel.Lemmas.Details
/-! Batches of samples and the `samples_loaded` cursor (C03). -/
namespace Ragc.Details
open Ragc.CollVarint Ragc.Zigzag Ragc.Names

/-- A sample as the reader knows it after `load_batch_sample_names`. -/
def blank (s : Sample) : Sample := { name := s.name, contigs := [] }

/-- A sample after its contig names have been loaded (no descriptors yet). -/
def named (s : Sample) : Sample :=
  { name := s.name, contigs := s.contigs.map (fun c => { name := c.name, segs := [] }) }

theorem assignNames_skip (done l : List Sample) (nss : List (List Name)) :
    assignNames (done ++ l) done.length nss = done ++ assignNames l 0 nss := by
  induction done with
  | nil => simp
  | cons x xs ih =>
    cases nss with
    | nil => simp [assignNames]
    | cons n ns => simp only [List.cons_append, List.length_cons, assignNames, ih]

theorem assignNames_batch (batch rest : List Sample) :
    assignNames ((batch ++ rest).map blank) 0 (namesOf batch) = batch.map named ++ rest.map blank := by
  induction batch with
  | nil => simp [namesOf, assignNames]
  | cons s ss ih =>
    simp only [namesOf, List.map_cons, List.cons_append, assignNames] at ih ⊢
    rw [ih]
    simp [named, blank, List.map_map, Function.comp_def]

theorem assignSegs_skip (done l : List Sample) (b : Batch) :
    assignSegs (done ++ l) done.length b = done ++ assignSegs l 0 b := by
  induction done with
  | nil => simp
  | cons x xs ih =>
    cases b with
    | nil => simp [assignSegs]
    | cons n ns => simp only [List.cons_append, List.length_cons, assignSegs, ih]

theorem assignSegsContigs_named (cs : List Contig) :
    assignSegsContigs (cs.map (fun c => ({ name := c.name, segs := [] } : Contig))) (cs.map Contig.segs) = cs := by
  induction cs with
  | nil => simp [assignSegsContigs]
  | cons c cs ih => simp only [List.map_cons, assignSegsContigs, ih]

theorem assignSegs_batch (batch : List Sample) (rest : List Sample) :
    assignSegs (batch.map named ++ rest) 0 (segsOf batch) = batch ++ rest := by
  induction batch with
  | nil => simp [segsOf, assignSegs]
  | cons s ss ih =>
    simp only [segsOf, List.map_cons, List.cons_append, assignSegs] at ih ⊢
    rw [ih]
    simp [named, assignSegsContigs_named]

theorem fits_batch (batch rest : List Sample) :
    fits ((batch.map named ++ rest).map (fun s => s.contigs.length)) (segsOf batch) = true := by
  induction batch with
  | nil => simp [segsOf, fits]
  | cons s ss ih =>
    simp only [segsOf, List.map_cons, List.cons_append, fits] at ih ⊢
    rw [ih]
    simp [named]

/-- Well-formed catalogue entries: the hypotheses of the codec theorems. -/
def SampleOk (s : Sample) : Prop :=
  NameOk s.name ∧ s.contigs.length < 4294967296 ∧
    ∀ c ∈ s.contigs, NameOk c.name ∧ c.segs.length < 4294967296 ∧ ∀ g ∈ c.segs, SegOk g

theorem loadBatch_storeBatch (segSize k : Nat) (done batch rest : List Sample) (lb : Nat)
    (hpred : segSize + k ≤ 2147483648) (hlen : batch.length < 4294967296)
    (hok : ∀ s ∈ batch, SampleOk s) :
    loadBatch segSize k
      { samples := done ++ (batch ++ rest).map blank, loaded := done.length, lastBatch := lb }
      (storeBatch segSize k batch)
    = .ok { samples := done ++ batch ++ rest.map blank, loaded := done.length + batch.length,
            lastBatch := batch.length } := by
  unfold loadBatch storeBatch
  simp only
  have hav : (done ++ (batch ++ rest).map blank).length - done.length = (batch ++ rest).length := by
    simp
  have hnames : decodeNames ((batch ++ rest).length) (encodeNames (namesOf batch)) = .ok (namesOf batch) := by
    apply decodeNames_encodeNames
    · simpa [namesOf] using hlen
    · simp [namesOf]
    · intro s hs
      unfold namesOf at hs
      rcases List.mem_map.mp hs with ⟨x, hx, rfl⟩
      have hx' := hok x hx
      refine ⟨by rw [List.length_map]; exact hx'.2.1, ?_⟩
      intro nm hnm
      rcases List.mem_map.mp hnm with ⟨c, hc, rfl⟩
      exact (hx'.2.2 c hc).1
  rw [hav, hnames]
  simp only
  rw [assignNames_skip, assignNames_batch]
  have hdrop : (done ++ (batch.map named ++ rest.map blank)).drop done.length
      = batch.map named ++ rest.map blank := by simp
  rw [hdrop]
  have hdet : decodeDetailsL segSize k
      ((batch.map named ++ rest.map blank).map (fun s => s.contigs.length))
      (encodeDetails segSize k (segsOf batch)) = .ok (segsOf batch) := by
    apply decodeDetailsL_encodeDetails segSize k (segsOf batch) _ hpred
    · refine ⟨by simpa [segsOf] using hlen, ?_⟩
      intro s hs
      unfold segsOf at hs
      rcases List.mem_map.mp hs with ⟨x, hx, rfl⟩
      have hx' := hok x hx
      refine ⟨by rw [List.length_map]; exact hx'.2.1, ?_⟩
      intro c hc
      rcases List.mem_map.mp hc with ⟨y, hy, rfl⟩
      exact (hx'.2.2 y hy).2.1
    · intro s hs c hc g hg
      unfold segsOf at hs
      rcases List.mem_map.mp hs with ⟨x, hx, rfl⟩
      rcases List.mem_map.mp hc with ⟨y, hy, rfl⟩
      exact ((hok x hx).2.2 y hy).2.2 g hg
    · exact fits_batch batch (rest.map blank)
  rw [hdet]
  simp only
  rw [assignSegs_skip, assignSegs_batch]
  simp [namesOf, List.append_assoc]

theorem loadBatches_storeBatches (segSize k card : Nat) (hcard : 0 < card) (hc32 : card < 4294967296)
    (hpred : segSize + k ≤ 2147483648) :
    ∀ (n : Nat) (todo done : List Sample) (lb : Nat), todo.length = n → (∀ s ∈ todo, SampleOk s) →
    ∃ lb', loadBatches segSize k
        { samples := done ++ todo.map blank, loaded := done.length, lastBatch := lb }
        (storeBatches segSize k card todo)
      = .ok { samples := done ++ todo, loaded := (done ++ todo).length, lastBatch := lb' } := by
  intro n
  induction n using Nat.strongRecOn with
  | _ n ih =>
    intro todo done lb hn hok
    rw [storeBatches]
    by_cases h : todo = [] ∨ card = 0
    · rw [dif_pos h]
      have ht : todo = [] := by rcases h with h | h; exact h; omega
      subst ht
      exact ⟨lb, by simp [loadBatches]⟩
    · rw [dif_neg h]
      have hne : todo ≠ [] := fun e => h (Or.inl e)
      have hsplit : todo = todo.take card ++ todo.drop card := (List.take_append_drop card todo).symm
      have hlb := loadBatch_storeBatch segSize k done (todo.take card) (todo.drop card) lb hpred
        (by have := List.length_take_le card todo; omega)
        (fun s hs => hok s (List.mem_of_mem_take hs))
      rw [← hsplit] at hlb
      simp only [loadBatches]
      rw [hlb]
      simp only
      have hlen : (todo.drop card).length < n := by
        have : todo.length ≠ 0 := fun e => hne (List.eq_nil_of_length_eq_zero e)
        simp only [List.length_drop]; omega
      obtain ⟨lb', hrec⟩ := ih _ hlen (todo.drop card) (done ++ todo.take card) (todo.take card).length rfl
        (fun s hs => hok s (List.mem_of_mem_drop hs))
      refine ⟨lb', ?_⟩
      have e1 : (done ++ todo.take card).length = done.length + (todo.take card).length := by simp
      rw [e1] at hrec
      rw [hrec]
      simp only [List.append_assoc, List.take_append_drop]

theorem storeLoad_ok (segSize k card : Nat) (ss : List Sample) (hcard : 0 < card) (hc32 : card < 4294967296)
    (hpred : segSize + k ≤ 2147483648) (hlen : ss.length < 4294967296) (hok : ∀ s ∈ ss, SampleOk s) :
    ∃ lb, storeLoad segSize k card ss = .ok { samples := ss, loaded := ss.length, lastBatch := lb } := by
  unfold storeLoad
  rw [decodeSampleNames_encodeSampleNames (ss.map Sample.name) (by simpa using hlen)
    (by intro nm hnm; rcases List.mem_map.mp hnm with ⟨s, hs, rfl⟩; exact (hok s hs).1)]
  simp only
  have hfresh : freshColl (ss.map Sample.name)
      = { samples := [] ++ ss.map blank, loaded := ([] : List Sample).length, lastBatch := 0 } := by
    simp [freshColl, blank, List.map_map, Function.comp_def]
  rw [hfresh]
  obtain ⟨lb, h⟩ := loadBatches_storeBatches segSize k card hcard hc32 hpred ss.length ss [] 0 rfl hok
  exact ⟨lb, by simpa using h⟩

end Ragc.Details
