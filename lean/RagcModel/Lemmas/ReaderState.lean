import RagcModel.Model.ReaderState
/-!
Lemmas for C08 (Model/ReaderState.lean): loading all metadata batches yields the archive's table
from any handle state (current code), the cache invariant, the loops with the caching loader agree
with the loops over the pure loader, and the handle invariant `Inv` is preserved by every
operation while every result equals the specification `answer`.
-/
namespace Ragc.ReaderState
open Ragc.CollVarint (Res)
open Ragc.Names (Name)
open Ragc.Details (Seg Contig)

/-! ## splice -/

theorem splice_length {α : Type} (L b : List α) (c : Nat) (h : c + b.length ≤ L.length) :
    (L.take c ++ b ++ L.drop (c + b.length)).length = L.length := by
  simp only [List.length_append, List.length_take, List.length_drop]
  omega

theorem splice_take {α : Type} (L b : List α) (c : Nat) (h : c + b.length ≤ L.length) :
    (L.take c ++ b ++ L.drop (c + b.length)).take (c + b.length) = L.take c ++ b := by
  apply List.take_left'
  simp only [List.length_append, List.length_take]
  omega

theorem splice_drop {α : Type} (L b : List α) (c m : Nat) (h : c + b.length ≤ L.length) :
    (L.take c ++ b ++ L.drop (c + b.length)).drop (c + b.length + m) = L.drop (c + b.length + m) := by
  have hl : (L.take c ++ b).length = c + b.length := by
    simp only [List.length_append, List.length_take]; omega
  rw [List.drop_append, List.drop_of_length_le (by omega), List.nil_append, List.drop_drop, hl]
  congr 1; omega

/-- Loading batches `j, j+1, …` when the cursor is where the batch is placed (always, except that
the current code restarts it for batch 0): the batches are spliced in at the cursor. -/
theorem loadFrom_eq (v : Variant) (bs : List MBatch) : ∀ (st : State) (j : Nat),
    (j ≠ 0 ∨ v.resetCursor = false ∨ st.cursor = 0) →
    st.cursor + bs.flatten.length ≤ st.contigs.length →
    loadFrom v st j bs = .ok { st with
      contigs := st.contigs.take st.cursor ++ bs.flatten ++ st.contigs.drop (st.cursor + bs.flatten.length),
      cursor := st.cursor + bs.flatten.length } := by
  induction bs with
  | nil =>
    intro st j _ _
    simp [loadFrom]
  | cons b bs ih =>
    intro st j hj h
    have hi : (if (v.resetCursor && j == 0) = true then 0 else st.cursor) = st.cursor := by
      rcases hj with hj | hj | hj
      · simp [hj]
      · simp [hj]
      · split <;> simp [hj]
    simp only [List.flatten_cons, List.length_append] at h
    have hb : st.cursor + b.length ≤ st.contigs.length := by omega
    have hlen := splice_length st.contigs b st.cursor hb
    have hload : loadBatch v st j b = .ok { st with
        contigs := st.contigs.take st.cursor ++ b ++ st.contigs.drop (st.cursor + b.length),
        cursor := st.cursor + b.length } := by
      simp only [loadBatch, hi, hb, if_true]
    simp only [loadFrom, hload]
    rw [ih _ (j + 1) (Or.inl (by omega)) (by simp only [hlen]; omega)]
    simp only []
    rw [splice_take _ _ _ hb, splice_drop _ _ _ _ hb]
    simp only [List.flatten_cons, List.length_append, List.append_assoc, Nat.add_assoc]
theorem loadFrom_reset (st : State) (b : MBatch) (bs : List MBatch) :
    loadFrom current st 0 (b :: bs) = loadFrom current { st with cursor := 0 } 0 (b :: bs) := by
  simp [loadFrom, loadBatch, current]

/-- The full table of the archive. -/
theorem table_def (A : Arch) : table A = A.batches.flatten := rfl

/-- Where the cursor stands after loading all batches (it is not moved when there is none). -/
def loadedCursor (A : Arch) (st : State) : Nat :=
  match A.batches with
  | [] => st.cursor
  | _ :: _ => (table A).length

/-- Current code: loading all batches on a handle in *any* state (right number of samples) gives
exactly the archive's table and leaves the cache alone. -/
theorem loadAll_current_eq (A : Arch) (st : State) (hwf : WF A)
    (hlen : st.contigs.length = A.samples.length) :
    loadAll current A st = .ok { contigs := table A, cursor := loadedCursor A st, cache := st.cache } := by
  unfold loadAll loadedCursor
  unfold WF at hwf
  rw [table_def] at hwf ⊢
  cases hb : A.batches with
  | nil =>
    rw [hb] at hwf
    simp only [List.flatten_nil, List.length_nil] at hwf
    have : st.contigs = [] := List.eq_nil_of_length_eq_zero (by omega)
    simp only [loadFrom, List.flatten_nil, ← this]
  | cons b bs =>
    rw [hb] at hwf
    rw [loadFrom_reset, loadFrom_eq current (b :: bs) _ 0 (Or.inr (Or.inr rfl)) (by simp only []; omega)]
    simp only [Nat.zero_add, List.take_zero, List.nil_append]
    rw [List.drop_of_length_le (by omega), List.append_nil]

theorem loadAll_current (A : Arch) (st : State) (hwf : WF A)
    (hlen : st.contigs.length = A.samples.length) :
    ∃ c, loadAll current A st = .ok { contigs := table A, cursor := c, cache := st.cache } :=
  ⟨_, loadAll_current_eq A st hwf hlen⟩

/-- Pre-repair code: the first load on a fresh handle works and leaves the cursor at the end … -/
theorem loadAll_old_fresh (A : Arch) (hwf : WF A) :
    loadAll preRepair A (fresh A) = .ok { contigs := table A, cursor := (table A).length, cache := [] } := by
  unfold loadAll
  unfold WF at hwf
  rw [table_def] at hwf ⊢
  have hl : (fresh A).contigs.length = A.samples.length := by simp [fresh]
  rw [loadFrom_eq preRepair A.batches (fresh A) 0 (Or.inr (Or.inl rfl)) (by rw [hl, hwf]; simp [fresh])]
  have hd : List.drop ((fresh A).cursor + A.batches.flatten.length) (fresh A).contigs = [] :=
    List.drop_of_length_le (by rw [hl, hwf]; omega)
  rw [hd]
  simp only [fresh, Nat.zero_add, List.take_zero, List.nil_append, List.append_nil]

/-- … so that every later load starts past the end of the sample table: index panic. -/
theorem loadAll_old_again (A : Arch) (st : State) (b : MBatch) (bs : List MBatch)
    (hb : A.batches = b :: bs) (hne : b ≠ []) (hc : st.contigs.length ≤ st.cursor) :
    loadAll preRepair A st = .panic := by
  unfold loadAll
  rw [hb]
  have : 0 < b.length := List.length_pos_iff.mpr hne
  have : ¬ st.cursor + b.length ≤ st.contigs.length := by omega
  have e : loadBatch preRepair st 0 b = .panic := by
    simp only [loadBatch, preRepair, Bool.false_and, Bool.false_eq_true, if_false, this]
  simp only [loadFrom, e]

/-! ## lookups -/

theorem getD_replicate_nil {α : Type} (n i : Nat) :
    (List.replicate n ([] : List α)).getD i [] = [] := by
  simp only [List.getD_eq_getElem?_getD, List.getElem?_replicate]
  split <;> rfl

theorem lookup_eq_none_iff (names : List Name) (s : Name) : lookup names s = none ↔ s ∉ names := by
  induction names with
  | nil => simp [lookup]
  | cons x xs ih =>
    simp only [lookup, List.mem_cons, not_or]
    cases hl : lookup xs s with
    | some i =>
      have : ¬ (s ∉ xs) := fun h => by rw [ih.mpr h] at hl; cases hl
      simp [this]
    | none =>
      have := ih.mp hl
      by_cases hx : x = s
      · simp [hx]
      · simp only [hx, if_false, true_iff]
        exact ⟨fun h => hx h.symm, this⟩

theorem findContig_eq_none_iff (cs : List Contig) (c : Name) :
    findContig cs c = none ↔ ∀ x ∈ cs, x.name ≠ c := by
  unfold findContig
  simp [List.find?_eq_none]

theorem contigsOf_unknown (names : List Name) (t : List (List Contig)) (s : Name) (h : s ∉ names) :
    contigsOf names t s = none := by
  simp [contigsOf, (lookup_eq_none_iff names s).mpr h]

/-! ## invariants -/

/-- The cache only holds LZ groups, each with the reference the archive yields for it. -/
def CacheOK (A : Arch) (c : Cache) : Prop :=
  ∀ g r, cacheGet c g = some r → 16 ≤ g ∧ A.ref g = .ok r

theorem cacheOK_nil (A : Arch) : CacheOK A [] := by
  intro g r h; simp [cacheGet] at h

theorem cacheOK_cons (A : Arch) (c : Cache) (g : Nat) (r : Bases) (h : CacheOK A c)
    (hg : 16 ≤ g) (hr : A.ref g = .ok r) : CacheOK A ((g, r) :: c) := by
  intro g' r' h'
  simp only [cacheGet] at h'
  split at h'
  · next heq => cases h'; subst heq; exact ⟨hg, hr⟩
  · exact h g' r' h'

/-- The handle invariant: the contig metadata is untouched (nothing loaded) or exactly the
archive's table, and the cache only holds correct references. -/
structure Inv (A : Arch) (st : State) : Prop where
  len : st.contigs.length = A.samples.length
  tbl : st.contigs = List.replicate A.samples.length [] ∨ st.contigs = table A
  cache : CacheOK A st.cache

theorem inv_fresh (A : Arch) : Inv A (fresh A) :=
  ⟨by simp [fresh], Or.inl rfl, cacheOK_nil A⟩

theorem inv_cache (A : Arch) (st : State) (c : Cache) (h : Inv A st) (hc : CacheOK A c) :
    Inv A { st with cache := c } := ⟨h.len, h.tbl, hc⟩

/-- After the lazy-loading block the handle sees, for the asked sample, what the table holds. -/
theorem ensureLoaded_spec (A : Arch) (st : State) (s : Name) (hwf : WF A) (h : Inv A st) :
    ∃ st1, ensureLoaded current A st s = .ok st1 ∧ Inv A st1 ∧ st1.cache = st.cache ∧
      contigsOf A.samples st1.contigs s = contigsOf A.samples (table A) s := by
  unfold ensureLoaded
  by_cases hn : needsLoad A st s = true
  · obtain ⟨c, hc⟩ := loadAll_current A st hwf h.len
    exact ⟨{ contigs := table A, cursor := c, cache := st.cache }, by simp only [hn, if_true]; exact hc,
      ⟨hwf, Or.inr rfl, h.cache⟩, rfl, rfl⟩
  · refine ⟨st, by simp only [hn]; rfl, h, rfl, ?_⟩
    rcases h.tbl with ht | ht
    · -- untouched metadata: every known sample triggers loading
      exfalso
      apply hn
      unfold needsLoad
      split
      · rfl
      · rw [ht, getD_replicate_nil]; rfl
    · rw [ht]

theorem loadAll_spec (A : Arch) (st : State) (hwf : WF A) (h : Inv A st) :
    ∃ st1, loadAll current A st = .ok st1 ∧ Inv A st1 ∧ st1.cache = st.cache ∧ st1.contigs = table A := by
  obtain ⟨c, hc⟩ := loadAll_current A st hwf h.len
  exact ⟨{ contigs := table A, cursor := c, cache := st.cache }, hc, ⟨hwf, Or.inr rfl, h.cache⟩, rfl, rfl⟩

/-! ## segment loading -/

theorem getSegment_spec (A : Arch) (c : Cache) (d : Seg) (h : CacheOK A c) :
    (getSegment A c d).2 = segPure A d ∧ CacheOK A (getSegment A c d).1 := by
  unfold getSegment segPure
  by_cases hg : d.group ≥ 16
  · rw [if_pos hg, if_pos hg]
    cases hc : cacheGet c d.group with
    | some r =>
      rw [(h _ _ hc).2]
      by_cases hi : d.inGroup = 0
      · simp only [hi, if_true]; exact ⟨trivial, h⟩
      · simp only [hi, if_false]; exact ⟨trivial, h⟩
    | none =>
      cases hr : A.ref d.group with
      | ok r =>
        by_cases hi : d.inGroup = 0
        · simp only [hi, if_true]; exact ⟨trivial, cacheOK_cons A c _ _ h hg hr⟩
        · simp only [hi, if_false]; exact ⟨trivial, cacheOK_cons A c _ _ h hg hr⟩
      | err => exact ⟨rfl, h⟩
      | panic => exact ⟨rfl, h⟩
  · rw [if_neg hg, if_neg hg]
    exact ⟨rfl, h⟩

theorem getReference_spec (A : Arch) (c : Cache) (g : Nat) (h : CacheOK A c) :
    (getReference current A c g).2 =
      (if g < 16 then .err else segPure A { group := g, inGroup := 0, rev := false, rawLen := 0 }) ∧
    CacheOK A (getReference current A c g).1 := by
  unfold getReference
  cases hc : cacheGet c g with
  | some r =>
    obtain ⟨hg, hr⟩ := h _ _ hc
    have h1 : ¬ g < 16 := by omega
    have h2 : g ≥ 16 := hg
    simp only [h1, if_false, segPure, hr, h2, if_true]
    exact ⟨trivial, h⟩
  | none =>
    simp only [current, if_true]
    by_cases h1 : g < 16
    · simp only [h1, if_true]; exact ⟨trivial, h⟩
    · simp only [h1, if_false]
      exact getSegment_spec A c _ h
/-! ## loops: the caching loader against the pure loader -/

theorem reconstructLoop_spec (A : Arch) (k : Nat) (segs : List Seg) :
    ∀ (c : Cache) (first : Bool) (acc : Bases), CacheOK A c →
      (reconstructLoop (getSegment A) k c first segs acc).2 =
        (reconstructLoop (pureLoad A) k () first segs acc).2 ∧
      CacheOK A (reconstructLoop (getSegment A) k c first segs acc).1 := by
  induction segs with
  | nil => intro c first acc h; exact ⟨rfl, h⟩
  | cons d rest ih =>
    intro c first acc h
    obtain ⟨h1, h2⟩ := getSegment_spec A c d h
    unfold reconstructLoop
    simp only [pureLoad]
    rw [← h1]
    rcases hgs : getSegment A c d with ⟨c1, r⟩
    rw [hgs] at h2
    simp only at h2 ⊢
    cases r with
    | ok data =>
      simp only []
      split
      · exact ih c1 false _ h2
      · split
        · exact ⟨rfl, h2⟩
        · exact ih c1 false _ h2
    | err => exact ⟨rfl, h2⟩
    | panic => exact ⟨rfl, h2⟩

theorem reconstruct_spec (A : Arch) (k : Nat) (c : Cache) (segs : List Seg) (h : CacheOK A c) :
    (reconstruct (getSegment A) k c segs).2 = (reconstruct (pureLoad A) k () segs).2 ∧
    CacheOK A (reconstruct (getSegment A) k c segs).1 :=
  reconstructLoop_spec A k segs c true [] h

theorem collectLoop_spec (A : Arch) (k : Nat) (segs : List Seg) (start e : Nat)
    (ranges : List (Nat × Nat × Nat)) :
    ∀ (c : Cache) (acc : Bases), CacheOK A c →
      (collectLoop (getSegment A) k segs start e c ranges acc).2 =
        (collectLoop (pureLoad A) k segs start e () ranges acc).2 ∧
      CacheOK A (collectLoop (getSegment A) k segs start e c ranges acc).1 := by
  induction ranges with
  | nil => intro c acc h; exact ⟨rfl, h⟩
  | cons x rest ih =>
    intro c acc h
    obtain ⟨segStart, segEnd, idx⟩ := x
    unfold collectLoop
    split
    · exact ih c acc h
    · split
      · exact ⟨rfl, h⟩
      · cases hd : segs[idx]? with
        | none => exact ⟨rfl, h⟩
        | some d =>
          simp only []
          obtain ⟨h1, h2⟩ := getSegment_spec A c d h
          simp only [pureLoad]
          rw [← h1]
          rcases hgs : getSegment A c d with ⟨c1, r⟩
          rw [hgs] at h2
          simp only at h2 ⊢
          cases r with
          | ok data =>
            simp only []
            repeat' split
            all_goals exact ih c1 _ h2
          | err => exact ⟨rfl, h2⟩
          | panic => exact ⟨rfl, h2⟩

theorem rangeOf_spec (A : Arch) (k : Nat) (c : Cache) (segs : List Seg) (start end_ : Nat)
    (h : CacheOK A c) :
    (rangeOf (getSegment A) k c segs start end_).2 = (rangeOf (pureLoad A) k () segs start end_).2 ∧
    CacheOK A (rangeOf (getSegment A) k c segs start end_).1 := by
  unfold rangeOf
  split
  · exact ⟨rfl, h⟩
  · simp only []
    split
    · exact ⟨rfl, h⟩
    · exact collectLoop_spec A k segs start _ _ c [] h

theorem sampleLoop_spec (A : Arch) (k : Nat) (cs : List Contig) :
    ∀ (c : Cache) (acc : List (Name × Bases)), CacheOK A c →
      (sampleLoop (getSegment A) k c cs acc).2 = (sampleLoop (pureLoad A) k () cs acc).2 ∧
      CacheOK A (sampleLoop (getSegment A) k c cs acc).1 := by
  induction cs with
  | nil => intro c acc h; exact ⟨rfl, h⟩
  | cons x rest ih =>
    intro c acc h
    obtain ⟨h1, h2⟩ := reconstruct_spec A k c x.segs h
    unfold sampleLoop
    rcases hp : reconstruct (pureLoad A) k () x.segs with ⟨u, rp⟩
    rcases hgs : reconstruct (getSegment A) k c x.segs with ⟨c1, r⟩
    rw [hgs, hp] at h1
    rw [hgs] at h2
    simp only at h1 h2 ⊢
    subst h1
    cases r with
    | ok data => exact ih c1 _ h2
    | err => exact ⟨rfl, h2⟩
    | panic => exact ⟨rfl, h2⟩

/-! ## operations -/

theorem stepGetSample_spec (A : Arch) (st : State) (s : Name) (hwf : WF A) (h : Inv A st) :
    (stepGetSample current A st s).2 = answerSample A s ∧ Inv A (stepGetSample current A st s).1 := by
  obtain ⟨st1, he, hi, _, hv⟩ := ensureLoaded_spec A st s hwf h
  unfold stepGetSample answerSample
  rw [he]
  simp only [hv]
  cases contigsOf A.samples (table A) s with
  | none => exact ⟨rfl, hi⟩
  | some cs =>
    obtain ⟨h1, h2⟩ := sampleLoop_spec A A.k cs st1.cache [] hi.cache
    simp only []
    exact ⟨h1, inv_cache A st1 _ hi h2⟩

theorem samplesLoop_spec (A : Arch) (hwf : WF A) (names : List Name) :
    ∀ (st : State) (acc : List (Name × List (Name × Bases))), Inv A st →
      (samplesLoop current A st names acc).2 = answerSamples A names acc ∧
      Inv A (samplesLoop current A st names acc).1 := by
  induction names with
  | nil => intro st acc h; exact ⟨rfl, h⟩
  | cons s rest ih =>
    intro st acc h
    obtain ⟨h1, h2⟩ := stepGetSample_spec A st s hwf h
    unfold samplesLoop answerSamples
    rw [← h1]
    rcases hgs : stepGetSample current A st s with ⟨st1, r⟩
    rw [hgs] at h2
    simp only at h2 ⊢
    cases r with
    | ok x => exact ih st1 _ h2
    | err => exact ⟨rfl, h2⟩
    | panic => exact ⟨rfl, h2⟩

theorem withDesc_spec (A : Arch) (st : State) (s c : Name) (hwf : WF A) (h : Inv A st)
    (f : Cache → List Seg → Cache × Result) (g : List Seg → Result)
    (hf : ∀ ca segs, CacheOK A ca → (f ca segs).2 = g segs ∧ CacheOK A (f ca segs).1) :
    (withDesc current A st s c f).2 = answerDesc A s c g ∧ Inv A (withDesc current A st s c f).1 := by
  obtain ⟨st1, he, hi, _, hv⟩ := ensureLoaded_spec A st s hwf h
  unfold withDesc answerDesc contigDesc
  rw [he]
  simp only [hv]
  cases contigsOf A.samples (table A) s with
  | none => exact ⟨rfl, hi⟩
  | some cs =>
    simp only []
    cases (findContig cs c) with
    | none => exact ⟨rfl, hi⟩
    | some x =>
      obtain ⟨h1, h2⟩ := hf st1.cache x.segs hi.cache
      simp only [Option.map]
      exact ⟨h1, inv_cache A st1 _ hi h2⟩

/-- Every operation preserves the invariant and answers what the specification says. -/
theorem step_spec (A : Arch) (st : State) (op : Op) (hwf : WF A) (h : Inv A st) :
    (step A st op).2 = answer A op ∧ Inv A (step A st op).1 := by
  unfold step
  cases op with
  | listSamples => exact ⟨rfl, h⟩
  | listSamplesWithPrefix p => exact ⟨rfl, h⟩
  | compressionStats => exact ⟨rfl, h⟩
  | cloneForThread => exact ⟨rfl, h⟩
  | listContigs s =>
    obtain ⟨st1, he, hi, _, hv⟩ := ensureLoaded_spec A st s hwf h
    simp only [stepV, answer, he, hv]
    cases contigsOf A.samples (table A) s with
    | none => exact ⟨rfl, hi⟩
    | some cs => exact ⟨rfl, hi⟩
  | contigLength s c =>
    simp only [stepV, answer]
    exact withDesc_spec A st s c hwf h _ _ (fun ca segs hc => ⟨rfl, hc⟩)
  | contigRange s c start end_ =>
    simp only [stepV, answer]
    split
    · exact ⟨rfl, h⟩
    · apply withDesc_spec A st s c hwf h
      intro ca segs hc
      obtain ⟨h1, h2⟩ := rangeOf_spec A A.k ca segs start end_ hc
      exact ⟨by simp only [h1], h2⟩
  | getContig s c =>
    simp only [stepV, answer]
    apply withDesc_spec A st s c hwf h
    intro ca segs hc
    obtain ⟨h1, h2⟩ := reconstruct_spec A A.k ca segs hc
    exact ⟨by simp only [h1], h2⟩
  | segmentsDesc s c =>
    simp only [stepV, answer]
    exact withDesc_spec A st s c hwf h _ _ (fun ca segs hc => ⟨rfl, hc⟩)
  | segmentData d =>
    obtain ⟨h1, h2⟩ := getSegment_spec A st.cache d h.cache
    simp only [stepV, answer]
    exact ⟨by simp only [h1], inv_cache A st _ h h2⟩
  | referenceSegment g =>
    obtain ⟨h1, h2⟩ := getReference_spec A st.cache g h.cache
    simp only [stepV, answer]
    refine ⟨?_, inv_cache A st _ h h2⟩
    simp only [h1]
    split <;> rfl
  | getSample s =>
    obtain ⟨h1, h2⟩ := stepGetSample_spec A st s hwf h
    simp only [stepV, answer]
    exact ⟨by simp only [h1], h2⟩
  | writeSampleFasta s =>
    obtain ⟨h1, h2⟩ := stepGetSample_spec A st s hwf h
    simp only [stepV, answer]
    exact ⟨by simp only [h1], h2⟩
  | getSamplesByPrefix p =>
    obtain ⟨h1, h2⟩ := samplesLoop_spec A hwf (withPrefix A.samples p) st [] h
    simp only [stepV, answer]
    exact ⟨by simp only [h1], h2⟩
  | groupStatistics =>
    obtain ⟨st1, he, hi, _, hv⟩ := loadAll_spec A st hwf h
    simp only [stepV, answer, he, hv]
    cases allSegsOf A.samples (table A) A.samples with
    | none => exact ⟨rfl, hi⟩
    | some l => exact ⟨rfl, hi⟩
  | allSegments =>
    obtain ⟨st1, he, hi, _, hv⟩ := loadAll_spec A st hwf h
    simp only [stepV, answer, he, hv]
    cases allSegsOf A.samples (table A) A.samples with
    | none => exact ⟨rfl, hi⟩
    | some l => exact ⟨rfl, hi⟩

/-- The invariant holds after every history. -/
theorem inv_run (A : Arch) (hwf : WF A) (ops : List Op) :
    ∀ st, Inv A st → Inv A (run A st ops).1 := by
  induction ops with
  | nil => intro st h; exact h
  | cons op ops ih =>
    intro st h
    have := (step_spec A st op hwf h).2
    unfold run runV
    exact ih _ this

/-- …and the results of a history are the specification's answers, operation by operation. -/
theorem results_run (A : Arch) (hwf : WF A) (ops : List Op) :
    ∀ st, Inv A st → (run A st ops).2 = ops.map (answer A) := by
  induction ops with
  | nil => intro st h; rfl
  | cons op ops ih =>
    intro st h
    obtain ⟨h1, h2⟩ := step_spec A st op hwf h
    unfold run runV
    simp only [List.map_cons]
    rw [← h1]
    congr 1
    exact ih _ h2

/-! ## the pre-repair code -/

/-- Pre-repair: any `get_sample` on a fresh handle (known or unknown name) loads the table and leaves the cursor at the end of the table. -/
theorem stepGetSample_old_fresh (A : Arch) (hwf : WF A) (hit : Name) :
    (stepGetSample preRepair A (fresh A) hit).1.contigs = table A ∧
    (stepGetSample preRepair A (fresh A) hit).1.cursor = (table A).length := by
  have hn : needsLoad A (fresh A) hit = true := by
    unfold needsLoad
    split
    · rfl
    · simp only [fresh, getD_replicate_nil]; rfl
  unfold stepGetSample ensureLoaded
  rw [if_pos hn, loadAll_old_fresh A hwf]
  simp only []
  split
  · exact ⟨rfl, rfl⟩
  · exact ⟨rfl, rfl⟩

/-- Pre-repair: with the cursor at (or past) the end, a query that triggers loading panics. -/
theorem stepGetSample_old_miss (A : Arch) (st : State) (miss : Name) (b : MBatch) (bs : List MBatch)
    (hb : A.batches = b :: bs) (hne : b ≠ []) (hmiss : miss ∉ A.samples)
    (hc : st.contigs.length ≤ st.cursor) :
    (stepGetSample preRepair A st miss).2 = .panic := by
  have hn : needsLoad A st miss = true := by
    unfold needsLoad
    rw [(lookup_eq_none_iff _ _).mpr hmiss]
  unfold stepGetSample ensureLoaded
  rw [if_pos hn, loadAll_old_again A st b bs hb hne hc]

/-! ## several handles -/

theorem sysRun_spec (A : Arch) (hwf : WF A) (acts : List SysOp) :
    ∀ hs : List State, (∀ st ∈ hs, Inv A st) →
      (∀ st ∈ (sysRun A hs acts).1, Inv A st) ∧
      ∀ r ∈ (sysRun A hs acts).2.zip acts, ∀ res, r.1 = some res →
        res = match r.2 with
          | .on _ op => answer A op
          | .clone _ => .ok .unit := by
  induction acts with
  | nil => intro hs h; exact ⟨h, by intro r hr; simp [sysRun] at hr⟩
  | cons a rest ih =>
    intro hs h
    -- one step
    have hstep : (∀ st ∈ (sysStep A hs a).1, Inv A st) ∧
        ∀ res, (sysStep A hs a).2 = some res →
          res = match a with
            | .on _ op => answer A op
            | .clone _ => .ok .unit := by
      cases a with
      | on i op =>
        cases hi : hs[i]? with
        | none =>
          have e : sysStep A hs (.on i op) = (hs, none) := by simp only [sysStep, hi]
          rw [e]
          exact ⟨h, by intro res hr; cases hr⟩
        | some st =>
          have e : sysStep A hs (.on i op) = (hs.set i (step A st op).1, some (step A st op).2) := by
            simp only [sysStep, hi]
          rw [e]
          have hst : Inv A st := h st (List.mem_of_getElem? hi)
          obtain ⟨h1, h2⟩ := step_spec A st op hwf hst
          refine ⟨?_, ?_⟩
          · intro x hx
            rcases List.mem_or_eq_of_mem_set hx with hx | hx
            · exact h x hx
            · rw [hx]; exact h2
          · intro res hr
            cases hr
            exact h1
      | clone i =>
        cases hi : hs[i]? with
        | none =>
          have e : sysStep A hs (.clone i) = (hs, none) := by simp only [sysStep, hi]
          rw [e]
          exact ⟨h, by intro res hr; cases hr⟩
        | some st =>
          have e : sysStep A hs (.clone i) = (hs ++ [fresh A], some (.ok .unit)) := by
            simp only [sysStep, hi]
          rw [e]
          refine ⟨?_, by intro res hr; cases hr; rfl⟩
          intro x hx
          rcases List.mem_append.mp hx with hx | hx
          · exact h x hx
          · rw [List.mem_singleton.mp hx]; exact inv_fresh A
    obtain ⟨ih1, ih2⟩ := ih (sysStep A hs a).1 hstep.1
    unfold sysRun
    refine ⟨ih1, ?_⟩
    intro r hr res hres
    simp only [List.zip_cons_cons, List.mem_cons] at hr
    rcases hr with hr | hr
    · subst hr
      exact hstep.2 res hres
    · exact ih2 r hr res hres

end Ragc.ReaderState
