import RagcModel.Lemmas.LzDiffFind
import RagcModel.Lemmas.LzDiffLex
/-!
C09: the encoder loop invariant and its consequences (token-level round trip, well-formedness of
the emitted tokens, non-emptiness), for every candidate supplier.
-/
namespace Ragc.Model.LzDiff
open Ragc.Gen

/-! ### token-level decoder: algebra -/

theorem decToks_append (refP : Array Nat) (refLen : Nat) (a b : List Tok) (st : List Nat × Nat) :
    decToks refP refLen (a ++ b) st =
      match decToks refP refLen a st with
      | none => none
      | some st' => decToks refP refLen b st' := by
  induction a generalizing st with
  | nil => simp [decToks]
  | cons x xs ih =>
    simp only [List.cons_append, decToks]
    cases stepTok refP refLen st x with
    | none => rfl
    | some st' => exact ih st'

theorem decToks_snoc (refP : Array Nat) (refLen : Nat) (a : List Tok) (x : Tok) (st st' : List Nat × Nat)
    (h : decToks refP refLen a st = some st') :
    decToks refP refLen (a ++ [x]) st = stepTok refP refLen st' x := by
  rw [decToks_append, h]
  simp only [decToks]
  cases stepTok refP refLen st' x <;> rfl

/-- if a token list followed by one token decodes, so does the list. -/
theorem decToks_snoc_inv (refP : Array Nat) (refLen : Nat) (a : List Tok) (x : Tok) (st r : List Nat × Nat)
    (h : decToks refP refLen (a ++ [x]) st = some r) :
    ∃ st', decToks refP refLen a st = some st' ∧ stepTok refP refLen st' x = some r := by
  rw [decToks_append] at h
  cases h1 : decToks refP refLen a st with
  | none => rw [h1] at h; cases h
  | some st' =>
    rw [h1] at h
    simp only [decToks] at h
    refine ⟨st', rfl, ?_⟩
    cases h2 : stepTok refP refLen st' x with
    | none => rw [h2] at h; cases h
    | some r' => rw [h2] at h; simpa using h

theorem decToks_lits (refP : Array Nat) (refLen : Nat) (l : List Nat) (o : List Nat) (p : Nat) :
    decToks refP refLen (l.map Tok.lit) (o, p) = some (o ++ l, p + l.length) := by
  induction l generalizing o p with
  | nil => simp [decToks]
  | cons c cs ih =>
    simp only [List.map_cons, decToks, stepTok, ih, List.length_cons, List.append_assoc,
      List.cons_append, List.nil_append]
    congr 2
    omega

/-! ### list segments -/

/-- extending a prefix by a segment that agrees position-wise with the list. -/
theorem take_extend (l seg : List Nat) (i : Nat)
    (h : ∀ j, j < seg.length → l[i + j]? = seg[j]?) :
    l.take (i + seg.length) = l.take i ++ seg := by
  rw [List.take_add]
  congr 1
  apply List.ext_getElem?
  intro j
  rw [List.getElem?_take, List.getElem?_drop]
  split
  · next hj => exact h j hj
  · next hj =>
    have : seg.length ≤ j := by omega
    exact (List.getElem?_eq_none this).symm

theorem extract_getElem? (a : Array Nat) (s n j : Nat) (hfit : s + n ≤ a.size) :
    (a.extract s (s + n)).toList[j]? = if j < n then a[s + j]? else none := by
  rw [Array.getElem?_toList, Array.getElem?_extract]
  have : min (s + n) a.size - s = n := by omega
  rw [this]

theorem extract_length (a : Array Nat) (s n : Nat) (hfit : s + n ≤ a.size) :
    (a.extract s (s + n)).toList.length = n := by
  simp only [Array.length_toList, Array.size_extract]
  omega

/-! ### bang rewriting -/

/-- Rewriting does not change what the token list decodes to, whenever the decoder's `pred_pos`
    after the list is `amp + 1 - k` (the guard `adjusted_match_pos == pred_pos` with `k = 1`);
    the scan bound plays no role. -/
theorem bangScan_sound (refP : Array Nat) (refLen amp bound : Nat) (st0 : List Nat × Nat) :
    ∀ (toks : List Tok) (k : Nat) (o : List Nat) (P : Nat),
      decToks refP refLen toks.reverse st0 = some (o, P) → P + k = amp + 1 →
      decToks refP refLen (bangScan refP amp bound k toks).reverse st0 = some (o, P) := by
  intro toks
  induction toks with
  | nil => intro k o P h _; simpa [bangScan] using h
  | cons x rest ih =>
    intro k o P h hk
    cases x with
    | lit c =>
      simp only [bangScan]
      split
      · simp only [List.reverse_cons] at h ⊢
        obtain ⟨⟨o', p'⟩, h1, h2⟩ := decToks_snoc_inv _ _ _ _ _ _ h
        simp only [stepTok, Option.some.injEq, Prod.mk.injEq] at h2
        obtain ⟨ho, hp⟩ := h2
        have ih' := ih (k + 1) o' p' h1 (by omega)
        rw [decToks_snoc _ _ _ _ _ _ ih']
        split
        · next hc =>
          have : amp - k = p' := by omega
          rw [this] at hc
          simp only [stepTok, hc, ho, hp]
        · simp only [stepTok, ho, hp]
      · exact h
    | bang => simpa [bangScan] using h
    | nrun n => simpa [bangScan] using h
    | mtch d len => simpa [bangScan] using h

theorem rewriteBang_sound (refP : Array Nat) (refLen amp pred esz : Nat) (st0 : List Nat × Nat)
    (toks : List Tok) (o : List Nat)
    (h : decToks refP refLen toks.reverse st0 = some (o, pred)) :
    decToks refP refLen (rewriteBang refP amp pred esz toks).reverse st0 = some (o, pred) := by
  unfold rewriteBang
  split
  · next he => exact bangScan_sound refP refLen amp _ st0 toks 1 o pred h (by omega)
  · exact h

/-- a rewritten token is `bang` or was there before. -/
theorem bangScan_mem (refP : Array Nat) (amp bound : Nat) :
    ∀ (toks : List Tok) (k : Nat) (x : Tok), x ∈ bangScan refP amp bound k toks → x = Tok.bang ∨ x ∈ toks := by
  intro toks
  induction toks with
  | nil => intro k x h; simp [bangScan] at h
  | cons y rest ih =>
    intro k x h
    cases y with
    | lit c =>
      simp only [bangScan] at h
      split at h
      · simp only [List.mem_cons] at h
        rcases h with h | h
        · split at h
          · exact Or.inl h
          · exact Or.inr (by simp [h])
        · rcases ih (k + 1) x h with h' | h'
          · exact Or.inl h'
          · exact Or.inr (by simp [h'])
      · exact Or.inr h
    | bang => exact Or.inr (by simpa [bangScan] using h)
    | nrun n => exact Or.inr (by simpa [bangScan] using h)
    | mtch d len => exact Or.inr (by simpa [bangScan] using h)

theorem rewriteBang_mem (refP : Array Nat) (amp pred esz : Nat) (toks : List Tok) (x : Tok)
    (h : x ∈ rewriteBang refP amp pred esz toks) : x = Tok.bang ∨ x ∈ toks := by
  unfold rewriteBang at h
  split at h
  · exact bangScan_mem refP amp _ toks 1 x h
  · exact Or.inr h

/-! ### N runs -/

theorem countN_spec (t : Array Nat) : ∀ (n j m : Nat), m < countN t j n → t[j + m]? = some lzNCode := by
  intro n
  induction n with
  | zero => intro j m h; simp [countN] at h
  | succ n ih =>
    intro j m h
    simp only [countN] at h
    split at h
    · next hj =>
      cases m with
      | zero => simpa using hj
      | succ m' =>
        have := ih (j + 1) m' (by omega)
        have e : j + (m' + 1) = j + 1 + m' := by omega
        rw [e]; exact this
    · omega

theorem nrunLen_spec (t : Array Nat) (i m : Nat) (h : m < nrunLen t i) : t[i + m]? = some lzNCode := by
  unfold nrunLen at h
  split at h
  · omega
  · split at h
    · next h3 =>
      by_cases h0 : m = 0
      · subst h0; simpa using h3.1
      by_cases h1 : m = 1
      · subst h1; exact h3.2.1
      by_cases h2 : m = 2
      · subst h2; exact h3.2.2
      have := countN_spec t (t.size - i - 3) (i + 3) (m - 3) (by omega)
      have e : i + 3 + (m - 3) = i + m := by omega
      rw [e] at this; exact this
    · omega

/-! ### the loop invariant -/

/-- **Invariant J** of Appendix A.1: for every `j ≤ no_prev_literals`, the tokens without the `j`
    newest decode to the first `i - j` target symbols with `pred_pos - j`. -/
def Inv (refP : Array Nat) (refLen : Nat) (t : Array Nat) (i pred npl : Nat) (toks : List Tok) : Prop :=
  ∀ j, j ≤ npl → decToks refP refLen (toks.drop j).reverse ([], 0) = some (t.toList.take (i - j), pred - j)

theorem Inv.lit {refP : Array Nat} {refLen : Nat} {t : Array Nat} {i pred npl : Nat} {toks : List Tok}
    {c : Nat} (h : Inv refP refLen t i pred npl toks) (hc : t[i]? = some c) :
    Inv refP refLen t (i + 1) (pred + 1) (npl + 1) (.lit c :: toks) := by
  intro j hj
  cases j with
  | zero =>
    have h0 := h 0 (by omega)
    simp only [List.drop_zero, Nat.sub_zero, List.reverse_cons] at h0 ⊢
    rw [decToks_snoc _ _ _ _ _ _ h0]
    simp only [stepTok]
    rw [List.take_add_one, Array.getElem?_toList, hc]
    rfl
  | succ j' =>
    have h' := h j' (by omega)
    simp only [List.drop_succ_cons]
    have e1 : i + 1 - (j' + 1) = i - j' := by omega
    have e2 : pred + 1 - (j' + 1) = pred - j' := by omega
    rw [e1, e2]; exact h'

theorem Inv.nrun {refP : Array Nat} {refLen : Nat} {t : Array Nat} {i pred npl : Nat} {toks : List Tok}
    (h : Inv refP refLen t i pred npl toks) :
    Inv refP refLen t (i + nrunLen t i) pred 0 (.nrun (nrunLen t i) :: toks) := by
  intro j hj
  have hj0 : j = 0 := by omega
  subst hj0
  have h0 := h 0 (by omega)
  simp only [List.drop_zero, Nat.sub_zero, List.reverse_cons] at h0 ⊢
  rw [decToks_snoc _ _ _ _ _ _ h0]
  simp only [stepTok]
  have := take_extend t.toList (List.replicate (nrunLen t i) lzNCode) i (by
    intro m hm
    simp only [List.length_replicate] at hm
    rw [Array.getElem?_toList, nrunLen_spec t i m hm, List.getElem?_replicate]
    simp [hm])
  simp only [List.length_replicate] at this
  rw [this]

/-- the match step (482-544): pop `bck` literals, rewrite bangs, emit the match. -/
theorem Inv.mtch {refP : Array Nat} {refLen : Nat} {t : Array Nat} {i pred npl mm : Nat} {toks : List Tok}
    {mpos bck fwd esz : Nat} (hmm : lzHashingStep ≤ mm)
    (h : Inv refP refLen t i pred npl toks)
    (hm : MatchOK refP t i npl mm (keyLen mm) mpos bck fwd) :
    Inv refP refLen t (i - bck + (bck + fwd)) (mpos - bck + (bck + fwd)) 0
      (Tok.mtch (((mpos - bck : Nat) : Int) - ((pred - bck : Nat) : Int))
          (matchLenField refLen t.size (i - bck) (bck + fwd) mpos fwd)
        :: rewriteBang refP (mpos - bck) (pred - bck) esz (toks.drop bck)) := by
  intro j hj
  have hj0 : j = 0 := by omega
  subst hj0
  have hb := h bck hm.bnpl
  have hb' := rewriteBang_sound refP refLen (mpos - bck) (pred - bck) esz ([], 0) (toks.drop bck) _ hb
  simp only [List.drop_zero, Nat.sub_zero, List.reverse_cons]
  rw [decToks_snoc _ _ _ _ _ _ hb']
  obtain ⟨hbt, hbr⟩ := hm.bounds hmm
  have hbp := hm.bp
  have hbti := hm.bti
  have hfit : mpos - bck + (bck + fwd) ≤ refP.size := by omega
  -- the copied slice is the next `bck + fwd` target symbols
  have hseg := take_extend t.toList (refP.extract (mpos - bck) (mpos - bck + (bck + fwd))).toList (i - bck) (by
    intro m hm'
    rw [extract_length _ _ _ hfit] at hm'
    rw [extract_getElem? _ _ _ _ hfit, if_pos hm', Array.getElem?_toList]
    obtain ⟨a, ha, hr⟩ := hm.segment m hm'
    rw [ha, hr])
  rw [extract_length _ _ _ hfit] at hseg
  have hq : ((pred - bck : Nat) : Int) + (((mpos - bck : Nat) : Int) - ((pred - bck : Nat) : Int)) = ((mpos - bck : Nat) : Int) := by omega
  have hnn : ¬ (((mpos - bck : Nat) : Int) < 0) := by omega
  by_cases hend : i - bck + (bck + fwd) = t.size ∧ mpos + fwd = refLen
  · -- match to end: the implicit length is `refLen - amp = bck + fwd`
    have hl : refLen - (mpos - bck) = bck + fwd := by omega
    have h1 : ¬ (refLen < mpos - bck) := by omega
    rw [show matchLenField refLen t.size (i - bck) (bck + fwd) mpos fwd = none from if_pos hend]
    simp only [stepTok, hq, hnn, if_false, Int.toNat_natCast, h1, hl, hfit, if_true, hseg]
  · rw [show matchLenField refLen t.size (i - bck) (bck + fwd) mpos fwd = some (bck + fwd) from if_neg hend]
    simp only [stepTok, hq, hnn, if_false, Int.toNat_natCast, hfit, if_true, hseg]

/-- **encode_inv**: from any state that satisfies the invariant, whatever the loop returns decodes
    (token level) to the whole target. -/
theorem encLoop_decodes (S : UInt64 → List Nat) (mm : Nat) (hmm : lzHashingStep ≤ mm) (refP : Array Nat)
    (refLen : Nat) (t : Array Nat) (i pred npl : Nat) (toks : List Tok) (xprev : Option UInt64)
    (res : List Tok)
    (hinv : Inv refP refLen t i pred npl toks)
    (hres : encLoop S mm hmm refP refLen t i pred npl toks xprev = some res) :
    ∃ p, decToks refP refLen res.reverse ([], 0) = some (t.toList, p) := by
  fun_induction encLoop S mm hmm refP refLen t i pred npl toks xprev with
  | case1 i pred npl toks xprev hlt hx => cases hres
  | case2 i pred npl toks xprev hlt hx hn ih => exact ih hinv.nrun hres
  | case3 i pred npl toks xprev hlt hx hn hc => cases hres
  | case4 i pred npl toks xprev hlt hx hn c hc ih => exact ih (hinv.lit hc) hres
  | case5 i pred npl toks xprev hlt code hx hf => cases hres
  | case6 i pred npl toks xprev hlt code hx hf hc => cases hres
  | case7 i pred npl toks xprev hlt code hx hf c hc ih => exact ih (hinv.lit hc) hres
  | case8 i pred npl toks xprev hlt code hx mpos bck fwd hf i' pred' toks' total amp tok toks'' ih =>
    exact ih (hinv.mtch hmm (findBest_sound hmm hf)) hres
  | case9 i pred npl toks xprev hlt =>
    simp only [Option.some.injEq] at hres
    subst hres
    have h0 := hinv 0 (by omega)
    simp only [List.drop_zero, Nat.sub_zero] at h0
    unfold tailLits
    simp only [List.reverse_append, List.reverse_reverse]
    rw [decToks_append, h0]
    simp only
    rw [decToks_lits]
    refine ⟨pred + (t.extract i t.size).toList.length, ?_⟩
    congr 2
    rw [Array.toList_extract, List.extract_eq_take_drop]
    have hlen : (List.drop i t.toList).length = t.size - i := by simp
    have htk : List.take (t.size - i) (List.drop i t.toList) = List.drop i t.toList :=
      List.take_of_length_le (by omega)
    rw [htk, List.take_append_drop]

end Ragc.Model.LzDiff
