import RagcModel.Model.StreamNames
namespace Ragc.StreamNames

/-- The 64 digits of the regenerated table are pairwise distinct (checked over the whole table). -/
theorem digits_nodup : Ragc.Gen.b64Digits.Nodup := by decide +kernel

theorem digits_length : Ragc.Gen.b64Digits.length = 64 := by decide

theorem digitAt_inj {i j : Nat} (hi : i < 64) (hj : j < 64) (h : digitAt i = digitAt j) : i = j := by
  unfold digitAt at h
  have hl := digits_length
  have e1 : Ragc.Gen.b64Digits.getD i 0 = Ragc.Gen.b64Digits[i]'(by omega) := by
    simp [List.getD, show i < Ragc.Gen.b64Digits.length by omega]
  have e2 : Ragc.Gen.b64Digits.getD j 0 = Ragc.Gen.b64Digits[j]'(by omega) := by
    simp [List.getD, show j < Ragc.Gen.b64Digits.length by omega]
  rw [e1, e2] at h
  exact (List.getElem_inj digits_nodup).mp h

theorem intToBase64_ne_nil (n : Nat) : intToBase64 n ≠ [] := by
  unfold intToBase64; split <;> simp

theorem intToBase64_inj : ∀ (n m : Nat), intToBase64 n = intToBase64 m → n = m := by
  intro n
  induction n using Nat.strongRecOn with
  | _ n ih =>
    intro m h
    unfold intToBase64 at h
    by_cases hn : n / 64 = 0 <;> by_cases hm : m / 64 = 0
    · simp only [hn, hm, ↓reduceDIte, List.cons.injEq, and_true] at h
      have := digitAt_inj (Nat.mod_lt _ (by omega)) (Nat.mod_lt _ (by omega)) h
      omega
    · simp only [hn, hm, ↓reduceDIte, List.cons.injEq] at h
      exact absurd h.2.symm (intToBase64_ne_nil _)
    · simp only [hn, hm, ↓reduceDIte, List.cons.injEq] at h
      exact absurd h.2 (intToBase64_ne_nil _)
    · simp only [hn, hm, ↓reduceDIte, List.cons.injEq] at h
      have h1 := digitAt_inj (Nat.mod_lt _ (by omega)) (Nat.mod_lt _ (by omega)) h.1
      have h2 := ih (n / 64) (by omega) (m / 64) h.2
      omega

end Ragc.StreamNames
