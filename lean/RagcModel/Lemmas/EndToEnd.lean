import RagcModel.Model.EndToEnd
import RagcModel.Lemmas.Fasta
import RagcModel.Lemmas.Register
import RagcModel.Lemmas.Cli
import RagcModel.Lemmas.WriterMain
/-!
Lemmas for the CLI-level round trip over text (`Model/EndToEnd.lean`, theorems in `Props/C16.lean`):
grouping of pushed records into samples (`groupRecords_eq`), what the decoder returns for the
writer's output as one equation on whole archives (`decoded_view`), the records of the input TEXT
(`textRecords`) and their relation to what `create` pushes (`gather_eq`), the CLI's FASTA layout
versus `Fasta.writeFasta` (`sampleFasta_eq_writeFasta`).
-/
namespace Ragc.EndToEnd
open Ragc.Fasta
open Ragc.Details (firstSeen accSeen accSeen_nil accSeen_eq)

/-! ## grouping -/

/-- Specification of the grouping: for the sample names `ns`, each sample holds the records that
carry its name, in push order. -/
def samplesOf (ns : List Bytes) (rs : List Record) : List Ragc.Writer.Sample :=
  ns.map (fun s => ⟨s, (rs.filter (fun r => r.1 = s)).map toContig⟩)

theorem samplesOf_any (ns : List Bytes) (pre : List Record) (x : Bytes) :
    (samplesOf ns pre).any (fun s => s.name == x) = true ↔ x ∈ ns := by
  simp only [samplesOf, List.any_map, List.any_eq_true, Function.comp, beq_iff_eq]
  constructor
  · rintro ⟨s, hs, rfl⟩; exact hs
  · intro h; exact ⟨x, h, rfl⟩

theorem addRecord_samplesOf (ns : List Bytes) (pre : List Record) (r : Record)
    (h : ∀ p ∈ pre, p.1 ∈ ns) :
    addRecord (samplesOf ns pre) r
      = samplesOf (if r.1 ∈ ns then ns else ns ++ [r.1]) (pre ++ [r]) := by
  unfold addRecord
  by_cases hm : r.1 ∈ ns
  · rw [if_pos ((samplesOf_any ns pre r.1).mpr hm), if_pos hm]
    simp only [samplesOf, List.map_map]
    apply List.map_congr_left
    intro s _
    simp only [Function.comp, List.filter_append, List.map_append, List.filter_cons, List.filter_nil]
    by_cases hs : s = r.1
    · subst hs; simp
    · have : ¬ r.1 = s := fun e => hs e.symm
      simp [hs, this]
  · have hany : ¬ ((samplesOf ns pre).any (fun s => s.name == r.1) = true) :=
      fun e => hm ((samplesOf_any ns pre r.1).mp e)
    rw [if_neg hany, if_neg hm]
    simp only [samplesOf, List.map_append, List.map_cons, List.map_nil]
    congr 1
    · apply List.map_congr_left
      intro s hs
      have : ¬ r.1 = s := fun e => hm (e ▸ hs)
      simp [List.filter_append, this]
    · have hpre : pre.filter (fun p => decide (p.1 = r.1)) = [] := by
        rw [List.filter_eq_nil_iff]
        intro p hp hpr
        exact hm (by simpa using (of_decide_eq_true hpr) ▸ h p hp)
      simp [List.filter_append, hpre]

theorem foldl_addRecord (rs : List Record) : ∀ (ns : List Bytes) (pre : List Record),
    (∀ p ∈ pre, p.1 ∈ ns) →
    rs.foldl addRecord (samplesOf ns pre) = samplesOf (accSeen ns (rs.map (·.1))) (pre ++ rs) := by
  induction rs with
  | nil => intro ns pre _; simp [accSeen]
  | cons r rs ih =>
    intro ns pre h
    simp only [List.foldl_cons]
    rw [addRecord_samplesOf ns pre r h, ih]
    · simp [accSeen]
    · intro p hp
      simp only [List.mem_append, List.mem_singleton] at hp
      by_cases hm : r.1 ∈ ns
      · rw [if_pos hm]
        rcases hp with hp | hp
        · exact h p hp
        · rw [hp]; exact hm
      · rw [if_neg hm]
        rcases hp with hp | hp
        · exact List.mem_append_left _ (h p hp)
        · rw [hp]; simp

/-- **Grouping**: after all pushes the samples are the sample names in first-seen order, and each
holds exactly the records pushed for it, in push order (`Details.firstSeen` is the specification
C03's `register_order` uses for the catalogue's names). -/
theorem groupRecords_eq (rs : List Record) :
    groupRecords rs = samplesOf (firstSeen (rs.map (·.1))) rs := by
  have := foldl_addRecord rs [] [] (by simp)
  simp only [samplesOf, List.map_nil, List.nil_append] at this
  rw [groupRecords, this, accSeen_nil]
  rfl

theorem mem_firstSeen (l : List Bytes) (x : Bytes) : x ∈ firstSeen l ↔ x ∈ l := by
  induction l with
  | nil => simp [firstSeen]
  | cons a l ih =>
    simp only [firstSeen, List.mem_cons, List.mem_filter, ih, decide_eq_true_eq]
    constructor
    · rintro (h | ⟨h, _⟩)
      · exact Or.inl h
      · exact Or.inr h
    · rintro (h | h)
      · exact Or.inl h
      · by_cases hx : x = a
        · exact Or.inl hx
        · exact Or.inr ⟨h, hx⟩

theorem nodup_firstSeen (l : List Bytes) : (firstSeen l).Nodup := by
  induction l with
  | nil => simp [firstSeen]
  | cons a l ih =>
    simp only [firstSeen, List.nodup_cons, List.mem_filter, decide_eq_true_eq]
    exact ⟨fun h => h.2 rfl, ih.filter _⟩

/-! ### the same catalogue as `register_sample_contig` (C03 `register_order`) -/

theorem firstSeen_of_nodup (l : List Bytes) (h : l.Nodup) : firstSeen l = l := by
  induction l with
  | nil => rfl
  | cons a l ih =>
    obtain ⟨h1, h2⟩ := List.nodup_cons.mp h
    simp only [firstSeen, ih h2]
    congr 1
    rw [List.filter_eq_self]
    intro x hx
    simp only [ne_eq, decide_eq_true_eq]
    intro e; exact h1 (e ▸ hx)

/-- The catalogue `groupRecords` builds is the one `register_sample_contig` builds from the same
pushes (`Details.registerAll`, C03): same sample list, same contig list per sample — for pushes
with non-empty sample names and pairwise different (sample, contig name) pairs (what
`createSamples` admits). -/
theorem registration_agrees (rs : List Record) (hne : ∀ r ∈ rs, r.1 ≠ [])
    (hd : (rs.map (fun r => (r.1, r.2.1))).Nodup) :
    ∃ ss, Ragc.Details.registerAll [] (rs.map (fun r => (r.1, r.2.1))) = some ss ∧
      Ragc.Details.samplesList ss = (groupRecords rs).map (·.name) ∧
      ∀ s ∈ groupRecords rs,
        (Ragc.Details.contigList ss s.name).getD [] = s.contigs.map (·.name) := by
  refine ⟨Ragc.Details.registerAllStored [] (rs.map (fun r => (r.1, r.2.1))),
    Ragc.Details.registerAll_nonempty _ [] ?_, ?_, ?_⟩
  · intro p hp
    obtain ⟨r, hr, rfl⟩ := List.mem_map.mp hp
    exact hne r hr
  · rw [Ragc.Details.samplesList_registerAllStored, groupRecords_eq]
    simp only [samplesOf, List.map_map]
    have : Ragc.Details.samplesList [] = [] := rfl
    rw [this, accSeen_nil]
    simp [Function.comp_def]
  · intro s hs
    rw [groupRecords_eq] at hs
    obtain ⟨n, _, rfl⟩ := List.mem_map.mp hs
    have h1 := Ragc.Details.contigsOf_registerAllStored (rs.map (fun r => (r.1, r.2.1))) n []
    simp only [Ragc.Details.contigsOf] at h1
    rw [h1]
    have : (Ragc.Details.contigList [] n).getD [] = [] := rfl
    rw [this, accSeen_nil]
    have e1 : ((rs.map (fun r => (r.1, r.2.1))).filter (fun p => decide (p.1 = n))).map Prod.snd
        = (rs.filter (fun r => decide (r.1 = n))).map (·.2.1) := by
      rw [List.filter_map, List.map_map]; rfl
    rw [e1]
    simp only [List.map_map, toContig, Function.comp_def]
    apply firstSeen_of_nodup
    have hsub : ((rs.filter (fun r => decide (r.1 = n))).map (fun r => (r.1, r.2.1))).Nodup :=
      List.Nodup.sublist (List.Sublist.map _ List.filter_sublist) hd
    have e2 : (rs.filter (fun r => decide (r.1 = n))).map (fun r => (r.1, r.2.1))
        = ((rs.filter (fun r => decide (r.1 = n))).map (·.2.1)).map (fun c => (n, c)) := by
      rw [List.map_map]
      apply List.map_congr_left
      intro r hr
      have := of_decide_eq_true (List.mem_filter.mp hr).2
      simp [Function.comp, this]
    rw [e2] at hsub
    exact List.Pairwise.of_map (fun c => (n, c)) (fun a b hab e => hab (by rw [e])) hsub

/-! ## what the decoder returns, as one equation -/

/-- a decoded sample / an input sample as `(name, [(contig name, codes)])` -/
def viewD (s : Ragc.Agc3.DSample) : Bytes × List (Bytes × Bytes) :=
  (s.name, s.contigs.map (fun c => (c.name, c.bases)))

def viewS (s : Ragc.Writer.Sample) : Bytes × List (Bytes × Bytes) :=
  (s.name, s.contigs.map (fun c => (c.name, c.data)))

theorem map_pair_eq {α β γ δ : Type} (f : α → γ) (g : α → δ) (f' : β → γ) (g' : β → δ) :
    ∀ (l : List α) (m : List β), l.map f = m.map f' → l.map g = m.map g' →
      l.map (fun x => (f x, g x)) = m.map (fun y => (f' y, g' y)) := by
  intro l
  induction l with
  | nil => intro m h _; cases m with
    | nil => rfl
    | cons b m => simp at h
  | cons a l ih =>
    intro m h1 h2
    cases m with
    | nil => simp at h1
    | cons b m =>
      simp only [List.map_cons, List.cons.injEq] at h1 h2 ⊢
      exact ⟨by rw [h1.1, h2.1], ih m h1.2 h2.2⟩

/-- `catalogue` and `bases` of `C01.read_write` together determine the decoded samples. -/
theorem view_of_catalogue_bases (d : Ragc.Agc3.Decoded) (inp : List Ragc.Writer.Sample)
    (hc : d.catalogue = Ragc.Writer.catalogueOf inp) (hb : d.bases = Ragc.Writer.basesOf inp) :
    d.samples.map viewD = inp.map viewS := by
  have h := map_pair_eq _ _ _ _ d.samples inp hc hb
  have h' := congrArg (List.map (fun (x : (Bytes × List Bytes) × List Bytes) => (x.1.1, List.zip x.1.2 x.2))) h
  simp only [List.map_map] at h'
  have e1 : ((fun (x : (Bytes × List Bytes) × List Bytes) => (x.1.1, List.zip x.1.2 x.2)) ∘
      fun (s : Ragc.Agc3.DSample) => ((s.name, s.contigs.map (·.name)), s.contigs.map (·.bases))) = viewD := by
    funext s
    simp [viewD, List.zip_map']
  have e2 : ((fun (x : (Bytes × List Bytes) × List Bytes) => (x.1.1, List.zip x.1.2 x.2)) ∘
      fun (s : Ragc.Writer.Sample) => ((s.name, s.contigs.map (·.name)), s.contigs.map (·.data))) = viewS := by
    funext s
    simp [viewS, List.zip_map']
  rw [e1, e2] at h'
  exact h'

/-- `find?` in a list built by mapping names: the entry of a name that is in the list. -/
theorem find_map_name {β : Type} (F : Bytes → β) (ns : List Bytes) (s : Bytes) :
    (ns.map (fun n => (n, F n))).find? (fun v => v.1 == s) = if s ∈ ns then some (s, F s) else none := by
  induction ns with
  | nil => simp
  | cons n ns ih =>
    simp only [List.map_cons, List.find?_cons, List.mem_cons]
    by_cases h : n = s
    · subst h; simp
    · have h' : ¬ s = n := fun e => h e.symm
      have hb : (n == s) = false := by simp [h]
      simp only [hb, h', false_or]
      exact ih

/-- **The bridge from C01**: if the reference writer answers on `inp` (well-formed decisions,
codes inside the literal range, ZSTD with the two C12 facts) then `listModel` and `extractModel`
on its bytes are functions of `inp` alone. -/
theorem extract_of_samples (cfg : Ragc.Writer.Cfg) (inp : List Ragc.Writer.Sample)
    (dec : Ragc.Writer.Decisions) (zc : Nat → List Nat → List Nat) (zd : List Nat → Option (List Nat))
    (bs : List Nat) (hdec : Ragc.Writer.DecisionsOK cfg inp dec) (hz : ∀ l x, zd (zc l x) = some x)
    (hne : ∀ l x, zc l x = [] → x = []) (hcodes : Ragc.Writer.codesOK inp)
    (hw : Ragc.Writer.writeArchive cfg inp dec zc = some bs) :
    ∃ d, Ragc.Agc3.decodeArchive bs zd = .ok d ∧ d.violations = [] ∧
      d.samples.map viewD = inp.map viewS ∧
      listModel bs zd = some (inp.map (·.name)) ∧
      ∀ s, extractModel bs zd s =
        ((inp.map viewS).find? (fun v => v.1 == s)).map (fun v => writeFasta v.2) := by
  obtain ⟨d, h1, h2, h3, h4, _⟩ :=
    Ragc.WriterLemmas.read_write_main cfg inp dec zc zd bs hdec hz hne hcodes hw
  have hv := view_of_catalogue_bases d inp h2 h3
  refine ⟨d, h1, h4, hv, ?_, ?_⟩
  · simp only [listModel, h1]
    have := congrArg (List.map Prod.fst) hv
    simp only [List.map_map] at this
    have e1 : (Prod.fst ∘ viewD) = fun (s : Ragc.Agc3.DSample) => s.name := rfl
    have e2 : (Prod.fst ∘ viewS) = fun (s : Ragc.Writer.Sample) => s.name := rfl
    rw [e1, e2] at this
    rw [this]
  · intro s
    simp only [extractModel, h1]
    rw [← hv, List.find?_map, Option.map_map]
    rfl

/-! ## the records of the input text, and what `create` pushes -/

/-- The sample name a file gives to its records without a PanSN header (`[]` for a path outside
the model, where `create` is not described anyway). -/
def fileSample (path : Bytes) : Bytes := (sampleNameOfPath path).getD []

/-- The records of one input file THAT HAVE A BASE, as the text presents them:
`(sample, name = header without leading '>' and surrounding white space, raw sequence lines)`,
over `Fasta.specRecords` (leading blank lines do not count; a record is a header line and every
line up to the next header line). -/
def textRecordsOf (f : InFile) : List Record :=
  ((specRecords f.2).filter hasBase).map
    (fun p => (sampleOf (fileSample f.1) (headerId p.1), headerId p.1, p.2))

/-- … of all input files, in command-line order. -/
def textRecords (files : List InFile) : List Record := files.flatMap textRecordsOf

/-- raw sequence text ↦ numeric codes -/
def code (r : Record) : Record := (r.1, r.2.1, convert r.2.2)

/-- the path names a file and every record of the text has a name -/
def readable (f : InFile) : Bool := (sampleNameOfPath f.1).isSome && (specRecords f.2).all good

theorem fileRecords_eq (f : InFile) :
    fileRecords f =
      match sampleNameOfPath f.1 with
      | none => .error (.outside .badPath)
      | some _ =>
        if (specRecords f.2).all good then .ok ((textRecordsOf f).map code)
        else .error (.error .emptyName) := by
  unfold fileRecords
  cases hp : sampleNameOfPath f.1 with
  | none => rfl
  | some fs =>
    simp only [fileStream, Fasta.createInput, parseFile_eq, readRecords]
    by_cases hg : (specRecords f.2).all good = true
    · simp only [hg, if_true, Option.map_some, textRecordsOf, fileSample, hp, Option.getD_some,
        List.filter_map, List.map_map]
      congr 1
    · simp [hg]

theorem gather_ok_iff (files : List InFile) (rs : List Record) :
    gather files = .ok rs ↔
      (∀ f ∈ files, readable f = true) ∧ rs = (textRecords files).map code := by
  induction files generalizing rs with
  | nil => simp [gather, textRecords]
  | cons f fs ih =>
    simp only [gather, fileRecords_eq, readable, List.mem_cons, forall_eq_or_imp, textRecords,
      List.flatMap_cons, List.map_append]
    cases hp : sampleNameOfPath f.1 with
    | none => simp
    | some x =>
      by_cases hg : (specRecords f.2).all good = true
      · simp only [hg, if_true, Option.isSome_some, Bool.and_self, true_and]
        cases hgs : gather fs with
        | error e =>
          simp only [reduceCtorEq, false_iff, not_and]
          intro hall
          have := (ih ((textRecords fs).map code)).mpr ⟨hall, rfl⟩
          rw [hgs] at this; cases this
        | ok rest =>
          obtain ⟨h1, h2⟩ := (ih rest).mp hgs
          simp only [Except.ok.injEq]
          constructor
          · intro h; exact ⟨h1, by rw [← h, h2]; rfl⟩
          · intro h; rw [h.2, h2]; rfl
      · simp [hg]

theorem gather_error_of (files : List InFile) (f : InFile) (hf : f ∈ files) (h : readable f = false) :
    ∃ e, gather files = .error e := by
  cases hg : gather files with
  | error e => exact ⟨e, rfl⟩
  | ok rs =>
    have := ((gather_ok_iff files rs).mp hg).1 f hf
    rw [h] at this; cases this

set_option maxRecDepth 8192 in
/-- every entry of the generated letter table is a code the LZ text can carry as a literal -/
theorem cnv_le_span : ∀ b, b < 128 → 64 < b → cnv b ≤ Ragc.Gen.lzLiteralSpan := by decide +kernel

theorem convert_le_span (raw : Bytes) : ∀ c ∈ convert raw, c ≤ Ragc.Gen.lzLiteralSpan := by
  intro c hc
  simp only [convert, List.mem_map, List.mem_filter, Bool.and_eq_true, decide_eq_true_eq] at hc
  obtain ⟨b, ⟨_, hb⟩, rfl⟩ := hc
  rw [cnvNum_length, keepAbove_eq] at hb
  exact cnv_le_span b hb.2 hb.1

/-- The compressor's input for a list of input files, as a function of their TEXT. -/
def inputOf (files : List InFile) : List Ragc.Writer.Sample :=
  groupRecords ((textRecords files).map code)

theorem codesOK_inputOf (files : List InFile) : Ragc.Writer.codesOK (inputOf files) := by
  intro s hs c hc b hb
  rw [inputOf, groupRecords_eq] at hs
  simp only [samplesOf, List.mem_map] at hs
  obtain ⟨n, _, rfl⟩ := hs
  simp only [List.mem_map, List.mem_filter] at hc
  obtain ⟨r, ⟨hr, _⟩, rfl⟩ := hc
  obtain ⟨r0, _, rfl⟩ := hr
  exact convert_le_span _ b hb

/-- the pushed records are accepted by `createSamples` -/
def admissible (files : List InFile) : Prop :=
  files ≠ [] ∧ (∀ f ∈ files, readable f = true) ∧
  ¬ (files.length = 1 ∧ sortedLoop none [] ((textRecords files).map (·.1)) = false) ∧
  (∀ r ∈ textRecords files, r.1 ≠ []) ∧
  ((textRecords files).map (fun r => (r.1, r.2.1))).Nodup

instance (files : List InFile) : Decidable (admissible files) := by
  unfold admissible; infer_instance

theorem createSamples_ok_iff (files : List InFile) (inp : List Ragc.Writer.Sample) :
    createSamples files = .ok inp ↔ admissible files ∧ inp = inputOf files := by
  constructor
  · intro h
    unfold createSamples at h
    split at h
    · cases h
    · rename_i h0
      split at h
      · cases h
      · rename_i rs hg
        obtain ⟨h1, h2⟩ := (gather_ok_iff files rs).mp hg
        have e1 : rs.map (·.1) = (textRecords files).map (·.1) := by
          rw [h2, List.map_map]; rfl
        have e2 : rs.map (fun r => (r.1, r.2.1)) = (textRecords files).map (fun r => (r.1, r.2.1)) := by
          rw [h2, List.map_map]; rfl
        split at h
        · cases h
        · rename_i hs
          split at h
          · cases h
          · rename_i he
            split at h
            · cases h
            · rename_i hd
              injection h with h
              refine ⟨⟨h0, h1, by rw [← e1]; exact hs, ?_, by rw [← e2]; exact Classical.not_not.mp hd⟩, ?_⟩
              · intro r hr hr0
                apply he
                rw [h2]
                exact List.any_eq_true.mpr ⟨code r, List.mem_map.mpr ⟨r, hr, rfl⟩, by simp [code, hr0]⟩
              · rw [← h, h2]; rfl
  · rintro ⟨⟨h0, h1, hs, he, hd⟩, rfl⟩
    have hg := (gather_ok_iff files _).mpr ⟨h1, rfl⟩
    have e1 : ((textRecords files).map code).map (·.1) = (textRecords files).map (·.1) := by
      rw [List.map_map]; rfl
    have e2 : ((textRecords files).map code).map (fun r => (r.1, r.2.1))
        = (textRecords files).map (fun r => (r.1, r.2.1)) := by
      rw [List.map_map]; rfl
    have he' : ¬ (((textRecords files).map code).any (fun r => decide (r.1 = [])) = true) := by
      intro h
      obtain ⟨r, hr, hp⟩ := List.any_eq_true.mp h
      obtain ⟨r0, hr0, rfl⟩ := List.mem_map.mp hr
      exact he r0 hr0 (of_decide_eq_true hp)
    unfold createSamples
    rw [if_neg h0, hg]
    simp only [e1, e2]
    rw [if_neg hs, if_neg he', if_neg (Classical.not_not.mpr hd)]
    rfl

theorem createModel_some_iff (cfg : Ragc.Writer.Cfg) (files : List InFile) (dec : Ragc.Writer.Decisions)
    (zc : Nat → List Nat → List Nat) (bs : List Nat) :
    createModel cfg files dec zc = some bs ↔
      admissible files ∧ Ragc.Writer.writeArchive cfg (inputOf files) dec zc = some bs := by
  unfold createModel createOutcome
  cases hc : createSamples files with
  | error e =>
    simp only [reduceCtorEq, false_iff, not_and]
    intro ha
    have := (createSamples_ok_iff files _).mpr ⟨ha, rfl⟩
    rw [hc] at this; cases this
  | ok inp =>
    obtain ⟨ha, rfl⟩ := (createSamples_ok_iff files inp).mp hc
    cases hw : Ragc.Writer.writeArchive cfg (inputOf files) dec zc with
    | none => simp [hw]
    | some b => simp [ha, hw]

/-! ## the FASTA layout: `Fasta.writeFasta`, the CLI model's `sampleFasta` -/

/-- `GenomeWriter` layout of `(name, letters)` records: `>name`, 80 columns, LF. -/
def fastaText (recs : List (Bytes × Bytes)) : Bytes := (recs.map (fun c => saveContig c.1 c.2)).flatten

theorem writeFasta_eq_fastaText (contigs : List (Bytes × Bytes)) :
    writeFasta contigs = fastaText (contigs.map (fun c => (c.1, c.2.map outLetter))) := by
  simp [writeFasta, fastaText, List.map_map, Function.comp_def]

theorem wrapLines_eq (w : Nat) (hw : 0 < w) : ∀ (fuel : Nat) (s : Bytes), s.length ≤ fuel →
    Ragc.Cli.wrapLines w fuel s = ((chunks w s).map (· ++ [10])).flatten := by
  intro fuel
  induction fuel with
  | zero =>
    intro s hs
    have : s = [] := List.eq_nil_of_length_eq_zero (by omega)
    subst this
    simp [Ragc.Cli.wrapLines, chunks_nil]
  | succ n ih =>
    intro s hs
    by_cases he : s = []
    · subst he; simp [Ragc.Cli.wrapLines, chunks_nil]
    · have hne : s.isEmpty = false := by cases s <;> simp_all
      have hlen : (s.drop w).length ≤ n := by
        have : 0 < s.length := List.length_pos_iff.mpr he
        simp only [List.length_drop]; omega
      simp only [Ragc.Cli.wrapLines, hne, Bool.false_eq_true, if_false]
      rw [chunks_eq w s hw he, ih _ hlen]
      simp

theorem sampleFasta_eq (n : Bytes) (cs : List (Bytes × Bytes)) :
    Ragc.Cli.sampleFasta ⟨n, cs⟩ = fastaText cs := by
  simp only [Ragc.Cli.sampleFasta, fastaText]
  congr 1
  apply List.map_congr_left
  intro c _
  simp only [Ragc.Cli.renderContig, saveContig, lineWidth]
  rw [wrapLines_eq 80 (by omega) _ _ (Nat.le_refl _)]
  simp

/-- What `Cli.getset` prints for one sample of the decoded archive (`Archive.fasta`) is
`extractModel`'s text, and the sample is known to the CLI model exactly when `extractModel` answers. -/
theorem cli_fasta_known (bs : List Nat) (zd : List Nat → Option (List Nat)) (d : Ragc.Agc3.Decoded)
    (h : Ragc.Agc3.decodeArchive bs zd = .ok d) (n : Bytes) :
    (cliArchive d).fasta n = (extractModel bs zd n).getD [] ∧
      (cliArchive d).known n = (extractModel bs zd n).isSome := by
  simp only [Ragc.Cli.Archive.fasta, Ragc.Cli.Archive.known, Ragc.Cli.Archive.lookup, cliArchive,
    extractModel, h, List.find?_map]
  cases hf : d.samples.find? (fun s => s.name == n) with
  | none =>
    have : d.samples.find? ((fun (s : Ragc.Cli.Sample) => s.name == n) ∘
        fun (s : Ragc.Agc3.DSample) => (⟨s.name, s.contigs.map (fun c => (c.name, c.bases.map outLetter))⟩ : Ragc.Cli.Sample)) = none := hf
    simp [this]
  | some x =>
    have : d.samples.find? ((fun (s : Ragc.Cli.Sample) => s.name == n) ∘
        fun (s : Ragc.Agc3.DSample) => (⟨s.name, s.contigs.map (fun c => (c.name, c.bases.map outLetter))⟩ : Ragc.Cli.Sample)) = some x := hf
    simp only [this, Option.map_some, Option.getD_some, Option.isSome_some, and_true]
    rw [sampleFasta_eq, writeFasta_eq_fastaText, List.map_map]
    rfl

/-! ## the round trip, at the level of codes and of text -/

/-- the expected `(name, letters)` records of sample `s`: its records in input order, each
sequence text mapped by `norm` -/
def recordsOfSample (norm : Bytes → Bytes) (recs : List Record) (s : Bytes) : List (Bytes × Bytes) :=
  (recs.filter (fun r => r.1 = s)).map (fun r => (r.2.1, norm r.2.2))

theorem viewS_inputOf (files : List InFile) :
    (inputOf files).map viewS =
      (firstSeen ((textRecords files).map (·.1))).map
        (fun s => (s, recordsOfSample convert (textRecords files) s)) := by
  rw [inputOf, groupRecords_eq]
  have e1 : ((textRecords files).map code).map (·.1) = (textRecords files).map (·.1) := by
    rw [List.map_map]; rfl
  rw [e1]
  simp only [samplesOf, List.map_map]
  apply List.map_congr_left
  intro s _
  simp only [Function.comp, viewS, recordsOfSample, List.filter_map, List.map_map, Prod.mk.injEq,
    true_and]
  rfl

/-- a decoded sample with its bases as letters -/
def viewL (s : Ragc.Agc3.DSample) : Bytes × List (Bytes × Bytes) :=
  (s.name, s.contigs.map (fun c => (c.name, c.bases.map outLetter)))

theorem recordsOfSample_letters (recs : List Record) (s : Bytes) :
    (recordsOfSample convert recs s).map (fun c => (c.1, c.2.map outLetter))
      = recordsOfSample normaliseCode recs s := by
  simp only [recordsOfSample, List.map_map]
  apply List.map_congr_left
  intro r _
  simp [Function.comp, convert_map_outLetter]

/-- **create ∘ extract over text, general form** (any byte strings; `normaliseCode` = the
documented normalisation except that the 11 non-letter bytes above `@` read back as `N`). -/
theorem create_extract_general (cfg : Ragc.Writer.Cfg) (files : List InFile)
    (dec : Ragc.Writer.Decisions) (zc : Nat → List Nat → List Nat) (zd : List Nat → Option (List Nat))
    (bs : List Nat) (hdec : Ragc.Writer.DecisionsOK cfg (inputOf files) dec)
    (hz : ∀ l x, zd (zc l x) = some x) (hne : ∀ l x, zc l x = [] → x = [])
    (hc : createModel cfg files dec zc = some bs) :
    ∃ d, Ragc.Agc3.decodeArchive bs zd = .ok d ∧ d.violations = [] ∧
      d.samples.map viewL =
        (firstSeen ((textRecords files).map (·.1))).map
          (fun s => (s, recordsOfSample normaliseCode (textRecords files) s)) ∧
      listModel bs zd = some (firstSeen ((textRecords files).map (·.1))) ∧
      ∀ s, extractModel bs zd s =
        if s ∈ (textRecords files).map (·.1) then
          some (fastaText (recordsOfSample normaliseCode (textRecords files) s))
        else none := by
  obtain ⟨_, hw⟩ := (createModel_some_iff cfg files dec zc bs).mp hc
  obtain ⟨d, h1, h2, h3, h4, h5⟩ := extract_of_samples cfg (inputOf files) dec zc zd bs hdec hz hne
    (codesOK_inputOf files) hw
  refine ⟨d, h1, h2, ?_, ?_, ?_⟩
  · have := congrArg (List.map (fun (v : Bytes × List (Bytes × Bytes)) =>
      (v.1, v.2.map (fun c => (c.1, c.2.map outLetter))))) h3
    rw [viewS_inputOf] at this
    simp only [List.map_map] at this
    have e1 : ((fun (v : Bytes × List (Bytes × Bytes)) =>
        (v.1, v.2.map (fun c => (c.1, c.2.map outLetter)))) ∘ viewD) = viewL := by
      funext s; simp [viewD, viewL, List.map_map, Function.comp_def]
    rw [e1] at this
    rw [this]
    apply List.map_congr_left
    intro s _
    simp only [Function.comp, recordsOfSample_letters]
  · rw [h4]
    have := congrArg (List.map Prod.fst) (viewS_inputOf files)
    simp only [List.map_map] at this
    have e2 : (Prod.fst ∘ viewS) = fun (s : Ragc.Writer.Sample) => s.name := rfl
    rw [e2] at this
    rw [this]
    simp [Function.comp_def]
  · intro s
    rw [h5 s, viewS_inputOf, find_map_name]
    by_cases hm : s ∈ (textRecords files).map (·.1)
    · have hm' := (mem_firstSeen _ s).mpr hm
      simp only [hm, hm', if_true, Option.map_some, writeFasta_eq_fastaText, recordsOfSample_letters]
    · have hm' : ¬ s ∈ firstSeen ((textRecords files).map (·.1)) := fun e => hm ((mem_firstSeen _ s).mp e)
      simp only [hm, hm', if_false, Option.map_none]

/-! ## the documented normalisation; no record is missing -/

/-- no sequence line of any record contains one of the 11 non-letter bytes above `@`
(`[ \ ] ^ _` back quote `{ | } ~` DEL) — C16 quantifies over letters, digits and gaps -/
def SeqClean (files : List InFile) : Prop :=
  ∀ f ∈ files, ∀ p ∈ specRecords f.2, ∀ b ∈ p.2, isHighPunct b = false

theorem mem_textRecords (files : List InFile) (r : Record) :
    r ∈ textRecords files ↔ ∃ f ∈ files, ∃ p ∈ specRecords f.2, hasBase p = true ∧
      r = (sampleOf (fileSample f.1) (headerId p.1), headerId p.1, p.2) := by
  simp only [textRecords, textRecordsOf, List.mem_flatMap, List.mem_map, List.mem_filter]
  constructor
  · rintro ⟨f, hf, p, ⟨hp, hb⟩, rfl⟩; exact ⟨f, hf, p, hp, hb, rfl⟩
  · rintro ⟨f, hf, p, hp, hb, rfl⟩; exact ⟨f, hf, p, ⟨hp, hb⟩, rfl⟩

theorem recordsOfSample_clean (files : List InFile) (h : SeqClean files) (s : Bytes) :
    recordsOfSample normaliseCode (textRecords files) s = recordsOfSample normalise (textRecords files) s := by
  simp only [recordsOfSample]
  apply List.map_congr_left
  intro r hr
  obtain ⟨f, hf, p, hp, _, rfl⟩ := (mem_textRecords files r).mp (List.mem_filter.mp hr).1
  simp only [Prod.mk.injEq, true_and]
  exact normaliseCode_eq_normalise (h f hf p hp)

/-- every record of the grouped list is a contig of the sample it names -/
theorem record_in_view (norm : Bytes → Bytes) (recs : List Record) (samples : List Ragc.Agc3.DSample)
    (h : samples.map viewL =
      (firstSeen (recs.map (·.1))).map (fun s => (s, recordsOfSample norm recs s)))
    (r : Record) (hr : r ∈ recs) :
    ∃ smp ∈ samples, smp.name = r.1 ∧ ∃ c ∈ smp.contigs, c.name = r.2.1 ∧
      c.bases.map outLetter = norm r.2.2 := by
  have hm : (r.1, recordsOfSample norm recs r.1) ∈ samples.map viewL := by
    rw [h]
    exact List.mem_map.mpr ⟨r.1, (mem_firstSeen _ _).mpr (List.mem_map.mpr ⟨r, hr, rfl⟩), rfl⟩
  obtain ⟨smp, hs, hv⟩ := List.mem_map.mp hm
  simp only [viewL, Prod.mk.injEq] at hv
  have hc : (r.2.1, norm r.2.2) ∈ smp.contigs.map (fun c => (c.name, c.bases.map outLetter)) := by
    rw [hv.2]
    exact List.mem_map.mpr ⟨r, List.mem_filter.mpr ⟨hr, by simp⟩, rfl⟩
  obtain ⟨c, hcm, hce⟩ := List.mem_map.mp hc
  simp only [Prod.mk.injEq] at hce
  exact ⟨smp, hs, hv.1, c, hcm, hce.1, hce.2⟩

/-! ## the error side -/

theorem good_of_wellFormed (t : Bytes) (h : wellFormedText t = true) : (specRecords t).all good = true := by
  simp only [wellFormedText, Bool.and_eq_true] at h
  simpa [good] using h.2

theorem gather_emptyName (files : List InFile) (h : gather files = .error (.error .emptyName)) :
    ∃ f ∈ files, (specRecords f.2).all good = false := by
  induction files with
  | nil => simp [gather] at h
  | cons f fs ih =>
    simp only [gather, fileRecords_eq] at h
    cases hp : sampleNameOfPath f.1 with
    | none => simp [hp] at h
    | some x =>
      simp only [hp] at h
      by_cases hg : (specRecords f.2).all good = true
      · simp only [hg, if_true] at h
        cases hgs : gather fs with
        | error e =>
          simp only [hgs, Except.error.injEq] at h
          obtain ⟨g, hg1, hg2⟩ := ih (by rw [hgs, h])
          exact ⟨g, List.mem_cons_of_mem _ hg1, hg2⟩
        | ok rest => simp [hgs] at h
      · exact ⟨f, by simp, by simpa using hg⟩

theorem createOutcome_emptyName (cfg : Ragc.Writer.Cfg) (files : List InFile) (dec : Ragc.Writer.Decisions)
    (zc : Nat → List Nat → List Nat) (h : createOutcome cfg files dec zc = .error (.error .emptyName)) :
    ∃ f ∈ files, (specRecords f.2).all good = false := by
  apply gather_emptyName
  unfold createOutcome at h
  split at h
  · rename_i e hcs
    injection h with h
    subst h
    unfold createSamples at hcs
    split at hcs
    · simp at hcs
    · split at hcs
      · rename_i e' hg
        injection hcs with hcs
        rw [hg, hcs]
      · split at hcs
        · simp at hcs
        · split at hcs
          · simp at hcs
          · split at hcs
            · simp at hcs
            · cases hcs
  · split at h
    · simp at h
    · cases h

/-! ## presentations -/

/-- Input files given as presentations: `(path, final newline?, styled records)`. -/
def filesOf (P : List (Bytes × Bool × List (Rec × RecStyle))) : List InFile :=
  P.map (fun f => (f.1, render f.2.1 f.2.2))

/-- what `gather` returns on presentations, as a function of paths and records only -/
def gatherRecs : List (Bytes × List Rec) → Except Stop (List Record)
  | [] => .ok []
  | f :: rest =>
    match sampleNameOfPath f.1 with
    | none => .error (.outside .badPath)
    | some fs =>
      match gatherRecs rest with
      | .error e => .error e
      | .ok r => .ok (streamOf fs f.2 ++ r)

theorem gather_filesOf (P : List (Bytes × Bool × List (Rec × RecStyle)))
    (hv : ∀ f ∈ P, ValidPres f.2.2) :
    gather (filesOf P) = gatherRecs (P.map (fun f => (f.1, f.2.2.map (·.1)))) := by
  induction P with
  | nil => rfl
  | cons f P ih =>
    have ih' := ih (fun g hg => hv g (by simp [hg]))
    simp only [filesOf] at ih'
    simp only [filesOf, List.map_cons, gather, gatherRecs, fileRecords]
    cases hp : sampleNameOfPath f.1 with
    | none => rfl
    | some fs =>
      simp only [fileStream_render fs f.2.1 f.2.2 (hv f (by simp)), ih']
      cases gatherRecs (P.map (fun f => (f.1, f.2.2.map (·.1)))) <;> rfl

theorem createSamples_filesOf (P Q : List (Bytes × Bool × List (Rec × RecStyle)))
    (hP : ∀ f ∈ P, ValidPres f.2.2) (hQ : ∀ f ∈ Q, ValidPres f.2.2)
    (hsame : P.map (fun f => (f.1, f.2.2.map (·.1))) = Q.map (fun f => (f.1, f.2.2.map (·.1)))) :
    createSamples (filesOf P) = createSamples (filesOf Q) := by
  have hg : gather (filesOf P) = gather (filesOf Q) := by
    rw [gather_filesOf P hP, gather_filesOf Q hQ, hsame]
  have hlen : (filesOf P).length = (filesOf Q).length := by
    have := congrArg List.length hsame
    simpa [filesOf] using this
  have hnil : (filesOf P = []) ↔ (filesOf Q = []) := by
    rw [← List.length_eq_zero_iff, ← List.length_eq_zero_iff, hlen]
  unfold createSamples
  rw [hg, hlen]
  by_cases h0 : filesOf P = []
  · rw [if_pos h0, if_pos (hnil.mp h0)]
  · rw [if_neg h0, if_neg (fun e => h0 (hnil.mpr e))]

theorem gatherRecs_ok (L : List (Bytes × List Rec)) (rs : List Record) (h : gatherRecs L = .ok rs) :
    rs = L.flatMap (fun f => streamOf (fileSample f.1) f.2) := by
  induction L generalizing rs with
  | nil => simp [gatherRecs] at h; simp [h]
  | cons f L ih =>
    simp only [gatherRecs] at h
    cases hp : sampleNameOfPath f.1 with
    | none => simp [hp] at h
    | some fs =>
      simp only [hp] at h
      cases hg : gatherRecs L with
      | error e => simp [hg] at h
      | ok r =>
        simp only [hg, Except.ok.injEq] at h
        rw [← h, ih r hg]
        simp [fileSample, hp]

/-- the compressor's input from presented files, as a function of paths and records -/
theorem inputOf_filesOf (P : List (Bytes × Bool × List (Rec × RecStyle)))
    (hv : ∀ f ∈ P, ValidPres f.2.2) (hr : ∀ f ∈ filesOf P, readable f = true) :
    inputOf (filesOf P) =
      groupRecords (P.flatMap (fun f => streamOf (fileSample f.1) (f.2.2.map (·.1)))) := by
  have h1 := (gather_ok_iff (filesOf P) _).mpr ⟨hr, rfl⟩
  rw [gather_filesOf P hv] at h1
  have h2 := gatherRecs_ok _ _ h1
  rw [inputOf, h2, List.flatMap_map]

theorem flatMap_congr_left {α β : Type} (l : List α) (f g : α → List β) (h : ∀ x ∈ l, f x = g x) :
    l.flatMap f = l.flatMap g := by
  induction l with
  | nil => rfl
  | cons a l ih =>
    simp only [List.flatMap_cons, h a (by simp), ih (fun x hx => h x (by simp [hx]))]

theorem streamOf_flatMap {α : Type} (s : Bytes) (L : List α) (g : α → List Rec) :
    streamOf s (L.flatMap g) = L.flatMap (fun x => streamOf s (g x)) := by
  induction L with
  | nil => rfl
  | cons x L ih => simp only [List.flatMap_cons, streamOf_append, ih]

end Ragc.EndToEnd
