import RagcModel.Model.LzDiff
/-!
Lexing lemmas for C09: `read_int` inverts `append_int`, and the byte-level decoder run on the
serialisation of a well-formed token list is the token-level decoder.
-/
namespace Ragc.Model.LzDiff
open Ragc.Gen

/-! ### digits -/

theorem natDigits_lt (n : Nat) (h : n < 10) : natDigits n = [48 + n] := by
  rw [natDigits]; simp [h]

theorem natDigits_ge (n : Nat) (h : ¬ n < 10) : natDigits n = natDigits (n / 10) ++ [48 + n % 10] := by
  rw [natDigits]; simp [h]

theorem isDigit_iff (b : Nat) : isDigit b = true ↔ 48 ≤ b ∧ b ≤ 57 := by
  simp [isDigit]

theorem readDigits_nondigit (b : Nat) (bs : List Nat) (acc : Nat) (h : isDigit b = false) :
    readDigits (b :: bs) acc = (acc, b :: bs) := by
  simp [readDigits, h]

theorem readDigits_natDigits (n : Nat) : ∀ (acc : Nat) (rest : List Nat),
    readDigits (natDigits n ++ rest) acc = readDigits rest (acc * 10 ^ (natDigits n).length + n) := by
  induction n using Nat.strongRecOn with
  | _ n ih =>
    intro acc rest
    by_cases h : n < 10
    · rw [natDigits_lt n h]
      have hd : isDigit (48 + n) = true := by rw [isDigit_iff]; omega
      simp only [List.cons_append, List.nil_append, readDigits, hd, if_true, List.length_cons,
        List.length_nil]
      congr 1
      omega
    · rw [natDigits_ge n h, List.append_assoc, ih (n / 10) (by omega)]
      have hd : isDigit (48 + n % 10) = true := by rw [isDigit_iff]; omega
      simp only [List.cons_append, List.nil_append, readDigits, hd, if_true, List.length_append,
        List.length_cons, List.length_nil]
      congr 1
      rw [Nat.pow_succ, ← Nat.mul_assoc]
      generalize acc * 10 ^ (natDigits (n / 10)).length = X
      omega

/-- every digit string is non-empty and starts with a digit. -/
theorem natDigits_head (n : Nat) : ∃ b tl, natDigits n = b :: tl ∧ 48 ≤ b ∧ b ≤ 57 := by
  induction n using Nat.strongRecOn with
  | _ n ih =>
    by_cases h : n < 10
    · exact ⟨48 + n, [], natDigits_lt n h, by omega, by omega⟩
    · obtain ⟨b, tl, e, h1, h2⟩ := ih (n / 10) (by omega)
      exact ⟨b, tl ++ [48 + n % 10], by rw [natDigits_ge n h, e]; rfl, h1, h2⟩

/-- all bytes of a digit string are digits. -/
theorem natDigits_all (n : Nat) : ∀ b ∈ natDigits n, 48 ≤ b ∧ b ≤ 57 := by
  induction n using Nat.strongRecOn with
  | _ n ih =>
    intro b hb
    by_cases h : n < 10
    · rw [natDigits_lt n h] at hb
      simp only [List.mem_singleton] at hb
      omega
    · rw [natDigits_ge n h, List.mem_append] at hb
      rcases hb with hb | hb
      · exact ih (n / 10) (by omega) b hb
      · simp only [List.mem_singleton] at hb
        omega

/-- `rest` does not continue the number. -/
def StopsDigits : List Nat → Prop
  | [] => True
  | b :: _ => isDigit b = false

theorem readDigits_stop (rest : List Nat) (v : Nat) (h : StopsDigits rest) :
    readDigits rest v = (v, rest) := by
  cases rest with
  | nil => rfl
  | cons b bs => exact readDigits_nondigit b bs v h

theorem readNat_natDigits (n : Nat) (rest : List Nat) (h : StopsDigits rest) :
    readDigits (natDigits n ++ rest) 0 = (n, rest) := by
  rw [readDigits_natDigits, readDigits_stop rest _ h]; simp

/-- `read_int` inverts `append_int` for a natural number. -/
theorem readInt_natDigits (n : Nat) (rest : List Nat) (h : StopsDigits rest) :
    readInt (natDigits n ++ rest) = some ((n : Int), rest) := by
  obtain ⟨b, tl, e, h1, h2⟩ := natDigits_head n
  have hr := readNat_natDigits n rest h
  rw [e] at hr ⊢
  have hb : b ≠ 45 := by omega
  simp only [List.cons_append] at hr ⊢
  simp only [readInt, hb, if_false, hr]

/-- `read_int` inverts `append_int`. -/
theorem readInt_appendInt (d : Int) (rest : List Nat) (h : StopsDigits rest) :
    readInt (appendInt d ++ rest) = some (d, rest) := by
  unfold appendInt
  split
  · next hneg =>
    simp only [List.cons_append, readInt, if_true, readNat_natDigits _ rest h]
    congr 2
    omega
  · next hpos =>
    rw [readInt_natDigits _ rest h]
    congr 2
    omega

/-- the first byte of a serialised integer is `-` or a digit. -/
theorem appendInt_head (d : Int) : ∃ b tl, appendInt d = b :: tl ∧ (b = 45 ∨ (48 ≤ b ∧ b ≤ 57)) := by
  unfold appendInt
  split
  · exact ⟨45, _, rfl, Or.inl rfl⟩
  · obtain ⟨b, tl, e, h1, h2⟩ := natDigits_head d.toNat
    exact ⟨b, tl, e, Or.inr ⟨h1, h2⟩⟩

theorem appendInt_all (d : Int) : ∀ b ∈ appendInt d, b = 45 ∨ (48 ≤ b ∧ b ≤ 57) := by
  intro b hb
  unfold appendInt at hb
  split at hb
  · simp only [List.mem_cons] at hb
    rcases hb with rfl | hb
    · exact Or.inl rfl
    · exact Or.inr (natDigits_all _ b hb)
  · exact Or.inr (natDigits_all _ b hb)

end Ragc.Model.LzDiff
