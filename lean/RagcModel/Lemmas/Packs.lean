import RagcModel.Model.Agc3
import RagcModel.Model.Packs
/-!
Helper lemmas for C02 (`Props/C02.lean`): the decoder's pack splitter inverts the writer's pack
layout; the id / flush bookkeeping of `flush_pack_compress_only` fills packs of 50 in id order.
-/
namespace Ragc.Packs
open Ragc.Agc3

/-! ## splitting a pack -/

theorem splitPackGo_entry (e rest cur : List Nat) (acc : Array (List Nat)) (h : 255 ∉ e) :
    splitPackGo (e ++ 255 :: rest) cur acc = splitPackGo rest [] (acc.push (cur.reverse ++ e)) := by
  induction e generalizing cur with
  | nil => simp [splitPackGo]
  | cons b e ih =>
    have hb : b ≠ 255 := by intro hb; exact h (by simp [hb])
    have he : 255 ∉ e := by intro he; exact h (by simp [he])
    simp only [List.cons_append, splitPackGo, hb, if_false]
    rw [ih _ he]
    simp

theorem splitPackGo_packEntries (es : List (List Nat)) (acc : Array (List Nat))
    (h : ∀ e ∈ es, 255 ∉ e) :
    splitPackGo (packEntries es) [] acc = (acc ++ es.toArray, []) := by
  induction es generalizing acc with
  | nil => simp [packEntries, splitPackGo]
  | cons e es ih =>
    have he : 255 ∉ e := h e (by simp)
    have hes : ∀ x ∈ es, 255 ∉ x := fun x hx => h x (by simp [hx])
    have : packEntries (e :: es) = e ++ 255 :: packEntries es := by
      simp [packEntries, sep]
    rw [this, splitPackGo_entry e _ [] acc he, ih _ hes]
    simp

theorem splitPack_packEntries (es : List (List Nat)) (h : ∀ e ∈ es, 255 ∉ e) :
    splitPack (packEntries es) = (es.toArray, []) := by
  unfold splitPack
  rw [splitPackGo_packEntries es #[] h]
  simp

/-! ## packs of 50 -/

/-- All packs but the last hold exactly `n` entries, the last one between 1 and `n`. -/
def Filled (n : Nat) : List (List α) → Prop
  | [] => True
  | [p] => 1 ≤ p.length ∧ p.length ≤ n
  | p :: q :: r => p.length = n ∧ Filled n (q :: r)

theorem filled_index {α : Type} (n : Nat) (hn : 0 < n) :
    ∀ (packs : List (List α)) (i : Nat), Filled n packs → i < packs.flatten.length →
      (packs[i / n]?).bind (·[i % n]?) = packs.flatten[i]? := by
  intro packs
  induction packs with
  | nil => intro i _ hi; simp at hi
  | cons p ps ih =>
    intro i hf hi
    cases ps with
    | nil =>
      simp only [Filled] at hf
      simp only [List.flatten_cons, List.flatten_nil, List.append_nil] at hi ⊢
      have hlt : i < n := by omega
      rw [Nat.div_eq_of_lt hlt, Nat.mod_eq_of_lt hlt]
      simp
    | cons q r =>
      obtain ⟨hp, hrest⟩ := hf
      by_cases hlt : i < n
      · rw [Nat.div_eq_of_lt hlt, Nat.mod_eq_of_lt hlt]
        simp only [List.getElem?_cons_zero, Option.bind_some, List.flatten_cons]
        rw [List.getElem?_append_left (by omega)]
      · have hge : n ≤ i := by omega
        have h1 : i / n = (i - n) / n + 1 := by
          rw [← Nat.sub_add_cancel hge, Nat.add_div_right _ hn]; simp
        have h2 : i % n = (i - n) % n := by
          conv => lhs; rw [← Nat.sub_add_cancel hge]
          exact Nat.add_mod_right _ _
        rw [h1, h2]
        simp only [List.getElem?_cons_succ, List.flatten_cons]
        rw [List.getElem?_append_right (by omega), hp]
        apply ih (i - n) hrest
        simp only [List.flatten_cons, List.length_append] at hi ⊢
        omega

theorem filled_append_full {α : Type} (n : Nat) (hn : 1 ≤ n) :
    ∀ (packs : List (List α)) (p : List α), (∀ q ∈ packs, q.length = n) → 1 ≤ p.length → p.length ≤ n →
      Filled n (packs ++ [p]) := by
  intro packs
  induction packs with
  | nil => intro p _ h1 h2; exact ⟨h1, h2⟩
  | cons q qs ih =>
    intro p hall h1 h2
    have hq := hall q (by simp)
    have hqs : ∀ x ∈ qs, x.length = n := fun x hx => hall x (by simp [hx])
    cases qs with
    | nil => exact ⟨hq, h1, h2⟩
    | cons r rs => exact ⟨hq, ih p hqs h1 h2⟩

theorem filled_of_all_full {α : Type} (n : Nat) (hn : 1 ≤ n) :
    ∀ (packs : List (List α)), (∀ q ∈ packs, q.length = n) → Filled n packs := by
  intro packs
  induction packs with
  | nil => intro _; trivial
  | cons q qs ih =>
    intro hall
    have hq := hall q (by simp)
    have hqs : ∀ x ∈ qs, x.length = n := fun x hx => hall x (by simp [hx])
    cases qs with
    | nil => exact ⟨by omega, by omega⟩
    | cons r rs => exact ⟨hq, ih hqs⟩

theorem filled_nonfinal {α : Type} (n : Nat) :
    ∀ (packs : List (List α)) (p : Nat), Filled n packs → p + 1 < packs.length →
      ∃ pk, packs[p]? = some pk ∧ pk.length = n := by
  intro packs
  induction packs with
  | nil => intro p _ h; simp at h
  | cons q qs ih =>
    intro p hf hp
    cases qs with
    | nil => simp at hp
    | cons r rs =>
      obtain ⟨hq, hrest⟩ := hf
      cases p with
      | zero => exact ⟨q, rfl, hq⟩
      | succ p =>
        simp only [List.length_cons] at hp
        obtain ⟨pk, h1, h2⟩ := ih p hrest (by simp only [List.length_cons]; omega)
        exact ⟨pk, by simpa using h1, h2⟩

/-! ## the bookkeeping invariant -/

/-- id of an entry = its position in the stream of entries, plus one for LZ groups (whose id 0 is
the reference and is not in the delta stream). -/
def off (lz : Bool) : Nat := if lz then 1 else 0

/-- Everything the stream will contain for the entries handed out so far: emitted packs, then the
placeholder if still due, then the pending deltas. -/
def allEntries (lz : Bool) (st : PState) : List (List Nat) :=
  st.packs.flatten ++ (pre lz st ++ st.pending)

structure Inv (lz : Bool) (st : PState) : Prop where
  full : ∀ p ∈ st.packs, p.length = 50
  room : (pre lz st ++ st.pending).length < 50
  next : max st.written 1 = (allEntries lz st).length + off lz
  ids : st.pendingIds = List.range' ((st.packs.flatten ++ pre lz st).length + off lz) st.pending.length
  started : st.written ≠ 0 → st.pending ≠ [] ∨ st.phWritten = true
  fresh : st.phWritten = false → st.packs = []
  flushed : st.phWritten = true → st.packs ≠ []

theorem inv_init (lz : Bool) : Inv lz PState.init := by
  cases lz <;> constructor <;> simp [PState.init, pre, allEntries, off, placeholderEntry]

theorem pre_length (lz : Bool) (st : PState) :
    (pre lz st).length = (if !lz && !st.phWritten then 1 else 0) := by
  unfold pre; split <;> simp [placeholderEntry]

theorem threshold_eq (lz : Bool) (st : PState) : threshold lz st + (pre lz st).length = 50 := by
  unfold threshold pre; split <;> simp [placeholderEntry]

/-- One new delta: the id is the next position, the entry stream grows by exactly that delta. -/
theorem addNew_spec (lz : Bool) (st : PState) (d : List Nat) (h : Inv lz st) :
    Inv lz (addNew lz st d).1 ∧
      allEntries lz (addNew lz st d).1 = allEntries lz st ++ [d] ∧
      (addNew lz st d).2 = (allEntries lz st).length + off lz := by
  have hthr := threshold_eq lz st
  have hroom := h.room
  have hnext := h.next
  simp only [List.length_append] at hroom
  unfold addNew
  simp only []
  by_cases hfl : (st.pending ++ [d]).length = threshold lz st
  · rw [if_pos hfl]
    simp only [List.length_append, List.length_cons, List.length_nil] at hfl
    refine ⟨?_, ?_, hnext⟩
    · constructor
      · intro p hp
        simp only [List.mem_append, List.mem_singleton] at hp
        rcases hp with hp | hp
        · exact h.full p hp
        · subst hp; simp only [List.length_append, List.length_cons, List.length_nil]; omega
      · simp [pre]
      · have hpre' : pre lz ⟨[], [], max st.written 1 + 1, true, st.packs ++ [pre lz st ++ (st.pending ++ [d])]⟩ = [] := by
          simp [pre]
        simp only [allEntries, hpre', List.append_nil, List.flatten_append, List.flatten_cons,
          List.flatten_nil, List.length_append, List.length_cons, List.length_nil]
        simp only [allEntries, List.length_append] at hnext
        omega
      · simp
      · intro _; exact Or.inr rfl
      · intro hc; cases hc
      · intro _; simp
    · simp [allEntries, pre]
  · rw [if_neg hfl]
    simp only [List.length_append, List.length_cons, List.length_nil] at hfl
    have hpre : pre lz ⟨st.pending ++ [d], st.pendingIds ++ [max st.written 1], max st.written 1 + 1,
        st.phWritten, st.packs⟩ = pre lz st := rfl
    refine ⟨?_, ?_, hnext⟩
    · constructor
      · exact h.full
      · rw [hpre]
        simp only [List.length_append, List.length_cons, List.length_nil]
        omega
      · simp only [allEntries, hpre, List.length_append, List.length_cons, List.length_nil]
        simp only [allEntries, List.length_append] at hnext
        omega
      · rw [hpre]
        simp only [List.length_append, List.length_cons, List.length_nil]
        rw [h.ids, List.range'_concat]
        simp only [allEntries, List.length_append] at hnext
        simp only [List.length_append, Nat.mul_one]
        congr 2
        omega
      · intro _; left; simp
      · exact h.fresh
      · exact h.flushed
    · simp [allEntries, hpre]

/-- A pending delta's recorded id is its position in the entry stream. -/
theorem pending_id (lz : Bool) (st : PState) (h : Inv lz st) (j : Nat) (hj : j < st.pending.length) :
    (allEntries lz st)[st.pendingIds.getD j 0 - off lz]? = some st.pending[j] ∧
      off lz ≤ st.pendingIds.getD j 0 ∧ 1 ≤ st.pendingIds.getD j 0 := by
  have hid : st.pendingIds.getD j 0 = (st.packs.flatten ++ pre lz st).length + off lz + j := by
    rw [h.ids]
    simp [List.getD, List.getElem?_range', hj]
  rw [hid]
  have h1 : (st.packs.flatten ++ pre lz st).length + off lz + j - off lz
      = (st.packs.flatten ++ pre lz st).length + j := by omega
  rw [h1]
  refine ⟨?_, by omega, ?_⟩
  · unfold allEntries
    rw [← List.append_assoc, List.getElem?_append_right (by omega)]
    simp [hj]
  · -- either LZ (off = 1) or the stream already starts with the placeholder
    cases lz with
    | true => simp only [off, if_true]; omega
    | false =>
      simp only [off, Bool.false_eq_true, if_false, Nat.add_zero, List.length_append]
      by_cases hp : st.phWritten = true
      · -- placeholder written: at least one pack of 50 was emitted
        obtain ⟨q, qs, hq⟩ := List.exists_cons_of_ne_nil (h.flushed hp)
        have := h.full q (by rw [hq]; simp)
        rw [hq]
        simp only [List.flatten_cons, List.length_append]
        omega
      · have : (pre false st).length = 1 := by simp [pre, hp, placeholderEntry]
        omega

/-- What an id means once the stream is complete: 0 = "same as the reference" (LZ groups only),
otherwise the entry at position `id - off` of the entry stream is the delta. -/
def IdOK (lz : Bool) (all : List (List Nat)) (id : Nat) (d : List Nat) : Prop :=
  (lz = true ∧ id = 0 ∧ d = []) ∨ (1 ≤ id ∧ off lz ≤ id ∧ all[id - off lz]? = some d)

theorem IdOK.mono {lz : Bool} {all suffix : List (List Nat)} {id : Nat} {d : List Nat}
    (h : IdOK lz all id d) : IdOK lz (all ++ suffix) id d := by
  rcases h with h | ⟨h1, h2, h3⟩
  · exact Or.inl h
  · refine Or.inr ⟨h1, h2, ?_⟩
    have hlt : id - off lz < all.length := by
      apply Classical.byContradiction
      intro hc
      rw [List.getElem?_eq_none (by omega)] at h3
      cases h3
    rw [List.getElem?_append_left hlt]
    exact h3

theorem assign_spec (lz : Bool) (st : PState) (d : List Nat) (h : Inv lz st) :
    ∃ suffix, Inv lz (assign lz st d).1 ∧
      allEntries lz (assign lz st d).1 = allEntries lz st ++ suffix ∧
      IdOK lz (allEntries lz (assign lz st d).1) (assign lz st d).2 d := by
  unfold assign
  by_cases he : (lz && d.isEmpty) = true
  · rw [if_pos he]
    simp only [Bool.and_eq_true, List.isEmpty_iff] at he
    exact ⟨[], h, by simp, Or.inl ⟨he.1, rfl, he.2⟩⟩
  · rw [if_neg he]
    cases hidx : st.pending.idxOf? d with
    | some j =>
      simp only []
      have hj : ∃ hlt : j < st.pending.length, st.pending[j] = d := by
        unfold List.idxOf? at hidx
        obtain ⟨hlt, hp, _⟩ := List.findIdx?_eq_some_iff_getElem.mp hidx
        exact ⟨hlt, by simpa using hp⟩
      obtain ⟨hlt, hd⟩ := hj
      obtain ⟨h1, h2, h3⟩ := pending_id lz st h j hlt
      exact ⟨[], h, by simp, Or.inr ⟨h3, h2, by rw [h1, hd]⟩⟩
    | none =>
      simp only []
      obtain ⟨hinv, hall, hid⟩ := addNew_spec lz st d h
      refine ⟨[d], hinv, hall, Or.inr ⟨?_, ?_, ?_⟩⟩
      · rw [hid]
        cases lz with
        | true => simp [off]
        | false =>
          simp only [off, Bool.false_eq_true, if_false, Nat.add_zero, allEntries, List.length_append]
          by_cases hp : st.phWritten = true
          · obtain ⟨q, qs, hq⟩ := List.exists_cons_of_ne_nil (h.flushed hp)
            have := h.full q (by rw [hq]; simp)
            rw [hq]
            simp only [List.flatten_cons, List.length_append]
            omega
          · have : (pre false st).length = 1 := by simp [pre, hp, placeholderEntry]
            omega
      · rw [hid]; omega
      · rw [hid, hall]
        simp

theorem assignAll_spec (lz : Bool) :
    ∀ (ds : List (List Nat)) (st : PState), Inv lz st →
      ∃ suffix, Inv lz (assignAll lz st ds).1 ∧
        allEntries lz (assignAll lz st ds).1 = allEntries lz st ++ suffix ∧
        (assignAll lz st ds).2.length = ds.length ∧
        ∀ j (hj : j < ds.length), IdOK lz (allEntries lz (assignAll lz st ds).1)
          ((assignAll lz st ds).2.getD j 0) ds[j] := by
  intro ds
  induction ds with
  | nil => intro st h; exact ⟨[], h, by simp [assignAll], rfl, fun j hj => by simp at hj⟩
  | cons d ds ih =>
    intro st h
    obtain ⟨s1, hinv1, hall1, hid1⟩ := assign_spec lz st d h
    obtain ⟨s2, hinv2, hall2, hlen2, hids2⟩ := ih _ hinv1
    refine ⟨s1 ++ s2, ?_, ?_, ?_, ?_⟩
    · simpa [assignAll] using hinv2
    · simp only [assignAll]
      rw [hall2, hall1, List.append_assoc]
    · simp [assignAll, hlen2]
    · intro j hj
      simp only [assignAll]
      cases j with
      | zero =>
        simp only [List.getD_cons_zero, List.getElem_cons_zero]
        rw [hall2]
        exact hid1.mono
      | succ j =>
        simp only [List.length_cons] at hj
        simp only [List.getD_cons_succ, List.getElem_cons_succ]
        exact hids2 j (by omega)

/-- The final flush: all packs but the last are full, and (once an id was handed out) the packs
hold exactly the entry stream. -/
theorem finish_spec (lz : Bool) (st : PState) (h : Inv lz st) :
    Filled 50 (finish lz st) ∧ (st.written ≠ 0 → (finish lz st).flatten = allEntries lz st) := by
  unfold finish
  by_cases hp : st.pending.isEmpty = true
  · rw [if_pos hp]
    have hp' := List.isEmpty_iff.mp hp
    refine ⟨filled_of_all_full 50 (by omega) _ h.full, ?_⟩
    intro hw
    rcases h.started hw with hne | hph
    · exact absurd hp' hne
    · simp [allEntries, pre, hph, hp']
  · rw [if_neg hp]
    have hne : st.pending ≠ [] := fun hc => hp (by simp [hc])
    have hlen : 1 ≤ st.pending.length := List.length_pos_iff.mpr hne
    have hroom := h.room
    refine ⟨filled_append_full 50 (by omega) _ _ h.full ?_ (by omega), ?_⟩
    · simp only [List.length_append]; omega
    · intro _; simp [allEntries]

theorem written_ne_zero_of_addNew (lz : Bool) (st : PState) (d : List Nat) :
    (addNew lz st d).1.written ≠ 0 := by
  unfold addNew; simp only []; split <;> simp

theorem entryAt_eq (packs : List (List (List Nat))) (p e : Nat) :
    entryAt packs p e = (packs[p]?).bind (·[e]?) := by
  unfold entryAt; cases packs[p]? <;> rfl


/-- `Props.C02.packs_addressing` with the run and the packs named. -/
theorem packs_addressing_aux (lz : Bool) (ds : List (List Nat)) (r : PState × List Nat)
    (hr : assignAll lz PState.init ds = r) (packs : List (List (List Nat))) (hpk : finish lz r.1 = packs) :
    Filled 50 packs ∧
    (∀ p, p + 1 < packs.length → ∃ pk, packs[p]? = some pk ∧ pk.length = 50) ∧
    ∀ j (hj : j < ds.length),
      (lz = true ∧ r.2.getD j 0 = 0 ∧ ds[j] = []) ∨
      (1 ≤ r.2.getD j 0 ∧
        entryAt packs (entryAddress (if lz then 16 else 0) (r.2.getD j 0)).1
            (entryAddress (if lz then 16 else 0) (r.2.getD j 0)).2 = some ds[j] ∧
        (lz = false → entryAt packs 0 0 = some [Ragc.Agc3.placeholder])) := by
  obtain ⟨suffix, hinv, hall, _, hids⟩ := assignAll_spec lz ds PState.init (inv_init lz)
  rw [hr] at hinv hall hids
  obtain ⟨hfilled, hflat⟩ := finish_spec lz r.1 hinv
  rw [hpk] at hfilled hflat
  refine ⟨hfilled, fun p hp => filled_nonfinal 50 packs p hfilled hp, ?_⟩
  intro j hj
  have hidj := hids j hj
  generalize r.2.getD j 0 = id at hidj ⊢
  rcases hidj with h0 | ⟨h1, h2, h3⟩
  · exact Or.inl h0
  · right
    refine ⟨h1, ?_⟩
    generalize hA : allEntries lz r.1 = A at *
    -- the position of the entry in the stream
    have hlt : id - off lz < A.length := by
      apply Classical.byContradiction
      intro hc
      rw [List.getElem?_eq_none (by omega)] at h3
      cases h3
    -- the packs hold the whole entry stream: an id ≥ 1 was handed out, so something was written
    have hfl : packs.flatten = A := by
      apply hflat
      intro hw
      have hnext := hinv.next
      rw [hw, hA] at hnext
      cases lz with
      | true => simp only [off, if_true] at hnext hlt; omega
      | false => simp only [off, Bool.false_eq_true, if_false, Nat.add_zero] at hnext hlt h2; omega
    have haddr : (entryAddress (if lz then 16 else 0) id) = ((id - off lz) / 50, (id - off lz) % 50) := by
      cases lz <;> simp [entryAddress, noRawGroups, packCard, off]
    rw [haddr, entryAt_eq, filled_index 50 (by omega) packs _ hfilled (by rw [hfl]; exact hlt), hfl]
    refine ⟨h3, ?_⟩
    intro hlz
    subst hlz
    have h00 : (0 : Nat) / 50 = 0 ∧ (0 : Nat) % 50 = 0 := by decide
    have := filled_index 50 (by omega) packs 0 hfilled (by rw [hfl]; omega)
    rw [h00.1, h00.2] at this
    rw [entryAt_eq, this, hfl, hall]
    simp [allEntries, PState.init, pre, placeholderEntry, placeholder]


end Ragc.Packs
