import RagcModel.Lemmas.LzDiffSer
/-!
C09: the byte-level decoder on the serialisation of well-formed tokens is the token-level decoder.
-/
namespace Ragc.Model.LzDiff
open Ragc.Gen

/-- Tokens that the decoder lexes back to themselves: literal codes the decoder accepts
    (`is_literal`), run lengths and match lengths that `encode_nrun`/`encode_match` can write
    (`len - MIN_NRUN_LEN`, `len - min_match_len` are natural numbers). -/
def Tok.WF (mm : Nat) : Tok → Prop
  | .lit c => c ≤ lzLiteralSpan
  | .bang => True
  | .nrun n => lzMinNRunLen ≤ n
  | .mtch _ none => True
  | .mtch _ (some l) => mm ≤ l

instance (mm : Nat) (t : Tok) : Decidable (t.WF mm) := by
  cases t with
  | lit c => exact inferInstanceAs (Decidable (c ≤ lzLiteralSpan))
  | bang => exact inferInstanceAs (Decidable True)
  | nrun n => exact inferInstanceAs (Decidable (lzMinNRunLen ≤ n))
  | mtch d len =>
    cases len with
    | none => exact inferInstanceAs (Decidable True)
    | some l => exact inferInstanceAs (Decidable (mm ≤ l))

def wellFormed (mm : Nat) (ts : List Tok) : Prop := ∀ t ∈ ts, t.WF mm

instance (mm : Nat) (ts : List Tok) : Decidable (wellFormed mm ts) := by
  unfold wellFormed; exact inferInstance

theorem lexTok_serTok (mm : Nat) (tok : Tok) (hwf : tok.WF mm) (rest : List Nat) :
    lexTok mm (serTok mm tok ++ rest) = some (tok, rest) := by
  have hspan : lzLiteralSpan < 33 := by decide
  cases tok with
  | lit c =>
    have hc : c ≤ lzLiteralSpan := hwf
    have h1 : isLiteral (65 + c) = true := by
      simp only [isLiteral, Bool.or_eq_true, Bool.and_eq_true, decide_eq_true_eq]; left; omega
    have h2 : ¬ (65 + c = 33) := by omega
    have h3 : ¬ (65 + c - 65 = 33) := by omega
    simp only [serTok, List.cons_append, List.nil_append, lexTok, h1, if_true, h2, if_false, h3]
    congr 3; omega
  | bang =>
    have h1 : isLiteral 33 = true := by decide
    simp only [serTok, List.cons_append, List.nil_append, lexTok, h1, if_true]
  | nrun n =>
    have hn : lzMinNRunLen ≤ n := hwf
    have h1 : isLiteral lzNRunStarter = false := by decide
    have h2 : StopsDigits (lzNCode :: rest) := by show isDigit lzNCode = false; decide
    simp only [serTok, List.cons_append, List.append_assoc, List.nil_append, lexTok, h1,
      Bool.false_eq_true, if_false, if_true, readInt_natDigits _ _ h2]
    have h3 : ¬ ((↑(n - lzMinNRunLen) : Int) < 0) := by omega
    simp only [h3, if_false, List.drop_succ_cons, List.drop_zero]
    congr 3
    omega
  | mtch d len =>
    obtain ⟨b, tl, e, hb⟩ := appendInt_head d
    have h1 : isLiteral b = false := by
      have : lzLiteralSpan < 33 := hspan
      simp only [isLiteral, Bool.or_eq_false_iff, Bool.and_eq_false_imp, decide_eq_true_eq,
        decide_eq_false_iff_not]
      omega
    have h2 : ¬ (b = lzNRunStarter) := by
      have : lzNRunStarter = 30 := by decide
      omega
    cases len with
    | none =>
      have hs : StopsDigits (46 :: rest) := by show isDigit 46 = false; decide
      have hr := readInt_appendInt d (46 :: rest) hs
      simp only [serTok, List.append_assoc, List.cons_append, List.nil_append]
      rw [e] at hr ⊢
      simp only [List.cons_append] at hr ⊢
      simp only [lexTok, h1, Bool.false_eq_true, if_false, h2, hr, if_true]
    | some l =>
      have hl : mm ≤ l := hwf
      have hs : StopsDigits (44 :: (natDigits (l - mm) ++ 46 :: rest)) := by
        show isDigit 44 = false; decide
      have hr := readInt_appendInt d (44 :: (natDigits (l - mm) ++ 46 :: rest)) hs
      have hs2 : StopsDigits (46 :: rest) := by show isDigit 46 = false; decide
      have hr2 := readInt_natDigits (l - mm) (46 :: rest) hs2
      simp only [serTok, List.append_assoc, List.cons_append, List.nil_append]
      rw [e] at hr ⊢
      simp only [List.cons_append] at hr ⊢
      have h46 : ¬ ((44 : Nat) = 46) := by decide
      have h3 : ¬ ((↑(l - mm) : Int) < 0) := by omega
      simp only [lexTok, h1, Bool.false_eq_true, if_false, h2, hr, h46, if_true, hr2, h3,
        List.drop_succ_cons, List.drop_zero]
      congr 4
      omega

theorem serTok_ne_nil (mm : Nat) (tok : Tok) : serTok mm tok ≠ [] := by
  cases tok with
  | lit c => simp [serTok]
  | bang => simp [serTok]
  | nrun n => simp [serTok]
  | mtch d len =>
    obtain ⟨b, tl, e, _⟩ := appendInt_head d
    cases len <;> simp [serTok, e]

/-! ### `execTok` (arrays) against `stepTok` (lists) -/

theorem toArray_push (out : Array Nat) (c : Nat) : (out.toList ++ [c]).toArray = out.push c := by
  apply Array.ext'; simp

theorem toArray_append (out : Array Nat) (b : Array Nat) : (out.toList ++ b.toList).toArray = out ++ b := by
  apply Array.ext'; simp

theorem toArray_replicate (out : Array Nat) (n v : Nat) :
    (out.toList ++ List.replicate n v).toArray = out ++ Array.replicate n v := by
  apply Array.ext'; simp

theorem execTok_stepTok (refP : Array Nat) (refLen : Nat) (out : Array Nat) (pred : Nat) (tok : Tok) :
    execTok refP refLen out pred tok =
      (stepTok refP refLen (out.toList, pred) tok).map (fun st => (st.1.toArray, st.2)) := by
  cases tok with
  | lit c => simp [execTok, stepTok, toArray_push]
  | bang =>
    simp only [execTok, stepTok]
    cases refP[pred]? <;> simp [toArray_push]
  | nrun n => simp only [execTok, stepTok, Option.map_some, toArray_replicate]
  | mtch d len =>
    simp only [execTok, stepTok]
    split
    · rfl
    · cases len with
      | none =>
        simp only
        split
        · rfl
        · split
          · simp only [Option.map_some, toArray_append]
          · rfl
      | some l =>
        simp only
        split
        · simp only [Option.map_some, toArray_append]
        · rfl

/-- **decode_serialize**, generalised over the decoder state and a byte suffix. -/
theorem decodeGo_serialize (refP : Array Nat) (refLen mm : Nat) :
    ∀ (ts : List Tok), wellFormed mm ts → ∀ (out : Array Nat) (pred : Nat),
      decodeGo refP refLen mm (serialize mm ts) out pred =
        (decToks refP refLen ts (out.toList, pred)).map (fun st => st.1.toArray) := by
  intro ts
  induction ts with
  | nil =>
    intro _ out pred
    rw [decodeGo]
    simp [serialize, decToks]
  | cons tok ts ih =>
    intro hwf out pred
    have hw1 : tok.WF mm := hwf tok (by simp)
    have hw2 : wellFormed mm ts := fun t ht => hwf t (by simp [ht])
    have hne : serialize mm (tok :: ts) ≠ [] := by
      simp only [serialize, ne_eq, List.append_eq_nil_iff, not_and]
      intro h; exact absurd h (serTok_ne_nil mm tok)
    have hlex : lexTok mm (serialize mm (tok :: ts)) = some (tok, serialize mm ts) :=
      lexTok_serTok mm tok hw1 _
    rw [decodeGo]
    simp only [hne, if_false]
    split
    · next h => rw [hlex] at h; cases h
    · next tok' rest' h =>
      rw [hlex] at h
      simp only [Option.some.injEq, Prod.mk.injEq] at h
      obtain ⟨rfl, rfl⟩ := h
      rw [execTok_stepTok]
      simp only [decToks]
      cases hst : stepTok refP refLen (out.toList, pred) tok with
      | none => simp
      | some st =>
        simp only [Option.map_some]
        rw [ih hw2]

end Ragc.Model.LzDiff
