import RagcModel.Gen.Tables
/-!
What worker 0 classifies at a barrier does not depend on the order in which the workers appended
to the raw segment buffers.

`classify_raw_segments_at_barrier` (agc_compressor.rs) drains ALL per-worker buffers into one
vector and runs `raw_segs.sort()` before anything else looks at it; `impl Ord for
RawBufferedSegment` compares `sample_name`, then `contig_name`, then `original_place` (the chain is
read from the source by `tools/gen_tables.py` into `Gen.rawSegCmpKeys` on every run).

Model: `RawSeg` is a buffered segment as far as the sort sees it (names as byte strings — Rust's
`String::cmp` is the bytewise lexicographic order, which is `List.lt` on the bytes — plus an opaque
payload); `canon le l` is the sorted vector. The theorem is `canon_eq_of_perm`: two drains that are
permutations of each other (the SAME segments, appended in any order by any workers) sort to the
same vector, provided no two segments of the batch share `(sample, contig, place)` — which holds
because a sample refuses a second record with the same contig name (fix D13) and a contig's segments
are numbered 0, 1, 2, ….
-/
namespace Ragc.Canon

structure RawSeg where
  /-- `sample_name` (bytes) -/
  sample : List Nat
  /-- `contig_name` (bytes) -/
  contig : List Nat
  /-- `original_place` -/
  place : Nat
  /-- everything the sort does not look at: data, k-mers, orientation … -/
  payload : List Nat
deriving DecidableEq, Repr

/-- The sort key as one lexicographically ordered list: `[sample, contig, [place]]`. -/
def key (x : RawSeg) : List (List Nat) := [x.sample, x.contig, [x.place]]

/-- `a ≤ b` in `impl Ord for RawBufferedSegment`. -/
def rawLe (a b : RawSeg) : Bool := decide (key a ≤ key b)

/-- The value of a field of `RawBufferedSegment` that the comparison reads, as an order key. -/
def fieldOf (name : String) (x : RawSeg) : Option (List Nat) :=
  if name = "sample_name" then some x.sample
  else if name = "contig_name" then some x.contig
  else if name = "original_place" then some [x.place]
  else none

/-- `a ≤ b` in the comparison chain `keys` as `tools/gen_tables.py` reads it from the source
(`(field, reversed)`; `match self.f.cmp(&other.f) { Equal => …, other => other }`). An unknown field
makes it `False`. -/
def chainLe : List (String × Bool) → RawSeg → RawSeg → Prop
  | [], _, _ => True
  | (f, rev) :: rest, a, b =>
    match fieldOf f a, fieldOf f b with
    | some va, some vb => (if rev then vb < va else va < vb) ∨ (va = vb ∧ chainLe rest a b)
    | _, _ => False

theorem rawSegCmpKeys_pinned :
    Ragc.Gen.rawSegCmpKeys = [("sample_name", false), ("contig_name", false), ("original_place", false)] := rfl

private theorem cons_le_cons_iff' (a b : List Nat) (as bs : List (List Nat)) :
    a :: as ≤ b :: bs ↔ a < b ∨ (a = b ∧ as ≤ bs) := by
  rw [List.cons_le_cons_iff]

private theorem single_lt (m n : Nat) : ([m] : List Nat) < [n] ↔ m < n := by
  rw [List.cons_lt_cons_iff]; simp

/-- The chain translated from the source IS the model's order, for all segments. -/
theorem rawLe_translated (a b : RawSeg) : chainLe Ragc.Gen.rawSegCmpKeys a b ↔ rawLe a b = true := by
  rw [rawSegCmpKeys_pinned]
  simp only [chainLe, fieldOf, rawLe, key]
  simp only [cons_le_cons_iff']
  simp [single_lt]

theorem rawLe_trans (a b c : RawSeg) : rawLe a b = true → rawLe b c = true → rawLe a c = true := by
  simp only [rawLe, decide_eq_true_eq]; exact List.le_trans

theorem rawLe_total (a b : RawSeg) : (rawLe a b || rawLe b a) = true := by
  simp only [rawLe, Bool.or_eq_true, decide_eq_true_eq]; exact List.le_total _ _

theorem rawLe_antisymm (a b : RawSeg) : rawLe a b = true → rawLe b a = true → key a = key b := by
  simp only [rawLe, decide_eq_true_eq]; exact List.le_antisymm

/-- The vector `classify_raw_segments_at_barrier` works on: the drained buffers, sorted.
(`sort` is stable; with distinct keys stability is irrelevant, and `mergeSort` is stable as well.) -/
def canon (l : List RawSeg) : List RawSeg := l.mergeSort rawLe

/-- No two segments of the batch share `(sample, contig, place)`. -/
def KeysDistinct (l : List RawSeg) : Prop := ∀ a ∈ l, ∀ b ∈ l, key a = key b → a = b

theorem canon_perm (l : List RawSeg) : (canon l).Perm l := List.mergeSort_perm l rawLe

theorem canon_sorted (l : List RawSeg) : (canon l).Pairwise (fun a b => rawLe a b = true) :=
  List.pairwise_mergeSort rawLe_trans rawLe_total l

/-- **Arrival order is irrelevant**: the same segments drained in any order sort to the same vector. -/
theorem canon_eq_of_perm (l₁ l₂ : List RawSeg) (hp : l₁.Perm l₂) (hd : KeysDistinct l₁) :
    canon l₁ = canon l₂ := by
  have p1 := canon_perm l₁
  have p2 := canon_perm l₂
  refine List.Perm.eq_of_pairwise (le := fun a b => rawLe a b = true) ?_ (canon_sorted l₁) (canon_sorted l₂)
    (p1.trans (hp.trans p2.symm))
  intro a b ha hb hab hba
  exact hd a (p1.subset ha) b (hp.symm.subset (p2.subset hb)) (rawLe_antisymm a b hab hba)

/-- … hence anything computed from the sorted vector (group assignment, ids, packs, bytes) is the
same: `F` is the rest of `classify_raw_segments_at_barrier` and of the store phase, applied to the
state `σ` left by the previous rounds. -/
theorem classify_order_insensitive {σ : Type} (F : σ → List RawSeg → σ) (s : σ) (l₁ l₂ : List RawSeg)
    (hp : l₁.Perm l₂) (hd : KeysDistinct l₁) : F s (canon l₁) = F s (canon l₂) := by
  rw [canon_eq_of_perm l₁ l₂ hp hd]

/-- Over a whole run: the state after all rounds is the same for two runs whose batches are, round
by round, permutations of each other. -/
theorem rounds_order_insensitive {σ : Type} (F : σ → List RawSeg → σ) :
    ∀ (bs₁ bs₂ : List (List RawSeg)) (s : σ), bs₁.length = bs₂.length →
      (∀ r (h₁ : r < bs₁.length) (h₂ : r < bs₂.length), (bs₁[r]).Perm (bs₂[r]) ∧ KeysDistinct (bs₁[r])) →
      (bs₁.map canon).foldl F s = (bs₂.map canon).foldl F s
  | [], [], _, _, _ => rfl
  | [], _ :: _, _, h, _ => by simp at h
  | _ :: _, [], _, h, _ => by simp at h
  | b₁ :: bs₁, b₂ :: bs₂, s, hl, h => by
    have h0 := h 0 (by simp) (by simp)
    simp only [List.getElem_cons_zero] at h0
    simp only [List.map_cons, List.foldl_cons]
    rw [canon_eq_of_perm b₁ b₂ h0.1 h0.2]
    apply rounds_order_insensitive F bs₁ bs₂ _ (by simpa using hl)
    intro r h₁ h₂
    have := h (r + 1) (by simp; omega) (by simp; omega)
    simpa using this

/-- A vector that is sorted and a permutation of the drained one IS the canonical vector. -/
theorem canon_unique (l t : List RawSeg) (hp : t.Perm l) (hs : t.Pairwise (fun a b => rawLe a b = true))
    (hd : KeysDistinct l) : canon l = t := by
  refine List.Perm.eq_of_pairwise (le := fun a b => rawLe a b = true) ?_ (canon_sorted l) hs
    ((canon_perm l).trans hp.symm)
  intro a b ha hb hab hba
  exact hd a ((canon_perm l).subset ha) b (hp.subset hb) (rawLe_antisymm a b hab hba)

/-! ### Non-vacuity: two different arrival orders of a four-segment batch -/

def exA : List RawSeg :=
  [⟨[115, 49], [99, 50], 0, [1]⟩, ⟨[115, 49], [99, 49], 1, [2]⟩, ⟨[115, 49], [99, 49], 0, [3]⟩, ⟨[114], [122], 7, [4]⟩]
def exB : List RawSeg :=
  [⟨[114], [122], 7, [4]⟩, ⟨[115, 49], [99, 49], 0, [3]⟩, ⟨[115, 49], [99, 50], 0, [1]⟩, ⟨[115, 49], [99, 49], 1, [2]⟩]
def exSorted : List RawSeg :=
  [⟨[114], [122], 7, [4]⟩, ⟨[115, 49], [99, 49], 0, [3]⟩, ⟨[115, 49], [99, 49], 1, [2]⟩, ⟨[115, 49], [99, 50], 0, [1]⟩]

theorem exA_distinct : KeysDistinct exA := by
  intro a ha b hb
  simp only [exA, List.mem_cons, List.not_mem_nil, or_false] at ha hb
  rcases ha with rfl | rfl | rfl | rfl <;> rcases hb with rfl | rfl | rfl | rfl <;> decide

example : exA ≠ exB ∧ exA.Perm exB ∧ KeysDistinct exA ∧ canon exA = canon exB ∧ canon exA = exSorted :=
  ⟨by decide, by decide, exA_distinct, canon_eq_of_perm exA exB (by decide) exA_distinct,
   canon_unique exA exSorted (by decide) (by decide) exA_distinct⟩

/-- Without the distinct-keys hypothesis the statement is false (a stable sort keeps the arrival
order of equal keys) — the hypothesis is needed, and it is what fix D13 guarantees. -/
theorem distinct_keys_needed :
    ∃ l₁ l₂ : List RawSeg, l₁.Perm l₂ ∧ canon l₁ ≠ canon l₂ := by
  refine ⟨[⟨[1], [1], 0, [1]⟩, ⟨[1], [1], 0, [2]⟩], [⟨[1], [1], 0, [2]⟩, ⟨[1], [1], 0, [1]⟩], by decide, ?_⟩
  have h1 : canon [⟨[1], [1], 0, [1]⟩, ⟨[1], [1], 0, [2]⟩] = [⟨[1], [1], 0, [1]⟩, ⟨[1], [1], 0, [2]⟩] :=
    List.mergeSort_of_pairwise (by decide)
  have h2 : canon [⟨[1], [1], 0, [2]⟩, ⟨[1], [1], 0, [1]⟩] = [⟨[1], [1], 0, [2]⟩, ⟨[1], [1], 0, [1]⟩] :=
    List.mergeSort_of_pairwise (by decide)
  rw [h1, h2]; decide

end Ragc.Canon
