import RagcModel.Model.Agc3
import RagcModel.Model.StreamNames
import RagcModel.Lemmas.StreamNames
/-!
Helper lemmas for C02: the decoder's literal base-64 naming (`Agc3.b64Encode`, `parseXName`)
against the writer's (`StreamNames.intToBase64`), and the array twin of `Container.readPartData`.
-/
namespace Ragc.Agc3
open Ragc.StreamNames

theorem b64Encode_eq (n : Nat) : b64Encode n = intToBase64 n := by
  induction n using Nat.strongRecOn with
  | _ n ih =>
    have hd : ∀ i, b64Digit i = digitAt i := by
      intro i
      unfold b64Digit digitAt
      have : Ragc.Agc3.b64 = Ragc.Gen.b64Digits := by decide
      rw [this]
    unfold b64Encode intToBase64
    by_cases h : n / 64 = 0
    · simp only [h, ↓reduceDIte, hd]
    · simp only [h, ↓reduceDIte, hd]
      rw [ih (n / 64) (by omega)]

theorem b64Encode_ne_nil (n : Nat) : b64Encode n ≠ [] := by
  unfold b64Encode; split <;> simp

/-- The 64 digits are found at their own index (complete table). -/
theorem b64_idx : ∀ i, i < 64 → b64.idxOf? (b64Digit i) = some i := by decide +kernel

theorem b64Value_encode (n : Nat) : b64Value (b64Encode n) = some n := by
  induction n using Nat.strongRecOn with
  | _ n ih =>
    unfold b64Encode
    by_cases h : n / 64 = 0
    · simp only [h, ↓reduceDIte, b64Value, b64_idx (n % 64) (Nat.mod_lt _ (by omega))]
      congr 1; omega
    · simp only [h, ↓reduceDIte, b64Value, b64_idx (n % 64) (Nat.mod_lt _ (by omega)),
        ih (n / 64) (by omega)]
      congr 1; omega

/-- The decoder parses every canonical stream name back to its group and kind. -/
theorem parseXName_xName (g : Nat) (kd : Kind) : parseXName (xName g kd) = some (g, kd) := by
  unfold parseXName xName
  have hne := b64Encode_ne_nil g
  have hemp : (b64Encode g).isEmpty = false := by
    cases h : b64Encode g with
    | nil => exact absurd h hne
    | cons _ _ => rfl
  simp only [List.dropLast_concat, hemp, Bool.false_eq_true, if_false, List.getLast?_concat,
    b64Value_encode]
  cases kd <;> rfl

/-! ## `readPartA` is `Container.readPartData` -/
open Ragc.Container Ragc.Varint

theorem readBE_take (m : Nat) : ∀ (n acc : Nat) (r : List Nat),
    readBE acc n (r.take (n + m)) = (readBE acc n r).map (fun x => (x.1, x.2.take m))
  | 0, acc, r => by simp [readBE]
  | n + 1, acc, [] => by simp [readBE]
  | n + 1, acc, b :: r => by
    have : n + 1 + m = (n + m) + 1 := by omega
    rw [this, List.take_succ_cons]
    simp only [readBE]
    exact readBE_take m n _ r

/-- Reading a part from the array copy of the file gives exactly what `Container.readPartData`
(the proved reader of C13, with the repaired varint reader) gives, for every part the directory
check `partsInFile` admits. -/
theorem readPartA_eq (file : List Nat) (p : Part) (hfit : p.off + p.size ≤ file.length)
    (hseek : p.off ≤ seekMax) (b : Blob) :
    readPartA file.toArray p = .ok b ↔ readPartData readVarintFixed seekMax file p = .ok b := by
  unfold readPartA readPartData
  by_cases hz : p.size = 0
  · simp only [hz, if_true]
    constructor <;> intro h <;> cases h <;> rfl
  · simp only [hz, if_false]
    have hsk : ¬ seekMax < p.off := by omega
    have hlen : ¬ file.length < p.size := by omega
    simp only [hsk, if_false, List.getElem?_toArray]
    cases hd : file.drop p.off with
    | nil =>
      have hge : file.length ≤ p.off := by
        have := congrArg List.length hd
        simp at this; omega
      rw [List.getElem?_eq_none hge]
      simp [readVarintFixed, readVarint, Outcome.bind]
    | cons n r =>
      have hlt : p.off < file.length := by
        apply Classical.byContradiction
        intro hc
        rw [List.drop_eq_nil_of_le (by omega)] at hd
        cases hd
      have hn : file[p.off]? = some n := by
        rw [List.getElem?_eq_getElem hlt]
        have := List.drop_eq_getElem_cons hlt
        rw [hd] at this
        simp only [List.cons.injEq] at this
        rw [this.1]
      rw [hn]
      simp only []
      have hwin : (file.toArray.extract p.off (p.off + 1 + n + p.size)).toList
          = n :: r.take (n + p.size) := by
        simp only [List.extract_toArray, List.extract_eq_take_drop]
        have : p.off + 1 + n + p.size - p.off = (n + p.size) + 1 := by omega
        rw [this, hd, List.take_succ_cons]
      rw [hwin]
      simp only [readVarint, readVarintFixed, readBE_take]
      cases hbe : readBE 0 n r with
      | none => simp [Outcome.bind]
      | some x =>
        obtain ⟨v, rest⟩ := x
        simp only [Option.map_some, Outcome.bind, hlen, if_false, List.length_take]
        by_cases hr : rest.length < p.size
        · have : min p.size rest.length < p.size := by omega
          simp [hr, this]
        · have : ¬ min p.size rest.length < p.size := by omega
          simp only [hr, this, if_false, List.take_take, Nat.min_self]
          constructor <;> intro h <;> cases h <;> rfl

end Ragc.Agc3
