import RagcModel.Model.Segment
/-!
Helper definitions and lemmas for C10 (segmentation tiles each contig).

Proof architecture: the model loop is factored into
* `cuts`  — *where* the loop splits (depends only on the window tracker and the splitter predicate),
* `build` — *how* segments are cut out of the contig given the split positions,
and `loop_eq_build` shows `loop = some (build (cuts ..))` (in particular no slice is ever out of
range).  Everything else is proved about `cuts` and `build` separately.
-/
namespace Ragc.Segment

/-- One split event: exclusive end position `pos+1`, the k-mer value and its orientation flag. -/
structure Cut where
  e : Nat
  v : UInt64
  d : Bool

/-- The split events of the loop started at position `pos` in window state `st`. -/
def cuts (T : Tracker σ) (isSplitter : UInt64 → Bool) (withSize : Bool) :
    σ → Nat → List UInt8 → List Cut
  | _, _, [] => []
  | st, pos, b :: rest =>
    if b > 3 then cuts T isSplitter withSize (T.reset st) (pos + 1) rest
    else
      if T.isFull (T.insert st b.toUInt64) = true ∧ isSplitter (T.data (T.insert st b.toUInt64)) = true then
        ⟨pos + 1, T.data (T.insert st b.toUInt64), T.isDirOriented (T.insert st b.toUInt64)⟩ ::
          cuts T isSplitter withSize
            (if withSize then T.reset (T.insert st b.toUInt64) else T.insert st b.toUInt64) (pos + 1) rest
      else cuts T isSplitter withSize (T.insert st b.toUInt64) (pos + 1) rest

/-- The segments cut out of `contig` for a list of split events, starting a segment at `s` with
    front k-mer `f` / flag `fd`. -/
def build (withSize : Bool) (k : Nat) (contig : List UInt8) : Nat → UInt64 → Bool → List Cut → List Segment
  | s, f, fd, [] => finalSegments withSize contig s f fd
  | s, f, fd, c :: cs =>
    { data := (contig.drop s).take (c.e - s), frontKmer := f, backKmer := c.v,
      frontKmerIsDir := frontDirOut withSize f fd, backKmerIsDir := c.d } ::
      build withSize k contig (c.e - k) c.v c.d cs

theorem loop_eq_build (T : Tracker σ) (isSplitter : UInt64 → Bool) (withSize : Bool) (k : Nat)
    (contig : List UInt8) :
    ∀ (rest : List UInt8) (pos : Nat) (st : σ) (s : Nat) (f : UInt64) (fd : Bool),
      s ≤ pos → pos + rest.length = contig.length →
      loop T isSplitter withSize k contig rest pos st s f fd
        = some (build withSize k contig s f fd (cuts T isSplitter withSize st pos rest)) := by
  intro rest
  induction rest with
  | nil => intro pos st s f fd _ _; simp [loop, cuts, build]
  | cons b rest ih =>
    intro pos st s f fd hs hlen
    have hlen' : pos + 1 + rest.length = contig.length := by simp at hlen; omega
    unfold loop cuts
    by_cases hb : b > 3
    · simp only [hb, if_true]
      exact ih (pos + 1) _ s f fd (by omega) hlen'
    · simp only [hb, if_false]
      by_cases hfull : T.isFull (T.insert st b.toUInt64) = true
      · by_cases hspl : isSplitter (T.data (T.insert st b.toUInt64)) = true
        · have hslice : slice? contig s (pos + 1) = some ((contig.drop s).take (pos + 1 - s)) := by
            unfold slice?; rw [if_pos]; constructor <;> omega
          have hne : ((contig.drop s).take (pos + 1 - s)).isEmpty = false := by
            cases h : (contig.drop s).take (pos + 1 - s) with
            | nil =>
              have := congrArg List.length h
              simp at this; omega
            | cons _ _ => rfl
          simp only [hfull, hspl, if_true, and_self, hslice, hne]
          rw [ih (pos + 1) _ (pos + 1 - k) _ _ (by omega) hlen']
          simp [build]
        · simp only [hfull, hspl, if_true, true_and]
          simp only [Bool.false_eq_true, if_false]
          exact ih (pos + 1) _ s f fd (by omega) hlen'
      · simp only [hfull]
        simp only [Bool.false_eq_true, false_and, if_false]
        exact ih (pos + 1) _ s f fd (by omega) hlen'

/-! ### Specification vocabulary (used by `Props/C10.lean`) -/

/-- Later pieces of a tiling: `e` is the (exclusive) end offset in `c` of the previous piece.
    Every piece starts exactly `k` symbols before `e`, has at least `k` symbols, is the
    corresponding slice of `c`; after the last piece the end offset is `|c|`. -/
def TilesFrom (k : Nat) (c : List α) : Nat → List (List α) → Prop
  | e, [] => e = c.length
  | e, p :: ps =>
    k ≤ e ∧ k ≤ p.length ∧ e - k + p.length ≤ c.length ∧ p = (c.drop (e - k)).take p.length ∧
      TilesFrom k c (e - k + p.length) ps

/-- `Tiles k c pieces`: there is at least one piece; the first is the prefix of `c` of its own
    length (it starts at offset 0); each later piece starts exactly `k` symbols before the previous
    one ends, has `≥ k` symbols and is a slice of `c`; the last piece ends at the end of `c`. -/
def Tiles (k : Nat) (c : List α) : List (List α) → Prop
  | [] => False
  | p :: ps => p.length ≤ c.length ∧ p = c.take p.length ∧ TilesFrom k c p.length ps

/-- Reassembly used by the decompressor: the first piece, then every later piece without its
    first `k` symbols. -/
def reassemble (k : Nat) : List (List α) → List α
  | [] => []
  | p :: ps => p ++ (ps.map (List.drop k)).flatten

theorem tilesFrom_flatten (k : Nat) (c : List α) :
    ∀ (ps : List (List α)) (e : Nat), TilesFrom k c e ps →
      (ps.map (List.drop k)).flatten = c.drop e := by
  intro ps
  induction ps with
  | nil =>
    intro e h
    simp only [TilesFrom] at h
    simp [h]
  | cons p ps ih =>
    intro e ⟨hke, hkp, hle, hp, hrest⟩
    have h1 := ih _ hrest
    simp only [List.map_cons, List.flatten_cons, h1]
    -- drop k p = (c.drop e).take (|p| - k)
    have h2 : p.drop k = (c.drop e).take (p.length - k) := by
      conv => lhs; rw [hp]
      rw [List.drop_take, List.drop_drop]
      congr 2
      omega
    rw [h2]
    have h3 : c.drop (e - k + p.length) = (c.drop e).drop (p.length - k) := by
      rw [List.drop_drop]; congr 1; omega
    rw [h3, List.take_append_drop]

theorem reassemble_of_tiles (k : Nat) (c : List α) (ps : List (List α)) (h : Tiles k c ps) :
    reassemble k ps = c := by
  cases ps with
  | nil => exact absurd h (by simp [Tiles])
  | cons p ps =>
    obtain ⟨_, hp, hrest⟩ := h
    simp only [reassemble, tilesFrom_flatten k c ps _ hrest]
    have : p ++ c.drop p.length = c.take p.length ++ c.drop p.length := by rw [← hp]
    rw [this, List.take_append_drop]

theorem tilesFrom_later_ge (k : Nat) (c : List α) :
    ∀ (ps : List (List α)) (e : Nat), TilesFrom k c e ps → ∀ p ∈ ps, k ≤ p.length := by
  intro ps
  induction ps with
  | nil => intro e _ p hp; cases hp
  | cons q ps ih =>
    intro e ⟨_, hkq, _, _, hrest⟩ p hp
    cases hp with
    | head => exact hkq
    | tail _ hp => exact ih _ hrest p hp

theorem slice_eq_take_drop (c : List α) (s e : Nat) : (c.drop s).take (e - s) = (c.take e).drop s := by
  rw [List.drop_take]

/-- Consecutive pieces share exactly the `k` symbols at the boundary. -/
def Overlap (k : Nat) : List (List α) → Prop
  | [] => True
  | [_] => True
  | p :: q :: rest => q.take k = p.drop (p.length - k) ∧ Overlap k (q :: rest)

theorem tilesFrom_overlap (k : Nat) (c : List α) :
    ∀ (ps : List (List α)) (e : Nat) (p0 : List α), p0.length ≤ e → e ≤ c.length →
      p0 = (c.take e).drop (e - p0.length) → (p0.length = e ∨ k ≤ p0.length) →
      TilesFrom k c e ps → Overlap k (p0 :: ps) := by
  intro ps
  induction ps with
  | nil => intro _ _ _ _ _ _ _; trivial
  | cons q ps ih =>
    intro e p0 hle hec hp hk0 ⟨hke, hkq, hqc, hq, hrest⟩
    have hkp : k ≤ p0.length := by rcases hk0 with h | h <;> omega
    refine ⟨?_, ?_⟩
    · have h1 : q.take k = (c.take e).drop (e - k) := by
        have : q.take k = ((c.drop (e - k)).take q.length).take k := by rw [← hq]
        rw [this, List.take_take, Nat.min_eq_left hkq]
        have h3 := slice_eq_take_drop c (e - k) e
        rw [show e - (e - k) = k by omega] at h3
        exact h3
      have h2 : p0.drop (p0.length - k) = (c.take e).drop (e - k) := by
        have : p0.drop (p0.length - k) = ((c.take e).drop (e - p0.length)).drop (p0.length - k) := by
          rw [← hp]
        rw [this, List.drop_drop]; congr 1; omega
      rw [h1, h2]
    · apply ih (e - k + q.length) q (by omega) hqc ?_ (Or.inr hkq) hrest
      have h3 := slice_eq_take_drop c (e - k) (e - k + q.length)
      rw [show e - k + q.length - (e - k) = q.length by omega] at h3
      rw [show e - k + q.length - q.length = e - k by omega, ← h3]
      exact hq

theorem tiles_overlap (k : Nat) (c : List α) (ps : List (List α)) (h : Tiles k c ps) : Overlap k ps := by
  cases ps with
  | nil => trivial
  | cons p ps =>
    obtain ⟨hle, hp, hrest⟩ := h
    apply tilesFrom_overlap k c ps p.length p (Nat.le_refl _) hle ?_ (Or.inl rfl) hrest
    simpa using hp

theorem Overlap.at {k : Nat} : ∀ {pre : List (List α)} {p q : List α} {post : List (List α)},
    Overlap k (pre ++ p :: q :: post) → q.take k = p.drop (p.length - k) := by
  intro pre
  induction pre with
  | nil => intro p q post h; exact h.1
  | cons x pre ih =>
    intro p q post h
    cases pre with
    | nil => exact ih h.2
    | cons y pre => exact ih h.2

theorem tiles_nonempty (k : Nat) (hk : 1 ≤ k) (c : List α) (ps : List (List α)) (h : Tiles k c ps)
    (hc : c ≠ []) : ∀ p ∈ ps, p ≠ [] := by
  cases ps with
  | nil => intro p hp; cases hp
  | cons p0 ps =>
    obtain ⟨_, hp0, hrest⟩ := h
    intro p hp
    cases hp with
    | head =>
      intro hnil
      subst hnil
      cases ps with
      | nil =>
        simp only [TilesFrom, List.length_nil] at hrest
        exact hc (List.eq_nil_of_length_eq_zero hrest.symm)
      | cons q ps =>
        have := hrest.1
        simp at this; omega
    | tail _ hp =>
      have := tilesFrom_later_ge k c ps _ hrest p hp
      intro hnil; subst hnil; simp at this; omega

/-! ### Window trackers -/

/-- The only thing the tiling needs from the k-mer window: a bound `R s n` ("at most `n` symbols
    were inserted into `s` since the last reset") such that a full window has seen `k` symbols. -/
structure Tracker.Window (T : Tracker σ) (k : Nat) (R : σ → Nat → Prop) : Prop where
  mono : ∀ s n m, R s n → n ≤ m → R s m
  reset : ∀ s n, R s n → R (T.reset s) 0
  insert : ∀ s n b, R s n → R (T.insert s b) (n + 1)
  full : ∀ s n, R s n → T.isFull s = true → k ≤ n

/-- Split positions are strictly increasing from `lo`, at least `k`, at most `len`. -/
def CutsOK (k len : Nat) : Nat → List Cut → Prop
  | _, [] => True
  | lo, c :: cs => lo < c.e ∧ k ≤ c.e ∧ c.e ≤ len ∧ CutsOK k len c.e cs

theorem CutsOK.mono_lo {k len lo lo' : Nat} {cs : List Cut} (h : CutsOK k len lo cs) (hl : lo' ≤ lo) :
    CutsOK k len lo' cs := by
  cases cs with
  | nil => trivial
  | cons c cs => exact ⟨by have := h.1; omega, h.2⟩

theorem cuts_ok {T : Tracker σ} {k : Nat} {R : σ → Nat → Prop} (hT : T.Window k R)
    (isSplitter : UInt64 → Bool) (withSize : Bool) :
    ∀ (rest : List UInt8) (st : σ) (pos : Nat), R st pos →
      CutsOK k (pos + rest.length) pos (cuts T isSplitter withSize st pos rest) := by
  intro rest
  induction rest with
  | nil => intro st pos _; simp [cuts, CutsOK]
  | cons b rest ih =>
    intro st pos hR
    have hlen : pos + (b :: rest).length = pos + 1 + rest.length := by simp; omega
    rw [hlen]
    unfold cuts
    split
    · exact (ih _ (pos + 1) (hT.mono _ _ _ (hT.reset _ _ hR) (by omega))).mono_lo (by omega)
    · have hI := hT.insert _ _ b.toUInt64 hR
      split
      · rename_i hc
        refine ⟨show pos < pos + 1 by omega, hT.full _ _ hI hc.1,
          show pos + 1 ≤ pos + 1 + rest.length by omega, ?_⟩
        apply ih
        cases withSize
        · exact hI
        · exact hT.mono _ _ _ (hT.reset _ _ hI) (by omega)
      · exact (ih _ (pos + 1) hI).mono_lo (by omega)

/-! ### `build` tiles the contig -/

theorem finalSegments_of_lt (withSize : Bool) (contig : List UInt8) (s : Nat) (f : UInt64) (fd : Bool)
    (h : s < contig.length) :
    finalSegments withSize contig s f fd =
      [{ data := contig.drop s, frontKmer := f, backKmer := MISSING_KMER,
         frontKmerIsDir := frontDirOut withSize f fd, backKmerIsDir := false }] := by
  unfold finalSegments
  have hne : (contig.drop s).isEmpty = false := by
    cases h' : contig.drop s with
    | nil => have := congrArg List.length h'; simp at this; omega
    | cons _ _ => rfl
  simp [h, hne]

theorem build_tilesFrom (withSize : Bool) (k : Nat) (contig : List UInt8) (hk : 1 ≤ k) :
    ∀ (cs : List Cut) (e : Nat) (f : UInt64) (fd : Bool), k ≤ e → e ≤ contig.length →
      CutsOK k contig.length e cs →
      TilesFrom k contig e ((build withSize k contig (e - k) f fd cs).map Segment.data) := by
  intro cs
  induction cs with
  | nil =>
    intro e f fd hke hel _
    rw [build, finalSegments_of_lt _ _ _ _ _ (by omega)]
    simp only [List.map_cons, List.map_nil, TilesFrom, List.length_drop]
    refine ⟨hke, by omega, by omega, ?_, by omega⟩
    rw [List.take_of_length_le]
    simp
  | cons c cs ih =>
    intro e f fd hke hel ⟨hlo, hkc, hcl, hrest⟩
    rw [build]
    simp only [List.map_cons, TilesFrom]
    have hlen : ((contig.drop (e - k)).take (c.e - (e - k))).length = c.e - (e - k) := by
      simp only [List.length_take, List.length_drop]; omega
    rw [hlen]
    refine ⟨hke, by omega, by omega, rfl, ?_⟩
    have he : e - k + (c.e - (e - k)) = c.e := by omega
    rw [he]
    exact ih c.e c.v c.d hkc hcl hrest

theorem build_tiles (withSize : Bool) (k : Nat) (contig : List UInt8) (hk : 1 ≤ k)
    (hne : 0 < contig.length) (cs : List Cut) (f : UInt64) (fd : Bool)
    (hcs : CutsOK k contig.length 0 cs) :
    Tiles k contig ((build withSize k contig 0 f fd cs).map Segment.data) := by
  cases cs with
  | nil =>
    rw [build, finalSegments_of_lt _ _ _ _ _ hne]
    simp [Tiles, TilesFrom]
  | cons c cs =>
    obtain ⟨_, hkc, hcl, hrest⟩ := hcs
    rw [build]
    simp only [List.map_cons, Tiles, List.drop_zero, Nat.sub_zero]
    have hlen : (contig.take c.e).length = c.e := by simp only [List.length_take]; omega
    rw [hlen]
    exact ⟨hcl, rfl, build_tilesFrom withSize k contig hk cs c.e c.v c.d hkc hcl hrest⟩

theorem tiles_single (k : Nat) (c : List α) : Tiles k c [c] := by
  simp [Tiles, TilesFrom]

/-! ### The model in closed form -/

/-- Every tracker satisfies the trivial window bound for `k = 0`; used to get the position bounds
    of `cuts` without any assumption on the tracker. -/
theorem Tracker.window_zero (T : Tracker σ) : T.Window 0 (fun _ _ => True) :=
  ⟨fun _ _ _ _ _ => trivial, fun _ _ _ => trivial, fun _ _ _ _ => trivial, fun _ _ _ _ => Nat.zero_le _⟩

theorem build_ne_nil (withSize : Bool) (k : Nat) (contig : List UInt8) (s : Nat) (f : UInt64) (fd : Bool)
    (cs : List Cut) (h : s < contig.length) : build withSize k contig s f fd cs ≠ [] := by
  cases cs with
  | nil => rw [build, finalSegments_of_lt _ _ _ _ _ h]; simp
  | cons c cs => simp [build]

/-- `splitGeneric` never hits an out-of-range slice, and for `k ≥ 1` the `segments.is_empty()`
    fallback is dead: the result is `build (cuts ..)`.  Holds for every tracker. -/
theorem splitGeneric_eq (T : Tracker σ) (init : σ) (isSplitter : UInt64 → Bool) (withSize : Bool)
    (k : Nat) (contig : List UInt8) (hk : 1 ≤ k) :
    splitGeneric T init isSplitter withSize k contig =
      some (if contig.length < k then [wholeSegment contig]
            else build withSize k contig 0 MISSING_KMER false (cuts T isSplitter withSize init 0 contig)) := by
  unfold splitGeneric
  by_cases hl : contig.length < k
  · simp [hl]
  · simp only [hl, if_false]
    rw [loop_eq_build T isSplitter withSize k contig contig 0 init 0 _ _ (Nat.le_refl _) (by simp)]
    have hne := build_ne_nil withSize k contig 0 MISSING_KMER false
      (cuts T isSplitter withSize init 0 contig) (by omega)
    cases hb : build withSize k contig 0 MISSING_KMER false (cuts T isSplitter withSize init 0 contig) with
    | nil => exact absurd hb hne
    | cons _ _ => simp

/-! ### Front/back k-mers are chained -/

/-- `Linked ws isSpl f fd segs`: the first segment has front k-mer `f` (flag derived from `fd`),
    every non-final segment's back k-mer is a splitter and is the front k-mer of the next segment,
    the final segment has no back k-mer. -/
def Linked (withSize : Bool) (isSplitter : UInt64 → Bool) : UInt64 → Bool → List Segment → Prop
  | _, _, [] => False
  | f, fd, [s] =>
    s.frontKmer = f ∧ s.frontKmerIsDir = frontDirOut withSize f fd ∧
      s.backKmer = MISSING_KMER ∧ s.backKmerIsDir = false
  | f, fd, s :: t :: rest =>
    s.frontKmer = f ∧ s.frontKmerIsDir = frontDirOut withSize f fd ∧ isSplitter s.backKmer = true ∧
      Linked withSize isSplitter s.backKmer s.backKmerIsDir (t :: rest)

theorem build_linked (withSize : Bool) (isSplitter : UInt64 → Bool) (k : Nat) (contig : List UInt8)
    (hk : 1 ≤ k) :
    ∀ (cs : List Cut) (s lo : Nat) (f : UInt64) (fd : Bool), s < contig.length →
      CutsOK 0 contig.length lo cs → (∀ c ∈ cs, isSplitter c.v = true) →
      Linked withSize isSplitter f fd (build withSize k contig s f fd cs) := by
  intro cs
  induction cs with
  | nil =>
    intro s lo f fd hs _ _
    rw [build, finalSegments_of_lt _ _ _ _ _ hs]
    simp [Linked]
  | cons c cs ih =>
    intro s lo f fd hs ⟨_, _, hcl, hrest⟩ hspl
    have hnext : c.e - k < contig.length := by omega
    have hne := build_ne_nil withSize k contig (c.e - k) c.v c.d cs hnext
    have hih := ih (c.e - k) c.e c.v c.d hnext hrest (fun c' hc' => hspl c' (List.mem_cons_of_mem _ hc'))
    rw [build]
    cases hb : build withSize k contig (c.e - k) c.v c.d cs with
    | nil => exact absurd hb hne
    | cons t rest =>
      rw [hb] at hih
      exact ⟨rfl, rfl, hspl c (List.mem_cons_self ..), hih⟩

theorem cuts_all_splitter (T : Tracker σ) (isSplitter : UInt64 → Bool) (withSize : Bool) :
    ∀ (rest : List UInt8) (st : σ) (pos : Nat),
      ∀ c ∈ cuts T isSplitter withSize st pos rest, isSplitter c.v = true := by
  intro rest
  induction rest with
  | nil => intro st pos c hc; simp [cuts] at hc
  | cons b rest ih =>
    intro st pos c hc
    unfold cuts at hc
    split at hc
    · exact ih _ _ c hc
    · split at hc
      · rename_i hcond
        cases hc with
        | head => exact hcond.2
        | tail _ hc => exact ih _ _ c hc
      · exact ih _ _ c hc

theorem Linked.head_front {ws : Bool} {isSpl : UInt64 → Bool} {f : UInt64} {fd : Bool} {s : Segment}
    {rest : List Segment} (h : Linked ws isSpl f fd (s :: rest)) :
    s.frontKmer = f ∧ s.frontKmerIsDir = frontDirOut ws f fd := by
  cases rest with
  | nil => exact ⟨h.1, h.2.1⟩
  | cons t rest => exact ⟨h.1, h.2.1⟩

theorem Linked.last_back {ws : Bool} {isSpl : UInt64 → Bool} :
    ∀ {segs : List Segment} {f : UInt64} {fd : Bool}, Linked ws isSpl f fd segs →
      ∀ s, segs.getLast? = some s → s.backKmer = MISSING_KMER ∧ s.backKmerIsDir = false := by
  intro segs
  induction segs with
  | nil => intro f fd h; exact absurd h (by simp [Linked])
  | cons a rest ih =>
    intro f fd h s hs
    cases rest with
    | nil =>
      simp at hs; subst hs
      exact ⟨h.2.2.1, h.2.2.2⟩
    | cons t rest =>
      rw [List.getLast?_cons_cons] at hs
      exact ih h.2.2.2 s hs

theorem Linked.boundary {ws : Bool} {isSpl : UInt64 → Bool} :
    ∀ {pre : List Segment} {f : UInt64} {fd : Bool} {a b : Segment} {post : List Segment},
      Linked ws isSpl f fd (pre ++ a :: b :: post) →
      a.backKmer = b.frontKmer ∧ isSpl a.backKmer = true ∧
        b.frontKmerIsDir = frontDirOut ws a.backKmer a.backKmerIsDir := by
  intro pre
  induction pre with
  | nil =>
    intro f fd a b post h
    have hb := Linked.head_front h.2.2.2
    exact ⟨hb.1.symm, h.2.2.1, hb.2⟩
  | cons p pre ih =>
    intro f fd a b post h
    cases pre with
    | nil => exact ih h.2.2.2
    | cons q pre => exact ih h.2.2.2

/-! ### Splitter occurrences -/

/-- The k-mer values the scan sees without splitting: the tracker's value after every symbol that
    leaves the window full (`enumerate_kmers` for the `Kmer` tracker, see `enum_kmerTracker`). -/
def Tracker.enum (T : Tracker σ) : σ → List UInt8 → List UInt64
  | _, [] => []
  | st, b :: bs =>
    if b > 3 then T.enum (T.reset st) bs
    else if T.isFull (T.insert st b.toUInt64) = true then
      T.data (T.insert st b.toUInt64) :: T.enum (T.insert st b.toUInt64) bs
    else T.enum (T.insert st b.toUInt64) bs

theorem cuts_eq_nil_iff (T : Tracker σ) (isSplitter : UInt64 → Bool) (withSize : Bool) :
    ∀ (rest : List UInt8) (st : σ) (pos : Nat),
      cuts T isSplitter withSize st pos rest = [] ↔ ∀ v ∈ T.enum st rest, isSplitter v = false := by
  intro rest
  induction rest with
  | nil => intro st pos; simp [cuts, Tracker.enum]
  | cons b rest ih =>
    intro st pos
    unfold cuts Tracker.enum
    by_cases hb : b > 3
    · simp only [hb, if_true]; exact ih _ _
    · simp only [hb, if_false]
      by_cases hfull : T.isFull (T.insert st b.toUInt64) = true
      · by_cases hspl : isSplitter (T.data (T.insert st b.toUInt64)) = true
        · simp [hfull, hspl]
        · have hspl' : isSplitter (T.data (T.insert st b.toUInt64)) = false := by simpa using hspl
          simp [hfull, hspl', ih]
      · have hfull' : T.isFull (T.insert st b.toUInt64) = false := by simpa using hfull
        simp [hfull', ih]

theorem build_nil_whole (withSize : Bool) (k : Nat) (contig : List UInt8) (h : 0 < contig.length) :
    build withSize k contig 0 MISSING_KMER false [] = [wholeSegment contig] := by
  rw [build, finalSegments_of_lt _ _ _ _ _ h]
  simp [wholeSegment, frontDirOut]

/-! ### After a split the window restarts (`with_size`): non-final later segments have `≥ 2k` -/

def CutsGap (k : Nat) : Nat → List Cut → Prop
  | _, [] => True
  | base, c :: cs => base + k ≤ c.e ∧ CutsGap k c.e cs

theorem cuts_gap {T : Tracker σ} {k : Nat} {R : σ → Nat → Prop} (hT : T.Window k R)
    (isSplitter : UInt64 → Bool) :
    ∀ (rest : List UInt8) (st : σ) (pos base : Nat), base ≤ pos → R st (pos - base) →
      CutsGap k base (cuts T isSplitter true st pos rest) := by
  intro rest
  induction rest with
  | nil => intro st pos base _ _; simp [cuts, CutsGap]
  | cons b rest ih =>
    intro st pos base hb hR
    unfold cuts
    split
    · exact ih _ (pos + 1) base (by omega) (hT.mono _ _ _ (hT.reset _ _ hR) (by omega))
    · have hI := hT.insert _ _ b.toUInt64 hR
      have hI' : R (T.insert st b.toUInt64) (pos + 1 - base) := hT.mono _ _ _ hI (by omega)
      split
      · rename_i hc
        have hk := hT.full _ _ hI' hc.1
        refine ⟨show base + k ≤ pos + 1 by omega, ?_⟩
        apply ih _ (pos + 1) (pos + 1) (Nat.le_refl _)
        simp only [if_true]
        exact hT.mono _ _ _ (hT.reset _ _ hI) (by omega)
      · exact ih _ (pos + 1) base (by omega) hI'

theorem build_later_2k (k : Nat) (contig : List UInt8) (hk : 1 ≤ k) :
    ∀ (cs : List Cut) (e : Nat) (f : UInt64) (fd : Bool), k ≤ e → e ≤ contig.length →
      CutsOK k contig.length e cs → CutsGap k e cs →
      ∀ s ∈ (build true k contig (e - k) f fd cs).dropLast, 2 * k ≤ s.data.length := by
  intro cs
  induction cs with
  | nil =>
    intro e f fd hke hel _ _ s hs
    rw [build, finalSegments_of_lt _ _ _ _ _ (by omega)] at hs
    simp at hs
  | cons c cs ih =>
    intro e f fd hke hel ⟨_, hkc, hcl, hrest⟩ ⟨hgap, hgrest⟩ s hs
    rw [build] at hs
    have hne := build_ne_nil true k contig (c.e - k) c.v c.d cs (by omega)
    rw [List.dropLast_cons_of_ne_nil hne] at hs
    cases hs with
    | head =>
      simp only [List.length_take, List.length_drop]; omega
    | tail _ hs => exact ih c.e c.v c.d hkc hcl hrest hgrest s hs

/-! ### The `Kmer` tracker (only its `cur`/`k` counters matter here; no bit arithmetic) -/

/-- "`km` belongs to a `k`-window and has had at most `n` inserts since the last reset". -/
def KmerAtMost (k : Nat) (km : Ragc.Kmer.Kmer) (n : Nat) : Prop := km.k = k ∧ km.cur ≤ n

theorem kmer_window (k : Nat) : kmerTracker.Window k (KmerAtMost k) where
  mono := fun _ _ _ h hle => ⟨h.1, Nat.le_trans h.2 hle⟩
  reset := fun _ _ h => ⟨h.1, Nat.le_refl _⟩
  insert := by
    intro s n b h
    show (Ragc.Kmer.insert s b).k = k ∧ (Ragc.Kmer.insert s b).cur ≤ n + 1
    unfold Ragc.Kmer.insert
    split
    · exact ⟨h.1, Nat.le_succ_of_le h.2⟩
    · exact ⟨h.1, Nat.succ_le_succ h.2⟩
  full := by
    intro s n h hf
    have : s.cur = s.k := by simpa [kmerTracker, Ragc.Kmer.isFull] using hf
    have h1 := h.1; have h2 := h.2
    omega

theorem kmer_init (k : Nat) : KmerAtMost k (Ragc.Kmer.new k) 0 := ⟨rfl, Nat.le_refl _⟩

theorem kmer_reset_eq (k : Nat) (s : Ragc.Kmer.Kmer) (n : Nat) (h : KmerAtMost k s n) :
    kmerTracker.reset s = Ragc.Kmer.new k := by
  show Ragc.Kmer.reset s = Ragc.Kmer.new k
  unfold Ragc.Kmer.reset Ragc.Kmer.new
  rw [← h.1]

theorem splitConcrete_eq (withSize : Bool) (contig : List UInt8) (isSplitter : UInt64 → Bool) (k : Nat)
    (hk : 1 ≤ k) (hk32 : k ≤ 32) :
    splitConcrete withSize contig isSplitter k =
      splitGeneric kmerTracker (Ragc.Kmer.new k) isSplitter withSize k contig := by
  unfold splitConcrete
  by_cases hl : contig.length < k
  · simp [hl, splitGeneric]
  · have : ¬ (k = 0 ∨ 32 < k) := by omega
    simp [hl, this]

theorem u8_gt3_iff (b : UInt8) : b.toUInt64 > 3 ↔ b > 3 := by
  show (3 : UInt64) < b.toUInt64 ↔ (3 : UInt8) < b
  rw [UInt64.lt_iff_toNat_lt, UInt8.lt_iff_toNat_lt]
  simp

/-- For the `Kmer` tracker, `Tracker.enum` is `enumerate_kmers`' loop. -/
theorem enum_kmerTracker : ∀ (l : List UInt8) (st : Ragc.Kmer.Kmer),
    kmerTracker.enum st l = Ragc.Kmer.enumLoop st (l.map UInt8.toUInt64) := by
  intro l
  induction l with
  | nil => intro st; rfl
  | cons b bs ih =>
    intro st
    simp only [Tracker.enum, List.map_cons, Ragc.Kmer.enumLoop, u8_gt3_iff]
    split
    · exact ih _
    · show (if Ragc.Kmer.isFull (Ragc.Kmer.insert st b.toUInt64) = true then _ else _) = _
      split
      · exact congrArg _ (ih _)
      · exact ih _

/-- For the `Kmer` tracker, `Tracker.feed` is `Kmer.feed`. -/
theorem feed_kmerTracker : ∀ (l : List UInt8) (st : Ragc.Kmer.Kmer),
    kmerTracker.feed st l = Ragc.Kmer.feed st (l.map UInt8.toUInt64) := by
  intro l
  induction l with
  | nil => intro st; rfl
  | cons b bs ih =>
    intro st
    simp only [Tracker.feed, List.map_cons, Ragc.Kmer.feed, u8_gt3_iff]
    split
    · exact ih _
    · exact ih _

/-! ### The window state at every split -/

theorem Tracker.feed_append (T : Tracker σ) : ∀ (l m : List UInt8) (st : σ),
    T.feed st (l ++ m) = T.feed (T.feed st l) m := by
  intro l
  induction l with
  | nil => intro m st; rfl
  | cons b bs ih =>
    intro m st
    simp only [List.cons_append, Tracker.feed]
    split <;> exact ih _ _

theorem take_succ_of_drop {l : List α} {n : Nat} {b : α} {rest : List α} (h : l.drop n = b :: rest) :
    l.take (n + 1) = l.take n ++ [b] ∧ l.drop (n + 1) = rest ∧ n < l.length := by
  have hlt : n < l.length := by
    rcases Nat.lt_or_ge n l.length with h' | h'
    · exact h'
    · rw [List.drop_of_length_le h'] at h; cases h
  have h2 := List.drop_eq_getElem_cons hlt
  rw [h] at h2
  injection h2 with hb hr
  refine ⟨?_, hr.symm, hlt⟩
  rw [List.take_succ_eq_append_getElem hlt, ← hb]

/-- Length of the run of bases (codes `≤ 3`) at the end of `l`, continuing a run of length `n`. -/
def acgtRun : Nat → List UInt8 → Nat
  | n, [] => n
  | n, b :: bs => if b > 3 then acgtRun 0 bs else acgtRun (n + 1) bs

theorem feed_R {T : Tracker σ} {k : Nat} {R : σ → Nat → Prop} (hT : T.Window k R) :
    ∀ (l : List UInt8) (st : σ) (n : Nat), R st n → R (T.feed st l) (acgtRun n l) := by
  intro l
  induction l with
  | nil => intro st n h; exact h
  | cons b bs ih =>
    intro st n h
    simp only [Tracker.feed, acgtRun]
    split
    · exact ih _ _ (hT.reset _ _ h)
    · exact ih _ _ (hT.insert _ _ _ h)

theorem acgtRun_suffix : ∀ (l : List UInt8) (n : Nat),
    acgtRun n l ≤ n + l.length ∧
      ∀ w, w <:+ l → w.length ≤ acgtRun n l → ∀ x ∈ w, x ≤ 3 := by
  intro l
  induction l with
  | nil =>
    intro n
    refine ⟨by simp [acgtRun], ?_⟩
    intro w hw _ x hx
    have : w = [] := by simpa using hw
    subst this; cases hx
  | cons b bs ih =>
    intro n
    simp only [acgtRun]
    by_cases hb : b > 3
    · simp only [hb, if_true]
      have ⟨h1, h2⟩ := ih 0
      refine ⟨by simp at h1 ⊢; omega, ?_⟩
      intro w hw hlen x hx
      rcases List.suffix_cons_iff.mp hw with rfl | hw'
      · simp at hlen h1; omega
      · exact h2 w hw' hlen x hx
    · simp only [hb, if_false]
      have ⟨h1, h2⟩ := ih (n + 1)
      refine ⟨by simp at h1 ⊢; omega, ?_⟩
      intro w hw hlen x hx
      rcases List.suffix_cons_iff.mp hw with rfl | hw'
      · cases hx with
        | head => exact UInt8.not_lt.mp hb
        | tail _ hx =>
          exact h2 bs (List.suffix_refl _) (by simp at hlen; omega) x hx
      · exact h2 w hw' hlen x hx

/-- If the window is full after scanning `l` from a fresh state, the last `k` symbols of `l` exist
    and are all bases. -/
theorem full_suffix {T : Tracker σ} {k : Nat} {R : σ → Nat → Prop} (hT : T.Window k R) (init : σ)
    (h0 : R init 0) (l : List UInt8) (hf : T.isFull (T.feed init l) = true) :
    k ≤ l.length ∧ ∀ x ∈ l.drop (l.length - k), x ≤ 3 := by
  have hk := hT.full _ _ (feed_R hT l init 0 h0) hf
  have ⟨h1, h2⟩ := acgtRun_suffix l 0
  have hkl : k ≤ l.length := by omega
  refine ⟨hkl, ?_⟩
  apply h2 _ (List.drop_suffix _ _)
  simp only [List.length_drop]; omega

/-- `CutState T init contig ws base cs`: at every split the window is full and the recorded value /
    flag are the tracker's after scanning, from a fresh state, the symbols since `base` — the end
    of the previous split when the window is reset after a split (`ws`), the contig start otherwise. -/
def CutState (T : Tracker σ) (init : σ) (contig : List UInt8) (ws : Bool) : Nat → List Cut → Prop
  | _, [] => True
  | base, c :: cs =>
    (T.isFull (T.feed init ((contig.take c.e).drop base)) = true ∧
      c.v = T.data (T.feed init ((contig.take c.e).drop base)) ∧
      c.d = T.isDirOriented (T.feed init ((contig.take c.e).drop base))) ∧
    CutState T init contig ws (if ws then c.e else base) cs

theorem cuts_state {T : Tracker σ} {k : Nat} {R : σ → Nat → Prop} (hT : T.Window k R) (init : σ)
    (h0 : R init 0) (isSplitter : UInt64 → Bool) (ws : Bool)
    (hreset : ws = true → ∀ s n, R s n → T.reset s = init) (contig : List UInt8) :
    ∀ (rest : List UInt8) (st : σ) (pos base : Nat), base ≤ pos → contig.drop pos = rest →
      st = T.feed init ((contig.take pos).drop base) →
      CutState T init contig ws base (cuts T isSplitter ws st pos rest) := by
  intro rest
  induction rest with
  | nil => intro st pos base _ _ _; simp [cuts, CutState]
  | cons b rest ih =>
    intro st pos base hb hdrop hst
    obtain ⟨htake, hdrop', hlt⟩ := take_succ_of_drop hdrop
    have hlen : (contig.take pos).length = pos := by simp; omega
    have hslice : (contig.take (pos + 1)).drop base = (contig.take pos).drop base ++ [b] := by
      rw [htake, List.drop_append_of_le_length (by omega)]
    unfold cuts
    by_cases hN : b > 3
    · simp only [hN, if_true]
      apply ih _ (pos + 1) base (by omega) hdrop'
      rw [hslice, Tracker.feed_append, ← hst]; simp [Tracker.feed, hN]
    · simp only [hN, if_false]
      have hst' : T.insert st b.toUInt64 = T.feed init ((contig.take (pos + 1)).drop base) := by
        rw [hslice, Tracker.feed_append, ← hst]; simp [Tracker.feed, hN]
      split
      · rename_i hc
        refine ⟨⟨?_, ?_, ?_⟩, ?_⟩
        · show T.isFull (T.feed init ((contig.take (pos + 1)).drop base)) = true
          rw [← hst']; exact hc.1
        · show T.data _ = T.data (T.feed init ((contig.take (pos + 1)).drop base))
          rw [← hst']
        · show T.isDirOriented _ = T.isDirOriented (T.feed init ((contig.take (pos + 1)).drop base))
          rw [← hst']
        · show CutState T init contig ws (if ws = true then pos + 1 else base) _
          cases ws with
          | false =>
            simp only [Bool.false_eq_true, if_false]
            exact ih _ (pos + 1) base (by omega) hdrop' hst'
          | true =>
            simp only [if_true]
            apply ih _ (pos + 1) (pos + 1) (Nat.le_refl _) hdrop'
            have hlen' : (contig.take (pos + 1)).length = pos + 1 := by simp; omega
            rw [List.drop_of_length_le (by omega)]
            have hR := feed_R hT ((contig.take (pos + 1)).drop base) init 0 h0
            rw [← hst'] at hR
            exact hreset rfl _ _ hR
      · exact ih _ (pos + 1) base (by omega) hdrop' hst'

theorem finalSegments_cases (ws : Bool) (contig : List UInt8) (s : Nat) (f : UInt64) (fd : Bool) :
    finalSegments ws contig s f fd = [] ∨ ∃ x, finalSegments ws contig s f fd = [x] := by
  unfold finalSegments
  by_cases h : s < contig.length
  · by_cases h' : (contig.drop s).isEmpty = true
    · left; simp [h, h']
    · right; simp [h, h']
  · left; simp [h]

/-- What C20 (`slide_eq_scratch`) provides for the `Kmer` tracker: after scanning any sequence
    that ends with `k` bases `w`, the value is a function `canon` of `w` alone. -/
def WindowExact (T : Tracker σ) (init : σ) (k : Nat) (canon : List UInt8 → UInt64) : Prop :=
  ∀ (pre w : List UInt8), w.length = k → (∀ x ∈ w, x ≤ 3) → T.data (T.feed init (pre ++ w)) = canon w

/-- The window of a split ending at offset `e`: `contig[e-k..e]`. -/
def windowAt (contig : List UInt8) (k e : Nat) : List UInt8 := (contig.take e).drop (e - k)

theorem cutState_window {T : Tracker σ} {k : Nat} {R : σ → Nat → Prop} (hT : T.Window k R) (init : σ)
    (h0 : R init 0) (canon : List UInt8 → UInt64) (hexact : WindowExact T init k canon)
    (contig : List UInt8) (ws : Bool) (hk : 1 ≤ k) :
    ∀ (cs : List Cut) (base lo : Nat), CutsOK k contig.length lo cs → CutState T init contig ws base cs →
      ∀ c ∈ cs, (windowAt contig k c.e).length = k ∧ (∀ x ∈ windowAt contig k c.e, x ≤ 3) ∧
        c.v = canon (windowAt contig k c.e) := by
  intro cs
  induction cs with
  | nil => intro _ _ _ _ c hc; cases hc
  | cons c cs ih =>
    intro base lo ⟨_, hkc, hcl, hok⟩ ⟨⟨hfull, hv, _⟩, hrest⟩ c' hc'
    cases hc' with
    | tail _ hc' => exact ih _ _ hok hrest c' hc'
    | head =>
      have hlen : (contig.take c.e).length = c.e := by simp; omega
      obtain ⟨hkl, hacgt⟩ := full_suffix hT init h0 _ hfull
      have hll : ((contig.take c.e).drop base).length = c.e - base := by simp; omega
      rw [hll] at hkl hacgt
      have hw : ((contig.take c.e).drop base).drop (c.e - base - k) = windowAt contig k c.e := by
        unfold windowAt
        rw [List.drop_drop]; congr 1; omega
      rw [hw] at hacgt
      have hwl : (windowAt contig k c.e).length = k := by
        unfold windowAt; simp only [List.length_drop, hlen]; omega
      refine ⟨hwl, hacgt, ?_⟩
      rw [hv]
      have hsplit : (contig.take c.e).drop base =
          ((contig.take c.e).drop base).take (c.e - base - k) ++ windowAt contig k c.e := by
        rw [← hw, List.take_append_drop]
      rw [hsplit]
      exact hexact _ _ hwl hacgt

/-- Segment-level form: every non-final segment ends with `k` bases and its back k-mer is `canon`
    of them. -/
def BackWin (canon : List UInt8 → UInt64) (k : Nat) : List Segment → Prop
  | [] => True
  | [_] => True
  | a :: b :: rest =>
    (k ≤ a.data.length ∧ (∀ x ∈ a.data.drop (a.data.length - k), x ≤ 3) ∧
      a.backKmer = canon (a.data.drop (a.data.length - k))) ∧ BackWin canon k (b :: rest)

theorem build_backWin (canon : List UInt8 → UInt64) (ws : Bool) (k : Nat) (contig : List UInt8) (hk : 1 ≤ k) :
    ∀ (cs : List Cut) (s lo : Nat) (f : UInt64) (fd : Bool), (s + k ≤ lo ∨ s = 0) →
      CutsOK k contig.length lo cs →
      (∀ c ∈ cs, (windowAt contig k c.e).length = k ∧ (∀ x ∈ windowAt contig k c.e, x ≤ 3) ∧
        c.v = canon (windowAt contig k c.e)) →
      BackWin canon k (build ws k contig s f fd cs) := by
  intro cs
  induction cs with
  | nil =>
    intro s lo f fd _ _ _
    rw [build]
    rcases finalSegments_cases ws contig s f fd with h | ⟨x, h⟩ <;> rw [h] <;> simp [BackWin]
  | cons c cs ih =>
    intro s lo f fd hs ⟨hlo, hkc, hcl, hok⟩ hwin
    have hne := build_ne_nil ws k contig (c.e - k) c.v c.d cs (by omega)
    have hih := ih (c.e - k) c.e c.v c.d (Or.inl (by omega)) hok
      (fun c' hc' => hwin c' (List.mem_cons_of_mem _ hc'))
    rw [build]
    cases hb : build ws k contig (c.e - k) c.v c.d cs with
    | nil => exact absurd hb hne
    | cons t rest =>
      rw [hb] at hih
      refine ⟨?_, hih⟩
      have hsk : s + k ≤ c.e := by rcases hs with h | h <;> omega
      have hlen : ((contig.drop s).take (c.e - s)).length = c.e - s := by simp; omega
      have hw : ((contig.drop s).take (c.e - s)).drop (c.e - s - k) = windowAt contig k c.e := by
        unfold windowAt
        rw [slice_eq_take_drop, List.drop_drop]; congr 1; omega
      obtain ⟨_, h2, h3⟩ := hwin c (List.mem_cons_self ..)
      show k ≤ ((contig.drop s).take (c.e - s)).length ∧ _ ∧ c.v = _
      rw [hlen, hw]
      exact ⟨by omega, h2, h3⟩

theorem BackWin.at {canon : List UInt8 → UInt64} {k : Nat} :
    ∀ {pre : List Segment} {a b : Segment} {post : List Segment},
      BackWin canon k (pre ++ a :: b :: post) →
      k ≤ a.data.length ∧ (∀ x ∈ a.data.drop (a.data.length - k), x ≤ 3) ∧
        a.backKmer = canon (a.data.drop (a.data.length - k)) := by
  intro pre
  induction pre with
  | nil => intro a b post h; exact h.1
  | cons p pre ih =>
    intro a b post h
    cases pre with
    | nil => exact ih h.2
    | cons q pre => exact ih h.2

/-- Segment-level form of `CutState` for `with_size`: the back k-mer of a non-final segment is the
    tracker's value after scanning, from a fresh state, the segment's own new symbols (all of the
    first segment; a later segment without its `k` overlap symbols). -/
def BackStates (T : Tracker σ) (init : σ) (k : Nat) : Bool → List Segment → Prop
  | _, [] => True
  | _, [_] => True
  | first, a :: b :: rest =>
    (T.isFull (T.feed init (if first then a.data else a.data.drop k)) = true ∧
      a.backKmer = T.data (T.feed init (if first then a.data else a.data.drop k)) ∧
      a.backKmerIsDir = T.isDirOriented (T.feed init (if first then a.data else a.data.drop k))) ∧
    BackStates T init k false (b :: rest)

theorem build_backStates (T : Tracker σ) (init : σ) (k : Nat) (contig : List UInt8) (hk : 1 ≤ k) :
    ∀ (cs : List Cut) (base : Nat) (first : Bool) (f : UInt64) (fd : Bool),
      (first = true → base = 0) → (first = false → k ≤ base) →
      CutsOK k contig.length base cs → CutState T init contig true base cs →
      BackStates T init k first (build true k contig (base - k) f fd cs) := by
  intro cs
  induction cs with
  | nil =>
    intro base first f fd _ _ _ _
    rw [build]
    rcases finalSegments_cases true contig (base - k) f fd with h | ⟨x, h⟩ <;> rw [h] <;> simp [BackStates]
  | cons c cs ih =>
    intro base first f fd hf1 hf2 ⟨hlo, hkc, hcl, hok⟩ ⟨hst, hrest⟩
    have hne := build_ne_nil true k contig (c.e - k) c.v c.d cs (by omega)
    simp only [if_true] at hrest
    have hih := ih c.e false c.v c.d (by simp) (fun _ => hkc) hok hrest
    rw [build]
    cases hb : build true k contig (c.e - k) c.v c.d cs with
    | nil => exact absurd hb hne
    | cons t rest =>
      rw [hb] at hih
      refine ⟨?_, hih⟩
      have hw : (if first = true then (contig.drop (base - k)).take (c.e - (base - k))
                 else ((contig.drop (base - k)).take (c.e - (base - k))).drop k)
                = (contig.take c.e).drop base := by
        cases first with
        | true =>
          have := hf1 rfl
          subst this
          simp
        | false =>
          have := hf2 rfl
          simp only [Bool.false_eq_true, if_false]
          rw [slice_eq_take_drop, List.drop_drop]; congr 1; omega
      show T.isFull (T.feed init (if first = true then _ else _)) = true ∧ c.v = _ ∧ c.d = _
      rw [hw]
      exact hst

theorem BackStates.at_later {T : Tracker σ} {init : σ} {k : Nat} :
    ∀ {pre : List Segment} {a b : Segment} {post : List Segment},
      BackStates T init k false (pre ++ a :: b :: post) →
      T.isFull (T.feed init (a.data.drop k)) = true ∧ a.backKmer = T.data (T.feed init (a.data.drop k)) ∧
        a.backKmerIsDir = T.isDirOriented (T.feed init (a.data.drop k)) := by
  intro pre
  induction pre with
  | nil => intro a b post h; simpa using h.1
  | cons p pre ih =>
    intro a b post h
    cases pre with
    | nil => exact ih h.2
    | cons q pre => exact ih h.2

theorem BackStates.at {T : Tracker σ} {init : σ} {k : Nat}
    {pre : List Segment} {a b : Segment} {post : List Segment}
    (h : BackStates T init k true (pre ++ a :: b :: post)) :
    T.isFull (T.feed init (if pre = [] then a.data else a.data.drop k)) = true ∧
      a.backKmer = T.data (T.feed init (if pre = [] then a.data else a.data.drop k)) ∧
      a.backKmerIsDir = T.isDirOriented (T.feed init (if pre = [] then a.data else a.data.drop k)) := by
  cases pre with
  | nil => simpa using h.1
  | cons p pre =>
    simp only [reduceCtorEq, if_false]
    cases pre with
    | nil => exact BackStates.at_later (pre := []) h.2
    | cons q pre => exact BackStates.at_later (pre := q :: pre) h.2

theorem splitConcrete_some {ws : Bool} {contig : List UInt8} {isSplitter : UInt64 → Bool} {k : Nat}
    (hk : 1 ≤ k) (hk32 : k ≤ 32) {segs : List Segment}
    (h : splitConcrete ws contig isSplitter k = some segs) :
    splitGeneric kmerTracker (Ragc.Kmer.new k) isSplitter ws k contig = some segs := by
  rw [← splitConcrete_eq ws contig isSplitter k hk hk32]; exact h

theorem enum_kmer_eq (contig : List UInt8) (k : Nat) (hl : k ≤ contig.length) :
    kmerTracker.enum (Ragc.Kmer.new k) contig =
      Ragc.Kmer.enumerateKmers (contig.map UInt8.toUInt64) k := by
  unfold Ragc.Kmer.enumerateKmers
  rw [enum_kmerTracker]
  have : ¬ (contig.map UInt8.toUInt64).length < k := by simp; omega
  rw [if_neg this]

/-! ### Concrete witnesses used by the non-vacuity examples of `Props/C10.lean` -/

/-- `ACA N CCACGGGACT` -/
def exContig : List UInt8 := [0, 1, 0, 4, 1, 1, 0, 1, 2, 2, 2, 0, 1, 3]

/-- canonical 3-mers `ACG`, `CCC` (= `GGG`), `GAC`: occurrences end at offsets 9, 11 and 13;
    the one at 11 overlaps the split at 9. -/
def exSpl : UInt64 → Bool :=
  fun v => v == 1729382256910270464 || v == 6052837899185946624 || v == 9511602413006487552

def exSegsWs : List Segment :=
  [{ data := [0, 1, 0, 4, 1, 1, 0, 1, 2], frontKmer := MISSING_KMER, backKmer := 1729382256910270464,
     frontKmerIsDir := false, backKmerIsDir := true },
   { data := [0, 1, 2, 2, 2, 0, 1], frontKmer := 1729382256910270464, backKmer := 9511602413006487552,
     frontKmerIsDir := true, backKmerIsDir := true },
   { data := [2, 0, 1, 3], frontKmer := 9511602413006487552, backKmer := MISSING_KMER,
     frontKmerIsDir := true, backKmerIsDir := false }]

def exSegsPlain : List Segment :=
  [{ data := [0, 1, 0, 4, 1, 1, 0, 1, 2], frontKmer := MISSING_KMER, backKmer := 1729382256910270464,
     frontKmerIsDir := false, backKmerIsDir := true },
   { data := [0, 1, 2, 2, 2], frontKmer := 1729382256910270464, backKmer := 6052837899185946624,
     frontKmerIsDir := true, backKmerIsDir := false },
   { data := [2, 2, 2, 0, 1], frontKmer := 6052837899185946624, backKmer := 9511602413006487552,
     frontKmerIsDir := false, backKmerIsDir := true },
   { data := [2, 0, 1, 3], frontKmer := 9511602413006487552, backKmer := MISSING_KMER,
     frontKmerIsDir := true, backKmerIsDir := false }]

theorem ex_ws : splitAtSplittersWithSize exContig exSpl 3 20 = some exSegsWs := by decide
theorem ex_plain : splitAtSplitters exContig exSpl 3 = some exSegsPlain := by decide

theorem ex_ws_generic :
    splitGeneric kmerTracker (Ragc.Kmer.new 3) exSpl true 3 exContig = some exSegsWs :=
  splitConcrete_some (by decide) (by decide) ex_ws

/-- A toy tracker (a saturating counter whose value is always 7) showing that the hypotheses of the
    tracker-generic theorems (`Tracker.Window`, reset-to-fresh, `WindowExact`) are jointly satisfiable. -/
def countTracker (k : Nat) : Tracker Nat where
  reset := fun _ => 0
  insert := fun n _ => if n = k then n else n + 1
  isFull := fun n => n == k
  data := fun _ => 7
  isDirOriented := fun _ => true

theorem countTracker_window (k : Nat) : (countTracker k).Window k (fun s n => s ≤ n) where
  mono := fun _ _ _ h hle => Nat.le_trans h hle
  reset := fun _ _ _ => Nat.le_refl _
  insert := by
    intro s n b h
    show (if s = k then s else s + 1) ≤ n + 1
    split <;> omega
  full := by
    intro s n h hf
    have : s = k := by simpa [countTracker] using hf
    omega

theorem countTracker_exact (k : Nat) : WindowExact (countTracker k) 0 k (fun _ => 7) :=
  fun _ _ _ _ => rfl

def exSegsCount : List Segment :=
  [{ data := [0, 1], frontKmer := MISSING_KMER, backKmer := 7, frontKmerIsDir := false, backKmerIsDir := true },
   { data := [0, 1, 4, 3, 0], frontKmer := 7, backKmer := 7, frontKmerIsDir := true, backKmerIsDir := true },
   { data := [3, 0, 9], frontKmer := 7, backKmer := MISSING_KMER, frontKmerIsDir := true, backKmerIsDir := false }]

theorem ex_count : splitGeneric (countTracker 2) 0 (fun v => v == 7) true 2 [0, 1, 4, 3, 0, 9] = some exSegsCount := by
  decide

end Ragc.Segment
