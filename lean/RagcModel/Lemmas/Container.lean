import RagcModel.Model.Container
import RagcModel.Lemmas.Varint
/-! Helper lemmas about `Model/Container.lean`: footer codec round trip, writer invariant
(Appendix A.3), refinement of the commit log, totality of the repaired reader. -/
namespace Ragc.Container
open Ragc.Varint

@[simp] theorem Outcome.ok_bind {α β : Type} (a : α) (f : α → Outcome β) :
    (Outcome.ok a).bind f = f a := rfl
@[simp] theorem Outcome.err_bind {α β : Type} (f : α → Outcome β) :
    (Outcome.err : Outcome α).bind f = .err := rfl
@[simp] theorem Outcome.panic_bind {α β : Type} (s : String) (f : α → Outcome β) :
    (Outcome.panic s : Outcome α).bind f = .panic s := rfl
@[simp] theorem Outcome.alloc_bind {α β : Type} (n : Nat) (f : α → Outcome β) :
    (Outcome.alloc n : Outcome α).bind f = .alloc n := rfl

/-- A varint reader that decodes what `writeVarint` wrote (for real `u64` values). -/
def GoodRV (rv : VarintReader) : Prop :=
  ∀ v r, v < 2 ^ 64 → rv (writeVarint v ++ r) = .ok (v, r)

theorem goodRV_readVarintO (env : Env) : GoodRV (readVarintO env) := by
  intro v r h
  simp [readVarintO, readVarint_writeVarint v r h, countOverflows_writeVarint v r h]

theorem goodRV_readVarintFixed : GoodRV readVarintFixed := by
  intro v r h
  simp [readVarintFixed, readVarint_writeVarint v r h]

/-! ### Footer codec -/

theorem readCStr_append (name r : List Nat) (h : ∀ b ∈ name, b ≠ 0) :
    readCStr (name ++ 0 :: r) = some (name, r) := by
  induction name with
  | nil => simp [readCStr]
  | cons b name ih =>
    have hb : b ≠ 0 := h b (by simp)
    have := ih (fun x hx => h x (by simp [hx]))
    simp [readCStr, hb, this]

def PartOK (p : Part) : Prop := p.off < 2 ^ 64 ∧ p.size < 2 ^ 64

def StreamOK (st : Stream) : Prop :=
  (∀ b ∈ st.name, b ≠ 0) ∧ st.rawSize < 2 ^ 64 ∧ st.parts.length < 2 ^ 64 ∧ ∀ p ∈ st.parts, PartOK p

theorem readParts_serialize {rv : VarintReader} (hg : GoodRV rv) (ps : List Part) (r : List Nat)
    (h : ∀ p ∈ ps, PartOK p) :
    readParts rv ps.length (ps.flatMap (fun p => writeVarint p.off ++ writeVarint p.size) ++ r)
      = .ok (ps, r) := by
  induction ps with
  | nil => simp [readParts]
  | cons p ps ih =>
    have hp := h p (by simp)
    have := ih (fun x hx => h x (by simp [hx]))
    simp only [List.length_cons, readParts, List.flatMap_cons, List.append_assoc]
    rw [hg _ _ hp.1]; simp only [Outcome.ok_bind]
    rw [hg _ _ hp.2]; simp only [Outcome.ok_bind]
    rw [this]; simp

theorem readStreams_serialize {rv : VarintReader} (hg : GoodRV rv) (ss : List Stream) (r : List Nat)
    (h : ∀ st ∈ ss, StreamOK st) :
    readStreams rv ss.length (ss.flatMap serializeStream ++ r) = .ok (ss, r) := by
  induction ss with
  | nil => simp [readStreams]
  | cons st ss ih =>
    obtain ⟨hn, hr, hl, hp⟩ := h st (by simp)
    have := ih (fun x hx => h x (by simp [hx]))
    simp only [List.length_cons, readStreams, List.flatMap_cons, serializeStream,
      List.append_assoc, List.cons_append]
    rw [readCStr_append _ _ hn]; simp only []
    rw [hg _ _ hl]; simp only [Outcome.ok_bind]
    rw [hg _ _ hr]; simp only [Outcome.ok_bind]
    rw [readParts_serialize hg _ _ hp]; simp only [Outcome.ok_bind]
    rw [this]; simp

theorem parseFooter_serialize {rv : VarintReader} (hg : GoodRV rv) (ss : List Stream) (r : List Nat)
    (hlen : ss.length < 2 ^ 64) (h : ∀ st ∈ ss, StreamOK st) :
    parseFooter rv (serializeFooter ss ++ r) = .ok ss := by
  simp only [parseFooter, serializeFooter, List.append_assoc]
  rw [hg _ _ hlen]; simp only [Outcome.ok_bind]
  rw [readStreams_serialize hg _ _ h]; simp


/-! ### List helpers -/

theorem map_modify_of_eq {α β : Type} (g : α → β) (f : α → α) (h : ∀ x, g (f x) = g x)
    (l : List α) (i : Nat) : (l.modify i f).map g = l.map g := by
  induction l generalizing i with
  | nil => simp
  | cons x l ih =>
    cases i with
    | zero => simp [h]
    | succ i => simp [ih]

theorem mem_modify {α : Type} {f : α → α} {l : List α} {i : Nat} {x : α}
    (hx : x ∈ l.modify i f) : x ∈ l ∨ ∃ y ∈ l, x = f y := by
  induction l generalizing i with
  | nil => simp at hx
  | cons a l ih =>
    cases i with
    | zero =>
      simp only [List.modify_zero_cons, List.mem_cons] at hx
      rcases hx with rfl | hx
      · exact Or.inr ⟨a, by simp, rfl⟩
      · exact Or.inl (by simp [hx])
    | succ i =>
      simp only [List.modify_succ_cons, List.mem_cons] at hx
      rcases hx with rfl | hx
      · exact Or.inl (by simp)
      · rcases ih hx with h | ⟨y, hy, rfl⟩
        · exact Or.inl (by simp [h])
        · exact Or.inr ⟨y, by simp [hy], rfl⟩

theorem mem_insertStable {x y : Nat × Blob} {l : List (Nat × Blob)} :
    y ∈ insertStable x l ↔ y = x ∨ y ∈ l := by
  induction l with
  | nil => simp [insertStable]
  | cons z l ih =>
    simp only [insertStable]
    split
    · simp
    · simp only [List.mem_cons, ih]
      constructor
      · rintro (h | h | h) <;> simp [h]
      · rintro (h | h | h) <;> simp [h]

theorem mem_foldl_insertStable {y : Nat × Blob} (p acc : List (Nat × Blob)) :
    y ∈ p.foldl (fun acc x => insertStable x acc) acc ↔ y ∈ acc ∨ y ∈ p := by
  induction p generalizing acc with
  | nil => simp
  | cons x p ih =>
    simp only [List.foldl_cons, ih, mem_insertStable, List.mem_cons]
    constructor
    · rintro ((h | h) | h) <;> simp [h]
    · rintro (h | h | h) <;> simp [h]

theorem mem_ordered {y : Nat × Blob} {p : List (Nat × Blob)} : y ∈ Spec.ordered p ↔ y ∈ p := by
  simp [Spec.ordered, mem_foldl_insertStable]

theorem ordered_append (p : List (Nat × Blob)) (x : Nat × Blob) :
    Spec.ordered (p ++ [x]) = insertStable x (Spec.ordered p) := by
  simp [Spec.ordered, List.foldl_append]

/-! ### Writer invariant (DESIGN Appendix A.3) -/

/-- The part record `p` frames blob `b` inside the written bytes `w`. -/
def Framed (w : List Nat) (p : Part) (b : Blob) : Prop :=
  p.size = b.1.length ∧ ∃ rest, w.drop p.off = writeVarint b.2 ++ (b.1 ++ rest)

/-- A stream's part records frame its committed blobs, in order. -/
def PartsMatch (w : List Nat) (ps : List Part) (bl : List Blob) : Prop :=
  ps.length = bl.length ∧
    ∀ (i : Nat) (p : Part) (b : Blob), ps[i]? = some p → bl[i]? = some b → Framed w p b

theorem Framed.off_lt {w : List Nat} {p : Part} {b : Blob} (h : Framed w p b) :
    p.off < w.length := by
  obtain ⟨_, rest, hr⟩ := h
  rcases Nat.lt_or_ge p.off w.length with h | h
  · exact h
  · rw [List.drop_of_length_le h] at hr
    exact absurd hr.symm (by simp [writeVarint_ne_nil])

theorem Framed.end_le {w : List Nat} {p : Part} {b : Blob} (h : Framed w p b) :
    p.off + p.size < w.length := by
  have hlt := h.off_lt
  obtain ⟨hs, rest, hr⟩ := h
  have := congrArg List.length hr
  simp [writeVarint_length] at this
  omega

theorem Framed.append {w : List Nat} {p : Part} {b : Blob} (h : Framed w p b) (e : List Nat) :
    Framed (w ++ e) p b := by
  have hlt := h.off_lt
  obtain ⟨hs, rest, hr⟩ := h
  refine ⟨hs, rest ++ e, ?_⟩
  rw [List.drop_append_of_le_length (by omega), hr]; simp

theorem PartsMatch.append {w : List Nat} {ps : List Part} {bl : List Blob}
    (h : PartsMatch w ps bl) (e : List Nat) : PartsMatch (w ++ e) ps bl :=
  ⟨h.1, fun i p b hp hb => (h.2 i p b hp hb).append e⟩

theorem PartsMatch.snoc {w : List Nat} {ps : List Part} {bl : List Blob}
    (h : PartsMatch w ps bl) {p : Part} {b : Blob} (hf : Framed w p b) :
    PartsMatch w (ps ++ [p]) (bl ++ [b]) := by
  refine ⟨by simp [h.1], fun i q c hq hc => ?_⟩
  rcases Nat.lt_or_ge i ps.length with hi | hi
  · rw [List.getElem?_append_left hi] at hq
    rw [List.getElem?_append_left (by rw [← h.1]; exact hi)] at hc
    exact h.2 i q c hq hc
  · rw [List.getElem?_append_right hi] at hq
    rw [List.getElem?_append_right (by rw [← h.1]; exact hi)] at hc
    have hi0 : i - ps.length = 0 := by
      rcases Nat.eq_zero_or_pos (i - ps.length) with h0 | h0
      · exact h0
      · rw [List.getElem?_eq_none (by simp; omega)] at hq; simp at hq
    rw [hi0] at hq
    rw [← h.1, hi0] at hc
    simp at hq hc
    subst hq hc
    exact hf

theorem PartsMatch.nil (w : List Nat) : PartsMatch w [] [] := ⟨rfl, by simp⟩

/-- The simulation relation between the writer state and the abstract log. -/
structure Rel (s : State) (a : Spec.Log) : Prop where
  names : a.names = s.streams.map (·.name)
  nodup : a.names.Nodup
  off : s.fOffset = s.written.length
  len : a.parts.length = s.streams.length
  parts : ∀ (i : Nat) (st : Stream) (bl : List Blob), s.streams[i]? = some st → a.parts[i]? = some bl →
    PartsMatch s.written st.parts bl
  buf : s.buffer = Spec.ordered a.pending
  metaOK : ∀ bl ∈ a.parts, ∀ b ∈ bl, b.2 < 2 ^ 64
  pendOK : ∀ x ∈ a.pending, x.2.2 < 2 ^ 64
  nameOK : ∀ n ∈ a.names, ∀ b ∈ n, b ≠ 0
  rawOK : ∀ st ∈ s.streams, st.rawSize < 2 ^ 64
  cnt : ∀ st ∈ s.streams, st.parts.length ≤ s.written.length

theorem Rel.init : Rel State.init Spec.Log.init := by
  constructor <;> simp [State.init, Spec.Log.init, Spec.ordered]

theorem Rel.namesLen {s : State} {a : Spec.Log} (h : Rel s a) :
    a.names.length = s.streams.length := by rw [h.names]; simp

theorem findStream_eq_none {ss : List Stream} {name : List Nat} :
    findStream ss name = none ↔ name ∉ ss.map (·.name) := by
  simp only [findStream, List.findIdx?_eq_none_iff, List.mem_map, not_exists, not_and]
  constructor
  · intro h st hst he; have := h st hst; simp [he] at this
  · intro h st hst; have := h st hst; simpa using this

theorem rel_register {s : State} {a : Spec.Log} (h : Rel s a) (name : List Nat)
    (hn : ∀ b ∈ name, b ≠ 0) :
    Rel (registerStream s name).1 (Spec.step a (.register name)) := by
  simp only [registerStream, Spec.step]
  cases hf : findStream s.streams name with
  | some id =>
    have : name ∈ a.names := by
      rw [h.names]
      by_cases hm : name ∈ s.streams.map (·.name)
      · exact hm
      · rw [findStream_eq_none.mpr hm] at hf; simp at hf
    simpa [this] using h
  | none =>
    have hnot : name ∉ a.names := by rw [h.names]; exact findStream_eq_none.mp hf
    simp only [hnot, if_false]
    constructor
    · simp [h.names]
    · simp only []
      rw [List.nodup_append]
      exact ⟨h.nodup, by simp, by intro x hx y hy; simp at hy; subst hy; intro he; subst he; exact hnot hx⟩
    · exact h.off
    · simp [h.len]
    · intro i st bl hst hbl
      simp only [] at hst hbl
      rcases Nat.lt_or_ge i s.streams.length with hi | hi
      · rw [List.getElem?_append_left hi] at hst
        rw [List.getElem?_append_left (by rw [h.len]; exact hi)] at hbl
        exact h.parts i st bl hst hbl
      · rw [List.getElem?_append_right hi] at hst
        rw [List.getElem?_append_right (by rw [h.len]; exact hi)] at hbl
        have hi0 : i - s.streams.length = 0 := by
          rcases Nat.eq_zero_or_pos (i - s.streams.length) with h0 | h0
          · exact h0
          · rw [List.getElem?_eq_none (by simp; omega)] at hst; simp at hst
        rw [hi0] at hst
        rw [h.len, hi0] at hbl
        simp at hst hbl
        subst hst hbl
        exact PartsMatch.nil _
    · exact h.buf
    · intro bl hbl b hb
      simp only [List.mem_append, List.mem_singleton] at hbl
      rcases hbl with hbl | rfl
      · exact h.metaOK bl hbl b hb
      · simp at hb
    · exact h.pendOK
    · intro n hn' b hb
      simp only [List.mem_append, List.mem_singleton] at hn'
      rcases hn' with hn' | rfl
      · exact h.nameOK n hn' b hb
      · exact hn b hb
    · intro st hst
      simp only [List.mem_append, List.mem_singleton] at hst
      rcases hst with hst | rfl
      · exact h.rawOK st hst
      · simp
    · intro st hst
      simp only [List.mem_append, List.mem_singleton] at hst
      rcases hst with hst | rfl
      · exact h.cnt st hst
      · simp

/-- One immediate part: the concrete `add_part` and the abstract `commit` agree. -/
theorem rel_addPart {s : State} {a : Spec.Log} (h : Rel s a) (sid : Nat) (d : List Nat) (m : Nat)
    (hm : m < 2 ^ 64) :
    match addPart s sid d m, Spec.commit a sid (d, m) with
    | some s', some a' => Rel s' a' ∧ a'.pending = a.pending ∧ s'.buffer = s.buffer
    | none, none => True
    | _, _ => False := by
  simp only [addPart, Spec.commit, h.namesLen]
  by_cases hs : sid < s.streams.length
  · simp only [hs, if_true]
    refine ⟨?_, by trivial, by trivial⟩
    constructor
    · simp only []
      rw [h.names]; symm; apply map_modify_of_eq; intro x; rfl
    · exact h.nodup
    · simp [h.off]; omega
    · simp [h.len]
    · intro i st bl hst hbl
      simp only [List.getElem?_modify] at hst hbl
      cases hs0 : s.streams[i]? with
      | none => simp [hs0] at hst
      | some st0 =>
        cases hb0 : a.parts[i]? with
        | none => simp [hb0] at hbl
        | some bl0 =>
          have hm0 := h.parts i st0 bl0 hs0 hb0
          simp only [hs0, hb0, Option.map_eq_map, Option.map_some, Option.some.injEq] at hst hbl
          by_cases hi : sid = i
          · simp only [hi, if_true] at hst hbl
            subst hst hbl
            refine (hm0.append _).snoc ⟨rfl, [], ?_⟩
            simp [h.off]
          · simp only [hi, if_false] at hst hbl
            subst hst hbl
            exact hm0.append _
    · exact h.buf
    · intro bl hbl b hb
      rcases mem_modify hbl with hbl | ⟨bl0, hbl0, rfl⟩
      · exact h.metaOK bl hbl b hb
      · simp only [List.mem_append, List.mem_singleton] at hb
        rcases hb with hb | rfl
        · exact h.metaOK bl0 hbl0 b hb
        · exact hm
    · exact h.pendOK
    · exact h.nameOK
    · intro st hst
      rcases mem_modify hst with hst | ⟨st0, hst0, rfl⟩
      · exact h.rawOK st hst
      · exact h.rawOK st0 hst0
    · intro st hst
      have hv := writeVarint_length m
      rcases mem_modify hst with hst | ⟨st0, hst0, rfl⟩
      · have := h.cnt st hst; simp; omega
      · have := h.cnt st0 hst0; simp; omega
  · simp [hs]

theorem rel_flushLoop {s : State} {a : Spec.Log} (h : Rel s a) (l : List (Nat × Blob))
    (hl : ∀ x ∈ l, x.2.2 < 2 ^ 64) :
    Rel (flushLoop s l).1 (Spec.commitLoop a l) := by
  induction l generalizing s a with
  | nil => simpa [flushLoop, Spec.commitLoop] using h
  | cons x l ih =>
    obtain ⟨sid, d, m⟩ := x
    have hx := rel_addPart h sid d m (hl (sid, d, m) (by simp))
    simp only [flushLoop, Spec.commitLoop]
    cases h1 : addPart s sid d m with
    | none =>
      cases h2 : Spec.commit a sid (d, m) with
      | none => simpa using h
      | some a' => simp [h1, h2] at hx
    | some s' =>
      cases h2 : Spec.commit a sid (d, m) with
      | none => simp [h1, h2] at hx
      | some a' =>
        simp only [h1, h2] at hx
        exact ih hx.1 (fun y hy => hl y (by simp [hy]))

theorem rel_step {s : State} {a : Spec.Log} (h : Rel s a) (op : Op) (hop : OpOK op) :
    Rel (step s op).1 (Spec.step a op) := by
  cases op with
  | register name => exact rel_register h name hop
  | add sid d m =>
    have hx := rel_addPart h sid d m hop
    simp only [step, Spec.step]
    cases h1 : addPart s sid d m with
    | none =>
      cases h2 : Spec.commit a sid (d, m) with
      | none => simpa using h
      | some a' => simp [h1, h2] at hx
    | some s' =>
      cases h2 : Spec.commit a sid (d, m) with
      | none => simp [h1, h2] at hx
      | some a' => simp only [h1, h2] at hx; simpa using hx.1
  | addBuf sid d m =>
    simp only [step, Spec.step, addPartBuffered]
    constructor
    · exact h.names
    · exact h.nodup
    · exact h.off
    · exact h.len
    · exact h.parts
    · simp only []; rw [ordered_append, h.buf]
    · exact h.metaOK
    · intro x hx
      simp only [List.mem_append, List.mem_singleton] at hx
      rcases hx with hx | rfl
      · exact h.pendOK x hx
      · exact hop
    · exact h.nameOK
    · exact h.rawOK
    · exact h.cnt
  | flush =>
    simp only [step, Spec.step, flushBuffers]
    rw [h.buf]
    apply rel_flushLoop
    · exact { h with buf := by simp [Spec.ordered], pendOK := by simp }
    · intro x hx; exact h.pendOK x (mem_ordered.mp hx)
  | setRaw sid v =>
    simp only [step, Spec.step, setRawSize]
    split
    · constructor
      · simp only []; rw [h.names]; symm; apply map_modify_of_eq; intro x; rfl
      · exact h.nodup
      · exact h.off
      · simp [h.len]
      · intro i st bl hst hbl
        simp only [List.getElem?_modify] at hst
        cases hs0 : s.streams[i]? with
        | none => simp [hs0] at hst
        | some st0 =>
          simp only [hs0, Option.map_eq_map, Option.map_some, Option.some.injEq] at hst
          have := h.parts i st0 bl hs0 hbl
          subst hst
          split <;> exact this
      · exact h.buf
      · exact h.metaOK
      · exact h.pendOK
      · exact h.nameOK
      · intro st hst
        rcases mem_modify hst with hst | ⟨st0, hst0, rfl⟩
        · exact h.rawOK st hst
        · exact hop
      · intro st hst
        rcases mem_modify hst with hst | ⟨st0, hst0, rfl⟩
        · exact h.cnt st hst
        · exact h.cnt st0 hst0
    · exact h

theorem rel_runFrom {s : State} {a : Spec.Log} (h : Rel s a) (ops : List Op)
    (hops : ∀ op ∈ ops, OpOK op) : Rel (runFrom s ops) (Spec.specFrom a ops) := by
  induction ops generalizing s a with
  | nil => simpa [runFrom, Spec.specFrom] using h
  | cons op ops ih =>
    simp only [runFrom, Spec.specFrom, List.foldl_cons]
    exact ih (rel_step h op (hops op (by simp))) (fun o ho => hops o (by simp [ho]))

theorem rel_run (ops : List Op) (hops : ∀ op ∈ ops, OpOK op) : Rel (run ops) (Spec.spec ops) :=
  rel_runFrom Rel.init ops hops


/-! ### Reading back what `close` wrote -/

theorem length_le_flatMap_serializeStream (ss : List Stream) :
    ss.length ≤ (ss.flatMap serializeStream).length := by
  induction ss with
  | nil => simp
  | cons st ss ih =>
    simp only [List.length_cons, List.flatMap_cons, List.length_append]
    have : 1 ≤ (serializeStream st).length := by simp [serializeStream]; omega
    omega

theorem streams_length_le_footer (ss : List Stream) : ss.length ≤ (serializeFooter ss).length := by
  have := length_le_flatMap_serializeStream ss
  simp only [serializeFooter, List.length_append]; omega

theorem close_length (s : State) :
    (close s).length = s.written.length + (serializeFooter s.streams).length + 8 := by
  simp [close, le64_length]; omega

theorem Rel.streamOK {s : State} {a : Spec.Log} (h : Rel s a) (hw : s.written.length < 2 ^ 64) :
    ∀ st ∈ s.streams, StreamOK st := by
  intro st hst
  refine ⟨?_, h.rawOK st hst, ?_, ?_⟩
  · apply h.nameOK; rw [h.names]; exact List.mem_map.mpr ⟨st, hst, rfl⟩
  · have := h.cnt st hst; omega
  · intro p hp
    obtain ⟨i, hi, rfl⟩ := List.mem_iff_getElem.mp hst
    obtain ⟨j, hj, rfl⟩ := List.mem_iff_getElem.mp hp
    have hi' : i < a.parts.length := by rw [h.len]; exact hi
    have hm := h.parts i _ _ (List.getElem?_eq_getElem hi) (List.getElem?_eq_getElem hi')
    have hj' : j < (a.parts[i]).length := by rw [← hm.1]; exact hj
    have hf := hm.2 j _ _ (List.getElem?_eq_getElem hj) (List.getElem?_eq_getElem hj')
    have := hf.end_le
    exact ⟨by omega, by omega⟩

/-- Every part record of a reachable writer state lies inside the written bytes. -/
theorem Rel.part_in_written {s : State} {a : Spec.Log} (h : Rel s a) :
    ∀ st ∈ s.streams, ∀ p ∈ st.parts, p.off + p.size < s.written.length := by
  intro st hst p hp
  obtain ⟨i, hi, rfl⟩ := List.mem_iff_getElem.mp hst
  obtain ⟨j, hj, rfl⟩ := List.mem_iff_getElem.mp hp
  have hi' : i < a.parts.length := by rw [h.len]; exact hi
  have hm := h.parts i _ _ (List.getElem?_eq_getElem hi) (List.getElem?_eq_getElem hi')
  have hj' : j < (a.parts[i]).length := by rw [← hm.1]; exact hj
  exact (hm.2 j _ _ (List.getElem?_eq_getElem hj) (List.getElem?_eq_getElem hj')).end_le

theorem close_drop_tail (s : State) :
    (close s).drop ((close s).length - 8) = le64 (serializeFooter s.streams).length := by
  have h1 : (close s).length - 8 = (s.written ++ serializeFooter s.streams).length := by
    rw [close_length]; simp
  rw [h1]
  have : close s = (s.written ++ serializeFooter s.streams) ++ le64 (serializeFooter s.streams).length := by
    simp [close]
  rw [this, List.drop_left]

theorem close_footer (s : State) :
    ((close s).drop s.written.length).take (serializeFooter s.streams).length
      = serializeFooter s.streams := by
  simp [close]

/-- Opening the closed file yields exactly the writer's directory (both profiles). -/
theorem openBytes_close {s : State} {a : Spec.Log} (h : Rel s a) (env : Env)
    (hmax : env.seekMax < 2 ^ 63) (hfile : (close s).length ≤ env.seekMax) :
    openBytes env (close s) = .ok ⟨close s, s.streams, List.replicate s.streams.length 0⟩ := by
  have hl := close_length s
  have hF : (serializeFooter s.streams).length < 2 ^ 64 := by omega
  have hw : s.written.length < 2 ^ 64 := by omega
  have hpos : ((close s).length - 8 + 2 ^ 64 - (serializeFooter s.streams).length) % 2 ^ 64
      = s.written.length := by omega
  have hparse := parseFooter_serialize (goodRV_readVarintO env) s.streams []
    (by have := streams_length_le_footer s.streams; omega) (h.streamOK hw)
  rw [List.append_nil] at hparse
  unfold openBytes
  simp only [close_drop_tail, leVal_le64 hF, hpos, close_footer, hparse, Outcome.ok_bind]
  rw [if_neg (by omega), if_neg (by simp; omega), if_neg (by omega), if_neg (by omega),
    if_neg (by omega)]

theorem partsInFile_close {s : State} {a : Spec.Log} (h : Rel s a) :
    partsInFile (close s).length s.streams = true := by
  simp only [partsInFile, List.all_eq_true, decide_eq_true_eq]
  intro st hst p hp
  have := h.part_in_written st hst p hp
  have := close_length s
  omega

/-- The repaired reader accepts every archive the writer produces. -/
theorem openBytesFixed_close {s : State} {a : Spec.Log} (h : Rel s a) (seekMax : Nat)
    (hmax : seekMax < 2 ^ 63) (hfile : (close s).length ≤ seekMax) :
    openBytesFixed seekMax (close s) = .ok ⟨close s, s.streams, List.replicate s.streams.length 0⟩ := by
  have hl := close_length s
  have hF : (serializeFooter s.streams).length < 2 ^ 64 := by omega
  have hw : s.written.length < 2 ^ 64 := by omega
  have hpos : (close s).length - 8 - (serializeFooter s.streams).length = s.written.length := by omega
  have hparse := parseFooter_serialize goodRV_readVarintFixed s.streams []
    (by have := streams_length_le_footer s.streams; omega) (h.streamOK hw)
  rw [List.append_nil] at hparse
  unfold openBytesFixed
  simp only [close_drop_tail, leVal_le64 hF, hpos, close_footer, hparse, Outcome.ok_bind,
    partsInFile_close h, if_true]
  rw [if_neg (by omega), if_neg (by omega), if_neg (by omega)]

theorem readPartData_framed {rv : VarintReader} (hg : GoodRV rv) {w : List Nat} {p : Part}
    {b : Blob} (hf : Framed w p b) (tail : List Nat) (seekMax : Nat)
    (hs : (w ++ tail).length ≤ seekMax) (hb : b.2 < 2 ^ 64) :
    readPartData rv seekMax (w ++ tail) p = .ok (Spec.readBack b) := by
  have hoff := hf.off_lt
  have hend := hf.end_le
  obtain ⟨hsz, rest, hr⟩ := hf
  obtain ⟨d, m⟩ := b
  simp only at hsz hr hb
  unfold readPartData
  by_cases h0 : p.size = 0
  · have : d = [] := List.eq_nil_of_length_eq_zero (by omega)
    simp [h0, Spec.readBack, this]
  · have hne : d ≠ [] := by intro hd; subst hd; simp at hsz; omega
    rw [if_neg h0, if_neg (by simp at hs; omega),
      List.drop_append_of_le_length (by omega), hr]
    simp only [List.append_assoc]
    rw [hg _ _ hb]
    simp only [Outcome.ok_bind]
    rw [if_neg (by simp at hs ⊢; omega), if_neg (by simp; omega)]
    simp [Spec.readBack, hne, hsz]

theorem getPartById_spec {s : State} {a : Spec.Log} (h : Rel s a) {rv : VarintReader}
    (hg : GoodRV rv) (r : Reader) (hfile : r.file = close s) (hdir : r.dir = s.streams)
    (seekMax : Nat) (hs : (close s).length ≤ seekMax) (sid pid : Nat) :
    getPartByIdWith rv seekMax r sid pid = Spec.byId a.parts sid pid := by
  unfold getPartByIdWith Spec.byId
  rw [hdir, hfile]
  cases hs0 : s.streams[sid]? with
  | none =>
    have := List.getElem?_eq_none_iff.mp hs0
    rw [List.getElem?_eq_none (by rw [h.len]; exact this)]
  | some st =>
    have hlt : sid < s.streams.length := (List.getElem?_eq_some_iff.mp hs0).1
    have hlt' : sid < a.parts.length := by rw [h.len]; exact hlt
    have hb0 := List.getElem?_eq_getElem hlt'
    have hm := h.parts sid st _ hs0 hb0
    rw [hb0]
    simp only
    cases hp0 : st.parts[pid]? with
    | none =>
      have := List.getElem?_eq_none_iff.mp hp0
      rw [List.getElem?_eq_none (by rw [← hm.1]; exact this)]
    | some p =>
      have hpl : pid < st.parts.length := (List.getElem?_eq_some_iff.mp hp0).1
      have hpl' : pid < (a.parts[sid]).length := by rw [← hm.1]; exact hpl
      have hc0 := List.getElem?_eq_getElem hpl'
      rw [hc0]
      simp only
      have hf := hm.2 pid p _ hp0 hc0
      have hmeta := h.metaOK _ (List.getElem_mem hlt') _ (List.getElem_mem hpl')
      exact readPartData_framed hg hf _ seekMax (by simpa [close] using hs) hmeta

theorem getPart_spec {s : State} {a : Spec.Log} (h : Rel s a) {rv : VarintReader}
    (hg : GoodRV rv) (r : Reader) (hfile : r.file = close s) (hdir : r.dir = s.streams)
    (seekMax : Nat) (hs : (close s).length ≤ seekMax) (sid : Nat) :
    getPartWith rv seekMax r sid =
      ({ r with cur := (Spec.next a.parts r.cur sid).1 }, (Spec.next a.parts r.cur sid).2) := by
  obtain ⟨file, dir, cur⟩ := r
  simp only at hfile hdir
  subst hfile hdir
  unfold getPartWith Spec.next
  simp only
  cases hs0 : s.streams[sid]? with
  | none =>
    have := List.getElem?_eq_none_iff.mp hs0
    rw [List.getElem?_eq_none (by rw [h.len]; exact this)]
  | some st =>
    have hlt : sid < s.streams.length := (List.getElem?_eq_some_iff.mp hs0).1
    have hlt' : sid < a.parts.length := by rw [h.len]; exact hlt
    have hb0 := List.getElem?_eq_getElem hlt'
    have hm := h.parts sid st _ hs0 hb0
    rw [hb0]
    simp only
    cases hp0 : st.parts[cur.getD sid 0]? with
    | none =>
      have := List.getElem?_eq_none_iff.mp hp0
      rw [List.getElem?_eq_none (by rw [← hm.1]; exact this)]
    | some p =>
      have hpl : cur.getD sid 0 < st.parts.length := (List.getElem?_eq_some_iff.mp hp0).1
      have hpl' : cur.getD sid 0 < (a.parts[sid]).length := by rw [← hm.1]; exact hpl
      have hc0 := List.getElem?_eq_getElem hpl'
      rw [hc0]
      simp only
      have hf := hm.2 _ p _ hp0 hc0
      have hmeta := h.metaOK _ (List.getElem_mem hlt') _ (List.getElem_mem hpl')
      rw [show close s = s.written ++ (serializeFooter s.streams ++
        le64 (serializeFooter s.streams).length) from rfl,
        readPartData_framed hg hf _ seekMax (by simpa [close] using hs) hmeta]
      simp

theorem runReads_spec {s : State} {a : Spec.Log} (h : Rel s a) (env : Env) (r : Reader)
    (hfile : r.file = close s) (hdir : r.dir = s.streams)
    (hs : (close s).length ≤ env.seekMax) (ops : List ReadOp) :
    runReads env r ops = Spec.reads a.parts r.cur ops := by
  induction ops generalizing r with
  | nil => simp [runReads, Spec.reads]
  | cons op ops ih =>
    cases op with
    | byId sid pid =>
      simp only [runReads, Spec.reads, getPartById]
      rw [getPartById_spec h (goodRV_readVarintO env) r hfile hdir _ hs, ih r hfile hdir]
    | next sid =>
      simp only [runReads, Spec.reads, getPart]
      rw [getPart_spec h (goodRV_readVarintO env) r hfile hdir _ hs]
      simp only
      rw [ih { r with cur := (Spec.next a.parts r.cur sid).1 } hfile hdir]

theorem lastIdx_not_mem (name : List Nat) (ss : List Stream) (i : Nat) (acc : Option Nat)
    (h : name ∉ ss.map (·.name)) : lastIdx name ss i acc = acc := by
  induction ss generalizing i acc with
  | nil => simp [lastIdx]
  | cons st ss ih =>
    simp only [List.map_cons, List.mem_cons, not_or] at h
    have hne : (st.name == name) = false := by simpa using fun e => h.1 e.symm
    simp only [lastIdx, hne]
    exact ih _ _ h.2

theorem lastIdx_of_getElem? (name : List Nat) (ss : List Stream) (i k : Nat) (acc : Option Nat)
    (hnd : (ss.map (·.name)).Nodup) (hk : (ss.map (·.name))[k]? = some name) :
    lastIdx name ss i acc = some (i + k) := by
  induction ss generalizing i k acc with
  | nil => simp at hk
  | cons st ss ih =>
    simp only [List.map_cons, List.nodup_cons] at hnd
    cases k with
    | zero =>
      simp only [List.map_cons, List.getElem?_cons_zero, Option.some.injEq] at hk
      simp only [lastIdx, hk, beq_self_eq_true, if_true]
      rw [lastIdx_not_mem _ _ _ _ (by rw [← hk]; exact hnd.1)]; simp
    | succ k =>
      simp only [List.map_cons, List.getElem?_cons_succ] at hk
      simp only [lastIdx]
      rw [ih (i + 1) k _ hnd.2 hk]; congr 1; omega


/-! ### Registration -/

theorem register_twice (s : State) (name : List Nat) :
    registerStream (registerStream s name).1 name
      = ((registerStream s name).1, (registerStream s name).2) := by
  cases hf : findStream s.streams name with
  | some id => simp [registerStream, hf]
  | none =>
    have : findStream (s.streams ++ [⟨name, 0, []⟩]) name = some s.streams.length := by
      simp only [findStream] at hf ⊢
      rw [List.findIdx?_append, hf]; simp [List.findIdx?_cons]
    simp [registerStream, hf, this]

/-! ### Commit order -/

theorem pairwise_insertStable (x : Nat × Blob) (l : List (Nat × Blob))
    (h : l.Pairwise (fun u v => u.1 ≤ v.1)) :
    (insertStable x l).Pairwise (fun u v => u.1 ≤ v.1) := by
  induction l with
  | nil => simp [insertStable]
  | cons y l ih =>
    rw [List.pairwise_cons] at h
    simp only [insertStable]
    split
    · rename_i hlt
      rw [List.pairwise_cons]
      refine ⟨?_, List.pairwise_cons.mpr h⟩
      intro z hz
      rcases List.mem_cons.mp hz with rfl | hz
      · omega
      · have := h.1 z hz; omega
    · rename_i hge
      rw [List.pairwise_cons]
      refine ⟨?_, ih h.2⟩
      intro z hz
      rcases mem_insertStable.mp hz with rfl | hz
      · omega
      · exact h.1 z hz

theorem filter_insertStable (x : Nat × Blob) (l : List (Nat × Blob)) (k : Nat)
    (h : l.Pairwise (fun u v => u.1 ≤ v.1)) :
    (insertStable x l).filter (fun y => y.1 == k)
      = l.filter (fun y => y.1 == k) ++ (if x.1 == k then [x] else []) := by
  induction l with
  | nil => simp [insertStable, List.filter_cons]
  | cons y l ih =>
    rw [List.pairwise_cons] at h
    simp only [insertStable]
    split
    · rename_i hlt
      by_cases hk : x.1 = k
      · have hnone : (y :: l).filter (fun z => z.1 == k) = [] := by
          rw [List.filter_eq_nil_iff]
          intro z hz
          rcases List.mem_cons.mp hz with rfl | hz
          · simp; omega
          · have := h.1 z hz; simp; omega
        rw [List.filter_cons, hnone]; simp [hk]
      · rw [List.filter_cons]; simp [hk]
    · rw [List.filter_cons, ih h.2, List.filter_cons]
      split <;> simp

theorem foldl_insertStable_spec (p acc : List (Nat × Blob)) (k : Nat)
    (h : acc.Pairwise (fun u v => u.1 ≤ v.1)) :
    (p.foldl (fun acc x => insertStable x acc) acc).Pairwise (fun u v => u.1 ≤ v.1) ∧
    (p.foldl (fun acc x => insertStable x acc) acc).filter (fun y => y.1 == k)
      = acc.filter (fun y => y.1 == k) ++ p.filter (fun y => y.1 == k) := by
  induction p generalizing acc with
  | nil => simp [h]
  | cons x p ih =>
    simp only [List.foldl_cons]
    have := ih (insertStable x acc) (pairwise_insertStable x acc h)
    refine ⟨this.1, ?_⟩
    rw [this.2, filter_insertStable x acc k h, List.filter_cons]
    split <;> simp

/-! ### The spec's own invariants and the effect of a flush per stream -/

theorem commitLoop_spec (l : List (Nat × Blob)) (a : Spec.Log) (k : Nat)
    (hlen : a.parts.length = a.names.length) (hv : ∀ x ∈ l, x.1 < a.names.length) :
    (Spec.commitLoop a l).names = a.names ∧ (Spec.commitLoop a l).pending = a.pending ∧
    (Spec.commitLoop a l).parts.length = a.parts.length ∧
    (Spec.commitLoop a l).parts.getD k []
      = a.parts.getD k [] ++ (l.filter (fun y => y.1 == k)).map (·.2) := by
  induction l generalizing a with
  | nil => simp [Spec.commitLoop]
  | cons x l ih =>
    obtain ⟨sid, b⟩ := x
    have hsid : sid < a.names.length := hv (sid, b) (by simp)
    simp only [Spec.commitLoop, Spec.commit, hsid, if_true]
    have := ih { a with parts := a.parts.modify sid (· ++ [b]) } (by simp [hlen])
      (fun y hy => hv y (by simp [hy]))
    refine ⟨this.1, this.2.1, by simpa using this.2.2.1, ?_⟩
    rw [this.2.2.2]
    simp only [List.getD_eq_getElem?_getD, List.getElem?_modify, List.filter_cons]
    by_cases hk : sid = k
    · subst hk
      have hlt : sid < a.parts.length := by omega
      simp [List.getElem?_eq_getElem hlt]
    · have : (sid == k) = false := by simpa using hk
      simp only [this]
      cases a.parts[k]? <;> simp [hk]


/-! ### C14: which outcomes a reader can have -/

/-- `ok` and `err` are safe; `alloc` never is; a panic is tolerated only if `q` (overflow checks
on) and it is the byte-count overflow of `read_varint`. -/
def Safe {α : Type} (q : Bool) : Outcome α → Prop
  | .ok _ => True
  | .err => True
  | .panic s => q = true ∧ s = "varint.rs:58"
  | .alloc _ => False

theorem Safe.bind {α β : Type} {q : Bool} {o : Outcome α} {f : α → Outcome β}
    (ho : Safe q o) (hf : ∀ a, Safe q (f a)) : Safe q (o.bind f) := by
  cases o with
  | ok a => exact hf a
  | err => trivial
  | panic s => exact ho
  | alloc n => exact ho

theorem Safe.mono {α : Type} {o : Outcome α} (h : Safe false o) (q : Bool) : Safe q o := by
  cases o with
  | ok a => trivial
  | err => trivial
  | panic s => exact absurd h.1 (by simp)
  | alloc n => exact h

/-- `Safe false` = the outcome is `ok _` or `err`. -/
theorem safe_false_iff {α : Type} (o : Outcome α) :
    Safe false o ↔ o = .err ∨ ∃ a, o = .ok a := by
  cases o <;> simp [Safe]

theorem safe_readVarintO (env : Env) (bs : List Nat) : Safe env.checked (readVarintO env bs) := by
  unfold readVarintO
  cases readVarint bs with
  | none => trivial
  | some x =>
    simp only
    split
    · rename_i h; simp only [Bool.and_eq_true] at h; exact ⟨h.1, rfl⟩
    · trivial

theorem safe_readVarintFixed (bs : List Nat) : Safe false (readVarintFixed bs) := by
  unfold readVarintFixed
  cases readVarint bs <;> trivial

theorem safe_readParts {q : Bool} {rv : VarintReader} (hrv : ∀ bs, Safe q (rv bs)) (n : Nat)
    (bs : List Nat) : Safe q (readParts rv n bs) := by
  induction n generalizing bs with
  | zero => trivial
  | succ n ih =>
    simp only [readParts]
    exact (hrv _).bind fun x => (hrv _).bind fun y => (ih _).bind fun z => trivial

theorem safe_readStreams {q : Bool} {rv : VarintReader} (hrv : ∀ bs, Safe q (rv bs)) (n : Nat)
    (bs : List Nat) : Safe q (readStreams rv n bs) := by
  induction n generalizing bs with
  | zero => trivial
  | succ n ih =>
    simp only [readStreams]
    cases readCStr bs with
    | none => trivial
    | some x =>
      obtain ⟨name, r0⟩ := x
      simp only
      exact (hrv _).bind fun np => (hrv _).bind fun raw =>
        (safe_readParts hrv _ _).bind fun ps => (ih _).bind fun ss => trivial

theorem safe_parseFooter {q : Bool} {rv : VarintReader} (hrv : ∀ bs, Safe q (rv bs))
    (footer : List Nat) : Safe q (parseFooter rv footer) :=
  (hrv _).bind fun _ => (safe_readStreams hrv _ _).bind fun _ => trivial

/-- The footer length field of a file (0 for files shorter than 8 bytes is irrelevant). -/
def footerSizeOf (bs : List Nat) : Nat := leVal (bs.drop (bs.length - 8))

theorem safe_openBytes (env : Env) (bs : List Nat)
    (h : bs.length < 8 ∨ footerSizeOf bs + 8 ≤ bs.length) :
    Safe env.checked (openBytes env bs) := by
  unfold openBytes
  simp only
  by_cases h8 : bs.length < 8
  · rw [if_pos h8]; trivial
  · have hf : footerSizeOf bs + 8 ≤ bs.length := by omega
    simp only [footerSizeOf] at hf
    rw [if_neg h8, if_neg (by simp; omega)]
    split
    · trivial
    · rw [if_neg (by omega)]
      split
      · trivial
      · exact (safe_parseFooter (safe_readVarintO env) _).bind fun dir => trivial

theorem safe_openBytesFixed (seekMax : Nat) (bs : List Nat) :
    Safe false (openBytesFixed seekMax bs) := by
  unfold openBytesFixed
  simp only
  split
  · trivial
  · split
    · trivial
    · split
      · trivial
      · refine (safe_parseFooter safe_readVarintFixed _).bind fun dir => ?_
        split <;> trivial

theorem openBytesFixed_ok {seekMax : Nat} {bs : List Nat} {r : Reader}
    (h : openBytesFixed seekMax bs = .ok r) :
    r.file = bs ∧ partsInFile bs.length r.dir = true := by
  unfold openBytesFixed at h
  simp only at h
  split at h
  · cases h
  · split at h
    · cases h
    · split at h
      · cases h
      · cases hp : parseFooter readVarintFixed
            ((bs.drop (bs.length - 8 - leVal (bs.drop (bs.length - 8)))).take
              (leVal (bs.drop (bs.length - 8)))) with
        | ok dir =>
          rw [hp] at h
          simp only [Outcome.ok_bind] at h
          split at h
          · rename_i hpf
            cases h
            exact ⟨rfl, hpf⟩
          · cases h
        | err => rw [hp] at h; cases h
        | panic s => rw [hp] at h; cases h
        | alloc n => rw [hp] at h; cases h

theorem safe_readPartData_fixed (seekMax : Nat) (file : List Nat) (p : Part)
    (hp : p.off + p.size ≤ file.length) :
    Safe false (readPartData readVarintFixed seekMax file p) := by
  unfold readPartData
  split
  · trivial
  · split
    · trivial
    · refine (safe_readVarintFixed _).bind fun x => ?_
      rw [if_neg (by omega)]
      split <;> trivial

theorem partsInFile_mem {n : Nat} {dir : List Stream} (h : partsInFile n dir = true)
    {st : Stream} (hst : st ∈ dir) {p : Part} (hp : p ∈ st.parts) : p.off + p.size ≤ n := by
  simp only [partsInFile, List.all_eq_true, decide_eq_true_eq] at h
  exact h st hst p hp

theorem safe_getPartByIdFixed {seekMax : Nat} {r : Reader}
    (hr : partsInFile r.file.length r.dir = true) (sid pid : Nat) :
    Safe false (getPartByIdFixed seekMax r sid pid) := by
  unfold getPartByIdFixed getPartByIdWith
  cases hs : r.dir[sid]? with
  | none => trivial
  | some st =>
    simp only
    cases hp : st.parts[pid]? with
    | none => trivial
    | some p =>
      exact safe_readPartData_fixed _ _ _
        (partsInFile_mem hr (List.mem_of_getElem? hs) (List.mem_of_getElem? hp))

theorem getPartFixed_spec {seekMax : Nat} {r : Reader}
    (hr : partsInFile r.file.length r.dir = true) (sid : Nat) :
    Safe false (getPartFixed seekMax r sid).2 ∧
    (getPartFixed seekMax r sid).1.file = r.file ∧ (getPartFixed seekMax r sid).1.dir = r.dir := by
  unfold getPartFixed getPartWith
  cases hs : r.dir[sid]? with
  | none => exact ⟨trivial, rfl, rfl⟩
  | some st =>
    simp only
    cases hp : st.parts[r.cur.getD sid 0]? with
    | none => exact ⟨trivial, rfl, rfl⟩
    | some p =>
      refine ⟨?_, rfl, rfl⟩
      exact (safe_readPartData_fixed _ _ _
        (partsInFile_mem hr (List.mem_of_getElem? hs) (List.mem_of_getElem? hp))).bind
        fun b => trivial

/-! ### Ids are stable -/

theorem findStream_eq (ss : List Stream) (name : List Nat) :
    findStream ss name =
      if name ∈ ss.map (·.name) then some ((ss.map (·.name)).idxOf name) else none := by
  induction ss with
  | nil => simp [findStream]
  | cons st ss ih =>
    simp only [findStream, List.findIdx?_cons] at ih ⊢
    by_cases h : st.name = name
    · simp [h]
    · have h' : (st.name == name) = false := by simpa using h
      have h'' : ¬ name = st.name := fun e => h e.symm
      simp only [h', Bool.false_eq_true, if_false, ih, List.map_cons, List.mem_cons, h'', false_or,
        List.idxOf_cons, cond_false]
      split <;> simp

/-- At any time `register_stream(name)` answers with the position of `name` in the log's name
list (the id it got when first registered), or the next free id. -/
theorem register_id_spec {s : State} {a : Spec.Log} (h : Rel s a) (name : List Nat) :
    (registerStream s name).2 = a.names.idxOf name := by
  simp only [registerStream, findStream_eq, ← h.names]
  split
  · rename_i id heq
    split at heq
    · cases heq; rfl
    · cases heq
  · rename_i heq
    split at heq
    · cases heq
    · rename_i hn
      simp only
      rw [← h.namesLen]
      exact (List.idxOf_eq_length hn).symm

end Ragc.Container
