import RagcModel.Lemmas.WriterCatalogue
/-!
Helper lemmas for `read_write` (C01/C02), part 9: the segment streams. `xStreams` over the
reference writer's directory, `addStream`, and the fold of `decodeGroup` (`decodeGroups`).
-/
namespace Ragc.WriterLemmas
open Ragc.Agc3 Ragc.Writer Ragc.Container Ragc.StreamNames

/-! ## `xStreams` -/

theorem filterMapM_ok {α β : Type} (f : α → Except String (Option β)) (g : α → Option β) :
    ∀ (l : List α), (∀ x ∈ l, f x = .ok (g x)) → l.filterMapM f = .ok (l.filterMap g) := by
  intro l
  induction l with
  | nil => intro _; rfl
  | cons x xs ih =>
    intro h
    rw [List.filterMapM_cons, h x (by simp), ih (fun y hy => h y (by simp [hy]))]
    cases hg : g x with
    | none => simp [List.filterMap_cons, hg, bind, Except.bind]
    | some b => simp [List.filterMap_cons, hg, bind, Except.bind, pure, Except.pure]

/-- the x-stream record of a name -/
def xOf (parts : List (List Nat × Blob)) (n : List Nat) : Option XStream :=
  match parseXName n with
  | none => none
  | some (g, kd) => some ⟨n, g, kd, partsOf parts n⟩

theorem xStreams_eq (o : Opened) (names : List (List Nat)) (parts : List (List Nat × Blob))
    (h : Opens o names parts) : xStreams o = .ok (names.filterMap (xOf parts)) := by
  unfold xStreams
  rw [filterMapM_ok _ (fun st => xOf parts st.name)]
  · rw [← h.dir, List.filterMap_map]
    rfl
  · intro st hst
    unfold xOf
    cases hp : parseXName st.name with
    | none => rfl
    | some gk =>
      obtain ⟨g, kd⟩ := gk
      simp only [h.read st hst, bind, Except.bind, pure, Except.pure]

theorem parse_fixed : ∀ n ∈ fixedStreamNames, parseXName n = none := by decide

theorem xName_delta (g : Nat) : xName g .delta = deltaName g := by
  simp [xName, deltaName, kindChar, chX, chD, b64Encode_eq]

theorem xName_ref (g : Nat) : xName g .ref = refName g := by
  simp [xName, refName, kindChar, chX, chR, b64Encode_eq]

theorem parse_delta (g : Nat) : parseXName (deltaName g) = some (g, .delta) := by
  rw [← xName_delta]; exact parseXName_xName g .delta

theorem parse_ref (g : Nat) : parseXName (refName g) = some (g, .ref) := by
  rw [← xName_ref]; exact parseXName_xName g .ref

/-- the two records of a group -/
def xPair (parts : List (List Nat × Blob)) (g : Nat) : List XStream :=
  [⟨deltaName g, g, .delta, partsOf parts (deltaName g)⟩, ⟨refName g, g, .ref, partsOf parts (refName g)⟩]

theorem filterMap_regNames (dec : Decisions) (parts : List (List Nat × Blob)) :
    (regNames dec).filterMap (xOf parts) = (dec.groups.map (·.id)).flatMap (xPair parts) := by
  rw [regNames_eq, List.filterMap_append]
  have h1 : fixedStreamNames.filterMap (xOf parts) = [] := by
    apply List.filterMap_eq_nil_iff.mpr
    intro n hn
    unfold xOf
    rw [parse_fixed n hn]
  rw [h1, List.nil_append]
  generalize dec.groups.map (·.id) = ids
  induction ids with
  | nil => rfl
  | cons g ids ih =>
    show List.filterMap (xOf parts) (deltaName g :: refName g :: groupNames ids) = _
    simp only [List.filterMap_cons, xOf, parse_delta, parse_ref, ih, List.flatMap_cons, xPair]
    rfl

/-! ## `addStream` -/

/-- the record `addStream` builds for a group with one `d` and one `r` stream -/
def groupRec (parts : List (List Nat × Blob)) (g : Nat) : Group :=
  ⟨g, 1, 1, partsOf parts (refName g), partsOf parts (deltaName g)⟩

theorem addStream_pair (parts : List (List Nat × Blob)) (gs : Array Group) (g : Nat)
    (hnew : ∀ x ∈ gs, x.id ≠ g) :
    (xPair parts g).foldl addStream gs = gs.push (groupRec parts g) := by
  simp only [xPair, List.foldl_cons, List.foldl_nil]
  have h1 : addStream gs ⟨deltaName g, g, .delta, partsOf parts (deltaName g)⟩
      = gs.push ⟨g, 0, 1, [], partsOf parts (deltaName g)⟩ := by
    unfold addStream
    simp only []
    rw [Array.findIdx?_eq_none_iff.mpr (fun x hx => by simpa using hnew x hx)]
    rfl
  rw [h1]
  unfold addStream
  simp only []
  rw [Array.findIdx?_push, Array.findIdx?_eq_none_iff.mpr (fun x hx => by simpa using hnew x hx)]
  simp only [beq_self_eq_true, if_true, Option.none_or]
  apply Array.ext
  · simp
  · intro i h1 h2
    simp only [Array.size_push] at h2
    by_cases hi : i = gs.size
    · subst hi
      simp [Array.getElem_modify, groupRec, Group.empty]
    · have : i < gs.size := by simp at h1; omega
      simp [Array.getElem_modify, Array.getElem_push, this, hi, Ne.symm hi]

theorem addStream_all (parts : List (List Nat × Blob)) : ∀ (ids : List Nat) (gs : Array Group),
    ids.Nodup → (∀ x ∈ gs, x.id ∉ ids) →
    (ids.flatMap (xPair parts)).foldl addStream gs = gs ++ (ids.map (groupRec parts)).toArray := by
  intro ids
  induction ids with
  | nil => intro gs _ _; simp
  | cons g ids ih =>
    intro gs hnd hnew
    simp only [List.nodup_cons] at hnd
    rw [List.flatMap_cons, List.foldl_append, addStream_pair parts gs g (fun x hx hc => hnew x hx (by simp [hc]))]
    rw [ih _ hnd.2 (by
      intro x hx
      simp only [Array.mem_push] at hx
      rcases hx with hx | hx
      · exact fun hc => hnew x hx (by simp [hc])
      · subst hx
        exact hnd.1)]
    apply Array.ext'
    simp only [Array.toList_append, Array.toList_push, List.map_cons, List.append_assoc,
      List.singleton_append, List.toList_toArray]

/-! ## the plans of all groups -/

/-- the plan of a group: its members' stored data, planned -/
def planOf (cfg : Cfg) (stored : List (List (List (List Nat)))) (G : GroupDec) : Option GroupPlan :=
  (G.members.mapM (lookup3 stored)).bind (planGroup cfg.minMatch G)

theorem writeGroups_plans (cfg : Cfg) (zc : Nat → List Nat → List Nat) (stored : List (List (List (List Nat)))) :
    ∀ (gs : List GroupDec) (outs : List GroupOut), writeGroups cfg zc stored gs = some outs →
      ∃ Ps, gs.mapM (planOf cfg stored) = some Ps ∧
        outs = List.zipWith (fun G P => storeGroup cfg zc G.tuples P) gs Ps := by
  intro gs
  induction gs with
  | nil =>
    intro outs h
    simp only [writeGroups, List.mapM_nil, Option.pure_def, Option.some.injEq] at h
    subst h
    exact ⟨[], rfl, rfl⟩
  | cons G gs ih =>
    intro outs h
    unfold writeGroups at h
    simp only [List.mapM_cons, Option.pure_def, Option.bind_eq_bind] at h
    cases hm : G.members.mapM (lookup3 stored) with
    | none => rw [hm] at h; simp at h
    | some datas =>
      rw [hm] at h
      simp only [Option.bind_some, writeGroup] at h
      cases hp : planGroup cfg.minMatch G datas with
      | none => rw [hp] at h; simp at h
      | some P =>
        rw [hp] at h
        simp only [Option.map_some, Option.bind_some] at h
        cases hr : gs.mapM (fun G => (G.members.mapM (lookup3 stored)).bind (writeGroup cfg zc G)) with
        | none => rw [hr] at h; simp at h
        | some os =>
          rw [hr] at h
          simp only [Option.bind_some, Option.some.injEq] at h
          subst h
          obtain ⟨Ps, hPs, hos⟩ := ih os hr
          refine ⟨P :: Ps, ?_, ?_⟩
          · simp only [List.mapM_cons, Option.pure_def, Option.bind_eq_bind, planOf, hm, hp, Option.bind_some]
            rw [hPs]
            rfl
          · rw [hos]; rfl

theorem readBack_storeGroup (cfg : Cfg) (zc : Nat → List Nat → List Nat) (t : Bool) (P : GroupPlan) :
    (storeGroup cfg zc t P).refPart.toList.map Spec.readBack = (storeGroup cfg zc t P).refPart.toList ∧
    (storeGroup cfg zc t P).packs.map Spec.readBack = (storeGroup cfg zc t P).packs := by
  unfold storeGroup
  constructor
  · cases P.ref with
    | none => rfl
    | some r => simp [readBack_storeReference]
  · simp only [List.map_map]
    apply List.map_congr_left
    intro es _
    exact readBack_storePack _ _ _

/-! ## the fold of `decodeGroup` -/

/-- the `Group` record of a stored group -/
def recOf (o : GroupOut) : Group := ⟨o.id, 1, 1, o.refPart.toList, o.packs⟩

theorem decodeGroup_fold (zc : Nat → List Nat → List Nat) (zd : List Nat → Option (List Nat))
    (hz : ∀ l x, zd (zc l x) = some x) (hne : ∀ l x, zc l x = [] → x = []) (cfg : Cfg) :
    ∀ (gs : List GroupDec) (Ps : List GroupPlan) (a : Acc) (acc : Array GroupD),
      gs.length = Ps.length → (∀ P ∈ Ps, PlanOK P) →
      ∃ GDs : List GroupD, GDs.length = Ps.length ∧
        (∀ i (h1 : i < GDs.length) (h2 : i < Ps.length), GDMatches GDs[i] Ps[i]) ∧
        ((List.zipWith (fun G P => recOf (storeGroup cfg zc G.tuples P)) gs Ps).foldl (decodeGroup zd) (a, acc)
          = (a, acc ++ GDs.toArray)) := by
  intro gs
  induction gs with
  | nil =>
    intro Ps a acc hl _
    have : Ps = [] := List.eq_nil_of_length_eq_zero hl.symm
    subst this
    exact ⟨[], rfl, fun i h1 => absurd h1 (by simp), by simp⟩
  | cons G gs ih =>
    intro Ps a acc hl hP
    cases Ps with
    | nil => simp at hl
    | cons P Ps =>
      obtain ⟨GD, hdec, hmatch⟩ := decodeGroup_plan zc zd hz hne cfg G.tuples P (hP P (by simp)) a acc
      obtain ⟨GDs, hlen, hall, hfold⟩ := ih Ps a (acc.push GD) (by simpa using hl)
        (fun Q hQ => hP Q (by simp [hQ]))
      refine ⟨GD :: GDs, by simp [hlen], ?_, ?_⟩
      · intro i h1 h2
        cases i with
        | zero => exact hmatch
        | succ i =>
          simp only [List.getElem_cons_succ]
          exact hall i (by simpa using h1) (by simpa using h2)
      · simp only [List.zipWith_cons_cons, List.foldl_cons]
        have : recOf (storeGroup cfg zc G.tuples P)
            = ⟨P.id, 1, 1, (storeGroup cfg zc G.tuples P).refPart.toList, (storeGroup cfg zc G.tuples P).packs⟩ := rfl
        rw [this, hdec, hfold]
        congr 1
        apply Array.ext'
        simp

theorem find_by_key {α : Type} (key : α → Nat) (l : List α) :
    ∀ (i : Nat) (h : i < l.length), (l.map key).Nodup →
      l.find? (fun x => key x == key l[i]) = some l[i] := by
  induction l with
  | nil => intro i h; simp at h
  | cons o os ih =>
    intro i h hnd
    cases i with
    | zero => simp
    | succ i =>
      simp only [List.length_cons] at h
      simp only [List.map_cons, List.nodup_cons] at hnd
      have hne : key o ≠ key os[i] := by
        intro hc
        apply hnd.1
        rw [hc]
        exact List.mem_map.mpr ⟨os[i], List.getElem_mem _, rfl⟩
      simp only [List.getElem_cons_succ, List.find?_cons, beq_eq_false_iff_ne.mpr hne]
      exact ih i (by omega) hnd.2

end Ragc.WriterLemmas
