import RagcModel.Lemmas.WriterDir
import RagcModel.Lemmas.Varint
/-!
Helper lemmas for `read_write` (C01/C02), part 7: the decoder's checks of the fixed streams
(`checkFixedStreams`, `checkTypeInfo`, `readParams`) on the reference writer's archive.
-/
namespace Ragc.WriterLemmas
open Ragc.Agc3 Ragc.Writer Ragc.Container Ragc.Varint

/-- What `container_returns_every_part` gives for the reference writer's archive: the opened
archive lists `names` and every stream reads back the parts buffered under its name. -/
structure Opens (o : Opened) (names : List (List Nat)) (parts : List (List Nat × Blob)) : Prop where
  dir : o.dir.map (·.name) = names
  read : ∀ st ∈ o.dir, Agc3.readParts o.file st = .ok (partsOf parts st.name)

theorem str_eq (s : String) : Agc3.str s = Writer.str s := rfl

theorem find_stream (o : Opened) (names : List (List Nat)) (parts : List (List Nat × Blob))
    (h : Opens o names parts) (n : List Nat) (hn : n ∈ names) :
    ∃ st, o.dir.find? (fun st => st.name == n) = some st ∧ st ∈ o.dir ∧ st.name = n := by
  rw [← h.dir] at hn
  obtain ⟨st0, hst0, hname0⟩ := List.mem_map.mp hn
  cases hf : o.dir.find? (fun st => st.name == n) with
  | none =>
    have := List.find?_eq_none.mp hf st0 hst0
    simp [hname0] at this
  | some st =>
    refine ⟨st, rfl, List.mem_of_find?_eq_some hf, ?_⟩
    have := List.find?_some hf
    simpa using this

theorem count_stream (o : Opened) (names : List (List Nat)) (parts : List (List Nat × Blob))
    (h : Opens o names parts) (n : List Nat) :
    countP o.dir (fun st => st.name == n) = (names.filter (· == n)).length := by
  unfold countP
  rw [← h.dir, List.filter_map, List.length_map]
  rfl

theorem groupNames_filter_fixed (ids : List Nat) (n : List Nat) (hn : isX n = false) :
    (groupNames ids).filter (· == n) = [] := by
  apply List.filter_eq_nil_iff.mpr
  intro a ha hc
  have := groupNames_isX ids a ha
  have e : a = n := by simpa using hc
  rw [e, hn] at this
  cases this

theorem checkFixedStreams_ok (o : Opened) (dec : Decisions) (parts : List (List Nat × Blob))
    (h : Opens o (regNames dec) parts) (a : Acc) : checkFixedStreams o a = a := by
  unfold checkFixedStreams fixedNamesChecked
  have hc : ∀ n, isX (Agc3.str n) = false → ((fixedStreamNames.filter (· == Agc3.str n)).length = 1) →
      countP o.dir (fun st => st.name == Agc3.str n) = 1 := by
    intro n hx h1
    rw [count_stream o _ parts h, regNames_eq, List.filter_append, groupNames_filter_fixed _ _ hx]
    simpa using h1
  simp only [List.foldl_cons, List.foldl_nil]
  rw [if_pos (hc "file_type_info" (by decide) (by decide)), if_pos (hc "params" (by decide) (by decide)),
    if_pos (hc "collection-samples" (by decide) (by decide)),
    if_pos (hc "collection-contigs" (by decide) (by decide)),
    if_pos (hc "collection-details" (by decide) (by decide))]

theorem fixed_mem_regNames (dec : Decisions) (n : List Nat) (hn : n ∈ fixedStreamNames) : n ∈ regNames dec := by
  rw [regNames_eq]; exact List.mem_append_left _ hn

set_option maxRecDepth 100000 in
/-- the key/value pairs of `file_type_info` as the decoder parses them -/
theorem parseTypeInfo_fileTypeInfo :
    parseTypeInfo fileTypeInfo =
      [(Writer.str "producer", Writer.str "ragc"), (Writer.str "producer_version_major", [51]),
       (Writer.str "producer_version_minor", [48]), (Writer.str "producer_version_build", [48]),
       (Writer.str "file_version_major", [51]), (Writer.str "file_version_minor", [48]),
       (Writer.str "comment", Writer.str "RAGC v.3.0")] := by decide

set_option maxRecDepth 100000 in
theorem checkTypeInfo_ok (o : Opened) (dec : Decisions) (cfg : Cfg) (zc : Nat → List Nat → List Nat)
    (inp : List Writer.Sample) (outs : List GroupOut) (batches : List Ragc.Details.StoredBatch)
    (h : Opens o (regNames dec) (partList cfg zc inp outs batches)) (a : Acc) :
    checkTypeInfo o a = .ok a := by
  unfold checkTypeInfo
  obtain ⟨st, hf, hmem, hname⟩ := find_stream o _ _ h (Writer.str "file_type_info")
    (fixed_mem_regNames dec _ (by decide))
  rw [str_eq, hf]
  simp only []
  rw [h.read st hmem, hname, (partsOf_fixed cfg zc inp outs batches).2.1]
  have hrb : Spec.readBack (fileTypeInfo, 7) = (fileTypeInfo, 7) := by decide
  rw [hrb]
  simp only [bind, Except.bind, parseTypeInfo_fileTypeInfo]
  have h1 : (([(Writer.str "producer", Writer.str "ragc"), (Writer.str "producer_version_major", [51]),
       (Writer.str "producer_version_minor", [48]), (Writer.str "producer_version_build", [48]),
       (Writer.str "file_version_major", [51]), (Writer.str "file_version_minor", [48]),
       (Writer.str "comment", Writer.str "RAGC v.3.0")].find? (fun p => p.1 == Agc3.str "file_version_major")).bind
        (fun p => natOfDec p.2) = some versionMajor ∧
      ([(Writer.str "producer", Writer.str "ragc"), (Writer.str "producer_version_major", [51]),
       (Writer.str "producer_version_minor", [48]), (Writer.str "producer_version_build", [48]),
       (Writer.str "file_version_major", [51]), (Writer.str "file_version_minor", [48]),
       (Writer.str "comment", Writer.str "RAGC v.3.0")].find? (fun p => p.1 == Agc3.str "file_version_minor")).bind
        (fun p => natOfDec p.2) = some versionMinor) := by decide
  rw [if_pos h1]
  rfl

theorem le32_leBytes (v : Nat) (hv : v < 2 ^ 32) (rest : List Nat) : le32 (leBytes 4 v ++ rest) = v := by
  unfold le32
  rw [List.take_left' (leBytes_length 4 v), leVal_leBytes]
  exact Nat.mod_eq_of_lt (by simpa using hv)

theorem readParams_ok (o : Opened) (dec : Decisions) (cfg : Cfg) (zc : Nat → List Nat → List Nat)
    (inp : List Writer.Sample) (outs : List GroupOut) (batches : List Ragc.Details.StoredBatch)
    (h : Opens o (regNames dec) (partList cfg zc inp outs batches))
    (hk : cfg.k < 2 ^ 32) (hm : cfg.minMatch < 2 ^ 32) (hs : cfg.segSize < 2 ^ 32) (a : Acc) :
    readParams o a = .ok (a, cfg.k, cfg.minMatch, cfg.segSize) := by
  unfold readParams findFixed
  obtain ⟨st, hf, hmem, hname⟩ := find_stream o _ _ h (Writer.str "params")
    (fixed_mem_regNames dec _ (by decide))
  rw [str_eq, hf]
  simp only [bind, Except.bind]
  rw [h.read st hmem, hname, (partsOf_fixed cfg zc inp outs batches).1]
  have hne : (paramsData cfg) ≠ [] := by
    intro hc
    have := congrArg List.length hc
    simp [paramsData, leBytes_length] at this
  have hrb : Spec.readBack (paramsData cfg, 0) = (paramsData cfg, 0) := by
    unfold Spec.readBack
    split
    · rename_i he; exact absurd (List.isEmpty_iff.mp he) hne
    · rfl
  rw [hrb]
  simp only [pure, Except.pure]
  have hlen : (paramsData cfg).length = 16 := by simp [paramsData, leBytes_length]
  rw [if_neg (by rw [hlen]; omega)]
  have d4 : (paramsData cfg).drop 4 = leBytes 4 cfg.minMatch ++ (leBytes 4 50 ++ leBytes 4 cfg.segSize) := by
    unfold paramsData; exact List.drop_left' (leBytes_length 4 _)
  have d8 : (paramsData cfg).drop 8 = leBytes 4 50 ++ leBytes 4 cfg.segSize := by
    have : (paramsData cfg).drop 8 = ((paramsData cfg).drop 4).drop 4 := by rw [List.drop_drop]
    rw [this, d4]; exact List.drop_left' (leBytes_length 4 _)
  have d12 : (paramsData cfg).drop 12 = leBytes 4 cfg.segSize ++ [] := by
    have : (paramsData cfg).drop 12 = ((paramsData cfg).drop 8).drop 4 := by rw [List.drop_drop]
    rw [this, d8, List.append_nil]; exact List.drop_left' (leBytes_length 4 _)
  have e0 : le32 (paramsData cfg) = cfg.k := le32_leBytes _ hk _
  rw [d4, d8, d12, le32_leBytes _ hm, le32_leBytes 50 (by decide), le32_leBytes _ hs, e0]
  simp [packCard]

end Ragc.WriterLemmas
