import RagcModel.Model.Details
import RagcModel.Lemmas.CollVarint
import RagcModel.Lemmas.Zigzag
/-! Lemmas for the 5-stream descriptor codec and its predictor table (C03). -/
namespace Ragc.Details
open Ragc.CollVarint Ragc.Zigzag Ragc.Names

/-! ### One descriptor -/

/-- Values the predictor table can hold on the domain of the theorem: `-1` (never seen) or an id
    whose successor does not overflow `i32`. -/
def PrevOk (prev : Int) : Prop := -1 ≤ prev ∧ prev + 1 < 2147483648

theorem decInGroup_encInGroup (prev : Int) (id : Nat) (hp : PrevOk prev) (hid : id + 1 < 2147483648) :
    decInGroup prev (encInGroup prev id) = id := by
  unfold decInGroup encInGroup
  by_cases h1 : prev = -1
  · rw [if_pos h1, if_pos h1]
  rw [if_neg h1, if_neg h1]
  obtain ⟨q, rfl⟩ : ∃ q : Nat, prev = (q : Int) := ⟨prev.toNat, by have := hp.1; omega⟩
  have hq : q + 1 < 2147483648 := by have := hp.2; omega
  have hs : succI32 (q : Int) = ((q + 1 : Nat) : Int) := by
    unfold succI32; rw [if_neg (by omega)]; omega
  have hu : i32ToU64 ((q + 1 : Nat) : Int) = q + 1 := by
    unfold i32ToU64; rw [if_pos (by omega)]; omega
  have hu32 : i32ToU32 ((q + 1 : Nat) : Int) = q + 1 := by
    unfold i32ToU32; rw [if_pos (by omega)]; omega
  have ht : toI32 id = (id : Int) := by unfold toI32; rw [if_pos (by omega)]
  rw [hs, hu, hu32, ht]
  by_cases h2 : id = 0
  · rw [if_pos h2, if_pos rfl]; exact h2.symm
  rw [if_neg h2]
  by_cases h3 : (id : Int) = ((q + 1 : Nat) : Int)
  · rw [if_pos h3, if_neg (by omega), if_pos rfl]; omega
  rw [if_neg h3]
  have hne : id ≠ q + 1 := by omega
  have hpos := zigzagEncode_pos id (q + 1) (by omega) (by omega) hne
  have hlt := zigzagEncode_lt_pred id (q + 1) (by omega) (by omega) (by omega)
  have he : (zigzagEncode id (q + 1) % U32 + 1) % U32 = zigzagEncode id (q + 1) + 1 := by
    unfold U32; omega
  rw [he, if_neg (by omega), if_neg (by omega)]
  have : zigzagEncode id (q + 1) + 1 - 1 = zigzagEncode id (q + 1) := by omega
  rw [this, zigzagDecode_encode id (q + 1) (by omega) (by omega)]
  unfold U32; omega

theorem encInGroup_lt (prev : Int) (id : Nat) (hid : id < 4294967296) : encInGroup prev id < 4294967296 := by
  unfold encInGroup
  by_cases h1 : prev = -1
  · rw [if_pos h1]; exact hid
  rw [if_neg h1]
  by_cases h2 : id = 0
  · rw [if_pos h2]; omega
  rw [if_neg h2]
  by_cases h3 : toI32 id = succI32 prev
  · rw [if_pos h3]; omega
  rw [if_neg h3]; unfold U32; omega

theorem rawLen_roundtrip (l pred : Nat) (hl : l < 4294967296) (hp : pred ≤ 2147483648) :
    zigzagDecode (zigzagEncode l pred % U32) pred % U32 = l := by
  have h1 := zigzagEncode_lt l pred hl hp
  have h2 : zigzagEncode l pred % U32 = zigzagEncode l pred := by unfold U32; omega
  rw [h2, zigzagDecode_encode l pred (by omega) (by omega)]
  unfold U32; omega

/-! ### The predictor table -/

def TableOk (t : Table) : Prop := ∀ g, PrevOk (t.get g)

theorem tableOk_nil : TableOk [] := by
  intro g; simp [Table.get, PrevOk]

theorem tableOk_update (t : Table) (g : Nat) (id : Nat) (ht : TableOk t) (hid : id + 1 < 2147483648) :
    TableOk (update t g (t.get g) id) := by
  unfold update
  by_cases h : toI32 id > t.get g ∧ id > 0
  · rw [if_pos h]
    intro g'
    unfold Table.set
    simp only [Table.get]
    by_cases hg : g = g'
    · rw [if_pos hg]
      have : toI32 id = (id : Int) := by unfold toI32; rw [if_pos (by omega)]
      rw [this]; unfold PrevOk; omega
    · rw [if_neg hg]; exact ht g'
  · rw [if_neg h]; exact ht

/-- A descriptor inside the domain: `u32` fields, in-group id below `i32::MAX`. -/
def SegOk (s : Seg) : Prop := s.group < 4294967296 ∧ s.inGroup + 1 < 2147483648 ∧ s.rawLen < 4294967296

theorem decSegs_encSegs (pred : Nat) (hp : pred ≤ 2147483648) (segs : List Seg) : ∀ (t : Table),
    TableOk t → (∀ s ∈ segs, SegOk s) → decSegs pred t (encSegs pred t segs) = segs := by
  induction segs with
  | nil => intro t _ _; simp [encSegs, decSegs]
  | cons s ss ih =>
    intro t ht h
    have hs := h s (by simp)
    simp only [encSegs, decSegs]
    rw [decInGroup_encInGroup (t.get s.group) s.inGroup (ht s.group) hs.2.1,
      rawLen_roundtrip s.rawLen pred hs.2.2 hp,
      ih _ (tableOk_update t s.group s.inGroup ht hs.2.1) (fun x hx => h x (by simp [hx]))]
    congr 1
    cases s with
    | mk g i r l => cases r <;> simp

/-- Encoder and decoder evolve the predictor table identically. -/
theorem decFinalTable_encSegs (pred : Nat) (segs : List Seg) : ∀ (t : Table),
    TableOk t → (∀ s ∈ segs, SegOk s) →
    decFinalTable t (encSegs pred t segs) = encFinalTable t segs := by
  induction segs with
  | nil => intro t _ _; simp [encSegs, decFinalTable, encFinalTable]
  | cons s ss ih =>
    intro t ht h
    have hs := h s (by simp)
    simp only [encSegs, decFinalTable, encFinalTable]
    rw [decInGroup_encInGroup (t.get s.group) s.inGroup (ht s.group) hs.2.1,
      ih _ (tableOk_update t s.group s.inGroup ht hs.2.1) (fun x hx => h x (by simp [hx]))]

theorem encSegs_length (pred : Nat) (segs : List Seg) : ∀ t, (encSegs pred t segs).length = segs.length := by
  induction segs with
  | nil => intro t; simp [encSegs]
  | cons s ss ih => intro t; simp [encSegs, ih]

theorem encSegs_bounds (pred : Nat) (segs : List Seg) : ∀ (t : Table),
    (∀ s ∈ segs, s.group < 4294967296 ∧ s.inGroup < 4294967296) →
    ∀ e ∈ encSegs pred t segs, e.g < 4294967296 ∧ e.i < 4294967296 ∧ e.l < 4294967296 ∧ e.r < 4294967296 := by
  induction segs with
  | nil => intro t _ e he; simp [encSegs] at he
  | cons s ss ih =>
    intro t h e he
    have hs := h s (by simp)
    simp only [encSegs] at he
    rcases List.mem_cons.mp he with rfl | he
    · refine ⟨hs.1, encInGroup_lt _ _ hs.2, ?_, ?_⟩
      · show _ % U32 < _; unfold U32; omega
      · show (if s.rev then 1 else 0) < _; split <;> omega
    · exact ih _ (fun x hx => h x (by simp [hx])) e he

/-! ### Streams of varints -/

theorem decNats_encNats (xs : List Nat) : ∀ (r : List Nat), (∀ x ∈ xs, x < 4294967296) →
    decNats xs.length (encNats xs ++ r) = some (xs, r) := by
  induction xs with
  | nil => intro r _; simp [decNats, encNats]
  | cons x xs ih =>
    intro r h
    simp only [List.length_cons, encNats, List.append_assoc]
    rw [decNats, decode_encode x (h x (by simp))]
    simp only
    rw [ih r (fun y hy => h y (by simp [hy]))]

theorem decShape_encShape (sh : List (List Nat)) : ∀ (r : List Nat),
    (∀ s ∈ sh, s.length < 4294967296 ∧ ∀ c ∈ s, c < 4294967296) →
    decShape sh.length (encShape sh ++ r) = some sh := by
  induction sh with
  | nil => intro r _; simp [decShape]
  | cons s ss ih =>
    intro r h
    have hs := h s (by simp)
    simp only [List.length_cons, encShape, List.append_assoc]
    rw [decShape, decode_encode s.length hs.1]
    simp only
    rw [decNats_encNats s _ hs.2]
    simp only
    rw [ih r (fun y hy => h y (by simp [hy]))]

theorem zip4_map (es : List Enc) :
    zip4 (es.map Enc.g) (es.map Enc.i) (es.map Enc.l) (es.map Enc.r) = es := by
  induction es with
  | nil => simp [zip4]
  | cons e es ih => simp [zip4, ih]

/-! ### Regrouping -/

theorem cut_lengths {α : Type} (s : List (List α)) : ∀ (rest : List α),
    cut (s.map List.length) (s.flatten ++ rest) = (s, rest) := by
  induction s with
  | nil => intro rest; simp [cut]
  | cons c cs ih =>
    intro rest
    simp only [List.map_cons, List.flatten_cons, List.append_assoc, cut]
    have h1 : (c ++ (cs.flatten ++ rest)).drop c.length = cs.flatten ++ rest := by simp
    have h2 : (c ++ (cs.flatten ++ rest)).take c.length = c := by simp
    rw [h1, h2, ih rest]

theorem regroup_flatten {α : Type} (b : List (List (List α))) : ∀ (rest : List α),
    regroup (b.map (fun s => s.map List.length)) ((b.map List.flatten).flatten ++ rest) = b := by
  induction b with
  | nil => intro rest; simp [regroup]
  | cons s ss ih =>
    intro rest
    simp only [List.map_cons, List.flatten_cons, List.append_assoc, regroup]
    rw [cut_lengths s, ih rest]

theorem sumShape_shapeOf (b : Batch) : sumShape (shapeOf b) = (flatten b).length := by
  unfold sumShape shapeOf flatten
  rw [List.length_flatten, List.map_map, List.map_map]
  congr 1
  apply List.map_congr_left
  intro s _
  simp only [Function.comp_apply, List.length_flatten]

/-! ### The five streams -/

/-- Counts fit the `u32` they are written as. -/
def ShapeOk (b : Batch) : Prop :=
  b.length < 4294967296 ∧ ∀ s ∈ b, s.length < 4294967296 ∧ ∀ c ∈ s, c.length < 4294967296

theorem mem_flatten_segOk (b : Batch) (h : ∀ s ∈ b, ∀ c ∈ s, ∀ g ∈ c, SegOk g) :
    ∀ g ∈ flatten b, SegOk g := by
  intro g hg
  unfold flatten at hg
  rcases List.mem_flatten.mp hg with ⟨l, hl, hgl⟩
  rcases List.mem_map.mp hl with ⟨s, hs, rfl⟩
  rcases List.mem_flatten.mp hgl with ⟨c, hc, hgc⟩
  exact h s hs c hc g hgc

theorem decodeDetailsRaw_encodeDetails (segSize k : Nat) (b : Batch)
    (hpred : segSize + k ≤ 2147483648) (hshape : ShapeOk b)
    (hseg : ∀ s ∈ b, ∀ c ∈ s, ∀ g ∈ c, SegOk g) :
    match encodeDetails segSize k b with
    | [s0, s1, s2, s3, s4] => decodeDetailsRaw segSize k s0 s1 s2 s3 s4 = some b
    | _ => False := by
  have hp : predLen segSize k ≤ 2147483648 := by unfold predLen U32; omega
  have hflat := mem_flatten_segOk b hseg
  simp only [encodeDetails]
  unfold decodeDetailsRaw
  rw [decode_encode b.length hshape.1]
  simp only
  have hsh : ∀ s ∈ shapeOf b, s.length < 4294967296 ∧ ∀ c ∈ s, c < 4294967296 := by
    intro s hs
    unfold shapeOf at hs
    rcases List.mem_map.mp hs with ⟨x, hx, rfl⟩
    refine ⟨by rw [List.length_map]; exact (hshape.2 x hx).1, ?_⟩
    intro c hc
    rcases List.mem_map.mp hc with ⟨y, hy, rfl⟩
    exact (hshape.2 x hx).2 y hy
  have h0 := decShape_encShape (shapeOf b) [] hsh
  have hlen : (shapeOf b).length = b.length := by simp [shapeOf]
  rw [List.append_nil, hlen] at h0
  rw [h0]
  simp only
  have hb := encSegs_bounds (predLen segSize k) (flatten b) []
    (fun s hs => ⟨(hflat s hs).1, by have := (hflat s hs).2.1; omega⟩)
  have hn : sumShape (shapeOf b) = (encSegs (predLen segSize k) [] (flatten b)).length := by
    rw [sumShape_shapeOf, encSegs_length]
  rw [hn]
  have d1 := decNats_encNats ((encSegs (predLen segSize k) [] (flatten b)).map Enc.g) []
    (by intro x hx; rcases List.mem_map.mp hx with ⟨e, he, rfl⟩; exact (hb e he).1)
  have d2 := decNats_encNats ((encSegs (predLen segSize k) [] (flatten b)).map Enc.i) []
    (by intro x hx; rcases List.mem_map.mp hx with ⟨e, he, rfl⟩; exact (hb e he).2.1)
  have d3 := decNats_encNats ((encSegs (predLen segSize k) [] (flatten b)).map Enc.l) []
    (by intro x hx; rcases List.mem_map.mp hx with ⟨e, he, rfl⟩; exact (hb e he).2.2.1)
  have d4 := decNats_encNats ((encSegs (predLen segSize k) [] (flatten b)).map Enc.r) []
    (by intro x hx; rcases List.mem_map.mp hx with ⟨e, he, rfl⟩; exact (hb e he).2.2.2)
  simp only [List.length_map, List.append_nil] at d1 d2 d3 d4
  rw [d1, d2, d3, d4]
  simp only
  rw [zip4_map, decSegs_encSegs _ hp _ [] tableOk_nil hflat]
  have := regroup_flatten b []
  simp only [List.append_nil] at this
  exact congrArg some this

theorem decodeDetailsL_encodeDetails (segSize k : Nat) (b : Batch) (have_ : List Nat)
    (hpred : segSize + k ≤ 2147483648) (hshape : ShapeOk b)
    (hseg : ∀ s ∈ b, ∀ c ∈ s, ∀ g ∈ c, SegOk g) (hfit : fits have_ b = true) :
    decodeDetailsL segSize k have_ (encodeDetails segSize k b) = .ok b := by
  have h := decodeDetailsRaw_encodeDetails segSize k b hpred hshape hseg
  simp only [encodeDetails] at h ⊢
  simp only [decodeDetailsL, decodeDetails, h, hfit, if_true]

end Ragc.Details
