import RagcModel.Lemmas.SplittersKmer
/-!
Self-segmentation: cutting a reference contig at every occurrence of a splitter of that reference
(the main loop of `split_at_splitters_with_size`: split at every full window whose canonical value
is in the set, then `kmer.reset()`) cuts exactly at the pick positions of the second pass.

The segmenter's main loop is `findLoop isS 0` restricted to its loop picks: with `segment_size = 0`
the test `current_len >= segment_size` is always true, so a pick happens at every full window
whose value satisfies `isS`, followed by the same `kmer.reset()`.
-/
namespace Ragc.Splitters
open Ragc.Kmer

/-- Picks chained by their windows: each pick's window is the automaton restarted right after the
    previous pick (or at `s` for the first). -/
def ChainW (k : Nat) (c : List UInt64) : Nat → List Pick → Prop
  | _, [] => True
  | s, p :: ps => WindowAt k c s p.pos p.kmer ∧ ChainW k c (p.pos + 1) ps

theorem chainW_endPick {k : Nat} {c : List UInt64} {isCand : UInt64 → Bool} {s : Nat} :
    ∀ (recent : List (Nat × UInt64)), (∀ r ∈ recent, WindowAt k c s r.1 r.2) →
      ChainW k c s (endPick isCand recent) := by
  intro recent
  induction recent with
  | nil => intro _; simp [endPick, ChainW]
  | cons r rest ih =>
    intro hr
    obtain ⟨q, v⟩ := r
    unfold endPick
    by_cases hc : isCand v = true
    · rw [if_pos hc]
      exact ⟨hr (q, v) List.mem_cons_self, trivial⟩
    · rw [if_neg hc]
      exact ih (fun r h => hr r (List.mem_cons_of_mem _ h))

/-- The picks of the second pass are chained: the window of each pick starts right after the
    previous loop pick. -/
theorem findLoop_chain (isCand : UInt64 → Bool) (k seg : Nat) (c : List UInt64) :
    ∀ (bs done : List UInt64) (s : Nat) (km : Kmer) (cl : Nat) (recent : List (Nat × UInt64)),
      c = done ++ bs → s ≤ done.length → km = feed (new k) (done.drop s) →
      (∀ r ∈ recent, WindowAt k c s r.1 r.2) →
      ChainW k c s (findLoop isCand seg km cl recent done.length bs) := by
  intro bs
  induction bs with
  | nil =>
    intro done s km cl recent _ _ _ hr
    rw [findLoop]
    exact chainW_endPick recent hr
  | cons b bs ih =>
    intro done s km cl recent hc hs hkm hr
    have hc' : c = (done ++ [b]) ++ bs := by rw [hc]; simp
    have hlen : (done ++ [b]).length = done.length + 1 := by simp
    have htake : c.take (done.length + 1) = done ++ [b] := by
      rw [hc', ← hlen, List.take_left]
    have hdrop : (done ++ [b]).drop s = done.drop s ++ [b] := List.drop_append_of_le_length hs
    rw [findLoop_cons]
    split
    · rename_i hb
      have hkm' : reset km = feed (new k) ((done ++ [b]).drop s) := by
        rw [hdrop, sp_feed_append, ← hkm]
        simp [feed, hb]
      rw [← hlen]
      exact ih (done ++ [b]) s (reset km) _ [] hc' (by omega) hkm' (by simp)
    · rename_i hb
      have hkm' : insert km b = feed (new k) ((done ++ [b]).drop s) := by
        rw [hdrop, sp_feed_append, ← hkm]
        simp [feed, hb]
      split
      · rename_i hfull
        have hw : WindowAt k c s done.length (data (insert km b)) := by
          refine ⟨by omega, ?_, ?_⟩
          · rw [htake, ← hkm']; exact hfull
          · rw [htake, ← hkm']
        split
        · refine ⟨hw, ?_⟩
          have hk : (insert km b).k = k := by
            rw [hkm', sp_feed_k]; rfl
          have hkm2 : reset (insert km b) = feed (new k) ((done ++ [b]).drop (done.length + 1)) := by
            rw [sp_reset_eq_new hk, ← hlen, List.drop_length]; rfl
          show ChainW k c (done.length + 1) _
          rw [← hlen]
          exact ih (done ++ [b]) (done ++ [b]).length _ _ [] hc' (by omega)
            (by rw [hlen]; exact hkm2) (by simp)
        · rw [← hlen]
          refine ih (done ++ [b]) s _ _ _ hc' (by omega) hkm' ?_
          intro r hr'
          rcases List.mem_cons.mp hr' with rfl | hr'
          · exact hw
          · exact hr r hr'
      · rw [← hlen]
        exact ih (done ++ [b]) s _ _ _ hc' (by omega) hkm' hr

theorem sp_isFull_reset {k : Nat} (h1 : 1 ≤ k) {km : Kmer} (hk : km.k = k) :
    isFull (reset km) = false := by
  unfold isFull reset
  simp only [beq_eq_false_iff_ne, ne_eq]
  rw [hk]; omega

/-- The segmenter loop against a chained list of expected picks `P`:
    if every element of `P` is an `isS` window chained from the current restart point, and every
    `isS` window from here on is at a position of `P`, then the loop picks exactly at `P`. -/
theorem segLoop_eq_chain (isS : UInt64 → Bool) (k : Nat) (h1 : 1 ≤ k) (c : List UInt64) :
    ∀ (bs done : List UInt64) (s : Nat) (km : Kmer) (cl : Nat) (recent : List (Nat × UInt64))
      (P : List Pick),
      c = done ++ bs → s ≤ done.length → km = feed (new k) (done.drop s) →
      ChainW k c s P →
      (∀ p ∈ P, done.length ≤ p.pos ∧ p.pos < c.length ∧ isS p.kmer = true) →
      P.Pairwise (fun a b => a.pos < b.pos) →
      (∀ q v s', done.length ≤ q → q < c.length → WindowAt k c s' q v → isS v = true →
        ∃ p ∈ P, p.pos = q) →
      ((findLoop isS 0 km cl recent done.length bs).filter (fun p => !p.atEnd)).map Pick.pos
        = P.map Pick.pos := by
  intro bs
  induction bs with
  | nil =>
    intro done s km cl recent P hc _ _ _ hP _ _
    rw [findLoop]
    have e : (endPick isS recent).filter (fun p => !p.atEnd) = [] := by
      apply List.filter_eq_nil_iff.mpr
      intro p hp
      simp [(mem_endPick hp).2.1]
    rw [e]
    cases P with
    | nil => rfl
    | cons p ps =>
      have := hP p List.mem_cons_self
      rw [hc] at this
      simp at this
      omega
  | cons b bs ih =>
    intro done s km cl recent P hc hs hkm hch hP hpw hB
    have hc' : c = (done ++ [b]) ++ bs := by rw [hc]; simp
    have hlen : (done ++ [b]).length = done.length + 1 := by simp
    have htake : c.take (done.length + 1) = done ++ [b] := by
      rw [hc', ← hlen, List.take_left]
    have hdrop : (done ++ [b]).drop s = done.drop s ++ [b] := List.drop_append_of_le_length hs
    have hkk : km.k = k := by rw [hkm, sp_feed_k]; rfl
    -- the state after this symbol, whatever it is
    have hstate : feed (new k) ((c.take (done.length + 1)).drop s) = feed km [b] := by
      rw [htake, hdrop, sp_feed_append, ← hkm]
    -- if no element of P sits at this position, all of P lies strictly later
    have later : (∀ p ∈ P, p.pos ≠ done.length) →
        ∀ p ∈ P, (done ++ [b]).length ≤ p.pos ∧ p.pos < c.length ∧ isS p.kmer = true := by
      intro hne p hp
      have h := hP p hp
      have := hne p hp
      exact ⟨by rw [hlen]; omega, h.2.1, h.2.2⟩
    have hB' : ∀ q v s', (done ++ [b]).length ≤ q → q < c.length → WindowAt k c s' q v →
        isS v = true → ∃ p ∈ P, p.pos = q := fun q v s' hq => hB q v s' (by rw [hlen] at hq; omega)
    -- an element of P at this position is its head, and its window is the present state
    have headHere : ∀ p ∈ P, p.pos = done.length →
        isFull (feed km [b]) = true ∧ isS (data (feed km [b])) = true := by
      intro p hp hpos
      cases P with
      | nil => cases hp
      | cons p0 ps =>
        have h0 : p0.pos = done.length := by
          rcases List.mem_cons.mp hp with rfl | hp'
          · exact hpos
          · have := List.rel_of_pairwise_cons hpw hp'
            have := (hP p0 List.mem_cons_self).1
            omega
        obtain ⟨⟨_, hf, hd⟩, _⟩ := hch
        rw [h0, hstate] at hf hd
        refine ⟨hf, ?_⟩
        rw [hd]; exact (hP p0 List.mem_cons_self).2.2
    rw [findLoop_cons]
    split
    · rename_i hb
      have hfeed : feed km [b] = reset km := by simp [feed, hb]
      have hkm' : reset km = feed (new k) ((done ++ [b]).drop s) := by
        rw [hdrop, sp_feed_append, ← hkm, hfeed]
      have hne : ∀ p ∈ P, p.pos ≠ done.length := by
        intro p hp hpos
        have := (headHere p hp hpos).1
        rw [hfeed, sp_isFull_reset h1 hkk] at this
        cases this
      rw [← hlen]
      exact ih (done ++ [b]) s (reset km) _ [] P hc' (by omega) hkm' hch (later hne) hpw hB'
    · rename_i hb
      have hfeed : feed km [b] = insert km b := by simp [feed, hb]
      have hkm' : insert km b = feed (new k) ((done ++ [b]).drop s) := by
        rw [hdrop, sp_feed_append, ← hkm, hfeed]
      split
      · rename_i hfull
        split
        · rename_i hpick
          simp only [ge_iff_le, Nat.zero_le, decide_true, Bool.true_and] at hpick
          -- the segmenter splits here: this position is the head of P
          have hw : WindowAt k c s done.length (data (insert km b)) := by
            refine ⟨by omega, ?_, ?_⟩
            · rw [hstate, hfeed]; exact hfull
            · rw [hstate, hfeed]
          obtain ⟨p, hp, hpos⟩ := hB done.length _ s (Nat.le_refl _)
            (by rw [hc]; simp) hw hpick
          cases P with
          | nil => cases hp
          | cons p0 ps =>
            have h0 : p0.pos = done.length := by
              rcases List.mem_cons.mp hp with rfl | hp'
              · exact hpos
              · have := List.rel_of_pairwise_cons hpw hp'
                have := (hP p0 List.mem_cons_self).1
                omega
            have hk : (insert km b).k = k := by rw [hkm', sp_feed_k]; rfl
            have hkm2 : reset (insert km b)
                = feed (new k) ((done ++ [b]).drop (done ++ [b]).length) := by
              rw [sp_reset_eq_new hk, List.drop_length]; rfl
            rw [List.filter_cons_of_pos (by simp), List.map_cons, List.map_cons, h0]
            congr 1
            rw [← hlen]
            refine ih (done ++ [b]) (done ++ [b]).length _ _ [] ps hc' (Nat.le_refl _) hkm2 ?_ ?_
              (List.Pairwise.of_cons hpw) ?_
            · have := hch.2
              rw [h0, ← hlen] at this
              exact this
            · intro q hq
              have h := hP q (List.mem_cons_of_mem _ hq)
              have := List.rel_of_pairwise_cons hpw hq
              exact ⟨by rw [hlen]; omega, h.2.1, h.2.2⟩
            · intro q v s' hq hql hwq hsv
              obtain ⟨p', hp', hq'⟩ := hB' q v s' hq hql hwq hsv
              rcases List.mem_cons.mp hp' with rfl | hp''
              · rw [hlen] at hq; omega
              · exact ⟨p', hp'', hq'⟩
        · rename_i hpick
          simp only [ge_iff_le, Nat.zero_le, decide_true, Bool.true_and] at hpick
          have hne : ∀ p ∈ P, p.pos ≠ done.length := by
            intro p hp hpos
            have := (headHere p hp hpos).2
            rw [hfeed] at this
            exact hpick this
          rw [← hlen]
          exact ih (done ++ [b]) s _ _ _ P hc' (by omega) hkm' hch (later hne) hpw hB'
      · rename_i hfull
        have hne : ∀ p ∈ P, p.pos ≠ done.length := by
          intro p hp hpos
          have := (headHere p hp hpos).1
          rw [hfeed] at this
          exact hfull this
        rw [← hlen]
        exact ih (done ++ [b]) s _ _ _ P hc' (by omega) hkm' hch (later hne) hpw hB'

/-! ## Positions are strictly increasing along a chain -/

theorem windowAt_start_le {k : Nat} (h1 : 1 ≤ k) {c : List UInt64} {s q : Nat} {v : UInt64}
    (h : WindowAt k c s q v) : s ≤ q := by
  obtain ⟨hs, hf, _⟩ := h
  rcases Nat.lt_or_ge q s with g | g
  · exfalso
    have : (c.take (q + 1)).drop s = [] :=
      List.drop_eq_nil_of_le (by rw [List.length_take]; omega)
    rw [this] at hf
    simp [feed, isFull, new] at hf
    omega
  · exact g

theorem chainW_strict {k : Nat} (h1 : 1 ≤ k) {c : List UInt64} :
    ∀ (P : List Pick) (s : Nat), ChainW k c s P →
      (∀ p ∈ P, s ≤ p.pos) ∧ P.Pairwise (fun a b => a.pos < b.pos) := by
  intro P
  induction P with
  | nil => intro s _; exact ⟨by simp, List.Pairwise.nil⟩
  | cons p ps ih =>
    intro s h
    obtain ⟨hw, hrest⟩ := h
    have hs := windowAt_start_le h1 hw
    obtain ⟨hlow, hpw⟩ := ih (p.pos + 1) hrest
    refine ⟨?_, List.pairwise_cons.mpr ⟨fun q hq => by have := hlow q hq; omega, hpw⟩⟩
    intro q hq
    rcases List.mem_cons.mp hq with rfl | hq
    · exact hs
    · have := hlow q hq; omega

/-! ## Counting windows -/

theorem windowsSpec_drop (canonW : List UInt64 → UInt64) (k : Nat) :
    ∀ (i : Nat) (l : List UInt64), i ≤ l.length →
      ∃ X, windowsSpec canonW k l = X ++ windowsSpec canonW k (l.drop i) := by
  intro i
  induction i with
  | zero => intro l _; exact ⟨[], by simp⟩
  | succ i ih =>
    intro l hl
    cases l with
    | nil => simp at hl
    | cons b bs =>
      obtain ⟨X, hX⟩ := ih bs (by simpa using hl)
      refine ⟨headWin canonW k (b :: bs) ++ X, ?_⟩
      show headWin canonW k (b :: bs) ++ windowsSpec canonW k bs = _
      rw [hX, List.drop_succ_cons, List.append_assoc]

theorem windowsSpec_head (canonW : List UInt64 → UInt64) (k : Nat) (h1 : 1 ≤ k)
    (t : List UInt64) (hk : k ≤ t.length) (hb : BasesOnly (t.take k)) :
    windowsSpec canonW k t = canonW (t.take k) :: windowsSpec canonW k (t.drop 1) := by
  cases t with
  | nil => simp at hk; omega
  | cons x xs =>
    show headWin canonW k (x :: xs) ++ windowsSpec canonW k xs = _
    unfold headWin
    rw [if_pos ⟨hk, hb⟩]
    rfl

/-- A window of bases starting at `i` contributes its value to the window list. -/
theorem count_one_window (canonW : List UInt64 → UInt64) (k : Nat) (h1 : 1 ≤ k) (l : List UInt64)
    (i : Nat) (v : UInt64) (hi : i + k ≤ l.length) (hb : BasesOnly ((l.drop i).take k))
    (hv : canonW ((l.drop i).take k) = v) : 1 ≤ (windowsSpec canonW k l).count v := by
  obtain ⟨X, hX⟩ := windowsSpec_drop canonW k i l (by omega)
  rw [hX, windowsSpec_head canonW k h1 (l.drop i) (by rw [List.length_drop]; omega) hb, hv,
    List.count_append, List.count_cons_self]
  omega

/-- Two windows of bases at different starts with the same value count twice. -/
theorem count_two_windows (canonW : List UInt64 → UInt64) (k : Nat) (h1 : 1 ≤ k)
    (l : List UInt64) (i j : Nat) (v : UInt64) (hij : i < j) (hj : j + k ≤ l.length)
    (hbi : BasesOnly ((l.drop i).take k)) (hvi : canonW ((l.drop i).take k) = v)
    (hbj : BasesOnly ((l.drop j).take k)) (hvj : canonW ((l.drop j).take k) = v) :
    2 ≤ (windowsSpec canonW k l).count v := by
  obtain ⟨X, hX⟩ := windowsSpec_drop canonW k i l (by omega)
  rw [hX, windowsSpec_head canonW k h1 (l.drop i) (by rw [List.length_drop]; omega) hbi, hvi,
    List.count_append, List.count_cons_self]
  have e : (l.drop i).drop 1 = l.drop (i + 1) := by rw [List.drop_drop]
  rw [e]
  have := count_one_window canonW k h1 (l.drop (i + 1)) (j - (i + 1)) v
    (by rw [List.length_drop]; omega)
    (by rw [List.drop_drop]; have : i + 1 + (j - (i + 1)) = j := by omega
        rw [this]; exact hbj)
    (by rw [List.drop_drop]; have : i + 1 + (j - (i + 1)) = j := by omega
        rw [this]; exact hvj)
  omega

theorem count_flatMap_one {β : Type} [BEq β] (f : List UInt64 → List β) (v : β) :
    ∀ (cs : List (List UInt64)) (c : List UInt64), c ∈ cs →
      (f c).count v ≤ (cs.flatMap f).count v := by
  intro cs
  induction cs with
  | nil => intro c h; cases h
  | cons x xs ih =>
    intro c h
    rw [List.flatMap_cons, List.count_append]
    rcases List.mem_cons.mp h with rfl | h
    · omega
    · have := ih c h; omega

theorem count_flatMap_two {β : Type} [BEq β] (f : List UInt64 → List β) (v : β) :
    ∀ (cs : List (List UInt64)) (c c' : List UInt64), c ∈ cs → c' ∈ cs → c ≠ c' →
      (f c).count v + (f c').count v ≤ (cs.flatMap f).count v := by
  intro cs
  induction cs with
  | nil => intro c c' h; cases h
  | cons x xs ih =>
    intro c c' h h' hne
    rw [List.flatMap_cons, List.count_append]
    rcases List.mem_cons.mp h with e1 | g1
    · rcases List.mem_cons.mp h' with e2 | g2
      · exact absurd (e1.trans e2.symm) hne
      · have := count_flatMap_one f v xs c' g2; rw [e1]; omega
    · rcases List.mem_cons.mp h' with e2 | g2
      · have := count_flatMap_one f v xs c g1; rw [e2]; omega
      · have := ih c c' g1 g2 hne; omega

/-- C20's `enumerate_spec`, in the `windowsSpec` vocabulary. -/
theorem enumerateKmers_eq_windowsSpec (k : Nat) (h1 : 1 ≤ k) (h32 : k ≤ 32) (c : List UInt64) :
    enumerateKmers c k = windowsSpec canon k c := by
  rw [← specWindows_eq_windowsSpec]
  unfold enumerateKmers
  by_cases h : c.length < k
  · rw [if_pos h, specWindows_short _ h]
  · rw [if_neg h, enumLoop_spec h1 h32 c (new k) [] (inv_new k)]
    simp [lastK]

/-- The `k` symbols ending at position `q`, as a slice from their start. -/
theorem lastK_take_eq {k q : Nat} {c : List UInt64} (hk : k ≤ q + 1) (hq : q < c.length) :
    lastK k (c.take (q + 1)) = (c.drop (q + 1 - k)).take k := by
  unfold lastK
  rw [List.length_take, Nat.min_eq_left (by omega), List.drop_take]
  congr 1
  omega

end Ragc.Splitters
