import RagcModel.Model.FileIO
import RagcModel.Lemmas.Varint
/-!
Helper lemmas for C15 (`Model/FileIO.lean`).

Two predicates describe a `BufWriter` in the middle of a run against the byte stream `pre`
handed to it so far:
* `Good lim pre w`  — no error yet: file contents ++ buffer = `pre`, the file is within its limit;
* `Failed lim tgt s` — an error has been returned: the file `s` holds exactly the first `lim`
  bytes of `tgt` and `tgt` is longer than `lim` (so the file is full).
-/
namespace Ragc.FileIO
open Ragc.Varint

/-- no error so far -/
structure Good (lim : Nat) (pre : Bytes) (w : BufWriter) : Prop where
  lim_eq : w.inner.limit = lim
  inv : w.inner.contents.length ≤ lim
  stream : w.inner.contents ++ w.buf = pre

/-- the file after an error -/
structure Failed (lim : Nat) (tgt : Bytes) (s : Sink) : Prop where
  lim_eq : s.limit = lim
  contents : s.contents = tgt.take lim
  short : lim < tgt.length

theorem Failed.full {lim : Nat} {tgt : Bytes} {s : Sink} (h : Failed lim tgt s) :
    s.contents.length = s.limit := by
  rw [h.contents, h.lim_eq, List.length_take]; have := h.short; omega

theorem Failed.extend {lim : Nat} {tgt : Bytes} {s : Sink} (h : Failed lim tgt s) (more : Bytes) :
    Failed lim (tgt ++ more) s :=
  ⟨h.lim_eq, by rw [h.contents, List.take_append_of_le_length (Nat.le_of_lt h.short)],
   by rw [List.length_append]; have := h.short; omega⟩

/-- `Sink.write`, success side. -/
theorem Sink.write_ok {s : Sink} {bs : Bytes} {k : Nat} {s' : Sink}
    (h : s.write bs = (.ok, k, s')) :
    k = bs.length ∧ s'.limit = s.limit ∧ s'.contents = s.contents ++ bs ∧
    s.contents.length + bs.length ≤ max s.limit s.contents.length := by
  unfold Sink.write at h
  split at h
  · rename_i hle
    simp only [Prod.mk.injEq, true_and] at h
    obtain ⟨rfl, rfl⟩ := h
    refine ⟨rfl, rfl, rfl, ?_⟩
    unfold Sink.room at hle; omega
  · simp at h

/-- `Sink.write`, failure side. -/
theorem Sink.write_err {s : Sink} {bs : Bytes} {k : Nat} {s' : Sink}
    (hinv : s.contents.length ≤ s.limit) (h : s.write bs = (.err, k, s')) :
    k = s.limit - s.contents.length ∧ k < bs.length ∧ Failed s.limit (s.contents ++ bs) s' := by
  unfold Sink.write at h
  split at h
  · simp at h
  · rename_i hle
    simp only [Prod.mk.injEq, true_and] at h
    obtain ⟨rfl, rfl⟩ := h
    unfold Sink.room at hle ⊢
    refine ⟨rfl, by omega, rfl, ?_, by rw [List.length_append]; omega⟩
    show s.contents ++ List.take (s.limit - s.contents.length) bs = _
    rw [List.take_append, List.take_of_length_le hinv]

/-- A write never shrinks the file, never exceeds the limit, keeps the limit. -/
theorem Sink.write_ext (s : Sink) (bs : Bytes) (hinv : s.contents.length ≤ s.limit) :
    (s.write bs).2.2.limit = s.limit ∧ (s.write bs).2.2.contents.length ≤ s.limit ∧
    ∃ t, (s.write bs).2.2.contents = s.contents ++ t := by
  unfold Sink.write Sink.room
  split
  · rename_i hle
    exact ⟨rfl, by simp only [List.length_append]; omega, bs, rfl⟩
  · exact ⟨rfl, by simp only [List.length_append, List.length_take]; omega, _, rfl⟩

/-- `Ext s s'`: `s'` is `s` after some more writes. -/
structure Ext (s s' : Sink) : Prop where
  lim_eq : s'.limit = s.limit
  inv : s'.contents.length ≤ s.limit
  ext : ∃ t, s'.contents = s.contents ++ t

theorem Ext.refl (s : Sink) (h : s.contents.length ≤ s.limit) : Ext s s := ⟨rfl, h, [], by simp⟩

theorem Ext.trans {a b c : Sink} (h1 : Ext a b) (h2 : Ext b c) : Ext a c := by
  obtain ⟨t1, e1⟩ := h1.ext
  obtain ⟨t2, e2⟩ := h2.ext
  exact ⟨h2.lim_eq.trans h1.lim_eq, by have := h2.inv; rw [h1.lim_eq] at this; exact this,
    t1 ++ t2, by rw [e2, e1, List.append_assoc]⟩

theorem Ext.inv' {a b : Sink} (h : Ext a b) : b.contents.length ≤ b.limit := by
  rw [h.lim_eq]; exact h.inv

/-- Once the file is full nothing changes any more. -/
theorem Ext.of_full {a b : Sink} (h : Ext a b) (hf : a.contents.length = a.limit) :
    b.contents = a.contents := by
  obtain ⟨t, e⟩ := h.ext
  have hl := h.inv
  rw [e, List.length_append] at hl
  have : t.length = 0 := by omega
  rw [e, List.length_eq_zero_iff.mp this, List.append_nil]

theorem Sink.write_Ext (s : Sink) (bs : Bytes) (hinv : s.contents.length ≤ s.limit) :
    Ext s (s.write bs).2.2 :=
  let ⟨a, b, c⟩ := Sink.write_ext s bs hinv
  ⟨a, b, c⟩

/-! ### `flush_buf` -/

theorem flushBuf_Ext (w : BufWriter) (hinv : w.inner.contents.length ≤ w.inner.limit) :
    Ext w.inner w.flushBuf.2.inner ∧ w.flushBuf.2.cap = w.cap := by
  unfold BufWriter.flushBuf
  exact ⟨Sink.write_Ext _ _ hinv, rfl⟩

theorem flushBuf_ok {lim : Nat} {pre : Bytes} {w w' : BufWriter} (g : Good lim pre w)
    (h : w.flushBuf = (.ok, w')) : Good lim pre w' ∧ w'.buf = [] ∧ w'.cap = w.cap := by
  unfold BufWriter.flushBuf at h
  rcases hw : w.inner.write w.buf with ⟨r, k, inner'⟩
  rw [hw] at h
  simp only [Prod.mk.injEq] at h
  obtain ⟨rfl, rfl⟩ := h
  obtain ⟨hk, hl, hc, hle⟩ := Sink.write_ok hw
  have hb : List.drop k w.buf = [] := by rw [hk]; exact List.drop_length
  have hstream : inner'.contents = pre := by rw [hc]; exact g.stream
  refine ⟨⟨hl.trans g.lim_eq, ?_, by simp only [hb, List.append_nil]; exact hstream⟩, hb, rfl⟩
  have h1 := g.inv; have h2 := g.lim_eq
  rw [hc, List.length_append]; omega

theorem flushBuf_err {lim : Nat} {pre : Bytes} {w w' : BufWriter} (g : Good lim pre w)
    (h : w.flushBuf = (.err, w')) : Failed lim pre w'.inner ∧ w'.cap = w.cap := by
  unfold BufWriter.flushBuf at h
  rcases hw : w.inner.write w.buf with ⟨r, k, inner'⟩
  rw [hw] at h
  simp only [Prod.mk.injEq] at h
  obtain ⟨rfl, rfl⟩ := h
  have hinv : w.inner.contents.length ≤ w.inner.limit := by rw [g.lim_eq]; exact g.inv
  obtain ⟨_, _, hf⟩ := Sink.write_err hinv hw
  rw [g.stream, g.lim_eq] at hf
  exact ⟨hf, rfl⟩

/-! ### `write_all` -/

theorem direct_Ext (w : BufWriter) (bs : Bytes) (hinv : w.inner.contents.length ≤ w.inner.limit) :
    Ext w.inner (w.direct bs).2.inner ∧ (w.direct bs).2.cap = w.cap := by
  unfold BufWriter.direct
  split
  · exact ⟨Sink.write_Ext _ _ hinv, rfl⟩
  · exact ⟨Ext.refl _ hinv, rfl⟩

theorem direct_ok {lim : Nat} {pre bs : Bytes} {w w' : BufWriter} (g : Good lim pre w)
    (hdir : bs.length ≥ w.cap → w.buf = [] ∨ bs = [])
    (h : w.direct bs = (.ok, w')) : Good lim (pre ++ bs) w' ∧ w'.cap = w.cap := by
  unfold BufWriter.direct at h
  split at h
  · rename_i hge
    rcases hw : w.inner.write bs with ⟨r2, k, inner'⟩
    rw [hw] at h
    simp only [Prod.mk.injEq] at h
    obtain ⟨rfl, rfl⟩ := h
    obtain ⟨_, hl, hcont, hle⟩ := Sink.write_ok hw
    have h1 := g.inv; have h2 := g.lim_eq
    refine ⟨⟨hl.trans g.lim_eq, by rw [hcont, List.length_append]; omega, ?_⟩, rfl⟩
    show inner'.contents ++ w.buf = pre ++ bs
    rcases hdir hge with hb | hb
    · rw [hcont, hb, List.append_nil, ← g.stream, hb, List.append_nil]
    · rw [hcont, hb, List.append_nil, List.append_nil]; exact g.stream
  · simp only [Prod.mk.injEq, true_and] at h
    subst h
    exact ⟨⟨g.lim_eq, g.inv, by simp only [← List.append_assoc, g.stream]⟩, rfl⟩

theorem direct_err {lim : Nat} {pre bs : Bytes} {w w' : BufWriter} (g : Good lim pre w)
    (hdir : bs.length ≥ w.cap → w.buf = [] ∨ bs = [])
    (h : w.direct bs = (.err, w')) : Failed lim (pre ++ bs) w'.inner ∧ w'.cap = w.cap := by
  unfold BufWriter.direct at h
  split at h
  · rename_i hge
    rcases hw : w.inner.write bs with ⟨r2, k, inner'⟩
    rw [hw] at h
    simp only [Prod.mk.injEq] at h
    obtain ⟨rfl, rfl⟩ := h
    have hinv : w.inner.contents.length ≤ w.inner.limit := by rw [g.lim_eq]; exact g.inv
    obtain ⟨_, hk, hf⟩ := Sink.write_err hinv hw
    rcases hdir hge with hb | hb
    · have : w.inner.contents = pre := by rw [← g.stream, hb, List.append_nil]
      rw [this, g.lim_eq] at hf
      exact ⟨hf, rfl⟩
    · subst hb; simp at hk
  · simp at h

theorem writeAll_Ext (w : BufWriter) (bs : Bytes) (hinv : w.inner.contents.length ≤ w.inner.limit) :
    Ext w.inner (w.writeAll bs).2.inner ∧ (w.writeAll bs).2.cap = w.cap := by
  unfold BufWriter.writeAll
  split
  · exact ⟨Ext.refl _ hinv, rfl⟩
  · split
    · have hfe := flushBuf_Ext w hinv
      rcases hfb : w.flushBuf with ⟨r, w1⟩
      rw [hfb] at hfe
      cases r with
      | err => exact hfe
      | ok =>
        have := direct_Ext w1 bs hfe.1.inv'
        exact ⟨hfe.1.trans this.1, this.2.trans hfe.2⟩
    · exact direct_Ext w bs hinv

theorem writeAll_ok {lim : Nat} {pre bs : Bytes} {w w' : BufWriter} (g : Good lim pre w)
    (h : w.writeAll bs = (.ok, w')) : Good lim (pre ++ bs) w' ∧ w'.cap = w.cap := by
  unfold BufWriter.writeAll at h
  split at h
  · simp only [Prod.mk.injEq, true_and] at h
    subst h
    exact ⟨⟨g.lim_eq, g.inv, by simp only [← List.append_assoc, g.stream]⟩, rfl⟩
  · rename_i hnlt
    split at h
    · rcases hfb : w.flushBuf with ⟨r, w1⟩
      rw [hfb] at h
      cases r with
      | err => simp at h
      | ok =>
        obtain ⟨g1, hb, hc⟩ := flushBuf_ok g hfb
        obtain ⟨g2, hc2⟩ := direct_ok g1 (fun _ => Or.inl hb) h
        exact ⟨g2, hc2.trans hc⟩
    · rename_i hngt
      refine direct_ok g (fun hge => ?_) h
      by_cases hb : w.buf.length = 0
      · exact Or.inl (List.length_eq_zero_iff.mp hb)
      · right; apply List.length_eq_zero_iff.mp; omega

theorem writeAll_err {lim : Nat} {pre bs : Bytes} {w w' : BufWriter} (g : Good lim pre w)
    (h : w.writeAll bs = (.err, w')) : Failed lim (pre ++ bs) w'.inner ∧ w'.cap = w.cap := by
  unfold BufWriter.writeAll at h
  split at h
  · simp at h
  · rename_i hnlt
    split at h
    · rcases hfb : w.flushBuf with ⟨r, w1⟩
      rw [hfb] at h
      cases r with
      | err =>
        simp only [Prod.mk.injEq, true_and] at h
        subst h
        obtain ⟨hf, hc⟩ := flushBuf_err g hfb
        exact ⟨hf.extend bs, hc⟩
      | ok =>
        obtain ⟨g1, hb, hc⟩ := flushBuf_ok g hfb
        obtain ⟨hf, hc2⟩ := direct_err g1 (fun _ => Or.inl hb) h
        exact ⟨hf, hc2.trans hc⟩
    · rename_i hngt
      refine direct_err g (fun hge => ?_) h
      by_cases hb : w.buf.length = 0
      · exact Or.inl (List.length_eq_zero_iff.mp hb)
      · right; apply List.length_eq_zero_iff.mp; omega

/-! ### sequences of `write_all` -/

theorem writeChunks_Ext (cs : List Bytes) (w : BufWriter)
    (hinv : w.inner.contents.length ≤ w.inner.limit) :
    Ext w.inner (writeChunks w cs).2.inner ∧ (writeChunks w cs).2.cap = w.cap := by
  induction cs generalizing w with
  | nil => exact ⟨Ext.refl _ hinv, rfl⟩
  | cons c rest ih =>
    unfold writeChunks
    have hwa := writeAll_Ext w c hinv
    rcases hw : w.writeAll c with ⟨r, w1⟩
    rw [hw] at hwa
    cases r with
    | err => exact hwa
    | ok =>
      have := ih w1 hwa.1.inv'
      exact ⟨hwa.1.trans this.1, this.2.trans hwa.2⟩

theorem writeChunks_ok {lim : Nat} (cs : List Bytes) {pre : Bytes} {w w' : BufWriter}
    (g : Good lim pre w) (h : writeChunks w cs = (.ok, w')) :
    Good lim (pre ++ cs.flatten) w' ∧ w'.cap = w.cap := by
  induction cs generalizing w pre with
  | nil =>
    simp only [writeChunks, Prod.mk.injEq, true_and] at h
    subst h; simpa using g
  | cons c rest ih =>
    unfold writeChunks at h
    rcases hw : w.writeAll c with ⟨r, w1⟩
    rw [hw] at h
    cases r with
    | err => simp at h
    | ok =>
      obtain ⟨g1, hc⟩ := writeAll_ok g hw
      obtain ⟨g2, hc2⟩ := ih g1 h
      refine ⟨?_, hc2.trans hc⟩
      simpa [List.flatten_cons, List.append_assoc] using g2

theorem writeChunks_err {lim : Nat} (cs : List Bytes) {pre : Bytes} {w w' : BufWriter}
    (g : Good lim pre w) (h : writeChunks w cs = (.err, w')) :
    Failed lim (pre ++ cs.flatten) w'.inner ∧ w'.cap = w.cap := by
  induction cs generalizing w pre with
  | nil => simp [writeChunks] at h
  | cons c rest ih =>
    unfold writeChunks at h
    rcases hw : w.writeAll c with ⟨r, w1⟩
    rw [hw] at h
    cases r with
    | err =>
      simp only [Prod.mk.injEq, true_and] at h
      subst h
      obtain ⟨hf, hc⟩ := writeAll_err g hw
      have := hf.extend rest.flatten
      rw [List.append_assoc] at this
      exact ⟨by simpa [List.flatten_cons] using this, hc⟩
    | ok =>
      obtain ⟨g1, hc⟩ := writeAll_ok g hw
      obtain ⟨hf, hc2⟩ := ih g1 h
      refine ⟨?_, hc2.trans hc⟩
      simpa [List.flatten_cons, List.append_assoc] using hf

/-! ### `serialize`, `close` -/

theorem serialize_Ext (w : BufWriter) (footer : Bytes)
    (hinv : w.inner.contents.length ≤ w.inner.limit) : Ext w.inner (serialize w footer).2.inner := by
  unfold serialize
  have h1 := writeAll_Ext w footer hinv
  rcases hw1 : w.writeAll footer with ⟨r1, w1⟩
  rw [hw1] at h1
  cases r1 with
  | err => exact h1.1
  | ok =>
    dsimp only
    have h2 := writeAll_Ext w1 (le64 footer.length) h1.1.inv'
    rcases hw2 : w1.writeAll (le64 footer.length) with ⟨r2, w2⟩
    rw [hw2] at h2
    cases r2 with
    | err => exact h1.1.trans h2.1
    | ok => exact (h1.1.trans h2.1).trans (flushBuf_Ext w2 h2.1.inv').1

theorem serialize_ok {lim : Nat} {pre footer : Bytes} {w w' : BufWriter} (g : Good lim pre w)
    (h : serialize w footer = (.ok, w')) :
    Good lim (pre ++ footer ++ le64 footer.length) w' ∧ w'.buf = [] := by
  unfold serialize at h
  rcases hw1 : w.writeAll footer with ⟨r1, w1⟩
  rw [hw1] at h
  cases r1 with
  | err => simp at h
  | ok =>
    dsimp only at h
    obtain ⟨g1, _⟩ := writeAll_ok g hw1
    rcases hw2 : w1.writeAll (le64 footer.length) with ⟨r2, w2⟩
    rw [hw2] at h
    cases r2 with
    | err => simp at h
    | ok =>
      obtain ⟨g2, _⟩ := writeAll_ok g1 hw2
      obtain ⟨g3, hb, _⟩ := flushBuf_ok g2 h
      exact ⟨g3, hb⟩

theorem serialize_err {lim : Nat} {pre footer : Bytes} {w w' : BufWriter} (g : Good lim pre w)
    (h : serialize w footer = (.err, w')) :
    Failed lim (pre ++ footer ++ le64 footer.length) w'.inner := by
  unfold serialize at h
  rcases hw1 : w.writeAll footer with ⟨r1, w1⟩
  rw [hw1] at h
  cases r1 with
  | err =>
    simp only [Prod.mk.injEq, true_and] at h
    subst h
    exact (writeAll_err g hw1).1.extend _
  | ok =>
    dsimp only at h
    obtain ⟨g1, _⟩ := writeAll_ok g hw1
    rcases hw2 : w1.writeAll (le64 footer.length) with ⟨r2, w2⟩
    rw [hw2] at h
    cases r2 with
    | err =>
      simp only [Prod.mk.injEq, true_and] at h
      subst h
      exact (writeAll_err g1 hw2).1
    | ok =>
      obtain ⟨g2, _⟩ := writeAll_ok g1 hw2
      exact (flushBuf_err g2 h).1

/-- `BufWriter::drop` only extends the file. -/
theorem drop_Ext (w : BufWriter) (hinv : w.inner.contents.length ≤ w.inner.limit) :
    Ext w.inner w.drop := (flushBuf_Ext w hinv).1

/-- The file of an archive whose writer is still in place. -/
theorem file_of_writer (a : Arch) (w : BufWriter) (h : a.writer = some w) :
    a.file = w.inner.contents := by
  unfold Arch.file; rw [h]

/-- Whatever `Drop for Archive` does, it only extends the file within the limit. -/
theorem dropArchive_Ext (w : BufWriter) (c : Option Sink) (footerD : Bytes)
    (hinv : w.inner.contents.length ≤ w.inner.limit) :
    ∃ s', Ext w.inner s' ∧ ((⟨some w, c⟩ : Arch).dropArchive footerD).2 = s'.contents := by
  unfold Arch.dropArchive Arch.close
  dsimp only
  have hf := flushBuf_Ext w hinv
  unfold BufWriter.flush
  rcases hfb : w.flushBuf with ⟨r1, w1⟩
  rw [hfb] at hf
  cases r1 with
  | err => exact ⟨w1.drop, hf.1.trans (drop_Ext w1 hf.1.inv'), rfl⟩
  | ok =>
    dsimp only
    have hs := serialize_Ext w1 footerD hf.1.inv'
    rcases hser : serialize w1 footerD with ⟨r2, w2⟩
    rw [hser] at hs
    cases r2 with
    | err => exact ⟨w2.drop, (hf.1.trans hs).trans (drop_Ext w2 (hf.1.trans hs).inv'), rfl⟩
    | ok =>
      refine ⟨w2.drop, (hf.1.trans hs).trans (drop_Ext w2 (hf.1.trans hs).inv'), ?_⟩
      simp [Arch.file]

end Ragc.FileIO
