import RagcModel.Lemmas.Kmer
import RagcModel.Lemmas.Splitters
/-!
Bridge between the C20 vocabulary (`Lemmas/Kmer.lean`: `Valid`, `rcWindow`, `canon`,
`specWindows`, `Inv`) and the C11 vocabulary (`Lemmas/Splitters.lean`: `BasesOnly`, `rcWin`,
`windowsSpec`, `WindowAt`).
-/
namespace Ragc.Splitters
open Ragc.Kmer

theorem valid_iff_basesOnly (w : List UInt64) : Valid w ↔ BasesOnly w := Iff.rfl

theorem rcWindow_eq_rcWin (w : List UInt64) : rcWindow w = rcWin w := rfl

/-- C20's `specWindows` is `windowsSpec` at C20's `canon`. -/
theorem specWindows_eq_windowsSpec (k : Nat) :
    ∀ (l : List UInt64), specWindows k l = windowsSpec canon k l := by
  intro l
  induction l with
  | nil => rfl
  | cons b bs ih =>
    unfold specWindows windowsSpec headWin
    rw [ih]
    by_cases h : k ≤ (b :: bs).length ∧ Valid ((b :: bs).take k)
    · have h' : k ≤ (b :: bs).length ∧ BasesOnly ((b :: bs).take k) := h
      rw [if_pos h, if_pos h']; rfl
    · have h' : ¬ (k ≤ (b :: bs).length ∧ BasesOnly ((b :: bs).take k)) := h
      rw [if_neg h, if_neg h']; rfl

/-- The window held by the automaton is a suffix of everything fed to it. -/
theorem inv_feed_suffix {k : Nat} (h1 : 1 ≤ k) (h32 : k ≤ 32) :
    ∀ (xs : List UInt64) (km : Kmer) (u t0 : List UInt64), Inv k km u →
      ∃ u', Inv k (feed km xs) u' ∧ ∃ t, t0 ++ u ++ xs = t ++ u' := by
  intro xs
  induction xs with
  | nil => intro km u t0 h; exact ⟨u, h, t0, by simp⟩
  | cons s xs ih =>
    intro km u t0 h
    by_cases hs : s > 3
    · rw [feed_cons_reset km hs]
      obtain ⟨u', hu, t, ht⟩ := ih (reset km) [] (t0 ++ u ++ [s]) (inv_reset h)
      exact ⟨u', hu, t, by rw [← ht]; simp⟩
    · have hs' := not_gt3.mp hs
      rw [feed_cons_valid km hs']
      obtain ⟨u', hu, t, ht⟩ :=
        ih (insert km s) (lastK k (u ++ [s])) (t0 ++ (u ++ [s]).take ((u ++ [s]).length - k))
          (inv_insert h h1 h32 hs')
      refine ⟨u', hu, t, ?_⟩
      rw [← ht]
      unfold lastK
      have := List.take_append_drop ((u ++ [s]).length - k) (u ++ [s])
      calc t0 ++ u ++ s :: xs = t0 ++ (u ++ [s]) ++ xs := by simp
        _ = t0 ++ ((u ++ [s]).take ((u ++ [s]).length - k)
              ++ (u ++ [s]).drop ((u ++ [s]).length - k)) ++ xs := by rw [this]
        _ = _ := by simp

/-- `WindowAt` in from-scratch terms: the last `k` symbols up to and including position `q` are
    bases, and the value is their canonical packing. -/
theorem windowAt_scratch {k : Nat} (h1 : 1 ≤ k) (h32 : k ≤ 32) {c : List UInt64} {s q : Nat}
    {v : UInt64} (h : WindowAt k c s q v) :
    (lastK k (c.take (q + 1))).length = k ∧ Valid (lastK k (c.take (q + 1)))
      ∧ v = canon (lastK k (c.take (q + 1))) := by
  obtain ⟨_, hfull, hdata⟩ := h
  obtain ⟨u, hu, t, ht⟩ :=
    inv_feed_suffix h1 h32 ((c.take (q + 1)).drop s) (new k) [] [] (inv_new k)
  have hlen : u.length = k := by
    have := inv_isFull hu
    rw [hfull] at this
    exact of_decide_eq_true this.symm
  have hsplit : c.take (q + 1) = ((c.take (q + 1)).take s ++ t) ++ u := by
    have := List.take_append_drop s (c.take (q + 1))
    simp only [List.nil_append] at ht
    rw [List.append_assoc, ← ht, this]
  have hl : lastK k (c.take (q + 1)) = u := by
    rw [hsplit]; exact lastK_append_right hlen
  rw [hl]
  exact ⟨hlen, hu.valid, by rw [← hdata]; exact inv_data hu⟩

end Ragc.Splitters
