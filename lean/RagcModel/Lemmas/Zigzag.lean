import RagcModel.Model.Zigzag
/-! Predictive zigzag: round trip and the facts the in-group-id escape coding relies on (C03). -/
namespace Ragc.Zigzag

/-- Closed form of the encoder where nothing wraps. -/
theorem zigzagEncode_eq (x p : Nat) (hx : x < 18446744073709551616) (hp : p < 9223372036854775808) :
    zigzagEncode x p = if x < p then 2 * (p - x) - 1 else if x < 2 * p then 2 * (x - p) else x := by
  unfold zigzagEncode wsub wdbl U64
  by_cases h1 : x < p
  · rw [if_pos h1, if_pos h1]; omega
  · rw [if_neg h1, if_neg h1]
    have e : 2 * p % 18446744073709551616 = 2 * p := by omega
    rw [e]
    by_cases h2 : x < 2 * p
    · rw [if_pos h2, if_pos h2]; omega
    · rw [if_neg h2, if_neg h2]

theorem zigzagDecode_encode (x p : Nat) (hx : x < 9223372036854775808) (hp : p < 9223372036854775808) :
    zigzagDecode (zigzagEncode x p) p = x := by
  rw [zigzagEncode_eq x p (by omega) hp]
  unfold zigzagDecode wsub wadd wdbl U64
  have e : 2 * p % 18446744073709551616 = 2 * p := by omega
  rw [e]
  by_cases h1 : x < p
  · rw [if_pos h1, if_neg (by omega), if_pos (by omega)]; omega
  · rw [if_neg h1]
    by_cases h2 : x < 2 * p
    · rw [if_pos h2, if_neg (by omega), if_neg (by omega)]; omega
    · rw [if_neg h2, if_pos (by omega)]

/-- The code of a value different from the prediction is never 0. -/
theorem zigzagEncode_pos (x p : Nat) (hx : x < 18446744073709551616) (hp : p < 9223372036854775808)
    (hne : x ≠ p) : 1 ≤ zigzagEncode x p := by
  rw [zigzagEncode_eq x p hx hp]
  by_cases h1 : x < p
  · rw [if_pos h1]; omega
  · rw [if_neg h1]
    by_cases h2 : x < 2 * p
    · rw [if_pos h2]; omega
    · rw [if_neg h2]; omega

/-- Size of the code: below `2^32` when value `< 2^32` and prediction `≤ 2^31`
    (so the `as u32` of the callers loses nothing). -/
theorem zigzagEncode_lt (x p : Nat) (hx : x < 4294967296) (hp : p ≤ 2147483648) :
    zigzagEncode x p < 4294967296 := by
  rw [zigzagEncode_eq x p (by omega) (by omega)]
  by_cases h1 : x < p
  · rw [if_pos h1]; omega
  · rw [if_neg h1]
    by_cases h2 : x < 2 * p
    · rw [if_pos h2]; omega
    · rw [if_neg h2]; omega

/-- A little sharper when the value is not 0: room for the `+ 1` of the escape. -/
theorem zigzagEncode_lt_pred (x p : Nat) (hx : x + 1 < 4294967296) (h0 : 0 < x) (hp : p ≤ 2147483648) :
    zigzagEncode x p + 1 < 4294967296 := by
  rw [zigzagEncode_eq x p (by omega) (by omega)]
  by_cases h1 : x < p
  · rw [if_pos h1]; omega
  · rw [if_neg h1]
    by_cases h2 : x < 2 * p
    · rw [if_pos h2]; omega
    · rw [if_neg h2]; omega

/-- The decoder is also a right inverse where nothing wraps (`v + 2p < 2^64`): every code word is
    the code of the value it decodes to, so the coding is canonical (one code per value). -/
theorem zigzagEncode_decode (v p : Nat) (h : v + 2 * p < 18446744073709551616) :
    zigzagEncode (zigzagDecode v p) p = v := by
  have e : 2 * p % 18446744073709551616 = 2 * p := by omega
  unfold zigzagDecode wsub wadd wdbl U64
  rw [e]
  by_cases h1 : v ≥ 2 * p
  · rw [if_pos h1, zigzagEncode_eq v p (by omega) (by omega), if_neg (by omega), if_neg (by omega)]
  · rw [if_neg h1]
    by_cases h2 : v % 2 ≠ 0
    · rw [if_pos h2]
      have hx : (2 * p + 18446744073709551616 - v % 18446744073709551616) % 18446744073709551616 / 2
          = (2 * p - v) / 2 := by omega
      rw [hx, zigzagEncode_eq _ p (by omega) (by omega), if_pos (by omega)]; omega
    · rw [if_neg h2]
      have hx : (v + 2 * p) % 18446744073709551616 / 2 = v / 2 + p := by omega
      rw [hx, zigzagEncode_eq _ p (by omega) (by omega), if_neg (by omega), if_pos (by omega)]; omega

end Ragc.Zigzag
