import RagcModel.Model.Writer
import RagcModel.Lemmas.Packs
import RagcModel.Lemmas.SegCompress
import RagcModel.Props.C09
import RagcModel.Props.C12
/-!
Helper lemmas for `read_write` (C01/C02), part 1: the decoder's `decodeGroup` / `getSegment` on
what `Writer.writeGroup` stores. No container, no catalogue here: the parts are given as blobs.
-/
namespace Ragc.WriterLemmas
open Ragc.Agc3 Ragc.Packs Ragc.Writer Ragc.Container Ragc.SegCompress

/-! ## stored parts read back -/

theorem framePart_snd (c : List Nat) (m : Nat) (raw : List Nat) :
    (framePart c m raw).2 = 0 ∨ ((framePart c m raw).2 = raw.length ∧ (framePart c m raw).1 ≠ []) := by
  unfold framePart
  simp only []
  split
  · right; exact ⟨rfl, by simp⟩
  · left; rfl

/-- a stored part survives the container's "empty part loses its metadata" rule -/
theorem readBack_framePart (c : List Nat) (m : Nat) (raw : List Nat) :
    Spec.readBack (framePart c m raw) = framePart c m raw := by
  unfold Spec.readBack
  split
  · rename_i he
    rcases framePart_snd c m raw with h | ⟨_, h⟩
    · have : (framePart c m raw).1 = [] := List.isEmpty_iff.mp he
      exact Prod.ext this.symm h.symm
    · exact absurd (List.isEmpty_iff.mp he) h
  · rfl

theorem readBack_storePack (zc : Nat → List Nat → List Nat) (level : Nat) (x : List Nat) :
    Spec.readBack (storePack zc level x) = storePack zc level x := readBack_framePart _ _ _

theorem readBack_storeReference (zc : Nat → List Nat → List Nat) (ch : List Nat → Bool) (x : List Nat) :
    Spec.readBack (storeReference zc ch x) = storeReference zc ch x := readBack_framePart _ _ _

/-- `unframeChecked` on a part written by `framePart`: the content, and no violation. -/
theorem unframeChecked_framePart (zd : List Nat → Option (List Nat)) (c : List Nat) (m : Nat) (raw : List Nat)
    (hdec : decompressWithMarker zd c m = some raw) (a : Acc) (what : String) :
    unframeChecked zd a what (framePart c m raw) = (a, some raw) := by
  unfold unframeChecked
  rw [unframe_frame zd c m raw hdec]
  simp only []
  rcases framePart_snd c m raw with h | ⟨h, _⟩
  · rw [if_neg (by rw [h]; simp)]
  · rw [if_neg (by rw [h]; simp)]

/-! ## packs -/

def toArr (packs : List (List (List Nat))) : Array (Array (List Nat)) :=
  (packs.map List.toArray).toArray

/-- what the decoder's pack checks need -/
structure PackOK (g n i : Nat) (es : List (List Nat)) : Prop where
  nosep : ∀ e ∈ es, 255 ∉ e
  full : i + 1 < n → es.length = 50
  last : ¬ i + 1 < n → 1 ≤ es.length ∧ es.length ≤ 50
  ph : g < 16 → i = 0 → es[0]? = some [127]

theorem decodePack_ok (zc : Nat → List Nat → List Nat) (zd : List Nat → Option (List Nat))
    (hz : ∀ l x, zd (zc l x) = some x) (hne : ∀ l x, zc l x = [] → x = [])
    (level g n i : Nat) (es : List (List Nat)) (h : PackOK g n i es) (a : Acc)
    (packs : Array (Array (List Nat))) :
    decodePack zd g n (a, packs) (i, storePack zc level (packEntries es)) = (a, packs.push es.toArray) := by
  unfold decodePack
  simp only []
  have hu : unframeChecked zd a s!"{gname g} pack {i}" (storePack zc level (packEntries es))
      = (a, some (packEntries es)) := by
    unfold storePack
    exact unframeChecked_framePart zd _ _ _ (Ragc.Props.C12.pack_roundtrip zc zd hz hne level _) a _
  rw [hu]
  have hph : ¬ (g < noRawGroups ∧ i = 0 ∧ es.toArray[0]? ≠ some [placeholder]) := by
    intro hc
    apply hc.2.2
    simp only [List.getElem?_toArray]
    exact h.ph hc.1 hc.2.1
  simp only [splitPack_packEntries es h.nosep, List.isEmpty_nil, if_true, List.size_toArray]
  rw [if_neg hph]
  by_cases hi : i + 1 < n
  · simp only [hi, if_true, h.full hi, packCard]
  · have hl := h.last hi
    simp only [hi, if_false, packCard, hl, and_self, if_true]

/-- the fold of `decodePack` over the parts of a delta stream -/
theorem decodePacks_ok (zc : Nat → List Nat → List Nat) (zd : List Nat → Option (List Nat))
    (hz : ∀ l x, zd (zc l x) = some x) (hne : ∀ l x, zc l x = [] → x = [])
    (level g n : Nat) :
    ∀ (packs : List (List (List Nat))) (i0 : Nat) (acc : Array (Array (List Nat))) (a : Acc),
      (∀ j (hj : j < packs.length), PackOK g n (i0 + j) packs[j]) →
      (List.zipIdx (packs.map fun es => storePack zc level (packEntries es)) i0).foldl
        (fun st (bi : Blob × Nat) => decodePack zd g n st (bi.2, bi.1)) (a, acc)
        = (a, acc ++ toArr packs) := by
  intro packs
  induction packs with
  | nil => intro i0 acc a _; simp [toArr]
  | cons es rest ih =>
    intro i0 acc a h
    simp only [List.map_cons, List.zipIdx_cons, List.foldl_cons]
    have h0 := h 0 (by simp)
    simp only [Nat.add_zero, List.getElem_cons_zero] at h0
    rw [decodePack_ok zc zd hz hne level g n i0 es h0]
    rw [ih (i0 + 1) _ a (by
      intro j hj
      have := h (j + 1) (by simp; omega)
      simp only [List.getElem_cons_succ] at this
      have e : i0 + 1 + j = i0 + (j + 1) := by omega
      rw [e]; exact this)]
    simp [toArr]

theorem filled_last {α : Type} (n : Nat) :
    ∀ (packs : List (List α)) (p : Nat) (pk : List α), Filled n packs → p + 1 = packs.length →
      packs[p]? = some pk → 1 ≤ pk.length ∧ pk.length ≤ n := by
  intro packs
  induction packs with
  | nil => intro p pk _ h; simp at h
  | cons q qs ih =>
    intro p pk hf hp hpk
    cases qs with
    | nil =>
      simp only [List.length_cons, List.length_nil] at hp
      have : p = 0 := by omega
      subst this
      simp only [List.getElem?_cons_zero, Option.some.injEq] at hpk
      subst hpk
      exact hf
    | cons r rs =>
      obtain ⟨_, hrest⟩ := hf
      cases p with
      | zero => simp at hp
      | succ p =>
        simp only [List.getElem?_cons_succ] at hpk
        exact ih p pk hrest (by simp only [List.length_cons] at hp ⊢; omega) hpk

theorem mem_finish_entries (lz : Bool) (st : PState) :
    ∀ es ∈ finish lz st, ∀ e ∈ es, e ∈ allEntries lz st := by
  intro es hes e he
  unfold finish at hes
  unfold allEntries
  split at hes
  · exact List.mem_append_left _ (List.mem_flatten.mpr ⟨es, hes, he⟩)
  · rcases List.mem_append.mp hes with h | h
    · exact List.mem_append_left _ (List.mem_flatten.mpr ⟨es, h, he⟩)
    · simp only [List.mem_singleton] at h
      subst h
      exact List.mem_append_right _ he

theorem assign_entries_mem (lz : Bool) (st : PState) (d : List Nat) (h : Inv lz st) :
    ∀ e ∈ allEntries lz (assign lz st d).1, e ∈ allEntries lz st ∨ e = d := by
  intro e he
  unfold assign at he
  split at he
  · exact Or.inl he
  · split at he
    · exact Or.inl he
    · rw [(addNew_spec lz st d h).2.1] at he
      rcases List.mem_append.mp he with h1 | h1
      · exact Or.inl h1
      · exact Or.inr (by simpa using h1)

theorem assignAll_entries_mem (lz : Bool) :
    ∀ (ds : List (List Nat)) (st : PState), Inv lz st →
      ∀ e ∈ allEntries lz (assignAll lz st ds).1, e ∈ allEntries lz st ∨ e ∈ ds := by
  intro ds
  induction ds with
  | nil => intro st _ e he; exact Or.inl he
  | cons d ds ih =>
    intro st h e he
    obtain ⟨_, hinv1, _, _⟩ := assign_spec lz st d h
    simp only [assignAll] at he
    rcases ih _ hinv1 e he with h1 | h1
    · rcases assign_entries_mem lz st d h e h1 with h2 | h2
      · exact Or.inl h2
      · exact Or.inr (by simp [h2])
    · exact Or.inr (by simp [h1])

/-- All the packs of a finished `Packs` run satisfy the decoder's checks. -/
theorem packOK_of_run (lz : Bool) (g : Nat) (hg : g < 16 → lz = false) (ds : List (List Nat))
    (hns : ∀ d ∈ ds, 255 ∉ d) :
    ∀ j (hj : j < (finish lz (assignAll lz PState.init ds).1).length),
      PackOK g (finish lz (assignAll lz PState.init ds).1).length j
        ((finish lz (assignAll lz PState.init ds).1)[j]) := by
  intro j hj
  obtain ⟨hfilled, hnonfinal, hids⟩ := packs_addressing_aux lz ds _ rfl _ rfl
  obtain ⟨_, hinv, _, _, _⟩ := assignAll_spec lz ds PState.init (inv_init lz)
  generalize hpk : finish lz (assignAll lz PState.init ds).1 = packs at *
  have hget : packs[j]? = some packs[j] := List.getElem?_eq_getElem hj
  constructor
  · intro e he
    have hmem := mem_finish_entries lz (assignAll lz PState.init ds).1 packs[j]
      (by rw [hpk]; exact List.getElem_mem hj) e he
    rcases assignAll_entries_mem lz ds PState.init (inv_init lz) e hmem with h1 | h1
    · -- initial entries: the placeholder at most
      have : e = placeholderEntry := by
        cases lz <;> simp [allEntries, PState.init, pre] at h1
        exact h1
      rw [this]; decide
    · exact hns e h1
  · intro hi
    obtain ⟨pk, h1, h2⟩ := hnonfinal j hi
    rw [hget] at h1
    cases h1
    exact h2
  · intro hi
    exact filled_last 50 packs j _ hfilled (by omega) hget
  · intro hg16 hj0
    subst hj0
    have hlz := hg hg16
    subst hlz
    -- a raw group with a pack has handed out an id
    cases ds with
    | nil =>
      exfalso
      rw [← hpk] at hj
      simp [assignAll, finish, PState.init] at hj
    | cons d ds =>
      rcases hids 0 (by simp) with h | ⟨_, _, h⟩
      · exact absurd h.1 (by simp)
      · have := h rfl
        rw [entryAt_eq] at this
        rw [hget] at this
        simpa [Ragc.Agc3.placeholder] using this

/-! ## one group: `decodeGroup` on what `storeGroup` stores -/

/-- the decoded group holds what the plan says -/
structure GDMatches (GD : GroupD) (P : GroupPlan) : Prop where
  id : GD.id = P.id
  ref : GD.ref = P.ref
  packs : GD.packs = toArr P.packs
  nref : GD.nRefParts = P.ref.toList.length

structure PlanOK (P : GroupPlan) : Prop where
  lz : P.id ≥ 16 → P.ref.isSome
  raw : P.id < 16 → P.ref = none
  packs : ∀ j (hj : j < P.packs.length), PackOK P.id P.packs.length j P.packs[j]

theorem decodeGroup_plan (zc : Nat → List Nat → List Nat) (zd : List Nat → Option (List Nat))
    (hz : ∀ l x, zd (zc l x) = some x) (hne : ∀ l x, zc l x = [] → x = [])
    (cfg : Cfg) (t : Bool) (P : GroupPlan) (hP : PlanOK P) (a : Acc) (out : Array GroupD) :
    ∃ GD, decodeGroup zd (a, out)
        ⟨P.id, 1, 1, (storeGroup cfg zc t P).refPart.toList, (storeGroup cfg zc t P).packs⟩ = (a, out.push GD) ∧
      GDMatches GD P := by
  unfold decodeGroup
  simp only [storeGroup, List.length_map]
  have hpk := decodePacks_ok zc zd hz hne cfg.level P.id P.packs.length P.packs 0 #[] 
  simp only [Nat.zero_add, List.zipIdx] at hpk
  by_cases hg : P.id ≥ 16
  · obtain ⟨ref, href⟩ := Option.isSome_iff_exists.mp (hP.lz hg)
    have hu : ∀ what, unframeChecked zd a what (storeReference zc (fun _ => t) ref) = (a, some ref) := by
      intro what
      unfold storeReference
      exact unframeChecked_framePart zd _ _ _ (Ragc.Props.C12.ref_roundtrip_chooser zc zd hz hne _ ref) a _
    simp only [href, Option.map_some, Option.toList_some, List.length_cons, List.length_nil,
      noRawGroups, hg, if_true, hu, Nat.le_refl, and_self, Nat.zero_add]
    rw [hpk a hP.packs]
    exact ⟨_, rfl, ⟨rfl, by simp [href], by simp, by simp [href]⟩⟩
  · have hn : P.ref = none := hP.raw (by omega)
    simp only [hn, Option.map_none, Option.toList_none, List.length_nil, noRawGroups, hg, if_false,
      List.isEmpty_nil, if_true, Nat.le_refl, and_self]
    rw [hpk a hP.packs]
    exact ⟨_, rfl, ⟨rfl, by simp [hn], by simp, by simp [hn]⟩⟩

/-! ## `getSegment` -/

theorem toArr_entry (packs : List (List (List Nat))) (p e : Nat) :
    ((toArr packs)[p]?).bind (·[e]?) = entryAt packs p e := by
  unfold toArr entryAt
  simp only [List.getElem?_toArray, List.getElem?_map]
  cases packs[p]? <;> simp

theorem fetch_eq (packs : List (List (List Nat))) (p e : Nat) (bytes : List Nat)
    (h : entryAt packs p e = some bytes) :
    ∃ pack, (toArr packs)[p]? = some pack ∧ pack[e]? = some bytes := by
  have := toArr_entry packs p e
  rw [h] at this
  cases hp : (toArr packs)[p]? with
  | none => rw [hp] at this; simp at this
  | some pack =>
    rw [hp] at this
    exact ⟨pack, rfl, by simpa using this⟩

theorem getSegment_lz_ref (mm : Nat) (gds : Array GroupD) (d : Ragc.Details.Seg) (GD : GroupD)
    (ref : List Nat) (hg : d.group ≥ 16) (hf : findGroup gds d.group = some GD) (hr : GD.ref = some ref)
    (h0 : d.inGroup = 0) : getSegment mm gds d = .ok ref := by
  unfold getSegment
  simp only [hf, noRawGroups, hg, if_true, hr, h0]

theorem getSegment_lz_delta (mm : Nat) (gds : Array GroupD) (d : Ragc.Details.Seg) (GD : GroupD)
    (ref bytes s : List Nat) (packs : List (List (List Nat)))
    (hg : d.group ≥ 16) (hf : findGroup gds d.group = some GD) (hr : GD.ref = some ref)
    (hp : GD.packs = toArr packs) (h0 : d.inGroup ≠ 0)
    (he : entryAt packs (entryAddress d.group d.inGroup).1 (entryAddress d.group d.inGroup).2 = some bytes)
    (hd : Ragc.Model.LzDiff.decodeSeg mm ref bytes = some s) : getSegment mm gds d = .ok s := by
  unfold getSegment
  simp only [hf, noRawGroups, hg, if_true, hr, h0, if_false, hp]
  obtain ⟨pack, h1, h2⟩ := fetch_eq packs _ _ bytes he
  simp only [h1, h2, hd]

theorem getSegment_raw (mm : Nat) (gds : Array GroupD) (d : Ragc.Details.Seg) (GD : GroupD)
    (s : List Nat) (packs : List (List (List Nat)))
    (hg : d.group < 16) (hf : findGroup gds d.group = some GD)
    (hp : GD.packs = toArr packs) (h0 : d.inGroup ≠ 0)
    (he : entryAt packs (entryAddress d.group d.inGroup).1 (entryAddress d.group d.inGroup).2 = some s) :
    getSegment mm gds d = .ok s := by
  unfold getSegment
  have hng : ¬ d.group ≥ 16 := by omega
  obtain ⟨pack, h1, h2⟩ := fetch_eq packs _ _ s he
  simp only [hf, noRawGroups, hng, if_false, h0, hp, h1, h2]

/-! ## the plan of a group: every member is addressed by its id -/

/-- where the decoder finds the data `x` of a member with in-group id `id` -/
def SegAt (mm : Nat) (P : GroupPlan) (id : Nat) (x : List Nat) : Prop :=
  if P.id ≥ 16 then
    ∃ ref, P.ref = some ref ∧
      ((id = 0 ∧ x = ref) ∨
       (id ≠ 0 ∧ ∃ bytes, entryAt P.packs (entryAddress P.id id).1 (entryAddress P.id id).2 = some bytes ∧
          Ragc.Model.LzDiff.decodeSeg mm ref bytes = some x))
  else id ≠ 0 ∧ entryAt P.packs (entryAddress P.id id).1 (entryAddress P.id id).2 = some x

theorem getSegment_plan (mm : Nat) (gds : Array GroupD) (P : GroupPlan) (GD : GroupD) (id : Nat)
    (x : List Nat) (rev : Bool) (len : Nat)
    (hf : findGroup gds P.id = some GD) (hm : GDMatches GD P) (h : SegAt mm P id x) :
    getSegment mm gds ⟨P.id, id, rev, len⟩ = .ok x := by
  unfold SegAt at h
  by_cases hg : P.id ≥ 16
  · rw [if_pos hg] at h
    obtain ⟨ref, href, h⟩ := h
    rcases h with ⟨h0, hx⟩ | ⟨h0, bytes, he, hd⟩
    · subst hx
      exact getSegment_lz_ref mm gds _ GD x hg hf (by rw [hm.ref, href]) h0
    · exact getSegment_lz_delta mm gds _ GD ref bytes x P.packs hg hf (by rw [hm.ref, href]) hm.packs h0 he hd
  · rw [if_neg hg] at h
    exact getSegment_raw mm gds _ GD x P.packs (by simp only []; omega) hf hm.packs h.1 h.2

theorem assign_allEntries_cases (lz : Bool) (st : PState) (d : List Nat) (h : Inv lz st) :
    allEntries lz (assign lz st d).1 = allEntries lz st ∨
      allEntries lz (assign lz st d).1 = allEntries lz st ++ [d] := by
  unfold assign
  split
  · exact Or.inl rfl
  · split
    · exact Or.inl rfl
    · exact Or.inr (addNew_spec lz st d h).2.1

theorem assignAll_length_le (lz : Bool) :
    ∀ (ds : List (List Nat)) (st : PState), Inv lz st →
      (allEntries lz (assignAll lz st ds).1).length ≤ (allEntries lz st).length + ds.length := by
  intro ds
  induction ds with
  | nil => intro st _; simp [assignAll]
  | cons d ds ih =>
    intro st h
    obtain ⟨_, hinv1, _, _⟩ := assign_spec lz st d h
    have := ih _ hinv1
    simp only [assignAll, List.length_cons]
    rcases assign_allEntries_cases lz st d h with h1 | h1
    · rw [h1] at this; omega
    · rw [h1] at this; simp only [List.length_append, List.length_cons, List.length_nil] at this; omega

theorem init_len (lz : Bool) : (allEntries lz PState.init).length + off lz = 1 := by
  cases lz <;> simp [allEntries, PState.init, pre, off, placeholderEntry]

/-- ids handed out by a run, with the entry each one addresses (`packs_addressing`), and a bound. -/
theorem run_ids (lz : Bool) (ds : List (List Nat)) (j : Nat) (hj : j < ds.length) :
    (assignAll lz PState.init ds).2.length = ds.length ∧
    (assignAll lz PState.init ds).2.getD j 0 ≤ ds.length ∧
    ((lz = true ∧ (assignAll lz PState.init ds).2.getD j 0 = 0 ∧ ds[j] = []) ∨
      (1 ≤ (assignAll lz PState.init ds).2.getD j 0 ∧
        entryAt (finish lz (assignAll lz PState.init ds).1)
          (entryAddress (if lz then 16 else 0) ((assignAll lz PState.init ds).2.getD j 0)).1
          (entryAddress (if lz then 16 else 0) ((assignAll lz PState.init ds).2.getD j 0)).2 = some ds[j])) := by
  obtain ⟨_, _, hids⟩ := packs_addressing_aux lz ds _ rfl _ rfl
  obtain ⟨suffix, hinv, hall, hlen, hidok⟩ := assignAll_spec lz ds PState.init (inv_init lz)
  have hbound := assignAll_length_le lz ds PState.init (inv_init lz)
  have hinit := init_len lz
  refine ⟨hlen, ?_, ?_⟩
  · have hj' := hidok j hj
    generalize (assignAll lz PState.init ds).2.getD j 0 = id at hj'
    generalize (allEntries lz (assignAll lz PState.init ds).1) = all at hj' hbound
    rcases hj' with h0 | ⟨_, h2, h3⟩
    · rw [h0.2.1]; omega
    · have hlt : id - off lz < all.length := by
        apply Classical.byContradiction
        intro hc
        rw [List.getElem?_eq_none (by omega)] at h3
        cases h3
      omega
  · rcases hids j hj with h | ⟨h1, h2, _⟩
    · exact Or.inl h
    · exact Or.inr ⟨h1, h2⟩

theorem mapM_option_spec {α β : Type} (f : α → Option β) :
    ∀ (l : List α) (r : List β), l.mapM f = some r →
      r.length = l.length ∧ ∀ j (hj : j < l.length) (hr : j < r.length), f l[j] = some r[j] := by
  intro l
  induction l with
  | nil =>
    intro r h
    simp only [List.mapM_nil, Option.pure_def, Option.some.injEq] at h
    subst h
    exact ⟨rfl, fun j hj => absurd hj (by simp)⟩
  | cons a l ih =>
    intro r h
    simp only [List.mapM_cons, Option.pure_def, Option.bind_eq_bind] at h
    cases hfa : f a with
    | none => rw [hfa] at h; simp at h
    | some b =>
      rw [hfa] at h
      simp only [Option.bind_some] at h
      cases hl : l.mapM f with
      | none => rw [hl] at h; simp at h
      | some bs =>
        rw [hl] at h
        simp only [Option.bind_some, Option.some.injEq] at h
        subst h
        obtain ⟨h1, h2⟩ := ih bs hl
        refine ⟨by simp [h1], ?_⟩
        intro j hj hr
        cases j with
        | zero => simpa using hfa
        | succ j =>
          simp only [List.getElem_cons_succ]
          exact h2 j (by simpa using hj) (by simpa using hr)

theorem entryAddress_lz (g i : Nat) (hg : g ≥ 16) : entryAddress g i = entryAddress 16 i := by
  unfold entryAddress noRawGroups; simp [hg]

theorem entryAddress_raw (g i : Nat) (hg : ¬ g ≥ 16) : entryAddress g i = entryAddress 0 i := by
  unfold entryAddress noRawGroups; simp [hg]

/-- **Every member of a group is found again.** Whatever the members' data and arrival order:
the plan passes the decoder's pack checks, every member gets an id, and the id addresses its data
(reference, LZ entry that decodes against the reference, or raw entry). -/
theorem planGroup_spec (mm : Nat) (G : GroupDec) (datas : List (List Nat)) (P : GroupPlan)
    (h : planGroup mm G datas = some P)
    (hc : ∀ d ∈ datas, d ≠ [] ∧ Ragc.Props.C09.codesOK d) :
    P.id = G.id ∧ PlanOK P ∧ P.ids.length = datas.length ∧
    ∀ j (hj : j < datas.length), P.ids.getD j 0 ≤ datas.length ∧ SegAt mm P (P.ids.getD j 0) datas[j] := by
  have hspan : ∀ d ∈ datas, ∀ b ∈ d, b < 255 := by
    intro d hd b hb
    have := (hc d hd).2 b hb
    have : Ragc.Gen.lzLiteralSpan < 255 := by decide
    omega
  unfold planGroup at h
  by_cases hg : G.id ≥ 16
  · rw [if_pos hg] at h
    cases datas with
    | nil => simp at h
    | cons ref rest =>
      simp only [] at h
      cases henc : encodeAll mm ref rest with
      | none => rw [henc] at h; simp at h
      | some deltas =>
        rw [henc] at h
        simp only [Option.some.injEq] at h
        subst h
        unfold encodeAll at henc
        obtain ⟨hlen, hdel⟩ := mapM_option_spec _ rest deltas henc
        have hrest : ∀ j (hj : j < rest.length), rest[j] ≠ [] ∧ Ragc.Props.C09.codesOK rest[j] :=
          fun j hj => hc _ (List.mem_cons_of_mem _ (List.getElem_mem hj))
        have hns : ∀ d ∈ deltas, 255 ∉ d := by
          intro d hd
          obtain ⟨j, hj, rfl⟩ := List.getElem_of_mem hd
          have he := hdel j (by omega) hj
          have := Ragc.Props.C09.no_separator _ mm ref rest[j] deltas[j]
            (fun c hcm => Nat.lt_of_le_of_lt ((hrest j (by omega)).2 c hcm) (by decide)) he
          have h255 : Ragc.Gen.contigSeparator = 255 := by decide
          rwa [h255] at this
        refine ⟨rfl, ⟨fun _ => rfl, fun hlt => absurd hlt (by show ¬ G.id < 16; omega), ?_⟩, ?_, ?_⟩
        · exact packOK_of_run true G.id (fun hlt => absurd hlt (by omega)) deltas hns
        · obtain ⟨_, _, _, hl2, _⟩ := assignAll_spec true deltas PState.init (inv_init true)
          simp only [List.length_cons, hl2, hlen]
        · intro j hj
          cases j with
          | zero =>
            simp only [List.getD_cons_zero, List.getElem_cons_zero, Nat.zero_le, true_and]
            unfold SegAt
            rw [if_pos (show G.id ≥ 16 from hg)]
            exact ⟨ref, rfl, Or.inl ⟨rfl, rfl⟩⟩
          | succ j =>
            simp only [List.length_cons] at hj
            have hjr : j < rest.length := by omega
            have hjd : j < deltas.length := by omega
            obtain ⟨_, hb, hid⟩ := run_ids true deltas j hjd
            simp only [List.getD_cons_succ, List.getElem_cons_succ, List.length_cons]
            refine ⟨by omega, ?_⟩
            unfold SegAt
            rw [if_pos (show G.id ≥ 16 from hg)]
            refine ⟨ref, rfl, ?_⟩
            have he := hdel j hjr hjd
            rcases hid with ⟨_, h0, hd0⟩ | ⟨h1, hent⟩
            · left
              refine ⟨h0, ?_⟩
              have := (Ragc.Props.C09.encode_empty_iff _ mm ref rest[j] deltas[j] he).mp hd0
              rcases this with h | h
              · exact h
              · exact absurd h (hrest j hjr).1
            · right
              refine ⟨?_, deltas[j], ?_, ?_⟩
              · show (assignAll true PState.init deltas).2.getD j 0 ≠ 0
                omega
              · rw [entryAddress_lz G.id _ hg]; exact hent
              · exact Ragc.Props.C09.lz_roundtrip _ mm ref rest[j] deltas[j] (hrest j hjr).2 (hrest j hjr).1 he
  · rw [if_neg hg] at h
    simp only [Option.some.injEq] at h
    subst h
    have hns : ∀ d ∈ datas, 255 ∉ d := by
      intro d hd hm
      have := hspan d hd 255 hm
      omega
    refine ⟨rfl, ⟨fun hge => absurd hge hg, fun _ => rfl, ?_⟩, ?_, ?_⟩
    · exact packOK_of_run false G.id (fun _ => rfl) datas hns
    · cases datas with
      | nil => simp [assignAll]
      | cons d ds => exact (run_ids false (d :: ds) 0 (by simp)).1
    · intro j hj
      obtain ⟨_, hb, hid⟩ := run_ids false datas j hj
      refine ⟨hb, ?_⟩
      unfold SegAt
      rw [if_neg (show ¬ G.id ≥ 16 from hg)]
      rcases hid with ⟨h, _⟩ | ⟨h1, hent⟩
      · exact absurd h (by simp)
      · refine ⟨?_, ?_⟩
        · show (assignAll false PState.init datas).2.getD j 0 ≠ 0
          omega
        · rw [entryAddress_raw G.id _ hg]; exact hent

end Ragc.WriterLemmas
