import RagcModel.Lemmas.WriterXStreams
/-!
Helper lemmas for `read_write` (C01/C02), part 10: `decodeGroups`, `checkUnused`, and the
composition of all stages of `decodeArchive` on the reference writer's archive.
-/
namespace Ragc.WriterLemmas
open Ragc.Agc3 Ragc.Writer Ragc.Container Ragc.StreamNames

theorem foldl_keep {α β : Type} (f : β → α → β) (b : β) : ∀ (l : List α), (∀ x ∈ l, ∀ b, f b x = b) →
    l.foldl f b = b := by
  intro l
  induction l with
  | nil => intro _; rfl
  | cons x xs ih => intro h; rw [List.foldl_cons, h x (by simp), ih (fun y hy => h y (by simp [hy]))]

/-- what `decodeGroups` establishes -/
structure GroupsDecoded (cfg : Cfg) (inp : List Writer.Sample) (dec : Decisions) (gds : Array GroupD) : Prop where
  find : ∀ G ∈ dec.groups, ∀ datas P, G.members.mapM (lookup3 (storedAll cfg.k inp dec)) = some datas →
    planGroup cfg.minMatch G datas = some P → ∃ GD, Agc3.findGroup gds G.id = some GD ∧ GDMatches GD P
  ids : ∀ GD ∈ gds.toList, GD.id ∈ dec.groups.map (·.id)

theorem decodeGroups_ok (zc : Nat → List Nat → List Nat) (zd : List Nat → Option (List Nat))
    (hz : ∀ l x, zd (zc l x) = some x) (hne : ∀ l x, zc l x = [] → x = [])
    (cfg : Cfg) (inp : List Writer.Sample) (dec : Decisions) (outs : List GroupOut)
    (batches : List Ragc.Details.StoredBatch) (o : Opened)
    (hok : DecOK cfg inp dec) (hcodes : codesOK inp)
    (hw : writeGroups cfg zc (storedAll cfg.k inp dec) dec.groups = some outs)
    (h : Opens o (regNames dec) (partList cfg zc inp outs batches)) (a : Acc) :
    ∃ gds, decodeGroups zd o a = .ok (a, gds) ∧ GroupsDecoded cfg inp dec gds := by
  obtain ⟨Ps, hPs, houts⟩ := writeGroups_plans cfg zc _ _ _ hw
  obtain ⟨hPl, hPall⟩ := mapM_option_spec _ _ _ hPs
  have hoids := outs_ids cfg zc _ _ _ hw
  have hol : outs.length = dec.groups.length := by
    have := congrArg List.length hoids; simpa using this
  -- every plan is well formed
  have hplan : ∀ i (h1 : i < dec.groups.length) (h2 : i < Ps.length),
      ∃ datas, dec.groups[i].members.mapM (lookup3 (storedAll cfg.k inp dec)) = some datas ∧
        planGroup cfg.minMatch dec.groups[i] datas = some Ps[i] := by
    intro i h1 h2
    have := hPall i h1 h2
    unfold planOf at this
    cases hm : dec.groups[i].members.mapM (lookup3 (storedAll cfg.k inp dec)) with
    | none => rw [hm] at this; simp at this
    | some datas => rw [hm] at this; exact ⟨datas, rfl, by simpa using this⟩
  have hPok : ∀ P ∈ Ps, PlanOK P := by
    intro P hP
    obtain ⟨i, hi, rfl⟩ := List.getElem_of_mem hP
    obtain ⟨datas, hdat, hpl⟩ := hplan i (by omega) hi
    obtain ⟨_, hdall⟩ := mapM_option_spec _ _ _ hdat
    exact (planGroup_spec cfg.minMatch _ datas _ hpl (by
      intro x hx
      obtain ⟨t, ht', rfl⟩ := List.getElem_of_mem hx
      exact stored_ok cfg inp dec hok hcodes _ _ (hdall t (by
        have := (mapM_option_spec _ _ _ hdat).1; omega) ht'))).2.1
  obtain ⟨GDs, hGl, hGm, hfold⟩ := decodeGroup_fold zc zd hz hne cfg dec.groups Ps a #[] (by omega) hPok
  -- the records `addStream` builds are the stored groups
  have hrec : (dec.groups.map (·.id)).map (groupRec (partList cfg zc inp outs batches))
      = List.zipWith (fun G P => recOf (storeGroup cfg zc G.tuples P)) dec.groups Ps := by
    rw [← hoids, List.map_map]
    have : outs.map ((groupRec (partList cfg zc inp outs batches)) ∘ (·.id)) = outs.map recOf := by
      apply List.map_congr_left
      intro x hx
      obtain ⟨i, hi, rfl⟩ := List.getElem_of_mem hx
      obtain ⟨e1, e2⟩ := partsOf_group cfg zc inp outs batches (by rw [hoids]; exact hok.nodup) i hi
      simp only [Function.comp, groupRec, recOf, e1, e2]
      have hst : outs[i] = storeGroup cfg zc dec.groups[i].tuples (Ps[i]'(by omega)) := by
        have := congrArg (fun l => l[i]?) houts
        simp only [List.getElem?_eq_getElem hi] at this
        rw [List.getElem?_zipWith, List.getElem?_eq_getElem (by omega : i < dec.groups.length),
          List.getElem?_eq_getElem (by omega : i < Ps.length)] at this
        simpa using this
      rw [hst, (readBack_storeGroup _ _ _ _).1, (readBack_storeGroup _ _ _ _).2]
    rw [this, houts, List.map_zipWith]
  have hxs := xStreams_eq o _ _ h
  rw [filterMap_regNames] at hxs
  refine ⟨(#[] : Array GroupD) ++ GDs.toArray, ?_, ?_, ?_⟩
  · unfold decodeGroups
    rw [hxs]
    simp only [bind, Except.bind, pure, Except.pure]
    rw [foldl_keep _ a _ (by
      intro x hx b
      simp only [List.mem_flatMap] at hx
      obtain ⟨g, _, hx⟩ := hx
      simp only [xPair, List.mem_cons, List.not_mem_nil, or_false] at hx
      rcases hx with rfl | rfl
      · rw [if_pos (xName_delta g).symm]
      · rw [if_pos (xName_ref g).symm])]
    rw [addStream_all _ _ #[] hok.nodup (by intro x hx; simp at hx)]
    rw [← Array.foldl_toList]
    simp only [Array.toList_append, Array.toList_empty, List.nil_append, List.toList_toArray]
    rw [hrec, hfold]
  · -- findGroup
    intro G hG datas P hdat hpl
    obtain ⟨i, hi, rfl⟩ := List.getElem_of_mem hG
    obtain ⟨datas', hdat', hpl'⟩ := hplan i hi (by omega)
    rw [hdat] at hdat'
    cases hdat'
    rw [hpl] at hpl'
    cases hpl'
    have hmatch := hGm i (by omega) (by omega)
    have hidl : GDs.map (·.id) = dec.groups.map (·.id) := by
      apply List.ext_getElem (by simp; omega)
      intro t h1 h2
      simp only [List.getElem_map]
      simp only [List.length_map] at h1 h2
      obtain ⟨dt, _, hpt⟩ := hplan t h2 (by omega)
      rw [(hGm t h1 (by omega)).id, planGroup_spec_id _ _ _ _ hpt]
    refine ⟨GDs[i]'(by omega), ?_, hmatch⟩
    unfold Agc3.findGroup
    rw [← Array.find?_toList]
    simp only [Array.toList_append, Array.toList_empty, List.nil_append, List.toList_toArray]
    have hkey := find_by_key (fun GD : GroupD => GD.id) GDs i (by omega) (by rw [hidl]; exact hok.nodup)
    have hid : (GDs[i]'(by omega)).id = dec.groups[i].id := by
      rw [hmatch.id, planGroup_spec_id _ _ _ _ hpl]
    rw [hid] at hkey
    exact hkey
  · intro GD hGD
    simp only [Array.toList_append, Array.toList_empty, List.nil_append, List.toList_toArray] at hGD
    obtain ⟨t, ht, rfl⟩ := List.getElem_of_mem hGD
    obtain ⟨dt, _, hpt⟩ := hplan t (by omega) (by omega)
    rw [(hGm t ht (by omega)).id, planGroup_spec_id _ _ _ _ hpt]
    exact List.mem_map.mpr ⟨_, List.getElem_mem _, rfl⟩

/-! ## `checkUnused` -/

theorem lookup3_get {α : Type} (t : List (List (List α))) (r : PieceRef) (x : α) (h : lookup3 t r = some x) :
    ∃ a b, t[r.1]? = some a ∧ a[r.2.1]? = some b ∧ b[r.2.2]? = some x := by
  unfold lookup3 at h
  cases h1 : t[r.1]? with
  | none => rw [h1] at h; simp at h
  | some a =>
    rw [h1] at h
    simp only [Option.bind_some] at h
    cases h2 : a[r.2.1]? with
    | none => rw [h2] at h; simp at h
    | some b =>
      rw [h2] at h
      simp only [Option.bind_some] at h
      exact ⟨a, b, rfl, h2, h⟩

/-- every group id is the group of some descriptor of the catalogue tables -/
theorem group_used (cfg : Cfg) (inp : List Writer.Sample) (dec : Decisions) (outs : List GroupOut)
    (hok : DecOK cfg inp dec) (G : GroupDec) (hG : G ∈ dec.groups) :
    G.id ∈ ((List.zipWith (fun s dcs => tableOf outs s.contigs dcs) inp dec.pieces).flatMap
      fun t => t.flatMap (·.2)).map (·.group) := by
  obtain ⟨_, hne, _, hmem⟩ := hok.groups G hG
  obtain ⟨r0, rest, hr⟩ := List.exists_cons_of_ne_nil hne
  obtain ⟨d, hl, hdg, _⟩ := hmem (r0, 0) (by rw [hr]; simp [List.zipIdx_cons])
  obtain ⟨dcs, ds, h3, h4, h5⟩ := lookup3_get _ _ _ hl
  -- the sample and the contig exist
  have hs : r0.1 < inp.length := by
    rw [← hok.shape]; exact (List.getElem?_eq_some_iff.mp h3).1
  have h1 : inp[r0.1]? = some inp[r0.1] := List.getElem?_eq_getElem hs
  have hS := hok.samples _ (mem_zip_of_get _ _ _ _ _ h1 h3)
  have hc : r0.2.1 < inp[r0.1].contigs.length := by
    have hsh : dcs.length = inp[r0.1].contigs.length := hS.shape
    rw [← hsh]; exact (List.getElem?_eq_some_iff.mp h4).1
  have h2 : inp[r0.1].contigs[r0.2.1]? = some inp[r0.1].contigs[r0.2.1] := List.getElem?_eq_getElem hc
  apply List.mem_map.mpr
  refine ⟨descOf outs d, ?_, hdg⟩
  apply List.mem_flatMap.mpr
  refine ⟨tableOf outs inp[r0.1].contigs dcs, List.mem_of_getElem? (zipWith_get _ _ _ _ _ _ h1 h3), ?_⟩
  apply List.mem_flatMap.mpr
  refine ⟨(inp[r0.1].contigs[r0.2.1].name, ds.map (descOf outs)), ?_, ?_⟩
  · unfold tableOf
    exact List.mem_of_getElem? (zipWith_get _ _ _ _ _ _ h2 h4)
  · exact List.mem_map.mpr ⟨d, List.mem_of_getElem? h5, rfl⟩

theorem checkUnused_ok (gds : Array GroupD) (usedIds : List Nat) (a : Acc)
    (h : ∀ GD ∈ gds.toList, GD.id ∈ usedIds) : checkUnused gds usedIds a = a := by
  unfold checkUnused
  rw [← Array.foldl_toList]
  apply foldl_keep
  intro GD hGD b
  rw [if_pos (Or.inr (by simpa using h GD hGD))]

/-! ## the composition -/

theorem writeArchive_unpack (cfg : Cfg) (inp : List Writer.Sample) (dec : Decisions) (zc : Nat → List Nat → List Nat)
    (bs : List Nat) (h : writeArchive cfg inp dec zc = some bs) :
    ∃ outs, writeGroups cfg zc (storedAll cfg.k inp dec) dec.groups = some outs ∧
      (Ragc.Details.storeBatches cfg.segSize cfg.k 50 (catalogue inp dec outs)).all (sizesFit zc) = true ∧
      (∀ nb ∈ partList cfg zc inp outs (Ragc.Details.storeBatches cfg.segSize cfg.k 50 (catalogue inp dec outs)),
        nb.2.2 < 2 ^ 64) ∧
      bs = close (run (archiveOps (regNames dec)
        (partList cfg zc inp outs (Ragc.Details.storeBatches cfg.segSize cfg.k 50 (catalogue inp dec outs))))) ∧
      bs.length ≤ seekMax := by
  unfold writeArchive at h
  cases hw : writeGroups cfg zc (storedAll cfg.k inp dec) dec.groups with
  | none => rw [hw] at h; simp at h
  | some outs =>
    rw [hw] at h
    simp only [] at h
    split at h
    · rename_i hc
      split at h
      · rename_i hl
        simp only [Option.some.injEq] at h
        simp only [Bool.and_eq_true, List.all_eq_true, decide_eq_true_eq] at hc
        refine ⟨outs, rfl, ?_, hc.2, h.symm, by rw [← h]; exact hl⟩
        exact List.all_eq_true.mpr hc.1
      · simp at h
    · simp at h

/-- **decode ∘ write = id**, Lemma form (see `Props.C01.read_write`). -/
theorem read_write_main (cfg : Cfg) (inp : List Writer.Sample) (dec : Decisions)
    (zc : Nat → List Nat → List Nat) (zd : List Nat → Option (List Nat)) (bs : List Nat)
    (hdec : DecisionsOK cfg inp dec) (hz : ∀ l x, zd (zc l x) = some x) (hne : ∀ l x, zc l x = [] → x = [])
    (hcodes : codesOK inp) (hw : writeArchive cfg inp dec zc = some bs) :
    ∃ d, decodeArchive bs zd = .ok d ∧ d.catalogue = catalogueOf inp ∧ d.bases = basesOf inp ∧
      d.violations = [] ∧ d.k = cfg.k ∧ d.mm = cfg.minMatch ∧ d.segSize = cfg.segSize := by
  have hok := decOK_of cfg inp dec hdec
  obtain ⟨outs, hwg, hfit, hmd, hbs, hlen⟩ := writeArchive_unpack cfg inp dec zc bs hw
  have hoids := outs_ids cfg zc _ _ _ hwg
  generalize hcat : catalogue inp dec outs = cat at hfit hmd hbs
  generalize hparts : partList cfg zc inp outs (Ragc.Details.storeBatches cfg.segSize cfg.k 50 cat) = parts at hmd hbs
  -- the container
  obtain ⟨o, hopen, hdir, hread⟩ := archive_opens (regNames dec) parts (regNames_nodup dec hok.nodup)
    (by rw [regNames_eq]; simp [fixedStreamNames]) (regNames_nz dec)
    (by rw [← hparts]; exact partList_names cfg zc inp dec outs _ hoids) hmd (by rw [← hbs]; exact hlen)
  have hO : Opens o (regNames dec) (partList cfg zc inp outs (Ragc.Details.storeBatches cfg.segSize cfg.k 50 cat)) := by
    rw [hparts]; exact ⟨hdir, hread⟩
  -- the stages
  have h1 := checkFixedStreams_ok o dec _ hO {}
  have h2 := checkTypeInfo_ok o dec cfg zc inp outs _ hO {}
  have h3 := readParams_ok o dec cfg zc inp outs _ hO hok.k32 hok.mm32 hok.seg32 {}
  have hnameok : ∀ s ∈ inp, ∀ b ∈ s.name, 1 ≤ b ∧ b ≤ 127 := by
    intro s hs
    obtain ⟨i, hi⟩ := List.mem_iff_getElem?.mp hs
    have hil : i < dec.pieces.length := by rw [hok.shape]; exact (List.getElem?_eq_some_iff.mp hi).1
    have hp : dec.pieces[i]? = some dec.pieces[i] := List.getElem?_eq_getElem hil
    exact nameOK_iff _ (hok.samples _ (mem_zip_of_get _ _ _ _ _ hi hp)).name
  have h4 := decodeCatalogue_ok zc zd hz hne cfg dec inp outs o cat hO hfit
    (by rw [← hcat]; exact catalogue_ok cfg inp dec zc outs hok hcodes hwg)
    (by rw [← hcat]; exact catalogue_length inp dec outs hok.shape) hok.nS hnameok hok.pred {}
  obtain ⟨gds, h5, hG⟩ := decodeGroups_ok zc zd hz hne cfg inp dec outs _ o hok hcodes hwg hO {}
  have htab : cat.map tableOfSample = List.zipWith (fun s dcs => tableOf outs s.contigs dcs) inp dec.pieces := by
    rw [← hcat]; exact catalogue_tables inp dec outs
  have h6 := checkUnused_ok gds
    ((((cat.map tableOfSample).toArray.toList.flatMap fun t => t.flatMap (·.2)).map (·.group)).eraseDups) {} (by
      intro GD hGD
      obtain ⟨G, hGin, hGid⟩ := List.mem_map.mp (hG.ids GD hGD)
      rw [List.mem_eraseDups, List.toList_toArray, htab, ← hGid]
      exact group_used cfg inp dec outs hok G hGin)
  have h7 := decodeSamples_ok cfg inp dec zc outs hok hcodes hwg gds hG.find {}
  rw [← htab] at h7
  obtain ⟨e1, e2⟩ := expected_samples cfg inp dec outs hok
  have hD : ∃ st, decodeArchive bs zd = .ok ⟨cfg.k, cfg.minMatch, cfg.segSize,
      List.zipWith (fun s dcs => (⟨s.name, contigsOf outs s.contigs dcs⟩ : DSample)) inp dec.pieces, [], st⟩ :=
    ⟨_, by
      unfold decodeArchive
      rw [hbs, hopen]
      simp only [bind, Except.bind, h1, h2, h3, h4, h5, h6, h7, pure, Except.pure]
      rfl⟩
  obtain ⟨st, hD⟩ := hD
  refine ⟨_, hD, ?_, ?_, rfl, rfl, rfl, rfl⟩
  · simpa [Decoded.catalogue] using e1
  · simpa [Decoded.bases] using e2

/-- The reference writer's output is accepted by the repaired container reader, with every part
inside the file (C14 link); no hypothesis on the decisions. -/
theorem writer_output_opens (cfg : Cfg) (inp : List Writer.Sample) (dec : Decisions)
    (zc : Nat → List Nat → List Nat) (bs : List Nat) (hw : writeArchive cfg inp dec zc = some bs) :
    ∃ r, openBytesFixed seekMax bs = .ok r ∧ r.file = bs ∧ partsInFile bs.length r.dir = true := by
  obtain ⟨outs, _, _, hmd, hbs, hlen⟩ := writeArchive_unpack cfg inp dec zc bs hw
  have hops : ∀ op ∈ archiveOps (regNames dec)
      (partList cfg zc inp outs (Ragc.Details.storeBatches cfg.segSize cfg.k 50 (catalogue inp dec outs))), OpOK op := by
    intro op hop
    unfold archiveOps at hop
    simp only [List.mem_append, List.mem_map, List.mem_singleton] at hop
    rcases hop with (⟨n, hn, rfl⟩ | ⟨nb, hnb, rfl⟩) | rfl
    · exact regNames_nz dec n hn
    · exact hmd nb hnb
    · trivial
  have h := rel_run _ hops
  have hopen := openBytesFixed_close h seekMax (by decide) (by rw [← hbs]; exact hlen)
  rw [← hbs] at hopen
  exact ⟨_, hopen, (openBytesFixed_ok hopen).1, (openBytesFixed_ok hopen).2⟩

end Ragc.WriterLemmas
