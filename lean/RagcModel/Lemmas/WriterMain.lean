import RagcModel.Lemmas.WriterXStreams
/-!
Helper lemmas for `read_write` (C01/C02), part 10: `decodeGroups`, `checkUnused`, and the
composition of all stages of `decodeArchive` on the reference writer's archive.
-/
namespace Ragc.WriterLemmas
open Ragc.Agc3 Ragc.Writer Ragc.Container Ragc.StreamNames

theorem foldl_keep {α β : Type} (f : β → α → β) (b : β) : ∀ (l : List α), (∀ x ∈ l, ∀ b, f b x = b) →
    l.foldl f b = b := by
  intro l
  induction l with
  | nil => intro _; rfl
  | cons x xs ih => intro h; rw [List.foldl_cons, h x (by simp), ih (fun y hy => h y (by simp [hy]))]

/-- what `decodeGroups` establishes -/
structure GroupsDecoded (cfg : Cfg) (inp : List Writer.Sample) (dec : Decisions) (gds : Array GroupD) : Prop where
  find : ∀ G ∈ dec.groups, ∀ datas P, G.members.mapM (lookup3 (storedAll cfg.k inp dec)) = some datas →
    planGroup cfg.minMatch G datas = some P → ∃ GD, Agc3.findGroup gds G.id = some GD ∧ GDMatches GD P
  ids : ∀ GD ∈ gds.toList, GD.id ∈ dec.groups.map (·.id)

theorem decodeGroups_ok (zc : Nat → List Nat → List Nat) (zd : List Nat → Option (List Nat))
    (hz : ∀ l x, zd (zc l x) = some x) (hne : ∀ l x, zc l x = [] → x = [])
    (cfg : Cfg) (inp : List Writer.Sample) (dec : Decisions) (outs : List GroupOut)
    (batches : List Ragc.Details.StoredBatch) (o : Opened)
    (hok : DecOK cfg inp dec) (hcodes : codesOK inp)
    (hw : writeGroups cfg zc (storedAll cfg.k inp dec) dec.groups = some outs)
    (h : Opens o (regNames dec) (partList cfg zc inp outs batches)) (a : Acc) :
    ∃ gds, decodeGroups zd o a = .ok (a, gds) ∧ GroupsDecoded cfg inp dec gds := by
  obtain ⟨Ps, hPs, houts⟩ := writeGroups_plans cfg zc _ _ _ hw
  obtain ⟨hPl, hPall⟩ := mapM_option_spec _ _ _ hPs
  have hoids := outs_ids cfg zc _ _ _ hw
  have hol : outs.length = dec.groups.length := by
    have := congrArg List.length hoids; simpa using this
  -- every plan is well formed
  have hplan : ∀ i (h1 : i < dec.groups.length) (h2 : i < Ps.length),
      ∃ datas, dec.groups[i].members.mapM (lookup3 (storedAll cfg.k inp dec)) = some datas ∧
        planGroup cfg.minMatch dec.groups[i] datas = some Ps[i] := by
    intro i h1 h2
    have := hPall i h1 h2
    unfold planOf at this
    cases hm : dec.groups[i].members.mapM (lookup3 (storedAll cfg.k inp dec)) with
    | none => rw [hm] at this; simp at this
    | some datas => rw [hm] at this; exact ⟨datas, rfl, by simpa using this⟩
  have hPok : ∀ P ∈ Ps, PlanOK P := by
    intro P hP
    obtain ⟨i, hi, rfl⟩ := List.getElem_of_mem hP
    obtain ⟨datas, hdat, hpl⟩ := hplan i (by omega) hi
    obtain ⟨_, hdall⟩ := mapM_option_spec _ _ _ hdat
    exact (planGroup_spec cfg.minMatch _ datas _ hpl (by
      intro x hx
      obtain ⟨t, ht', rfl⟩ := List.getElem_of_mem hx
      exact stored_ok cfg inp dec hok hcodes _ _ (hdall t (by
        have := (mapM_option_spec _ _ _ hdat).1; omega) ht'))).2.1
  obtain ⟨GDs, hGl, hGm, hfold⟩ := decodeGroup_fold zc zd hz hne cfg dec.groups Ps a #[] (by omega) hPok
  -- the records `addStream` builds are the stored groups
  have hrec : (dec.groups.map (·.id)).map (groupRec (partList cfg zc inp outs batches))
      = List.zipWith (fun G P => recOf (storeGroup cfg zc G.tuples P)) dec.groups Ps := by
    rw [← hoids, List.map_map]
    have : outs.map ((groupRec (partList cfg zc inp outs batches)) ∘ (·.id)) = outs.map recOf := by
      apply List.map_congr_left
      intro x hx
      obtain ⟨i, hi, rfl⟩ := List.getElem_of_mem hx
      obtain ⟨e1, e2⟩ := partsOf_group cfg zc inp outs batches (by rw [hoids]; exact hok.nodup) i hi
      simp only [Function.comp, groupRec, recOf, e1, e2]
      have hst : outs[i] = storeGroup cfg zc dec.groups[i].tuples (Ps[i]'(by omega)) := by
        have := congrArg (fun l => l[i]?) houts
        simp only [List.getElem?_eq_getElem hi] at this
        rw [List.getElem?_zipWith, List.getElem?_eq_getElem (by omega : i < dec.groups.length),
          List.getElem?_eq_getElem (by omega : i < Ps.length)] at this
        simpa using this
      rw [hst, (readBack_storeGroup _ _ _ _).1, (readBack_storeGroup _ _ _ _).2]
    rw [this, houts, List.map_zipWith]
  have hxs := xStreams_eq o _ _ h
  rw [filterMap_regNames] at hxs
  refine ⟨(#[] : Array GroupD) ++ GDs.toArray, ?_, ?_, ?_⟩
  · unfold decodeGroups
    rw [hxs]
    simp only [bind, Except.bind, pure, Except.pure]
    rw [foldl_keep _ a _ (by
      intro x hx b
      simp only [List.mem_flatMap] at hx
      obtain ⟨g, _, hx⟩ := hx
      simp only [xPair, List.mem_cons, List.not_mem_nil, or_false] at hx
      rcases hx with rfl | rfl
      · rw [if_pos (xName_delta g).symm]
      · rw [if_pos (xName_ref g).symm])]
    rw [addStream_all _ _ #[] hok.nodup (by intro x hx; simp at hx)]
    rw [← Array.foldl_toList]
    simp only [Array.toList_append, Array.toList_empty, List.nil_append, List.toList_toArray]
    rw [hrec, hfold]
  · -- findGroup
    intro G hG datas P hdat hpl
    obtain ⟨i, hi, rfl⟩ := List.getElem_of_mem hG
    obtain ⟨datas', hdat', hpl'⟩ := hplan i hi (by omega)
    rw [hdat] at hdat'
    cases hdat'
    rw [hpl] at hpl'
    cases hpl'
    have hmatch := hGm i (by omega) (by omega)
    have hidl : GDs.map (·.id) = dec.groups.map (·.id) := by
      apply List.ext_getElem (by simp; omega)
      intro t h1 h2
      simp only [List.getElem_map]
      simp only [List.length_map] at h1 h2
      obtain ⟨dt, _, hpt⟩ := hplan t h2 (by omega)
      rw [(hGm t h1 (by omega)).id, planGroup_spec_id _ _ _ _ hpt]
    refine ⟨GDs[i]'(by omega), ?_, hmatch⟩
    unfold Agc3.findGroup
    rw [← Array.find?_toList]
    simp only [Array.toList_append, Array.toList_empty, List.nil_append, List.toList_toArray]
    have hkey := find_by_key (fun GD : GroupD => GD.id) GDs i (by omega) (by rw [hidl]; exact hok.nodup)
    have hid : (GDs[i]'(by omega)).id = dec.groups[i].id := by
      rw [hmatch.id, planGroup_spec_id _ _ _ _ hpl]
    rw [hid] at hkey
    exact hkey
  · intro GD hGD
    simp only [Array.toList_append, Array.toList_empty, List.nil_append, List.toList_toArray] at hGD
    obtain ⟨t, ht, rfl⟩ := List.getElem_of_mem hGD
    obtain ⟨dt, _, hpt⟩ := hplan t (by omega) (by omega)
    rw [(hGm t ht (by omega)).id, planGroup_spec_id _ _ _ _ hpt]
    exact List.mem_map.mpr ⟨_, List.getElem_mem _, rfl⟩

end Ragc.WriterLemmas
