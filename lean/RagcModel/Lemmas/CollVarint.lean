import RagcModel.Model.CollVarint
/-! Round-trip lemmas for the prefix varint and the NUL-terminated strings (C03). -/
namespace Ragc.CollVarint

theorem decode_encode (n : Nat) (h : n < 4294967296) (r : List Nat) :
    decode (encode n ++ r) = some (n, r) := by
  unfold encode
  by_cases h1 : n < 128
  · rw [if_pos h1]
    simp only [List.cons_append, List.nil_append, decode]
    rw [if_pos (by omega)]
  rw [if_neg h1]
  by_cases h2 : n < 16512
  · rw [if_pos h2]
    simp only [List.cons_append, List.nil_append, decode]
    rw [if_neg (by omega), if_pos (by omega)]
    exact congrArg some (Prod.ext (by simp only; omega) rfl)
  rw [if_neg h2]
  by_cases h3 : n < 2113664
  · rw [if_pos h3]
    simp only [List.cons_append, List.nil_append, decode]
    rw [if_neg (by omega), if_neg (by omega), if_pos (by omega)]
    exact congrArg some (Prod.ext (by simp only; omega) rfl)
  rw [if_neg h3]
  by_cases h4 : n < 270549120
  · rw [if_pos h4]
    simp only [List.cons_append, List.nil_append, decode]
    rw [if_neg (by omega), if_neg (by omega), if_neg (by omega), if_pos (by omega)]
    exact congrArg some (Prod.ext (by simp only; omega) rfl)
  · rw [if_neg h4]
    simp only [List.cons_append, List.nil_append, decode]
    rw [if_neg (by omega), if_neg (by omega), if_neg (by omega), if_neg (by omega)]
    exact congrArg some (Prod.ext (by simp only; omega) rfl)

/-- Every byte produced by `encode` is a byte. -/
theorem encode_bytes (n : Nat) (h : n < 4294967296) : ∀ b ∈ encode n, b < 256 := by
  unfold encode
  intro b hb
  by_cases h1 : n < 128
  · rw [if_pos h1] at hb; simp only [List.mem_singleton] at hb; omega
  rw [if_neg h1] at hb
  by_cases h2 : n < 16512
  · rw [if_pos h2] at hb; simp only [List.mem_cons, List.not_mem_nil, or_false] at hb; omega
  rw [if_neg h2] at hb
  by_cases h3 : n < 2113664
  · rw [if_pos h3] at hb; simp only [List.mem_cons, List.not_mem_nil, or_false] at hb; omega
  rw [if_neg h3] at hb
  by_cases h4 : n < 270549120
  · rw [if_pos h4] at hb; simp only [List.mem_cons, List.not_mem_nil, or_false] at hb; omega
  · rw [if_neg h4] at hb; simp only [List.mem_cons, List.not_mem_nil, or_false] at hb; omega

theorem encode_ne_nil (n : Nat) : encode n ≠ [] := by
  unfold encode
  by_cases h1 : n < 128
  · rw [if_pos h1]; simp
  rw [if_neg h1]
  by_cases h2 : n < 16512
  · rw [if_pos h2]; simp
  rw [if_neg h2]
  by_cases h3 : n < 2113664
  · rw [if_pos h3]; simp
  rw [if_neg h3]
  by_cases h4 : n < 270549120
  · rw [if_pos h4]; simp
  · rw [if_neg h4]; simp

/-- Every proper prefix of an encoding is rejected (the `bail!`s on truncated input). -/
theorem decode_truncated (n : Nat) (h : n < 4294967296) (m : Nat) (hm : m < (encode n).length) :
    decode ((encode n).take m) = none := by
  unfold encode at hm ⊢
  by_cases h1 : n < 128
  · rw [if_pos h1] at hm ⊢
    have : m = 0 := by simp at hm; omega
    subst this; simp [decode]
  rw [if_neg h1] at hm ⊢
  by_cases h2 : n < 16512
  · rw [if_pos h2] at hm ⊢
    simp only [List.length_cons, List.length_nil] at hm
    have : m = 0 ∨ m = 1 := by omega
    rcases this with rfl | rfl
    · simp [decode]
    · simp only [List.take_succ_cons, List.take_zero, decode]
      rw [if_neg (by omega), if_pos (by omega)]
  rw [if_neg h2] at hm ⊢
  by_cases h3 : n < 2113664
  · rw [if_pos h3] at hm ⊢
    simp only [List.length_cons, List.length_nil] at hm
    have : m = 0 ∨ m = 1 ∨ m = 2 := by omega
    rcases this with rfl | rfl | rfl
    · simp [decode]
    · simp only [List.take_succ_cons, List.take_zero, decode]
      rw [if_neg (by omega), if_neg (by omega), if_pos (by omega)]
    · simp only [List.take_succ_cons, List.take_zero, decode]
      rw [if_neg (by omega), if_neg (by omega), if_pos (by omega)]
  rw [if_neg h3] at hm ⊢
  by_cases h4 : n < 270549120
  · rw [if_pos h4] at hm ⊢
    simp only [List.length_cons, List.length_nil] at hm
    have : m = 0 ∨ m = 1 ∨ m = 2 ∨ m = 3 := by omega
    rcases this with rfl | rfl | rfl | rfl
    · simp [decode]
    all_goals
      simp only [List.take_succ_cons, List.take_zero, decode]
      rw [if_neg (by omega), if_neg (by omega), if_neg (by omega), if_pos (by omega)]
  · rw [if_neg h4] at hm ⊢
    simp only [List.length_cons, List.length_nil] at hm
    have : m = 0 ∨ m = 1 ∨ m = 2 ∨ m = 3 ∨ m = 4 := by omega
    rcases this with rfl | rfl | rfl | rfl | rfl
    · simp [decode]
    all_goals
      simp only [List.take_succ_cons, List.take_zero, decode]
      rw [if_neg (by omega), if_neg (by omega), if_neg (by omega), if_neg (by omega)]
theorem splitNul_append (s r : List Nat) (h : ∀ b ∈ s, b ≠ 0) :
    splitNul (s ++ 0 :: r) = some (s, r) := by
  induction s with
  | nil => simp [splitNul]
  | cons b s ih =>
    have hb : b ≠ 0 := h b (by simp)
    have hs : ∀ x ∈ s, x ≠ 0 := fun x hx => h x (by simp [hx])
    simp [splitNul, hb, ih hs]

theorem utf8Valid_ascii (s : List Nat) (h : ∀ b ∈ s, b < 128) : utf8Valid s = true := by
  induction s with
  | nil => simp [utf8Valid]
  | cons b s ih =>
    have hb : b < 128 := h b (by simp)
    have hs : ∀ x ∈ s, x < 128 := fun x hx => h x (by simp [hx])
    rw [utf8Valid.eq_def]; simp [hb, ih hs]

theorem utf8Lossy_ascii (s : List Nat) (h : ∀ b ∈ s, b < 128) : utf8Lossy s = s := by
  induction s with
  | nil => simp [utf8Lossy]
  | cons b s ih =>
    have hb : b < 128 := h b (by simp)
    have hs : ∀ x ∈ s, x < 128 := fun x hx => h x (by simp [hx])
    rw [utf8Lossy.eq_def]; simp [hb, ih hs]

theorem decodeString_encodeString (s r : List Nat) (h : ∀ b ∈ s, 1 ≤ b ∧ b ≤ 127) :
    decodeString (encodeString s ++ r) = some (s, r) := by
  have h0 : ∀ b ∈ s, b ≠ 0 := fun b hb => by have := h b hb; omega
  have h1 : ∀ b ∈ s, b < 128 := fun b hb => by have := h b hb; omega
  simp [decodeString, encodeString, splitNul_append s r h0, utf8Valid_ascii s h1]

end Ragc.CollVarint
