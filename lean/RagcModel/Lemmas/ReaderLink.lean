import RagcModel.Lemmas.ReaderState
import RagcModel.Lemmas.WriterMain
/-!
# The link between the reader-handle model (C08), the range model (C07) and the written file (C01/C02)

`Model/ReaderState.lean` proves its theorems for an ABSTRACT archive content `A : Arch`;
`Props.C01.read_write` proves that the independent decoder recovers the input from the bytes of the
reference writer. This file connects the two:

* **Part A (every `Arch`)** — when every descriptor of a contig loads, the loops of the handle model
  (`reconstruct`, `rangeOf`, the length loop) over the pure loader ARE the functions of
  `Model/Range.lean` on the list of loaded, re-oriented segments (`viewOf`): `reconstruct_pure`,
  `rangeOf_pure`, and in terms of the specification `answer`: `answer_getContig`, `answer_contigRange`,
  `answer_contigLength`, `answerSample_ok`. This is what lets C07's theorems (`range_eq`, `length_eq`,
  `reconstruct_eq_full`) speak about the handle.

* **Part B (the bridge, decoder tables → `Arch`)** — `archOfDecoded k mm names tables gds` builds the
  `Arch` from what the stages of the independent decoder `Agc3.decodeArchive` return (`readParams`,
  `decodeCatalogue`, `decodeGroups`): sample names, per-sample contig tables cut into batches of 50,
  and per group the decoded reference and pack entries. `segPure_decoded`: on that `Arch` the handle's
  segment loader is `Agc3.getSegment`, for EVERY descriptor.

* **Part C (the written file)** — `archOf cfg inp dec`: the content the reference writer stores,
  defined from the writer's PLAN (no ZSTD, no bytes): the input's sample names, the descriptor tables
  the writer registers (`descOfP` = `Writer.descOf`), batches of 50, and per group the plan's
  reference and pack entries read with the format's addressing rule. Proved:
  - `archOf_wf` (C08's well-formedness),
  - `written_arch` — DIRECTION PROVED: bytes → decoder stages → `archOfDecoded … = archOf cfg inp dec`
    (an equality of `Arch` values, functions included), under the hypotheses of `read_write`;
  - `contig_views`: every descriptor of every contig of `archOf` loads, and the loaded views are the
    writer's pieces (`cutPieces`), which tile the contig;
  - the answers: `answer_listContigs_written`, `answer_getContig_written`, `answer_getSample_written`,
    `answer_writeFasta_written`, `contig_range_view` (for C07), error side `unknownContig_written`;
  - `planned_of_minMatch`: the planner answers whenever `min_match_len ≥ 4`, so "the writer answers"
    can be replaced by that inequality in all `archOf`-level theorems (`Planned`).

The theorems a reader of the property wants are re-stated in `Props/C08.lean`
(`reader_answers_input`, …) and `Props/C07.lean` (`range_on_written_archive`, …).

## What is NOT proved here (honest list)

1. `Arch.ref/delta/raw` of `archOf` are the FORMAT's reading of a group (the independent decoder's
   `Agc3.getSegment`: metadata-driven unframing, `entryAddress`, `LzDiff.decodeSeg`). ragc's own
   `Decompressor::get_segment` additionally has a "2-bit packed?" heuristic on reference parts that
   misfires for references of ≤ 2 symbols; that the two readers agree on archives `create` writes is
   checked by the C02 harness (decoder = ragc's reader on every generated archive), not proved.
2. `Arch.streams` (`get_compression_stats`) and `Arch.refOld` (read only by the pre-repair `stepOld`)
   are not linked: `archOf` sets them to `[]` / `err`. `compressionStats` is therefore outside
   `reader_answers_input`.
3. Sample names must be pairwise distinct and contig names distinct inside each sample
   (`NamesDistinct`, decidable) for the answers to be "the input's": the handle resolves a sample name
   to the LAST sample so called and a contig name to the FIRST contig so called (`lookup`,
   `findContig`); the index-based lemmas (`piece_loads`, `contig_views`, `contigsOf_archOf` with its
   explicit `lookup … = some s` hypothesis) hold without it.
4. That the REAL writer is an instance of `writeArchive` is the C02 harness's byte identity, as for
   `read_write`.
5. The other operations (`get_contig_segments_desc`, `get_segment_data`, `get_reference_segment`,
   `get_samples_by_prefix`, `list_samples_with_prefix`, `get_group_statistics`, `get_all_segments`) are
   functions of `archOf` after any history (`Props.C08.answer_canonical` + `archOf_wf`) but their
   values are not spelled out in terms of the input here.
-/
namespace Ragc.ReaderLink
open Ragc.CollVarint (Res)
open Ragc.Names (Name)
open Ragc.Details (Seg Contig)
open Ragc.ReaderState

/-! # Part A — the handle's loops are C07's functions on the loaded views -/

def optErr {α : Type} : Option α → Res α
  | some a => .ok a
  | none => .err

def optPanic {α : Type} : Option α → Res α
  | some a => .ok a
  | none => .panic

/-- The descriptor loads on an empty-cache handle. -/
def Loads (A : Arch) (d : Seg) : Prop := ∃ x, segPure A d = .ok x

/-- The loaded segment after the orientation fix (`[]` if it does not load). -/
def dataOf (A : Arch) (d : Seg) : Bases :=
  match segPure A d with
  | .ok x => orient d x
  | _ => []

/-- The reader's view of one descriptor: what `Model/Range.lean` calls a `Seg`. -/
def viewOf (A : Arch) (d : Seg) : Ragc.Range.Seg := ⟨d.rawLen, dataOf A d⟩

theorem dataOf_ok (A : Arch) (d : Seg) (x : Bases) (h : segPure A d = .ok x) : dataOf A d = orient d x := by
  simp only [dataOf, h]

theorem views_rawLen (A : Arch) (segs : List Seg) :
    (segs.map (viewOf A)).map Ragc.Range.Seg.rawLen = segs.map Seg.rawLen := by
  simp [List.map_map, Function.comp_def, viewOf]

theorem reconstructLoop_pure (A : Arch) (k : Nat) :
    ∀ (segs : List Seg) (acc : Bases), (∀ d ∈ segs, Loads A d) →
      (reconstructLoop (pureLoad A) k () false segs acc).2
        = optErr (Ragc.Range.reconstructTail k (segs.map (viewOf A)) acc) := by
  intro segs
  induction segs with
  | nil => intro acc _; rfl
  | cons d rest ih =>
    intro acc h
    obtain ⟨x, hx⟩ := h d (by simp)
    have hd := dataOf_ok A d x hx
    unfold reconstructLoop
    simp only [pureLoad, hx, Bool.false_eq_true, if_false, List.map_cons, Ragc.Range.reconstructTail,
      viewOf, hd]
    split
    · rfl
    · exact ih _ (fun d' hd' => h d' (by simp [hd']))

/-- `reconstruct_contig` of the handle model = `Range.reconstruct` on the loaded views. -/
theorem reconstruct_pure (A : Arch) (k : Nat) (segs : List Seg) (h : ∀ d ∈ segs, Loads A d) :
    (reconstruct (pureLoad A) k () segs).2 = optErr (Ragc.Range.reconstruct k (segs.map (viewOf A))) := by
  cases segs with
  | nil => rfl
  | cons d rest =>
    obtain ⟨x, hx⟩ := h d (by simp)
    have hd := dataOf_ok A d x hx
    unfold reconstruct reconstructLoop
    simp only [pureLoad, hx, if_true, List.map_cons, Ragc.Range.reconstruct, viewOf, hd, List.nil_append]
    exact reconstructLoop_pure A k rest _ (fun d' hd' => h d' (by simp [hd']))

theorem segmentRanges_rawLen (k : Nat) :
    ∀ (l l' : List Ragc.Range.Seg) (i pos : Nat), l.map (·.rawLen) = l'.map (·.rawLen) →
      Ragc.Range.segmentRanges k i pos l = Ragc.Range.segmentRanges k i pos l' := by
  intro l
  induction l with
  | nil =>
    intro l' i pos h
    cases l' with
    | nil => rfl
    | cons _ _ => simp at h
  | cons s rest ih =>
    intro l' i pos h
    cases l' with
    | nil => simp at h
    | cons s' rest' =>
      simp only [List.map_cons, List.cons.injEq] at h
      simp only [Ragc.Range.segmentRanges, h.1]
      cases (if i = 0 then some s'.rawLen else Ragc.Range.checkedSub s'.rawLen k) with
      | none => rfl
      | some c => simp only [ih rest' (i + 1) (pos + c) h.2]

theorem collectLoop_pure (A : Arch) (k : Nat) (segs : List Seg) (start e : Nat)
    (h : ∀ d ∈ segs, Loads A d) :
    ∀ (ranges : List (Nat × Nat × Nat)) (acc : Bases),
      (collectLoop (pureLoad A) k segs start e () ranges acc).2
        = optPanic (Ragc.Range.collectRange k (segs.map (viewOf A)) start e ranges acc) := by
  intro ranges
  induction ranges with
  | nil => intro acc; rfl
  | cons x rest ih =>
    intro acc
    obtain ⟨segStart, segEnd, idx⟩ := x
    unfold collectLoop Ragc.Range.collectRange
    split
    · exact ih acc
    · split
      · rfl
      · rw [List.getElem?_map]
        cases hd : segs[idx]? with
        | none => rfl
        | some d =>
          obtain ⟨x, hx⟩ := h d (List.mem_of_getElem? hd)
          have hdd := dataOf_ok A d x hx
          simp only [pureLoad, hx, Option.map_some, viewOf, hdd]
          split <;> split <;> exact ih _

/-- `get_contig_range` of the handle model (after the `start >= end` early return and the descriptor
lookup) = `Range.contigRange` on the loaded views. -/
theorem rangeOf_pure (A : Arch) (k : Nat) (segs : List Seg) (start end_ : Nat)
    (h : ∀ d ∈ segs, Loads A d) (hse : ¬ start ≥ end_) :
    (rangeOf (pureLoad A) k () segs start end_).2
      = optPanic (Ragc.Range.contigRange k (segs.map (viewOf A)) start end_) := by
  unfold rangeOf Ragc.Range.contigRange
  rw [if_neg hse]
  rw [segmentRanges_rawLen k (segs.map fun d => { rawLen := d.rawLen, data := [] }) (segs.map (viewOf A)) 0 0
    (by rw [views_rawLen]; simp [List.map_map, Function.comp_def])]
  cases Ragc.Range.segmentRanges k 0 0 (segs.map (viewOf A)) with
  | none => rfl
  | some rl =>
    obtain ⟨ranges, contigLen⟩ := rl
    simp only []
    split
    · rfl
    · exact collectLoop_pure A k segs start _ h ranges []

/-! ### the same in terms of the specification `answer` -/

/-- `get_contig` answers `Range.reconstruct` of the loaded views. -/
theorem answer_getContig (A : Arch) (s c : Name) (segs : List Seg)
    (hd : contigDesc A.samples (table A) s c = some segs) (hl : ∀ d ∈ segs, Loads A d) :
    answer A (.getContig s c)
      = mapRes Val.bases (optErr (Ragc.Range.reconstruct A.k (segs.map (viewOf A)))) := by
  simp only [answer, answerDesc, hd, reconstruct_pure A A.k segs hl]

/-- `get_contig_range` answers `Range.contigRange` of the loaded views (checked reading). -/
theorem answer_contigRange (A : Arch) (s c : Name) (start end_ : Nat) (segs : List Seg)
    (hd : contigDesc A.samples (table A) s c = some segs) (hl : ∀ d ∈ segs, Loads A d) :
    answer A (.contigRange s c start end_)
      = mapRes Val.bases (optPanic (Ragc.Range.contigRange A.k (segs.map (viewOf A)) start end_)) := by
  by_cases hse : start ≥ end_
  · simp only [answer, hse, if_true, Ragc.Range.contigRange, optPanic, mapRes]
  · simp only [answer, hse, if_false, answerDesc, hd, rangeOf_pure A A.k segs start end_ hl hse]

/-- `get_contig_length` answers the wrapping length loop on the `raw_length`s of the views. -/
theorem answer_contigLength (A : Arch) (s c : Name) (segs : List Seg)
    (hd : contigDesc A.samples (table A) s c = some segs) :
    answer A (.contigLength s c)
      = .ok (.nat (Ragc.Range.contigLengthWrapping A.k ((segs.map (viewOf A)).map Ragc.Range.Seg.rawLen))) := by
  simp only [answer, answerDesc, hd, views_rawLen]

theorem sampleLoop_ok (A : Arch) (k : Nat) :
    ∀ (cs : List Contig) (out acc : List (Name × Bases)), cs.length = out.length →
      (∀ i (hi : i < cs.length) (ho : i < out.length),
        cs[i].name = out[i].1 ∧ (reconstruct (pureLoad A) k () cs[i].segs).2 = .ok out[i].2) →
      (sampleLoop (pureLoad A) k () cs acc).2 = .ok (acc ++ out) := by
  intro cs
  induction cs with
  | nil =>
    intro out acc hl _
    have : out = [] := List.eq_nil_of_length_eq_zero hl.symm
    subst this
    simp [sampleLoop]
  | cons x rest ih =>
    intro out acc hl h
    cases out with
    | nil => simp at hl
    | cons o out =>
      obtain ⟨hn, hx⟩ := h 0 (by simp) (by simp)
      simp only [List.getElem_cons_zero] at hn hx
      unfold sampleLoop
      rcases hr : reconstruct (pureLoad A) k () x.segs with ⟨u, r⟩
      rw [hr] at hx
      simp only at hx
      subst hx
      simp only []
      rw [ih out _ (by simpa using hl) (by
        intro i hi ho
        have := h (i + 1) (by simp; omega) (by simp; omega)
        simpa using this)]
      rw [hn]
      simp

/-- `get_sample` answers all contigs when each one reconstructs. -/
theorem answerSample_ok (A : Arch) (s : Name) (cs : List Contig) (out : List (Name × Bases))
    (hc : contigsOf A.samples (table A) s = some cs) (hl : cs.length = out.length)
    (h : ∀ i (hi : i < cs.length) (ho : i < out.length),
      cs[i].name = out[i].1 ∧ (reconstruct (pureLoad A) A.k () cs[i].segs).2 = .ok out[i].2) :
    answerSample A s = .ok out := by
  simp only [answerSample, hc, sampleLoop_ok A A.k cs out [] hl h, List.nil_append]

/-! ### lookups -/

/-- With pairwise distinct names, `sample_ids.get(name)` is the position of the name. -/
theorem lookup_nodup : ∀ (names : List Name) (i : Nat) (s : Name), names.Nodup → names[i]? = some s →
    lookup names s = some i := by
  intro names
  induction names with
  | nil => intro i s _ h; simp at h
  | cons x xs ih =>
    intro i s hnd h
    simp only [List.nodup_cons] at hnd
    cases i with
    | zero =>
      simp only [List.getElem?_cons_zero, Option.some.injEq] at h
      subst h
      simp only [lookup, (lookup_eq_none_iff xs x).mpr hnd.1, if_true]
    | succ i =>
      simp only [List.getElem?_cons_succ] at h
      simp only [lookup, ih i s hnd.2 h]

/-- With pairwise distinct contig names, the first contig called `cs[i].name` is `cs[i]`. -/
theorem findContig_nodup : ∀ (cs : List Contig) (i : Nat) (x : Contig), (cs.map Contig.name).Nodup →
    cs[i]? = some x → findContig cs x.name = some x := by
  intro cs
  induction cs with
  | nil => intro i x _ h; simp at h
  | cons y ys ih =>
    intro i x hnd h
    simp only [List.map_cons, List.nodup_cons] at hnd
    cases i with
    | zero =>
      simp only [List.getElem?_cons_zero, Option.some.injEq] at h
      subst h
      simp [findContig]
    | succ i =>
      simp only [List.getElem?_cons_succ] at h
      have hne : y.name ≠ x.name := by
        intro hc
        apply hnd.1
        rw [hc]
        exact List.mem_map.mpr ⟨x, List.mem_of_getElem? h, rfl⟩
      have := ih i x hnd.2 h
      unfold findContig at this ⊢
      simp only [List.find?_cons, beq_eq_false_iff_ne.mpr hne]
      exact this

/-! # Part B — the bridge: from the decoder's tables to an `Arch` -/

open Ragc.Agc3 in
/-- What the get-segment path reads of one decoded group: the reference and the pack entries. -/
structure GView where
  ref : Option (List Nat)
  packs : Array (Array (List Nat))

open Ragc.Agc3 in
/-- The pack entry that the addressing rule (`Agc3.entryAddress`) assigns to in-group id `i`. -/
def fetchV (V : GView) (g i : Nat) : Option (List Nat) :=
  (V.packs[(entryAddress g i).1]?).bind (·[(entryAddress g i).2]?)

/-- `contig name ↦ descriptors` table of one sample as a list of `Details.Contig`. -/
def toContigs (t : Ragc.Agc3.ContigTable) : List Contig := t.map fun p => ⟨p.1, p.2⟩

/-- Consecutive chunks of `n` (the metadata batches: 50 samples each, the last one shorter). -/
def chunkF {α : Type} (n : Nat) : Nat → List α → List (List α)
  | 0, _ => []
  | fuel + 1, l => if l.isEmpty then [] else l.take n :: chunkF n fuel (l.drop n)

def chunk {α : Type} (n : Nat) (l : List α) : List (List α) := chunkF n l.length l

theorem chunkF_flatten {α : Type} (n : Nat) (hn : 0 < n) :
    ∀ (fuel : Nat) (l : List α), l.length ≤ fuel → (chunkF n fuel l).flatten = l := by
  intro fuel
  induction fuel with
  | zero =>
    intro l h
    have : l = [] := List.eq_nil_of_length_eq_zero (by omega)
    subst this; rfl
  | succ fuel ih =>
    intro l h
    unfold chunkF
    split
    · rename_i he
      simp [List.isEmpty_iff.mp he]
    · rename_i he
      have hl : 0 < l.length := by
        cases l with
        | nil => simp at he
        | cons _ _ => simp
      rw [List.flatten_cons, ih (l.drop n) (by simp only [List.length_drop]; omega), List.take_append_drop]

theorem chunk_flatten {α : Type} (n : Nat) (hn : 0 < n) (l : List α) : (chunk n l).flatten = l :=
  chunkF_flatten n hn l.length l (Nat.le_refl _)

open Ragc.Agc3 in
/-- **The bridge.** The abstract archive content made of: `k`, `min_match_len` (params stream), the
sample names, the per-sample contig tables (`decodeCatalogue`; cut into batches of 50 samples as
`store_contig_batch` wrote them — nothing in C08 depends on the batch size) and a per-group view of
the segment streams. `ref`, `delta`, `raw` are the three exits of the FORMAT's get-segment rule
(`Agc3.getSegment`): reference = the group's decoded `x…r` part; `delta g i r` = the pack entry
addressed by `entryAddress g i`, LZ-decoded against the cached reference `r`; `raw g i` = the entry
itself, id 0 being the placeholder. `refOld` (pre-repair code only) and `streams`
(`get_compression_stats`) are not linked. -/
def archOfViews (k mm : Nat) (names : List Name) (tables : List ContigTable) (view : Nat → Option GView) : Arch :=
  { k := k
    samples := names
    batches := chunk 50 (tables.map toContigs)
    ref := fun g =>
      match view g with
      | none => .err
      | some V =>
        match V.ref with
        | some r => .ok r
        | none => .err
    refOld := fun _ => .err
    delta := fun g i r =>
      match view g with
      | none => .err
      | some V =>
        match fetchV V g i with
        | none => .err
        | some bytes =>
          match Ragc.Model.LzDiff.decodeSeg mm r bytes with
          | some s => .ok s
          | none => .err
    raw := fun g i =>
      if i = 0 then .err
      else
        match view g with
        | none => .err
        | some V =>
          match fetchV V g i with
          | none => .err
          | some bytes => .ok bytes
    streams := [] }

open Ragc.Agc3 in
def viewOfGds (gds : Array GroupD) (g : Nat) : Option GView :=
  (Agc3.findGroup gds g).map fun G => ⟨G.ref, G.packs⟩

open Ragc.Agc3 in
/-- The `Arch` of a decoded archive: from the results of `readParams` (`k`, `mm`),
`decodeCatalogue` (`names`, `tables`) and `decodeGroups` (`gds`). -/
def archOfDecoded (k mm : Nat) (names : List Name) (tables : Array ContigTable) (gds : Array GroupD) : Arch :=
  archOfViews k mm names tables.toList (viewOfGds gds)

def toRes {α : Type} : Except String α → Res α
  | .ok a => .ok a
  | .error _ => .err

theorem table_archOfViews (k mm : Nat) (names : List Name) (tables : List Ragc.Agc3.ContigTable)
    (view : Nat → Option GView) :
    table (archOfViews k mm names tables view) = tables.map toContigs := by
  unfold table archOfViews
  exact chunk_flatten 50 (by decide) _

theorem wf_archOfViews (k mm : Nat) (names : List Name) (tables : List Ragc.Agc3.ContigTable)
    (view : Nat → Option GView) (h : tables.length = names.length) :
    WF (archOfViews k mm names tables view) := by
  unfold WF
  rw [table_archOfViews]
  simpa [archOfViews] using h

open Ragc.Agc3 in
/-- **On the bridge `Arch`, the handle's segment loader is the decoder's `getSegment`** — for every
descriptor, successful or not (every `Except` error is the handle's `err`; the handle never panics
here). -/
theorem segPure_decoded (k mm : Nat) (names : List Name) (tables : Array ContigTable) (gds : Array GroupD)
    (d : Seg) :
    segPure (archOfDecoded k mm names tables gds) d = toRes (Agc3.getSegment mm gds d) := by
  unfold segPure archOfDecoded archOfViews viewOfGds Agc3.getSegment fetchV
  simp only [noRawGroups]
  cases Agc3.findGroup gds d.group with
  | none => simp only [Option.map_none]; (repeat' split) <;> rfl
  | some G =>
    simp only [Option.map_some]
    by_cases hg : d.group ≥ 16
    · simp only [hg, if_true]
      cases G.ref with
      | none => rfl
      | some ref =>
        simp only []
        by_cases h0 : d.inGroup = 0
        · simp only [h0, if_true]; rfl
        · simp only [h0, if_false]
          cases G.packs[(entryAddress d.group d.inGroup).1]? with
          | none => rfl
          | some pack =>
            simp only [Option.bind_some]
            cases pack[(entryAddress d.group d.inGroup).2]? with
            | none => rfl
            | some bytes =>
              simp only []
              cases Ragc.Model.LzDiff.decodeSeg mm ref bytes <;> rfl
    · simp only [hg, if_false]
      by_cases h0 : d.inGroup = 0
      · simp only [h0, if_true]; rfl
      · simp only [h0, if_false]
        cases G.packs[(entryAddress d.group d.inGroup).1]? with
        | none => rfl
        | some pack =>
          simp only [Option.bind_some]
          cases pack[(entryAddress d.group d.inGroup).2]? <;> rfl

/-! # Part C — the archive content the reference writer stores -/

section Written
open Ragc.Writer Ragc.WriterLemmas

/-- The plan (`Writer.planGroup`: reference, pack entries, in-group ids) of the group with id `g`. -/
def planAt (cfg : Cfg) (inp : List Writer.Sample) (dec : Decisions) (g : Nat) : Option GroupPlan :=
  (Writer.findGroup dec g).bind (planOf cfg (storedAll cfg.k inp dec))

/-- What `storeGroup` stores of group `g`, read back as the format says. -/
def plansView (cfg : Cfg) (inp : List Writer.Sample) (dec : Decisions) (g : Nat) : Option GView :=
  (planAt cfg inp dec g).map fun P => ⟨P.ref, toArr P.packs⟩

/-- The in-group ids the `Packs` machine hands to the members of group `g` (= `Writer.idsOf outs g`). -/
def idsOfPlans (cfg : Cfg) (inp : List Writer.Sample) (dec : Decisions) (g : Nat) : List Nat :=
  ((planAt cfg inp dec g).map (·.ids)).getD []

/-- The descriptor the writer registers for a piece (= `Writer.descOf outs`, `descOf_eq`). -/
def descOfP (cfg : Cfg) (inp : List Writer.Sample) (dec : Decisions) (d : PieceDec) : Seg :=
  ⟨d.group, (idsOfPlans cfg inp dec d.group).getD d.slot 0, d.rev, d.len⟩

def tableOfP (cfg : Cfg) (inp : List Writer.Sample) (dec : Decisions) (cs : List Writer.Contig)
    (dcs : List (List PieceDec)) : Ragc.Agc3.ContigTable :=
  List.zipWith (fun c ds => (c.name, ds.map (descOfP cfg inp dec))) cs dcs

/-- Per sample, the table `contig name ↦ descriptors` of the writer's catalogue. -/
def tablesOf (cfg : Cfg) (inp : List Writer.Sample) (dec : Decisions) : List Ragc.Agc3.ContigTable :=
  List.zipWith (fun s dcs => tableOfP cfg inp dec s.contigs dcs) inp dec.pieces

/-- **The abstract archive content that `writeArchive cfg inp dec zc` stores** (independent of `zc`):
the input's sample names in order; per sample the contig names with the descriptors the writer
registers, in batches of 50 samples; per group the plan's reference and pack entries, read with the
format's get-segment rule (`archOfViews`). `written_arch` proves that this is the `Arch` the
decoder's stages build from the written bytes. -/
def archOf (cfg : Cfg) (inp : List Writer.Sample) (dec : Decisions) : Arch :=
  archOfViews cfg.k cfg.minMatch (inp.map (·.name)) (tablesOf cfg inp dec) (plansView cfg inp dec)

/-- Sample names pairwise distinct, contig names distinct inside each sample (what
`register_sample_contig` guarantees of the catalogue; decidable). -/
def NamesDistinct (inp : List Writer.Sample) : Prop :=
  (inp.map (·.name)).Nodup ∧ ∀ s ∈ inp, (s.contigs.map (·.name)).Nodup

instance (inp : List Writer.Sample) : Decidable (NamesDistinct inp) := by
  unfold NamesDistinct; exact inferInstance

/-- The planner answers for every group (it does whenever `min_match_len ≥ 4`; implied by
`writeArchive … = some bs`). -/
def Planned (cfg : Cfg) (inp : List Writer.Sample) (dec : Decisions) : Prop :=
  ∀ G ∈ dec.groups, ∃ P, planOf cfg (storedAll cfg.k inp dec) G = some P

theorem planned_of_writeGroups (cfg : Cfg) (inp : List Writer.Sample) (dec : Decisions)
    (zc : Nat → List Nat → List Nat) (outs : List GroupOut)
    (hw : writeGroups cfg zc (storedAll cfg.k inp dec) dec.groups = some outs) : Planned cfg inp dec := by
  intro G hG
  obtain ⟨hol, hwat⟩ := writeGroups_at cfg zc _ _ _ hw
  obtain ⟨gi, hgi, rfl⟩ := List.getElem_of_mem hG
  obtain ⟨datas, P, hdat, hplan, _⟩ := hwat gi hgi (by omega)
  exact ⟨P, by simp only [planOf, hdat, Option.bind_some, hplan]⟩

theorem planned_of_writeArchive (cfg : Cfg) (inp : List Writer.Sample) (dec : Decisions)
    (zc : Nat → List Nat → List Nat) (bs : List Nat) (hw : writeArchive cfg inp dec zc = some bs) :
    Planned cfg inp dec := by
  obtain ⟨outs, hwg, _⟩ := writeArchive_unpack cfg inp dec zc bs hw
  exact planned_of_writeGroups cfg inp dec zc outs hwg

/-! ## the planner answers whenever `min_match_len ≥ HASHING_STEP` -/

theorem mapM_isSome {α β : Type} (f : α → Option β) :
    ∀ l : List α, (∀ x ∈ l, ∃ y, f x = some y) → ∃ r, l.mapM f = some r := by
  intro l
  induction l with
  | nil => intro _; exact ⟨[], rfl⟩
  | cons a l ih =>
    intro h
    obtain ⟨y, hy⟩ := h a (by simp)
    obtain ⟨r, hr⟩ := ih (fun x hx => h x (by simp [hx]))
    exact ⟨y :: r, by simp [List.mapM_cons, hy, hr]⟩

/-- under well-formed decisions every piece the decisions name has its stored form -/
theorem stored_of_piece (cfg : Cfg) (inp : List Writer.Sample) (dec : Decisions) (hok : DecOK cfg inp dec)
    (r : PieceRef) (d : PieceDec) (h : lookup3 dec.pieces r = some d) :
    ∃ x, lookup3 (storedAll cfg.k inp dec) r = some x := by
  obtain ⟨dcs, ds, h3, h4, h5⟩ := lookup3_get _ _ _ h
  have hs : r.1 < inp.length := by
    rw [← hok.shape]; exact (List.getElem?_eq_some_iff.mp h3).1
  have h1 : inp[r.1]? = some inp[r.1] := List.getElem?_eq_getElem hs
  have hS := hok.samples _ (mem_zip_of_get _ _ _ _ _ h1 h3)
  have hc : r.2.1 < inp[r.1].contigs.length := by
    have hsh : dcs.length = inp[r.1].contigs.length := hS.shape
    rw [← hsh]; exact (List.getElem?_eq_some_iff.mp h4).1
  have h2 : inp[r.1].contigs[r.2.1]? = some inp[r.1].contigs[r.2.1] := List.getElem?_eq_getElem hc
  have hj : r.2.2 < (cutPieces cfg.k inp[r.1].contigs[r.2.1].data (ds.map (·.len))).length := by
    rw [cutPieces_length]
    simpa using (List.getElem?_eq_some_iff.mp h5).1
  exact ⟨_, stored_lookup cfg.k inp dec r.1 r.2.1 r.2.2 _ _ dcs ds d _ h1 h2 h3 h4 h5
    (List.getElem?_eq_getElem hj)⟩

theorem planGroup_isSome (mm : Nat) (G : GroupDec) (datas : List (List Nat))
    (hmm : Ragc.Gen.lzHashingStep ≤ mm) (hne : datas ≠ []) : ∃ P, planGroup mm G datas = some P := by
  unfold planGroup
  by_cases hg : G.id ≥ 16
  · rw [if_pos hg]
    cases datas with
    | nil => exact absurd rfl hne
    | cons ref rest =>
      simp only []
      obtain ⟨deltas, hd⟩ : ∃ deltas, encodeAll mm ref rest = some deltas :=
        mapM_isSome _ rest (fun t _ => Ragc.Model.LzDiff.encodeExact_isSome mm ref t hmm)
      rw [hd]
      exact ⟨_, rfl⟩
  · rw [if_neg hg]
    exact ⟨_, rfl⟩

/-- **The planner answers** for every group of well-formed decisions as soon as
`min_match_len ≥ HASHING_STEP` (= 4; C09 `encode_total`): the hypothesis "the writer answers" of the
`archOf`-level theorems can be replaced by this inequality. -/
theorem planned_of_minMatch (cfg : Cfg) (inp : List Writer.Sample) (dec : Decisions) (hok : DecOK cfg inp dec)
    (hmm : Ragc.Gen.lzHashingStep ≤ cfg.minMatch) : Planned cfg inp dec := by
  intro G hG
  obtain ⟨_, hne, _, hmem⟩ := hok.groups G hG
  obtain ⟨datas, hdat⟩ := mapM_isSome (lookup3 (storedAll cfg.k inp dec)) G.members (by
    intro r hr
    obtain ⟨j, hj⟩ := List.mem_iff_getElem?.mp hr
    obtain ⟨d, hl, _, _⟩ := hmem (r, j) (List.mem_zipIdx_iff_getElem?.mpr hj)
    exact stored_of_piece cfg inp dec hok r d hl)
  have hdl := (mapM_option_spec _ _ _ hdat).1
  have hdne : datas ≠ [] := by
    intro hc
    rw [hc] at hdl
    exact hne (List.eq_nil_of_length_eq_zero hdl.symm)
  obtain ⟨P, hP⟩ := planGroup_isSome cfg.minMatch G datas hmm hdne
  exact ⟨P, by simp only [planOf, hdat, Option.bind_some, hP]⟩

/-! ## well-formedness -/

theorem table_archOf (cfg : Cfg) (inp : List Writer.Sample) (dec : Decisions) :
    table (archOf cfg inp dec) = (tablesOf cfg inp dec).map toContigs :=
  table_archOfViews _ _ _ _ _

theorem archOf_wf_of_shape (cfg : Cfg) (inp : List Writer.Sample) (dec : Decisions)
    (h : dec.pieces.length = inp.length) : WF (archOf cfg inp dec) := by
  apply wf_archOfViews
  simp [tablesOf, List.length_zipWith, h]

/-- **C08's well-formedness holds for every written archive**: one contig table per sample name. -/
theorem archOf_wf (cfg : Cfg) (inp : List Writer.Sample) (dec : Decisions) (h : DecisionsOK cfg inp dec) :
    WF (archOf cfg inp dec) :=
  archOf_wf_of_shape cfg inp dec (decOK_of cfg inp dec h).shape

/-! ## the descriptors are the writer's -/

theorem planOf_id (cfg : Cfg) (stored : List (List (List (List Nat)))) (G : GroupDec) (P : GroupPlan)
    (h : planOf cfg stored G = some P) : P.id = G.id := by
  unfold planOf at h
  cases hm : G.members.mapM (lookup3 stored) with
  | none => rw [hm] at h; simp at h
  | some datas =>
    rw [hm] at h
    simp only [Option.bind_some] at h
    exact planGroup_spec_id cfg.minMatch G datas P h

theorem idsOf_plans (cfg : Cfg) (zc : Nat → List Nat → List Nat) (stored : List (List (List (List Nat)))) :
    ∀ (gs : List GroupDec) (Ps : List GroupPlan), gs.mapM (planOf cfg stored) = some Ps →
      ∀ g, idsOf (List.zipWith (fun G P => storeGroup cfg zc G.tuples P) gs Ps) g
        = ((((gs.find? (fun G => G.id == g)).bind (planOf cfg stored))).map (·.ids)).getD [] := by
  intro gs
  induction gs with
  | nil =>
    intro Ps h g
    simp only [List.mapM_nil, Option.pure_def, Option.some.injEq] at h
    subst h
    rfl
  | cons G gs ih =>
    intro Ps h g
    simp only [List.mapM_cons, Option.pure_def, Option.bind_eq_bind] at h
    cases hp : planOf cfg stored G with
    | none => rw [hp] at h; simp at h
    | some P =>
      rw [hp] at h
      simp only [Option.bind_some] at h
      cases hr : gs.mapM (planOf cfg stored) with
      | none => rw [hr] at h; simp at h
      | some Ps' =>
        rw [hr] at h
        simp only [Option.bind_some, Option.some.injEq] at h
        subst h
        have hid : (storeGroup cfg zc G.tuples P).id = G.id := planOf_id cfg stored G P hp
        have ih' := ih Ps' hr g
        unfold idsOf at ih' ⊢
        simp only [List.zipWith_cons_cons, List.find?_cons, hid]
        by_cases hg : G.id = g
        · subst hg
          simp only [beq_self_eq_true, Option.bind_some, hp, Option.map_some, Option.getD_some]
          rfl
        · simp only [beq_eq_false_iff_ne.mpr hg]
          exact ih'

/-- The descriptors of `archOf` are the ones `Writer.catalogue` registers. -/
theorem descOf_eq (cfg : Cfg) (inp : List Writer.Sample) (dec : Decisions) (zc : Nat → List Nat → List Nat)
    (outs : List GroupOut) (hw : writeGroups cfg zc (storedAll cfg.k inp dec) dec.groups = some outs)
    (d : PieceDec) : descOf outs d = descOfP cfg inp dec d := by
  obtain ⟨Ps, hPs, houts⟩ := writeGroups_plans cfg zc _ _ _ hw
  unfold descOf descOfP idsOfPlans planAt Writer.findGroup
  rw [houts, idsOf_plans cfg zc _ dec.groups Ps hPs d.group]

theorem tablesOf_eq (cfg : Cfg) (inp : List Writer.Sample) (dec : Decisions) (zc : Nat → List Nat → List Nat)
    (outs : List GroupOut) (hw : writeGroups cfg zc (storedAll cfg.k inp dec) dec.groups = some outs) :
    List.zipWith (fun s dcs => tableOf outs s.contigs dcs) inp dec.pieces = tablesOf cfg inp dec := by
  have : descOf outs = descOfP cfg inp dec := funext (descOf_eq cfg inp dec zc outs hw)
  unfold tablesOf tableOfP tableOf
  rw [this]

/-! ## the bridge for the written file -/

theorem findGroup_of_mem (dec : Decisions) (hnd : (dec.groups.map (·.id)).Nodup) (G : GroupDec)
    (hG : G ∈ dec.groups) : Writer.findGroup dec G.id = some G := by
  obtain ⟨i, hi, rfl⟩ := List.getElem_of_mem hG
  exact find_by_key (fun G : GroupDec => G.id) dec.groups i hi hnd

/-- The decoded group table and the plans give the same view of every group id. -/
theorem view_eq (cfg : Cfg) (inp : List Writer.Sample) (dec : Decisions) (gds : Array Ragc.Agc3.GroupD)
    (hnd : (dec.groups.map (·.id)).Nodup) (hpl : Planned cfg inp dec)
    (hG : GroupsDecoded cfg inp dec gds) : viewOfGds gds = plansView cfg inp dec := by
  funext g
  unfold viewOfGds plansView planAt
  cases hf : Writer.findGroup dec g with
  | some G =>
    have hGin : G ∈ dec.groups := List.mem_of_find?_eq_some hf
    have hGid : G.id = g := by
      have := List.find?_some hf
      simpa using this
    obtain ⟨P, hP⟩ := hpl G hGin
    have hP' := hP
    unfold planOf at hP'
    cases hdat : G.members.mapM (lookup3 (storedAll cfg.k inp dec)) with
    | none => rw [hdat] at hP'; simp at hP'
    | some datas =>
      rw [hdat] at hP'
      simp only [Option.bind_some] at hP'
      obtain ⟨GD, hfind, hm⟩ := hG.find G hGin datas P hdat hP'
      rw [hGid] at hfind
      simp only [hfind, Option.map_some, Option.bind_some, hP, hm.ref, hm.packs]
  | none =>
    simp only [Option.bind_none, Option.map_none]
    cases hfg : Ragc.Agc3.findGroup gds g with
    | none => rfl
    | some GD =>
      exfalso
      unfold Ragc.Agc3.findGroup at hfg
      have hid : GD.id = g := by
        have := Array.find?_some hfg
        simpa using this
      have hmem : GD ∈ gds.toList := Array.mem_toList_iff.mpr (Array.mem_of_find?_eq_some hfg)
      obtain ⟨G, hGin, hGid⟩ := List.mem_map.mp (hG.ids GD hmem)
      have := findGroup_of_mem dec hnd G hGin
      rw [hGid, hid, hf] at this
      cases this

open Ragc.Agc3 in
/-- **The `Arch` read from the written bytes is `archOf`.** DIRECTION: file → decoder → `Arch`.
Under the hypotheses of `Props.C01.read_write`: the stages of the independent decoder on
`bs = writeArchive cfg inp dec zc` — `openArchive`, `readParams`, `decodeCatalogue`, `decodeGroups` —
succeed with the violation accumulator unchanged, return `cfg.k`, `cfg.minMatch`, the input's sample
names, and a contig-table array and a group table from which the bridge `archOfDecoded` builds
EXACTLY `archOf cfg inp dec` (equality of `Arch` values: same batches, and the same `ref`, `delta`,
`raw` functions on every argument). -/
theorem written_arch (cfg : Cfg) (inp : List Writer.Sample) (dec : Decisions)
    (zc : Nat → List Nat → List Nat) (zd : List Nat → Option (List Nat)) (bs : List Nat)
    (hdec : DecisionsOK cfg inp dec) (hz : ∀ l x, zd (zc l x) = some x) (hne : ∀ l x, zc l x = [] → x = [])
    (hcodes : codesOK inp) (hw : writeArchive cfg inp dec zc = some bs) (a : Acc) :
    ∃ o tables nB gds, openArchive bs = .ok o ∧
      readParams o a = .ok (a, cfg.k, cfg.minMatch, cfg.segSize) ∧
      decodeCatalogue zd o cfg.k cfg.segSize a = .ok (a, inp.map (·.name), tables, nB) ∧
      decodeGroups zd o a = .ok (a, gds) ∧
      archOfDecoded cfg.k cfg.minMatch (inp.map (·.name)) tables gds = archOf cfg inp dec := by
  have hok := decOK_of cfg inp dec hdec
  obtain ⟨outs, hwg, hfit, hmd, hbs, hlen⟩ := writeArchive_unpack cfg inp dec zc bs hw
  have hoids := outs_ids cfg zc _ _ _ hwg
  have hpl := planned_of_writeGroups cfg inp dec zc outs hwg
  generalize hcat : catalogue inp dec outs = cat at hfit hmd hbs
  generalize hparts : partList cfg zc inp outs (Ragc.Details.storeBatches cfg.segSize cfg.k 50 cat) = parts at hmd hbs
  obtain ⟨o, hopen, hdir, hread⟩ := archive_opens (regNames dec) parts (regNames_nodup dec hok.nodup)
    (by rw [regNames_eq]; simp [fixedStreamNames]) (regNames_nz dec)
    (by rw [← hparts]; exact partList_names cfg zc inp dec outs _ hoids) hmd (by rw [← hbs]; exact hlen)
  have hO : Opens o (regNames dec) (partList cfg zc inp outs (Ragc.Details.storeBatches cfg.segSize cfg.k 50 cat)) := by
    rw [hparts]; exact ⟨hdir, hread⟩
  have h3 := readParams_ok o dec cfg zc inp outs _ hO hok.k32 hok.mm32 hok.seg32 a
  have hnameok : ∀ s ∈ inp, ∀ b ∈ s.name, 1 ≤ b ∧ b ≤ 127 := by
    intro s hs
    obtain ⟨i, hi⟩ := List.mem_iff_getElem?.mp hs
    have hil : i < dec.pieces.length := by rw [hok.shape]; exact (List.getElem?_eq_some_iff.mp hi).1
    have hp : dec.pieces[i]? = some dec.pieces[i] := List.getElem?_eq_getElem hil
    exact nameOK_iff _ (hok.samples _ (mem_zip_of_get _ _ _ _ _ hi hp)).name
  have h4 := decodeCatalogue_ok zc zd hz hne cfg dec inp outs o cat hO hfit
    (by rw [← hcat]; exact catalogue_ok cfg inp dec zc outs hok hcodes hwg)
    (by rw [← hcat]; exact catalogue_length inp dec outs hok.shape) hok.nS hnameok hok.pred a
  obtain ⟨gds, h5, hG⟩ := decodeGroups_ok zc zd hz hne cfg inp dec outs _ o hok hcodes hwg hO a
  have htab : cat.map tableOfSample = tablesOf cfg inp dec := by
    rw [← hcat, catalogue_tables inp dec outs, tablesOf_eq cfg inp dec zc outs hwg]
  refine ⟨o, _, _, gds, by rw [hbs]; exact hopen, h3, h4, h5, ?_⟩
  unfold archOfDecoded archOf
  rw [List.toList_toArray, htab, view_eq cfg inp dec gds hok.nodup hpl hG]

/-! ## the segments of the written archive load -/

theorem orient_back (d : Seg) (p : List Nat) : ReaderState.orient d (Writer.orient d.rev p) = p := by
  have := Ragc.Roundtrip.orient_involutive d.rev p
  unfold Ragc.Roundtrip.orient at this
  unfold ReaderState.orient Writer.orient
  exact this

/-- On `archOf`, the handle's loader returns `x` for the descriptor `(g, id, _, _)` whenever the plan
of group `g` holds `x` at `id` (`SegAt`: reference / LZ entry decoding against it / raw entry). -/
theorem segPure_plan (cfg : Cfg) (inp : List Writer.Sample) (dec : Decisions) (P : GroupPlan) (id : Nat)
    (x : List Nat) (rev : Bool) (len : Nat) (hp : planAt cfg inp dec P.id = some P)
    (h : SegAt cfg.minMatch P id x) :
    segPure (archOf cfg inp dec) ⟨P.id, id, rev, len⟩ = .ok x := by
  unfold SegAt at h
  unfold segPure archOf archOfViews plansView fetchV
  simp only [hp, Option.map_some]
  by_cases hg : P.id ≥ 16
  · rw [if_pos hg] at h
    obtain ⟨ref, href, h⟩ := h
    simp only [hg, if_true, href]
    rcases h with ⟨h0, hx⟩ | ⟨h0, bytes, he, hd⟩
    · simp only [h0, if_true, hx]
    · simp only [h0, if_false, toArr_entry, he, hd]
  · rw [if_neg hg] at h
    simp only [hg, if_false, h.1, toArr_entry, h.2]

/-- **Every registered piece loads.** The descriptor the writer registers for piece `j` of contig `c`
of sample `s` loads, on `archOf`, the stored (oriented) form of that piece, and its `raw_length` is
the piece's length. (`read_write_segments` at the level of the handle model.) -/
theorem piece_loads (cfg : Cfg) (inp : List Writer.Sample) (dec : Decisions) (hok : DecOK cfg inp dec)
    (hcodes : codesOK inp) (hpl : Planned cfg inp dec)
    (s c j : Nat) (smp : Writer.Sample) (ctg : Writer.Contig) (dcs : List (List PieceDec)) (ds : List PieceDec)
    (h1 : inp[s]? = some smp) (h2 : smp.contigs[c]? = some ctg) (h3 : dec.pieces[s]? = some dcs)
    (h4 : dcs[c]? = some ds) (hj : j < ds.length)
    (hp : j < (cutPieces cfg.k ctg.data (ds.map (·.len))).length) :
    segPure (archOf cfg inp dec) (descOfP cfg inp dec ds[j])
        = .ok (Writer.orient ds[j].rev (cutPieces cfg.k ctg.data (ds.map (·.len)))[j]) ∧
      ds[j].len = (cutPieces cfg.k ctg.data (ds.map (·.len)))[j].length := by
  have hS := hok.samples _ (mem_zip_of_get _ _ _ _ _ h1 h3)
  have hC := hS.contigs _ (mem_zip_of_get _ _ _ _ _ h2 h4)
  have hlens := cutPieces_lengths0 cfg.k ctg.data _ hC.tiles
  have h5 : ds[j]? = some ds[j] := List.getElem?_eq_getElem hj
  have h6 : (cutPieces cfg.k ctg.data (ds.map (·.len)))[j]? = some (cutPieces cfg.k ctg.data (ds.map (·.len)))[j] :=
    List.getElem?_eq_getElem hp
  have hrl : ds[j].len = (cutPieces cfg.k ctg.data (ds.map (·.len)))[j].length := by
    have := congrArg (fun l => l[j]?) hlens
    simp only [List.getElem?_map, h6, h5, Option.map_some, Option.some.injEq] at this
    exact this.symm
  refine ⟨?_, hrl⟩
  obtain ⟨G, hfG, hmem⟩ := hok.pieces _ (mem_allRefs dec s c j dcs ds ds[j] h3 h4 h5)
  simp only [] at hfG hmem
  have hGin : G ∈ dec.groups := List.mem_of_find?_eq_some hfG
  have hGid : G.id = ds[j].group := by
    have := List.find?_some hfG
    simpa using this
  obtain ⟨P, hP⟩ := hpl G hGin
  have hP' := hP
  unfold planOf at hP'
  cases hdat : G.members.mapM (lookup3 (storedAll cfg.k inp dec)) with
  | none => rw [hdat] at hP'; simp at hP'
  | some datas =>
    rw [hdat] at hP'
    simp only [Option.bind_some] at hP'
    obtain ⟨hdl, hdall⟩ := mapM_option_spec _ _ _ hdat
    obtain ⟨hPid, _, _, hseg⟩ := planGroup_spec cfg.minMatch G datas P hP' (by
      intro x hx
      obtain ⟨t, ht', rfl⟩ := List.getElem_of_mem hx
      exact stored_ok cfg inp dec hok hcodes _ _ (hdall t (by omega) ht'))
    have hslot : ds[j].slot < G.members.length := by
      apply Classical.byContradiction
      intro hc
      rw [List.getElem?_eq_none (by omega)] at hmem
      cases hmem
    have hslot' : ds[j].slot < datas.length := by omega
    have hdata : datas[ds[j].slot] = Writer.orient ds[j].rev (cutPieces cfg.k ctg.data (ds.map (·.len)))[j] := by
      have e1 := hdall ds[j].slot hslot hslot'
      have e2 : G.members[ds[j].slot] = (s, c, j) := by
        rw [List.getElem?_eq_getElem hslot] at hmem
        simpa using hmem
      rw [e2, stored_lookup cfg.k inp dec s c j smp ctg dcs ds ds[j] _ h1 h2 h3 h4 h5 h6] at e1
      simpa using e1.symm
    have hsa := (hseg ds[j].slot hslot').2
    rw [hdata] at hsa
    have hat : planAt cfg inp dec P.id = some P := by
      unfold planAt
      rw [hPid, hGid, hfG]
      exact hP
    have hids : idsOfPlans cfg inp dec ds[j].group = P.ids := by
      unfold idsOfPlans
      rw [← hGid, ← hPid, hat]
      rfl
    unfold descOfP
    rw [hids, ← hGid, ← hPid]
    exact segPure_plan cfg inp dec P _ _ _ _ hat hsa

/-- the reader's view of the pieces of a tiling -/
def viewsOfPieces (pieces : List (List Nat)) : List Ragc.Range.Seg :=
  pieces.map fun p => (⟨p.length, p⟩ : Ragc.Range.Seg)

/-- **The views of a written contig are the writer's pieces.** For every contig of every sample:
every descriptor the writer registers for it loads on `archOf`; the loaded, re-oriented views are
exactly the pieces `cutPieces` (each with `raw_length` = its length); and these tile the contig. -/
theorem contig_views (cfg : Cfg) (inp : List Writer.Sample) (dec : Decisions) (hok : DecOK cfg inp dec)
    (hcodes : codesOK inp) (hpl : Planned cfg inp dec)
    (s c : Nat) (smp : Writer.Sample) (ctg : Writer.Contig) (dcs : List (List PieceDec)) (ds : List PieceDec)
    (h1 : inp[s]? = some smp) (h2 : smp.contigs[c]? = some ctg) (h3 : dec.pieces[s]? = some dcs)
    (h4 : dcs[c]? = some ds) :
    (∀ d ∈ ds.map (descOfP cfg inp dec), Loads (archOf cfg inp dec) d) ∧
    (ds.map (descOfP cfg inp dec)).map (viewOf (archOf cfg inp dec))
      = viewsOfPieces (cutPieces cfg.k ctg.data (ds.map (·.len))) ∧
    Ragc.Segment.Tiles cfg.k ctg.data (cutPieces cfg.k ctg.data (ds.map (·.len))) := by
  have hS := hok.samples _ (mem_zip_of_get _ _ _ _ _ h1 h3)
  have hC := hS.contigs _ (mem_zip_of_get _ _ _ _ _ h2 h4)
  have ht := tiles_of_check cfg.k ctg.data _ hC.tiles
  have hplen : (cutPieces cfg.k ctg.data (ds.map (·.len))).length = ds.length := by
    rw [cutPieces_length]; simp
  refine ⟨?_, ?_, ht⟩
  · intro d hd
    obtain ⟨j, hj, rfl⟩ := List.getElem_of_mem hd
    simp only [List.length_map] at hj
    simp only [List.getElem_map]
    exact ⟨_, (piece_loads cfg inp dec hok hcodes hpl s c j smp ctg dcs ds h1 h2 h3 h4 hj (by omega)).1⟩
  · unfold viewsOfPieces
    apply List.ext_getElem (by simp [hplen])
    intro j hj1 hj2
    simp only [List.length_map] at hj1 hj2
    simp only [List.getElem_map]
    obtain ⟨hl, hr⟩ := piece_loads cfg inp dec hok hcodes hpl s c j smp ctg dcs ds h1 h2 h3 h4 hj1 hj2
    unfold viewOf
    rw [dataOf_ok _ _ _ hl]
    have e1 : (descOfP cfg inp dec ds[j]).rev = ds[j].rev := rfl
    have e2 : (descOfP cfg inp dec ds[j]).rawLen = ds[j].len := rfl
    rw [← e1, orient_back, e2, hr]

/-- What C07 needs of the views of a tiling: well-formed, and their full extraction is the contig. -/
theorem views_of_tiles (k : Nat) (c : List Nat) (pieces : List (List Nat))
    (ht : Ragc.Segment.Tiles k c pieces) :
    Ragc.Range.WF k (viewsOfPieces pieces) ∧ Ragc.Range.full k (viewsOfPieces pieces) = c ∧
      Ragc.Range.reconstruct k (viewsOfPieces pieces) = some c := by
  have hl2 : ∀ s ∈ (viewsOfPieces pieces).tail, k ≤ s.data.length := by
    unfold viewsOfPieces
    cases hpz : pieces with
    | nil => intro s hs; simp at hs
    | cons p ps =>
      rw [hpz] at ht
      intro s hs
      simp only [List.map_cons, List.tail_cons, List.mem_map] at hs
      obtain ⟨d, hd, rfl⟩ := hs
      exact Ragc.Segment.tilesFrom_later_ge k _ ps _ ht.2.2 d hd
  have hfull : Ragc.Range.full k (viewsOfPieces pieces) = c := by
    unfold viewsOfPieces
    rw [Ragc.Roundtrip.full_eq_reassemble, Ragc.Segment.reassemble_of_tiles k _ _ ht]
  refine ⟨⟨?_, hl2⟩, hfull, ?_⟩
  · intro s hs
    unfold viewsOfPieces at hs
    obtain ⟨d, _, rfl⟩ := List.mem_map.mp hs
    rfl
  · rw [reconstruct_full k _ hl2, hfull]

/-! ## catalogue lookups on `archOf` -/

/-- The contig list `archOf` holds for a sample. -/
def contigListOf (cfg : Cfg) (inp : List Writer.Sample) (dec : Decisions) (smp : Writer.Sample)
    (dcs : List (List PieceDec)) : List Ragc.Details.Contig :=
  toContigs (tableOfP cfg inp dec smp.contigs dcs)

theorem contigListOf_get (cfg : Cfg) (inp : List Writer.Sample) (dec : Decisions) (smp : Writer.Sample)
    (dcs : List (List PieceDec)) (c : Nat) (ctg : Writer.Contig) (ds : List PieceDec)
    (h2 : smp.contigs[c]? = some ctg) (h4 : dcs[c]? = some ds) :
    (contigListOf cfg inp dec smp dcs)[c]? = some ⟨ctg.name, ds.map (descOfP cfg inp dec)⟩ := by
  unfold contigListOf toContigs tableOfP
  rw [List.getElem?_map, zipWith_get _ _ _ c ctg ds h2 h4]
  rfl

theorem contigListOf_names (cfg : Cfg) (inp : List Writer.Sample) (dec : Decisions) (smp : Writer.Sample)
    (dcs : List (List PieceDec)) (hsh : dcs.length = smp.contigs.length) :
    (contigListOf cfg inp dec smp dcs).map Ragc.Details.Contig.name = smp.contigs.map (·.name) := by
  unfold contigListOf toContigs tableOfP
  rw [List.map_map, List.map_zipWith]
  exact zipWith_fst (fun c : Writer.Contig => c.name) _ _ hsh

theorem contigsOf_archOf (cfg : Cfg) (inp : List Writer.Sample) (dec : Decisions) (s : Nat) (sn : Name)
    (smp : Writer.Sample) (dcs : List (List PieceDec)) (h1 : inp[s]? = some smp)
    (h3 : dec.pieces[s]? = some dcs) (hl : lookup (inp.map (·.name)) sn = some s) :
    ReaderState.contigsOf (archOf cfg inp dec).samples (table (archOf cfg inp dec)) sn
      = some (contigListOf cfg inp dec smp dcs) := by
  rw [table_archOf]
  have hs : (archOf cfg inp dec).samples = inp.map (·.name) := rfl
  unfold ReaderState.contigsOf
  rw [hs, hl]
  simp only [Option.map_some, Option.some.injEq]
  have : ((tablesOf cfg inp dec).map toContigs)[s]? = some (contigListOf cfg inp dec smp dcs) := by
    unfold tablesOf contigListOf
    rw [List.getElem?_map, zipWith_get _ _ _ s smp dcs h1 h3]
    rfl
  rw [List.getD_eq_getElem?_getD, this]
  rfl

/-- index data of a sample of the input under well-formed decisions -/
theorem sample_index (cfg : Cfg) (inp : List Writer.Sample) (dec : Decisions) (hok : DecOK cfg inp dec)
    (smp : Writer.Sample) (hs : smp ∈ inp) :
    ∃ (s : Nat) (dcs : List (List PieceDec)), inp[s]? = some smp ∧ dec.pieces[s]? = some dcs ∧ dcs.length = smp.contigs.length := by
  obtain ⟨s, hi⟩ := List.mem_iff_getElem?.mp hs
  have hil : s < dec.pieces.length := by rw [hok.shape]; exact (List.getElem?_eq_some_iff.mp hi).1
  have hp : dec.pieces[s]? = some dec.pieces[s] := List.getElem?_eq_getElem hil
  exact ⟨s, _, hi, hp, (hok.samples _ (mem_zip_of_get _ _ _ _ _ hi hp)).shape⟩

theorem lookup_sample (inp : List Writer.Sample) (hnd : (inp.map (·.name)).Nodup) (s : Nat)
    (smp : Writer.Sample) (h1 : inp[s]? = some smp) : lookup (inp.map (·.name)) smp.name = some s :=
  lookup_nodup _ s smp.name hnd (by rw [List.getElem?_map, h1]; rfl)

/-! ## the answers on `archOf` (specification level; `Props/C08.lean` adds "after any history") -/

/-- `list_contigs` = the input's contig names of the sample, in order. -/
theorem answer_listContigs_written (cfg : Cfg) (inp : List Writer.Sample) (dec : Decisions)
    (hok : DecOK cfg inp dec) (hnd : NamesDistinct inp) (smp : Writer.Sample) (hs : smp ∈ inp) :
    answer (archOf cfg inp dec) (.listContigs smp.name) = .ok (.names (smp.contigs.map (·.name))) := by
  obtain ⟨s, dcs, h1, h3, hsh⟩ := sample_index cfg inp dec hok smp hs
  simp only [answer, contigsOf_archOf cfg inp dec s smp.name smp dcs h1 h3 (lookup_sample inp hnd.1 s smp h1),
    contigListOf_names cfg inp dec smp dcs hsh]

/-- The descriptor lookup of a contig of the input finds the writer's descriptors. -/
theorem contigDesc_archOf (cfg : Cfg) (inp : List Writer.Sample) (dec : Decisions)
    (hnd : NamesDistinct inp) (s c : Nat) (smp : Writer.Sample) (ctg : Writer.Contig)
    (dcs : List (List PieceDec)) (ds : List PieceDec) (h1 : inp[s]? = some smp)
    (h2 : smp.contigs[c]? = some ctg) (h3 : dec.pieces[s]? = some dcs) (h4 : dcs[c]? = some ds)
    (hsh : dcs.length = smp.contigs.length) :
    contigDesc (archOf cfg inp dec).samples (table (archOf cfg inp dec)) smp.name ctg.name
      = some (ds.map (descOfP cfg inp dec)) := by
  unfold contigDesc
  rw [contigsOf_archOf cfg inp dec s smp.name smp dcs h1 h3 (lookup_sample inp hnd.1 s smp h1)]
  simp only []
  have hnc : ((contigListOf cfg inp dec smp dcs).map Ragc.Details.Contig.name).Nodup := by
    rw [contigListOf_names cfg inp dec smp dcs hsh]
    exact hnd.2 smp (List.mem_of_getElem? h1)
  have := findContig_nodup _ c _ hnc (contigListOf_get cfg inp dec smp dcs c ctg ds h2 h4)
  simp only [] at this
  rw [this]
  rfl

theorem contig_index (smp : Writer.Sample) (dcs : List (List PieceDec)) (hsh : dcs.length = smp.contigs.length)
    (ctg : Writer.Contig) (hc : ctg ∈ smp.contigs) :
    ∃ (c : Nat) (ds : List PieceDec), smp.contigs[c]? = some ctg ∧ dcs[c]? = some ds := by
  obtain ⟨c, hi⟩ := List.mem_iff_getElem?.mp hc
  have hil : c < dcs.length := by rw [hsh]; exact (List.getElem?_eq_some_iff.mp hi).1
  exact ⟨c, _, hi, List.getElem?_eq_getElem hil⟩

/-- **`get_contig` = the input contig's bases.** -/
theorem answer_getContig_written (cfg : Cfg) (inp : List Writer.Sample) (dec : Decisions)
    (hok : DecOK cfg inp dec) (hcodes : codesOK inp) (hpl : Planned cfg inp dec) (hnd : NamesDistinct inp)
    (smp : Writer.Sample) (hs : smp ∈ inp) (ctg : Writer.Contig) (hc : ctg ∈ smp.contigs) :
    answer (archOf cfg inp dec) (.getContig smp.name ctg.name) = .ok (.bases ctg.data) := by
  obtain ⟨s, dcs, h1, h3, hsh⟩ := sample_index cfg inp dec hok smp hs
  obtain ⟨c, ds, h2, h4⟩ := contig_index smp dcs hsh ctg hc
  obtain ⟨hl, hv, ht⟩ := contig_views cfg inp dec hok hcodes hpl s c smp ctg dcs ds h1 h2 h3 h4
  rw [answer_getContig _ _ _ _ (contigDesc_archOf cfg inp dec hnd s c smp ctg dcs ds h1 h2 h3 h4 hsh) hl, hv]
  have hk : (archOf cfg inp dec).k = cfg.k := rfl
  rw [hk, (views_of_tiles cfg.k ctg.data _ ht).2.2]
  rfl

/-- The range and length queries on a contig of the input, in the vocabulary of `Model/Range.lean`:
there are views (the writer's pieces) that are well formed (`Range.WF`: `raw_length` = length, later
ones `≥ k`), whose full extraction is the contig, with `u32` raw lengths, and both queries answer
the `Range` functions on them. `Props/C07.lean` concludes with `range_eq` / `length_eq`. -/
theorem contig_range_view (cfg : Cfg) (inp : List Writer.Sample) (dec : Decisions)
    (hok : DecOK cfg inp dec) (hcodes : codesOK inp) (hpl : Planned cfg inp dec) (hnd : NamesDistinct inp)
    (smp : Writer.Sample) (hs : smp ∈ inp) (ctg : Writer.Contig) (hc : ctg ∈ smp.contigs) :
    ∃ views : List Ragc.Range.Seg,
      Ragc.Range.WF cfg.k views ∧ Ragc.Range.full cfg.k views = ctg.data ∧
      (∀ v ∈ views, v.rawLen < 2 ^ 32) ∧ ctg.data.length < 2 ^ 32 ∧
      (∀ start end_, answer (archOf cfg inp dec) (.contigRange smp.name ctg.name start end_)
        = mapRes Val.bases (optPanic (Ragc.Range.contigRange cfg.k views start end_))) ∧
      answer (archOf cfg inp dec) (.contigLength smp.name ctg.name)
        = .ok (.nat (Ragc.Range.contigLengthWrapping cfg.k (views.map Ragc.Range.Seg.rawLen))) := by
  obtain ⟨s, dcs, h1, h3, hsh⟩ := sample_index cfg inp dec hok smp hs
  obtain ⟨c, ds, h2, h4⟩ := contig_index smp dcs hsh ctg hc
  obtain ⟨hl, hv, ht⟩ := contig_views cfg inp dec hok hcodes hpl s c smp ctg dcs ds h1 h2 h3 h4
  have hd := contigDesc_archOf cfg inp dec hnd s c smp ctg dcs ds h1 h2 h3 h4 hsh
  have hS := hok.samples _ (mem_zip_of_get _ _ _ _ _ h1 h3)
  have hC := hS.contigs _ (mem_zip_of_get _ _ _ _ _ h2 h4)
  obtain ⟨hwf, hfull, _⟩ := views_of_tiles cfg.k ctg.data _ ht
  have hk : (archOf cfg inp dec).k = cfg.k := rfl
  refine ⟨viewsOfPieces (cutPieces cfg.k ctg.data (ds.map (·.len))), hwf, hfull, ?_, hC.len, ?_, ?_⟩
  · intro v hv'
    unfold viewsOfPieces at hv'
    obtain ⟨p, hp, rfl⟩ := List.mem_map.mp hv'
    have hlens := cutPieces_lengths0 cfg.k ctg.data _ hC.tiles
    have hpl' : p.length ∈ ds.map (·.len) := by
      rw [← hlens]; exact List.mem_map.mpr ⟨p, hp, rfl⟩
    have hle : p.length ≤ ctg.data.length := tilesB_le cfg.k ctg.data.length _ hC.tiles _ hpl'
    have h32 : ctg.data.length < 2 ^ 32 := hC.len
    show p.length < 2 ^ 32
    omega
  · intro start end_
    rw [answer_contigRange _ _ _ _ _ _ hd hl, hv, hk]
  · rw [answer_contigLength _ _ _ _ hd, hv, hk]

/-- `get_sample`'s loop returns all contigs of the sample, names and bases, in order. -/
theorem answerSample_written (cfg : Cfg) (inp : List Writer.Sample) (dec : Decisions)
    (hok : DecOK cfg inp dec) (hcodes : codesOK inp) (hpl : Planned cfg inp dec) (hnd : NamesDistinct inp)
    (smp : Writer.Sample) (hs : smp ∈ inp) :
    answerSample (archOf cfg inp dec) smp.name = .ok (smp.contigs.map fun c => (c.name, c.data)) := by
  obtain ⟨s, dcs, h1, h3, hsh⟩ := sample_index cfg inp dec hok smp hs
  have hco := contigsOf_archOf cfg inp dec s smp.name smp dcs h1 h3 (lookup_sample inp hnd.1 s smp h1)
  have hlen : (contigListOf cfg inp dec smp dcs).length = smp.contigs.length := by
    have := congrArg List.length (contigListOf_names cfg inp dec smp dcs hsh)
    simpa using this
  exact answerSample_ok (archOf cfg inp dec) smp.name _ (smp.contigs.map fun c => (c.name, c.data)) hco
    (by simpa using hlen) (by
      intro i hi ho
      simp only [List.length_map] at ho
      have h2 : smp.contigs[i]? = some smp.contigs[i] := List.getElem?_eq_getElem ho
      have h4 : dcs[i]? = some dcs[i] := List.getElem?_eq_getElem (by omega)
      have hget := contigListOf_get cfg inp dec smp dcs i _ _ h2 h4
      have hci : (contigListOf cfg inp dec smp dcs)[i] = ⟨smp.contigs[i].name, dcs[i].map (descOfP cfg inp dec)⟩ := by
        rw [List.getElem?_eq_getElem hi] at hget
        simpa using hget
      obtain ⟨hl, hv, ht⟩ := contig_views cfg inp dec hok hcodes hpl s i smp _ dcs _ h1 h2 h3 h4
      simp only [List.getElem_map, hci]
      refine ⟨trivial, ?_⟩
      rw [reconstruct_pure _ _ _ hl, hv]
      have hk : (archOf cfg inp dec).k = cfg.k := rfl
      rw [hk, (views_of_tiles cfg.k _ _ ht).2.2]
      rfl)

/-- **`get_sample` = all contigs of the sample, names and bases, in order.** -/
theorem answer_getSample_written (cfg : Cfg) (inp : List Writer.Sample) (dec : Decisions)
    (hok : DecOK cfg inp dec) (hcodes : codesOK inp) (hpl : Planned cfg inp dec) (hnd : NamesDistinct inp)
    (smp : Writer.Sample) (hs : smp ∈ inp) :
    answer (archOf cfg inp dec) (.getSample smp.name)
      = .ok (.sample (smp.contigs.map fun c => (c.name, c.data))) := by
  simp only [answer, answerSample_written cfg inp dec hok hcodes hpl hnd smp hs, mapRes]

/-- **`write_sample_fasta` writes the FASTA text of the sample's contigs** (`>name`, lines of 80). -/
theorem answer_writeFasta_written (cfg : Cfg) (inp : List Writer.Sample) (dec : Decisions)
    (hok : DecOK cfg inp dec) (hcodes : codesOK inp) (hpl : Planned cfg inp dec) (hnd : NamesDistinct inp)
    (smp : Writer.Sample) (hs : smp ∈ inp) :
    answer (archOf cfg inp dec) (.writeSampleFasta smp.name)
      = .ok (.file (fastaBytes (smp.contigs.map fun c => (c.name, c.data)))) := by
  simp only [answer, answerSample_written cfg inp dec hok hcodes hpl hnd smp hs, mapRes]

/-- An unknown contig name of a known sample: the lookup fails with `err`. -/
theorem unknownContig_written (cfg : Cfg) (inp : List Writer.Sample) (dec : Decisions)
    (hok : DecOK cfg inp dec) (hnd : NamesDistinct inp) (smp : Writer.Sample) (hs : smp ∈ inp)
    (c : Name) (hc : c ∉ smp.contigs.map (·.name)) :
    ∃ cs, ReaderState.contigsOf (archOf cfg inp dec).samples (table (archOf cfg inp dec)) smp.name = some cs ∧
      ∀ x ∈ cs, x.name ≠ c := by
  obtain ⟨s, dcs, h1, h3, hsh⟩ := sample_index cfg inp dec hok smp hs
  refine ⟨_, contigsOf_archOf cfg inp dec s smp.name smp dcs h1 h3 (lookup_sample inp hnd.1 s smp h1), ?_⟩
  intro x hx hxc
  apply hc
  rw [← contigListOf_names cfg inp dec smp dcs hsh, ← hxc]
  exact List.mem_map.mpr ⟨x, hx, rfl⟩

/-- **"Every catalogue and extraction query returns the input's data"** on handle state `st` of the
archive content `A`:
* `list_samples` = the sample names of `inp`, in order;
* for every sample of `inp`: `list_contigs` = its contig names in order; `get_sample` = all its
  contigs (name, bases) in order; `write_sample_fasta` = the FASTA text of these; `get_contig` of each
  of its contigs = `ok` of exactly that contig's bases; `get_contig` with a contig name the sample
  does not have = `err`;
* for a sample name `inp` does not have: `list_contigs`, `get_sample`, `get_contig` = `err`.
(Range and length queries: `Props.C07.range_on_written_archive`.) -/
def AnswersInput (A : Arch) (inp : List Writer.Sample) (st : State) : Prop :=
  (step A st .listSamples).2 = .ok (.names (inp.map (·.name))) ∧
  (∀ smp ∈ inp,
    (step A st (.listContigs smp.name)).2 = .ok (.names (smp.contigs.map (·.name))) ∧
    (step A st (.getSample smp.name)).2 = .ok (.sample (smp.contigs.map fun c => (c.name, c.data))) ∧
    (step A st (.writeSampleFasta smp.name)).2
      = .ok (.file (fastaBytes (smp.contigs.map fun c => (c.name, c.data)))) ∧
    (∀ ctg ∈ smp.contigs, (step A st (.getContig smp.name ctg.name)).2 = .ok (.bases ctg.data)) ∧
    (∀ c, c ∉ smp.contigs.map (·.name) → (step A st (.getContig smp.name c)).2 = .err)) ∧
  (∀ s, s ∉ inp.map (·.name) →
    (step A st (.listContigs s)).2 = .err ∧ (step A st (.getSample s)).2 = .err ∧
    ∀ c, (step A st (.getContig s c)).2 = .err)

/-! ## the small concrete input of `Props.C01.read_write`'s example (shared by the non-vacuity
examples of `Props/C07.lean` and `Props/C08.lean`) -/

namespace Ex
/-- `k = 3`, `min_match_len = 10`. Sample `A` (= `[65]`) has a contig `c` of 10 symbols cut into two
3-overlapping pieces and a contig `d` of 3 symbols (with an `N`); sample `B` has a contig `c` that
differs from `A`'s in one base. LZ group 16 holds the first piece of `A/c` (its reference) and the
first piece of `B/c` (a real delta); raw group 0 holds the other three pieces, one of them stored
reverse-complemented. -/
def cfg : Ragc.Writer.Cfg := ⟨3, 10, 10, 17⟩
def inp : List Ragc.Writer.Sample :=
  [⟨[65], [⟨[99], [0, 1, 2, 3, 0, 1, 2, 3, 0, 1]⟩, ⟨[100], [2, 4, 1]⟩]⟩,
   ⟨[66], [⟨[99], [0, 1, 2, 2, 0, 1, 2, 3, 0, 1]⟩]⟩]
def dec : Ragc.Writer.Decisions :=
  ⟨[[[⟨6, 16, 0, false⟩, ⟨7, 0, 0, true⟩], [⟨3, 0, 1, false⟩]], [[⟨6, 16, 1, false⟩, ⟨7, 0, 2, false⟩]]],
   [⟨16, false, [(0, 0, 0), (1, 0, 0)]⟩, ⟨0, false, [(0, 0, 1), (0, 1, 0), (1, 0, 1)]⟩]⟩
/-- toy ZSTD with the two C12 facts -/
def zc : Nat → List Nat → List Nat := fun l x => l :: x
def zd : List Nat → Option (List Nat) := fun c => some c.tail

theorem hyps : Ragc.Writer.DecisionsOK cfg inp dec ∧ Ragc.Writer.codesOK inp ∧ NamesDistinct inp ∧
    (∀ l x, zd (zc l x) = some x) ∧ (∀ l x, zc l x = [] → x = []) :=
  ⟨by decide, by decide, by decide, fun _ _ => rfl, fun _ _ h => by simp [zc] at h⟩

/-- a history mixing misses, hits, ranges and full-table queries -/
def hist : List Op :=
  [.getSample [90], .getContig [66] [99], .listContigs [65], .contigRange [65] [99] 2 9, .allSegments,
   .referenceSegment 16, .getContig [65] [120], .getSample [65]]
end Ex

end Written

end Ragc.ReaderLink
