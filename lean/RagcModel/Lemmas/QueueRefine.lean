import RagcModel.Lemmas.Queue
/-!
The link between the two granularities of the bounded priority queue.

* `Model/Queue.lean` — `MemoryBoundedQueue` at critical-section granularity (threads inside calls,
  two condition variables, `notify_one` with an arbitrary choice, spurious wake-ups);
* the queue inside `Model/Pipeline.lean` — completed calls: `push x` is one atomic step enabled iff
  `open ∧ (cur + size ≤ cap ∨ empty)`, `pull` takes any maximal item, `exit` iff `closed ∧ empty`.

This file defines the completed-call queue over the items of the Queue model (`AbsQ`, `astep`), the
abstraction `State.abs`, the projection of event sequences (`opOf`, `trace`), and proves

1. refinement (safety): the projection of every Queue-model run is a run of `AbsQ` that ends in the
   abstraction of the concrete state (`refines_run`);
2. no stuck call (progress): a thread inside a call has an enabled step of its own, or sleeps with
   the guard of its completed-call operation false, or (consumers) a wake-up is in flight to another
   consumer (`own_step_*`, `sleeping_consumer`, `sleeping_producer`); the measure `mu` bounds every
   sequence of steps that are neither spurious wake-ups nor new calls (`internal_step_decreases`),
   and a state without such a step has every thread outside a call or asleep with its guard false
   (`quiescent_blocked`).
-/
namespace Ragc.Queue
open TStatus

/-! ### the queue at completed-call granularity -/

/-- `QueueInner` without the byte counter: `current_size` is recomputed from the items, as in
`Pipeline.State.cur`. -/
structure AbsQ where
  items : List Item
  closed : Bool
deriving DecidableEq, Repr

namespace AbsQ
/-- `current_size` -/
def cur (a : AbsQ) : Nat := sizeSum a.items
def init : AbsQ := ⟨[], false⟩
/-- the guard of a completed `push` (`Pipeline.pushGuard true`) -/
def canPush (cap : Nat) (a : AbsQ) (x : Item) : Prop :=
  a.closed = false ∧ (a.cur + x.size ≤ cap ∨ a.items = [])
/-- the guard of a completed `pull` returning `x` (`Pipeline.isMax`) -/
def canPull (a : AbsQ) (x : Item) : Prop := x ∈ a.items ∧ ∀ y ∈ a.items, y.prio ≤ x.prio
/-- the guard of a completed `pull` returning `None` -/
def canExit (a : AbsQ) : Prop := a.closed = true ∧ a.items = []
instance (cap : Nat) (a : AbsQ) (x : Item) : Decidable (canPush cap a x) := by
  unfold canPush; exact inferInstance
instance (a : AbsQ) (x : Item) : Decidable (canPull a x) := by unfold canPull; exact inferInstance
instance (a : AbsQ) : Decidable (canExit a) := by unfold canExit; exact inferInstance
end AbsQ

/-- A completed call (`t` = the calling thread, ignored by the guards). -/
inductive AOp where
  | push (t : Nat) (x : Item)
  | pull (t : Nat) (x : Item)
  | exit (t : Nat)
  | close (t : Nat)
deriving DecidableEq, Repr

/-- One completed call: `none` = not enabled. -/
def astep (cap : Nat) (a : AbsQ) : AOp → Option AbsQ
  | .push _ x => if a.canPush cap x then some { a with items := x :: a.items } else none
  | .pull _ x => if a.canPull x then some { a with items := a.items.erase x } else none
  | .exit _ => if a.canExit then some a else none
  | .close _ => some { a with closed := true }

def arun (cap : Nat) : AbsQ → List AOp → Option AbsQ
  | a, [] => some a
  | a, o :: os =>
    match astep cap a o with
    | some a' => arun cap a' os
    | none => none

/-- The abstraction function: forget the threads, the history and the byte counter. -/
def State.abs (s : State) : AbsQ := ⟨s.items, s.closed⟩

/-- The completed call that event `e` stands for when it happens in state `s`: the linearisation
points (`pushAdmit`, `tryPushAdmit` ↦ push, `pullTake`, `tryPullTake` ↦ pull, `pullEos` ↦ exit,
`close` ↦ close); every other event (enter, wait, wake, spurious wake, refuse, would-block,
try-pull-empty) is a stutter. The item of a `pushAdmit` is the one the thread carries. -/
def opOf (s : State) : Event → Option AOp
  | .pushAdmit t _ => (s.thr[t]?.bind item?).map (AOp.push t)
  | .tryPushAdmit t it _ => some (.push t it)
  | .pullTake t it _ => some (.pull t it)
  | .tryPullTake t it _ => some (.pull t it)
  | .pullEos t => some (.exit t)
  | .close t => some (.close t)
  | _ => none

/-- The projection of an event sequence executed from `s` (it stops where the run stops). -/
def trace (cap : Nat) : State → List Event → List AOp
  | _, [] => []
  | s, e :: es =>
    match step cap s e with
    | some s' => (opOf s e).toList ++ trace cap s' es
    | none => []

/-- The same projection read off the linearisation history (oldest first). -/
def HEv.op : HEv → Option AOp
  | .accept t x => some (.push t x)
  | .take t x => some (.pull t x)
  | .eos t => some (.exit t)
  | .close t => some (.close t)
  | _ => none

def histOps (h : List HEv) : List AOp := h.reverse.filterMap HEv.op

/-! ### refinement -/

theorem arun_append (cap : Nat) (a : AbsQ) (os ps : List AOp) :
    arun cap a (os ++ ps) = (arun cap a os).bind (fun a' => arun cap a' ps) := by
  induction os generalizing a with
  | nil => rfl
  | cons o os ih =>
    simp only [List.cons_append, arun]
    cases astep cap a o with
    | none => rfl
    | some a' => exact ih a'

theorem abs_setT (s : State) (t : Nat) (st : TStatus) : (s.setT t st).abs = s.abs := rfl

theorem notifNE_same {s s' : State} {w} (h : NotifNE s w s') :
    s'.abs = s.abs ∧ s'.cur = s.cur ∧ s'.hist = s.hist := by
  cases h <;> exact ⟨rfl, rfl, rfl⟩

theorem notifNF_same {s s' : State} {w} (h : NotifNF s w s') :
    s'.abs = s.abs ∧ s'.cur = s.cur ∧ s'.hist = s.hist := by
  cases h <;> exact ⟨rfl, rfl, rfl⟩

/-- what one event does to the abstraction: a stutter leaves it unchanged, a linearisation point is
an enabled completed call -/
def StepRefines (cap : Nat) (s : State) (e : Event) (s' : State) : Prop :=
  match opOf s e with
  | none => s'.abs = s.abs
  | some o => astep cap s.abs o = some s'.abs

theorem refines_step {cap : Nat} {s s' : State} {e : Event} (hc : s.cur = sizeSum s.items)
    (hs : step cap s e = some s') : StepRefines cap s e s' ∧ s'.cur = sizeSum s'.items := by
  have hpush : ∀ (t : Nat) (it : Item), (s.cur + it.size ≤ cap ∨ s.items = []) → s.closed = false →
      astep cap s.abs (.push t it) = some ⟨it :: s.items, s.closed⟩ := by
    intro t it hfit hcl
    have : s.abs.canPush cap it := ⟨hcl, by simpa only [AbsQ.cur, State.abs, ← hc] using hfit⟩
    simp only [astep, this, ↓reduceIte]; rfl
  have hpull : ∀ (t : Nat) (it : Item), it ∈ s.items → (∀ y ∈ s.items, y.prio ≤ it.prio) →
      astep cap s.abs (.pull t it) = some ⟨s.items.erase it, s.closed⟩ := by
    intro t it hm hmax
    have : s.abs.canPull it := ⟨hm, hmax⟩
    simp only [astep, this, ↓reduceIte]; rfl
  cases step_sound hs with
  | pushEnter ht => exact ⟨rfl, hc⟩
  | pushWait ht _ _ _ => exact ⟨rfl, hc⟩
  | pushWake ht => exact ⟨rfl, hc⟩
  | pushSpur ht => exact ⟨rfl, hc⟩
  | pushRefuse ht hcl => exact ⟨rfl, hc⟩
  | @pushAdmit _ t it w ht hfit hcl hn =>
    obtain ⟨ha, hcur, _⟩ := notifNE_same hn
    refine ⟨?_, ?_⟩
    · simp only [StepRefines, opOf, ht, Option.bind_some, item?, Option.map_some]
      rw [ha]; exact hpush t it hfit hcl
    · rw [hcur, show s'.items = it :: s.items from congrArg AbsQ.items ha]
      simp only [State.enq, State.setT, sizeSum, hc]; omega
  | tryPushRefuse ht hcl => exact ⟨rfl, hc⟩
  | tryPushWouldBlock ht hcl hfull hne => exact ⟨rfl, hc⟩
  | @tryPushAdmit _ t it w ht hcl hfit hn =>
    obtain ⟨ha, hcur, _⟩ := notifNE_same hn
    refine ⟨?_, ?_⟩
    · simp only [StepRefines, opOf]
      rw [ha]; exact hpush t it hfit hcl
    · rw [hcur, show s'.items = it :: s.items from congrArg AbsQ.items ha]
      simp only [State.enq, sizeSum, hc]; omega
  | pullEnter ht => exact ⟨rfl, hc⟩
  | pullWait ht _ _ => exact ⟨rfl, hc⟩
  | pullWake ht => exact ⟨rfl, hc⟩
  | pullSpur ht => exact ⟨rfl, hc⟩
  | pullEos ht he hcl =>
    refine ⟨?_, hc⟩
    have : s.abs.canExit := ⟨hcl, he⟩
    simp only [StepRefines, opOf, astep, this, ↓reduceIte]; rfl
  | @pullTake _ t it w ht hm hmax hn =>
    obtain ⟨ha, hcur, _⟩ := notifNF_same hn
    refine ⟨?_, ?_⟩
    · simp only [StepRefines, opOf]
      rw [ha]; exact hpull t it hm hmax
    · rw [hcur, show s'.items = s.items.erase it from congrArg AbsQ.items ha]
      have := sizeSum_erase hm
      simp only [State.take, State.setT, hc]; omega
  | tryPullEmpty ht he => exact ⟨rfl, hc⟩
  | @tryPullTake _ t it w ht hm hmax hn =>
    obtain ⟨ha, hcur, _⟩ := notifNF_same hn
    refine ⟨?_, ?_⟩
    · simp only [StepRefines, opOf]
      rw [ha]; exact hpull t it hm hmax
    · rw [hcur, show s'.items = s.items.erase it from congrArg AbsQ.items ha]
      have := sizeSum_erase hm
      simp only [State.take, hc]; omega
  | close ht => exact ⟨rfl, hc⟩

/-- Refinement from any state whose byte counter is right: the projected sequence is a run of the
completed-call queue from the abstraction of the start state to the abstraction of the end state. -/
theorem refines_run {cap : Nat} : ∀ (evs : List Event) {s0 s : State},
    s0.cur = sizeSum s0.items → run cap s0 evs = some s →
    arun cap s0.abs (trace cap s0 evs) = some s.abs ∧ s.cur = sizeSum s.items
  | [], s0, s, hc, hr => by
    simp only [run, Option.some.injEq] at hr
    subst hr
    exact ⟨rfl, hc⟩
  | e :: es, s0, s, hc, hr => by
    simp only [run] at hr
    cases hs : step cap s0 e with
    | none => simp [hs] at hr
    | some s1 =>
      simp only [hs] at hr
      obtain ⟨href, hc1⟩ := refines_step hc hs
      obtain ⟨ih, hcs⟩ := refines_run es hc1 hr
      refine ⟨?_, hcs⟩
      simp only [trace, hs, StepRefines] at href ⊢
      cases ho : opOf s0 e with
      | none =>
        rw [ho] at href
        simp only [Option.toList_none, List.nil_append]
        rw [← href]; exact ih
      | some o =>
        rw [ho] at href
        simp only [Option.toList_some, List.cons_append, List.nil_append, arun, href]
        exact ih

/-- every completed call of an accepted abstract run was enabled where it happened -/
theorem arun_split {cap : Nat} {a a' : AbsQ} {pre post : List AOp} {o : AOp}
    (h : arun cap a (pre ++ o :: post) = some a') :
    ∃ a1 a2, arun cap a pre = some a1 ∧ astep cap a1 o = some a2 ∧ arun cap a2 post = some a' := by
  rw [arun_append] at h
  cases h1 : arun cap a pre with
  | none => simp [h1] at h
  | some a1 =>
    simp only [h1, Option.bind_some, arun] at h
    cases h2 : astep cap a1 o with
    | none => simp [h2] at h
    | some a2 =>
      simp only [h2] at h
      exact ⟨a1, a2, rfl, h2, h⟩

/-- the guards and effects of `astep`, spelled out: `o.spec cap a a'` iff `o` is enabled in `a` and
leads to `a'` -/
def AOp.spec (cap : Nat) (a a' : AbsQ) : AOp → Prop
  | .push _ x => a.closed = false ∧ (sizeSum a.items + x.size ≤ cap ∨ a.items = []) ∧
      a' = ⟨x :: a.items, a.closed⟩
  | .pull _ x => x ∈ a.items ∧ (∀ y ∈ a.items, y.prio ≤ x.prio) ∧ a' = ⟨a.items.erase x, a.closed⟩
  | .exit _ => a.closed = true ∧ a.items = [] ∧ a' = a
  | .close _ => a' = ⟨a.items, true⟩

theorem astep_spec {cap : Nat} {a a' : AbsQ} {o : AOp} (h : astep cap a o = some a') :
    o.spec cap a a' := by
  cases o with
  | push t x =>
    simp only [astep] at h
    split at h
    · next hg => simp only [Option.some.injEq] at h; exact ⟨hg.1, hg.2, h.symm⟩
    · simp at h
  | pull t x =>
    simp only [astep] at h
    split at h
    · next hg => simp only [Option.some.injEq] at h; exact ⟨hg.1, hg.2, h.symm⟩
    · simp at h
  | exit t =>
    simp only [astep] at h
    split at h
    · next hg => simp only [Option.some.injEq] at h; exact ⟨hg.1, hg.2, h.symm⟩
    · simp at h
  | close t =>
    simp only [astep, Option.some.injEq] at h
    exact h.symm

/-! ### the projection is the linearisation history -/

theorem histOps_cons (e : HEv) (h : List HEv) : histOps (e :: h) = histOps h ++ (HEv.op e).toList := by
  simp only [histOps, List.reverse_cons, List.filterMap_append, List.filterMap_cons,
    List.filterMap_nil]
  cases HEv.op e <;> rfl

theorem hist_step {cap : Nat} {s s' : State} {e : Event} (hs : step cap s e = some s') :
    histOps s'.hist = histOps s.hist ++ (opOf s e).toList := by
  cases step_sound hs with
  | pushEnter ht => simp [opOf, State.setT]
  | pushWait ht _ _ _ => simp [opOf, State.setT]
  | pushWake ht => simp [opOf, State.setT]
  | pushSpur ht => simp [opOf, State.setT]
  | pushRefuse ht hcl => simp [opOf, State.setT, State.log, histOps_cons, HEv.op]
  | @pushAdmit _ t it w ht hfit hcl hn =>
    rw [(notifNE_same hn).2.2]
    simp [opOf, ht, item?, State.setT, State.enq, histOps_cons, HEv.op]
  | tryPushRefuse ht hcl => simp [opOf, State.log, histOps_cons, HEv.op]
  | tryPushWouldBlock ht hcl hfull hne => simp [opOf, State.log, histOps_cons, HEv.op]
  | @tryPushAdmit _ t it w ht hcl hfit hn =>
    rw [(notifNE_same hn).2.2]
    simp [opOf, State.enq, histOps_cons, HEv.op]
  | pullEnter ht => simp [opOf, State.setT]
  | pullWait ht _ _ => simp [opOf, State.setT]
  | pullWake ht => simp [opOf, State.setT]
  | pullSpur ht => simp [opOf, State.setT]
  | pullEos ht he hcl => simp [opOf, State.setT, State.log, histOps_cons, HEv.op]
  | @pullTake _ t it w ht hm hmax hn =>
    rw [(notifNF_same hn).2.2]
    simp [opOf, State.setT, State.take, histOps_cons, HEv.op]
  | tryPullEmpty ht he => simp [opOf, State.log, histOps_cons, HEv.op]
  | @tryPullTake _ t it w ht hm hmax hn =>
    rw [(notifNF_same hn).2.2]
    simp [opOf, State.take, histOps_cons, HEv.op]
  | close ht => simp [opOf, histOps_cons, HEv.op]

theorem hist_run {cap : Nat} : ∀ (evs : List Event) {s0 s : State}, run cap s0 evs = some s →
    histOps s.hist = histOps s0.hist ++ trace cap s0 evs
  | [], s0, s, hr => by
    simp only [run, Option.some.injEq] at hr
    subst hr; simp [trace]
  | e :: es, s0, s, hr => by
    simp only [run] at hr
    cases hs : step cap s0 e with
    | none => simp [hs] at hr
    | some s1 =>
      simp only [hs] at hr
      rw [hist_run es hr, hist_step hs]
      simp only [trace, hs, List.append_assoc]

/-! ### progress: what a thread inside a call can do -/

def Event.isSpur : Event → Bool
  | .pushSpur _ | .pullSpur _ => true
  | _ => false

/-- the event starts a new call (a thread that is outside the queue enters it) -/
def Event.isStart : Event → Bool
  | .pushEnter _ _ | .pullEnter _ | .tryPushRefuse _ _ | .tryPushWouldBlock _ _
  | .tryPushAdmit _ _ _ | .tryPullEmpty _ | .tryPullTake _ _ _ | .close _ => true
  | _ => false

/-- a step of a call that is already in progress and that the code itself takes: evaluate the loop
condition (`wait`, `refuse`, `accept`, `eos`, `take`) or resume after a notify (`wake`) -/
def Event.isInternal (e : Event) : Bool := !e.isSpur && !e.isStart

/-- inside `pull` -/
def TStatus.inPull : TStatus → Bool
  | .pulling | .waitNE | .notifNE => true
  | _ => false

/-- inside `push` -/
def TStatus.inPush : TStatus → Bool
  | .pushing _ | .waitNF _ | .notifNF _ => true
  | _ => false

theorem notifyNF_enabled (s : State) : ∃ w s', notifyNF s w = some s' := by
  by_cases h : s.thr.countP isWaitNF = 0
  · exact ⟨none, s, by simp only [notifyNF, all_not_of_countP_zero _ h, ↓reduceIte]⟩
  · obtain ⟨x, hx, hw⟩ := List.countP_pos_iff.mp (Nat.pos_of_ne_zero h)
    obtain ⟨u, hu⟩ := List.getElem?_of_mem hx
    cases x <;> simp [isWaitNF] at hw
    next it => exact ⟨some u, s.setT u (.notifNF it), by simp only [notifyNF, hu]⟩

/-- A thread that is about to evaluate the loop condition of `push` always has an enabled step: it
is refused, accepted or goes to sleep. -/
theorem own_step_pushing (cap : Nat) {s : State} {t : Nat} {it : Item}
    (ht : s.thr[t]? = some (.pushing it)) :
    ∃ e s', e.tid = t ∧ e.isInternal = true ∧ step cap s e = some s' := by
  by_cases hcl : s.closed = true
  · exact ⟨.pushRefuse t, _, rfl, rfl, by simp only [step, ht, hcl, ↓reduceIte]; rfl⟩
  · have hcl' : s.closed = false := by simpa using hcl
    by_cases hfit : s.cur + it.size ≤ cap ∨ s.items = []
    · obtain ⟨w, s', hs'⟩ := notifyNE_enabled ((s.setT t .idle).enq t it)
      exact ⟨.pushAdmit t w, s', rfl, rfl, by simp only [step, ht, hfit, hcl', and_self, ↓reduceIte, hs']⟩
    · have h1 : s.cur + it.size > cap := by
        rcases Nat.lt_or_ge cap (s.cur + it.size) with h | h
        · exact h
        · exact absurd (.inl h) hfit
      have h2 : s.items ≠ [] := fun h => hfit (.inr h)
      exact ⟨.pushWait t, _, rfl, rfl, by simp only [step, ht, h1, h2, hcl', ne_eq, not_false_eq_true, and_self, ↓reduceIte]; rfl⟩

/-- A thread that is about to evaluate the loop condition of `pull` always has an enabled step: it
takes a maximal item, reports end-of-stream or goes to sleep. -/
theorem own_step_pulling (cap : Nat) {s : State} {t : Nat} (ht : s.thr[t]? = some .pulling) :
    ∃ e s', e.tid = t ∧ e.isInternal = true ∧ step cap s e = some s' := by
  by_cases he : s.items = []
  · by_cases hcl : s.closed = true
    · exact ⟨.pullEos t, _, rfl, rfl, by simp only [step, ht, he, hcl, and_self, ↓reduceIte]; rfl⟩
    · have hcl' : s.closed = false := by simpa using hcl
      exact ⟨.pullWait t, _, rfl, rfl, by simp only [step, ht, he, hcl', and_self, ↓reduceIte]; rfl⟩
  · obtain ⟨it, hmax⟩ := exists_isMax he
    obtain ⟨w, s', hs'⟩ := notifyNF_enabled ((s.setT t .idle).take t it)
    exact ⟨.pullTake t it w, s', rfl, rfl, by simp only [step, ht, hmax, and_self, ↓reduceIte, hs']⟩

theorem own_step_notifNF (cap : Nat) {s : State} {t : Nat} {it : Item}
    (ht : s.thr[t]? = some (.notifNF it)) :
    ∃ e s', e.tid = t ∧ e.isInternal = true ∧ step cap s e = some s' :=
  ⟨.pushWake t, _, rfl, rfl, by simp only [step, ht]; rfl⟩

theorem own_step_notifNE (cap : Nat) {s : State} {t : Nat} (ht : s.thr[t]? = some .notifNE) :
    ∃ e s', e.tid = t ∧ e.isInternal = true ∧ step cap s e = some s' :=
  ⟨.pullWake t, _, rfl, rfl, by simp only [step, ht, ↓reduceIte]; rfl⟩

/-- every thread inside a call that is not in a wait set has an enabled internal step of its own -/
theorem own_step_awake (cap : Nat) {s : State} {t : Nat} {st : TStatus} (ht : s.thr[t]? = some st)
    (hin : st ≠ .idle) (h1 : st.isWaitNF = false) (h2 : st.isWaitNE = false) :
    ∃ e s', e.tid = t ∧ e.isInternal = true ∧ step cap s e = some s' := by
  cases st with
  | idle => exact absurd rfl hin
  | pushing it => exact own_step_pushing cap ht
  | waitNF it => simp [isWaitNF] at h1
  | notifNF it => exact own_step_notifNF cap ht
  | pulling => exact own_step_pulling cap ht
  | waitNE => simp [isWaitNE] at h2
  | notifNE => exact own_step_notifNE cap ht

theorem exists_of_countP_pos {p : TStatus → Bool} {l : List TStatus} (h : 0 < l.countP p) :
    ∃ (u : Nat) (st : TStatus), l[u]? = some st ∧ p st = true := by
  obtain ⟨x, hx, hp⟩ := List.countP_pos_iff.mp h
  obtain ⟨u, hu⟩ := List.getElem?_of_mem hx
  exact ⟨u, x, hu, hp⟩

/-- A consumer asleep in `not_empty.wait` (invariant `InvB`): the queue is open, and the queued
items are covered by consumers that are awake inside `pull`; so the queue is empty (both completed
`pull` outcomes are disabled) or another consumer, notified or running, has an enabled internal
step. -/
theorem sleeping_consumer (cap : Nat) {s : State} (hb : InvB s) {t : Nat}
    (ht : s.thr[t]? = some .waitNE) :
    s.closed = false ∧ s.items.length ≤ s.cnt isNotifNE + s.cnt isPulling ∧
    (s.items = [] ∨ ∃ u stu e s', u ≠ t ∧ s.thr[u]? = some stu ∧ (stu = .notifNE ∨ stu = .pulling) ∧
        e.tid = u ∧ e.isInternal = true ∧ step cap s e = some s') := by
  have hw : 0 < s.thr.countP isWaitNE := countP_pos_of_get isWaitNE ht rfl
  have hopen : s.closed = false := by
    cases hc : s.closed with
    | false => rfl
    | true => have := hb.closedNE hc; omega
  have hcov := hb.ne hw
  refine ⟨hopen, hcov, ?_⟩
  by_cases he : s.items = []
  · exact .inl he
  · right
    have hlen : 0 < s.items.length := List.length_pos_iff.mpr he
    have : 0 < s.thr.countP isNotifNE ∨ 0 < s.thr.countP isPulling := by omega
    rcases this with h | h
    · obtain ⟨u, stu, hu, hp⟩ := exists_of_countP_pos h
      have : stu = .notifNE := by cases stu <;> simp [isNotifNE] at hp; rfl
      subst this
      obtain ⟨e, s', h1, h2, h3⟩ := own_step_notifNE cap hu
      refine ⟨u, _, e, s', ?_, hu, .inl rfl, h1, h2, h3⟩
      rintro rfl; rw [ht] at hu; cases hu
    · obtain ⟨u, stu, hu, hp⟩ := exists_of_countP_pos h
      have : stu = .pulling := by cases stu <;> simp [isPulling] at hp; rfl
      subst this
      obtain ⟨e, s', h1, h2, h3⟩ := own_step_pulling cap hu
      refine ⟨u, _, e, s', ?_, hu, .inr rfl, h1, h2, h3⟩
      rintro rfl; rw [ht] at hu; cases hu

/-- The producer asleep in `not_full.wait` when only thread `p` calls the blocking `push`
(invariant `InvD`): the completed `push` of its item is disabled. -/
theorem sleeping_producer {cap p : Nat} {s : State} (hd : InvD cap p s) {t : Nat} {it : Item}
    (ht : s.thr[t]? = some (.waitNF it)) :
    t = p ∧ s.cur + it.size > cap ∧ s.items ≠ [] ∧ s.closed = false :=
  ⟨hd.only t _ ht (by simp [item?]), hd.wait t it ht⟩

/-! ### the measure on thread statuses -/

/-- outside 0, asleep 2, evaluating the loop condition 3, notified 4. A wake moves 4 → 3, going to
sleep 3 → 2, completing a call 3 → 0 while its `notify_one` moves one sleeper 2 → 4. -/
def TStatus.wt : TStatus → Nat
  | .idle => 0
  | .waitNF _ | .waitNE => 2
  | .pushing _ | .pulling => 3
  | .notifNF _ | .notifNE => 4

def mu (s : State) : Nat := (s.thr.map TStatus.wt).sum

theorem wt_le (st : TStatus) : st.wt ≤ 4 := by cases st <;> simp [TStatus.wt]

theorem mu_le (s : State) : mu s ≤ 4 * s.thr.length := by
  unfold mu
  induction s.thr with
  | nil => simp
  | cons a l ih => have := wt_le a; simp only [List.map_cons, List.sum_cons, List.length_cons]; omega

theorem sum_wt_set {l : List TStatus} {t : Nat} {a : TStatus} (b : TStatus) (h : l[t]? = some a) :
    ((l.set t b).map TStatus.wt).sum + a.wt = (l.map TStatus.wt).sum + b.wt := by
  induction l generalizing t with
  | nil => simp at h
  | cons x xs ih =>
    cases t with
    | zero =>
      simp only [List.getElem?_cons_zero, Option.some.injEq] at h
      subst h
      simp only [List.set_cons_zero, List.map_cons, List.sum_cons]; omega
    | succ t =>
      simp only [List.getElem?_cons_succ] at h
      have := ih h
      simp only [List.set_cons_succ, List.map_cons, List.sum_cons]; omega

/-- Every internal step (not a spurious wake-up, not a new call) strictly decreases `mu`, in every
state. -/
theorem internal_step_decreases {cap : Nat} {s s' : State} {e : Event}
    (hs : step cap s e = some s') (hi : e.isInternal = true) : mu s' < mu s := by
  cases step_sound hs with
  | pushEnter ht => simp [Event.isInternal, Event.isStart] at hi
  | @pushWait t it ht _ _ _ =>
    have := sum_wt_set (.waitNF it) ht
    simp only [mu, State.setT, TStatus.wt] at this ⊢; omega
  | @pushWake t it ht =>
    have := sum_wt_set (.pushing it) ht
    simp only [mu, State.setT, TStatus.wt] at this ⊢; omega
  | pushSpur ht => simp [Event.isInternal, Event.isSpur] at hi
  | @pushRefuse t it ht hcl =>
    have := sum_wt_set .idle ht
    simp only [mu, State.setT, State.log, TStatus.wt] at this ⊢; omega
  | @pushAdmit _ t it w ht hfit hcl hn =>
    have h1 := sum_wt_set .idle ht
    cases hn with
    | @some u hu =>
      have h2 := sum_wt_set .notifNE hu
      simp only [mu, State.setT, State.enq, TStatus.wt] at h1 h2 ⊢; omega
    | none hz => simp only [mu, State.setT, State.enq, TStatus.wt] at h1 ⊢; omega
  | tryPushRefuse ht hcl => simp [Event.isInternal, Event.isStart] at hi
  | tryPushWouldBlock ht hcl hfull hne => simp [Event.isInternal, Event.isStart] at hi
  | tryPushAdmit ht hcl hfit hn => simp [Event.isInternal, Event.isStart] at hi
  | pullEnter ht => simp [Event.isInternal, Event.isStart] at hi
  | @pullWait t ht _ _ =>
    have := sum_wt_set .waitNE ht
    simp only [mu, State.setT, TStatus.wt] at this ⊢; omega
  | @pullWake t ht =>
    have := sum_wt_set .pulling ht
    simp only [mu, State.setT, TStatus.wt] at this ⊢; omega
  | pullSpur ht => simp [Event.isInternal, Event.isSpur] at hi
  | @pullEos t ht he hcl =>
    have := sum_wt_set .idle ht
    simp only [mu, State.setT, State.log, TStatus.wt] at this ⊢; omega
  | @pullTake _ t it w ht hm hmax hn =>
    have h1 := sum_wt_set .idle ht
    cases hn with
    | @some u x hu =>
      have h2 := sum_wt_set (.notifNF x) hu
      simp only [mu, State.setT, State.take, TStatus.wt] at h1 h2 ⊢; omega
    | none hz => simp only [mu, State.setT, State.take, TStatus.wt] at h1 ⊢; omega
  | tryPullEmpty ht he => simp [Event.isInternal, Event.isStart] at hi
  | tryPullTake ht hm hmax hn => simp [Event.isInternal, Event.isStart] at hi
  | close ht => simp [Event.isInternal, Event.isStart] at hi

/-- Hence a sequence of internal steps from `s` has at most `mu s ≤ 4 · #threads` events. -/
theorem internal_run_bounded {cap : Nat} : ∀ (evs : List Event) {s s' : State},
    run cap s evs = some s' → (∀ e ∈ evs, e.isInternal = true) → evs.length + mu s' ≤ mu s
  | [], s, s', hr, _ => by
    simp only [run, Option.some.injEq] at hr
    subst hr; simp
  | e :: es, s, s', hr, hi => by
    simp only [run] at hr
    cases hs : step cap s e with
    | none => simp [hs] at hr
    | some s1 =>
      simp only [hs] at hr
      have h1 := internal_step_decreases hs (hi e List.mem_cons_self)
      have h2 := internal_run_bounded es hr (fun e' he' => hi e' (List.mem_cons_of_mem _ he'))
      simp only [List.length_cons]; omega

/-- no internal step is enabled: every call in progress is asleep -/
def Quiescent (cap : Nat) (s : State) : Prop :=
  ∀ e s', step cap s e = some s' → e.isInternal = false

/-- Where a maximal sequence of internal steps ends (one blocking producer `p`): every thread is
outside the queue, or a consumer asleep on an open empty queue (completed `pull`/`exit` disabled), or
the producer asleep with an item whose completed `push` is disabled. -/
theorem quiescent_blocked {cap p : Nat} {s : State} (hb : InvB s) (hd : InvD cap p s)
    (hq : Quiescent cap s) {t : Nat} {st : TStatus} (ht : s.thr[t]? = some st) :
    st = .idle ∨ (st = .waitNE ∧ s.items = [] ∧ s.closed = false) ∨
    (∃ it, st = .waitNF it ∧ t = p ∧ s.cur + it.size > cap ∧ s.items ≠ [] ∧ s.closed = false) := by
  by_cases hidle : st = .idle
  · exact .inl hidle
  · by_cases h1 : st.isWaitNF = true
    · cases st <;> simp [isWaitNF] at h1
      next it => exact .inr (.inr ⟨it, rfl, sleeping_producer hd ht⟩)
    · by_cases h2 : st.isWaitNE = true
      · cases st <;> simp [isWaitNE] at h2
        obtain ⟨hopen, _, hcase⟩ := sleeping_consumer cap hb ht
        rcases hcase with he | ⟨u, stu, e, s', _, _, _, _, hint, hstep⟩
        · exact .inr (.inl ⟨rfl, he, hopen⟩)
        · have := hq e s' hstep; rw [hint] at this; cases this
      · obtain ⟨e, s', _, hint, hstep⟩ := own_step_awake cap ht hidle (by simpa using h1) (by simpa using h2)
        have := hq e s' hstep; rw [hint] at this; cases this

/-! ### bookkeeping for the property statements -/

theorem notifNE_len {s s' : State} {w} (h : NotifNE s w s') : s'.thr.length = s.thr.length := by
  cases h <;> simp [State.setT]

theorem notifNF_len {s s' : State} {w} (h : NotifNF s w s') : s'.thr.length = s.thr.length := by
  cases h <;> simp [State.setT]

theorem step_thr_length {cap : Nat} {s s' : State} {e : Event} (hs : step cap s e = some s') :
    s'.thr.length = s.thr.length := by
  cases step_sound hs with
  | pushAdmit _ _ _ hn => rw [notifNE_len hn]; simp [State.setT, State.enq]
  | tryPushAdmit _ _ _ hn => rw [notifNE_len hn]; simp [State.enq]
  | pullTake _ _ _ hn => rw [notifNF_len hn]; simp [State.setT, State.take]
  | tryPullTake _ _ _ hn => rw [notifNF_len hn]; simp [State.take]
  | _ => simp [State.setT, State.log]

theorem run_thr_length {cap : Nat} {s0 s : State} {evs : List Event} (h : run cap s0 evs = some s) :
    s.thr.length = s0.thr.length :=
  run_invariant' (P := fun s => s.thr.length = s0.thr.length)
    (fun _ _ _ hp hs => (step_thr_length hs).trans hp) evs s0 s rfl h

theorem internal_onlyPusher (p : Nat) {e : Event} (h : e.isInternal = true) : OnlyPusher p e := by
  cases e <;> first | exact trivial | simp [Event.isInternal, Event.isStart, Event.isSpur] at h

/-! ### how one event changes the thread statuses -/

/-- the status of the acting thread after event `e` (given its status before) -/
def Event.post : Event → TStatus → TStatus
  | .pushEnter _ it, _ => .pushing it
  | .pushWait _, .pushing it => .waitNF it
  | .pushWake _, .notifNF it => .pushing it
  | .pushSpur _, .waitNF it => .pushing it
  | .pullEnter _, _ => .pulling
  | .pullWait _, _ => .waitNE
  | .pullWake _, _ => .pulling
  | .pullSpur _, _ => .pulling
  | _, _ => .idle

theorem thr_setT {s : State} {t : Nat} {a : TStatus} (b : TStatus) (_ht : s.thr[t]? = some a)
    {u : Nat} {st' : TStatus} (hu : (s.setT t b).thr[u]? = some st') :
    (u = t ∧ st' = b) ∨ (u ≠ t ∧ s.thr[u]? = some st') := by
  rcases get_set (l := s.thr) hu with ⟨h1, h2⟩ | ⟨h1, h2⟩
  · exact .inl ⟨h1, h2⟩
  · exact .inr ⟨h1, h2⟩

theorem thr_notifNE {s s' : State} {w} (hn : NotifNE s w s') {u : Nat} {st' : TStatus}
    (hu : s'.thr[u]? = some st') :
    ∃ st, s.thr[u]? = some st ∧ (st' = st ∨ (st = .waitNE ∧ st' = .notifNE)) := by
  cases hn with
  | @some v hv =>
    rcases thr_setT _ hv hu with ⟨rfl, rfl⟩ | ⟨_, h⟩
    · exact ⟨_, hv, .inr ⟨rfl, rfl⟩⟩
    · exact ⟨_, h, .inl rfl⟩
  | none _ => exact ⟨_, hu, .inl rfl⟩

theorem thr_notifNF {s s' : State} {w} (hn : NotifNF s w s') {u : Nat} {st' : TStatus}
    (hu : s'.thr[u]? = some st') :
    ∃ st, s.thr[u]? = some st ∧ (st' = st ∨ (∃ it, st = .waitNF it ∧ st' = .notifNF it)) := by
  cases hn with
  | @some v x hv =>
    rcases thr_setT _ hv hu with ⟨rfl, rfl⟩ | ⟨_, h⟩
    · exact ⟨_, hv, .inr ⟨x, rfl, rfl⟩⟩
    · exact ⟨_, h, .inl rfl⟩
  | none _ => exact ⟨_, hu, .inl rfl⟩

/-- One event changes the status of the acting thread to `e.post`, and every other thread keeps
its status or is moved out of a wait set by a notify (`wakeAll`: `waitNE ↦ notifNE`,
`waitNF it ↦ notifNF it`). -/
theorem step_thr {cap : Nat} {s s' : State} {e : Event} (hs : step cap s e = some s')
    {u : Nat} {st' : TStatus} (hu : s'.thr[u]? = some st') :
    ∃ st, s.thr[u]? = some st ∧
      ((u = e.tid ∧ st' = e.post st) ∨ (u ≠ e.tid ∧ (st' = st ∨ st' = wakeAll st))) := by
  -- a thread that only changes its own status
  have own : ∀ {t : Nat} {a : TStatus} (b : TStatus) {x : TStatus}, s.thr[t]? = some a → e.tid = t →
      e.post a = b → (s.thr.set t b)[u]? = some x →
      ∃ st, s.thr[u]? = some st ∧
        ((u = e.tid ∧ x = e.post st) ∨ (u ≠ e.tid ∧ (x = st ∨ x = wakeAll st))) := by
    intro t a b x ht het hpost hu
    rcases thr_setT (s := s) b ht hu with ⟨rfl, rfl⟩ | ⟨hne, h⟩
    · exact ⟨a, ht, .inl ⟨het.symm, hpost.symm⟩⟩
    · exact ⟨x, h, .inr ⟨het ▸ hne, .inl rfl⟩⟩
  -- a thread outside the queue that stays outside
  have stay : ∀ {t : Nat} {x : TStatus}, s.thr[t]? = some .idle → e.tid = t → e.post .idle = .idle →
      s.thr[u]? = some x →
      ∃ st, s.thr[u]? = some st ∧
        ((u = e.tid ∧ x = e.post st) ∨ (u ≠ e.tid ∧ (x = st ∨ x = wakeAll st))) := by
    intro t x ht het hpost hu
    by_cases hut : u = t
    · subst hut
      rw [ht] at hu; cases hu
      exact ⟨_, ht, .inl ⟨het.symm, hpost.symm⟩⟩
    · exact ⟨x, hu, .inr ⟨het ▸ hut, .inl rfl⟩⟩
  cases step_sound hs with
  | pushEnter ht => exact own _ ht rfl rfl hu
  | pushWait ht _ _ _ => exact own _ ht rfl rfl hu
  | pushWake ht => exact own _ ht rfl rfl hu
  | pushSpur ht => exact own _ ht rfl rfl hu
  | pushRefuse ht hcl => exact own .idle ht rfl rfl hu
  | @pushAdmit _ t it w ht hfit hcl hn =>
    obtain ⟨st1, h1, hrel⟩ := thr_notifNE hn hu
    obtain ⟨st, h2, hcase⟩ := own (x := st1) .idle ht rfl rfl h1
    refine ⟨st, h2, ?_⟩
    rcases hcase with ⟨hut, hst1⟩ | ⟨hut, hst1⟩
    · left; refine ⟨hut, ?_⟩
      rcases hrel with h | ⟨h, _⟩
      · exact h.trans hst1
      · rw [hst1] at h
        have hu0 : u = t := hut
        subst hu0
        rw [ht] at h2; cases h2; cases h
    · right; refine ⟨hut, ?_⟩
      rcases hst1 with hst1 | hst1
      · subst hst1
        rcases hrel with h | ⟨h, h'⟩
        · exact .inl h
        · subst h; exact .inr h'
      · rcases hrel with h | ⟨h, h'⟩
        · exact .inr (h.trans hst1)
        · exfalso; rw [hst1] at h; cases st <;> cases h
  | tryPushRefuse ht hcl => exact stay ht rfl rfl hu
  | tryPushWouldBlock ht hcl hfull hne => exact stay ht rfl rfl hu
  | @tryPushAdmit _ t it w ht hcl hfit hn =>
    obtain ⟨st1, h1, hrel⟩ := thr_notifNE hn hu
    obtain ⟨st, h2, hcase⟩ := stay (x := st1) ht rfl rfl h1
    refine ⟨st, h2, ?_⟩
    rcases hcase with ⟨hut, hst1⟩ | ⟨hut, hst1⟩
    · left; refine ⟨hut, ?_⟩
      rcases hrel with h | ⟨h, _⟩
      · exact h.trans hst1
      · have hu0 : u = t := hut
        subst hu0
        rw [ht] at h2; cases h2
        rw [hst1] at h; cases h
    · right; refine ⟨hut, ?_⟩
      rcases hst1 with hst1 | hst1
      · subst hst1
        rcases hrel with h | ⟨h, h'⟩
        · exact .inl h
        · subst h; exact .inr h'
      · rcases hrel with h | ⟨h, h'⟩
        · exact .inr (h.trans hst1)
        · exfalso; rw [hst1] at h; cases st <;> cases h
  | pullEnter ht => exact own _ ht rfl rfl hu
  | pullWait ht _ _ => exact own _ ht rfl rfl hu
  | pullWake ht => exact own _ ht rfl rfl hu
  | pullSpur ht => exact own _ ht rfl rfl hu
  | pullEos ht he hcl => exact own .idle ht rfl rfl hu
  | @pullTake _ t it w ht hm hmax hn =>
    obtain ⟨st1, h1, hrel⟩ := thr_notifNF hn hu
    obtain ⟨st, h2, hcase⟩ := own (x := st1) .idle ht rfl rfl h1
    refine ⟨st, h2, ?_⟩
    rcases hcase with ⟨hut, hst1⟩ | ⟨hut, hst1⟩
    · left; refine ⟨hut, ?_⟩
      rcases hrel with h | ⟨x, h, _⟩
      · exact h.trans hst1
      · rw [hst1] at h
        have hu0 : u = t := hut
        subst hu0
        rw [ht] at h2; cases h2; cases h
    · right; refine ⟨hut, ?_⟩
      rcases hst1 with hst1 | hst1
      · subst hst1
        rcases hrel with h | ⟨x, h, h'⟩
        · exact .inl h
        · subst h; exact .inr h'
      · rcases hrel with h | ⟨x, h, h'⟩
        · exact .inr (h.trans hst1)
        · exfalso; rw [hst1] at h; cases st <;> cases h
  | tryPullEmpty ht he => exact stay ht rfl rfl hu
  | @tryPullTake _ t it w ht hm hmax hn =>
    obtain ⟨st1, h1, hrel⟩ := thr_notifNF hn hu
    obtain ⟨st, h2, hcase⟩ := stay (x := st1) ht rfl rfl h1
    refine ⟨st, h2, ?_⟩
    rcases hcase with ⟨hut, hst1⟩ | ⟨hut, hst1⟩
    · left; refine ⟨hut, ?_⟩
      rcases hrel with h | ⟨x, h, _⟩
      · exact h.trans hst1
      · have hu0 : u = t := hut
        subst hu0
        rw [ht] at h2; cases h2
        rw [hst1] at h; cases h
    · right; refine ⟨hut, ?_⟩
      rcases hst1 with hst1 | hst1
      · subst hst1
        rcases hrel with h | ⟨x, h, h'⟩
        · exact .inl h
        · subst h; exact .inr h'
      · rcases hrel with h | ⟨x, h, h'⟩
        · exact .inr (h.trans hst1)
        · exfalso; rw [hst1] at h; cases st <;> cases h
  | @close t ht =>
    simp only [List.getElem?_map, Option.map_eq_some_iff] at hu
    obtain ⟨st, hst, rfl⟩ := hu
    refine ⟨st, hst, ?_⟩
    by_cases hut : u = t
    · subst hut
      rw [ht] at hst; cases hst
      exact .inl ⟨rfl, rfl⟩
    · exact .inr ⟨hut, .inr rfl⟩

theorem wakeAll_inPull (st : TStatus) : (wakeAll st).inPull = st.inPull := by cases st <;> rfl
theorem wakeAll_item (st : TStatus) : (wakeAll st).item? = st.item? := by cases st <;> rfl
theorem wakeAll_idle {st : TStatus} : wakeAll st = .idle ↔ st = .idle := by
  cases st <;> simp [wakeAll]

end Ragc.Queue
