import RagcModel.Model.Kmer
/-!
Helper definitions and lemmas for C20 (canonical k-mer arithmetic).

* the from-scratch specification: `packNat`, `packDir`, `rcWindow`, `canon`, `specWindows`;
* Nat-level facts about the base-4 packing;
* the four `UInt64` step lemmas (`packDir_grow`, `packDir_slide`, `packDir_rc_step…`,
  `packDir_mask…`) that connect one `insert` to the packing of the new window;
* the invariant `Inv` carried through `feed` / `enumLoop`.
-/
namespace Ragc.Kmer

/-! ## Specification -/

/-- All symbols are bases (`≤ 3`, the negation of the code's `b > 3` reset test). -/
def Valid (w : List UInt64) : Prop := ∀ b ∈ w, b ≤ 3

instance (w : List UInt64) : Decidable (Valid w) := by unfold Valid; infer_instance

/-- Base-4 value of a window, first base most significant: `Σ wᵢ · 4^(|w|-1-i)`. -/
def packNat : List UInt64 → Nat
  | [] => 0
  | b :: bs => b.toNat * 4 ^ bs.length + packNat bs

/-- The packed window, left-aligned in 64 bits: base `i` occupies bits `63-2i .. 62-2i`. -/
def packDir (w : List UInt64) : UInt64 := UInt64.ofNat (packNat w * 4 ^ (32 - w.length))

/-- Reverse complement of a window, from scratch. -/
def rcWindow (w : List UInt64) : List UInt64 := w.reverse.map (3 - ·)

/-- Canonical value of a window, from scratch. -/
def canon (w : List UInt64) : UInt64 := min (packDir w) (packDir (rcWindow w))

/-- The last `k` elements. -/
def lastK (k : Nat) (l : List UInt64) : List UInt64 := l.drop (l.length - k)

/-- From-scratch specification of `enumerate_kmers`: for every start position whose `k`-window
    exists and consists of bases only, the canonical value of that window, in order. -/
def specWindows (k : Nat) : List UInt64 → List UInt64
  | [] => []
  | b :: bs =>
    if k ≤ (b :: bs).length ∧ Valid ((b :: bs).take k) then
      canon ((b :: bs).take k) :: specWindows k bs
    else specWindows k bs

/-! ## Small facts -/

theorem two_pow_shift (j : Nat) (h : j ≤ 32) : 2 ^ (64 - 2 * j) = 4 ^ (32 - j) := by
  have : 64 - 2 * j = 2 * (32 - j) := by omega
  rw [this, Nat.pow_mul]

theorem four_pow_32 : (4 : Nat) ^ 32 = 2 ^ 64 := by decide

theorem four_pow_split (m : Nat) (h : m ≤ 32) : 4 ^ m * 4 ^ (32 - m) = 2 ^ 64 := by
  rw [← Nat.pow_add, ← four_pow_32]; congr 1; omega

theorem toNat_le3 {b : UInt64} (h : b ≤ 3) : b.toNat ≤ 3 := by
  simpa using UInt64.le_iff_toNat_le.mp h

theorem cases_le3 {b : UInt64} (h : b ≤ 3) : b = 0 ∨ b = 1 ∨ b = 2 ∨ b = 3 := by
  have h4 := toNat_le3 h
  rcases Nat.lt_or_ge b.toNat 1 with h0 | h0
  · left; apply UInt64.toNat_inj.mp; simp; omega
  rcases Nat.lt_or_ge b.toNat 2 with h1 | h1
  · right; left; apply UInt64.toNat_inj.mp; simp; omega
  rcases Nat.lt_or_ge b.toNat 3 with h2 | h2
  · right; right; left; apply UInt64.toNat_inj.mp; simp; omega
  · right; right; right; apply UInt64.toNat_inj.mp; simp; omega

theorem rcBase_eq {b : UInt64} (h : b ≤ 3) : rcBase b = 3 - b := by
  rcases cases_le3 h with rfl | rfl | rfl | rfl <;> decide

theorem three_sub_le3 {b : UInt64} (h : b ≤ 3) : 3 - b ≤ 3 := by
  rcases cases_le3 h with rfl | rfl | rfl | rfl <;> decide

theorem three_sub_three_sub {b : UInt64} (h : b ≤ 3) : 3 - (3 - b) = b := by
  rcases cases_le3 h with rfl | rfl | rfl | rfl <;> decide

theorem rcBase_le3 {b : UInt64} (h : b ≤ 3) : rcBase b ≤ 3 := by
  rw [rcBase_eq h]; exact three_sub_le3 h

theorem not_gt3 {b : UInt64} : ¬ b > 3 ↔ b ≤ 3 := by
  simp [UInt64.lt_iff_toNat_lt, UInt64.le_iff_toNat_le]

/-! ## `Valid` -/

theorem Valid.nil : Valid [] := by intro b hb; cases hb

theorem valid_cons {b : UInt64} {l : List UInt64} : Valid (b :: l) ↔ b ≤ 3 ∧ Valid l := by
  simp [Valid]

theorem valid_append {a z : List UInt64} : Valid (a ++ z) ↔ Valid a ∧ Valid z := by
  simp only [Valid, List.mem_append]
  constructor
  · intro h; exact ⟨fun b hb => h b (Or.inl hb), fun b hb => h b (Or.inr hb)⟩
  · rintro ⟨h1, h2⟩ b (hb | hb)
    · exact h1 b hb
    · exact h2 b hb

theorem Valid.drop {l : List UInt64} (h : Valid l) (n : Nat) : Valid (l.drop n) :=
  fun b hb => h b (List.mem_of_mem_drop hb)

theorem Valid.take {l : List UInt64} (h : Valid l) (n : Nat) : Valid (l.take n) :=
  fun b hb => h b (List.mem_of_mem_take hb)

/-! ## `packNat` -/

theorem packNat_append (a z : List UInt64) :
    packNat (a ++ z) = packNat a * 4 ^ z.length + packNat z := by
  induction a with
  | nil => simp [packNat]
  | cons b bs ih =>
    simp only [List.cons_append, packNat, ih, List.length_append, Nat.pow_add]
    grind

theorem packNat_snoc (a : List UInt64) (s : UInt64) :
    packNat (a ++ [s]) = packNat a * 4 + s.toNat := by
  simp [packNat_append, packNat]

theorem packNat_lt {w : List UInt64} (h : Valid w) : packNat w < 4 ^ w.length := by
  induction w with
  | nil => simp [packNat]
  | cons b bs ih =>
    have hb := toNat_le3 (valid_cons.mp h).1
    have := ih (valid_cons.mp h).2
    simp only [packNat, List.length_cons, Nat.pow_succ]
    have h3 : b.toNat * 4 ^ bs.length ≤ 3 * 4 ^ bs.length := Nat.mul_le_mul_right _ hb
    omega

/-- `packNat` is injective on valid windows of equal length (the packing loses nothing). -/
theorem packNat_inj {v w : List UInt64} (hv : Valid v) (hw : Valid w)
    (hl : v.length = w.length) (h : packNat v = packNat w) : v = w := by
  induction v generalizing w with
  | nil => cases w with
    | nil => rfl
    | cons => simp at hl
  | cons a as ih =>
    cases w with
    | nil => simp at hl
    | cons b bs =>
      have hl' : as.length = bs.length := by simpa using hl
      have h1 := packNat_lt (valid_cons.mp hv).2
      have h2 := packNat_lt (valid_cons.mp hw).2
      simp only [packNat, hl'] at h h1
      have hpos : 0 < 4 ^ bs.length := Nat.pow_pos (by decide)
      have hq : a.toNat = b.toNat := by
        have e1 := Nat.add_mul_div_right (packNat as) a.toNat hpos
        have e2 := Nat.add_mul_div_right (packNat bs) b.toNat hpos
        rw [Nat.div_eq_of_lt h1] at e1
        rw [Nat.div_eq_of_lt h2] at e2
        have : (packNat as + a.toNat * 4 ^ bs.length) / 4 ^ bs.length
             = (packNat bs + b.toNat * 4 ^ bs.length) / 4 ^ bs.length := by
          rw [Nat.add_comm (packNat as), Nat.add_comm (packNat bs), h]
        omega
      have hab : a = b := UInt64.toNat_inj.mp hq
      subst hab
      have : packNat as = packNat bs := by omega
      rw [ih (valid_cons.mp hv).2 (valid_cons.mp hw).2 hl' this]

/-! ## `packDir` -/

theorem packDir_toNat {w : List UInt64} (hv : Valid w) (hl : w.length ≤ 32) :
    (packDir w).toNat = packNat w * 4 ^ (32 - w.length) := by
  unfold packDir
  apply UInt64.toNat_ofNat_of_lt'
  have h1 := packNat_lt hv
  have h2 := four_pow_split w.length hl
  have hpos : 0 < 4 ^ (32 - w.length) := Nat.pow_pos (by decide)
  have := Nat.mul_lt_mul_of_pos_right h1 hpos
  show _ < 2 ^ 64
  omega

theorem packDir_nil : packDir [] = 0 := by decide

/-! ## Nat arithmetic behind one `insert` (abstract `E = 4^m`, `T = 4^(31-m)` …) -/

theorem nat_grow (P s E T : Nat) (hP : P < E) (hs : s ≤ 3) (hET : E * (4 * T) = 2 ^ 64)
    (hT : 0 < T) : (P * (4 * T) + s * T % 2 ^ 64) % 2 ^ 64 = (P * 4 + s) * T
      ∧ P * (4 * T) + s * T < 2 ^ 64 := by
  have h1 : P * T + T ≤ E * T := by
    have := Nat.mul_le_mul_right T (Nat.succ_le_of_lt hP)
    grind
  have h2 : s * T ≤ 3 * T := Nat.mul_le_mul_right T hs
  have e1 : P * (4 * T) = 4 * (P * T) := by grind
  have e2 : (P * 4 + s) * T = 4 * (P * T) + s * T := by grind
  have e3 : E * (4 * T) = 4 * (E * T) := by grind
  rw [e1, e2]; rw [e3] at hET
  generalize P * T = A at *
  generalize E * T = X at *
  generalize s * T = B at *
  omega

theorem nat_slide (d P s W S : Nat) (hP : P < W) (hs : s ≤ 3) (hWS : W * (4 * S) = 2 ^ 64)
    (hS : 0 < S) :
    ((d * W + P) * S * 2 ^ 2 % 2 ^ 64 + s * S % 2 ^ 64) % 2 ^ 64 = (P * 4 + s) * S
      ∧ (d * W + P) * S * 2 ^ 2 % 2 ^ 64 + s * S < 2 ^ 64 := by
  have h1 : P * S + S ≤ W * S := by
    have := Nat.mul_le_mul_right S (Nat.succ_le_of_lt hP)
    grind
  have h2 : s * S ≤ 3 * S := Nat.mul_le_mul_right S hs
  have e1 : (d * W + P) * S * 2 ^ 2 = d * (W * (4 * S)) + 4 * (P * S) := by grind
  have e2 : (P * 4 + s) * S = 4 * (P * S) + s * S := by grind
  have e3 : W * (4 * S) = 4 * (W * S) := by grind
  rw [e1, e2, hWS]; rw [e3] at hWS
  generalize P * S = A at *
  generalize W * S = X at *
  generalize s * S = B at *
  omega

theorem nat_rc (R c E T : Nat) (hR : R < E) (hc : c ≤ 3) (hET : E * T = 2 ^ 62) (hT : 0 < T) :
    (R * (T * 4) / 2 ^ 2 + c * 2 ^ 62 % 2 ^ 64) % 2 ^ 64 = (c * E + R) * T
      ∧ R * (T * 4) / 2 ^ 2 + c * 2 ^ 62 < 2 ^ 64 := by
  have h1 : R * T + T ≤ E * T := by
    have := Nat.mul_le_mul_right T (Nat.succ_le_of_lt hR)
    grind
  have e1 : R * (T * 4) / 2 ^ 2 = R * T := by
    have : R * (T * 4) = R * T * 4 := by grind
    rw [this]; exact Nat.mul_div_cancel _ (by decide)
  have e2 : (c * E + R) * T = c * (E * T) + R * T := by grind
  rw [e1, e2, hET]; rw [hET] at h1
  generalize R * T = A at *
  omega

/-- `x &&& (ones <<< sh)` clears the low `sh` bits. -/
theorem nat_mask (x sh : Nat) (hx : x < 2 ^ 64) :
    x &&& ((2 ^ 64 - 1) * 2 ^ sh % 2 ^ 64) = x / 2 ^ sh * 2 ^ sh := by
  apply Nat.eq_of_testBit_eq
  intro i
  rw [Nat.testBit_and, Nat.testBit_mod_two_pow, Nat.testBit_mul_two_pow,
    Nat.testBit_two_pow_sub_one, Nat.testBit_mul_two_pow, Nat.testBit_div_two_pow]
  by_cases h1 : sh ≤ i
  · have e : i - sh + sh = i := by omega
    rw [e]
    by_cases h2 : i < 64
    · have h3 : i - sh < 64 := by omega
      simp [h1, h2, h3]
    · have : x.testBit i = false :=
        Nat.testBit_lt_two_pow (Nat.lt_of_lt_of_le hx (Nat.pow_le_pow_right (by decide) (by omega)))
      simp [this]
  · simp [h1]

/-! ## `UInt64` facts about the shift amounts and the mask -/

theorem shift_toNat (n : Nat) (h : n < 64) : (UInt64.ofNat n).toNat % 64 = n := by
  rw [UInt64.toNat_ofNat_of_lt' (by show n < 2 ^ 64; omega)]
  exact Nat.mod_eq_of_lt h

theorem mask_toNat (x : UInt64) (k : Nat) (h1 : 1 ≤ k) (h32 : k ≤ 32) :
    (x &&& maskOf k).toNat = x.toNat / 4 ^ (32 - k) * 4 ^ (32 - k) := by
  unfold maskOf shiftOf
  rw [UInt64.toNat_and, UInt64.toNat_shiftLeft, shift_toNat _ (by omega), Nat.shiftLeft_eq,
    two_pow_shift k h32]
  have := nat_mask x.toNat (64 - 2 * k) x.toNat_lt
  rw [two_pow_shift k h32] at this
  exact this

/-! ## The four `UInt64` step lemmas -/

theorem valid_snoc {u : List UInt64} {s : UInt64} (hv : Valid u) (hs : s ≤ 3) :
    Valid (u ++ [s]) :=
  valid_append.mpr ⟨hv, valid_cons.mpr ⟨hs, Valid.nil⟩⟩

/-- Window not yet full: adding `s` below the bases already present; the sum does not wrap. -/
theorem packDir_grow_aux {u : List UInt64} {s : UInt64} (hv : Valid u) (hl : u.length < 32)
    (hs : s ≤ 3) :
    packDir u + (s <<< UInt64.ofNat (64 - 2 * (u.length + 1))) = packDir (u ++ [s])
      ∧ (packDir u).toNat + (s <<< UInt64.ofNat (64 - 2 * (u.length + 1))).toNat < 2 ^ 64 := by
  have hpow : 4 ^ (32 - u.length) = 4 * 4 ^ (32 - (u.length + 1)) := by
    have : 32 - u.length = (32 - (u.length + 1)) + 1 := by omega
    rw [this, Nat.pow_succ, Nat.mul_comm]
  have hET : 4 ^ u.length * (4 * 4 ^ (32 - (u.length + 1))) = 2 ^ 64 := by
    rw [← hpow]; exact four_pow_split _ (by omega)
  have key := nat_grow (packNat u) s.toNat (4 ^ u.length) (4 ^ (32 - (u.length + 1)))
    (packNat_lt hv) (toNat_le3 hs) hET (Nat.pow_pos (by decide))
  have hsh : (s <<< UInt64.ofNat (64 - 2 * (u.length + 1))).toNat
      = s.toNat * 4 ^ (32 - (u.length + 1)) % 2 ^ 64 := by
    rw [UInt64.toNat_shiftLeft, shift_toNat _ (by omega), Nat.shiftLeft_eq,
      two_pow_shift _ (by omega)]
  constructor
  · apply UInt64.toNat_inj.mp
    rw [UInt64.toNat_add, hsh, packDir_toNat hv (by omega),
      packDir_toNat (valid_snoc hv hs) (by simp; omega), packNat_snoc, hpow]
    simp only [List.length_append, List.length_cons, List.length_nil, Nat.zero_add]
    exact key.1
  · rw [hsh, packDir_toNat hv (by omega), hpow]
    have := key.2
    have hle : s.toNat * 4 ^ (32 - (u.length + 1)) % 2 ^ 64 ≤ s.toNat * 4 ^ (32 - (u.length + 1)) :=
      Nat.mod_le _ _
    omega

theorem packDir_grow {u : List UInt64} {s : UInt64} (hv : Valid u) (hl : u.length < 32)
    (hs : s ≤ 3) :
    packDir u + (s <<< UInt64.ofNat (64 - 2 * (u.length + 1))) = packDir (u ++ [s]) :=
  (packDir_grow_aux hv hl hs).1

/-- Window full: shifting out the oldest base and adding `s` at position `k`; no wrap. -/
theorem packDir_slide_aux {d s : UInt64} {u : List UInt64} {k : Nat} (hv : Valid (d :: u))
    (hl : (d :: u).length = k) (h32 : k ≤ 32) (hs : s ≤ 3) :
    (packDir (d :: u) <<< 2) + (s <<< UInt64.ofNat (shiftOf k)) = packDir (u ++ [s])
      ∧ (packDir (d :: u) <<< 2).toNat + (s <<< UInt64.ofNat (shiftOf k)).toNat < 2 ^ 64 := by
  have hk1 : u.length + 1 = k := by simpa using hl
  have hvu := (valid_cons.mp hv).2
  have hWS : 4 ^ u.length * (4 * 4 ^ (32 - k)) = 2 ^ 64 := by
    have := four_pow_split k h32
    rw [← hk1, Nat.pow_succ] at this
    rw [← hk1, ← this]; grind
  have key := nat_slide d.toNat (packNat u) s.toNat (4 ^ u.length) (4 ^ (32 - k))
    (packNat_lt hvu) (toNat_le3 hs) hWS (Nat.pow_pos (by decide))
  have hsh : (s <<< UInt64.ofNat (shiftOf k)).toNat = s.toNat * 4 ^ (32 - k) % 2 ^ 64 := by
    unfold shiftOf
    rw [UInt64.toNat_shiftLeft, shift_toNat _ (by omega), Nat.shiftLeft_eq,
      two_pow_shift _ h32]
  have hd : (packDir (d :: u) <<< 2).toNat
      = (d.toNat * 4 ^ u.length + packNat u) * 4 ^ (32 - k) * 2 ^ 2 % 2 ^ 64 := by
    rw [UInt64.toNat_shiftLeft, packDir_toNat hv (by omega), Nat.shiftLeft_eq, hl]
    rfl
  constructor
  · apply UInt64.toNat_inj.mp
    rw [UInt64.toNat_add, hsh, hd, packDir_toNat (valid_snoc hvu hs) (by simp; omega),
      packNat_snoc]
    simp only [List.length_append, List.length_cons, List.length_nil, Nat.zero_add, hk1]
    exact key.1
  · rw [hsh, hd]
    have := key.2
    have hle : s.toNat * 4 ^ (32 - k) % 2 ^ 64 ≤ s.toNat * 4 ^ (32 - k) := Nat.mod_le _ _
    omega

theorem packDir_slide {d s : UInt64} {u : List UInt64} {k : Nat} (hv : Valid (d :: u))
    (hl : (d :: u).length = k) (h32 : k ≤ 32) (hs : s ≤ 3) :
    (packDir (d :: u) <<< 2) + (s <<< UInt64.ofNat (shiftOf k)) = packDir (u ++ [s]) :=
  (packDir_slide_aux hv hl h32 hs).1

/-- Reverse strand, fewer than 32 bases present: shift right, put `c` on top; no wrap. -/
theorem packDir_rc_step_aux {r : List UInt64} {c : UInt64} (hv : Valid r) (hl : r.length < 32)
    (hc : c ≤ 3) :
    (packDir r >>> 2) + (c <<< 62) = packDir (c :: r)
      ∧ (packDir r >>> 2).toNat + (c <<< 62).toNat < 2 ^ 64 := by
  have hpow : 4 ^ (32 - r.length) = 4 ^ (32 - (r.length + 1)) * 4 := by
    have : 32 - r.length = (32 - (r.length + 1)) + 1 := by omega
    rw [this, Nat.pow_succ]
  have hET : 4 ^ r.length * 4 ^ (32 - (r.length + 1)) = 2 ^ 62 := by
    rw [← Nat.pow_add]
    have : r.length + (32 - (r.length + 1)) = 31 := by omega
    rw [this]
  have key := nat_rc (packNat r) c.toNat (4 ^ r.length) (4 ^ (32 - (r.length + 1)))
    (packNat_lt hv) (toNat_le3 hc) hET (Nat.pow_pos (by decide))
  have hsh : (c <<< 62).toNat = c.toNat * 2 ^ 62 % 2 ^ 64 := by
    rw [UInt64.toNat_shiftLeft, Nat.shiftLeft_eq]; rfl
  have hd : (packDir r >>> 2).toNat
      = packNat r * (4 ^ (32 - (r.length + 1)) * 4) / 2 ^ 2 := by
    rw [UInt64.toNat_shiftRight, packDir_toNat hv (by omega), Nat.shiftRight_eq_div_pow, hpow]
    rfl
  constructor
  · apply UInt64.toNat_inj.mp
    rw [UInt64.toNat_add, hsh, hd,
      packDir_toNat (valid_cons.mpr ⟨hc, hv⟩) (by simp; omega)]
    simp only [packNat, List.length_cons]
    exact key.1
  · rw [hsh, hd]
    have := key.2
    have hle : c.toNat * 2 ^ 62 % 2 ^ 64 ≤ c.toNat * 2 ^ 62 := Nat.mod_le _ _
    omega

/-- Reverse strand, 32 bases present (`k = 32`): the lowest base falls off; no wrap. -/
theorem packDir_rc_step32_aux {r : List UInt64} {c e : UInt64} (hv : Valid (r ++ [e]))
    (hl : (r ++ [e]).length = 32) (hc : c ≤ 3) :
    (packDir (r ++ [e]) >>> 2) + (c <<< 62) = packDir (c :: r)
      ∧ (packDir (r ++ [e]) >>> 2).toNat + (c <<< 62).toNat < 2 ^ 64 := by
  have hr : r.length = 31 := by simpa using hl
  have hvr := (valid_append.mp hv).1
  have he := toNat_le3 ((valid_cons.mp (valid_append.mp hv).2).1)
  have hc' := toNat_le3 hc
  have hR := packNat_lt hvr
  rw [hr] at hR
  have hsh : (c <<< 62).toNat = c.toNat * 2 ^ 62 % 2 ^ 64 := by
    rw [UInt64.toNat_shiftLeft, Nat.shiftLeft_eq]; rfl
  have hd : (packDir (r ++ [e]) >>> 2).toNat = (packNat r * 4 + e.toNat) / 2 ^ 2 := by
    rw [UInt64.toNat_shiftRight, packDir_toNat hv (by omega), Nat.shiftRight_eq_div_pow, hl,
      packNat_snoc]
    simp
  constructor
  · apply UInt64.toNat_inj.mp
    rw [UInt64.toNat_add, hsh, hd,
      packDir_toNat (valid_cons.mpr ⟨hc, hvr⟩) (by simp; omega)]
    simp only [packNat, List.length_cons, hr]
    generalize packNat r = R at *
    simp at hR ⊢
    omega
  · rw [hsh, hd]
    generalize packNat r = R at *
    simp at hR ⊢
    omega

/-- The mask does nothing to a window of at most `k` bases. -/
theorem packDir_mask_id {r : List UInt64} {k : Nat} (hv : Valid r) (hl : r.length ≤ k)
    (h1 : 1 ≤ k) (h32 : k ≤ 32) : packDir r &&& maskOf k = packDir r := by
  apply UInt64.toNat_inj.mp
  rw [mask_toNat _ k h1 h32, packDir_toNat hv (by omega)]
  have : 4 ^ (32 - r.length) = 4 ^ (k - r.length) * 4 ^ (32 - k) := by
    rw [← Nat.pow_add]; congr 1; omega
  rw [this, ← Nat.mul_assoc, Nat.mul_div_cancel _ (Nat.pow_pos (by decide))]

/-- The mask removes the `(k+1)`-th base. -/
theorem packDir_mask_drop {r : List UInt64} {e : UInt64} {k : Nat} (hv : Valid (r ++ [e]))
    (hl : (r ++ [e]).length = k + 1) (h1 : 1 ≤ k) (h32 : k + 1 ≤ 32) :
    packDir (r ++ [e]) &&& maskOf k = packDir r := by
  have hr : r.length = k := by simpa using hl
  have hvr := (valid_append.mp hv).1
  have he := toNat_le3 ((valid_cons.mp (valid_append.mp hv).2).1)
  apply UInt64.toNat_inj.mp
  rw [mask_toNat _ k h1 (by omega), packDir_toNat hv (by omega), packDir_toNat hvr (by omega),
    packNat_snoc, hl, hr]
  have hpow : 4 ^ (32 - k) = 4 ^ (32 - (k + 1)) * 4 := by
    have : 32 - k = (32 - (k + 1)) + 1 := by omega
    rw [this, Nat.pow_succ]
  rw [hpow]
  have hT : 0 < 4 ^ (32 - (k + 1)) := Nat.pow_pos (by decide)
  generalize 4 ^ (32 - (k + 1)) = T at *
  have e1 : (packNat r * 4 + e.toNat) * T = T * 4 * packNat r + e.toNat * T := by grind
  have h2 : e.toNat * T < T * 4 := by
    have := Nat.mul_le_mul_right T he
    omega
  rw [e1, Nat.mul_add_div (by omega), Nat.div_eq_of_lt h2]
  grind

/-! ## `rcWindow` -/

@[simp] theorem rcWindow_length (w : List UInt64) : (rcWindow w).length = w.length := by
  simp [rcWindow]

theorem rcWindow_nil : rcWindow [] = [] := rfl

theorem rcWindow_append (a z : List UInt64) : rcWindow (a ++ z) = rcWindow z ++ rcWindow a := by
  simp [rcWindow]

theorem rcWindow_cons (d : UInt64) (u : List UInt64) :
    rcWindow (d :: u) = rcWindow u ++ [3 - d] := by
  simp [rcWindow]

theorem rcWindow_snoc (u : List UInt64) (s : UInt64) :
    rcWindow (u ++ [s]) = (3 - s) :: rcWindow u := by
  simp [rcWindow]

theorem rcWindow_valid {w : List UInt64} (h : Valid w) : Valid (rcWindow w) := by
  intro b hb
  simp only [rcWindow, List.mem_map, List.mem_reverse] at hb
  obtain ⟨a, ha, rfl⟩ := hb
  exact three_sub_le3 (h a ha)

theorem rcWindow_rcWindow {w : List UInt64} (h : Valid w) : rcWindow (rcWindow w) = w := by
  induction w with
  | nil => rfl
  | cons d u ih =>
    rw [rcWindow_cons, rcWindow_snoc, ih (valid_cons.mp h).2,
      three_sub_three_sub (valid_cons.mp h).1]

/-! ## `lastK` -/

theorem lastK_of_length_le {k : Nat} {l : List UInt64} (h : l.length ≤ k) : lastK k l = l := by
  unfold lastK
  have : l.length - k = 0 := by omega
  rw [this, List.drop_zero]

theorem lastK_length {k : Nat} {l : List UInt64} : (lastK k l).length = min k l.length := by
  unfold lastK; rw [List.length_drop]; omega

theorem lastK_snoc_full {k : Nat} {d s : UInt64} {u : List UInt64} (h : (d :: u).length = k) :
    lastK k ((d :: u) ++ [s]) = u ++ [s] := by
  unfold lastK
  have : ((d :: u) ++ [s]).length - k = 1 := by simp at h ⊢; omega
  rw [this]; rfl

theorem lastK_append_right {k : Nat} {a w : List UInt64} (h : w.length = k) :
    lastK k (a ++ w) = w := by
  unfold lastK
  have : (a ++ w).length - k = a.length := by simp; omega
  rw [this, List.drop_left]

theorem lastK_lastK_snoc {k : Nat} (h1 : 1 ≤ k) (u : List UInt64) (s : UInt64) (w : List UInt64) :
    lastK k (lastK k (u ++ [s]) ++ w) = lastK k (u ++ s :: w) := by
  unfold lastK
  rw [List.drop_append, List.drop_drop]
  have e0 : u ++ s :: w = (u ++ [s]) ++ w := by simp
  rw [e0, List.drop_append (l₁ := u ++ [s])]
  simp only [List.length_append, List.length_drop, List.length_cons, List.length_nil]
  congr 2 <;> omega

theorem Valid.lastK {l : List UInt64} (h : Valid l) (k : Nat) : Valid (lastK k l) := h.drop _

/-! ## The invariant carried by the sliding window -/

/-- `km` (with `max_size = k`) currently holds exactly the window `u`. -/
structure Inv (k : Nat) (km : Kmer) (u : List UInt64) : Prop where
  hk : km.k = k
  len : u.length ≤ k
  valid : Valid u
  cur : km.cur = u.length
  dir : km.dir = packDir u
  rc : km.rc = packDir (rcWindow u)

theorem inv_new (k : Nat) : Inv k (new k) [] :=
  ⟨rfl, Nat.zero_le _, Valid.nil, rfl, by simp [new, packDir_nil],
    by simp [new, rcWindow_nil, packDir_nil]⟩

theorem inv_reset {k : Nat} {km : Kmer} {u : List UInt64} (h : Inv k km u) :
    Inv k (reset km) [] :=
  ⟨h.hk, Nat.zero_le _, Valid.nil, rfl, by simp [reset, packDir_nil],
    by simp [reset, rcWindow_nil, packDir_nil]⟩

/-- One `insert_canonical` moves the invariant from `u` to the last `k` of `u ++ [s]`. -/
theorem inv_insert {k : Nat} {km : Kmer} {u : List UInt64} {s : UInt64} (h : Inv k km u)
    (h1 : 1 ≤ k) (h32 : k ≤ 32) (hs : s ≤ 3) : Inv k (insert km s) (lastK k (u ++ [s])) := by
  obtain ⟨hk, hlen, hv, hcur, hdir, hrc⟩ := h
  have hvr := rcWindow_valid hv
  have hc : 3 - s ≤ 3 := three_sub_le3 hs
  by_cases hfull : u.length = k
  · -- full window: `u = d :: u'`
    cases u with
    | nil => simp at hfull; omega
    | cons d u' =>
      have hu' : u'.length + 1 = k := by simpa using hfull
      rw [lastK_snoc_full hfull]
      have hv' := (valid_cons.mp hv).2
      have hrc' : ((km.rc >>> 2) + (rcBase s <<< 62)) &&& maskOf km.k
          = packDir (rcWindow (u' ++ [s])) := by
        rw [hrc, hk, rcBase_eq hs, rcWindow_snoc, rcWindow_cons]
        have hvr' : Valid (rcWindow u' ++ [3 - d]) := by rw [← rcWindow_cons]; exact hvr
        by_cases hk32 : k = 32
        · rw [(packDir_rc_step32_aux hvr' (by simp; omega) hc).1]
          exact packDir_mask_id (valid_cons.mpr ⟨hc, rcWindow_valid hv'⟩) (by simp; omega) h1 h32
        · rw [(packDir_rc_step_aux hvr' (by simp; omega) hc).1]
          exact packDir_mask_drop (r := (3 - s) :: rcWindow u')
            (valid_cons.mpr ⟨hc, hvr'⟩) (by simp; omega) h1 (by omega)
      have hcur' : km.cur = km.k := by rw [hcur, hk, hfull]
      have hins : insert km s = { km with
          rc := ((km.rc >>> 2) + (rcBase s <<< 62)) &&& maskOf km.k,
          dir := (km.dir <<< 2) + (s <<< UInt64.ofNat (shiftOf km.k)) } := by
        simp only [insert]; rw [if_pos hcur']
      rw [hins]
      refine ⟨hk, ?_, valid_snoc hv' hs, ?_, ?_, hrc'⟩
      · simp; omega
      · show km.cur = _
        rw [hcur]; simp
      · show (km.dir <<< 2) + (s <<< UInt64.ofNat (shiftOf km.k)) = _
        rw [hdir, hk]
        exact packDir_slide hv hfull h32 hs
  · have hlt : u.length < k := by omega
    rw [lastK_of_length_le (by simp; omega)]
    have hrc' : ((km.rc >>> 2) + (rcBase s <<< 62)) &&& maskOf km.k
        = packDir (rcWindow (u ++ [s])) := by
      rw [hrc, hk, rcBase_eq hs, rcWindow_snoc,
        (packDir_rc_step_aux hvr (by simp; omega) hc).1]
      exact packDir_mask_id (valid_cons.mpr ⟨hc, hvr⟩) (by simp; omega) h1 h32
    have hcur' : ¬ km.cur = km.k := by rw [hcur, hk]; exact hfull
    have hins : insert km s = { km with
        rc := ((km.rc >>> 2) + (rcBase s <<< 62)) &&& maskOf km.k,
        cur := km.cur + 1,
        dir := km.dir + (s <<< UInt64.ofNat (64 - 2 * (km.cur + 1))) } := by
      simp only [insert]; rw [if_neg hcur']
    rw [hins]
    refine ⟨hk, ?_, valid_snoc hv hs, ?_, ?_, hrc'⟩
    · simp; omega
    · show km.cur + 1 = _
      rw [hcur]; simp
    · show km.dir + (s <<< UInt64.ofNat (64 - 2 * (km.cur + 1))) = _
      rw [hdir, hcur]
      exact packDir_grow hv (by omega) hs

/-! ## `feed` -/

theorem feed_append (km : Kmer) (a b : List UInt64) : feed km (a ++ b) = feed (feed km a) b := by
  induction a generalizing km with
  | nil => rfl
  | cons x xs ih =>
    simp only [List.cons_append, feed]
    split <;> exact ih _

theorem feed_cons_valid (km : Kmer) {s : UInt64} (hs : s ≤ 3) (w : List UInt64) :
    feed km (s :: w) = feed (insert km s) w := by
  simp only [feed]; rw [if_neg (not_gt3.mpr hs)]

theorem feed_cons_reset (km : Kmer) {s : UInt64} (hs : s > 3) (w : List UInt64) :
    feed km (s :: w) = feed (reset km) w := by
  simp only [feed]; rw [if_pos hs]

/-- Feeding bases only: the window becomes the last `k` of everything seen. -/
theorem inv_feed_valid {k : Nat} (h1 : 1 ≤ k) (h32 : k ≤ 32) :
    ∀ (w : List UInt64) (km : Kmer) (u : List UInt64), Inv k km u → Valid w →
      Inv k (feed km w) (lastK k (u ++ w)) := by
  intro w
  induction w with
  | nil =>
    intro km u h _
    rw [List.append_nil, lastK_of_length_le h.len]; exact h
  | cons s w ih =>
    intro km u h hw
    have hs := (valid_cons.mp hw).1
    rw [feed_cons_valid km hs, ← lastK_lastK_snoc h1]
    exact ih _ _ (inv_insert h h1 h32 hs) (valid_cons.mp hw).2

/-- After any symbols whatsoever the state is the packing of *some* valid window. -/
theorem inv_feed_exists {k : Nat} (h1 : 1 ≤ k) (h32 : k ≤ 32) :
    ∀ (xs : List UInt64) (km : Kmer) (u : List UInt64), Inv k km u →
      ∃ u', Inv k (feed km xs) u' := by
  intro xs
  induction xs with
  | nil => intro km u h; exact ⟨u, h⟩
  | cons s xs ih =>
    intro km u h
    by_cases hs : s > 3
    · rw [feed_cons_reset km hs]; exact ih _ _ (inv_reset h)
    · have hs' := not_gt3.mp hs
      rw [feed_cons_valid km hs']; exact ih _ _ (inv_insert h h1 h32 hs')

/-- Sliding over `pre ++ w` leaves exactly the window `w` when `w` is `k` bases. -/
theorem inv_feed_window {k : Nat} (h1 : 1 ≤ k) (h32 : k ≤ 32) (pre w : List UInt64)
    (hw : Valid w) (hl : w.length = k) : Inv k (feed (new k) (pre ++ w)) w := by
  obtain ⟨u, hu⟩ := inv_feed_exists h1 h32 pre (new k) [] (inv_new k)
  have := inv_feed_valid h1 h32 w _ u hu hw
  rw [lastK_append_right hl] at this
  rw [feed_append]; exact this

/-- After a reset symbol and `n ≤ k` bases the window is those `n` bases. -/
theorem inv_feed_partial {k : Nat} (h1 : 1 ≤ k) (h32 : k ≤ 32) (pre v : List UInt64)
    (bad : UInt64) (hbad : bad > 3) (hv : Valid v) (hl : v.length ≤ k) :
    Inv k (feed (new k) (pre ++ bad :: v)) v := by
  obtain ⟨u, hu⟩ := inv_feed_exists h1 h32 pre (new k) [] (inv_new k)
  have := inv_feed_valid h1 h32 v _ [] (inv_reset hu) hv
  rw [List.nil_append, lastK_of_length_le hl] at this
  rw [feed_append, feed_cons_reset _ hbad]; exact this

theorem inv_data {k : Nat} {km : Kmer} {u : List UInt64} (h : Inv k km u) : data km = canon u := by
  unfold data canon
  rw [h.dir, h.rc]; rfl

theorem inv_isFull {k : Nat} {km : Kmer} {u : List UInt64} (h : Inv k km u) :
    isFull km = decide (u.length = k) := by
  unfold isFull
  rw [h.cur, h.hk]
  by_cases hh : u.length = k <;> simp [hh]

/-! ## `enumLoop` against the from-scratch window list -/

theorem specWindows_short {k : Nat} : ∀ (l : List UInt64), l.length < k → specWindows k l = [] := by
  intro l
  induction l with
  | nil => intro _; rfl
  | cons b bs ih =>
    intro h
    have hn : ¬ (k ≤ (b :: bs).length ∧ Valid ((b :: bs).take k)) := by
      intro hh; omega
    simp only [specWindows]
    rw [if_neg hn]
    exact ih (by simp at h; omega)

/-- Every window that contains a non-base is skipped. -/
theorem specWindows_skip {k : Nat} (b : UInt64) (hb : b > 3) (bs : List UInt64) :
    ∀ (v : List UInt64), v.length < k → specWindows k (v ++ b :: bs) = specWindows k bs := by
  have hmem : ∀ (v : List UInt64), v.length < k → ¬ Valid ((v ++ b :: bs).take k) := by
    intro v hv hval
    have hin : b ∈ (v ++ b :: bs).take k := by
      rw [List.take_append]
      have : k - v.length = (k - v.length - 1) + 1 := by omega
      rw [this, List.take_succ_cons]
      simp
    exact (not_gt3.mpr (hval b hin)) hb
  intro v
  induction v with
  | nil =>
    intro hk
    have := hmem [] hk
    simp only [List.nil_append] at this ⊢
    simp only [specWindows]
    rw [if_neg (fun hh => this hh.2)]
  | cons a v ih =>
    intro hk
    have := hmem (a :: v) hk
    simp only [List.cons_append] at this ⊢
    simp only [specWindows]
    rw [if_neg (fun hh => this hh.2)]
    exact ih (by simp at hk; omega)

theorem lastK_snoc' {k : Nat} (h1 : 1 ≤ k) (u : List UInt64) (b : UInt64) :
    lastK k (u ++ [b]) = lastK (k - 1) u ++ [b] := by
  unfold lastK
  rw [List.drop_append_of_le_length (by simp; omega)]
  congr 2
  simp; omega

theorem enumLoop_spec {k : Nat} (h1 : 1 ≤ k) (h32 : k ≤ 32) :
    ∀ (rest : List UInt64) (km : Kmer) (u : List UInt64), Inv k km u →
      enumLoop km rest = specWindows k (lastK (k - 1) u ++ rest) := by
  intro rest
  induction rest with
  | nil =>
    intro km u _
    rw [List.append_nil, specWindows_short _ (by rw [lastK_length]; omega)]
    rfl
  | cons b bs ih =>
    intro km u h
    by_cases hb : b > 3
    · have e : enumLoop km (b :: bs) = enumLoop (reset km) bs := by
        simp only [enumLoop]; rw [if_pos hb]
      rw [e, ih _ _ (inv_reset h), specWindows_skip b hb bs _ (by rw [lastK_length]; omega)]
      simp [lastK]
    · have hb' := not_gt3.mp hb
      have hi := inv_insert h h1 h32 hb'
      rw [lastK_snoc' h1] at hi
      have hvl : (lastK (k - 1) u).length ≤ k - 1 := by rw [lastK_length]; omega
      generalize lastK (k - 1) u = v at hi hvl ⊢
      have e : enumLoop km (b :: bs) =
          if isFull (insert km b) then data (insert km b) :: enumLoop (insert km b) bs
          else enumLoop (insert km b) bs := by
        simp only [enumLoop]; rw [if_neg hb]
      rw [e, inv_isFull hi, inv_data hi, ih _ _ hi]
      by_cases hfull : (v ++ [b]).length = k
      · rw [if_pos (by simpa using hfull)]
        have hsplit : v ++ b :: bs = (v ++ [b]) ++ bs := by simp
        have hlk : lastK (k - 1) (v ++ [b]) = (v ++ [b]).drop 1 := by
          unfold lastK; congr 1; omega
        rw [hsplit, hlk]
        have hval := hi.valid
        generalize v ++ [b] = w at hfull hval ⊢
        cases w with
        | nil => simp at hfull; omega
        | cons x t =>
          have htake : ((x :: t) ++ bs).take k = x :: t := by
            rw [← hfull]; exact List.take_left
          simp only [List.cons_append, specWindows] at htake ⊢
          rw [htake, if_pos ⟨by simp at hfull ⊢; omega, hval⟩]
          rfl
      · rw [if_neg (by simpa using hfull)]
        have hlen : (v ++ [b]).length ≤ k - 1 := by simp at hfull hvl ⊢; omega
        rw [lastK_of_length_le hlen]
        simp

/-! ## `reverse_complement_kmer` -/

theorem nat_digit (A b Z Pz S : Nat) (hb : b ≤ 3) (hPz : Pz < Z) (hS : 0 < S) :
    ((A * 4 + b) * Z + Pz) * S / (S * Z) % 2 ^ 2 = b := by
  have e1 : ((A * 4 + b) * Z + Pz) * S = S * Z * (A * 4 + b) + Pz * S := by grind
  have hlt : Pz * S < S * Z := by
    have := Nat.mul_lt_mul_of_pos_right hPz hS
    rw [Nat.mul_comm Z S] at this; exact this
  have hpos : 0 < S * Z := Nat.mul_pos hS (by omega)
  rw [e1, Nat.mul_add_div hpos, Nat.div_eq_of_lt hlt]
  omega

/-- On a left-aligned window whose low bits are free, `|||` of the next base is `+`. -/
theorem packDir_or_snoc {r : List UInt64} {c : UInt64} (hv : Valid r) (hl : r.length < 32)
    (hc : c ≤ 3) :
    packDir r ||| (c <<< UInt64.ofNat (64 - 2 * (r.length + 1))) = packDir (r ++ [c]) := by
  rw [← packDir_grow hv hl hc]
  have hno := (packDir_grow_aux hv hl hc).2
  apply UInt64.toNat_inj.mp
  rw [UInt64.toNat_or, UInt64.toNat_add, Nat.mod_eq_of_lt hno]
  have hsh : (c <<< UInt64.ofNat (64 - 2 * (r.length + 1))).toNat
      = c.toNat * 4 ^ (32 - (r.length + 1)) := by
    rw [UInt64.toNat_shiftLeft, shift_toNat _ (by omega), Nat.shiftLeft_eq,
      two_pow_shift _ (by omega)]
    apply Nat.mod_eq_of_lt
    have := Nat.mul_le_mul_right (4 ^ (32 - (r.length + 1))) (toNat_le3 hc)
    have h2 : 4 ^ (32 - (r.length + 1)) ≤ 4 ^ 31 :=
      Nat.pow_le_pow_right (by decide) (by omega)
    have : (4 : Nat) ^ 31 * 3 < 2 ^ 64 := by decide
    omega
  rw [hsh, packDir_toNat hv (by omega)]
  have hpow : 4 ^ (32 - r.length) = 2 ^ (2 * (32 - r.length)) := by rw [Nat.pow_mul]
  rw [hpow, ← Nat.shiftLeft_eq]
  symm
  apply Nat.shiftLeft_add_eq_or_of_lt
  rw [← hpow]
  have e : 4 ^ (32 - r.length) = 4 ^ (32 - (r.length + 1)) * 4 := by
    have : 32 - r.length = (32 - (r.length + 1)) + 1 := by omega
    rw [this, Nat.pow_succ]
  rw [e]
  have hT : 0 < 4 ^ (32 - (r.length + 1)) := Nat.pow_pos (by decide)
  have := Nat.mul_le_mul_right (4 ^ (32 - (r.length + 1))) (toNat_le3 hc)
  generalize 4 ^ (32 - (r.length + 1)) = T at *
  omega

/-- Reading base number `|a|` of the packed window `a ++ [b] ++ z`. -/
theorem packDir_extract {a z : List UInt64} {b : UInt64} {k : Nat}
    (hv : Valid (a ++ b :: z)) (hl : (a ++ b :: z).length = k) (h32 : k ≤ 32) :
    (packDir (a ++ b :: z) >>> UInt64.ofNat (shiftOf k + 2 * z.length)) &&& 3 = b := by
  have hvz : Valid z := (valid_cons.mp (valid_append.mp hv).2).2
  have hb : b ≤ 3 := (valid_cons.mp (valid_append.mp hv).2).1
  have hlen : a.length + (z.length + 1) = k := by simpa using hl
  apply UInt64.toNat_inj.mp
  have h3 : (3 : UInt64).toNat = 2 ^ 2 - 1 := rfl
  unfold shiftOf
  rw [UInt64.toNat_and, h3, Nat.and_two_pow_sub_one_eq_mod, UInt64.toNat_shiftRight,
    shift_toNat _ (by omega), Nat.shiftRight_eq_div_pow, packDir_toNat hv (by omega), hl,
    Nat.pow_add, two_pow_shift k h32, Nat.pow_mul]
  have e : a ++ b :: z = (a ++ [b]) ++ z := by simp
  rw [e, packNat_append, packNat_snoc]
  exact nat_digit _ _ _ _ _ (toNat_le3 hb) (packNat_lt hvz) (Nat.pow_pos (by decide))

theorem rcKmerLoop_spec {k : Nat} (h32 : k ≤ 32) (w : List UInt64) (hv : Valid w)
    (hl : w.length = k) :
    ∀ (n : Nat) (a z : List UInt64), w = a ++ z → a.length = n →
      rcKmerLoop (packDir w) k n (packDir (rcWindow z)) = packDir (rcWindow w) := by
  intro n
  induction n with
  | zero =>
    intro a z hw ha
    have : a = [] := List.eq_nil_of_length_eq_zero ha
    subst this
    simp only [List.nil_append] at hw
    subst hw
    rfl
  | succ n ih =>
    intro a z hw ha
    rcases List.eq_nil_or_concat a with h0 | ⟨a', b, rfl⟩
    · subst h0; simp at ha
    · rw [List.concat_eq_append] at hw ha
      have ha' : a'.length = n := by simpa using ha
      have hw' : w = a' ++ b :: z := by rw [hw]; simp
      have hlen : a'.length + (z.length + 1) = k := by
        rw [← hl, hw']; simp
      have hvz : Valid z := by
        rw [hw'] at hv; exact (valid_cons.mp (valid_append.mp hv).2).2
      have hb : b ≤ 3 := by
        rw [hw'] at hv; exact (valid_cons.mp (valid_append.mp hv).2).1
      have hi : k - (n + 1) = z.length := by omega
      have hj : k - 1 - z.length = n := by omega
      have hbase : (packDir w >>> UInt64.ofNat (shiftOf k + 2 * z.length)) &&& 3 = b := by
        rw [hw']; exact packDir_extract (by rw [← hw']; exact hv) (by rw [← hw']; exact hl) h32
      have hsh : shiftOf k + 2 * n = 64 - 2 * ((rcWindow z).length + 1) := by
        unfold shiftOf; rw [rcWindow_length]; omega
      have hstep : rcKmerLoop (packDir w) k (n + 1) (packDir (rcWindow z))
          = rcKmerLoop (packDir w) k n (packDir (rcWindow (b :: z))) := by
        simp only [rcKmerLoop]
        rw [hi, hj, hbase, rcBase_eq hb, hsh,
          packDir_or_snoc (rcWindow_valid hvz) (by rw [rcWindow_length]; omega)
            (three_sub_le3 hb), ← rcWindow_cons]
      rw [hstep]
      exact ih a' (b :: z) hw' ha'

theorem reverseComplementKmer_packDir {k : Nat} (h32 : k ≤ 32) (w : List UInt64) (hv : Valid w)
    (hl : w.length = k) : reverseComplementKmer (packDir w) k = packDir (rcWindow w) := by
  unfold reverseComplementKmer
  have := rcKmerLoop_spec h32 w hv hl k w [] (by simp) hl
  rw [rcWindow_nil, packDir_nil] at this
  exact this

/-! ## Every left-aligned `UInt64` is the packing of a window -/

/-- The `k` low base-4 digits of `n`, most significant first. -/
def unpackNat : Nat → Nat → List UInt64
  | 0, _ => []
  | k + 1, n => unpackNat k (n / 4) ++ [UInt64.ofNat (n % 4)]

theorem unpackNat_length (k n : Nat) : (unpackNat k n).length = k := by
  induction k generalizing n with
  | zero => rfl
  | succ k ih => simp [unpackNat, ih]

theorem unpackNat_valid (k n : Nat) : Valid (unpackNat k n) := by
  induction k generalizing n with
  | zero => exact Valid.nil
  | succ k ih =>
    refine valid_append.mpr ⟨ih _, valid_cons.mpr ⟨?_, Valid.nil⟩⟩
    apply UInt64.le_iff_toNat_le.mpr
    rw [UInt64.toNat_ofNat_of_lt' (by show n % 4 < 2 ^ 64; omega)]
    show n % 4 ≤ 3
    omega

theorem packNat_unpackNat (k n : Nat) : packNat (unpackNat k n) = n % 4 ^ k := by
  induction k generalizing n with
  | zero => simp [unpackNat, packNat, Nat.mod_one]
  | succ k ih =>
    rw [unpackNat, packNat_snoc, ih, UInt64.toNat_ofNat_of_lt' (by show n % 4 < 2 ^ 64; omega),
      Nat.pow_succ, Nat.mul_comm (4 ^ k) 4, Nat.mod_mul]
    omega

/-- A value whose `64 - 2k` low bits are zero is `packDir` of a (unique) valid `k`-window. -/
theorem exists_window (k : Nat) (h32 : k ≤ 32) (x : UInt64) (hx : x.toNat % 4 ^ (32 - k) = 0) :
    ∃ w, Valid w ∧ w.length = k ∧ packDir w = x := by
  refine ⟨unpackNat k (x.toNat / 4 ^ (32 - k)), unpackNat_valid _ _, unpackNat_length _ _, ?_⟩
  apply UInt64.toNat_inj.mp
  rw [packDir_toNat (unpackNat_valid _ _) (by rw [unpackNat_length]; exact h32),
    packNat_unpackNat, unpackNat_length]
  have hlt : x.toNat / 4 ^ (32 - k) < 4 ^ k := by
    apply Nat.div_lt_of_lt_mul
    rw [Nat.mul_comm, four_pow_split k h32]
    exact x.toNat_lt
  rw [Nat.mod_eq_of_lt hlt]
  have := Nat.div_add_mod x.toNat (4 ^ (32 - k))
  rw [hx, Nat.add_zero, Nat.mul_comm] at this
  exact this

/-! ## `specWindows` by positions -/

theorem specWindows_eq_positions (k : Nat) (h1 : 1 ≤ k) (l : List UInt64) :
    specWindows k l = (List.range (l.length + 1 - k)).filterMap (fun i =>
      if Valid ((l.drop i).take k) then some (canon ((l.drop i).take k)) else none) := by
  induction l with
  | nil =>
    have : ([] : List UInt64).length + 1 - k = 0 := by simp; omega
    rw [this]; rfl
  | cons b bs ih =>
    by_cases hk : k ≤ (b :: bs).length
    · have hr : (b :: bs).length + 1 - k = (bs.length + 1 - k) + 1 := by simp at hk ⊢; omega
      rw [hr, List.range_succ_eq_map, List.filterMap_cons, List.filterMap_map]
      simp only [specWindows, List.drop_zero]
      by_cases hval : Valid ((b :: bs).take k)
      · rw [if_pos ⟨hk, hval⟩, if_pos hval, ih]
        rfl
      · rw [if_neg (fun hh => hval hh.2), if_neg hval, ih]
        rfl
    · have hr : (b :: bs).length + 1 - k = 0 := by omega
      rw [hr]
      simp only [specWindows]
      rw [if_neg (fun hh => hk hh.1), specWindows_short _ (by simp at hk ⊢; omega)]
      rfl

end Ragc.Kmer
