import RagcModel.Model.Names
import RagcModel.Lemmas.CollVarint
/-! Lemmas for the contig-name codec (C03, DESIGN Appendix A.2). -/
namespace Ragc.Names
open Ragc.CollVarint

/-! ### `split(' ')` and joining -/

theorem splitSp_cons_ne (b : Nat) (r : List Nat) (h : b ≠ 32) :
    splitSp (b :: r) = (b :: (splitSp r).headD []) :: (splitSp r).tail := by
  simp only [splitSp, if_neg h]
  cases splitSp r <;> rfl

theorem splitSp_cons_sp (r : List Nat) : splitSp (32 :: r) = [] :: splitSp r := by
  simp [splitSp]

theorem splitSp_ne_nil (l : List Nat) : splitSp l ≠ [] := by
  cases l with
  | nil => simp [splitSp]
  | cons b r =>
    by_cases h : b = 32
    · subst h; rw [splitSp_cons_sp]; simp
    · rw [splitSp_cons_ne b r h]; simp

theorem splitSp_length_pos (l : List Nat) : 0 < (splitSp l).length :=
  List.length_pos_iff.mpr (splitSp_ne_nil l)

theorem joinSp_cons_cons (b : Nat) (f : List Nat) (fs : List (List Nat)) :
    joinSp ((b :: f) :: fs) = b :: joinSp (f :: fs) := by
  cases fs <;> simp [joinSp]

theorem joinSp_nil_cons (f : List Nat) (fs : List (List Nat)) :
    joinSp ([] :: f :: fs) = 32 :: joinSp (f :: fs) := by
  simp [joinSp]

theorem headD_cons_tail (l : List (List Nat)) (h : l ≠ []) : l.headD [] :: l.tail = l := by
  cases l with
  | nil => exact absurd rfl h
  | cons a t => rfl

theorem joinSp_splitSp (l : List Nat) : joinSp (splitSp l) = l := by
  induction l with
  | nil => simp [splitSp, joinSp]
  | cons b r ih =>
    have hne := splitSp_ne_nil r
    by_cases h : b = 32
    · subst h
      rw [splitSp_cons_sp, ← headD_cons_tail _ hne, joinSp_nil_cons, headD_cons_tail _ hne, ih]
    · rw [splitSp_cons_ne b r h, joinSp_cons_cons, headD_cons_tail _ hne, ih]

theorem splitSp_single (f : List Nat) (h : ∀ b ∈ f, b ≠ 32) : splitSp f = [f] := by
  induction f with
  | nil => simp [splitSp]
  | cons b f ih =>
    have hb : b ≠ 32 := h b (by simp)
    rw [splitSp_cons_ne b f hb, ih (fun x hx => h x (by simp [hx]))]
    rfl

theorem splitSp_append_sp (f rest : List Nat) (h : ∀ b ∈ f, b ≠ 32) :
    splitSp (f ++ 32 :: rest) = f :: splitSp rest := by
  induction f with
  | nil => simp [splitSp]
  | cons b f ih =>
    have hb : b ≠ 32 := h b (by simp)
    rw [List.cons_append, splitSp_cons_ne _ _ hb, ih (fun x hx => h x (by simp [hx]))]
    rfl

theorem splitSp_joinSp (fs : List (List Nat)) (hne : fs ≠ [])
    (h : ∀ f ∈ fs, ∀ b ∈ f, b ≠ 32) : splitSp (joinSp fs) = fs := by
  induction fs with
  | nil => exact absurd rfl hne
  | cons f fs ih =>
    cases fs with
    | nil => simp only [joinSp]; exact splitSp_single f (h f (by simp))
    | cons g gs =>
      simp only [joinSp]
      rw [splitSp_append_sp f _ (h f (by simp)), ih (by simp) (fun x hx => h x (by simp [hx]))]

/-- Fields of a split contain only bytes of the string, and never a space. -/
theorem mem_splitSp (l : List Nat) : ∀ f ∈ splitSp l, ∀ b ∈ f, b ∈ l ∧ b ≠ 32 := by
  induction l with
  | nil => simp [splitSp]
  | cons c r ih =>
    intro f hf b hb
    have hne := splitSp_ne_nil r
    by_cases h : c = 32
    · subst h
      rw [splitSp_cons_sp] at hf
      rcases List.mem_cons.mp hf with rfl | hf
      · simp at hb
      · have := ih f hf b hb; exact ⟨by simp [this.1], this.2⟩
    · rw [splitSp_cons_ne c r h] at hf
      rcases List.mem_cons.mp hf with rfl | hf
      · rcases List.mem_cons.mp hb with rfl | hb
        · exact ⟨by simp, h⟩
        · have hm : (splitSp r).headD [] ∈ splitSp r := by
            cases hs : splitSp r with
            | nil => exact absurd hs hne
            | cons a t => simp
          have := ih _ hm b hb; exact ⟨by simp [this.1], this.2⟩
      · have := ih f (List.mem_of_mem_tail hf) b hb; exact ⟨by simp [this.1], this.2⟩

/-! ### One component: run-length delta against the previous component -/

theorem decRun_literals (p c : List Nat) (h : ∀ b ∈ c, b < 128) : decRun p c = .ok c := by
  induction c generalizing p with
  | nil => simp [decRun]
  | cons b c ih =>
    have hb : b < 128 := h b (by simp)
    rw [decRun, if_pos hb, ih (p.drop 1) (fun x hx => h x (by simp [hx]))]

/-- Decoding one marker that covers exactly the pending prefix `pre`. -/
theorem decRun_marker (pre p e : List Nat) (cnt : Nat) (hl : pre.length = cnt) (h0 : 0 < cnt)
    (h100 : cnt ≤ 100) :
    decRun (pre ++ p) ((256 - cnt) :: e) =
      match decRun p e with
      | .ok t => .ok (pre ++ t)
      | .err => .err
      | .panic => .panic := by
  have h1 : ¬ (256 - cnt < 128) := by omega
  have h2 : ¬ (256 - cnt = 128) := by omega
  have h3 : 256 - (256 - cnt) = cnt := by omega
  have h4 : cnt ≤ (pre ++ p).length := by simp; omega
  rw [decRun, if_neg h1, if_neg h2]
  simp only [h3, if_pos h4]
  have h5 : (pre ++ p).drop cnt = p := by rw [← hl]; simp
  have h6 : (pre ++ p).take cnt = pre := by rw [← hl]; simp
  rw [h5, h6]
  cases decRun p e <;> rfl

/-- Appendix A.2 (i): the decoder undoes the run-length coder. Invariant: the `cnt` pending
    equal symbols `pre` have not been consumed by the decoder yet. -/
theorem decRun_rle (p : List Nat) : ∀ (c : List Nat) (cnt : Nat) (pre : List Nat),
    pre.length = cnt → cnt ≤ 100 → p.length = c.length → (∀ b ∈ c, b < 128) →
    decRun (pre ++ p) (rle cnt p c) = .ok (pre ++ c) := by
  induction p with
  | nil =>
    intro c cnt pre hl h100 hlen hb
    have hc : c = [] := List.eq_nil_of_length_eq_zero (by simpa using hlen.symm)
    subst hc
    by_cases h0 : cnt > 0
    · simp only [rle, if_pos h0]
      have := decRun_marker pre [] [] cnt hl h0 h100
      simpa [decRun] using this
    · have : pre = [] := List.eq_nil_of_length_eq_zero (by omega)
      subst this
      simp [rle, h0, decRun]
  | cons q ps ih =>
    intro c cnt pre hl h100 hlen hb
    cases c with
    | nil => simp at hlen
    | cons d cs =>
      have hlen' : ps.length = cs.length := by simpa using hlen
      have hd : d < 128 := hb d (by simp)
      have hcs : ∀ b ∈ cs, b < 128 := fun x hx => hb x (by simp [hx])
      by_cases hq : q = d
      · subst hq
        by_cases hc : cnt = 100
        · simp only [rle, if_true, if_pos hc]
          rw [decRun_marker pre (q :: ps) _ cnt hl (by omega) h100]
          have := ih cs 1 [q] rfl (by omega) hlen' hcs
          simp only [List.singleton_append] at this
          rw [this]
        · simp only [rle, if_true, if_neg hc]
          have := ih cs (cnt + 1) (pre ++ [q]) (by simp [hl]) (by omega) hlen' hcs
          simpa using this
      · have hrec := ih cs 0 [] rfl (by omega) hlen' hcs
        simp only [List.nil_append] at hrec
        have hlit : decRun (q :: ps) (d :: rle 0 ps cs) = .ok (d :: cs) := by
          rw [decRun, if_pos hd]
          simp only [List.drop_succ_cons, List.drop_zero]
          rw [hrec]
        simp only [rle, if_neg hq]
        by_cases h0 : cnt > 0
        · simp only [if_pos h0, List.singleton_append]
          rw [decRun_marker pre (q :: ps) _ cnt hl h0 h100, hlit]
        · have : pre = [] := List.eq_nil_of_length_eq_zero (by omega)
          subst this
          simp only [if_neg h0, List.nil_append]
          exact hlit

/-- What the run-length coder emits: bytes of `c`, or markers `156..255`. -/
theorem mem_rle (p : List Nat) : ∀ (c : List Nat) (cnt : Nat), cnt ≤ 100 →
    ∀ b ∈ rle cnt p c, b ∈ c ∨ (156 ≤ b ∧ b ≤ 255) := by
  induction p with
  | nil =>
    intro c cnt h100 b hb
    cases c with
    | nil =>
      simp only [rle] at hb
      by_cases h0 : cnt > 0
      · rw [if_pos h0] at hb; simp at hb; omega
      · rw [if_neg h0] at hb; simp at hb
    | cons d cs =>
      simp only [rle] at hb
      by_cases h0 : cnt > 0
      · rw [if_pos h0] at hb; simp at hb; omega
      · rw [if_neg h0] at hb; simp at hb
  | cons q ps ih =>
    intro c cnt h100 b hb
    cases c with
    | nil =>
      simp only [rle] at hb
      by_cases h0 : cnt > 0
      · rw [if_pos h0] at hb; simp at hb; omega
      · rw [if_neg h0] at hb; simp at hb
    | cons d cs =>
      simp only [rle] at hb
      by_cases hq : q = d
      · rw [if_pos hq] at hb
        by_cases hc : cnt = 100
        · rw [if_pos hc] at hb
          rcases List.mem_cons.mp hb with rfl | hb
          · right; omega
          · rcases ih cs 1 (by omega) b hb with h | h
            · left; simp [h]
            · right; exact h
        · rw [if_neg hc] at hb
          rcases ih cs (cnt + 1) (by omega) b hb with h | h
          · left; simp [h]
          · right; exact h
      · rw [if_neg hq] at hb
        rcases List.mem_append.mp hb with hb | hb
        · by_cases h0 : cnt > 0
          · rw [if_pos h0] at hb; simp at hb; right; omega
          · rw [if_neg h0] at hb; simp at hb
        · rcases List.mem_cons.mp hb with rfl | hb
          · left; simp
          · rcases ih cs 0 (by omega) b hb with h | h
            · left; simp [h]
            · right; exact h

/-- Appendix A.2 (ii): the "same" marker is produced only for equal components. -/
theorem encField_ne_marker (p c : List Nat) (hc : ∀ b ∈ c, b < 128) (hne : p ≠ c) :
    encField p c ≠ [0x81] := by
  unfold encField
  rw [if_neg hne]
  by_cases hl : p.length ≠ c.length
  · rw [if_pos hl]
    intro h
    have := hc 0x81 (by rw [h]; simp)
    omega
  · rw [if_neg hl]
    intro h
    rcases mem_rle p c 0 (by omega) 0x81 (by rw [h]; simp) with h1 | h1
    · have := hc _ h1; omega
    · omega

theorem decField_encField (p c : List Nat) (hc : ∀ b ∈ c, b < 128) :
    decField p (encField p c) = .ok c := by
  by_cases he : p = c
  · subst he; simp [decField, encField]
  · unfold decField
    rw [if_neg (encField_ne_marker p c hc he)]
    unfold encField
    rw [if_neg he]
    by_cases hl : p.length ≠ c.length
    · rw [if_pos hl]; exact decRun_literals p c hc
    · rw [if_neg hl]
      have := decRun_rle p c 0 [] rfl (by omega) (by omega) hc
      simpa using this

/-- Appendix A.2 (iii): an encoded component contains neither the separator nor the terminator. -/
theorem mem_encField (p c : List Nat) (hc : ∀ b ∈ c, b ≠ 32 ∧ b ≠ 0) :
    ∀ b ∈ encField p c, b ≠ 32 ∧ b ≠ 0 := by
  intro b hb
  unfold encField at hb
  by_cases he : p = c
  · rw [if_pos he] at hb; simp at hb; omega
  · rw [if_neg he] at hb
    by_cases hl : p.length ≠ c.length
    · rw [if_pos hl] at hb; exact hc b hb
    · rw [if_neg hl] at hb
      rcases mem_rle p c 0 (by omega) b hb with h | h
      · exact hc b h
      · omega

/-! ### All components of a name -/

theorem decFields_encFields (prev : List (List Nat)) : ∀ (cs : List (List Nat)),
    prev.length = cs.length → (∀ f ∈ cs, ∀ b ∈ f, b < 128) →
    decFields prev (List.zipWith encField prev cs) = .ok cs := by
  induction prev with
  | nil =>
    intro cs hl _
    have : cs = [] := List.eq_nil_of_length_eq_zero (by simpa using hl.symm)
    subst this; simp [decFields]
  | cons p ps ih =>
    intro cs hl h
    cases cs with
    | nil => simp at hl
    | cons c cs =>
      simp only [List.zipWith_cons_cons, decFields]
      rw [decField_encField p c (h c (by simp)),
        ih cs (by simpa using hl) (fun f hf => h f (by simp [hf]))]

theorem mem_zipWith_encField (prev : List (List Nat)) : ∀ (cs : List (List Nat)),
    (∀ f ∈ cs, ∀ b ∈ f, b ≠ 32 ∧ b ≠ 0) →
    ∀ e ∈ List.zipWith encField prev cs, ∀ b ∈ e, b ≠ 32 ∧ b ≠ 0 := by
  induction prev with
  | nil => intro cs _ e he; simp at he
  | cons p ps ih =>
    intro cs h e he
    cases cs with
    | nil => simp at he
    | cons c cs =>
      simp only [List.zipWith_cons_cons] at he
      rcases List.mem_cons.mp he with rfl | he
      · exact mem_encField p c (h c (by simp))
      · exact ih cs (fun f hf => h f (by simp [hf])) e he

theorem mem_joinSp (fs : List (List Nat)) : ∀ b ∈ joinSp fs, b = 32 ∨ ∃ f ∈ fs, b ∈ f := by
  induction fs with
  | nil => simp [joinSp]
  | cons f fs ih =>
    intro b hb
    cases fs with
    | nil => simp only [joinSp] at hb; right; exact ⟨f, by simp, hb⟩
    | cons g gs =>
      simp only [joinSp] at hb
      rcases List.mem_append.mp hb with hb | hb
      · right; exact ⟨f, by simp, hb⟩
      · rcases List.mem_cons.mp hb with rfl | hb
        · left; rfl
        · rcases ih b hb with h | ⟨x, hx, hbx⟩
          · left; exact h
          · right; exact ⟨x, by simp [hx], hbx⟩

/-- A well-formed name: 7-bit bytes, no NUL (the hypothesis of `names_roundtrip`). -/
def NameOk (nm : Name) : Prop := ∀ b ∈ nm, 1 ≤ b ∧ b ≤ 127

theorem decodeSplit_encodeSplit (prev : List (List Nat)) (nm : Name) (hn : NameOk nm)
    (hl : (splitSp nm).length = prev.length) :
    decodeSplit prev (List.zipWith encField prev (splitSp nm)) = .ok (nm, splitSp nm) := by
  have hb : ∀ f ∈ splitSp nm, ∀ b ∈ f, b < 128 := fun f hf b hb => by
    have := hn b (mem_splitSp nm f hf b hb).1; omega
  unfold decodeSplit
  rw [decFields_encFields prev (splitSp nm) hl.symm hb]
  simp only [joinSp_splitSp]
  rw [if_pos (utf8Valid_ascii nm (fun b hb => by have := hn b hb; omega))]

/-! ### The contigs of one sample, the samples of one batch -/

theorem splitNul_encodeSplit (prev : List (List Nat)) (nm : Name) (hn : NameOk nm) (r : List Nat) :
    splitNul (encodeSplit prev (splitSp nm) ++ 0 :: r) = some (encodeSplit prev (splitSp nm), r) := by
  apply splitNul_append
  intro b hb
  have hclean : ∀ f ∈ splitSp nm, ∀ b ∈ f, b ≠ 32 ∧ b ≠ 0 := fun f hf b hb => by
    have h1 := mem_splitSp nm f hf b hb
    have := hn b h1.1
    exact ⟨h1.2, by omega⟩
  rcases mem_joinSp _ b hb with h | ⟨e, he, hbe⟩
  · omega
  · exact (mem_zipWith_encField prev (splitSp nm) hclean e he b hbe).2

theorem splitSp_encodeSplit (prev : List (List Nat)) (nm : Name) (hn : NameOk nm)
    (hl : (splitSp nm).length = prev.length) :
    splitSp (encodeSplit prev (splitSp nm)) = List.zipWith encField prev (splitSp nm) := by
  have hclean : ∀ f ∈ splitSp nm, ∀ b ∈ f, b ≠ 32 ∧ b ≠ 0 := fun f hf b hb => by
    have h1 := mem_splitSp nm f hf b hb
    have := hn b h1.1
    exact ⟨h1.2, by omega⟩
  apply splitSp_joinSp
  · intro h
    have := congrArg List.length h
    simp only [List.length_zipWith, List.length_nil] at this
    have := splitSp_length_pos nm
    omega
  · intro e he b hbe
    exact (mem_zipWith_encField prev (splitSp nm) hclean e he b hbe).1

theorem decContigs_encContigs (names : List Name) : ∀ (prev : List (List Nat)) (r : List Nat),
    (∀ nm ∈ names, NameOk nm) →
    decContigs prev names.length (encContigs prev names ++ r) = .ok (names, r) := by
  induction names with
  | nil => intro prev r _; simp [decContigs, encContigs]
  | cons nm rest ih =>
    intro prev r h
    have hn : NameOk nm := h nm (by simp)
    have hrest : ∀ x ∈ rest, NameOk x := fun x hx => h x (by simp [hx])
    have h0 : ∀ b ∈ nm, b ≠ 0 := fun b hb => by have := hn b hb; omega
    have h7 : ∀ b ∈ nm, b < 128 := fun b hb => by have := hn b hb; omega
    have hpos := splitSp_length_pos nm
    simp only [List.length_cons, encContigs]
    by_cases hl : (splitSp nm).length ≠ prev.length
    · -- FULL
      rw [if_pos hl]
      simp only [List.append_assoc, List.cons_append, List.nil_append]
      rw [decContigs, splitNul_append nm _ h0]
      have hcond : (prev.isEmpty || decide ((splitSp nm).length ≠ prev.length)) = true := by
        simp [hl]
      simp only [hcond, if_true, utf8Lossy_ascii nm h7]
      rw [ih (splitSp nm) r hrest]
    · -- DELTA
      have hl' : (splitSp nm).length = prev.length := by omega
      rw [if_neg hl]
      simp only [List.append_assoc, List.cons_append, List.nil_append]
      rw [decContigs, splitNul_encodeSplit prev nm hn]
      have hne : prev.isEmpty = false := by
        cases prev with
        | nil => simp only [List.length_nil] at hl'; omega
        | cons a t => rfl
      have hlen : (splitSp (encodeSplit prev (splitSp nm))).length = prev.length := by
        rw [splitSp_encodeSplit prev nm hn hl', List.length_zipWith]; omega
      have hcond : (prev.isEmpty || decide ((splitSp (encodeSplit prev (splitSp nm))).length ≠ prev.length)) = false := by
        simp [hne, hlen]
      simp only [hcond, Bool.false_eq_true, if_false]
      rw [splitSp_encodeSplit prev nm hn hl', decodeSplit_encodeSplit prev nm hn hl']
      simp only
      rw [ih (splitSp nm) r hrest]

theorem decSamples_encSamples (samples : List (List Name)) : ∀ (avail : Nat) (r : List Nat),
    samples.length ≤ avail →
    (∀ s ∈ samples, s.length < 4294967296 ∧ ∀ nm ∈ s, NameOk nm) →
    decSamples samples.length avail (encSamples samples ++ r) = .ok samples := by
  induction samples with
  | nil => intro avail r _ _; simp [decSamples]
  | cons s ss ih =>
    intro avail r hav h
    have hs := h s (by simp)
    have hav0 : avail ≠ 0 := by simp only [List.length_cons] at hav; omega
    simp only [List.length_cons, encSamples, List.append_assoc]
    rw [decSamples, decode_encode s.length hs.1]
    simp only [if_neg hav0]
    rw [decContigs_encContigs s [] _ hs.2]
    simp only
    rw [ih (avail - 1) r (by simp only [List.length_cons] at hav; omega)
      (fun x hx => h x (by simp [hx]))]

theorem decodeNames_encodeNames (samples : List (List Name)) (avail : Nat)
    (hlen : samples.length < 4294967296) (hav : samples.length ≤ avail)
    (h : ∀ s ∈ samples, s.length < 4294967296 ∧ ∀ nm ∈ s, NameOk nm) :
    decodeNames avail (encodeNames samples) = .ok samples := by
  unfold decodeNames encodeNames
  rw [decode_encode samples.length hlen]
  simp only
  have := decSamples_encSamples samples avail [] hav h
  simpa using this

theorem decStrings_encStrings (names : List Name) : ∀ (r : List Nat),
    (∀ nm ∈ names, NameOk nm) → decStrings names.length (encStrings names ++ r) = some names := by
  induction names with
  | nil => intro r _; simp [decStrings]
  | cons nm rest ih =>
    intro r h
    simp only [List.length_cons, encStrings, List.append_assoc]
    rw [decStrings, decodeString_encodeString nm _ (h nm (by simp))]
    simp only
    rw [ih r (fun x hx => h x (by simp [hx]))]

theorem decodeSampleNames_encodeSampleNames (names : List Name) (hlen : names.length < 4294967296)
    (h : ∀ nm ∈ names, NameOk nm) : decodeSampleNames (encodeSampleNames names) = some names := by
  unfold decodeSampleNames encodeSampleNames
  rw [decode_encode names.length hlen]
  simp only
  have := decStrings_encStrings names [] h
  simpa using this

end Ragc.Names
