import RagcModel.Model.Cli
/-!
Helper lemmas for C17 (`Model/Cli.lean`): closed form of the extraction loop, the simulation
between the stdout run and the `-o` run, lookup in archives with distinct sample names.
-/
namespace Ragc.Cli

/-- What a single-sample extraction of `n` prints (`[]` for an unknown name). -/
def Archive.fasta (a : Archive) (n : Bytes) : Bytes :=
  match a.lookup n with
  | some s => sampleFasta s
  | none => []

/-- `n` names a sample of the archive. -/
def Archive.known (a : Archive) (n : Bytes) : Bool := (a.lookup n).isSome

/-- Exit class of the extraction loop when the temp file can be created: the first unknown name
decides. -/
def exitAfter (a : Archive) : List Bytes → Bool → Exit
  | [], _ => .ok
  | n :: rest, loaded =>
    match a.lookup n with
    | none => if loaded then missAfterHit else .err
    | some _ => exitAfter a rest true

theorem emit_temp (fs : Fs) (d : Dest) (b : Bytes) (t : File) :
    ({ fs with temp := t } : Fs).emit d b = { fs.emit d b with temp := t } := by
  cases d <;> rfl

theorem foldl_emit_temp (d : Dest) (l : List Bytes) (fs : Fs) (t : File) :
    ({ l.foldl (fun f b => f.emit d b) ({ fs with temp := t } : Fs) with temp := none } : Fs) =
    { l.foldl (fun f b => f.emit d b) fs with temp := none } := by
  induction l generalizing fs with
  | nil => rfl
  | cons b rest ih =>
    simp only [List.foldl_cons, emit_temp]
    exact ih (fs.emit d b)

/-- Closed form of the loop (temp directory writable): the samples before the first unknown name
are emitted, in order; the temp file is gone afterwards. -/
theorem extractLoop_closed (a : Archive) (d : Dest) (ns : List Bytes) (loaded : Bool) (fs : Fs) :
    extractLoop a true d ns loaded fs =
      (exitAfter a ns loaded,
       { ((ns.takeWhile a.known).map a.fasta).foldl (fun f b => f.emit d b) fs with temp := none }) := by
  induction ns generalizing loaded fs with
  | nil => rfl
  | cons n rest ih =>
    unfold extractLoop exitAfter
    cases hl : a.lookup n with
    | none =>
      have : a.known n = false := by simp [Archive.known, hl]
      simp [this]
    | some s =>
      have hk : a.known n = true := by simp [Archive.known, hl]
      have hf : a.fasta n = sampleFasta s := by simp [Archive.fasta, hl]
      simp only [Bool.not_true, Bool.false_eq_true, ↓reduceIte, List.takeWhile_cons, hk,
        List.map_cons, List.foldl_cons, hf]
      rw [ih]
      congr 1
      have : (File.create fs.temp).append (sampleFasta s) = some (sampleFasta s) := by
        simp [File.create, File.append]
      rw [this]
      simp only [Option.getD_some, emit_temp]
      exact foldl_emit_temp d _ (fs.emit d (sampleFasta s)) _

theorem foldl_emit_stdout (l : List Bytes) (fs : Fs) :
    l.foldl (fun f b => f.emit .stdout b) fs = { fs with stdout := fs.stdout ++ l.flatten } := by
  induction l generalizing fs with
  | nil => simp
  | cons b rest ih =>
    simp only [List.foldl_cons]
    rw [ih]
    simp [Fs.emit, List.append_assoc]

theorem foldl_emit_file (l : List Bytes) (fs : Fs) (o : Bytes) (h : fs.out = some o) :
    l.foldl (fun f b => f.emit .file b) fs = { fs with out := some (o ++ l.flatten) } := by
  induction l generalizing fs o with
  | nil => cases fs; simp_all
  | cons b rest ih =>
    simp only [List.foldl_cons]
    rw [ih (fs.emit .file b) (o ++ b) (by simp [Fs.emit, File.append, h])]
    simp [Fs.emit, List.append_assoc]

theorem takeWhile_all {α : Type} (p : α → Bool) (l : List α) (h : ∀ x ∈ l, p x = true) :
    l.takeWhile p = l := by
  induction l with
  | nil => rfl
  | cons x rest ih =>
    simp only [List.takeWhile_cons, h x (List.mem_cons_self ..), ↓reduceIte]
    rw [ih (fun y hy => h y (List.mem_cons_of_mem _ hy))]

theorem exitAfter_all (a : Archive) (ns : List Bytes) (loaded : Bool)
    (h : ∀ n ∈ ns, a.known n = true) : exitAfter a ns loaded = .ok := by
  induction ns generalizing loaded with
  | nil => rfl
  | cons n rest ih =>
    unfold exitAfter
    have hk := h n (List.mem_cons_self ..)
    simp only [Archive.known, Option.isSome_iff_exists] at hk
    obtain ⟨s, hs⟩ := hk
    rw [hs]
    exact ih true (fun y hy => h y (List.mem_cons_of_mem _ hy))

theorem exitAfter_unknown (a : Archive) (ns : List Bytes) (loaded : Bool)
    (h : ∃ n ∈ ns, a.known n = false) : exitAfter a ns loaded = .err := by
  induction ns generalizing loaded with
  | nil => obtain ⟨n, hn, _⟩ := h; cases hn
  | cons n rest ih =>
    unfold exitAfter
    cases hl : a.lookup n with
    | none => cases loaded <;> simp [missAfterHit]
    | some s =>
      apply ih
      obtain ⟨m, hm, hk⟩ := h
      rcases List.mem_cons.mp hm with rfl | hm'
      · simp [Archive.known, hl] at hk
      · exact ⟨m, hm', hk⟩

/-- The loop never exits with a usage error or a panic. -/
theorem extractLoop_exit (a : Archive) (tc : Bool) (d : Dest) (ns : List Bytes) (loaded : Bool)
    (fs : Fs) : (extractLoop a tc d ns loaded fs).1 = .ok ∨ (extractLoop a tc d ns loaded fs).1 = .err := by
  induction ns generalizing loaded fs with
  | nil => left; rfl
  | cons n rest ih =>
    unfold extractLoop
    cases a.lookup n with
    | none => right; cases loaded <;> simp [missAfterHit]
    | some s =>
      cases tc with
      | false => right; rfl
      | true => exact ih _ _

/-- Simulation: the stdout run and the `-o` run proceed in lock step; the `-o` file always holds
what the stdout run has printed. -/
theorem extractLoop_sim (a : Archive) (tc : Bool) (ns : List Bytes) (loaded : Bool) (f1 f2 : Fs)
    (hout : f2.out = some f1.stdout) (htemp : f1.temp = f2.temp) :
    (extractLoop a tc .stdout ns loaded f1).1 = (extractLoop a tc .file ns loaded f2).1 ∧
    (extractLoop a tc .file ns loaded f2).2.out = some (extractLoop a tc .stdout ns loaded f1).2.stdout ∧
    (extractLoop a tc .stdout ns loaded f1).2.temp = (extractLoop a tc .file ns loaded f2).2.temp ∧
    (extractLoop a tc .stdout ns loaded f1).2.out = f1.out ∧
    (extractLoop a tc .file ns loaded f2).2.stdout = f2.stdout := by
  induction ns generalizing loaded f1 f2 with
  | nil => exact ⟨rfl, hout, rfl, rfl, rfl⟩
  | cons n rest ih =>
    unfold extractLoop
    cases a.lookup n with
    | none => exact ⟨rfl, hout, rfl, rfl, rfl⟩
    | some s =>
      cases tc with
      | false => exact ⟨rfl, hout, rfl, rfl, rfl⟩
      | true =>
        simp only [Bool.not_true, Bool.false_eq_true, ↓reduceIte]
        have := ih true
          (({ f1 with temp := (File.create f1.temp).append (sampleFasta s) } : Fs).emit .stdout
            ((File.create f1.temp).append (sampleFasta s) |>.getD []))
          (({ f2 with temp := (File.create f2.temp).append (sampleFasta s) } : Fs).emit .file
            ((File.create f2.temp).append (sampleFasta s) |>.getD []))
          (by simp [Fs.emit, File.append, File.create, hout])
          (by simp [Fs.emit, File.create, File.append])
        exact this

/-! ### archives with distinct sample names -/

theorem lookup_of_mem (a : Archive) (h : (a.samples.map (·.name)).Nodup) (s : Sample)
    (hs : s ∈ a.samples) : a.lookup s.name = some s := by
  unfold Archive.lookup
  generalize a.samples = l at h hs
  induction l with
  | nil => cases hs
  | cons x rest ih =>
    simp only [List.map_cons, List.nodup_cons] at h
    by_cases hx : x.name = s.name
    · rcases List.mem_cons.mp hs with rfl | hr
      · simp
      · exact absurd (hx ▸ List.mem_map_of_mem (f := (·.name)) hr) h.1
    · rcases List.mem_cons.mp hs with rfl | hr
      · exact absurd rfl hx
      · rw [List.find?_cons_of_neg (by simpa using hx)]
        exact ih h.2 hr

theorem fasta_of_mem (a : Archive) (h : (a.samples.map (·.name)).Nodup) (s : Sample)
    (hs : s ∈ a.samples) : a.fasta s.name = sampleFasta s := by
  simp [Archive.fasta, lookup_of_mem a h s hs]

theorem known_of_mem (a : Archive) (s : Sample) (hs : s ∈ a.samples) : a.known s.name = true := by
  unfold Archive.known Archive.lookup
  rw [Option.isSome_iff_exists]
  cases hf : a.samples.find? (fun t => t.name == s.name) with
  | some t => exact ⟨t, rfl⟩
  | none =>
    have := List.find?_eq_none.mp hf s hs
    simp at this

theorem listSamplesWithPrefix_eq (a : Archive) (p : Bytes) :
    listSamplesWithPrefix a p = (a.samples.filter (fun s => p.isPrefixOf s.name)).map (·.name) := by
  unfold listSamplesWithPrefix
  rw [List.filter_map]
  rfl

/-! ### the old loops -/

theorem oldFileLoop_known (a : Archive) (ns : List Bytes) (loaded : Bool) (fs : Fs)
    (h : ∀ n ∈ ns, a.known n = true) :
    oldFileLoop a ns loaded fs =
      (.ok, { fs with out := match ns.getLast? with
                              | some n => some (a.fasta n)
                              | none => fs.out }) := by
  induction ns generalizing loaded fs with
  | nil => rfl
  | cons n rest ih =>
    unfold oldFileLoop
    have hk := h n (List.mem_cons_self ..)
    simp only [Archive.known, Option.isSome_iff_exists] at hk
    obtain ⟨s, hs⟩ := hk
    rw [hs]
    dsimp only
    rw [ih true _ (fun y hy => h y (List.mem_cons_of_mem _ hy))]
    cases rest with
    | nil => simp [Archive.fasta, hs, File.create, File.append]
    | cons m rest' =>
      rw [List.getLast?_cons_cons]
      cases hgl : (m :: rest').getLast? with
      | none => simp at hgl
      | some x => rfl

theorem oldStdoutLoop_known (a : Archive) (ns : List Bytes) (loaded : Bool) (fs : Fs)
    (h : ∀ n ∈ ns, a.known n = true) :
    oldStdoutLoop a ns loaded fs =
      (.ok, { fs with stdout := fs.stdout ++ (match ns.getLast? with
                                               | some n => a.fasta n
                                               | none => fs.temp.getD []),
                      temp := none }) := by
  induction ns generalizing loaded fs with
  | nil => rfl
  | cons n rest ih =>
    unfold oldStdoutLoop
    have hk := h n (List.mem_cons_self ..)
    simp only [Archive.known, Option.isSome_iff_exists] at hk
    obtain ⟨s, hs⟩ := hk
    rw [hs]
    dsimp only
    rw [ih true _ (fun y hy => h y (List.mem_cons_of_mem _ hy))]
    cases rest with
    | nil => simp [Archive.fasta, hs, File.create, File.append]
    | cons m rest' =>
      rw [List.getLast?_cons_cons]
      cases hgl : (m :: rest').getLast? with
      | none => simp at hgl
      | some x => rfl

/-! ### `create` dispatch -/

/-- What a command line that reaches the streaming mode looks like. -/
theorem dispatch_streaming {c : CreateArgs} {s : Bool} {n : Nat}
    (h : createDispatch c = .streaming s n) :
    c.outputGiven = true ∧ c.nInputs ≠ 0 ∧ c.threads ≠ some 0 ∧ c.cppAgc = false ∧
    c.batch = false ∧ c.adaptive = false ∧ c.concatenated = false ∧
    parseCapacity c.queueCapacity = some n ∧ s = (c.nInputs == 1) := by
  unfold createDispatch at h
  split at h
  · cases h
  rename_i h1
  split at h
  · cases h
  rename_i h2
  split at h
  · cases h
  rename_i h3
  split at h
  · cases h
  rename_i h4
  split at h
  · cases h
  rename_i h5
  split at h
  · rename_i h6
    split at h
    · cases h
    rename_i h7
    split at h
    · cases h
    · rename_i n' hp
      simp only [Dispatch.streaming.injEq] at h
      obtain ⟨rfl, rfl⟩ := h
      simp only [Bool.or_eq_true, Bool.not_eq_eq_eq_not, Bool.not_true, beq_iff_eq, not_or,
        Bool.not_eq_false, Bool.not_eq_true] at h1 h6 h7
      refine ⟨h1.1, h1.2, ?_, ?_, h6, h7.1, h7.2, hp, rfl⟩
      · intro ht; rw [ht] at h2; simp at h2
      · cases hc : c.cppAgc
        · rfl
        · rw [hc] at h4 h5; simp at h4 h5
  · cases h

/-- The FFI path needs both the flag and the build feature. -/
theorem dispatch_cppFfi {c : CreateArgs} (h : createDispatch c = .cppFfi) :
    c.cppAgc = true ∧ c.cppFeature = true := by
  unfold createDispatch at h
  split at h
  · cases h
  split at h
  · cases h
  split at h
  · cases h
  split at h
  · rename_i h4; simpa using h4
  split at h
  · cases h
  split at h
  · split at h
    · cases h
    split at h <;> cases h
  · cases h

end Ragc.Cli
