import RagcModel.Lemmas.WriterGroups
import RagcModel.Lemmas.Roundtrip
import RagcModel.Lemmas.Range
/-!
Helper lemmas for `read_write` (C01/C02), part 2: pieces of a contig (`cutPieces` is a tiling),
and the decoder's `decodeContig` on descriptors that address the stored pieces.
-/
namespace Ragc.WriterLemmas
open Ragc.Agc3 Ragc.Writer Ragc.Segment Ragc.Range

/-! ## the pieces tile the contig -/

theorem cutPieces_length (k : Nat) : ∀ (lens : List Nat) (rest : List Nat),
    (cutPieces k rest lens).length = lens.length := by
  intro lens
  induction lens with
  | nil => intro _; rfl
  | cons l ls ih => intro rest; simp [cutPieces, ih]

theorem tilesFrom_of_check (k : Nat) (c : List Nat) :
    ∀ (lens : List Nat) (e : Nat), tilesFromB k c.length e lens = true →
      TilesFrom k c e (cutPieces k (c.drop (e - k)) lens) := by
  intro lens
  induction lens with
  | nil =>
    intro e h
    simp only [tilesFromB, beq_iff_eq] at h
    simpa [cutPieces, TilesFrom] using h
  | cons l ls ih =>
    intro e h
    simp only [tilesFromB, Bool.and_eq_true, decide_eq_true_eq] at h
    obtain ⟨⟨⟨hke, hkl⟩, hle⟩, hrest⟩ := h
    have hlen : ((c.drop (e - k)).take l).length = l := by
      simp only [List.length_take, List.length_drop]; omega
    simp only [cutPieces, TilesFrom]
    rw [hlen]
    refine ⟨hke, hkl, hle, rfl, ?_⟩
    have := ih (e - k + l) hrest
    have e1 : (c.drop (e - k)).drop (l - k) = c.drop (e - k + l - k) := by
      rw [List.drop_drop]; congr 1; omega
    rw [e1]; exact this

/-- The lengths checked by `tilesB` cut the contig into a `k`-overlapping tiling. -/
theorem tiles_of_check (k : Nat) (c : List Nat) (lens : List Nat) (h : tilesB k c.length lens = true) :
    Tiles k c (cutPieces k c lens) := by
  cases lens with
  | nil => simp [tilesB] at h
  | cons l ls =>
    simp only [tilesB, Bool.and_eq_true, decide_eq_true_eq] at h
    obtain ⟨hl, hrest⟩ := h
    have hlen : (c.take l).length = l := by simp only [List.length_take]; omega
    simp only [cutPieces, Tiles]
    rw [hlen]
    refine ⟨hl, rfl, ?_⟩
    exact tilesFrom_of_check k c ls l hrest

theorem tiles_later_ge (k : Nat) (c : List Nat) (ps : List (List Nat)) (ht : Tiles k c ps) :
    ∀ j (hp : j < ps.length), 0 < j → k ≤ ps[j].length := by
  cases ps with
  | nil => intro j hp; simp at hp
  | cons p ps =>
    intro j hp hj
    cases j with
    | zero => omega
    | succ j =>
      simp only [List.getElem_cons_succ]
      exact tilesFrom_later_ge k _ ps _ ht.2.2 _ (List.getElem_mem _)

/-- `reconstruct_contig` returns `full` whenever no later segment is shorter than `k` (the statement
of `Props.C07.reconstruct_eq_full`, proved here from `Lemmas/Range.lean` so that the writer lemmas
do not import `Props/C07.lean` — which imports them, through `Lemmas/ReaderLink.lean`). -/
theorem reconstruct_full (k : Nat) (segs : List Range.Seg)
    (h : ∀ s ∈ segs.tail, k ≤ s.data.length) : reconstruct k segs = some (full k segs) := by
  cases segs with
  | nil => rfl
  | cons s rest =>
    simp only [List.tail_cons] at h
    simp only [reconstruct, full]
    exact reconstructTail_eq k rest s.data h

theorem orient_eq (f : Bool) (d : List Nat) : Writer.orient f d = Ragc.Roundtrip.orient f d := rfl

/-! ## `decodeContig` -/

theorem contigFold_ok (k mm : Nat) (gds : Array GroupD) (whatC : String) :
    ∀ (ds : List Ragc.Details.Seg) (ps : List (List Nat)) (i0 : Nat) (out : Array Range.Seg) (a : Acc),
      ds.length = ps.length →
      (∀ j (hj : j < ds.length) (hp : j < ps.length),
        getSegment mm gds ds[j] = .ok (Writer.orient ds[j].rev ps[j]) ∧ ds[j].rawLen = ps[j].length ∧
          (0 < i0 + j → k ≤ ps[j].length)) →
      (List.zipIdx ds i0).foldl (contigStep k mm gds whatC) (a, out)
        = (a, out ++ (ps.map fun d => (⟨d.length, d⟩ : Range.Seg)).toArray) := by
  intro ds
  induction ds with
  | nil =>
    intro ps i0 out a hl _
    have : ps = [] := List.eq_nil_of_length_eq_zero hl.symm
    subst this
    simp
  | cons d ds ih =>
    intro ps i0 out a hl h
    cases ps with
    | nil => simp at hl
    | cons p ps =>
      obtain ⟨hg, hr, hk⟩ := h 0 (by simp) (by simp)
      simp only [List.getElem_cons_zero, Nat.add_zero] at hg hr hk
      simp only [List.zipIdx_cons, List.foldl_cons]
      have hstep : contigStep k mm gds whatC (a, out) (d, i0) = (a, out.push ⟨p.length, p⟩) := by
        unfold contigStep
        simp only [hg]
        have hlen : (Writer.orient d.rev p).length = p.length := by
          rw [orient_eq]; exact Ragc.Roundtrip.orient_length _ _
        have c1 : (Writer.orient d.rev p).length = d.rawLen := by rw [hlen, hr]
        have c2 : ¬ (i0 > 0 ∧ (Writer.orient d.rev p).length < k) := by
          rw [hlen]; intro hc; have := hk hc.1; omega
        rw [if_pos c1, if_neg c2]
        have hback : (if d.rev then reverseComplementSegment (Writer.orient d.rev p) else Writer.orient d.rev p) = p := by
          have := Ragc.Roundtrip.orient_involutive d.rev p
          unfold Ragc.Roundtrip.orient at this
          unfold Writer.orient
          exact this
        rw [hback, hr]
      rw [hstep]
      rw [ih ps (i0 + 1) _ a (by simpa using hl) (by
        intro j hj hp
        have := h (j + 1) (by simp; omega) (by simp; omega)
        simp only [List.getElem_cons_succ] at this
        have e : i0 + 1 + j = i0 + (j + 1) := by omega
        rw [e]; exact this)]
      simp

/-- **One contig comes back.** If every descriptor addresses the stored form of the corresponding
piece of a tiling of the contig, `decodeContig` returns the contig and reports nothing. -/
theorem decodeContig_ok (k mm : Nat) (gds : Array GroupD) (sample name : List Nat) (a : Acc)
    (descs : List Ragc.Details.Seg) (pieces : List (List Nat)) (c : List Nat)
    (hl : descs.length = pieces.length)
    (hseg : ∀ j (hj : j < descs.length) (hp : j < pieces.length),
      getSegment mm gds descs[j] = .ok (Writer.orient descs[j].rev pieces[j]) ∧
        descs[j].rawLen = pieces[j].length)
    (ht : Tiles k c pieces) :
    decodeContig k mm gds sample a (name, descs) = (a, ⟨name, descs, c⟩) := by
  unfold decodeContig
  simp only []
  have hlater := tiles_later_ge k c pieces ht
  rw [contigFold_ok k mm gds _ descs pieces 0 #[] a hl (by
    intro j hj hp
    obtain ⟨h1, h2⟩ := hseg j hj hp
    exact ⟨h1, h2, fun h => hlater j hp (by omega)⟩)]
  simp only [List.nil_append, Array.toList_append, Array.toList_empty, List.nil_append]
  have hl2 : ∀ s ∈ (pieces.map fun d => (⟨d.length, d⟩ : Range.Seg)).tail, k ≤ s.data.length := by
    cases hpz : pieces with
    | nil => intro s hs; simp at hs
    | cons p ps =>
      rw [hpz] at ht
      intro s hs
      simp only [List.map_cons, List.tail_cons, List.mem_map] at hs
      obtain ⟨d, hd, rfl⟩ := hs
      exact tilesFrom_later_ge k _ ps _ ht.2.2 d hd
  have : reconstruct k (pieces.map fun d => (⟨d.length, d⟩ : Range.Seg)) = some c := by
    rw [reconstruct_full k _ hl2, Ragc.Roundtrip.full_eq_reassemble,
      reassemble_of_tiles k _ _ ht]
  simp only [Array.empty_append, List.toList_toArray, this]

end Ragc.WriterLemmas
