import RagcModel.Model.Queue
/-!
Helper lemmas for C06 (bounded priority queue): induction over runs, counting threads by status,
and the inductive invariants behind the theorems of `Props/C06.lean`.
-/
namespace Ragc.Queue

/-! ### runs -/

theorem run_cons (cap : Nat) (s : State) (e : Event) (es : List Event) :
    run cap s (e :: es) = (step cap s e).bind (fun s' => run cap s' es) := by
  simp only [run]; cases step cap s e <;> rfl

theorem run_append (cap : Nat) (s : State) (es fs : List Event) :
    run cap s (es ++ fs) = (run cap s es).bind (fun s' => run cap s' fs) := by
  induction es generalizing s with
  | nil => rfl
  | cons e es ih =>
    simp only [List.cons_append, run]
    cases step cap s e with
    | none => rfl
    | some s' => exact ih s'

/-- Invariant rule: `P` holds initially and is preserved by every enabled event whose label
satisfies `Q`; then it holds after every run all of whose events satisfy `Q`. -/
theorem run_invariant {cap : Nat} {P : State → Prop} {Q : Event → Prop}
    (hstep : ∀ s e s', P s → Q e → step cap s e = some s' → P s') :
    ∀ (evs : List Event) (s0 s : State), P s0 → (∀ e ∈ evs, Q e) → run cap s0 evs = some s → P s := by
  intro evs
  induction evs with
  | nil => intro s0 s h0 _ hr; simp only [run, Option.some.injEq] at hr; exact hr ▸ h0
  | cons e es ih =>
    intro s0 s h0 hq hr
    simp only [run] at hr
    cases hs : step cap s0 e with
    | none => simp [hs] at hr
    | some s1 =>
      simp only [hs] at hr
      exact ih s1 s (hstep s0 e s1 h0 (hq e (List.mem_cons_self)) hs)
        (fun e' he' => hq e' (List.mem_cons_of_mem _ he')) hr

theorem run_invariant' {cap : Nat} {P : State → Prop}
    (hstep : ∀ s e s', P s → step cap s e = some s' → P s') :
    ∀ (evs : List Event) (s0 s : State), P s0 → run cap s0 evs = some s → P s :=
  fun evs s0 s h0 hr =>
    run_invariant (Q := fun _ => True) (fun s e s' hp _ hs => hstep s e s' hp hs) evs s0 s h0
      (fun _ _ => trivial) hr

/-! ### counting threads -/

theorem countP_set_of_get {α} (p : α → Bool) {l : List α} {t : Nat} {a : α} (b : α)
    (h : l[t]? = some a) :
    (l.set t b).countP p + (p a).toNat = l.countP p + (p b).toNat := by
  induction l generalizing t with
  | nil => simp at h
  | cons x xs ih =>
    cases t with
    | zero =>
      simp only [List.getElem?_cons_zero, Option.some.injEq] at h
      subst h
      simp only [List.set_cons_zero, List.countP_cons]
      cases p x <;> cases p b <;> simp <;> omega
    | succ t =>
      simp only [List.getElem?_cons_succ] at h
      have := ih h
      simp only [List.set_cons_succ, List.countP_cons]
      omega

theorem countP_pos_of_get {α} (p : α → Bool) {l : List α} {t : Nat} {a : α}
    (h : l[t]? = some a) (hp : p a = true) : 0 < l.countP p :=
  List.countP_pos_iff.mpr ⟨a, List.mem_of_getElem? h, hp⟩

theorem countP_zero_of_all {α} (p : α → Bool) {l : List α}
    (h : l.all (fun x => !p x) = true) : l.countP p = 0 := by
  rw [List.countP_eq_zero]
  intro a ha
  have := List.all_eq_true.mp h a ha
  simpa using this

theorem countP_wakeAll_waitNF (l : List TStatus) :
    (l.map wakeAll).countP TStatus.isWaitNF = 0 := by
  rw [List.countP_eq_zero]
  intro a ha
  obtain ⟨b, _, rfl⟩ := List.mem_map.mp ha
  cases b <;> simp [wakeAll, TStatus.isWaitNF]

theorem countP_wakeAll_waitNE (l : List TStatus) :
    (l.map wakeAll).countP TStatus.isWaitNE = 0 := by
  rw [List.countP_eq_zero]
  intro a ha
  obtain ⟨b, _, rfl⟩ := List.mem_map.mp ha
  cases b <;> simp [wakeAll, TStatus.isWaitNE]

/-! ### sizes and maxima -/

theorem sizeSum_perm {l₁ l₂ : List Item} (h : l₁.Perm l₂) : sizeSum l₁ = sizeSum l₂ := by
  induction h with
  | nil => rfl
  | cons x _ ih => simp only [sizeSum, ih]
  | swap x y l => simp only [sizeSum]; omega
  | trans _ _ ih1 ih2 => exact ih1.trans ih2

theorem sizeSum_erase {l : List Item} {x : Item} (h : x ∈ l) :
    sizeSum (l.erase x) + x.size = sizeSum l := by
  have := sizeSum_perm (List.perm_cons_erase h)
  simp only [sizeSum] at this
  omega

theorem sizeSum_pos_ne_nil {l : List Item} (h : 0 < sizeSum l) : l ≠ [] := by
  intro hl; subst hl; simp [sizeSum] at h

theorem isMax_iff {items : List Item} {it : Item} :
    isMax items it = true ↔ it ∈ items ∧ ∀ y ∈ items, y.prio ≤ it.prio := by
  simp [isMax, List.all_eq_true]

/-- a non-empty queue has a maximal element (`BinaryHeap::pop` returns `Some`) -/
theorem exists_isMax : ∀ {items : List Item}, items ≠ [] → ∃ it, isMax items it = true
  | [], h => absurd rfl h
  | [x], _ => ⟨x, by simp [isMax]⟩
  | x :: y :: r, _ => by
    obtain ⟨m, hm⟩ := exists_isMax (items := y :: r) (by simp)
    rw [isMax_iff] at hm
    by_cases hx : m.prio ≤ x.prio
    · refine ⟨x, isMax_iff.mpr ⟨by simp, ?_⟩⟩
      intro z hz
      rcases List.mem_cons.mp hz with rfl | hz
      · exact Nat.le_refl _
      · exact Nat.le_trans (hm.2 z hz) hx
    · refine ⟨m, isMax_iff.mpr ⟨List.mem_cons_of_mem _ hm.1, ?_⟩⟩
      intro z hz
      rcases List.mem_cons.mp hz with rfl | hz
      · omega
      · exact hm.2 z hz

/-! ### the transition relation -/

open TStatus

inductive NotifNE : State → Option Nat → State → Prop
  | some {s : State} {u : Nat} : s.thr[u]? = some .waitNE → NotifNE s (some u) (s.setT u .notifNE)
  | none {s : State} : s.thr.countP isWaitNE = 0 → NotifNE s none s

inductive NotifNF : State → Option Nat → State → Prop
  | some {s : State} {u : Nat} {it : Item} :
      s.thr[u]? = some (.waitNF it) → NotifNF s (some u) (s.setT u (.notifNF it))
  | none {s : State} : s.thr.countP isWaitNF = 0 → NotifNF s none s

theorem notifyNE_sound {s s' : State} {w} (h : notifyNE s w = some s') : NotifNE s w s' := by
  cases w with
  | none =>
    simp only [notifyNE] at h
    split at h
    · next hc => simp only [Option.some.injEq] at h; subst h; exact .none (countP_zero_of_all _ hc)
    · simp at h
  | some u =>
    simp only [notifyNE] at h
    split at h
    · next hc => simp only [Option.some.injEq] at h; subst h; exact .some hc
    · simp at h

theorem notifyNF_sound {s s' : State} {w} (h : notifyNF s w = some s') : NotifNF s w s' := by
  cases w with
  | none =>
    simp only [notifyNF] at h
    split at h
    · next hc => simp only [Option.some.injEq] at h; subst h; exact .none (countP_zero_of_all _ hc)
    · simp at h
  | some u =>
    simp only [notifyNF] at h
    split at h
    · next hc => simp only [Option.some.injEq] at h; subst h; exact .some hc
    · simp at h

/-- The transition relation, one constructor per way an event can be enabled. -/
inductive Step (cap : Nat) : State → Event → State → Prop
  | pushEnter {s : State} {t : Nat} {it : Item} : s.thr[t]? = some .idle →
      Step cap s (.pushEnter t it) (s.setT t (.pushing it))
  | pushWait {s : State} {t : Nat} {it : Item} : s.thr[t]? = some (.pushing it) →
      s.cur + it.size > cap → s.items ≠ [] → s.closed = false →
      Step cap s (.pushWait t) (s.setT t (.waitNF it))
  | pushWake {s : State} {t : Nat} {it : Item} : s.thr[t]? = some (.notifNF it) →
      Step cap s (.pushWake t) (s.setT t (.pushing it))
  | pushSpur {s : State} {t : Nat} {it : Item} : s.thr[t]? = some (.waitNF it) →
      Step cap s (.pushSpur t) (s.setT t (.pushing it))
  | pushRefuse {s : State} {t : Nat} {it : Item} : s.thr[t]? = some (.pushing it) →
      s.closed = true → Step cap s (.pushRefuse t) ((s.setT t .idle).log (.refuse t it))
  | pushAdmit {s s' : State} {t : Nat} {it : Item} {w : Option Nat} :
      s.thr[t]? = some (.pushing it) → (s.cur + it.size ≤ cap ∨ s.items = []) → s.closed = false →
      NotifNE ((s.setT t .idle).enq t it) w s' → Step cap s (.pushAdmit t w) s'
  | tryPushRefuse {s : State} {t : Nat} {it : Item} : s.thr[t]? = some .idle → s.closed = true →
      Step cap s (.tryPushRefuse t it) (s.log (.refuse t it))
  | tryPushWouldBlock {s : State} {t : Nat} {it : Item} : s.thr[t]? = some .idle →
      s.closed = false → s.cur + it.size > cap → s.items ≠ [] →
      Step cap s (.tryPushWouldBlock t it) (s.log (.wouldBlock t it))
  | tryPushAdmit {s s' : State} {t : Nat} {it : Item} {w : Option Nat} : s.thr[t]? = some .idle →
      s.closed = false → (s.cur + it.size ≤ cap ∨ s.items = []) → NotifNE (s.enq t it) w s' →
      Step cap s (.tryPushAdmit t it w) s'
  | pullEnter {s : State} {t : Nat} : s.thr[t]? = some .idle →
      Step cap s (.pullEnter t) (s.setT t .pulling)
  | pullWait {s : State} {t : Nat} : s.thr[t]? = some .pulling → s.items = [] →
      s.closed = false → Step cap s (.pullWait t) (s.setT t .waitNE)
  | pullWake {s : State} {t : Nat} : s.thr[t]? = some .notifNE →
      Step cap s (.pullWake t) (s.setT t .pulling)
  | pullSpur {s : State} {t : Nat} : s.thr[t]? = some .waitNE →
      Step cap s (.pullSpur t) (s.setT t .pulling)
  | pullEos {s : State} {t : Nat} : s.thr[t]? = some .pulling → s.items = [] →
      s.closed = true → Step cap s (.pullEos t) ((s.setT t .idle).log (.eos t))
  | pullTake {s s' : State} {t : Nat} {it : Item} {w : Option Nat} :
      s.thr[t]? = some .pulling → it ∈ s.items → (∀ y ∈ s.items, y.prio ≤ it.prio) →
      NotifNF ((s.setT t .idle).take t it) w s' → Step cap s (.pullTake t it w) s'
  | tryPullEmpty {s : State} {t : Nat} : s.thr[t]? = some .idle → s.items = [] →
      Step cap s (.tryPullEmpty t) (s.log (.empty t))
  | tryPullTake {s s' : State} {t : Nat} {it : Item} {w : Option Nat} :
      s.thr[t]? = some .idle → it ∈ s.items → (∀ y ∈ s.items, y.prio ≤ it.prio) →
      NotifNF (s.take t it) w s' → Step cap s (.tryPullTake t it w) s'
  | close {s : State} {t : Nat} : s.thr[t]? = some .idle →
      Step cap s (.close t)
        { s with closed := true, thr := s.thr.map wakeAll, hist := .close t :: s.hist }

theorem step_sound {cap : Nat} {s s' : State} {e : Event} (h : step cap s e = some s') :
    Step cap s e s' := by
  cases e <;> simp only [step] at h
  case pushEnter t it =>
    split at h
    · next hc => simp only [Option.some.injEq] at h; subst h; exact .pushEnter hc
    · simp at h
  case pushWait t =>
    split at h
    · next it ht =>
      split at h
      · next hc => simp only [Option.some.injEq] at h; subst h; exact .pushWait ht hc.1 hc.2.1 hc.2.2
      · simp at h
    · simp at h
  case pushWake t =>
    split at h
    · next it ht => simp only [Option.some.injEq] at h; subst h; exact .pushWake ht
    · simp at h
  case pushSpur t =>
    split at h
    · next it ht => simp only [Option.some.injEq] at h; subst h; exact .pushSpur ht
    · simp at h
  case pushRefuse t =>
    split at h
    · next it ht =>
      split at h
      · next hc => simp only [Option.some.injEq] at h; subst h; exact .pushRefuse ht hc
      · simp at h
    · simp at h
  case pushAdmit t w =>
    split at h
    · next it ht =>
      split at h
      · next hc => exact .pushAdmit ht hc.1 hc.2 (notifyNE_sound h)
      · simp at h
    · simp at h
  case tryPushRefuse t it =>
    split at h
    · next hc => simp only [Option.some.injEq] at h; subst h; exact .tryPushRefuse hc.1 hc.2
    · simp at h
  case tryPushWouldBlock t it =>
    split at h
    · next hc => simp only [Option.some.injEq] at h; subst h; exact .tryPushWouldBlock hc.1 hc.2.1 hc.2.2.1 hc.2.2.2
    · simp at h
  case tryPushAdmit t it w =>
    split at h
    · next hc => exact .tryPushAdmit hc.1 hc.2.1 hc.2.2 (notifyNE_sound h)
    · simp at h
  case pullEnter t =>
    split at h
    · next hc => simp only [Option.some.injEq] at h; subst h; exact .pullEnter hc
    · simp at h
  case pullWait t =>
    split at h
    · next hc => simp only [Option.some.injEq] at h; subst h; exact .pullWait hc.1 hc.2.1 hc.2.2
    · simp at h
  case pullWake t =>
    split at h
    · next hc => simp only [Option.some.injEq] at h; subst h; exact .pullWake hc
    · simp at h
  case pullSpur t =>
    split at h
    · next hc => simp only [Option.some.injEq] at h; subst h; exact .pullSpur hc
    · simp at h
  case pullEos t =>
    split at h
    · next hc => simp only [Option.some.injEq] at h; subst h; exact .pullEos hc.1 hc.2.1 hc.2.2
    · simp at h
  case pullTake t it w =>
    split at h
    · next hc =>
      have hm := isMax_iff.mp hc.2
      exact .pullTake hc.1 hm.1 hm.2 (notifyNF_sound h)
    · simp at h
  case tryPullEmpty t =>
    split at h
    · next hc => simp only [Option.some.injEq] at h; subst h; exact .tryPullEmpty hc.1 hc.2
    · simp at h
  case tryPullTake t it w =>
    split at h
    · next hc =>
      have hm := isMax_iff.mp hc.2
      exact .tryPullTake hc.1 hm.1 hm.2 (notifyNF_sound h)
    · simp at h
  case close t =>
    split at h
    · next hc => simp only [Option.some.injEq] at h; subst h; exact .close hc
    · simp at h

/-! ### data and history invariant -/

/-- what each linearisation event asserts about the history before it -/
def HistOK (cap : Nat) : List HEv → Prop
  | [] => True
  | .accept _ x :: h =>
    closedIn h = false ∧ (sizeSum (queuedOf h) + x.size ≤ cap ∨ queuedOf h = []) ∧ HistOK cap h
  | .take _ x :: h => (x ∈ queuedOf h ∧ ∀ y ∈ queuedOf h, y.prio ≤ x.prio) ∧ HistOK cap h
  | .refuse _ _ :: h => closedIn h = true ∧ HistOK cap h
  | .wouldBlock _ x :: h =>
    closedIn h = false ∧ sizeSum (queuedOf h) + x.size > cap ∧ queuedOf h ≠ [] ∧ HistOK cap h
  | .eos _ :: h => closedIn h = true ∧ queuedOf h = [] ∧ HistOK cap h
  | .empty _ :: h => queuedOf h = [] ∧ HistOK cap h
  | .close _ :: h => HistOK cap h

structure InvA (cap : Nat) (s : State) : Prop where
  cur_eq : s.cur = sizeSum s.items
  /-- within capacity, or exactly one item is queued (it was admitted into the empty queue) -/
  bound : s.cur ≤ cap ∨ ∃ x, s.items = [x]
  perm : (queuedOf s.hist).Perm s.items
  closed_eq : s.closed = closedIn s.hist
  hist : HistOK cap s.hist

theorem InvA_init (cap n : Nat) : InvA cap (init n) :=
  ⟨rfl, .inl (Nat.zero_le _), List.Perm.refl _, rfl, trivial⟩

theorem InvA_setT {cap : Nat} {s : State} (t : Nat) (st : TStatus) (h : InvA cap s) :
    InvA cap (s.setT t st) := ⟨h.1, h.2, h.3, h.4, h.5⟩

theorem InvA_notifNE {cap : Nat} {s s' : State} {w} (hn : NotifNE s w s') (h : InvA cap s) :
    InvA cap s' := by
  cases hn with
  | some _ => exact InvA_setT _ _ h
  | none _ => exact h

theorem InvA_notifNF {cap : Nat} {s s' : State} {w} (hn : NotifNF s w s') (h : InvA cap s) :
    InvA cap s' := by
  cases hn with
  | some _ => exact InvA_setT _ _ h
  | none _ => exact h

theorem InvA_admit {cap : Nat} {s : State} (t : Nat) (it : Item) (h : InvA cap s)
    (hfit : s.cur + it.size ≤ cap ∨ s.items = []) (hc : s.closed = false) :
    InvA cap (s.enq t it) := by
  refine ⟨?_, ?_, ?_, ?_, ?_⟩
  · simp only [State.enq, sizeSum, h.cur_eq]; omega
  · rcases hfit with hfit | he
    · exact .inl hfit
    · exact .inr ⟨it, by simp only [State.enq, he]⟩
  · simp only [State.enq, queuedOf]; exact h.perm.cons it
  · simp only [State.enq, closedIn, List.any_cons, HEv.isClose, Bool.false_or]
    exact h.closed_eq
  · simp only [State.enq, HistOK]
    refine ⟨by rw [← h.closed_eq]; exact hc, ?_, h.hist⟩
    rcases hfit with hfit | he
    · left; rw [sizeSum_perm h.perm, ← h.cur_eq]; exact hfit
    · right; exact List.Perm.eq_nil (he ▸ h.perm)

theorem InvA_take {cap : Nat} {s : State} (t : Nat) (it : Item) (h : InvA cap s)
    (hmem : it ∈ s.items) (hmax : ∀ y ∈ s.items, y.prio ≤ it.prio) : InvA cap (s.take t it) := by
  have hs := sizeSum_erase hmem
  refine ⟨?_, ?_, ?_, ?_, ?_⟩
  · simp only [State.take]; have := h.cur_eq; omega
  · simp only [State.take]
    rcases h.bound with hb | ⟨x, hx⟩
    · left; omega
    · left
      have hcur := h.cur_eq
      rw [hx] at hmem hcur
      have : it = x := by simpa using hmem
      subst this
      simp only [sizeSum] at hcur
      omega
  · simp only [State.take, queuedOf]; exact h.perm.erase it
  · simp only [State.take, closedIn, List.any_cons, HEv.isClose, Bool.false_or]
    exact h.closed_eq
  · simp only [State.take, HistOK]
    exact ⟨⟨h.perm.mem_iff.mpr hmem, fun y hy => hmax y (h.perm.mem_iff.mp hy)⟩, h.hist⟩

theorem InvA_step {cap : Nat} (s : State) (e : Event) (s' : State) (hi : InvA cap s)
    (hs : step cap s e = some s') : InvA cap s' := by
  have hempty : s.items = [] → queuedOf s.hist = [] := fun h =>
    List.Perm.eq_nil (h ▸ hi.perm)
  have hsum : sizeSum (queuedOf s.hist) = s.cur := by rw [sizeSum_perm hi.perm, hi.cur_eq]
  cases step_sound hs with
  | pushEnter ht => exact InvA_setT _ _ hi
  | pushWait ht _ _ _ => exact InvA_setT _ _ hi
  | pushWake ht => exact InvA_setT _ _ hi
  | pushSpur ht => exact InvA_setT _ _ hi
  | pushRefuse ht hc =>
    refine ⟨hi.1, hi.2, hi.3, ?_, ?_⟩
    · simp only [State.log, State.setT, closedIn, List.any_cons, HEv.isClose, Bool.false_or]
      exact hi.closed_eq
    · simp only [State.log, State.setT, HistOK]; exact ⟨hi.closed_eq ▸ hc, hi.hist⟩
  | pushAdmit ht hfit hc hn =>
    exact InvA_notifNE hn (InvA_admit _ _ (InvA_setT _ _ hi) hfit hc)
  | tryPushRefuse ht hc =>
    refine ⟨hi.1, hi.2, hi.3, ?_, ?_⟩
    · simp only [State.log, closedIn, List.any_cons, HEv.isClose, Bool.false_or]
      exact hi.closed_eq
    · simp only [State.log, HistOK]; exact ⟨hi.closed_eq ▸ hc, hi.hist⟩
  | tryPushWouldBlock ht hc hfull hne =>
    refine ⟨hi.1, hi.2, hi.3, ?_, ?_⟩
    · simp only [State.log, closedIn, List.any_cons, HEv.isClose, Bool.false_or]
      exact hi.closed_eq
    · simp only [State.log, HistOK]
      refine ⟨hi.closed_eq ▸ hc, by rw [hsum]; exact hfull, fun hq => hne ?_, hi.hist⟩
      exact List.Perm.eq_nil (hq ▸ hi.perm.symm)
  | tryPushAdmit ht hc hfit hn => exact InvA_notifNE hn (InvA_admit _ _ hi hfit hc)
  | pullEnter ht => exact InvA_setT _ _ hi
  | pullWait ht _ _ => exact InvA_setT _ _ hi
  | pullWake ht => exact InvA_setT _ _ hi
  | pullSpur ht => exact InvA_setT _ _ hi
  | pullEos ht he hc =>
    refine ⟨hi.1, hi.2, hi.3, ?_, ?_⟩
    · simp only [State.log, State.setT, closedIn, List.any_cons, HEv.isClose, Bool.false_or]
      exact hi.closed_eq
    · simp only [State.log, State.setT, HistOK]; exact ⟨hi.closed_eq ▸ hc, hempty he, hi.hist⟩
  | pullTake ht hm hmax hn =>
    exact InvA_notifNF hn (InvA_take _ _ (InvA_setT _ _ hi) hm hmax)
  | tryPullEmpty ht he =>
    refine ⟨hi.1, hi.2, hi.3, ?_, ?_⟩
    · simp only [State.log, closedIn, List.any_cons, HEv.isClose, Bool.false_or]
      exact hi.closed_eq
    · simp only [State.log, HistOK]; exact ⟨hempty he, hi.hist⟩
  | tryPullTake ht hm hmax hn => exact InvA_notifNF hn (InvA_take _ _ hi hm hmax)
  | close ht =>
    refine ⟨hi.1, hi.2, hi.3, ?_, ?_⟩
    · simp [closedIn, HEv.isClose]
    · simp only [HistOK]; exact hi.hist

theorem InvA_run {cap n : Nat} {evs : List Event} {s : State}
    (h : run cap (init n) evs = some s) : InvA cap s :=
  run_invariant' InvA_step evs _ _ (InvA_init cap n) h

/-! ### consequences of `HistOK` -/

theorem HistOK_tail {cap : Nat} {e : HEv} {h : List HEv} (hk : HistOK cap (e :: h)) :
    HistOK cap h := by
  cases e <;> simp only [HistOK] at hk
  · exact hk.2.2
  · exact hk.2
  · exact hk.2
  · exact hk.2.2.2
  · exact hk.2.2
  · exact hk.2
  · exact hk

theorem HistOK_suffix {cap : Nat} (h2 h1 : List HEv) (hk : HistOK cap (h2 ++ h1)) :
    HistOK cap h1 := by
  induction h2 with
  | nil => exact hk
  | cons e h2 ih => exact ih (HistOK_tail hk)

theorem closedIn_append_close (a b : List HEv) (t : Nat) :
    closedIn (a ++ HEv.close t :: b) = true := by
  simp [closedIn, List.any_append, HEv.isClose]

theorem closedIn_iff {h : List HEv} : closedIn h = true ↔ ∃ t, HEv.close t ∈ h := by
  simp only [closedIn, List.any_eq_true]
  constructor
  · rintro ⟨e, he, hc⟩
    cases e <;> simp [HEv.isClose] at hc
    exact ⟨_, he⟩
  · rintro ⟨t, ht⟩
    exact ⟨_, ht, rfl⟩

theorem no_admit_after_close {cap : Nat} (h2 h1 : List HEv) (t : Nat)
    (hk : HistOK cap (h2 ++ HEv.close t :: h1)) : ∀ e ∈ h2, ∀ u x, e ≠ HEv.accept u x := by
  induction h2 with
  | nil => intro e he; simp at he
  | cons a h2 ih =>
    intro e he u x
    rcases List.mem_cons.mp he with rfl | he
    · intro ha
      subst ha
      simp only [List.cons_append, HistOK] at hk
      rw [closedIn_append_close] at hk
      exact absurd hk.1 (by simp)
    · exact ih (HistOK_tail hk) e he u x

theorem accepted_perm {cap : Nat} : ∀ (h : List HEv), HistOK cap h →
    (accepted h).Perm (queuedOf h ++ returned h)
  | [], _ => List.Perm.refl _
  | .accept _ x :: h, hk => by
    simp only [accepted, queuedOf, returned, List.cons_append]
    exact (accepted_perm h (HistOK_tail hk)).cons x
  | .take _ x :: h, hk => by
    have ih := accepted_perm h (HistOK_tail hk)
    simp only [HistOK] at hk
    simp only [accepted, queuedOf, returned]
    have h1 : (queuedOf h).Perm (x :: (queuedOf h).erase x) := List.perm_cons_erase hk.1.1
    have h2 : (queuedOf h ++ returned h).Perm (x :: ((queuedOf h).erase x ++ returned h)) :=
      h1.append_right _
    exact ih.trans (h2.trans List.perm_middle.symm)
  | .refuse _ _ :: h, hk => accepted_perm h (HistOK_tail hk)
  | .wouldBlock _ _ :: h, hk => accepted_perm h (HistOK_tail hk)
  | .eos _ :: h, hk => accepted_perm h (HistOK_tail hk)
  | .empty _ :: h, hk => accepted_perm h (HistOK_tail hk)
  | .close _ :: h, hk => accepted_perm h (HistOK_tail hk)

theorem sizeSum_pos_length {l : List Item} (h : 0 < sizeSum l) : 0 < l.length := by
  cases l with
  | nil => simp [sizeSum] at h
  | cons _ _ => simp

/-! ### thread invariant: close leaves no waiter; no lost wake-up on `not_empty` -/

/-- `cnts ht, b`: how the six status counts change when thread `t` (old status known by `ht`)
gets status `b`. -/
macro "cnts " ht:term ", " b:term : tactic => `(tactic| (
  have eWNF := countP_set_of_get isWaitNF $b $ht
  have eNNF := countP_set_of_get isNotifNF $b $ht
  have ePS := countP_set_of_get isPushing $b $ht
  have eWNE := countP_set_of_get isWaitNE $b $ht
  have eNNE := countP_set_of_get isNotifNE $b $ht
  have ePL := countP_set_of_get isPulling $b $ht
  simp only [isWaitNF, isNotifNF, isPushing, isWaitNE, isNotifNE, isPulling, Bool.toNat_true,
    Bool.toNat_false, Nat.add_zero, State.setT, State.enq, State.take, State.log]
    at eWNF eNNF ePS eWNE eNNE ePL))

structure InvB (s : State) : Prop where
  closedNF : s.closed = true → s.thr.countP isWaitNF = 0
  closedNE : s.closed = true → s.thr.countP isWaitNE = 0
  ne : 0 < s.thr.countP isWaitNE →
    s.items.length ≤ s.thr.countP isNotifNE + s.thr.countP isPulling

theorem InvB_init (n : Nat) : InvB (init n) := by
  have h : ∀ p : TStatus → Bool, p .idle = false → (List.replicate n TStatus.idle).countP p = 0 := by
    intro p hp
    rw [List.countP_eq_zero]
    intro a ha
    rw [(List.mem_replicate.mp ha).2, hp]; simp
  refine ⟨fun _ => h _ rfl, fun _ => h _ rfl, fun _ => ?_⟩
  simp [init]

/-- close the three goals of `InvB` once the count equations are in the context -/
macro "bfin " s:term ", " h1:ident h2:ident h3:ident : tactic => `(tactic| (
  refine ⟨fun hc => ?_, fun hc => ?_, fun hw => ?_⟩
  · simp only [State.setT, State.enq, State.take, State.log] at hc ⊢
    first | (have := $h1 hc; omega) | (exfalso; simp_all)
  · simp only [State.setT, State.enq, State.take, State.log] at hc ⊢
    first | (have := $h2 hc; omega) | (exfalso; simp_all)
  · simp only [State.setT, State.enq, State.take, State.log, List.length_cons] at hw ⊢
    by_cases hW : 0 < List.countP isWaitNE (State.thr $s)
    · have := $h3 hW; omega
    · omega))

theorem InvB_step {cap : Nat} (s : State) (e : Event) (s' : State) (hi : InvB s)
    (hs : step cap s e = some s') : InvB s' := by
  obtain ⟨h1, h2, h3⟩ := hi
  cases step_sound hs with
  | @pushEnter t it ht => cnts ht, (.pushing it); bfin s, h1 h2 h3
  | @pushWait t it ht hfull hne hc => cnts ht, (.waitNF it); bfin s, h1 h2 h3
  | @pushWake t it ht => cnts ht, (.pushing it); bfin s, h1 h2 h3
  | @pushSpur t it ht => cnts ht, (.pushing it); bfin s, h1 h2 h3
  | @pushRefuse t it ht hc => cnts ht, .idle; bfin s, h1 h2 h3
  | @pushAdmit _ t it w ht hfit hc hn =>
    cnts ht, .idle
    cases hn with
    | @some u hu => cnts hu, .notifNE; bfin s, h1 h2 h3
    | none hz => simp only [State.setT, State.enq] at hz; bfin s, h1 h2 h3
  | tryPushRefuse ht hc => exact ⟨h1, h2, h3⟩
  | tryPushWouldBlock ht hc hfull hne => exact ⟨h1, h2, h3⟩
  | @tryPushAdmit _ t it w ht hc hfit hn =>
    cases hn with
    | @some u hu => cnts hu, .notifNE; bfin s, h1 h2 h3
    | none hz => simp only [State.enq] at hz; bfin s, h1 h2 h3
  | @pullEnter t ht => cnts ht, .pulling; bfin s, h1 h2 h3
  | @pullWait t ht he hc =>
    cnts ht, .waitNE
    have hl : s.items.length = 0 := by rw [he]; rfl
    bfin s, h1 h2 h3
  | @pullWake t ht => cnts ht, .pulling; bfin s, h1 h2 h3
  | @pullSpur t ht => cnts ht, .pulling; bfin s, h1 h2 h3
  | @pullEos t ht he hc =>
    cnts ht, .idle
    have := h2 hc
    bfin s, h1 h2 h3
  | @pullTake _ t it w ht hm hmax hn =>
    cnts ht, .idle
    have hl := List.length_erase_of_mem hm
    have hp := List.length_pos_of_mem hm
    cases hn with
    | @some u x hu => cnts hu, (.notifNF x); bfin s, h1 h2 h3
    | none hz => simp only [State.setT, State.take] at hz; bfin s, h1 h2 h3
  | tryPullEmpty ht he => exact ⟨h1, h2, h3⟩
  | @tryPullTake _ t it w ht hm hmax hn =>
    have hl := List.length_erase_of_mem hm
    have hp := List.length_pos_of_mem hm
    cases hn with
    | @some u x hu => cnts hu, (.notifNF x); bfin s, h1 h2 h3
    | none hz => simp only [State.take] at hz; bfin s, h1 h2 h3
  | @close t ht =>
    refine ⟨fun _ => countP_wakeAll_waitNF _, fun _ => countP_wakeAll_waitNE _, fun hw => ?_⟩
    simp only [countP_wakeAll_waitNE] at hw
    omega

theorem InvB_run {cap n : Nat} {evs : List Event} {s : State}
    (h : run cap (init n) evs = some s) : InvB s :=
  run_invariant' InvB_step evs _ _ (InvB_init n) h

/-! ### `not_full`, any number of producers: the weak no-lost-wake-up invariant -/

/-- every `push` that is started carries an item that fits on its own (only used to state
witnesses; since the repair of D5 no invariant needs it) -/
def FitsEv (cap : Nat) : Event → Prop
  | .pushEnter _ it => it.size ≤ cap
  | _ => True

instance (cap : Nat) : DecidablePred (FitsEv cap) := fun e => by
  cases e <;> simp only [FitsEv] <;> infer_instance

/-- A producer goes to sleep only on a non-empty queue (line 108), and the take that empties the
queue notifies: while a producer sleeps un-notified the queue is non-empty or a producer is on its
way. No hypothesis on the sizes. -/
structure InvC (s : State) : Prop where
  b : InvB s
  nf : 0 < s.thr.countP isWaitNF →
    0 < s.items.length + s.thr.countP isNotifNF + s.thr.countP isPushing

theorem InvC_init (n : Nat) : InvC (init n) := by
  refine ⟨InvB_init n, ?_⟩
  intro h
  exfalso
  have : (init n).thr.countP isWaitNF = 0 := by
    rw [List.countP_eq_zero]
    intro a ha
    rw [(List.mem_replicate.mp ha).2]; simp [isWaitNF]
  omega

/-- close the `nf` goal of `InvC` once the count equations are in the context -/
macro "cfin " s:term ", " h4:ident : tactic => `(tactic| (
  intro hw
  simp only [State.setT, State.enq, State.take, State.log, List.length_cons] at hw ⊢
  by_cases hW : 0 < List.countP isWaitNF (State.thr $s)
  · have := $h4 hW; omega
  · omega))

theorem InvC_step {cap : Nat} (s : State) (e : Event) (s' : State) (hi : InvC s)
    (hs : step cap s e = some s') : InvC s' := by
  obtain ⟨hb, h4⟩ := hi
  refine ⟨InvB_step s e s' hb hs, ?_⟩
  cases step_sound hs with
  | @pushEnter t it ht => cnts ht, (.pushing it); cfin s, h4
  | @pushWait t it ht hfull hne hc =>
    cnts ht, (.waitNF it)
    have hpos : 0 < s.items.length := List.length_pos_iff.mpr hne
    cfin s, h4
  | @pushWake t it ht => cnts ht, (.pushing it); cfin s, h4
  | @pushSpur t it ht => cnts ht, (.pushing it); cfin s, h4
  | @pushRefuse t it ht hc =>
    cnts ht, .idle
    have := hb.closedNF hc
    cfin s, h4
  | @pushAdmit _ t it w ht hfit hc hn =>
    cnts ht, .idle
    cases hn with
    | @some u hu => cnts hu, .notifNE; cfin s, h4
    | none hz => cfin s, h4
  | tryPushRefuse ht hc => exact h4
  | tryPushWouldBlock ht hc hfull hne => exact h4
  | @tryPushAdmit _ t it w ht hc hfit hn =>
    cases hn with
    | @some u hu => cnts hu, .notifNE; cfin s, h4
    | none hz => cfin s, h4
  | @pullEnter t ht => cnts ht, .pulling; cfin s, h4
  | @pullWait t ht he hc => cnts ht, .waitNE; cfin s, h4
  | @pullWake t ht => cnts ht, .pulling; cfin s, h4
  | @pullSpur t ht => cnts ht, .pulling; cfin s, h4
  | @pullEos t ht he hc => cnts ht, .idle; cfin s, h4
  | @pullTake _ t it w ht hm hmax hn =>
    cnts ht, .idle
    cases hn with
    | @some u x hu => cnts hu, (.notifNF x); cfin s, h4
    | none hz => simp only [State.setT, State.take] at hz; cfin s, h4
  | tryPullEmpty ht he => exact h4
  | @tryPullTake _ t it w ht hm hmax hn =>
    cases hn with
    | @some u x hu => cnts hu, (.notifNF x); cfin s, h4
    | none hz => simp only [State.take] at hz; cfin s, h4
  | @close t ht =>
    intro hw
    simp only [countP_wakeAll_waitNF] at hw
    omega

theorem InvC_run {cap n : Nat} {evs : List Event} {s : State}
    (h : run cap (init n) evs = some s) : InvC s :=
  run_invariant' InvC_step evs _ _ (InvC_init n) h

/-! ### `not_full`, one producer: a waiting producer really does not fit -/

/-- only thread `p` calls the blocking `push` -/
def OnlyPusher (p : Nat) : Event → Prop
  | .pushEnter t _ => t = p
  | _ => True

instance (p : Nat) : DecidablePred (OnlyPusher p) := fun e => by
  cases e <;> simp only [OnlyPusher] <;> infer_instance

structure InvD (cap p : Nat) (s : State) : Prop where
  only : ∀ t st, s.thr[t]? = some st → st.item? ≠ none → t = p
  wait : ∀ (t : Nat) (it : Item), s.thr[t]? = some (TStatus.waitNF it) →
    s.cur + it.size > cap ∧ s.items ≠ [] ∧ s.closed = false

theorem InvD_init (cap p n : Nat) : InvD cap p (init n) := by
  constructor
  · intro t st h hne
    simp only [init, List.getElem?_replicate] at h
    split at h <;> simp at h
    subst h; simp [item?] at hne
  · intro t it h
    simp only [init, List.getElem?_replicate] at h
    split at h <;> simp at h

/-- status of `u` after thread `t` got status `b` -/
theorem get_set {l : List TStatus} {t u : Nat} {b st : TStatus}
    (h : (l.set t b)[u]? = some st) : (u = t ∧ st = b) ∨ (u ≠ t ∧ l[u]? = some st) := by
  rw [List.getElem?_set] at h
  by_cases htu : t = u
  · subst htu
    simp only [↓reduceIte] at h
    split at h
    · simp only [Option.some.injEq] at h; exact .inl ⟨rfl, h.symm⟩
    · simp at h
  · simp only [htu, ↓reduceIte] at h
    exact .inr ⟨fun h' => htu h'.symm, h⟩

theorem InvD_setT {cap p : Nat} {s : State} {t : Nat} {b : TStatus} (hi : InvD cap p s)
    (hb1 : b.item? ≠ none → t = p)
    (hb2 : ∀ it, b = .waitNF it → s.cur + it.size > cap ∧ s.items ≠ [] ∧ s.closed = false) :
    InvD cap p (s.setT t b) := by
  constructor
  · intro u st h hne
    rcases get_set h with ⟨rfl, rfl⟩ | ⟨_, h'⟩
    · exact hb1 hne
    · exact hi.only u st h' hne
  · intro u it h
    rcases get_set h with ⟨rfl, hb⟩ | ⟨_, h'⟩
    · exact hb2 it hb.symm
    · exact hi.wait u it h'

theorem InvD_step {cap p : Nat} (s : State) (e : Event) (s' : State) (hi : InvD cap p s)
    (hq : OnlyPusher p e) (hs : step cap s e = some s') : InvD cap p s' := by
  have carried : ∀ {t : Nat} {st : TStatus}, s.thr[t]? = some st → st.item? ≠ none → t = p :=
    fun h hne => hi.only _ _ h hne
  cases step_sound hs with
  | @pushEnter t it ht =>
    exact InvD_setT hi (fun _ => hq) (fun it' h => by cases h)
  | @pushWait t it ht hfull hne hc =>
    refine InvD_setT hi (fun _ => carried ht (by simp [item?])) (fun it' h => ?_)
    cases h; exact ⟨hfull, hne, hc⟩
  | @pushWake t it ht =>
    exact InvD_setT hi (fun _ => carried ht (by simp [item?])) (fun it' h => by cases h)
  | @pushSpur t it ht =>
    exact InvD_setT hi (fun _ => carried ht (by simp [item?])) (fun it' h => by cases h)
  | @pushRefuse t it ht hc =>
    have := InvD_setT (t := t) (b := .idle) hi (fun h => absurd rfl h) (fun it' h => by cases h)
    exact ⟨this.only, this.wait⟩
  | @pushAdmit _ t it w ht hfit hc hn =>
    have h1 : InvD cap p (s.setT t .idle) :=
      InvD_setT hi (fun h => absurd rfl h) (fun it' h => by cases h)
    have h2 : InvD cap p ((s.setT t .idle).enq t it) := by
      refine ⟨h1.only, fun u x hu => ?_⟩
      have := h1.wait u x hu
      simp only [State.enq, State.setT] at this ⊢
      exact ⟨by omega, by simp, this.2.2⟩
    cases hn with
    | @some u hu => exact InvD_setT h2 (fun h => absurd rfl h) (fun it' h => by cases h)
    | none hz => exact h2
  | tryPushRefuse ht hc => exact ⟨hi.only, hi.wait⟩
  | tryPushWouldBlock ht hc hfull hne => exact ⟨hi.only, hi.wait⟩
  | @tryPushAdmit _ t it w ht hc hfit hn =>
    have h2 : InvD cap p (s.enq t it) := by
      refine ⟨hi.only, fun u x hu => ?_⟩
      have := hi.wait u x hu
      simp only [State.enq] at this ⊢
      exact ⟨by omega, by simp, this.2.2⟩
    cases hn with
    | @some u hu => exact InvD_setT h2 (fun h => absurd rfl h) (fun it' h => by cases h)
    | none hz => exact h2
  | @pullEnter t ht => exact InvD_setT hi (fun h => absurd rfl h) (fun it' h => by cases h)
  | @pullWait t ht he hc => exact InvD_setT hi (fun h => absurd rfl h) (fun it' h => by cases h)
  | @pullWake t ht => exact InvD_setT hi (fun h => absurd rfl h) (fun it' h => by cases h)
  | @pullSpur t ht => exact InvD_setT hi (fun h => absurd rfl h) (fun it' h => by cases h)
  | @pullEos t ht he hc =>
    have := InvD_setT (t := t) (b := .idle) hi (fun h => absurd rfl h) (fun it' h => by cases h)
    exact ⟨this.only, this.wait⟩
  | @pullTake _ t it w ht hm hmax hn =>
    -- after the take the size went down; the only possible waiter (p) is the one notified
    cases hn with
    | @some u x hu =>
      have hu' : (s.thr.set t .idle)[u]? = some (.waitNF x) := hu
      rcases get_set hu' with ⟨_, hb⟩ | ⟨hut, hu0⟩
      · cases hb
      have hup : u = p := carried hu0 (by simp [item?])
      constructor
      · intro v st hv hne
        rcases get_set hv with ⟨rfl, rfl⟩ | ⟨_, hv'⟩
        · exact hup
        rcases get_set hv' with ⟨rfl, rfl⟩ | ⟨_, hv''⟩
        · exact absurd rfl hne
        · exact carried hv'' hne
      · intro v y hv
        exfalso
        rcases get_set hv with ⟨rfl, hb⟩ | ⟨hvu, hv'⟩
        · cases hb
        rcases get_set hv' with ⟨rfl, hb⟩ | ⟨_, hv''⟩
        · cases hb
        · exact hvu ((carried hv'' (by simp [item?])).trans hup.symm)
    | none hz =>
      constructor
      · intro v st hv hne
        rcases get_set hv with ⟨rfl, rfl⟩ | ⟨_, hv'⟩
        · exact absurd rfl hne
        · exact carried hv' hne
      · intro v y hv
        exfalso
        have := countP_pos_of_get isWaitNF hv rfl
        omega
  | tryPullEmpty ht he => exact ⟨hi.only, hi.wait⟩
  | @tryPullTake _ t it w ht hm hmax hn =>
    cases hn with
    | @some u x hu =>
      have hu0 : s.thr[u]? = some (.waitNF x) := hu
      have hup : u = p := carried hu0 (by simp [item?])
      constructor
      · intro v st hv hne
        rcases get_set hv with ⟨rfl, rfl⟩ | ⟨_, hv'⟩
        · exact hup
        · exact carried hv' hne
      · intro v y hv
        exfalso
        rcases get_set hv with ⟨rfl, hb⟩ | ⟨hvu, hv'⟩
        · cases hb
        · exact hvu ((carried hv' (by simp [item?])).trans hup.symm)
    | none hz =>
      refine ⟨hi.only, ?_⟩
      intro v y hv
      exfalso
      have := countP_pos_of_get isWaitNF hv rfl
      omega
  | @close t ht =>
    constructor
    · intro v st hv hne
      simp only [List.getElem?_map, Option.map_eq_some_iff] at hv
      obtain ⟨b, hb, rfl⟩ := hv
      refine carried hb ?_
      cases b <;> exact hne
    · intro v y hv
      exfalso
      simp only [List.getElem?_map, Option.map_eq_some_iff] at hv
      obtain ⟨b, _, hb⟩ := hv
      cases b <;> simp [wakeAll] at hb

theorem InvD_run {cap p n : Nat} {evs : List Event} {s : State}
    (hq : ∀ e ∈ evs, OnlyPusher p e) (h : run cap (init n) evs = some s) : InvD cap p s :=
  run_invariant (Q := OnlyPusher p) InvD_step evs _ _ (InvD_init cap p n) hq h

/-! ### after close every unfinished call can complete -/

theorem all_not_of_countP_zero {α} (p : α → Bool) {l : List α} (h : l.countP p = 0) :
    l.all (fun x => !p x) = true := by
  rw [List.all_eq_true]
  intro x hx
  have := List.countP_eq_zero.mp h x hx
  simpa using this

theorem get_set_self {l : List TStatus} {t : Nat} {a b : TStatus} (h : l[t]? = some a) :
    (l.set t b)[t]? = some b := by
  have hlt : t < l.length := (List.getElem?_eq_some_iff.mp h).1
  rw [List.getElem?_set]; simp [hlt]

/-- Once the queue is closed, a thread inside a call always has an enabled event of its own that
brings it strictly closer to returning (`rank`: waiting 3, notified 2, running 1, returned 0). -/
theorem closed_progress_aux {cap : Nat} {s : State} (hb : InvB s) (hc : s.closed = true)
    {t : Nat} {st : TStatus} (ht : s.thr[t]? = some st) (hne : st ≠ .idle) :
    ∃ e s' st', e.tid = t ∧ step cap s e = some s' ∧ s'.thr[t]? = some st' ∧ st'.rank < st.rank := by
  cases st with
  | idle => exact absurd rfl hne
  | pushing it =>
    refine ⟨.pushRefuse t, (s.setT t .idle).log (.refuse t it), .idle, rfl, ?_, get_set_self ht, by simp [rank]⟩
    simp [step, ht, hc]
  | waitNF it =>
    exfalso
    have := countP_pos_of_get isWaitNF ht rfl
    have := hb.closedNF hc
    omega
  | notifNF it =>
    refine ⟨.pushWake t, s.setT t (.pushing it), .pushing it, rfl, ?_, get_set_self ht, by simp [rank]⟩
    simp [step, ht]
  | pulling =>
    by_cases he : s.items = []
    · refine ⟨.pullEos t, (s.setT t .idle).log (.eos t), .idle, rfl, ?_, get_set_self ht, by simp [rank]⟩
      simp [step, ht, hc, he]
    · obtain ⟨it, hmax⟩ := exists_isMax he
      have hz : (s.thr.set t .idle).countP isWaitNF = 0 := by
        have e := countP_set_of_get isWaitNF .idle ht
        have := hb.closedNF hc
        simp only [isWaitNF, Bool.toNat_false, Nat.add_zero] at e
        omega
      refine ⟨.pullTake t it none, (s.setT t .idle).take t it, .idle, rfl, ?_, get_set_self ht, by simp [rank]⟩
      simp only [step, ht, hmax, and_self, ↓reduceIte, notifyNF]
      rw [if_pos]
      exact all_not_of_countP_zero _ hz
  | waitNE =>
    exfalso
    have := countP_pos_of_get isWaitNE ht rfl
    have := hb.closedNE hc
    omega
  | notifNE =>
    refine ⟨.pullWake t, s.setT t .pulling, .pulling, rfl, ?_, get_set_self ht, by simp [rank]⟩
    simp [step, ht]

/-! ### provenance: whatever is carried or accepted was offered by a push event -/

/-- every item offered to the queue by `e` satisfies `R` -/
def OffersOnly (R : Item → Prop) : Event → Prop
  | .pushEnter _ it => R it
  | .tryPushAdmit _ it _ => R it
  | _ => True

instance (R : Item → Prop) [DecidablePred R] : DecidablePred (OffersOnly R) := fun e => by
  cases e <;> simp only [OffersOnly] <;> infer_instance

structure InvR (R : Item → Prop) (s : State) : Prop where
  carried : ∀ st ∈ s.thr, ∀ it, st.item? = some it → R it
  acc : ∀ x ∈ accepted s.hist, R x

theorem InvR_init (R : Item → Prop) (n : Nat) : InvR R (init n) := by
  constructor
  · intro st hst it hit
    rw [(List.mem_replicate.mp hst).2] at hit
    simp [item?] at hit
  · intro x hx; simp [init, accepted] at hx

theorem carried_set {R : Item → Prop} {l : List TStatus} {t : Nat} {b : TStatus}
    (h : ∀ st ∈ l, ∀ it, st.item? = some it → R it)
    (hb : ∀ it, b.item? = some it → R it) :
    ∀ st ∈ l.set t b, ∀ it, st.item? = some it → R it := by
  intro st hst
  rcases List.mem_or_eq_of_mem_set hst with h' | rfl
  · exact h st h'
  · exact hb

theorem InvR_step {cap : Nat} {R : Item → Prop} (s : State) (e : Event) (s' : State)
    (hi : InvR R s) (hq : OffersOnly R e) (hs : step cap s e = some s') : InvR R s' := by
  obtain ⟨h3, h5⟩ := hi
  have hsame : ∀ it' (st : TStatus), (∃ t, s.thr[t]? = some st) → st.item? = some it' → R it' :=
    fun it' st ⟨t, ht⟩ => h3 st (List.mem_of_getElem? ht) it'
  have hidle : ∀ it, idle.item? = some it → R it := fun it h => by simp [item?] at h
  cases step_sound hs with
  | @pushEnter t it ht =>
    exact ⟨carried_set h3 (fun it' h => by
      simp only [item?, Option.some.injEq] at h; subst h; exact hq), h5⟩
  | @pushWait t it ht hfull hne hc =>
    exact ⟨carried_set h3 (fun it' h => by
      simp only [item?, Option.some.injEq] at h; subst h; exact hsame _ _ ⟨t, ht⟩ rfl), h5⟩
  | @pushWake t it ht =>
    exact ⟨carried_set h3 (fun it' h => by
      simp only [item?, Option.some.injEq] at h; subst h; exact hsame _ _ ⟨t, ht⟩ rfl), h5⟩
  | @pushSpur t it ht =>
    exact ⟨carried_set h3 (fun it' h => by
      simp only [item?, Option.some.injEq] at h; subst h; exact hsame _ _ ⟨t, ht⟩ rfl), h5⟩
  | @pushRefuse t it ht hc => exact ⟨carried_set h3 hidle, h5⟩
  | @pushAdmit _ t it w ht hfit hc hn =>
    have h3' := carried_set (t := t) (b := .idle) h3 hidle
    have hacc : ∀ x ∈ it :: accepted s.hist, R x := by
      intro x hx
      rcases List.mem_cons.mp hx with rfl | hx
      · exact hsame _ _ ⟨t, ht⟩ rfl
      · exact h5 x hx
    cases hn with
    | @some u hu => exact ⟨carried_set h3' (fun it' h => by simp [item?] at h), hacc⟩
    | none hz => exact ⟨h3', hacc⟩
  | tryPushRefuse ht hc => exact ⟨h3, h5⟩
  | tryPushWouldBlock ht hc hfull hne => exact ⟨h3, h5⟩
  | @tryPushAdmit _ t it w ht hc hfit hn =>
    have hacc : ∀ x ∈ it :: accepted s.hist, R x := by
      intro x hx
      rcases List.mem_cons.mp hx with rfl | hx
      · exact hq
      · exact h5 x hx
    cases hn with
    | @some u hu => exact ⟨carried_set h3 (fun it' h => by simp [item?] at h), hacc⟩
    | none hz => exact ⟨h3, hacc⟩
  | @pullEnter t ht => exact ⟨carried_set h3 (fun it' h => by simp [item?] at h), h5⟩
  | @pullWait t ht he hc => exact ⟨carried_set h3 (fun it' h => by simp [item?] at h), h5⟩
  | @pullWake t ht => exact ⟨carried_set h3 (fun it' h => by simp [item?] at h), h5⟩
  | @pullSpur t ht => exact ⟨carried_set h3 (fun it' h => by simp [item?] at h), h5⟩
  | @pullEos t ht he hc => exact ⟨carried_set h3 hidle, h5⟩
  | @pullTake _ t it w ht hm hmax hn =>
    have h3' := carried_set (t := t) (b := .idle) h3 hidle
    cases hn with
    | @some u x hu =>
      refine ⟨carried_set h3' (fun it' h => ?_), h5⟩
      simp only [item?, Option.some.injEq] at h; subst h
      exact h3' _ (List.mem_of_getElem? hu) _ rfl
    | none hz => exact ⟨h3', h5⟩
  | tryPullEmpty ht he => exact ⟨h3, h5⟩
  | @tryPullTake _ t it w ht hm hmax hn =>
    cases hn with
    | @some u x hu =>
      refine ⟨carried_set h3 (fun it' h => ?_), h5⟩
      simp only [item?, Option.some.injEq] at h; subst h
      exact h3 _ (List.mem_of_getElem? hu) _ rfl
    | none hz => exact ⟨h3, h5⟩
  | @close t ht =>
    refine ⟨?_, h5⟩
    intro st hst it' hit
    obtain ⟨b, hb, rfl⟩ := List.mem_map.mp hst
    refine h3 b hb it' ?_
    cases b <;> exact hit

theorem InvR_run {cap n : Nat} {R : Item → Prop} {evs : List Event} {s : State}
    (hq : ∀ e ∈ evs, OffersOnly R e) (h : run cap (init n) evs = some s) : InvR R s :=
  run_invariant (Q := OffersOnly R) InvR_step evs _ _ (InvR_init R n) hq h

/-- the items that the events of a run offer to the queue -/
def offered : List Event → List Item
  | [] => []
  | .pushEnter _ it :: es => it :: offered es
  | .tryPushAdmit _ it _ :: es => it :: offered es
  | _ :: es => offered es

theorem offersOnly_mono {R R' : Item → Prop} (h : ∀ x, R x → R' x) {e : Event}
    (he : OffersOnly R e) : OffersOnly R' e := by
  cases e <;> first | exact trivial | exact h _ he

theorem offersOnly_offered (evs : List Event) : ∀ e ∈ evs, OffersOnly (· ∈ offered evs) e := by
  induction evs with
  | nil => intro e he; simp at he
  | cons a es ih =>
    intro e he
    rcases List.mem_cons.mp he with rfl | he
    · cases e <;> simp [OffersOnly, offered]
    · refine offersOnly_mono (fun x hx => ?_) (ih e he)
      cases a <;> simp [offered, hx]

/-! ### concrete runs (non-vacuity and witnesses) -/
namespace Demo

def a : Item := ⟨1, 7, 4⟩
def b : Item := ⟨2, 9, 6⟩
def c : Item := ⟨3, 9, 1⟩

/-- three threads: 0 produces, 1 consumes, 2 closes. The consumer blocks on the empty queue and is
notified; the producer blocks on the full queue and is notified; two items of equal priority are
queued together; close wakes the blocked consumer; the last push is refused. -/
def evs : List Event :=
  [ .pullEnter 1, .pullWait 1,                       -- consumer blocks: queue empty
    .pushEnter 0 a, .pushAdmit 0 (some 1),           -- admit a, notify the consumer
    .pushEnter 0 b, .pushAdmit 0 none,               -- a+b = 10 = cap
    .pushEnter 0 c, .pushWait 0,                     -- c does not fit: producer blocks
    .pullWake 1, .pullTake 1 b (some 0),             -- b (prio 9) before a (prio 7); notify producer
    .pushWake 0, .pushAdmit 0 none,                  -- now c fits
    .pullEnter 1, .pullTake 1 c none,
    .pullEnter 1, .pullTake 1 a none,
    .pullEnter 1, .pullWait 1,                       -- blocks again
    .close 2,                                        -- notify_all
    .pullWake 1, .pullEos 1,
    .pushEnter 0 a, .pushRefuse 0 ]

def final : State :=
  { items := [], cur := 0, closed := true, thr := [.idle, .idle, .idle],
    hist := [.refuse 0 a, .eos 1, .close 2, .take 1 a, .take 1 c, .accept 0 c, .take 1 b,
             .accept 0 b, .accept 0 a] }

theorem run_evs : run 10 (init 3) evs = some final := by decide

/-- a prefix that stops in a state with a blocked producer and queued items -/
def mid : State :=
  { items := [b, a], cur := 10, closed := false, thr := [.waitNF c, .notifNE, .idle],
    hist := [.accept 0 b, .accept 0 a] }

theorem run_mid : run 10 (init 3) (evs.take 8) = some mid := by decide

/-- right after `close`: the blocked consumer has been notified and has not resumed yet -/
def afterClose : State :=
  { items := [], cur := 0, closed := true, thr := [.idle, .notifNE, .idle],
    hist := [.close 2, .take 1 a, .take 1 c, .accept 0 c, .take 1 b, .accept 0 b, .accept 0 a] }

theorem run_afterClose : run 10 (init 3) (evs.take 19) = some afterClose := by decide

/-- the consumer asleep on the empty queue -/
def asleep : State := { items := [], cur := 0, closed := false, thr := [.idle, .waitNE, .idle], hist := [] }

theorem run_asleep : run 10 (init 3) (evs.take 2) = some asleep := by decide

end Demo
/-! ### stuck states (witnesses) -/

theorem get3 {a b c x : TStatus} {t : Nat} (h : [a, b, c][t]? = some x) :
    (t = 0 ∧ a = x) ∨ (t = 1 ∧ b = x) ∨ (t = 2 ∧ c = x) := by
  match t, h with
  | 0, h => simp at h; exact .inl ⟨rfl, h⟩
  | 1, h => simp at h; exact .inr (.inl ⟨rfl, h⟩)
  | 2, h => simp at h; exact .inr (.inr ⟨rfl, h⟩)
  | t + 3, h => simp at h

theorem get2 {a b x : TStatus} {t : Nat} (h : [a, b][t]? = some x) :
    (t = 0 ∧ a = x) ∨ (t = 1 ∧ b = x) := by
  match t, h with
  | 0, h => simp at h; exact .inl ⟨rfl, h⟩
  | 1, h => simp at h; exact .inr ⟨rfl, h⟩
  | t + 2, h => simp at h

/-- the status a thread must have to take event `e` -/
def Event.pre : Event → TStatus → Bool
  | .pushEnter _ _ | .tryPushRefuse _ _ | .tryPushWouldBlock _ _ | .tryPushAdmit _ _ _
  | .pullEnter _ | .tryPullEmpty _ | .tryPullTake _ _ _ | .close _ => isIdle
  | .pushWait _ | .pushRefuse _ | .pushAdmit _ _ => isPushing
  | .pushWake _ => isNotifNF
  | .pushSpur _ => isWaitNF
  | .pullWait _ | .pullEos _ | .pullTake _ _ _ => isPulling
  | .pullWake _ => isNotifNE
  | .pullSpur _ => isWaitNE

theorem step_pre {cap : Nat} {s s' : State} {e : Event} (h : step cap s e = some s') :
    ∃ st, s.thr[e.tid]? = some st ∧ e.pre st = true := by
  cases step_sound h <;> exact ⟨_, ‹_ = some _›, rfl⟩

namespace Demo

/-! two producers: a wake-up goes to the one that cannot use it -/
def X : Item := ⟨1, 0, 5⟩
def Y : Item := ⟨2, 0, 5⟩
def A : Item := ⟨3, 0, 10⟩
def B : Item := ⟨4, 0, 5⟩

/-- capacity 10. Thread 0 fills the queue with X and Y (5+5); producer 1 blocks with A (10),
producer 2 blocks with B (5); thread 0 takes X, the `notify_one` goes to producer 1, which wakes,
still does not fit (5+10 > 10) and waits again. -/
def evs2 : List Event :=
  [ .tryPushAdmit 0 X none, .tryPushAdmit 0 Y none,
    .pushEnter 1 A, .pushWait 1,
    .pushEnter 2 B, .pushWait 2,
    .tryPullTake 0 X (some 1),
    .pushWake 1, .pushWait 1 ]

def stuck2 : State :=
  { items := [Y], cur := 5, closed := false, thr := [.idle, .waitNF A, .waitNF B],
    hist := [.take 0 X, .accept 0 Y, .accept 0 X] }

theorem run_evs2 : run 10 (init 3) evs2 = some stuck2 := by decide

/-- in `stuck2` only thread 0 (by starting a new call) or a spurious wake-up can do anything -/
theorem stuck2_enabled (e : Event) (s' : State) (h : step 10 stuck2 e = some s') :
    e.tid = 0 ∨ e = .pushSpur 1 ∨ e = .pushSpur 2 := by
  obtain ⟨st, ht, hp⟩ := step_pre h
  rcases get3 ht with ⟨h0, _⟩ | ⟨h1, rfl⟩ | ⟨h2, rfl⟩
  · exact .inl h0
  · right; left
    cases e <;> simp [Event.pre, isIdle, isPushing, isNotifNF, isWaitNF, isPulling, isNotifNE, isWaitNE] at hp
    simp only [Event.tid] at h1; rw [h1]
  · right; right
    cases e <;> simp [Event.pre, isIdle, isPushing, isNotifNF, isWaitNF, isPulling, isNotifNE, isWaitNE] at hp
    simp only [Event.tid] at h2; rw [h2]

/-! an item larger than the capacity (after the repair of D5, commit c0ac607) -/
def Big : Item := ⟨1, 0, 6⟩
def small : Item := ⟨2, 0, 2⟩

/-- capacity 4, empty queue, a sleeping consumer: the 6-byte item is admitted at once, the consumer
is notified and takes it.

Before the repair the same prefix `[pullEnter 1, pullWait 1, pushEnter 0 Big]` continued with
`pushWait 0` into `{items := [], thr := [waitNF Big, waitNE]}`, a state in which only spurious
wake-ups were enabled (the former witness `oversize_blocks`, defect D5). -/
def evs3 : List Event :=
  [ .pullEnter 1, .pullWait 1, .pushEnter 0 Big, .pushAdmit 0 (some 1), .pullWake 1,
    .pullTake 1 Big none ]

/-- after the admission: 6 bytes queued with capacity 4, exactly one item -/
def over3 : State :=
  { items := [Big], cur := 6, closed := false, thr := [.idle, .notifNE], hist := [.accept 0 Big] }

def final3 : State :=
  { items := [], cur := 0, closed := false, thr := [.idle, .idle],
    hist := [.take 1 Big, .accept 0 Big] }

theorem run_over3 : run 4 (init 2) (evs3.take 4) = some over3 := by decide
theorem run_evs3 : run 4 (init 2) evs3 = some final3 := by decide

/-- capacity 4, 2 bytes queued: the 6-byte push sleeps (non-empty queue), the take that empties the
queue notifies it, and it is admitted into the empty queue. -/
def evs4 : List Event :=
  [ .tryPushAdmit 0 small none, .pushEnter 0 Big, .pushWait 0, .tryPullTake 1 small (some 0),
    .pushWake 0, .pushAdmit 0 none ]

def final4 : State :=
  { items := [Big], cur := 6, closed := false, thr := [.idle, .idle],
    hist := [.accept 0 Big, .take 1 small, .accept 0 small] }

theorem run_evs4 : run 4 (init 2) evs4 = some final4 := by decide

end Demo

/-! ### `notify_one` can always be resolved; what a thread inside `push` can do -/

theorem notifyNE_enabled (s : State) : ∃ w s', notifyNE s w = some s' := by
  by_cases h : s.thr.countP isWaitNE = 0
  · exact ⟨none, s, by simp only [notifyNE, all_not_of_countP_zero _ h, ↓reduceIte]⟩
  · obtain ⟨x, hx, hw⟩ := List.countP_pos_iff.mp (Nat.pos_of_ne_zero h)
    obtain ⟨u, hu⟩ := List.getElem?_of_mem hx
    have : x = .waitNE := by cases x <;> simp [isWaitNE] at hw; rfl
    subst this
    exact ⟨some u, s.setT u .notifNE, by simp only [notifyNE, hu, ↓reduceIte]⟩

end Ragc.Queue
